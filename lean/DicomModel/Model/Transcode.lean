/-
Model of `pixeldata/src/transcode.rs` — `Transcode::transcode_with_options` for in-memory file
objects: the decision table, `decode_inline`, `decode_and_encode`, together with the pixel data
readers/writers it calls:

* native pixel data (`decode_pixel_data` native arm: the value bytes as they are),
* `UncompressedAdapter` (`transfer-syntax-registry/src/adapters/uncompressed.rs`): `encode_frame`
  slices the frame, `decode` concatenates the fragments leaving out the pad byte of an odd frame,
* a per-fragment codec (`DeflatedImageFrameAdapter` and any other lossless codec): a parameter
  `enc`/`dec`; `decode` decodes every fragment and concatenates.

The default `PixelDataWriter::encode` (offset table, NUL padding) is `Dicom.Encap.encodeDefault`.
Not modelled: the JPEG baseline ↔ JPEG XL recompression shortcut (lossy syntaxes, outside C19).
-/
import DicomModel.Model.Encap
namespace Dicom.Transcode
open Dicom.Encap

/-- pixel data adapters of a transfer syntax with encapsulated pixel data -/
inductive Adapter where
  /-- `UncompressedAdapter` -/
  | uncompressed
  /-- one codec call per frame / fragment -/
  | perFragment (enc : Bytes → Bytes) (dec : Bytes → Option Bytes)

/-- a transfer syntax, as far as transcoding is concerned -/
inductive Kind where
  /-- pixel data not encapsulated (`Codec::None`, `Codec::Dataset(_)`) -/
  | native
  /-- `Codec::EncapsulatedPixelData(reader, writer)` (both from the same adapter here) -/
  | encapsulated (adapter : Adapter) (canRead canWrite : Bool)

structure Ts where
  uid : Nat
  kind : Kind

def Ts.isEncap (t : Ts) : Bool := match t.kind with | .native => false | .encapsulated .. => true

inductive Pixel where
  | native (data : Bytes)
  | encap (table : List Nat) (frags : List Bytes)
deriving DecidableEq, Repr

structure Obj where
  ts : Ts
  rows : Nat
  cols : Nat
  spp : Nat
  bits : Nat
  /-- Number of Frames attribute (`none` = absent) -/
  nframes : Option Nat
  pixel : Pixel
  /-- (7FE0,0003), when present -/
  totalLength : Option Nat

/-- `cols * rows * samples_per_pixel * (bits_allocated / 8)`; `frame_size_of` in the reader
additionally wants a whole number of bytes per sample -/
def Obj.frameSize (o : Obj) : Nat := o.cols * o.rows * o.spp * (o.bits / 8)

def Obj.frameSizeOf (o : Obj) : Option Nat :=
  if o.bits = 0 ∨ o.bits % 8 ≠ 0 then none else some o.frameSize

/-- `without_padding(fragment, frame_size)` -/
def withoutPadding (frag : Bytes) (fsz : Option Nat) : Bytes :=
  match fsz with
  | some size => if size % 2 = 1 ∧ frag.length = size + 1 then frag.take size else frag
  | none => frag

/-- `raw_pixel_data().fragments`: the whole value as one fragment when native -/
def Obj.rawFragments (o : Obj) : List Bytes :=
  match o.pixel with
  | .native d => [d]
  | .encap _ fr => fr

def mapM' (f : Bytes → Option Bytes) : List Bytes → Option (List Bytes)
  | [] => some []
  | x :: xs => match f x, mapM' f xs with
    | some y, some ys => some (y :: ys)
    | _, _ => none

/-- `PixelDataReader::decode` of the adapter -/
def Adapter.decode (a : Adapter) (o : Obj) : Option Bytes :=
  match a with
  | .uncompressed => some ((o.rawFragments.map fun f => withoutPadding f o.frameSizeOf).flatten)
  | .perFragment _ dec => (mapM' dec o.rawFragments).map List.flatten

/-- `decode_pixel_data` (whole image), `none` = an error -/
def decodePixelData (o : Obj) : Option Bytes :=
  match o.ts.kind with
  | .encapsulated a canRead _ => if canRead then a.decode o else none
  | .native =>
    match o.pixel with
    | .native d => some d
    | .encap _ fr => some fr.flatten

/-- `decode_inline(obj, ts)`: 8 and 16 bits allocated only; 16-bit data goes through `Vec<u16>`
(`bytes_to_vec_u16` wants an even number of bytes) -/
def decodeInline (o : Obj) (ts : Ts) : Option Obj :=
  match decodePixelData o with
  | none => none
  | some d =>
    if o.bits = 8 then some { o with pixel := .native d, ts := ts }
    else if o.bits = 16 then
      if d.length % 2 = 0 then some { o with pixel := .native d, ts := ts } else none
    else none

/-- the native image the writers look at -/
def Obj.image (o : Obj) (d : Bytes) : Image :=
  { rows := o.rows, cols := o.cols, spp := o.spp, bits := o.bits, nframes := o.nframes, data := d }

/-- `PixelDataWriter::encode_frame` of the adapter on native data -/
def Adapter.encFrame (a : Adapter) (im : Image) (f : Nat) : Option Bytes :=
  match a with
  | .uncompressed => uncompressedFrame im f
  | .perFragment enc _ => codecFrame enc im f

/-- `decode_and_encode(obj, ts, options)` -/
def decodeAndEncode (o : Obj) (ts : Ts) (ele : Ts) : Option Obj :=
  match ts.kind with
  | .native => none
  | .encapsulated a _ canWrite =>
    if !canWrite then none else
    match decodeInline o ele with
    | none => none
    | some o1 =>
      match o1.pixel with
      | .encap .. => none
      | .native d =>
        match encodeDefault (a.encFrame (o1.image d)) o1.nframes [] [] with
        | none => none
        | some (frags, table) =>
          some { o1 with pixel := .encap table frags, nframes := some table.length,
                         totalLength := some (frags.map List.length).sum, ts := ts }

/-- `transcode_with_options(ts, _)`; `ele` = Explicit VR Little Endian -/
def transcode (o : Obj) (ts : Ts) (ele : Ts) : Option Obj :=
  if o.ts.uid = ts.uid then some o
  else match o.ts.isEncap, ts.isEncap with
    | false, false => some { o with ts := ts }
    | true, false => decodeInline o ts
    | _, true => decodeAndEncode o ts ele

end Dicom.Transcode
