/-
Shared helpers for the executable models and the line-protocol drivers.
Import-free (core Lean only) so that every driver links as a `lean_exe`.
-/
namespace Dicom

/-- A byte string: list of naturals, each intended `< 256`. -/
abbrev Bytes := List Nat

def hexDigit (n : Nat) : Char :=
  if n < 10 then Char.ofNat (48 + n) else Char.ofNat (87 + n)

def hexVal (c : Char) : Option Nat :=
  let n := c.toNat
  if 48 ≤ n ∧ n ≤ 57 then some (n - 48)
  else if 97 ≤ n ∧ n ≤ 102 then some (n - 87)
  else if 65 ≤ n ∧ n ≤ 70 then some (n - 55)
  else none

def unhexAux : List Char → Option Bytes
  | [] => some []
  | [_] => none
  | a :: b :: rest =>
    match hexVal a, hexVal b, unhexAux rest with
    | some x, some y, some r => some ((16 * x + y) :: r)
    | _, _, _ => none

/-- `-` is the empty byte string, otherwise lowercase/uppercase hex pairs. -/
def unhex (s : String) : Option Bytes :=
  if s == "-" then some [] else unhexAux s.toList

def hexOf (bs : Bytes) : String :=
  if bs.isEmpty then "-" else
  String.ofList (bs.flatMap fun b => [hexDigit (b / 16 % 16), hexDigit (b % 16)])

/-- UTF-8 decode of a byte list into code points (lenient: used only for printing/diagnostics
and for text that the harness produced from valid Rust `String`s). -/
def utf8DecodeAux : Nat → Bytes → List Nat
  | 0, _ => []
  | _, [] => []
  | fuel+1, b :: rest =>
    if b < 0x80 then b :: utf8DecodeAux fuel rest
    else if b < 0xE0 then
      match rest with
      | c :: r => ((b % 32) * 64 + c % 64) :: utf8DecodeAux fuel r
      | _ => []
    else if b < 0xF0 then
      match rest with
      | c :: d :: r => ((b % 16) * 4096 + (c % 64) * 64 + d % 64) :: utf8DecodeAux fuel r
      | _ => []
    else
      match rest with
      | c :: d :: e :: r =>
        ((b % 8) * 262144 + (c % 64) * 4096 + (d % 64) * 64 + e % 64) :: utf8DecodeAux fuel r
      | _ => []

def utf8Decode (bs : Bytes) : List Char :=
  (utf8DecodeAux (bs.length + 1) bs).map Char.ofNat

def utf8EncodeChar (c : Char) : Bytes :=
  let n := c.toNat
  if n < 0x80 then [n]
  else if n < 0x800 then [0xC0 + n / 64, 0x80 + n % 64]
  else if n < 0x10000 then [0xE0 + n / 4096, 0x80 + n / 64 % 64, 0x80 + n % 64]
  else [0xF0 + n / 262144, 0x80 + n / 4096 % 64, 0x80 + n / 64 % 64, 0x80 + n % 64]

def utf8Encode (cs : List Char) : Bytes := cs.flatMap utf8EncodeChar

/-- A hex token carrying UTF-8 text, decoded to characters. -/
def unhexStr (s : String) : Option (List Char) := (unhex s).map utf8Decode

def hexOfStr (cs : List Char) : String := hexOf (utf8Encode cs)

/-- split a protocol line into space-separated tokens (no empty tokens) -/
def tokens (line : String) : List String :=
  (line.trimAscii.toString.splitOn " ").filter (· ≠ "")

end Dicom
