/-
Fixed-width integer codecs over byte lists (`Nat` bytes). Little and big endian, 16/32/64 bit.
Mirrors `byteordered`/`to_le_bytes`/`to_be_bytes` as used throughout dicom-rs.
Decoders return the value and the remaining bytes, or `none` when the input is too short
(= `UnexpectedEof` in the code).
-/
import DicomModel.Model.Util
namespace Dicom

def le16 (n : Nat) : Bytes := [n % 256, n / 256 % 256]
def be16 (n : Nat) : Bytes := [n / 256 % 256, n % 256]
def le32 (n : Nat) : Bytes := [n % 256, n / 256 % 256, n / 65536 % 256, n / 16777216 % 256]
def be32 (n : Nat) : Bytes := [n / 16777216 % 256, n / 65536 % 256, n / 256 % 256, n % 256]
def le64 (n : Nat) : Bytes := le32 (n % 4294967296) ++ le32 (n / 4294967296)
def be64 (n : Nat) : Bytes := be32 (n / 4294967296) ++ be32 (n % 4294967296)

def rdLe16 : Bytes → Option (Nat × Bytes)
  | a :: b :: r => some (a + 256 * b, r)
  | _ => none
def rdBe16 : Bytes → Option (Nat × Bytes)
  | a :: b :: r => some (256 * a + b, r)
  | _ => none
def rdLe32 : Bytes → Option (Nat × Bytes)
  | a :: b :: c :: d :: r => some (a + 256 * b + 65536 * c + 16777216 * d, r)
  | _ => none
def rdBe32 : Bytes → Option (Nat × Bytes)
  | a :: b :: c :: d :: r => some (16777216 * a + 65536 * b + 256 * c + d, r)
  | _ => none
def rdLe64 (bs : Bytes) : Option (Nat × Bytes) :=
  match rdLe32 bs with
  | some (lo, r) => match rdLe32 r with
    | some (hi, r') => some (lo + 4294967296 * hi, r')
    | none => none
  | none => none
def rdBe64 (bs : Bytes) : Option (Nat × Bytes) :=
  match rdBe32 bs with
  | some (hi, r) => match rdBe32 r with
    | some (lo, r') => some (lo + 4294967296 * hi, r')
    | none => none
  | none => none

/-- endianness-parametric versions (`true` = big endian) -/
def enc16 (be : Bool) (n : Nat) : Bytes := if be then be16 n else le16 n
def enc32 (be : Bool) (n : Nat) : Bytes := if be then be32 n else le32 n
def enc64 (be : Bool) (n : Nat) : Bytes := if be then be64 n else le64 n
def rd16 (be : Bool) (bs : Bytes) : Option (Nat × Bytes) := if be then rdBe16 bs else rdLe16 bs
def rd32 (be : Bool) (bs : Bytes) : Option (Nat × Bytes) := if be then rdBe32 bs else rdLe32 bs
def rd64 (be : Bool) (bs : Bytes) : Option (Nat × Bytes) := if be then rdBe64 bs else rdLe64 bs

/-- all elements are bytes -/
def IsBytes (bs : Bytes) : Prop := ∀ b ∈ bs, b < 256

/-- `Vec::split_at`-like framing: take exactly `n` bytes or fail -/
def takeN (n : Nat) (bs : Bytes) : Option (Bytes × Bytes) :=
  if n ≤ bs.length then some (bs.take n, bs.drop n) else none

end Dicom
