/-
The standard dictionaries of the crate: the model of `Model/DictCore.lean` instantiated with the
tables generated from `dictionary-std/src/tags.rs` and `uids.rs` (`translators/dict.py`).
-/
import DicomModel.Model.DictCore
import DicomModel.Gen.Dict
import DicomModel.Gen.Uids
namespace Dicom.Dict

/-- `DICT` of `data_element.rs`: built by `init_dictionary` from `ENTRIES`. -/
def registry : Registry := initDictionary Gen.entries

/-- `DICT` of `sop_class.rs`: `index_all(SOP_CLASSES)`. -/
def uidRegistry : UidRegistry := UidRegistry.indexAll ⟨[], []⟩ Gen.sopClasses

end Dicom.Dict
