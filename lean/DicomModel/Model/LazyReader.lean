/-
Model of the lazy data set reader:
  parser/src/dataset/lazy_read.rs   LazyDataSetReader::advance (the state machine it is), update_seq_delimiters,
                                    peek (the one-token cache), sanitize_length with the default options
  parser/src/dataset/mod.rs         LazyDataToken (ElementHeader … LazyValue / LazyItemValue), `skip`,
                                    `into_owned` (= materialisation, ValueReadStrategy::Preserved)

The lazy reader has the state fields of the eager `DataSetReader` (Model/Reader.lean, `RState`) except
`offset_table_next`: it never reads a value itself, a value token only announces `header` / `len` and
lends the decoder to the consumer, who must read (`into_owned`, `read_to_vec`, `read_u32_to_vec`) or `skip`
exactly that value before the next `advance`.

=== API (namespace `Dicom`) ===
  LTok                      `LazyDataToken` without the borrowed decoder
  LErr                      err e | panic | peekValue   (`unreachable!` in `advance` after a peeked value token
                            cannot occur: `peek` refuses value tokens; the `expect` on an empty delimiter stack is gone)
  LState / LState.new       reader state;  `LState.advance : LState → Option (Except LErr LTok) × LState`
  LState.peek               `peek()`: `Except LErr (Option Token) × LState`
  LTok.skip / LTok.intoOwned   consume the value through the decoder
  LState.nextOwned          `advance` + `into_owned`: one materialised token
  lazyTokens fuel st        all materialised tokens until the reader ends or the first error
-/
import DicomModel.Model.Reader
namespace Dicom

inductive LTok where
  /-- ElementHeader, SequenceStart, PixelSequenceStart, SequenceEnd, ItemStart, ItemEnd -/
  | tok (t : Token)
  /-- `LazyValue { header, decoder }` -/
  | lazyValue (h : ElemHeader)
  /-- `LazyItemValue { len, decoder }` -/
  | lazyItemValue (len : Nat)
deriving DecidableEq, Repr

inductive LErr where
  | err (e : RErr)
  /-- the Rust code would panic (no such place is left in `advance` since fix b2f95f8) -/
  | panic
  /-- `peek()` met a value token (`PeekSnafu`) -/
  | peekValue
deriving DecidableEq, Repr

structure LState where
  dec : Dec
  inSequence : Bool
  delimiterCheckPending : Bool
  seqDelimiters : List RSeqTok
  hardBreak : Bool
  lastHeader : Option ElemHeader
  /-- the token held by `peek()` -/
  peeked : Option Token

def LState.new (ts : Syntax) (dict : Tag → Option VR) (bs : Bytes) : LState :=
  ⟨⟨ts, dict, bs, 0⟩, false, false, [], false, none, none⟩

def LState.push (s : LState) (isItem : Bool) (len : Nat) (pixel : Bool) : LState :=
  { s with seqDelimiters := ⟨isItem, len, pixel, s.dec.pos⟩ :: s.seqDelimiters }

/-- `update_seq_delimiters` -/
def LState.updateSeqDelimiters (s : LState) : Except RErr (Option Token) × LState :=
  match s.seqDelimiters with
  | sd :: rest =>
    if sd.len ≠ undefinedLen then
      let eos := sd.baseOffset + sd.len
      if eos = s.dec.pos then
        if sd.isItem then (.ok (some .itemEnd), { s with inSequence := true, seqDelimiters := rest })
        else (.ok (some .sequenceEnd), { s with inSequence := false, seqDelimiters := rest })
      else if eos < s.dec.pos then (.error .inconsistentSequenceEnd, s)
      else (.ok none, { s with delimiterCheckPending := false })
    else (.ok none, { s with delimiterCheckPending := false })
  | [] => (.ok none, { s with delimiterCheckPending := false })

/-- the part of `advance` after the delimiter check -/
def LState.advanceBody (s : LState) : Option (Except LErr LTok) × LState :=
  if s.inSequence then
    match s.dec.decodeItemHeader with
    | .ok (.item len, d) =>
      let s1 := { s with dec := d }
      match s1.seqDelimiters with
      | [] =>
        -- an item header where no sequence is open: `UnexpectedItemHeader` (fix b2f95f8; it used to panic in
        -- `expect`); `in_sequence` was already cleared, the reader is not fused
        (some (.error (.err .unexpectedItemHeader)), { s1 with inSequence := false })
      | last :: _ =>
        let s2 := ({ s1 with inSequence := false }).push true len last.pixelData
        let s3 := if len = 0 then { s2 with delimiterCheckPending := true } else s2
        (some (.ok (.tok (.itemStart len))), s3)
    | .ok (.itemDelim, d) =>
      (some (.ok (.tok .itemEnd)),
        { s with dec := d, seqDelimiters := s.seqDelimiters.drop 1, inSequence := true, delimiterCheckPending := true })
    | .ok (.seqDelim, d) =>
      (some (.ok (.tok .sequenceEnd)),
        { s with dec := d, seqDelimiters := s.seqDelimiters.drop 1, inSequence := false, delimiterCheckPending := true })
    | .error e => (some (.error (.err e)), { s with hardBreak := true })
  else
    match s.seqDelimiters with
    | ⟨true, len, true, _⟩ :: _ =>
      if len = undefinedLen then (some (.error (.err .undefinedItemLength)), s)
      else (some (.ok (.lazyItemValue len)), { s with delimiterCheckPending := true })
    | _ =>
      match s.lastHeader with
      | some header =>
        if header.isEncapsulatedPixeldata then
          let s1 := ({ s with lastHeader := none } : LState).push false undefinedLen true
          match s1.dec.decodeItemHeader with
          | .ok (.item len, d) =>
            let s2 := ({ s1 with dec := d, inSequence := false }).push true len true
            let s3 := if len = 0 then { s2 with delimiterCheckPending := true } else s2
            (some (.ok (.tok (.itemStart len))), s3)
          | .ok (.seqDelim, d) =>
            (some (.ok (.tok .sequenceEnd)), { s1 with dec := d, seqDelimiters := s1.seqDelimiters.drop 1, inSequence := false })
          | .ok (.itemDelim, d) => (some (.error (.err .unexpectedItemTag)), { s1 with dec := d, hardBreak := true })
          | .error e => (some (.error (.err e)), { s1 with hardBreak := true })
        else
          (some (.ok (.lazyValue header)), { s with lastHeader := none, delimiterCheckPending := true })
      | none =>
        match s.dec.decodeHeader with
        | .error _ =>
          if s.dec.rest.length < 4 then (none, { s with hardBreak := true })
          else (some (.error (.err .eof)), { s with hardBreak := true })
        | .ok (h, d) =>
          let s1 := { s with dec := d }
          if h.vr = .SQ then
            let s2 := ({ s1 with inSequence := true }).push false h.len false
            let s3 := if h.len = 0 then { s2 with delimiterCheckPending := true } else s2
            (some (.ok (.tok (.sequenceStart h.tag h.len))), s3)
          else if h.tag = Tag.itemDelim then
            (some (.ok (.tok .itemEnd)),
              { s1 with inSequence := true, seqDelimiters := s1.seqDelimiters.drop 1, delimiterCheckPending := true })
          else if h.isEncapsulatedPixeldata then
            (some (.ok (.tok .pixelSequenceStart)), { s1 with lastHeader := some h })
          else if h.len = undefinedLen then
            (some (.ok (.tok (.sequenceStart h.tag h.len))), ({ s1 with inSequence := true }).push false h.len false)
          else
            (some (.ok (.tok (.elementHeader h))), { s1 with lastHeader := some h })

/-- `LazyDataSetReader::advance` -/
def LState.advance (s : LState) : Option (Except LErr LTok) × LState :=
  if s.hardBreak then (none, s) else
  match s.peeked with
  | some t => (some (.ok (.tok t)), { s with peeked := none })
  | none =>
    if s.delimiterCheckPending then
      match s.updateSeqDelimiters with
      | (.error e, s') => (some (.error (.err e)), { s' with hardBreak := true })
      | (.ok (some tok), s') => (some (.ok (.tok tok)), s')
      | (.ok none, s') => s'.advanceBody
    else s.advanceBody

/-- `peek()`: the next token without consuming it; a value token is an error and fuses the reader -/
def LState.peek (s : LState) : Except LErr (Option Token) × LState :=
  match s.peeked with
  | some t => (.ok (some t), s)
  | none =>
    match s.advance with
    | (none, s') => (.ok none, s')
    | (some (.error e), s') => (.error e, s')
    | (some (.ok (.tok t)), s') => (.ok (some t), { s' with peeked := some t })
    | (some (.ok _), s') => (.error .peekValue, { s' with hardBreak := true })

/-- `skip_bytes(n)` = `io::copy(take(n), sink)`: what is there is consumed; a short source is NOT an
error, and `position` advances by `n` all the same -/
def Dec.skip (d : Dec) (n : Nat) : Except RErr Dec :=
  .ok { d with rest := d.rest.drop n, pos := d.pos + n }

/-- `read_to_vec(n)` = `io::copy(take(n), vec)`: the bytes that are there (at most `n`), never an error at
the end of the source; `position` advances by `n` -/
def Dec.readToVec (d : Dec) (n : Nat) : Except RErr (Bytes × Dec) :=
  .ok (d.rest.take n, { d with rest := d.rest.drop n, pos := d.pos + n })

/-- `read_u32_to_vec(n)`: `n / 4` numbers, then `n % 4` bytes skipped (what is there) -/
def Dec.readU32ToVec (d : Dec) (n : Nat) : Except RErr (List Nat × Dec) :=
  match rdMany (rd32 d.ts.bigEndian) (n / 4) d.rest with
  | some (vs, r) => .ok (vs, { d with rest := r.drop (n % 4), pos := d.pos + n })
  | none => .error .eof

/-- `LazyDataToken::skip` -/
def LTok.skip (t : LTok) (d : Dec) : Except RErr Dec :=
  match t with
  | .lazyValue h => d.skip h.len
  | .lazyItemValue len => d.skip len
  | .tok _ => .ok d

/-- `LazyDataToken::into_owned` -/
def LTok.intoOwned (t : LTok) (d : Dec) : Except RErr (Token × Dec) :=
  match t with
  | .tok t => .ok (t, d)
  | .lazyValue h =>
    match d.readValuePreserved h with
    | .ok (v, d') => .ok (.primitiveValue v, d')
    | .error e => .error e
  | .lazyItemValue len =>
    match d.readToVec len with
    | .ok (v, d') => .ok (.itemValue v, d')
    | .error e => .error e

/-- `advance()` followed by `into_owned()` -/
def LState.nextOwned (s : LState) : Option (Except LErr Token) × LState :=
  match s.advance with
  | (none, s') => (none, s')
  | (some (.error e), s') => (some (.error e), s')
  | (some (.ok t), s') =>
    match t.intoOwned s'.dec with
    | .ok (tok, d) => (some (.ok tok), { s' with dec := d })
    | .error e => (some (.error (.err e)), s')

/-- all materialised tokens until the reader ends or the first error -/
def lazyTokens : Nat → LState → List Token × Option LErr
  | 0, _ => ([], none)
  | fuel + 1, s =>
    match s.nextOwned with
    | (none, _) => ([], none)
    | (some (.error e), _) => ([], some e)
    | (some (.ok t), s') =>
      let (ts, e) := lazyTokens fuel s'
      (t :: ts, e)

end Dicom
