/-
Model of `core/src/value/person_name.rs`: `PersonName::to_dicom_string` and `PersonName::from_text`.
A component is `Option (List Char)` (`Option<Cow<str>>`); the text is a `List Char`.
The functions are written over component *lists* of any length (the code's arrays have length 5)
so that one inductive proof covers all presence patterns; `PN` is the 5-field structure.
-/
namespace Dicom.PN

abbrev Comp := Option (List Char)

/-- `char::is_whitespace` (Unicode `White_Space`), which is what `str::trim` strips. -/
def isWs (c : Char) : Bool :=
  let n := c.toNat
  (9 ≤ n && n ≤ 13) || n == 0x20 || n == 0x85 || n == 0xA0 || n == 0x1680 ||
  (0x2000 ≤ n && n ≤ 0x200A) || n == 0x2028 || n == 0x2029 || n == 0x202F || n == 0x205F ||
  n == 0x3000

/-- `str::trim` -/
def trim (s : List Char) : List Char :=
  ((s.dropWhile isWs).reverse.dropWhile isWs).reverse

/-- `while it.next_if(|c| c.is_none()).is_some() {}` on the reversed component array:
drop the trailing `None`s (a present-but-empty component is *not* dropped). -/
def stripTrailingNone (cs : List Comp) : List Comp :=
  (cs.reverse.dropWhile (·.isNone)).reverse

/-- second loop of `to_dicom_string`: push the component (nothing for `None`), then `'^'` if
another one follows. -/
def joinCaret : List Comp → List Char
  | [] => []
  | [c] => c.getD []
  | c :: cs => c.getD [] ++ '^' :: joinCaret cs

def toTextL (cs : List Comp) : List Char := joinCaret (stripTrailingNone cs)

/-- `str::split('^')`: always at least one part. -/
def splitCaret : List Char → List (List Char)
  | [] => [[]]
  | c :: cs =>
    if c = '^' then [] :: splitCaret cs
    else match splitCaret cs with
      | p :: ps => (c :: p) :: ps
      | [] => [[c]]

/-- `parts.next().and_then(|s| if s.is_empty() { None } else { Some(s.into()) })` for the
`i`-th call. -/
def component (parts : List (List Char)) (i : Nat) : Comp :=
  match parts[i]? with
  | some s => if s.isEmpty then none else some s
  | none => none

/-- `from_text`, first `n` components. -/
def fromTextL (n : Nat) (s : List Char) : List Comp :=
  (List.range n).map (component (splitCaret (trim s)))

/-- present-but-empty ↦ absent -/
def normEmpty : Comp → Comp
  | some [] => none
  | c => c

structure PN where
  family : Comp
  given : Comp
  middle : Comp
  pfx : Comp
  suffix : Comp
deriving DecidableEq, Repr

/-- order used by `to_dicom_string` and `from_text`: family, given, middle, prefix, suffix -/
def PN.comps (p : PN) : List Comp := [p.family, p.given, p.middle, p.pfx, p.suffix]

def PN.toDicomString (p : PN) : List Char := toTextL p.comps

def PN.fromText (s : List Char) : PN :=
  let parts := splitCaret (trim s)
  { family := component parts 0, given := component parts 1, middle := component parts 2,
    pfx := component parts 3, suffix := component parts 4 }

def PN.norm (p : PN) : PN :=
  ⟨normEmpty p.family, normEmpty p.given, normEmpty p.middle, normEmpty p.pfx, normEmpty p.suffix⟩

/-- the hypothesis of the property on one component text: no component separator and no white
space at either end (the statement also excludes `'='`; the proofs do not need that). -/
def strOk (s : List Char) : Bool :=
  !s.contains '^' && !s.head?.any isWs && !s.getLast?.any isWs

def CompOk (c : Comp) : Bool := c.all strOk

def PN.Ok (p : PN) : Bool := p.comps.all CompOk

/-- index of the last present (`Some`) component + 1; 0 if none is present -/
def lastPresent (cs : List Comp) : Nat := (stripTrailingNone cs).length

end Dicom.PN
