/-
Token form of PDUs used on the line protocol of C25/C27 (parser and printer; no proofs about it).
Same grammar as `harness/src/bin/c25/gen.rs::pdu_tokens`: prefix notation with explicit counts,
byte strings as hex, text as hex of its UTF-8.
-/
import DicomModel.Model.Pdu
namespace Dicom.Pdu.Text
open Dicom Dicom.Pdu

abbrev TP (α : Type) := List String → Option (α × List String)

def pNat : TP Nat
  | t :: r => t.toNat?.map (·, r)
  | [] => none

def pHex : TP Bytes
  | t :: r => (unhex t).map (·, r)
  | [] => none

def pStr : TP Str
  | t :: r => (unhexStr t).map (fun cs => (cs.map Char.toNat, r))
  | [] => none

def pBool : TP Bool
  | "0" :: r => some (false, r)
  | "1" :: r => some (true, r)
  | _ => none

def pMany {α : Type} (p : TP α) : Nat → TP (List α)
  | 0, ts => some ([], ts)
  | n + 1, ts =>
    match p ts with
    | some (a, ts) =>
      (match pMany p n ts with
       | some (as, ts) => some (a :: as, ts)
       | none => none)
    | none => none

def pCounted {α : Type} (p : TP α) : TP (List α) := fun ts =>
  match pNat ts with
  | some (n, ts) => pMany p n ts
  | none => none

def pRes (tok : String) : Option Nat :=
  if tok.startsWith "res:" then (tok.drop 4).toString.toNat? else none

def pUserVar : TP UserVar
  | "ml" :: ts => (pNat ts).map fun (n, ts) => (.maxLength n, ts)
  | "icu" :: ts => (pStr ts).map fun (s, ts) => (.implClassUid s, ts)
  | "ivn" :: ts => (pStr ts).map fun (s, ts) => (.implVersionName s, ts)
  | "ext" :: ts => do
    let (s, ts) ← pStr ts
    let (d, ts) ← pHex ts
    pure (.sopClassExt s d, ts)
  | "role" :: ts => do
    let (s, ts) ← pStr ts
    let (a, ts) ← pBool ts
    let (b, ts) ← pBool ts
    pure (.roleSelection s a b, ts)
  | "id" :: ty :: ts => do
    let ty ← (match ty with
      | "user" => some IdType.username | "userpw" => some .usernamePassword | "krb" => some .kerberos
      | "saml" => some .saml | "jwt" => some .jwt | _ => none)
    let (prr, ts) ← pBool ts
    let (p, ts) ← pHex ts
    let (s, ts) ← pHex ts
    pure (.userIdentity ⟨prr, ty, p, s⟩, ts)
  | "unk" :: ts => do
    let (t, ts) ← pNat ts
    let (d, ts) ← pHex ts
    pure (.unknown t d, ts)
  | _ => none

def pPcProposed : TP PcProposed := fun ts => do
  let (id, ts) ← pNat ts
  let (a, ts) ← pStr ts
  let (tss, ts) ← pCounted pStr ts
  pure (⟨id, a, tss⟩, ts)

def pReason : String → Option PcReason
  | "acc" => some .acceptance | "urej" => some .userRejection | "nor" => some .noReason
  | "asn" => some .abstractSyntaxNotSupported | "tsn" => some .transferSyntaxesNotSupported
  | _ => none

def pPcResult : TP PcResult := fun ts => do
  let (id, ts) ← pNat ts
  match ts with
  | r :: ts =>
    let reason ← pReason r
    let (s, ts) ← pStr ts
    pure (⟨id, reason, s⟩, ts)
  | [] => none

def pAssoc {γ : Type} (pc : TP γ) : TP (Assoc γ) := fun ts => do
  let (pv, ts) ← pNat ts
  let (calling, ts) ← pStr ts
  let (called, ts) ← pStr ts
  let (acn, ts) ← pStr ts
  let (pcs, ts) ← pCounted pc ts
  let (uvs, ts) ← pCounted pUserVar ts
  pure (⟨pv, calling, called, acn, pcs, uvs⟩, ts)

def pPdv : TP Pdv := fun ts => do
  let (id, ts) ← pNat ts
  match ts with
  | ty :: ts =>
    let ty ← (match ty with | "c" => some PdvType.command | "d" => some .data | _ => none)
    let (l, ts) ← pBool ts
    let (d, ts) ← pHex ts
    pure (⟨id, ty, l, d⟩, ts)
  | [] => none

def pRjSource : TP RjSource
  | "su" :: r :: ts =>
    (match r with
     | "nrg" => some RjUserReason.noReasonGiven | "acn" => some .acnNotSupported
     | "calling" => some .callingNotRecognized | "called" => some .calledNotRecognized
     | t => (pRes t).map .reserved).map fun x => (.serviceUser x, ts)
  | "asce" :: r :: ts =>
    (match r with
     | "nrg" => some RjAsceReason.noReasonGiven | "pv" => some .protocolVersionNotSupported
     | _ => none).map fun x => (.asce x, ts)
  | "pres" :: r :: ts =>
    (match r with
     | "tc" => some RjPresReason.temporaryCongestion | "lle" => some .localLimitExceeded
     | t => (pRes t).map .reserved).map fun x => (.presentation x, ts)
  | _ => none

def pAbort : String → Option AbortSource
  | "su" => some .serviceUser
  | "res" => some .reserved
  | "sp:rns" => some (.serviceProvider .reasonNotSpecified)
  | "sp:unrec" => some (.serviceProvider .unrecognizedPdu)
  | "sp:unexp" => some (.serviceProvider .unexpectedPdu)
  | "sp:res" => some (.serviceProvider .reserved)
  | "sp:unrecp" => some (.serviceProvider .unrecognizedPduParameter)
  | "sp:unexpp" => some (.serviceProvider .unexpectedPduParameter)
  | "sp:invp" => some (.serviceProvider .invalidPduParameter)
  | _ => none

def pPdu : TP Pdu
  | "unk" :: ts => do
    let (t, ts) ← pNat ts
    let (d, ts) ← pHex ts
    pure (.unknown t d, ts)
  | "rq" :: ts => (pAssoc pPcProposed ts).map fun (a, ts) => (.associationRQ a, ts)
  | "ac" :: ts => (pAssoc pPcResult ts).map fun (a, ts) => (.associationAC a, ts)
  | "rj" :: r :: ts => do
    let res ← (match r with | "perm" => some RjResult.permanent | "trans" => some .transient | _ => none)
    let (s, ts) ← pRjSource ts
    pure (.associationRJ res s, ts)
  | "pd" :: ts => (pCounted pPdv ts).map fun (vs, ts) => (.pData vs, ts)
  | "rrq" :: ts => some (.releaseRQ, ts)
  | "rrp" :: ts => some (.releaseRP, ts)
  | "ab" :: s :: ts => (pAbort s).map fun x => (.abortRQ x, ts)
  | _ => none

/-- a whole token list must be one PDU -/
def parsePdu (ts : List String) : Option Pdu :=
  match pPdu ts with
  | some (p, []) => some p
  | _ => none

/-! printer -/

def showStr (s : Str) : String := hexOfStr (s.map Char.ofNat)

def showUserVar : UserVar → List String
  | .unknown t d => ["unk", toString t, hexOf d]
  | .maxLength n => ["ml", toString n]
  | .implClassUid s => ["icu", showStr s]
  | .implVersionName s => ["ivn", showStr s]
  | .sopClassExt s d => ["ext", showStr s, hexOf d]
  | .roleSelection s a b => ["role", showStr s, toString (b2n a), toString (b2n b)]
  | .userIdentity u =>
    ["id", (match u.type with
        | .username => "user" | .usernamePassword => "userpw" | .kerberos => "krb"
        | .saml => "saml" | .jwt => "jwt"),
      toString (b2n u.positiveResponseRequested), hexOf u.primary, hexOf u.secondary]

def showReason : PcReason → String
  | .acceptance => "acc" | .userRejection => "urej" | .noReason => "nor"
  | .abstractSyntaxNotSupported => "asn" | .transferSyntaxesNotSupported => "tsn"

def showAssoc {γ : Type} (pc : γ → List String) (a : Assoc γ) : List String :=
  [toString a.protocolVersion, showStr a.callingAe, showStr a.calledAe, showStr a.acn,
    toString a.pcs.length] ++ a.pcs.flatMap pc ++ [toString a.uvs.length] ++ a.uvs.flatMap showUserVar

def showRjSource : RjSource → List String
  | .serviceUser r => ["su", match r with
      | .noReasonGiven => "nrg" | .acnNotSupported => "acn" | .callingNotRecognized => "calling"
      | .calledNotRecognized => "called" | .reserved x => s!"res:{x}"]
  | .asce r => ["asce", match r with | .noReasonGiven => "nrg" | .protocolVersionNotSupported => "pv"]
  | .presentation r => ["pres", match r with
      | .temporaryCongestion => "tc" | .localLimitExceeded => "lle" | .reserved x => s!"res:{x}"]

def showAbort : AbortSource → String
  | .serviceUser => "su"
  | .reserved => "res"
  | .serviceProvider r => match r with
    | .reasonNotSpecified => "sp:rns" | .unrecognizedPdu => "sp:unrec" | .unexpectedPdu => "sp:unexp"
    | .reserved => "sp:res" | .unrecognizedPduParameter => "sp:unrecp"
    | .unexpectedPduParameter => "sp:unexpp" | .invalidPduParameter => "sp:invp"

def showPdu : Pdu → List String
  | .unknown t d => ["unk", toString t, hexOf d]
  | .associationRQ a => "rq" :: showAssoc
      (fun pc => [toString pc.id, showStr pc.abstractSyntax, toString pc.transferSyntaxes.length]
        ++ pc.transferSyntaxes.map showStr) a
  | .associationAC a => "ac" :: showAssoc
      (fun pc => [toString pc.id, showReason pc.reason, showStr pc.transferSyntax]) a
  | .associationRJ res s =>
    ["rj", match res with | .permanent => "perm" | .transient => "trans"] ++ showRjSource s
  | .pData vs => ["pd", toString vs.length] ++ vs.flatMap fun v =>
      [toString v.pcid, (match v.type with | .command => "c" | .data => "d"), toString (b2n v.isLast),
        hexOf v.data]
  | .releaseRQ => ["rrq"]
  | .releaseRP => ["rrp"]
  | .abortRQ s => ["ab", showAbort s]

/-- split a token list at the `;` tokens -/
def sections (ts : List String) : List (List String) :=
  let rec go : List String → List String → List (List String)
    | [], cur => [cur.reverse]
    | t :: r, cur => if t = ";" then cur.reverse :: go r [] else go r (t :: cur)
  go ts []

/-- short name of a PDU kind and a size class, for signatures -/
def kindName : Pdu → String
  | .unknown _ _ => "unk" | .associationRQ _ => "rq" | .associationAC _ => "ac"
  | .associationRJ _ _ => "rj" | .pData _ => "pd" | .releaseRQ => "rrq" | .releaseRP => "rrp"
  | .abortRQ _ => "ab"

def countClass (n : Nat) : String :=
  if n = 0 then "0" else if n = 1 then "1" else if n ≤ 8 then "few" else "many"

def sizeClass (n : Nat) : String :=
  if n < 100 then "tiny" else if n < 1024 then "small" else if n < 16384 then "mid"
  else if n < 65536 then "big" else "huge"

end Dicom.Pdu.Text
