/-
Model of object building from tokens: object/src/mem.rs `InMemDicomObject::build_object`,
`build_sequence`, `build_encapsulated_data` (with `read_until = read_to = None`), and of
`read_dataset_with_ts` = reader tokens → object.

  buildObject fuel inItem toks acc   : Except BErr (Elems-as-list × remaining tokens)
  readDataset ts dict bs             : Except RdErr Elems
`entries: BTreeMap<Tag, _>` is modelled by insertion into a tag-sorted list (a later element with the
same tag replaces the earlier one).
-/
import DicomModel.Model.Reader
namespace Dicom

inductive BErr where
  | unexpectedToken
  | missingElementValue
  | prematureEnd
deriving DecidableEq, Repr

def Tag.lt (a b : Tag) : Bool := a.group < b.group || (a.group == b.group && a.elem < b.elem)

def Elem.tag : Elem → Tag
  | .prim t _ _ _ => t
  | .seq t _ _ => t
  | .pix _ _ => Tag.pixelData

/-- `BTreeMap::insert` on a tag-sorted list -/
def insertElem (e : Elem) : List Elem → List Elem
  | [] => [e]
  | x :: r =>
    if e.tag.lt x.tag then e :: x :: r
    else if x.tag = e.tag then e :: r
    else x :: insertElem e r

def elemsOfList : List Elem → Elems
  | [] => .nil
  | e :: r => .cons e (elemsOfList r)

def itemsOfList : List (Nat × Elems) → Items
  | [] => .nil
  | (l, es) :: r => .cons l es (itemsOfList r)

/-- `build_encapsulated_data`: (offset table, fragments, remaining tokens); a token stream that simply
ends is accepted (the `for` loop ends). `hasValue` = `item_has_value`: a zero-length item after the
offset table is kept as an empty fragment. -/
def buildEncapsulated : List Token → Option (List Nat) → List Bytes → Bool → Except BErr (List Nat × List Bytes × List Token)
  | [], ot, fr, _ => .ok (ot.getD [], fr, [])
  | .offsetTable t :: r, _, fr, _ => buildEncapsulated r (some t) fr true
  | .itemValue d :: r, ot, fr, _ => buildEncapsulated r ot (fr ++ [d]) true
  | .itemEnd :: r, ot, fr, hasValue =>
    match ot with
    | none => buildEncapsulated r (some []) fr false
    | some t => buildEncapsulated r (some t) (if hasValue then fr else fr ++ [[]]) false
  | .itemStart _ :: r, ot, fr, hv => buildEncapsulated r ot fr hv
  | .sequenceEnd :: r, ot, fr, _ => .ok (ot.getD [], fr, r)
  | _ :: _, _, _, _ => .error .unexpectedToken

mutual
/-- `build_object` -/
def buildObject : Nat → Bool → List Token → List Elem → Except BErr (List Elem × List Token)
  | 0, _, _, _ => .error .prematureEnd
  | _ + 1, _, [], acc => .ok (acc, [])
  | fuel + 1, inItem, tok :: rest, acc =>
    match tok with
    | .pixelSequenceStart =>
      match buildEncapsulated rest none [] false with
      | .ok (ot, fr, rest') => buildObject fuel inItem rest' (insertElem (.pix ot fr) acc)
      | .error e => .error e
    | .elementHeader h =>
      match rest with
      | [] => .error .missingElementValue
      | .primitiveValue v :: rest' => buildObject fuel inItem rest' (insertElem (.prim h.tag h.vr h.len v) acc)
      | _ :: _ => .error .unexpectedToken
    | .sequenceStart tag len =>
      match buildSequence fuel rest [] with
      | .ok (items, rest') => buildObject fuel inItem rest' (insertElem (.seq tag len (itemsOfList items)) acc)
      | .error e => .error e
    | .itemEnd => if inItem then .ok (acc, rest) else .error .unexpectedToken
    | _ => .error .unexpectedToken
/-- `build_sequence` -/
def buildSequence : Nat → List Token → List (Nat × Elems) → Except BErr (List (Nat × Elems) × List Token)
  | 0, _, _ => .error .prematureEnd
  | _ + 1, [], _ => .error .prematureEnd
  | fuel + 1, tok :: rest, acc =>
    match tok with
    | .itemStart len =>
      match buildObject fuel true rest [] with
      | .ok (es, rest') => buildSequence fuel rest' (acc ++ [(len, elemsOfList es)])
      | .error e => .error e
    | .sequenceEnd => .ok (acc, rest)
    | _ => .error .unexpectedToken
end

inductive RdErr where
  | read (e : RErr)
  | build (e : BErr)
deriving DecidableEq, Repr

/-- `InMemDicomObject::read_dataset_with_ts` on an uncompressed syntax -/
def readDataset (ts : Syntax) (dict : Tag → Option VR) (bs : Bytes) : Except RdErr Elems :=
  match readTokens (bs.length + 2) (RState.new ts dict bs) with
  | (_, some e) => .error (.read e)
  | (toks, none) =>
    match buildObject (toks.length + 1) false toks [] with
    | .ok (es, _) => .ok (elemsOfList es)
    | .error e => .error (.build e)

end Dicom
