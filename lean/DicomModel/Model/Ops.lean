/-
Model of attribute operations on in-memory objects.

* `object/src/mem.rs`: `InMemDicomObject::apply` (selector navigation, creation of intermediate
  sequences and of the next item), `apply_leaf`, `apply_change_value_impl`, `apply_push_*_impl` (with
  `restore_entry`, i.e. the behaviour since fix 0c32f21), `update_value`, `put`, `remove_element`
* `core/src/header.rs`: `DataElement::new`, `DataElement::empty`, `DataElement::update_value`
* `core/src/value/primitive.rs`: `extend_str`, `extend_{i32,u32,i16,u16,f32,f64}`, `truncate`,
  `calculate_byte_len` (for `is_empty`)
* `core/src/ops.rs`: `AttributeAction`, `is_constructive`, `AttributeSelector`

An object is its attribute map (`BTreeMap<Tag, _>`): a tag-sorted list of elements; a tag is the number
`group * 65536 + element`. The data dictionary is a parameter `dict : Nat → Option VR`
(`by_tag(tag).and_then(|e| e.vr().exact())`).
`apply` follows the code (remove, then re-insert …); `applySpec` is written from the documentation of
`AttributeAction` over the map interface `get` / `set` / `erase`.
-/
import DicomModel.Model.Bytes
import DicomModel.Model.VR
namespace Dicom.Ops

/-- a floating point item: exactly `k / 2` (everything the operations can produce from the generated
numbers), or some other float given by its bits -/
inductive FVal where
  | half (k : Int)
  | bits (b : Nat)
deriving DecidableEq, Repr

/-- `PrimitiveValue`; `dates` stands for the `Date` / `Time` / `DateTime` variants (items opaque) -/
inductive Prim where
  | empty
  | str (s : Bytes)
  | strs (l : List Bytes)
  | u8 (l : List Nat)
  | i16 (l : List Int)
  | u16 (l : List Nat)
  | i32 (l : List Int)
  | u32 (l : List Nat)
  | i64 (l : List Int)
  | u64 (l : List Nat)
  | f32 (l : List FVal)
  | f64 (l : List FVal)
  | tags (l : List Nat)
  | dates (l : List Bytes)
deriving DecidableEq, Repr

mutual
  /-- attribute map, ascending tags -/
  inductive Obj where
    | nil
    | cons (tag : Nat) (vr : VR) (v : Val) (rest : Obj)
  /-- `Value<InMemDicomObject, InMemFragment>` -/
  inductive Val where
    | prim (p : Prim)
    | seq (items : Items)
    | pix (bot : List Nat) (frags : List Bytes)
  inductive Items where
    | nil
    | cons (o : Obj) (rest : Items)
end

mutual
  def Obj.beq : Obj → Obj → Bool
    | .nil, .nil => true
    | .cons t vr v r, .cons t' vr' v' r' => t == t' && vr == vr' && Val.beq v v' && Obj.beq r r'
    | _, _ => false
  def Val.beq : Val → Val → Bool
    | .prim p, .prim q => p == q
    | .seq a, .seq b => Items.beq a b
    | .pix b f, .pix b' f' => b == b' && f == f'
    | _, _ => false
  def Items.beq : Items → Items → Bool
    | .nil, .nil => true
    | .cons o r, .cons o' r' => Obj.beq o o' && Items.beq r r'
    | _, _ => false
end

/-! ### the map interface -/

/-- `entries.get(&tag)` -/
def Obj.get : Obj → Nat → Option (VR × Val)
  | .nil, _ => none
  | .cons t vr v r, k => if k = t then some (vr, v) else if k < t then none else r.get k

/-- `entries.insert(tag, element)` (`put`) -/
def Obj.set : Obj → Nat → VR → Val → Obj
  | .nil, k, vr, v => .cons k vr v .nil
  | .cons t vr' v' r, k, vr, v =>
    if k < t then .cons k vr v (.cons t vr' v' r)
    else if k = t then .cons k vr v r
    else .cons t vr' v' (r.set k vr v)

/-- `entries.remove(&tag)` -/
def Obj.erase : Obj → Nat → Obj
  | .nil, _ => .nil
  | .cons t vr v r, k => if k = t then r else if k < t then .cons t vr v r else .cons t vr v (r.erase k)

def Items.length : Items → Nat
  | .nil => 0
  | .cons _ r => r.length + 1

def Items.get? : Items → Nat → Option Obj
  | .nil, _ => none
  | .cons o _, 0 => some o
  | .cons _ r, i + 1 => r.get? i

def Items.setAt : Items → Nat → Obj → Items
  | .nil, _, _ => .nil
  | .cons _ r, 0, x => .cons x r
  | .cons o r, i + 1, x => .cons o (r.setAt i x)

/-- `items.push(o)` -/
def Items.push : Items → Obj → Items
  | .nil, x => .cons x .nil
  | .cons o r, x => .cons o (r.push x)

/-- `items.truncate(n)` -/
def Items.take : Items → Nat → Items
  | .nil, _ => .nil
  | .cons _ _, 0 => .nil
  | .cons o r, n + 1 => .cons o (r.take n)

/-! ### actions -/

/-- a number given to a `Push*` action -/
inductive Num where
  | i32 (n : Int) | u32 (n : Nat) | i16 (n : Int) | u16 (n : Nat)
  | f32 (k : Int) | f64 (k : Int)          -- the float `k / 2`
deriving DecidableEq, Repr

inductive Action where
  | remove | empty | setVr (vr : VR)
  | set (p : Prim) | setStr (s : Bytes)
  | setIfMissing (p : Prim) | setStrIfMissing (s : Bytes)
  | replace (p : Prim) | replaceStr (s : Bytes)
  | pushStr (s : Bytes) | pushNum (n : Num)
  | truncate (n : Nat)
deriving DecidableEq, Repr

/-- `AttributeAction::is_constructive` -/
def Action.constructive : Action → Bool
  | .set _ | .setStr _ | .setIfMissing _ | .setStrIfMissing _ | .pushStr _ | .pushNum _ => true
  | _ => false

inductive Err where
  | missingSequence | notASequence | incompatibleTypes | modify
deriving DecidableEq, Repr

/-! ### primitive values -/

def sumLen1 : List Bytes → Nat
  | [] => 0
  | s :: ss => (s.length + 1) + sumLen1 ss

/-- `calculate_byte_len() == 0`, i.e. `HasLength::is_empty` (date items are never empty text) -/
def Prim.isEmpty : Prim → Bool
  | .empty => true
  | .str s => s.isEmpty
  | .strs l => sumLen1 l / 2 * 2 == 0
  | .u8 l => l.isEmpty | .i16 l => l.isEmpty | .u16 l => l.isEmpty | .i32 l => l.isEmpty
  | .u32 l => l.isEmpty | .i64 l => l.isEmpty | .u64 l => l.isEmpty | .f32 l => l.isEmpty
  | .f64 l => l.isEmpty | .tags l => l.isEmpty | .dates l => l.isEmpty

/-- `PrimitiveValue::truncate` (a single string is one item: fix 65d0025) -/
def Prim.truncate (n : Nat) : Prim → Prim
  | .empty => .empty
  | .str s => if n = 0 then .empty else .str s
  | .strs l => .strs (l.take n) | .u8 l => .u8 (l.take n) | .i16 l => .i16 (l.take n)
  | .u16 l => .u16 (l.take n) | .i32 l => .i32 (l.take n) | .u32 l => .u32 (l.take n)
  | .i64 l => .i64 (l.take n) | .u64 l => .u64 (l.take n) | .f32 l => .f32 (l.take n)
  | .f64 l => .f64 (l.take n) | .tags l => .tags (l.take n) | .dates l => .dates (l.take n)

/-- decimal digits of a natural number, as bytes -/
def natDigits (n : Nat) : Bytes := (toString n).toList.map (·.toNat)

/-- `i.to_string()` -/
def intStr (n : Int) : Bytes := if n < 0 then 0x2d :: natDigits n.natAbs else natDigits n.natAbs

/-- `(k / 2 as f32|f64).to_string()`: integers print without a fraction, halves with `.5` -/
def halfStr (k : Int) : Bytes :=
  if k % 2 = 0 then intStr (k / 2)
  else (if k < 0 then [0x2d] else []) ++ natDigits (k.natAbs / 2) ++ [0x2e, 0x35]

/-- `as` cast between integer types: wrap to `bits` bits, two's complement when signed -/
def wrapU (bits : Nat) (n : Int) : Nat := (n % (2 ^ bits : Nat)).toNat
def wrapS (bits : Nat) (n : Int) : Int :=
  let u : Int := n % (2 ^ bits : Nat)
  if u < (2 ^ (bits - 1) : Nat) then u else u - (2 ^ bits : Nat)

/-- `as` cast from a float to an integer type: toward zero, saturating -/
def satU (bits : Nat) (k : Int) : Nat :=
  let t := Int.tdiv k 2
  if t < 0 then 0 else if t ≥ (2 ^ bits : Nat) then 2 ^ bits - 1 else t.toNat
def satS (bits : Nat) (k : Int) : Int :=
  let t := Int.tdiv k 2
  let hi : Int := (2 ^ (bits - 1) : Nat)
  if t < -hi then -hi else if t ≥ hi then hi - 1 else t

/-- the pushed number as an item of each target type -/
def Num.toU (bits : Nat) : Num → Nat
  | .i32 n | .i16 n => wrapU bits n
  | .u32 n | .u16 n => wrapU bits n
  | .f32 k | .f64 k => satU bits k
def Num.toS (bits : Nat) : Num → Int
  | .i32 n | .i16 n => wrapS bits n
  | .u32 n | .u16 n => wrapS bits n
  | .f32 k | .f64 k => satS bits k
/-- to a float item (exact for the generated magnitudes: |n| < 2^24) -/
def Num.toF : Num → FVal
  | .i32 n | .i16 n => .half (2 * n)
  | .u32 n | .u16 n => .half (2 * n)
  | .f32 k | .f64 k => .half k
def Num.str : Num → Bytes
  | .i32 n | .i16 n => intStr n
  | .u32 n | .u16 n => natDigits n
  | .f32 k | .f64 k => halfStr k
/-- the value created from an empty one -/
def Num.fresh : Num → Prim
  | .i32 n => .i32 [n] | .u32 n => .u32 [n] | .i16 n => .i16 [n] | .u16 n => .u16 [n]
  | .f32 k => .f32 [.half k] | .f64 k => .f64 [.half k]
/-- fallback VR of `apply_push_*_impl` when the dictionary has no exact VR -/
def Num.fallbackVr : Num → VR
  | .i32 _ => .SL | .u32 _ => .UL | .i16 _ => .SS | .u16 _ => .US | .f32 _ => .FL | .f64 _ => .FD

/-- an empty value of the kind that holds the values of the VR — used only by the *repaired*
`Push*` semantics (`pushImplRepaired`, finding C13 `value-type-incompatible-with-vr`); the shipped
code creates the value in the kind of the pushed number -/
def typedEmpty : VR → Prim
  | .US | .OW => .u16 []
  | .SS => .i16 []
  | .UL | .OL => .u32 []
  | .SL => .i32 []
  | .UV | .OV => .u64 []
  | .SV => .i64 []
  | .FL | .OF => .f32 []
  | .FD | .OD => .f64 []
  | .AT => .tags []
  | .OB | .UN | .SQ => .empty
  | _ => .strs []

/-- an emptied value takes the kind of its VR before it is extended -/
def normEmpty (vr : VR) : Prim → Prim
  | .empty => typedEmpty vr
  | p => p

/-- `extend_str([s])`; `none` = `IncompatibleStringType` -/
def Prim.extendStr (s : Bytes) : Prim → Option Prim
  | .empty => some (.strs [s])
  | .strs l => some (.strs (l ++ [s]))
  | .str x => some (.strs [x, s])
  | _ => none

/-- the value of an attribute created by `PushStr`, given the empty value of its VR's kind: a single
string where the VR holds text or bytes, an error where it holds numbers -/
def Prim.freshStr (s : Bytes) : Prim → Option Prim
  | .strs _ | .empty => some (.str s)
  | p => p.extendStr s

/-- `extend_{i32,u32,i16,u16,f32,f64}([n])`; `none` = `IncompatibleNumberType` -/
def Prim.extendNum (n : Num) : Prim → Option Prim
  | .empty => some n.fresh
  | .strs l => some (.strs (l ++ [n.str]))
  | .str x => some (.strs [x, n.str])
  | .u8 l => some (.u8 (l ++ [n.toU 8]))
  | .i16 l => some (.i16 (l ++ [n.toS 16]))
  | .u16 l => some (.u16 (l ++ [n.toU 16]))
  | .i32 l => some (.i32 (l ++ [n.toS 32]))
  | .u32 l => some (.u32 (l ++ [n.toU 32]))
  | .i64 l => some (.i64 (l ++ [n.toS 64]))
  | .u64 l => some (.u64 (l ++ [n.toU 64]))
  | .f32 l => some (.f32 (l ++ [n.toF]))
  | .f64 l => some (.f64 (l ++ [n.toF]))
  | .tags _ | .dates _ => none

/-- does the variant of a primitive value suit the VR it sits under (the writer emits the variant's
bytes, the reader decodes by VR) -/
def primSuits (vr : VR) : Prim → Bool
  | .empty => true
  | .str _ | .strs _ =>
    [VR.AE, .AS, .CS, .DS, .IS, .LO, .LT, .PN, .SH, .ST, .UC, .UI, .UR, .UT, .UN, .OB].contains vr
  | .u8 _ => [VR.OB, .UN].contains vr
  | .i16 _ | .u16 _ => [VR.US, .SS, .OW].contains vr
  | .i32 _ | .u32 _ => [VR.UL, .SL, .OL].contains vr
  | .i64 _ | .u64 _ => [VR.UV, .SV, .OV].contains vr
  | .f32 _ => [VR.FL, .OF].contains vr
  | .f64 _ => [VR.FD, .OD].contains vr
  | .tags _ => vr == .AT
  | .dates _ => [VR.DA, .TM, .DT].contains vr

/-! ### leaf operations, as the code does them -/

/-- `Value::from(new_value)`, or an empty data set sequence for an empty value under VR SQ -/
def newValue (vr : VR) (p : Prim) : Val :=
  if vr = .SQ ∧ p.isEmpty then .seq .nil else .prim p

/-- `apply_change_value_impl` -/
def changeValue (dict : Nat → Option VR) (o : Obj) (tag : Nat) (p : Prim) : Obj :=
  match o.get tag with
  | some (vr, _) => o.set tag vr (newValue vr p)
  | none =>
    let vr := (dict tag).getD .UN
    o.set tag vr (newValue vr p)

/-- `DataElement::empty(tag, vr)` -/
def emptyValue (vr : VR) : Val := if vr = .SQ then .seq .nil else .prim .empty

/-- header rule of `DataElement::update_value` -/
def vrAfterUpdate (vr : VR) : Val → VR
  | .prim _ => vr
  | .seq _ => .SQ
  | .pix _ _ => .OB

def Val.truncate (n : Nat) : Val → Val
  | .prim p => .prim (p.truncate n)
  | .seq items => .seq (items.take n)
  | .pix bot frags => .pix bot (frags.take n)

/-- the VR after `SetVr(nvr)`: data set sequences and pixel data fragment sequences keep theirs
(behaviour since fix d5a462c; before, `nvr` was taken always) -/
def setVrOf (nvr vr : VR) : Val → VR
  | .prim _ => nvr
  | _ => vr

/-- `apply_push_*_impl` as shipped: remove the entry, extend, re-insert — or restore it and fail; a
missing attribute is created with `fresh`, the value in the kind of the *pushed* item, under the
dictionary VR -/
def pushImpl (dict : Nat → Option VR) (o : Obj) (tag : Nat) (ext : Prim → Option Prim)
    (fresh : Prim) (fallback : VR) : Obj × Option Err :=
  match o.get tag with
  | some (vr, v) =>
    let o' := o.erase tag
    match v with
    | .prim p =>
      match ext p with
      | some p' => (o'.set tag vr (.prim p'), none)
      | none => (o'.set tag vr (.prim p), some .modify)
    | .pix b f => (o'.set tag vr (.pix b f), some .incompatibleTypes)
    | .seq items => (o'.set tag vr (.seq items), some .incompatibleTypes)
  | none => (o.set tag ((dict tag).getD fallback) (.prim fresh), none)

/-- the proposed repair of `apply_push_*_impl` (findings/C13-value-type-incompatible-with-vr.md):
an emptied value first takes the kind of its VR, a missing attribute is created with a value of the
kind of its VR (never under VR SQ) -/
def pushImplRepaired (dict : Nat → Option VR) (o : Obj) (tag : Nat) (ext mk : Prim → Option Prim)
    (fallback : VR) : Obj × Option Err :=
  match o.get tag with
  | some (vr, v) =>
    let o' := o.erase tag
    match v with
    | .prim p =>
      match ext (normEmpty vr p) with
      | some p' => (o'.set tag vr (.prim p'), none)
      | none => (o'.set tag vr (.prim p), some .modify)
    | .pix b f => (o'.set tag vr (.pix b f), some .incompatibleTypes)
    | .seq items => (o'.set tag vr (.seq items), some .incompatibleTypes)
  | none =>
    let vr := (dict tag).getD fallback
    if vr = .SQ then (o, some .incompatibleTypes)
    else match mk (typedEmpty vr) with
      | some p' => (o.set tag vr (.prim p'), none)
      | none => (o, some .modify)

/-- `apply_leaf` -/
def applyLeaf (dict : Nat → Option VR) (o : Obj) (tag : Nat) (a : Action) : Obj × Option Err :=
  match a with
  | .remove => (o.erase tag, none)
  | .empty =>
    (match o.get tag with
     | some (vr, _) => o.set tag vr (emptyValue vr)
     | none => o, none)
  | .setVr nvr =>
    (match o.get tag with
     | some (vr, v) => (o.erase tag).set tag (setVrOf nvr vr v) v
     | none => o.set tag nvr (emptyValue nvr), none)
  | .set p => (changeValue dict o tag p, none)
  | .setStr s => (changeValue dict o tag (.str s), none)
  | .setIfMissing p => (if (o.get tag).isNone then changeValue dict o tag p else o, none)
  | .setStrIfMissing s => (if (o.get tag).isNone then changeValue dict o tag (.str s) else o, none)
  | .replace p => (if (o.get tag).isSome then changeValue dict o tag p else o, none)
  | .replaceStr s => (if (o.get tag).isSome then changeValue dict o tag (.str s) else o, none)
  | .pushStr s => pushImpl dict o tag (Prim.extendStr s) (.str s) .UN
  | .pushNum n => pushImpl dict o tag (Prim.extendNum n) n.fresh n.fallbackVr
  | .truncate n =>
    (match o.get tag with
     | some (vr, v) => o.set tag (vrAfterUpdate vr v) (v.truncate n)
     | none => o, none)

/-! ### navigation, as the code does it -/

/-- `InMemDicomObject::apply`: `steps` are the `Nested { tag, item }` steps, `tag` the final `Tag` step -/
def apply (dict : Nat → Option VR) (o : Obj) (steps : List (Nat × Nat)) (tag : Nat) (a : Action) :
    Obj × Option Err :=
  match steps with
  | [] => applyLeaf dict o tag a
  | (t, i) :: rest =>
    -- missing sequence: create it if the action is constructive
    let created : Except Err Obj :=
      match o.get t with
      | some _ => .ok o
      | none =>
        if a.constructive then
          let vr := (dict t).getD .UN
          if vr ≠ .SQ ∧ vr ≠ .UN then .error .notASequence
          else .ok (o.set t .SQ (.seq .nil))
        else .error .missingSequence
    match created with
    | .error e => (o, some e)
    | .ok o1 =>
      match o1.get t with
      | some (vr, .seq items) =>
        if items.length = i ∧ a.constructive then
          let r := apply dict .nil rest tag a
          (o1.set t vr (.seq (items.push r.1)), r.2)
        else
          match items.get? i with
          | some it =>
            let r := apply dict it rest tag a
            (o1.set t vr (.seq (items.setAt i r.1)), r.2)
          | none => (o1, some .missingSequence)
      | _ => (o1, some .notASequence)

/-! ### the documented semantics, over the map interface -/

/-- "fully reset the attribute with the given value, creating it if it does not exist": the VR is
kept, or inferred from the dictionary (UN when unknown); an empty value for a sequence attribute
means an empty sequence -/
def resetSpec (dict : Nat → Option VR) (tag : Nat) (cur : Option (VR × Val)) (p : Prim) : Option (VR × Val) :=
  let vr := match cur with | some (vr, _) => vr | none => (dict tag).getD .UN
  some (vr, newValue vr p)

/-- "append … as an additional value, creating the attribute if it does not exist yet" (as
shipped: the created value is `fresh`, the pushed item in its own kind); a value that cannot be
extended is an error and nothing changes -/
def pushSpec (dict : Nat → Option VR) (tag : Nat) (cur : Option (VR × Val)) (ext : Prim → Option Prim)
    (fresh : Prim) (fallback : VR) : Option (VR × Val) × Option Err :=
  match cur with
  | none => (some ((dict tag).getD fallback, .prim fresh), none)
  | some (vr, .prim p) =>
    (match ext p with
     | some p' => (some (vr, .prim p'), none)
     | none => (cur, some .modify))
  | some (_, _) => (cur, some .incompatibleTypes)

/-- repaired reading of "append … as an additional value, creating the attribute if it does not exist yet": the
value has the kind of the attribute's VR (an empty one takes it first); a value that cannot be
extended, or a sequence attribute, is an error and nothing changes -/
def pushSpecRepaired (dict : Nat → Option VR) (tag : Nat) (cur : Option (VR × Val)) (ext mk : Prim → Option Prim)
    (fallback : VR) : Option (VR × Val) × Option Err :=
  match cur with
  | none =>
    let vr := (dict tag).getD fallback
    if vr = .SQ then (none, some .incompatibleTypes)
    else (match mk (typedEmpty vr) with
      | some p' => (some (vr, .prim p'), none)
      | none => (none, some .modify))
  | some (vr, .prim p) =>
    (match ext (normEmpty vr p) with
     | some p' => (some (vr, .prim p'), none)
     | none => (cur, some .modify))
  | some (_, _) => (cur, some .incompatibleTypes)

/-- `AttributeAction` documentation, one clause per action; `cur` is the current attribute -/
def leafSpec (dict : Nat → Option VR) (tag : Nat) (cur : Option (VR × Val)) (a : Action) :
    Option (VR × Val) × Option Err :=
  let reset := resetSpec dict tag cur
  let push := pushSpec dict tag cur
  match a with
  | .remove => (none, none)                                   -- "Remove the attribute if it exists"
  | .empty => (cur.map fun (vr, _) => (vr, emptyValue vr), none) -- "clear its value to zero bytes"
  | .setVr nvr =>                 -- "The underlying value is not modified"; ignored where it cannot be done
    (match cur with
     | some (vr, v) => some (setVrOf nvr vr v, v)
     | none => some (nvr, emptyValue nvr), none)
  | .set p => (reset p, none)
  | .setStr s => (reset (.str s), none)
  | .setIfMissing p => (if cur.isNone then reset p else cur, none)
  | .setStrIfMissing s => (if cur.isNone then reset (.str s) else cur, none)
  | .replace p => (if cur.isSome then reset p else cur, none)
  | .replaceStr s => (if cur.isSome then reset (.str s) else cur, none)
  | .pushStr s => push (Prim.extendStr s) (.str s) .UN
  | .pushNum n => push (Prim.extendNum n) n.fresh n.fallbackVr
  | .truncate n =>                                            -- "Does nothing if the attribute does not exist"
    (cur.map fun (vr, v) => (vrAfterUpdate vr v, v.truncate n), none)

/-- write an optional attribute back into the map -/
def Obj.put? (o : Obj) (tag : Nat) : Option (VR × Val) → Obj
  | some (vr, v) => o.set tag vr v
  | none => o.erase tag

/-- the reference semantics of a whole operation -/
def applySpec (dict : Nat → Option VR) (o : Obj) (steps : List (Nat × Nat)) (tag : Nat) (a : Action) :
    Obj × Option Err :=
  match steps with
  | [] =>
    let r := leafSpec dict tag (o.get tag) a
    (o.put? tag r.1, r.2)
  | (t, i) :: rest =>
    match o.get t with
    | none =>
      -- "constructive actions create missing sequences and the next item"
      if a.constructive then
        let vr := (dict t).getD .UN
        if vr ≠ .SQ ∧ vr ≠ .UN then (o, some .notASequence)
        else if i = 0 then
          let r := applySpec dict .nil rest tag a
          (o.set t .SQ (.seq (.cons r.1 .nil)), r.2)
        else (o.set t .SQ (.seq .nil), some .missingSequence)
      else (o, some .missingSequence)               -- "fail without side effects"
    | some (vr, .seq items) =>
      if items.length = i ∧ a.constructive then
        let r := applySpec dict .nil rest tag a
        (o.set t vr (.seq (items.push r.1)), r.2)
      else
        (match items.get? i with
         | some it =>
           let r := applySpec dict it rest tag a
           (o.set t vr (.seq (items.setAt i r.1)), r.2)
         | none => (o, some .missingSequence))
    | some _ => (o, some .notASequence)

/-! ### well-formedness: strictly ascending tags and writable sequence headers at every level -/

/-- a data set sequence is held under VR SQ, pixel data fragments under VR OB: what
`DataToken::from(header)` needs in order to emit the matching start token (the data set writer
panics otherwise) -/
def vrOk (vr : VR) : Val → Bool
  | .prim _ => true
  | .seq _ => vr == .SQ
  | .pix _ _ => vr == .OB

mutual
  /-- every tag of the map is above `lo`, ascending, sequence values sit under their VR, and all
  nested items are well formed -/
  def Obj.wfFrom : Obj → Nat → Bool
    | .nil, _ => true
    | .cons t vr v r, lo => decide (lo ≤ t) && (vrOk vr v && Val.wf v) && Obj.wfFrom r (t + 1)
  def Val.wf : Val → Bool
    | .prim _ => true
    | .seq items => Items.wf items
    | .pix _ _ => true
  def Items.wf : Items → Bool
    | .nil => true
    | .cons o r => Obj.wfFrom o 0 && Items.wf r
end

def Obj.wf (o : Obj) : Bool := o.wfFrom 0

end Dicom.Ops
