/-
Reference encoder of a data set, written directly from DICOM PS3.5 (§7.1 data element structure,
Tables 7.1-1, 7.1-2, 7.1-3, §7.5 nesting of data sets, §A.4 encapsulated pixel data, §6.2 value encodings)
and NOT from dicom-rs: it shares with the writer / reader models only
  * the *types* of the data set tree (`Tag`, `VR`, `PValue`, `Elem`/`Items`/`Elems`, `Syntax`),
  * the fixed-width integer codecs of `Model/Bytes.lean` (`enc16`/`enc32`/`enc64`),
  * the constants `undefinedLen` (FFFFFFFFH) and `Tag.pixelData`.
In particular it has its own VR code table, its own 16-bit-length VR list, its own header layout,
its own value layout and no state (the writer model is a token state machine over a stateful
encoder; this is a plain structural recursion).

=== API (namespace `Dicom.Ref`) ===
  vrCode v                  the two characters of a VR (PS3.5 Table 6.2-1)
  short16                   VRs with a 16-bit length field in explicit VR (PS3.5 Table 7.1-2)
  header ts tag vr len      data element header in the three uncompressed transfer syntaxes
  itemHdr / itemDelim / seqDelim   (FFFE,E000) / (FFFE,E00D) / (FFFE,E0DD) with 32-bit length
  value be v                value field of a (canonical = already padded) value
  encElem / encItems / encElems ts   the encoding; sequence and item lengths as *recorded* in the tree
  fixElems ts t             the tree with every defined sequence / item / value length replaced by its TRUE length
  canonElems ts dict t      decidable: `t` is canonical (lengths true and even, values in the form a reader
                            must deliver for their VR, default repertoire, Implicit VR: VRs = dictionary's)
  sortedElems t             tags strictly ascending (top level; items are checked inside `canonElems`)
  canonical ts dict t       the conjunction used by the theorems of Props/C02
-/
import DicomModel.Model.Writer
namespace Dicom.Ref

/-- PS3.5 Table 6.2-1: the two characters of each VR -/
def vrCode : VR → Nat × Nat
  | .AE => (0x41, 0x45) | .AS => (0x41, 0x53) | .AT => (0x41, 0x54) | .CS => (0x43, 0x53)
  | .DA => (0x44, 0x41) | .DS => (0x44, 0x53) | .DT => (0x44, 0x54) | .FL => (0x46, 0x4C)
  | .FD => (0x46, 0x44) | .IS => (0x49, 0x53) | .LO => (0x4C, 0x4F) | .LT => (0x4C, 0x54)
  | .OB => (0x4F, 0x42) | .OD => (0x4F, 0x44) | .OF => (0x4F, 0x46) | .OL => (0x4F, 0x4C)
  | .OV => (0x4F, 0x56) | .OW => (0x4F, 0x57) | .PN => (0x50, 0x4E) | .SH => (0x53, 0x48)
  | .SL => (0x53, 0x4C) | .SQ => (0x53, 0x51) | .SS => (0x53, 0x53) | .ST => (0x53, 0x54)
  | .SV => (0x53, 0x56) | .TM => (0x54, 0x4D) | .UC => (0x55, 0x43) | .UI => (0x55, 0x49)
  | .UL => (0x55, 0x4C) | .UN => (0x55, 0x4E) | .UR => (0x55, 0x52) | .US => (0x55, 0x53)
  | .UT => (0x55, 0x54) | .UV => (0x55, 0x56)

/-- PS3.5 Table 7.1-2: VRs whose explicit-VR header is tag, VR, 16-bit length -/
def short16 : VR → Bool
  | .AE | .AS | .AT | .CS | .DA | .DS | .DT | .FL | .FD | .IS | .LO | .LT | .PN | .SH | .SL | .SS
  | .ST | .TM | .UI | .UL | .US => true
  | _ => false

def tagBytes (be : Bool) (t : Tag) : Bytes := enc16 be t.group ++ enc16 be t.elem

/-- PS3.5 §7.1.2 (explicit VR, Tables 7.1-1 / 7.1-2) and §7.1.3 (implicit VR, Table 7.1-3) -/
def header (ts : Syntax) (t : Tag) (vr : VR) (len : Nat) : Bytes :=
  match ts with
  | .implicitLE => tagBytes false t ++ enc32 false len
  | .explicitLE =>
    tagBytes false t ++ [(vrCode vr).1, (vrCode vr).2] ++
      (if short16 vr then enc16 false len else [0, 0] ++ enc32 false len)
  | .explicitBE =>
    tagBytes true t ++ [(vrCode vr).1, (vrCode vr).2] ++
      (if short16 vr then enc16 true len else [0, 0] ++ enc32 true len)

/-- PS3.5 §7.5 Table 7.5-1: item, item delimitation item, sequence delimitation item -/
def itemHdr (be : Bool) (len : Nat) : Bytes := tagBytes be ⟨0xFFFE, 0xE000⟩ ++ enc32 be len
def itemDelim (be : Bool) : Bytes := tagBytes be ⟨0xFFFE, 0xE00D⟩ ++ enc32 be 0
def seqDelim (be : Bool) : Bytes := tagBytes be ⟨0xFFFE, 0xE0DD⟩ ++ enc32 be 0

/-- multiple values are separated by a backslash (PS3.5 §6.4) -/
def join5C : List Bytes → Bytes
  | [] => []
  | [x] => x
  | x :: y :: r => x ++ 0x5C :: join5C (y :: r)

/-- two's complement representation in `2^k` (PS3.5 §6.2: SS, SL, SV) -/
def unsigned (modulus : Nat) (v : Int) : Nat := if v < 0 then modulus - v.natAbs else v.toNat

/-- the value field: character strings as they are (already padded), binary numbers in the byte
order of the transfer syntax, AT as two 16-bit numbers -/
def value (be : Bool) : PValue → Bytes
  | .empty => []
  | .strs l => join5C l
  | .str s => s
  | .tags l => l.flatMap (tagBytes be)
  | .u8 l => l
  | .i16 l => l.flatMap fun v => enc16 be (unsigned 65536 v)
  | .u16 l => l.flatMap (enc16 be)
  | .i32 l => l.flatMap fun v => enc32 be (unsigned 4294967296 v)
  | .u32 l => l.flatMap (enc32 be)
  | .i64 l => l.flatMap fun v => enc64 be (unsigned 18446744073709551616 v)
  | .u64 l => l.flatMap (enc64 be)
  | .f32 l => l.flatMap fun p => enc32 be p.1
  | .f64 l => l.flatMap fun p => enc64 be p.1
  | .date l => join5C l
  | .dateTime l => join5C l
  | .time l => join5C l

/-- one fragment item of encapsulated pixel data (PS3.5 §A.4) -/
def fragment (be : Bool) (f : Bytes) : Bytes := itemHdr be f.length ++ f

mutual
/-- a data element -/
def encElem (ts : Syntax) : Elem → Bytes
  | .prim tag vr len v => header ts tag vr len ++ value ts.bigEndian v
  | .seq tag len items =>
    header ts tag .SQ len ++ (encItems ts items ++ (if len = undefinedLen then seqDelim ts.bigEndian else []))
  | .pix bot frags =>
    header ts Tag.pixelData .OB undefinedLen ++
      (itemHdr ts.bigEndian (4 * bot.length) ++ (bot.flatMap (enc32 ts.bigEndian) ++
        (frags.flatMap (fragment ts.bigEndian) ++ seqDelim ts.bigEndian)))
/-- the items of a sequence -/
def encItems (ts : Syntax) : Items → Bytes
  | .nil => []
  | .cons len elems rest =>
    itemHdr ts.bigEndian len ++ (encElems ts elems ++
      ((if len = undefinedLen then itemDelim ts.bigEndian else []) ++ encItems ts rest))
/-- a data set -/
def encElems (ts : Syntax) : Elems → Bytes
  | .nil => []
  | .cons e rest => encElem ts e ++ encElems ts rest
end

mutual
/-- fill in the true lengths (undefined lengths stay undefined) -/
def fixElem (ts : Syntax) : Elem → Elem
  | .prim tag vr _ v => .prim tag vr (value ts.bigEndian v).length v
  | .seq tag len items =>
    .seq tag (if len = undefinedLen then len else (encItems ts (fixItems ts items)).length) (fixItems ts items)
  | .pix bot frags => .pix bot frags
def fixItems (ts : Syntax) : Items → Items
  | .nil => .nil
  | .cons len elems rest =>
    .cons (if len = undefinedLen then len else (encElems ts (fixElems ts elems)).length) (fixElems ts elems)
      (fixItems ts rest)
def fixElems (ts : Syntax) : Elems → Elems
  | .nil => .nil
  | .cons e rest => .cons (fixElem ts e) (fixElems ts rest)
end

/-! ### canonical trees -/

/-- tag order -/
def tagLt (a b : Tag) : Bool := a.group < b.group || (a.group == b.group && a.elem < b.elem)

/-- a data element tag: two 16-bit numbers, not in the item group FFFE -/
def tagOk (t : Tag) : Bool := t.group < 65536 && t.elem < 65536 && t.group != 0xFFFE

/-- default character repertoire, no value separator inside a component -/
def plainText (s : Bytes) : Bool := s.all fun c => c < 128
def component (s : Bytes) : Bool := s.all fun c => c < 128 && c != 0x5C

/-- VR implied by the dictionary in Implicit VR (dicom-rs: Pixel Data and Overlay Data are OW,
unknown attributes are UN) -/
def implicitVr (dict : Tag → Option VR) (t : Tag) : VR :=
  if t = Tag.pixelData then .OW
  else if t.group / 256 = 0x60 ∧ t.elem = 0x3000 then .OW
  else match dict t with
    | some v => v
    | none => .UN

/-- the form in which a reader delivers a non-empty value of each VR (one typed list per VR class),
with every number in range -/
def valueFits (vr : VR) (v : PValue) : Bool :=
  match vr, v with
  | .AT, .tags l => l.all fun t => t.group < 65536 && t.elem < 65536
  | .AE, .strs l | .AS, .strs l | .PN, .strs l | .SH, .strs l | .LO, .strs l | .UC, .strs l
  | .UI, .strs l | .IS, .strs l | .DS, .strs l | .DA, .strs l | .TM, .strs l | .DT, .strs l
  | .CS, .strs l => l.all component
  | .UT, .str s | .ST, .str s | .UR, .str s | .LT, .str s => plainText s
  | .UN, .u8 l | .OB, .u8 l => l.all fun b => b < 256
  | .US, .u16 l | .OW, .u16 l => l.all fun n => n < 65536
  | .SS, .i16 l => l.all fun n => -32768 ≤ n && n < 32768
  | .FD, .f64 l | .OD, .f64 l => l.all fun p => p.1 < 18446744073709551616 && p.2.isEmpty
  | .FL, .f32 l | .OF, .f32 l => l.all fun p => p.1 < 4294967296 && p.2.isEmpty
  | .SL, .i32 l => l.all fun n => -2147483648 ≤ n && n < 2147483648
  | .OL, .u32 l | .UL, .u32 l => l.all fun n => n < 4294967296
  | .SV, .i64 l => l.all fun n => -9223372036854775808 ≤ n && n < 9223372036854775808
  | .OV, .u64 l | .UV, .u64 l => l.all fun n => n < 18446744073709551616
  | _, _ => false

def tagOf : Elem → Tag
  | .prim t _ _ _ => t
  | .seq t _ _ => t
  | .pix _ _ => Tag.pixelData

/-- tags strictly ascending, all above `prev` -/
def sortedFrom (prev : Tag) : Elems → Bool
  | .nil => true
  | .cons e rest => tagLt prev (tagOf e) && sortedFrom (tagOf e) rest

/-- ascending unique tags -/
def sortedElems : Elems → Bool
  | .nil => true
  | .cons e rest => sortedFrom (tagOf e) rest

/-- a defined length field: the true length, representable in 32 bits -/
def lenTrue (len actual : Nat) : Bool := len == actual && len < 4294967295

mutual
def canonElem (ts : Syntax) (dict : Tag → Option VR) : Elem → Bool
  | .prim tag vr len v =>
    tagOk tag && vr != .SQ
      && lenTrue len (value ts.bigEndian v).length && len % 2 == 0
      && (!(ts.explicit && short16 vr) || len < 65536)
      && (ts.explicit || implicitVr dict tag == vr)
      && (if len = 0 then v == .empty else valueFits vr v)
  | .seq tag len items =>
    tagOk tag && tag != Tag.pixelData
      && (len == undefinedLen ||
          (lenTrue len (encItems ts items).length && (ts.explicit || implicitVr dict tag == .SQ)))
      && canonItems ts dict items
  | .pix bot frags =>
    4 * bot.length < 4294967295 && bot.all (fun o => o < 4294967296)
      && frags.all fun f => f.length % 2 == 0 && f.length < 4294967295 && f.all fun b => b < 256
def canonItems (ts : Syntax) (dict : Tag → Option VR) : Items → Bool
  | .nil => true
  | .cons len elems rest =>
    (len == undefinedLen || lenTrue len (encElems ts elems).length)
      && canonElems ts dict elems && sortedElems elems && canonItems ts dict rest
def canonElems (ts : Syntax) (dict : Tag → Option VR) : Elems → Bool
  | .nil => true
  | .cons e rest => canonElem ts dict e && canonElems ts dict rest
end

/-- Implicit VR: the dictionary does not call the item delimitation tag a sequence -/
def dictOk (ts : Syntax) (dict : Tag → Option VR) : Bool :=
  ts.explicit || dict ⟨0xFFFE, 0xE00D⟩ != some .SQ

/-- **canonical data set**: ascending unique tags at every level, even value lengths equal to the
length of the value field, values of the form and range of their VR, default character repertoire,
every defined sequence / item length equal to the true length of its content -/
def canonical (ts : Syntax) (dict : Tag → Option VR) (t : Elems) : Bool :=
  dictOk ts dict && canonElems ts dict t && sortedElems t

mutual
/-- every sequence and item has undefined length -/
def allUndefElem : Elem → Bool
  | .seq _ len items => len == undefinedLen && allUndefItems items
  | _ => true
def allUndefItems : Items → Bool
  | .nil => true
  | .cons len elems rest => len == undefinedLen && allUndefElems elems && allUndefItems rest
def allUndefElems : Elems → Bool
  | .nil => true
  | .cons e rest => allUndefElem e && allUndefElems rest
end

end Dicom.Ref
