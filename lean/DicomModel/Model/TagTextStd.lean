/-
`StandardDataDictionary::parse_tag` / `parse_selector`: the generic model of `Model/TagText.lean`
with the keyword lookup of the standard dictionary (`Model/Dict.lean`, C15).
-/
import DicomModel.Model.TagText
import DicomModel.Model.Dict
namespace Dicom.TagText
open Dicom.Dict

/-- `TagRange::inner()` of what `by_name` returned -/
def ansTag : Ans → Option Tag
  | .entry r => some (r.group, r.elem)
  | .groupLength => some (0, 0)
  | .privateCreator => some (0x0009, 0x0010)
  | .none => none

/-- `StandardDataDictionary.by_name(text).map(|e| e.tag())`. Keywords travel as numbers in the
generated table; a text starting with NUL is no keyword (and would alias another number). -/
def stdByName (s : Bytes) : Option Tag :=
  if s.head? = some 0 then none else ansTag (byName registry (natOfBytes s))

def stdParseTag (s : Bytes) : KeyOutcome := dictParseTag stdByName s
def stdParseSelector (s : Bytes) : SelOutcome Selector := parseSelector stdByName s

end Dicom.TagText
