/-
Model of the native (uncompressed, `DicomValue::Primitive`) arms of
`PixelDecoder::decode_pixel_data` / `decode_pixel_data_frame` for `FileDicomObject<InMemDicomObject>`
and of `DecodedPixelData::frame_data` (pixeldata/src/lib.rs), after the repair of defect #12
(1-bit frames are packed continuously; a frame may start and end inside a byte; all
`rows*cols*samples_per_pixel` samples of a frame are kept) and of finding
`padded-odd-length-whole-len` (bytes beyond the last frame are not returned as samples).

`data` is the stored value of Pixel Data as bytes (`PrimitiveValue::to_bytes`, little endian).
`none` stands for the `FrameOutOfRange` error.
-/
import DicomModel.Model.Bytes
namespace Dicom.Native

structure Img where
  bits : Nat
  spp : Nat
  rows : Nat
  cols : Nat
  frames : Nat
deriving Repr

def Img.framePixels (I : Img) : Nat := I.rows * I.cols
def Img.frameSamples (I : Img) : Nat := I.rows * I.cols * I.spp
/-- `bits_allocated.div_ceil(8)` -/
def Img.bytesPerSample (I : Img) : Nat := (I.bits + 7) / 8

/-- `(0..8).map(move |bit| ((byte >> bit) & 1) * 255)` -/
def bitsOf (byte : Nat) : Bytes := (List.range 8).map fun bit => byte / 2 ^ bit % 2 * 255

/-- `.iter().flat_map(|&byte| …)`: least significant bit first -/
def expandBits (bs : Bytes) : Bytes := bs.flatMap bitsOf

/-- `slice.get(a..b)` -/
def getRange (data : Bytes) (a b : Nat) : Option Bytes :=
  if a ≤ b ∧ b ≤ data.length then some ((data.drop a).take (b - a)) else none


/-- `decode_pixel_data`, `DicomValue::Primitive` arm: the decoded sample bytes -/
def decodeWhole (I : Img) (data : Bytes) : Option Bytes :=
  if I.bits = 1 then
    match getRange data 0 ((I.frameSamples * I.frames + 7) / 8) with
    | some fd => some ((expandBits fd).take (I.frameSamples * I.frames))
    | none => none
  else
    -- `data.get(0..size_all).unwrap_or(&data)`: anything beyond the last frame (such as the pad
    -- byte of an odd-sized value) is left out; a value that is too short is returned as it is
    match getRange data 0 (I.frameSamples * I.bytesPerSample * I.frames) with
    | some d => some d
    | none => some data

/-- `decode_pixel_data_frame(frame)`, `DicomValue::Primitive` arm -/
def decodeFrame (I : Img) (data : Bytes) (f : Nat) : Option Bytes :=
  if I.bits = 1 then
    let firstBit := I.frameSamples * f
    match getRange data (firstBit / 8) ((firstBit + I.frameSamples + 7) / 8) with
    | some fd => some (((expandBits fd).drop (firstBit % 8)).take I.frameSamples)
    | none => none
  else
    let frameSize := I.frameSamples * I.bytesPerSample
    getRange data (frameSize * f) (frameSize * f + frameSize)

/-- `DecodedPixelData::frame_data(frame)` on decoded data `whole` -/
def frameData (I : Img) (whole : Bytes) (f : Nat) : Option Bytes :=
  let len := I.rows * I.cols * I.spp * I.bytesPerSample
  if whole.length < len * f + len then none
  else some ((whole.drop (len * f)).take len)

/-! ## Specification side -/

/-- sample `i` of a continuously packed 1-bit stream, expanded to 0 / 255 -/
def bitSample (data : Bytes) (i : Nat) : Nat := data.getD (i / 8) 0 / 2 ^ (i % 8) % 2 * 255

/-- expected samples of frame `f` of a 1-bit image: bits `f·N … f·N+N-1` of the stream -/
def oneBitFrame (I : Img) (data : Bytes) (f : Nat) : Bytes :=
  (List.range I.frameSamples).map fun k => bitSample data (f * I.frameSamples + k)

/-- expected bytes of frame `f` of an 8/16-bit image: the corresponding part of the stored data -/
def byteFrame (I : Img) (data : Bytes) (f : Nat) : Bytes :=
  (data.drop (f * (I.frameSamples * I.bytesPerSample))).take (I.frameSamples * I.bytesPerSample)

def expectedFrame (I : Img) (data : Bytes) (f : Nat) : Bytes :=
  if I.bits = 1 then oneBitFrame I data f else byteFrame I data f

/-- stored size of a well-formed native image in bytes (before padding to even length) -/
def Img.exactBytes (I : Img) : Nat :=
  if I.bits = 1 then (I.frameSamples * I.frames + 7) / 8
  else I.frameSamples * I.bytesPerSample * I.frames

end Dicom.Native
