/-
Line-protocol rendering of the reader model's output (shared by the C07 and C08 drivers), and the
standard dictionary as the reader / decoder models consume it.
Words are those of harness/src/bin/c08/tok.rs.
-/
import DicomModel.Model.Adaptive
import DicomModel.Model.Dict
namespace Dicom.Rd

def hex4 (n : Nat) : String :=
  String.ofList [hexDigit (n / 4096 % 16), hexDigit (n / 256 % 16), hexDigit (n / 16 % 16), hexDigit (n % 16)]

def tagWord (t : Tag) : String := hex4 t.group ++ hex4 t.elem

def listWord (l : List String) : String := if l.isEmpty then "-" else ",".intercalate l

def NumKind.word : NumKind → String
  | .u16 => "u16" | .i16 => "i16" | .u32 => "u32" | .i32 => "i32"
  | .u64 => "u64" | .i64 => "i64" | .f32 => "f32" | .f64 => "f64"

def IKind.word : IKind → String
  | .date => "date" | .dateTime => "dateTime" | .time => "time" | .f64 => "f64" | .i32 => "i32"

def RVal.word : RVal → String
  | .empty => "e"
  | .u8 b => "b:" ++ hexOf b
  | .nums k l => s!"n:{k.word}:{listWord (l.map toString)}"
  | .tags l => "t:" ++ listWord (l.map tagWord)
  | .strs l => "ss:" ++ listWord (l.map hexOf)
  | .str s => "st:" ++ hexOf s
  | .interp k n => s!"x:{k.word}:{n}"

def ErrKind.word : ErrKind → String
  | .invalidElementLength => "invalidElementLength" | .invalidItemLength => "invalidItemLength"
  | .inconsistentSequenceEnd => "inconsistentSequenceEnd" | .unexpectedItemHeader => "unexpectedItemHeader"
  | .undefinedItemLength => "undefinedItemLength" | .unexpectedItemTag => "unexpectedItemTag"
  | .readItemHeader => "readItemHeader" | .readHeader => "readHeader" | .readValue => "readValue"
  | .readItemValue => "readItemValue"

def Tok.word : Tok → String
  | .elementHeader h => s!"H:{tagWord h.tag}:{h.vr.name}:{h.len}"
  | .sequenceStart t l => s!"S:{tagWord t}:{l}"
  | .pixelSequenceStart => "P"
  | .sequenceEnd => "s"
  | .itemStart l => s!"I:{l}"
  | .itemEnd => "i"
  | .primitiveValue v => "V:" ++ v.word
  | .itemValue b => "F:" ++ hexOf b
  | .offsetTable l => "O:" ++ listWord (l.map toString)

def Out.word : Out → String
  | .tok t => t.word
  | .err e => "E:" ++ e.word
  | .done => "D"

/-- text values are compared exactly when the model's raw bytes are plain ASCII without ESC (the
decoders are then the identity); otherwise only the number of components is compared -/
def plainText (hexes : String) : Bool :=
  match unhex (hexes.replace "," "") with
  | some bs => bs.all fun b => b < 0x80 ∧ b ≠ 0x1B
  | none => hexes == "-" || (hexes.toList.all fun c => c == ',' || c == '-')

def commas (s : String) : Nat := (s.toList.filter (· == ',')).length

/-- equality of a model word and an implementation word -/
def wordEq (m i : String) : Bool :=
  if m == i then true
  else if m.startsWith "V:ss:" && i.startsWith "V:ss:" then
    !plainText (m.drop 5).toString && commas m == commas i
  else if m.startsWith "V:st:" && i.startsWith "V:st:" then !plainText (m.drop 5).toString
  else false

def wordsEq : List String → List String → Bool
  | [], [] => true
  | a :: as, b :: bs => wordEq a b && wordsEq as bs
  | _, _ => false

/-- first position where two word lists differ -/
def firstDiff : Nat → List String → List String → String
  | k, a :: as, b :: bs => if wordEq a b then firstDiff (k + 1) as bs else s!"at={k} model={a} impl={b}"
  | k, [], b :: _ => s!"at={k} model=<none> impl={b}"
  | k, a :: _, [] => s!"at={k} model={a} impl=<none>"
  | _, [], [] => "same"

/-! ### the standard dictionary -/

def vvrOfCode (c : Nat) : Option VVr :=
  if c = 1 then some .xs else if c = 2 then some .ox else if c = 3 then some .px else if c = 4 then some .lt
  else (VR.fromBinary (c / 256) (c % 256)).map VVr.exact

/-- `StandardDataDictionary.by_tag(tag).map(|e| e.vr())` over the generated entry table -/
def stdDictV (t : Tag) : Option VVr :=
  match Dict.indexedTag Dict.registry t.group t.elem with
  | .none => none
  | .entry r => vvrOfCode r.vr
  | .privateCreator => some (.exact .LO)
  | .groupLength => some (.exact .UL)

def stdIsXs (t : Tag) : Bool := stdDictV t == some .xs

def isDigit (b : Nat) : Bool := 0x30 ≤ b && b ≤ 0x39

/-- `char::is_whitespace` on the characters a default-repertoire (ISO 8859-1) decode can produce -/
def isWs (b : Nat) : Bool := (0x09 ≤ b && b ≤ 0x0D) || b == 0x20 || b == 0x85 || b == 0xA0

/-- `str::trim` -/
def trimWs (bs : Bytes) : Bytes := ((bs.dropWhile isWs).reverse.dropWhile isWs).reverse

def digitsVal (bs : Bytes) : Nat := bs.foldl (fun acc b => acc * 10 + (b - 0x30)) 0

/-- accept set of `str::parse::<i32>`: optional sign, at least one digit, value in range -/
def parsesI32 (bs : Bytes) : Bool :=
  match bs with
  | 0x2D :: ds => !ds.isEmpty && ds.all isDigit && digitsVal ds ≤ 2147483648
  | 0x2B :: ds => !ds.isEmpty && ds.all isDigit && digitsVal ds ≤ 2147483647
  | ds => !ds.isEmpty && ds.all isDigit && digitsVal ds ≤ 2147483647

def lower (b : Nat) : Nat := if 0x41 ≤ b && b ≤ 0x5A then b + 32 else b

/-- accept set of `str::parse::<f64>`: `[+-]? (inf | infinity | nan | digits [. digits*] | . digits+) ([eE][+-]?digits+)?` -/
def parsesF64 (bs : Bytes) : Bool :=
  let body := match bs with
    | 0x2D :: r => r
    | 0x2B :: r => r
    | r => r
  let lw := body.map lower
  if lw == "inf".toUTF8.toList.map (·.toNat) || lw == "infinity".toUTF8.toList.map (·.toNat)
      || lw == "nan".toUTF8.toList.map (·.toNat) then true
  else
    let intPart := body.takeWhile isDigit
    let r1 := body.dropWhile isDigit
    let (fracPart, r2, hasDot) := match r1 with
      | 0x2E :: r => (r.takeWhile isDigit, r.dropWhile isDigit, true)
      | r => ([], r, false)
    let mantOk := !intPart.isEmpty || (hasDot && !fracPart.isEmpty)
    let expOk := match r2 with
      | [] => true
      | e :: r =>
        if e == 0x65 || e == 0x45 then
          let ds := match r with
            | 0x2D :: d => d
            | 0x2B :: d => d
            | d => d
          !ds.isEmpty && ds.all isDigit
        else false
    mantOk && expOk

/-- What the `Interpreted` strategy accepts, as far as the correspondence needs it: the character-class
checks `validate_da` / `validate_tm` / `validate_dt` that precede the date and time parsers (note:
`validate_da` has no backslash, so a multi-valued DA is rejected there) — the date/time parsers proper
(C12) are assumed to accept what the generators produce — and the accept sets of Rust's `i32` / `f64`
parsers on every trimmed component for IS / DS. -/
def stdParseOk (vr : VR) (buf : Bytes) : Bool :=
  match vr with
  | .DA => buf.all isDigit
  | .TM => buf.all fun b => isDigit b || b == 0x5C || b == 0x2E || b == 0x2D || b == 0x20
  | .DT => buf.all fun b => isDigit b || b == 0x2E || b == 0x2D || b == 0x2B || b == 0x20 || b == 0x5C
  | .IS => (splitBs buf).all fun p => parsesI32 (trimWs p)
  | .DS => (splitBs buf).all fun p => parsesF64 (trimWs p)
  | _ => true

def modeOf (s : String) : Option VMode :=
  if s == "0" then some .interpreted else if s == "1" then some .preserved else if s == "2" then some .raw else none

def cap : Nat := 3000

end Dicom.Rd
