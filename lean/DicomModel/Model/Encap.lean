/-
Model of pixel data encapsulation in dicom-rs (repaired behaviour of defects #3, #4, #13 and of the
odd-length fragments of the default encoder):

* `core/src/value/fragments.rs` — `Fragments::new`, `Fragments::len`,
  `From<Vec<Fragments>> for PixelFragmentSequence`
* `pixeldata/src/encapsulation.rs` — `encapsulate`, `encapsulate_single_frame`
* `encoding/src/adapters.rs` — default `PixelDataWriter::encode` (offset table),
  `PixelDataObject::frame_pixel_data` (encapsulated arms)
* `transfer-syntax-registry/src/adapters/uncompressed.rs` — `UncompressedAdapter::encode_frame`
* `pixeldata/src/transcode.rs` — `decode_and_encode`: what is put into the object and in which
  order the returned attribute operations are applied.

Byte strings are `List Nat`; all sizes are exact naturals. Rust `u32` conversions that can lose
information are written out (`% 2^32`, overflow = `panic`).
-/
import DicomModel.Model.Bytes
namespace Dicom.Encap

/-- outcome of a helper that may panic -/
inductive Outcome (α : Type) where
  | ok : α → Outcome α
  | panic : Outcome α
deriving DecidableEq, Repr

def u32Max : Nat := 4294967295

/-- the fragment size actually used by `Fragments::new`:
`0` means "the whole data" (`data.len() as u32`), odd sizes are rounded up (`+ 1` in `u32`:
arithmetic overflow is a panic in checked builds and wraps in unchecked ones — `panic` here). -/
def effSize (len fs : Nat) : Outcome Nat :=
  let fs0 := if fs = 0 then len % (u32Max + 1) else fs
  if fs0 % 2 = 0 then .ok fs0
  else if fs0 + 1 ≤ u32Max then .ok (fs0 + 1)
  else .panic

/-- `slice::chunks_exact(sz)` yielding `n` chunks -/
def chunksExact (sz : Nat) : Nat → Bytes → List Bytes
  | 0, _ => []
  | n + 1, bs => bs.take sz :: chunksExact sz n (bs.drop sz)

/-- `data.len().div_ceil(sz)` -/
def divCeil (a b : Nat) : Nat := (a + b - 1) / b

/-- `Fragments::new(data, fragment_size)` — the list of fragments of one frame -/
def fragmentsNew (data : Bytes) (fs : Nat) : Outcome (List Bytes) :=
  match effSize data.length fs with
  | .panic => .panic
  | .ok sz =>
    if sz = 0 then .ok []
    else
      let n := divCeil data.length sz
      let padded := if sz * n > data.length then data ++ List.replicate (sz * n - data.length) 0 else data
      .ok (chunksExact sz (padded.length / sz) padded)

/-- lengths only (used for the large-size probes, where the bytes are not materialised):
`fragLens len fs` = the lengths of the fragments of `fragmentsNew data fs` when `data.length = len` -/
def fragLens (len fs : Nat) : Outcome (Nat × Nat) :=   -- (count, size of each)
  match effSize len fs with
  | .panic => .panic
  | .ok sz => if sz = 0 then .ok (0, 0) else .ok (divCeil len sz, sz)

/-- `Fragments::len`: bytes the frame takes in the sequence, 8 per item header -/
def frameLen (fr : List Bytes) : Nat := (fr.map fun f => f.length + 8).sum

/-- the loop of `From<Vec<Fragments>>`: entries pushed for every frame but the last -/
def fromLoop (last : Nat) : Nat → Nat → List (List Bytes) → List Nat × List Bytes
  | _, _, [] => ([], [])
  | idx, cur, fr :: rest =>
    let cur' := if idx < last then cur + frameLen fr else cur
    let r := fromLoop last (idx + 1) cur' rest
    ((if idx < last then [cur + frameLen fr] else []) ++ r.1, fr ++ r.2)

/-- `From<Vec<Fragments>> for PixelFragmentSequence` = (offset table, fragments).
Panics when there are several frames and one of them has more than one fragment. -/
def fromFrames (frames : List (List Bytes)) : Outcome (List Nat × List Bytes) :=
  if frames.isEmpty then .ok ([], [])
  else if decide (frames.length > 1) && frames.any (fun fr => decide (fr.length > 1)) then .panic
  else
    let r := fromLoop (frames.length - 1) 0 0 frames
    .ok (0 :: r.1, r.2)

/-- sequence the fragment helper over all frames -/
def mapFrames (fs : Nat) : List Bytes → Outcome (List (List Bytes))
  | [] => .ok []
  | d :: ds =>
    match fragmentsNew d fs, mapFrames fs ds with
    | .ok a, .ok b => .ok (a :: b)
    | _, _ => .panic

/-- `encapsulate(frames)` -/
def encapsulate (frames : List Bytes) : Outcome (List Nat × List Bytes) :=
  match mapFrames 0 frames with
  | .ok frs => fromFrames frs
  | .panic => .panic

/-- `encapsulate_single_frame(frame, fragment_size)` -/
def encapsulateSingle (frame : Bytes) (fs : Nat) : Outcome (List Nat × List Bytes) :=
  match fragmentsNew frame fs with
  | .ok fr => fromFrames [fr]
  | .panic => .panic

/-! ### default `PixelDataWriter::encode` -/

/-- fragments must have an even length: a trailing NUL is appended to an odd one -/
def padEven (fd : Bytes) : Bytes := if fd.length % 2 = 1 then fd ++ [0] else fd

/-- the per-frame loop: `encFrame f` is what `encode_frame` wrote for frame `f`
(`none` = an error, which aborts); it becomes one fragment, padded to even length.
Returns the new fragments and offset-table entries. -/
def encodeLoop (encFrame : Nat → Option Bytes) : Nat → Nat → Nat → Option (List Bytes × List Nat)
  | 0, _, _ => some ([], [])
  | n + 1, frame, off =>
    match encFrame frame with
    | none => none
    | some fd0 =>
      let fd := padEven fd0
      match encodeLoop encFrame n (frame + 1) (off + fd.length + 8) with
      | none => none
      | some (ds, ts) => some (fd :: ds, off :: ts)

/-- `encode(src, options, dst, offset_table)`: appends to `dst` and `offset_table` -/
def encodeDefault (encFrame : Nat → Option Bytes) (nframesAttr : Option Nat)
    (dst : List Bytes) (table : List Nat) : Option (List Bytes × List Nat) :=
  let off0 := (dst.map fun f => f.length + 8).sum
  match encodeLoop encFrame (nframesAttr.getD 1) 0 off0 with
  | none => none
  | some (ds, ts) => some (dst ++ ds, table ++ ts)

/-! ### native image and the uncompressed writer -/

structure Image where
  rows : Nat
  cols : Nat
  spp : Nat
  bits : Nat
  /-- Number of Frames attribute (`none` = absent) -/
  nframes : Option Nat
  /-- the native pixel data value, as bytes -/
  data : Bytes
deriving Repr, DecidableEq

/-- `cols * rows * samples_per_pixel * (bits_allocated / 8)` -/
def Image.frameSize (im : Image) : Nat := im.cols * im.rows * im.spp * (im.bits / 8)

/-- `slice.get(a..b)` -/
def sliceGet (bs : Bytes) (a b : Nat) : Option Bytes :=
  if a ≤ b ∧ b ≤ bs.length then some ((bs.drop a).take (b - a)) else none

/-- frame slice used by all three writers before the codec proper -/
def Image.frame (im : Image) (f : Nat) : Option Bytes :=
  sliceGet im.data (im.frameSize * f) (im.frameSize * (f + 1))

/-- `UncompressedAdapter::encode_frame`: the frame bytes as they are -/
def uncompressedFrame (im : Image) (f : Nat) : Option Bytes := im.frame f

/-- an adapter given by its per-frame codec (deflate, JPEG …) -/
def codecFrame (codec : Bytes → Bytes) (im : Image) (f : Nat) : Option Bytes :=
  (im.frame f).map codec

/-! ### `decode_and_encode` on a native source: the resulting object -/

/-- the observable part of the transcoded object -/
structure Encapsulated where
  table : List Nat
  fragments : List Bytes
  /-- Number of Frames attribute after transcoding -/
  nframes : Nat
  /-- (7FE0,0003) Encapsulated Pixel Data Value Total Length -/
  totalLength : Option Nat
deriving Repr, DecidableEq

/-- attribute store restricted to what matters here: (tag, value) with replace-on-put -/
abbrev Attrs := List (Nat × Nat)

def Attrs.put (a : Attrs) (tag v : Nat) : Attrs := (tag, v) :: a.filter (fun p => p.1 ≠ tag)
def Attrs.get (a : Attrs) (tag : Nat) : Option Nat := (a.find? (fun p => p.1 = tag)).map (·.2)

def tagTotalLength : Nat := 0x7FE00003
def tagNumberOfFrames : Nat := 0x00280008

/-- `decode_and_encode` after the pixel data has been brought to native form:
put Pixel Data and Number of Frames, apply the operations returned by the writer
(`ops`, each a `Set tag value`), then put the total length. -/
def transcodeEncap (encFrame : Nat → Option Bytes) (nframesAttr : Option Nat)
    (ops : List (Nat × Nat)) : Option Encapsulated :=
  match encodeDefault encFrame nframesAttr [] [] with
  | none => none
  | some (frags, table) =>
    let total := (frags.map List.length).sum
    let a : Attrs := Attrs.put [] tagNumberOfFrames table.length
    let a := ops.foldl (fun acc op => acc.put op.1 op.2) a
    let a := a.put tagTotalLength total
    some { table := table, fragments := frags, nframes := (a.get tagNumberOfFrames).getD 0,
           totalLength := a.get tagTotalLength }

/-- the operations returned by the uncompressed writer (last frame): total length := length of the
native value -/
def uncompressedOps (im : Image) : List (Nat × Nat) := [(tagTotalLength, im.data.length)]

/-- the operations returned by the deflated-image-frame writer: total length := length of the last
fragment -/
def lastFragmentOps (lastLen : Nat) : List (Nat × Nat) := [(tagTotalLength, lastLen)]

/-! ### `PixelDataObject::frame_pixel_data`, encapsulated pixel data -/

/-- the gathering loop over the fragments: `off` is the running offset -/
def gather (base : Nat) (next : Option Nat) : Nat → List Bytes → Bytes
  | _, [] => []
  | off, f :: fs =>
    let inc := if off ≥ base then f else []
    let off' := off + f.length + 8
    match next with
    | some n => if off' ≥ n then inc else inc ++ gather base next off' fs
    | none => inc ++ gather base next off' fs

/-- `frame_pixel_data(frame)` of an object whose Pixel Data is the sequence (`table`, `frags`) -/
def framePixelData (nframesAttr : Option Nat) (table : List Nat) (frags : List Bytes)
    (frame : Nat) : Option Bytes :=
  if frags.length = nframesAttr.getD 1 then frags[frame]?
  else
    let base? := table[frame]?
    let base := if frame = 0 then some (base?.getD 0) else base?
    match base with
    | none => none
    | some b => some (gather b table[frame + 1]? 0 frags)

/-! ### the property's own reading of a fragment sequence (oracle side) -/

/-- offsets of the first item tag of every frame, from the first item after the table -/
def prefixOffsets : Nat → List (List Bytes) → List Nat
  | _, [] => []
  | off, fr :: rest => off :: prefixOffsets (off + frameLen fr) rest

end Dicom.Encap
