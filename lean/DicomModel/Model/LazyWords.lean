/-
Line-protocol rendering of the lazy reader model's run (Model/LazyRun.lean over C06's Model/LazyReader.lean),
in the words of harness/src/bin/c08/tok.rs, for the C07 driver.
-/
import DicomModel.Model.LazyRun
import DicomModel.Model.DsReaderWords
namespace Dicom.LP
open Dicom.Rd

def numsWord (k : String) (l : List Nat) : String := s!"n:{k}:{listWord (l.map toString)}"

/-- a `PrimitiveValue` as the preserved strategy reads it (numbers as unsigned bit patterns) -/
def pvalueWord : PValue → String
  | .empty => "e"
  | .u8 b => "b:" ++ hexOf b
  | .u16 l => numsWord "u16" l
  | .i16 l => numsWord "i16" (l.map (twos 16))
  | .u32 l => numsWord "u32" l
  | .i32 l => numsWord "i32" (l.map (twos 32))
  | .u64 l => numsWord "u64" l
  | .i64 l => numsWord "i64" (l.map (twos 64))
  | .f32 l => numsWord "f32" (l.map (·.1))
  | .f64 l => numsWord "f64" (l.map (·.1))
  | .tags l => "t:" ++ listWord (l.map tagWord)
  | .strs l => "ss:" ++ listWord (l.map hexOf)
  | .str s => "st:" ++ hexOf s
  | .date l => s!"x:date:{l.length}"
  | .dateTime l => s!"x:dateTime:{l.length}"
  | .time l => s!"x:time:{l.length}"

def tokenWord : Token → String
  | .elementHeader h => s!"H:{tagWord h.tag}:{h.vr.name}:{h.len}"
  | .sequenceStart t l => s!"S:{tagWord t}:{l}"
  | .pixelSequenceStart => "P"
  | .sequenceEnd => "s"
  | .itemStart l => s!"I:{l}"
  | .itemEnd => "i"
  | .primitiveValue v => "V:" ++ pvalueWord v
  | .itemValue b => "F:" ++ hexOf b
  | .offsetTable l => "O:" ++ listWord (l.map toString)
  | .panic => "panic"

def LRec.word (r : LRec) : String :=
  match r.owned, r.tok with
  | some t, _ => tokenWord t
  | none, .tok t => tokenWord t
  | none, .lazyValue _ => "V:skip"
  | none, .lazyItemValue _ => "F:skip"

def LEnding.word : LEnding → Option String
  | .done => some "D"
  | .readerError => some "E:lazy"
  | .valueError => some "E:lazyValue"
  | .cap => none

/-- the consumer policy of the C07 runner (`skip_at`): the value announced by the `k`-th token is skipped.
Structural tokens are never "skipped" by the runner; for them `skip` and `read` coincide in the model. -/
def runnerUse (k : Nat) : Use := if k % 3 = 1 then .skip else .read

/-- the lazy reader over `bs` from position `base`: words with position and consumed count, then the ending -/
def lazyWords (ts : Syntax) (dict : Tag → Option VR) (base : Nat) (bs : Bytes) : List (String × Nat × Nat) × Option String :=
  let s0 : LState := ⟨⟨ts, dict, bs, base⟩, false, false, [], false, none, none⟩
  ((lazyRun runnerUse bs.length cap 0 s0).map fun r => (r.word, r.pos, r.consumed),
   (lazyEnding runnerUse cap 0 s0).word)

end Dicom.LP
