/-
Small models for property C05 (untrusted input never makes a reader panic, abort or hang) of the
length arithmetic and loop structure that the larger reader models do not expose:

* `FileMetaTable::read_from` (`object/src/meta.rs`): the `while total_bytes_read < group_length`
  loop with its saturating `u32` counter — independent of the stream contents it runs at most
  `group_length / 8 + 1` rounds (`metaRounds`);
* recursion depth of `InMemDicomObject::build_object` ↔ `build_sequence` (`object/src/mem.rs`):
  one Rust stack frame pair per open item — `maxDepth` of the token stream, which the input
  controls (20 bytes per level in Explicit VR LE);
* the RLE Lossless decoder after repair af5f450 (`transfer-syntax-registry/src/adapters/
  rle_lossless.rs`): `read_rle_header` with its 64-byte / 15-segment checks, `rle_segment`
  (`get(..)` instead of slicing), the `decoded_segment.get(i)` test, and the two decode loops built
  from them (`…Fixed`; PackBits, parameters and loop order are shared with `Model/Rle.lean`);
  `readRleHeaderShipped` is the header reader as shipped before the repair;
* allocation requested by the value readers of `parser/src/stateful/decode.rs`
  (`smallvec![0u8; len]`, `self.buffer.resize_with(len, …)`) *before* a byte of the value is read:
  the declared length itself (`valueAlloc`).
-/
import DicomModel.Model.Util
import DicomModel.Model.Bytes
import DicomModel.Model.Rle
namespace Dicom.Guard

def u32Max : Nat := 4294967295

/-- `u32::saturating_add` -/
def satAdd (a b : Nat) : Nat := min (a + b) u32Max

/-- One element as the meta loop sees it: header bytes read (8 or 12 for Explicit VR LE),
declared value length, and whether header and value could be read (`false` = an `Err` return). -/
structure MetaElem where
  hdr : Nat
  len : Nat
  readable : Bool

/-- how the loop ended -/
inductive MetaEnd where
  | done            -- `total_bytes_read >= group_length`
  | err             -- a `?` returned (truncated stream, bad length, allocation refused)
  | hang            -- the fuel of the model ran out
deriving DecidableEq, Repr

/-- `while total_bytes_read < group_length { …; total = total.saturating_add(hdr).saturating_add(len) }`
over an arbitrary (also infinite) stream of elements `s`; returns the rounds executed. -/
def metaLoop (gl : Nat) (s : Nat → MetaElem) : Nat → Nat → Nat → Nat × MetaEnd
  | 0, _, i => (i, .hang)
  | fuel + 1, total, i =>
    if gl ≤ total then (i, .done) else
    let e := s i
    if !e.readable then (i + 1, .err)
    else metaLoop gl s fuel (satAdd (satAdd total e.hdr) e.len) (i + 1)

/-- tokens of the data set reader, as far as nesting is concerned -/
inductive Tok where
  | openSeq | openItem | closeItem | closeSeq | other
deriving DecidableEq, Repr

/-- Stack depth reached by `build_object` ↔ `build_sequence` on a token stream: `build_sequence` is
entered at a sequence start, `build_object` at an item start; each returns at its delimiter. -/
def maxDepth : List Tok → Nat → Nat → Nat
  | [], _, best => best
  | .openSeq :: r, cur, best => maxDepth r (cur + 1) (max best (cur + 1))
  | .openItem :: r, cur, best => maxDepth r (cur + 1) (max best (cur + 1))
  | .closeItem :: r, cur, best => maxDepth r (cur - 1) best
  | .closeSeq :: r, cur, best => maxDepth r (cur - 1) best
  | .other :: r, cur, best => maxDepth r cur best

/-- `n` unterminated nested sequences, each with one open item -/
def nestedToks : Nat → List Tok
  | 0 => []
  | n + 1 => .openSeq :: .openItem :: nestedToks n

/-- bytes of that input in Explicit VR LE: 12-byte sequence header + 8-byte item header per level -/
def nestedBytes (n : Nat) : Nat := 20 * n

/-- allocation requested by `read_value_*` for a declared value length, before any value byte is read -/
def valueAlloc (declaredLen : Nat) : Nat := declaredLen

/-! ## RLE Lossless after the repair -/

open Rle

/-- `read_rle_header` as shipped before af5f450: slices without any length test -/
def readRleHeaderShipped (frag : Bytes) : Outcome (List Nat) :=
  match rdLe32 frag with
  | none => .panic
  | some (n, _) =>
    let hi := 4 * ((n + 1) % 4294967296)
    if hi < 4 ∨ frag.length < hi then .panic
    else
      match rdLe32s n (frag.drop 4) with
      | some offs => .ok offs
      | none => .panic

/-- `read_rle_header` now: fewer than 64 bytes ⇒ `Err`, more than 15 segments ⇒ `Err`; the two
slices that follow are kept as they are in the code (a `panic` if they could fail) -/
def readRleHeaderFixed (frag : Bytes) : Outcome (List Nat) :=
  if frag.length < 64 then .err else
  match rdLe32 frag with
  | none => .panic                      -- `&fragment[0..4]`
  | some (n, _) =>
    if n > 15 then .err
    else if frag.length < 4 * (n + 1) then .panic   -- `&fragment[4..4 * (n + 1)]`
    else
      match rdLe32s n (frag.drop 4) with
      | some offs => .ok offs
      | none => .panic

/-- the scatter loop with `decoded_segment.get(decoded_index)`: a short segment is an `Err`;
`dst[base_offset + dst_index]` stays an indexing operation -/
def scatterFixed (step end_ : Nat) : Nat → Bytes → Bytes → Outcome Bytes
  | pos, [], dst => if end_ ≤ pos then .ok dst else .err
  | pos, x :: xs, dst =>
    if end_ ≤ pos then .ok dst
    else if pos < dst.length then scatterFixed step end_ (pos + step) xs (dst.set pos x)
    else .panic

/-- one segment: `rle_segment` (`offsets.get`, `fragment.get(a..b)`), PackBits, scatter -/
def placeSegmentFixed (P : Params) (frag : Bytes) (offsets : List Nat) (base : Nat) (dst : Bytes)
    (sn bo : Nat) : Outcome Bytes :=
  let ii := sn * P.bps + bo
  match offsets[ii]?, offsets[ii + 1]? with
  | some a, some b =>
    if b < a ∨ frag.length < b then .err
    else
      match unpack ((frag.drop a).take (b - a)) with
      | none => .err
      | some buf =>
        scatterFixed P.step (base + P.frameSize) (base + (sn * P.bps + (P.bps - 1 - bo)))
          (buf.take (P.rows * P.cols)) dst
  | _, _ => .err

def placeAllFixed (P : Params) (frag : Bytes) (offsets : List Nat) (base : Nat) :
    List (Nat × Nat) → Bytes → Outcome Bytes
  | [], dst => .ok dst
  | (sn, bo) :: rest, dst =>
    match placeSegmentFixed P frag offsets base dst sn bo with
    | .ok dst' => placeAllFixed P frag offsets base rest dst'
    | .err => .err
    | .panic => .panic

def decodeFragmentIntoFixed (P : Params) (frag : Bytes) (base : Nat) (dst : Bytes) : Outcome Bytes :=
  match readRleHeaderFixed frag with
  | .ok offs => placeAllFixed P frag (offs ++ [frag.length % 4294967296]) base (segOrder P) dst
  | .err => .err
  | .panic => .panic

/-- `RleLosslessAdapter::decode_frame` after the repair (allocation failure not modelled) -/
def decodeFrameFixed (P : Params) (frags : List Bytes) (frame : Nat) (dst0 : Bytes) : Outcome Bytes :=
  if P.bits ≠ 8 ∧ P.bits ≠ 16 then .err
  else
    match frags[frame]? with
    | none => .err
    | some frag => decodeFragmentIntoFixed P frag dst0.length (dst0 ++ List.replicate P.frameSize 0)

def decodeFramesFixed (P : Params) (base0 : Nat) : Nat → List Bytes → Bytes → Outcome Bytes
  | _, [], dst => .ok dst
  | i, frag :: rest, dst =>
    match decodeFragmentIntoFixed P frag (base0 + i * P.frameSize) dst with
    | .ok dst' => decodeFramesFixed P base0 (i + 1) rest dst'
    | .err => .err
    | .panic => .panic

/-- `RleLosslessAdapter::decode` after the repair -/
def decodeAllFixed (P : Params) (frags : List Bytes) (dst0 : Bytes) : Outcome Bytes :=
  if P.bits ≠ 8 ∧ P.bits ≠ 16 then .err
  else decodeFramesFixed P dst0.length 0 frags (dst0 ++ List.replicate (P.frameSize * frags.length) 0)

end Dicom.Guard
