/-
Small models for property C05 (untrusted input never makes a reader panic, abort or hang) of the
length arithmetic and loop structure that the larger reader models do not expose:

* `FileMetaTable::read_from` (`object/src/meta.rs`): the `while total_bytes_read < group_length`
  loop with its saturating `u32` counter — independent of the stream contents it runs at most
  `group_length / 8 + 1` rounds (`metaRounds`);
* recursion depth of `InMemDicomObject::build_object` ↔ `build_sequence` (`object/src/mem.rs`):
  one Rust stack frame pair per open item — `maxDepth` of the token stream, which the input
  controls (20 bytes per level in Explicit VR LE);
* allocation requested by the value readers of `parser/src/stateful/decode.rs`
  (`smallvec![0u8; len]`, `self.buffer.resize_with(len, …)`) *before* a byte of the value is read:
  the declared length itself (`valueAlloc`).
-/
import DicomModel.Model.Util
namespace Dicom.Guard

def u32Max : Nat := 4294967295

/-- `u32::saturating_add` -/
def satAdd (a b : Nat) : Nat := min (a + b) u32Max

/-- One element as the meta loop sees it: header bytes read (8 or 12 for Explicit VR LE),
declared value length, and whether header and value could be read (`false` = an `Err` return). -/
structure MetaElem where
  hdr : Nat
  len : Nat
  readable : Bool

/-- how the loop ended -/
inductive MetaEnd where
  | done            -- `total_bytes_read >= group_length`
  | err             -- a `?` returned (truncated stream, bad length, allocation refused)
  | hang            -- the fuel of the model ran out
deriving DecidableEq, Repr

/-- `while total_bytes_read < group_length { …; total = total.saturating_add(hdr).saturating_add(len) }`
over an arbitrary (also infinite) stream of elements `s`; returns the rounds executed. -/
def metaLoop (gl : Nat) (s : Nat → MetaElem) : Nat → Nat → Nat → Nat × MetaEnd
  | 0, _, i => (i, .hang)
  | fuel + 1, total, i =>
    if gl ≤ total then (i, .done) else
    let e := s i
    if !e.readable then (i + 1, .err)
    else metaLoop gl s fuel (satAdd (satAdd total e.hdr) e.len) (i + 1)

/-- tokens of the data set reader, as far as nesting is concerned -/
inductive Tok where
  | openSeq | openItem | closeItem | closeSeq | other
deriving DecidableEq, Repr

/-- Stack depth reached by `build_object` ↔ `build_sequence` on a token stream: `build_sequence` is
entered at a sequence start, `build_object` at an item start; each returns at its delimiter. -/
def maxDepth : List Tok → Nat → Nat → Nat
  | [], _, best => best
  | .openSeq :: r, cur, best => maxDepth r (cur + 1) (max best (cur + 1))
  | .openItem :: r, cur, best => maxDepth r (cur + 1) (max best (cur + 1))
  | .closeItem :: r, cur, best => maxDepth r (cur - 1) best
  | .closeSeq :: r, cur, best => maxDepth r (cur - 1) best
  | .other :: r, cur, best => maxDepth r cur best

/-- `n` unterminated nested sequences, each with one open item -/
def nestedToks : Nat → List Tok
  | 0 => []
  | n + 1 => .openSeq :: .openItem :: nestedToks n

/-- bytes of that input in Explicit VR LE: 12-byte sequence header + 8-byte item header per level -/
def nestedBytes (n : Nat) : Nat := 20 * n

/-- allocation requested by `read_value_*` for a declared value length, before any value byte is read -/
def valueAlloc (declaredLen : Nat) : Nat := declaredLen

end Dicom.Guard
