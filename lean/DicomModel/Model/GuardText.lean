/-
Panic sites of the date / time / date-time / range text parsers (property C05), made explicit.

`Model/Partial.lean` (C12) models `core/src/value/deserialize.rs` and `range.rs` with the total list
operations `take` / `drop` / `head?`, so Lean's totality says nothing about Rust panics. Here the same
functions are written again with every Rust operation that CAN panic as an operation that returns
`panic` when its precondition fails:

  `&buf[a..b]`            → `slice buf a b`       (panics unless a ≤ b ≤ len)
  `&buf[a..]`             → `sliceFrom buf a`     (panics unless a ≤ len)
  `buf[i]`, `dashes[i]`   → `byteAt buf i`, `natAt l i`   (panics unless i < len)
  `buf.split_at(i)`       → `splitAt buf i`       (panics unless i ≤ len)
  `u8::try_from(n).unwrap()` → `toU8 n`           (panics unless n < 256)
  `panic!(..)` / `unreachable!()` → `.panic`
Integer arithmetic (`acc * 10 + digit`, `fraction *= 10`, `(tz_h*60+tz_m)*60`, `buf.len() - 1`)
wraps in the release build instead of panicking; the bounds that exclude wrapping are the theorems
`read_number_no_wrap`, `…` in `Props/C05.lean`.
Everything that cannot panic (component range checks, `DicomDate::from_*`, `earliest`/`latest`,
chrono constructors, range constructors) is taken from `Model/Partial.lean`.
-/
import DicomModel.Model.Partial
import DicomModel.Model.TagText
namespace Dicom.Guard
open Dicom.Digits Dicom.Partial

/-- outcome of a Rust function: value, `Err(_)`, or a panic -/
inductive PO (α : Type) where
  | ok (a : α)
  | err
  | panic
deriving DecidableEq, Repr

def PO.bind {α β : Type} (x : PO α) (f : α → PO β) : PO β :=
  match x with
  | .ok a => f a
  | .err => .err
  | .panic => .panic

/-- `opt.context(..)?` / `res?` on a value computed by a panic-free function -/
def PO.ofOption {α : Type} : Option α → PO α
  | some a => .ok a
  | none => .err

def PO.cls {α : Type} : PO α → String
  | .ok _ => "ok" | .err => "err" | .panic => "panic"

def slice (bs : Bytes) (a b : Nat) : PO Bytes :=
  if a ≤ b ∧ b ≤ bs.length then .ok ((bs.drop a).take (b - a)) else .panic
def sliceFrom (bs : Bytes) (a : Nat) : PO Bytes :=
  if a ≤ bs.length then .ok (bs.drop a) else .panic
def byteAt (bs : Bytes) (i : Nat) : PO Nat :=
  match bs[i]? with
  | some b => .ok b
  | none => .panic
def natAt (l : List Nat) (i : Nat) : PO Nat :=
  match l[i]? with
  | some b => .ok b
  | none => .panic
def splitAt (bs : Bytes) (i : Nat) : PO (Bytes × Bytes) :=
  if i ≤ bs.length then .ok (bs.take i, bs.drop i) else .panic
def toU8 (n : Nat) : PO Nat := if n < 256 then .ok n else .panic

/-- `read_number` + `read_number_unchecked` (`buf[0]`, `&buf[1..]`) -/
def readNumberG (text : Bytes) : PO Nat :=
  if text.isEmpty || text.length > 9 then .err
  else if text.any (fun b => !isDigit b) then .err
  else
    (byteAt text 0).bind fun b0 =>
    (sliceFrom text 1).bind fun rest =>
      .ok (rest.foldl (fun acc v => acc * 10 + (v - 48)) (b0 - 48))

/-- `parse_date` -/
def parseDateG (buf : Bytes) : PO NaiveDate :=
  if buf.length = 4 then .err
  else if buf.length = 6 then .err
  else if buf.length ≥ 8 then
    (slice buf 0 4).bind fun y => (readNumberG y).bind fun year =>
    (slice buf 4 6).bind fun m => (readNumberG m).bind fun month =>
    if !checkComponent .month month then .err else
    (slice buf 6 8).bind fun d => (readNumberG d).bind fun day =>
    if !checkComponent .day day then .err else
    PO.ofOption (NaiveDate.fromYmdOpt year month day)
  else .err

/-- `parse_date_partial` -/
def parseDatePartialG (buf : Bytes) : PO (DicomDate × Bytes) :=
  if buf.length < 4 then .err else
  (slice buf 0 4).bind fun y => (readNumberG y).bind fun year =>
  (sliceFrom buf 4).bind fun buf =>
  if buf.length < 2 then (PO.ofOption (DicomDate.fromY year)).bind fun d => .ok (d, buf) else
  (slice buf 0 2).bind fun m =>
  match readNumberG m with
  | .panic => .panic
  | .err => (PO.ofOption (DicomDate.fromY year)).bind fun d => .ok (d, buf)
  | .ok month =>
    (sliceFrom buf 2).bind fun buf =>
    if buf.length < 2 then (PO.ofOption (DicomDate.fromYm year month)).bind fun d => .ok (d, buf) else
    (slice buf 0 2).bind fun dd =>
    match readNumberG dd with
    | .panic => .panic
    | .err => (PO.ofOption (DicomDate.fromYm year month)).bind fun d => .ok (d, buf)
    | .ok day =>
      (sliceFrom buf 2).bind fun buf =>
      (PO.ofOption (DicomDate.fromYmd year month day)).bind fun d => .ok (d, buf)

/-- `parse_time_partial` -/
def parseTimePartialG (buf : Bytes) : PO (DicomTime × Bytes) :=
  if buf.length < 2 then .err else
  (slice buf 0 2).bind fun h => (readNumberG h).bind fun hour =>
  (sliceFrom buf 2).bind fun buf =>
  if buf.length < 2 then (PO.ofOption (DicomTime.fromH hour)).bind fun t => .ok (t, buf) else
  (slice buf 0 2).bind fun m =>
  match readNumberG m with
  | .panic => .panic
  | .err => (PO.ofOption (DicomTime.fromH hour)).bind fun t => .ok (t, buf)
  | .ok minute =>
    (sliceFrom buf 2).bind fun buf =>
    if buf.length < 2 then (PO.ofOption (DicomTime.fromHm hour minute)).bind fun t => .ok (t, buf) else
    (slice buf 0 2).bind fun s =>
    match readNumberG s with
    | .panic => .panic
    | .err => (PO.ofOption (DicomTime.fromHm hour minute)).bind fun t => .ok (t, buf)
    | .ok second =>
      (sliceFrom buf 2).bind fun buf =>
      if buf.length > 1 then
        (byteAt buf 0).bind fun c =>
        if c = 46 then
          (sliceFrom buf 1).bind fun buf =>
          let n := Nat.min 6 (leadingDigits buf)
          (slice buf 0 n).bind fun f => (readNumberG f).bind fun fraction =>
          (sliceFrom buf n).bind fun buf' =>
          (toU8 n).bind fun fp =>
          (PO.ofOption (DicomTime.fromHmsf hour minute second fraction fp)).bind fun t => .ok (t, buf')
        else (PO.ofOption (DicomTime.fromHms hour minute second)).bind fun t => .ok (t, buf)
      else (PO.ofOption (DicomTime.fromHms hour minute second)).bind fun t => .ok (t, buf)

/-- `parse_time` (the `6` and `≥ 8` arms; a length of 7 falls through to the error arm) -/
def parseTimeG (buf : Bytes) : PO (NaiveTime × Bytes) :=
  let hms (k : Nat → Nat → Nat → PO (NaiveTime × Bytes)) : PO (NaiveTime × Bytes) :=
    (slice buf 0 2).bind fun h => (readNumberG h).bind fun hour =>
    if !checkComponent .hour hour then .err else
    (slice buf 2 4).bind fun m => (readNumberG m).bind fun minute =>
    if !checkComponent .minute minute then .err else
    (slice buf 4 6).bind fun s => (readNumberG s).bind fun second =>
    if !checkComponent .second second then .err else k hour minute second
  if buf.length = 2 then .err
  else if buf.length = 4 then .err
  else if buf.length = 6 then
    hms fun hour minute second =>
      (sliceFrom buf 6).bind fun rest =>
      (PO.ofOption (NaiveTime.fromHmsMicroOpt hour minute second 0)).bind fun t => .ok (t, rest)
  else if buf.length ≥ 8 then
    hms fun hour minute second =>
      (sliceFrom buf 6).bind fun buf =>
      (byteAt buf 0).bind fun c =>
      if c ≠ 46 then .err else
      (sliceFrom buf 1).bind fun buf =>
      let n := Nat.min 6 (leadingDigits buf)
      (slice buf 0 n).bind fun f => (readNumberG f).bind fun fraction =>
      let fraction := fraction * 10 ^ (6 - n)        -- `while acc < 6 { fraction *= 10 }`
      (sliceFrom buf n).bind fun rest =>
      if !checkComponent .fraction fraction then .err else
      (PO.ofOption (NaiveTime.fromHmsMicroOpt hour minute second fraction)).bind fun t => .ok (t, rest)
  else .err

/-- time-zone suffix of `parse_datetime_partial`: `buf[0]`, `&buf[1..]`, `&buf[0..2]`, `&buf[2..4]` -/
def parseTzSuffixG (buf : Bytes) : PO (Option Int) :=
  if buf.length = 0 then .ok none
  else if buf.length > 4 then
    (byteAt buf 0).bind fun sign =>
    (sliceFrom buf 1).bind fun buf =>
    (slice buf 0 2).bind fun h => (readNumberG h).bind fun tzH =>
    (slice buf 2 4).bind fun m => (readNumberG m).bind fun tzM =>
    let s := (tzH * 60 + tzM) * 60
    if sign = 43 then
      if checkComponent .utcEast s then (PO.ofOption (fixedOffsetOpt (Int.ofNat s))).bind fun o => .ok (some o)
      else .err
    else if sign = 45 then
      if checkComponent .utcWest s then (PO.ofOption (fixedOffsetOpt (- Int.ofNat s))).bind fun o => .ok (some o)
      else .err
    else .err
  else .err

/-- `parse_datetime_partial` -/
def parseDateTimePartialG (buf : Bytes) : PO DicomDateTime :=
  (parseDatePartialG buf).bind fun (date, rest) =>
  match parseTimePartialG rest with
  | .panic => .panic
  | tp =>
    let (time, buf) := match tp with
      | .ok (t, b) => (some t, b)
      | _ => (none, rest)
    (parseTzSuffixG buf).bind fun tz =>
    match tz, time with
    | some o, some tm => PO.ofOption (DicomDateTime.fromDateAndTimeWithTimeZone date tm o)
    | some o, none => .ok (DicomDateTime.fromDateWithTimeZone date o)
    | none, some tm => PO.ofOption (DicomDateTime.fromDateAndTime date tm)
    | none, none => .ok (DicomDateTime.fromDate date)

/-- `parse_date_range`: `split_at(separator)`, `&end[1..]`, `buf.len() - 1` -/
def parseDateRangeG (buf : Bytes) : PO DateRange :=
  if buf.length < 5 then .err else
  match dashPosition buf with
  | none => .err
  | some sep =>
    (splitAt buf sep).bind fun (start, stop) =>
    (sliceFrom stop 1).bind fun stop =>
    if sep = 0 then
      (parseDatePartialG stop).bind fun (d, _) => (PO.ofOption d.latest).bind fun e => .ok ⟨none, some e⟩
    else if sep = buf.length - 1 then
      (parseDatePartialG start).bind fun (d, _) => (PO.ofOption d.earliest).bind fun s => .ok ⟨some s, none⟩
    else
      (parseDatePartialG start).bind fun (a, _) => (PO.ofOption a.earliest).bind fun s =>
      (parseDatePartialG stop).bind fun (b, _) => (PO.ofOption b.latest).bind fun e =>
      PO.ofOption (DateRange.fromStartToEnd s e)

/-- `parse_time_range` -/
def parseTimeRangeG (buf : Bytes) : PO TimeRange :=
  if buf.length < 3 then .err else
  match dashPosition buf with
  | none => .err
  | some sep =>
    (splitAt buf sep).bind fun (start, stop) =>
    (sliceFrom stop 1).bind fun stop =>
    if sep = 0 then
      (parseTimePartialG stop).bind fun (t, _) => (PO.ofOption t.latest).bind fun e => .ok ⟨none, some e⟩
    else if sep = buf.length - 1 then
      (parseTimePartialG start).bind fun (t, _) => (PO.ofOption t.earliest).bind fun s => .ok ⟨some s, none⟩
    else
      (parseTimePartialG start).bind fun (a, _) => (PO.ofOption a.earliest).bind fun s =>
      (parseTimePartialG stop).bind fun (b, _) => (PO.ofOption b.latest).bind fun e =>
      PO.ofOption (TimeRange.fromStartToEnd s e)

/-- the tail of `parse_datetime_range_impl`: `split_at(separator)`, `&end[1..]`, both sides parsed;
`mk` is the four-way match with the ambiguity handlers (it cannot panic: `Model/Partial.lean`) -/
def dtRangeAtG (mk : Precise → Precise → Option DateTimeRange) (buf : Bytes) (sep : Nat) :
    PO DateTimeRange :=
  (splitAt buf sep).bind fun (start, stop) =>
  (sliceFrom stop 1).bind fun stop =>
  (parseDateTimePartialG start).bind fun a => (PO.ofOption a.earliest).bind fun s =>
  (parseDateTimePartialG stop).bind fun b => (PO.ofOption b.latest).bind fun e =>
  PO.ofOption (mk s e)

/-- `parse_datetime_range_impl::<T>`: `buf[0]`, `buf[buf.len() - 1]`, `&buf[1..]`,
`&buf[0..len-1]`, `dashes[0]`, `dashes[1]`, `split_at`, `&end1[1..]` -/
def parseDateTimeRangeG (mk : Precise → Precise → Option DateTimeRange) (buf : Bytes) :
    PO DateTimeRange :=
  if buf.length < 5 then .err else
  (byteAt buf 0).bind fun c0 =>
  if c0 = 45 then
    (sliceFrom buf 1).bind fun b =>
    (parseDateTimePartialG b).bind fun v => (PO.ofOption v.latest).bind fun e =>
      .ok ⟨(match e with | .aware .. => true | .naive .. => false), none, some e⟩
  else
  (byteAt buf (buf.length - 1)).bind fun cl =>
  if cl = 45 then
    (slice buf 0 (buf.length - 1)).bind fun b =>
    (parseDateTimePartialG b).bind fun v => (PO.ofOption v.earliest).bind fun s =>
      .ok ⟨(match s with | .aware .. => true | .naive .. => false), some s, none⟩
  else
    let dashes := dashIndexes buf
    if dashes.length = 0 then .err
    else if dashes.length = 1 then (natAt dashes 0).bind fun d0 => dtRangeAtG mk buf d0
    else if dashes.length = 2 then
      (natAt dashes 0).bind fun d0 =>
      (splitAt buf d0).bind fun (start1, end1) =>
      (sliceFrom end1 1).bind fun end1 =>
      match parseDateTimePartialG start1, parseDateTimePartialG end1 with
      | .panic, _ => .panic
      | _, .panic => .panic
      | .ok a, .ok b =>
        (PO.ofOption a.earliest).bind fun s => (PO.ofOption b.latest).bind fun e =>
        match mk s e with
        | some r => .ok r
        | none => (natAt dashes 1).bind fun d1 => dtRangeAtG mk buf d1
      | _, _ => (natAt dashes 1).bind fun d1 => dtRangeAtG mk buf d1
    else if dashes.length = 3 then (natAt dashes 1).bind fun d1 => dtRangeAtG mk buf d1
    else .err

/-! ## `parse_selector` (`core/src/dictionary/data_element.rs`): the two `str` slices -/

/-- `&s[a..b]` on a `str`: panics unless `a ≤ b ≤ len` and both ends are char boundaries -/
def strSlice (s : Bytes) (a b : Nat) : PO Bytes :=
  if a ≤ b ∧ b ≤ s.length ∧ TagText.isCharBoundary s a ∧ TagText.isCharBoundary s b
  then .ok ((s.drop a).take (b - a)) else .panic

/-- the slicing of one `«key»[«item»]` part: `&part[0..split_i]`, `&part[split_i + 1..part.len() - 1]`
(`none` = not an intermediate part, or no `[`: no slice is taken) -/
def selectorSlicesG (part : Bytes) : PO (Option (Bytes × Bytes)) :=
  if part.getLast? = some 0x5D then
    match TagText.findByte 0x5B part with
    | none => .ok none
    | some i =>
      (strSlice part 0 i).bind fun tagPart =>
      (strSlice part (i + 1) (part.length - 1)).bind fun itemPart => .ok (some (tagPart, itemPart))
  else .ok none

/-! ## header decoders (`encoding/src/decode/{explicit_le,explicit_be,implicit_le,adaptive_le}.rs`)

Their only index operations are constant ranges into the local arrays `[0u8; 4]` / `[0u8; 8]`
(`&mut buf[0..2]`, `&buf[2..4]`, `&buf[4..8]`, `[buf[0], buf[1]]`); everything else is `read_exact`
(an `Err` on a short source) and `unwrap_or`. The table lists them all: (array length, from, to). -/
def headerSliceSites : List (Nat × Nat × Nat) :=
  [ (4, 0, 2), (4, 0, 4), (4, 2, 4), (4, 0, 1), (4, 1, 2),      -- explicit LE/BE, adaptive
    (8, 0, 2), (8, 2, 4), (8, 4, 8), (8, 0, 8) ]                 -- item headers, implicit LE

/-! ## value readers of `parser/src/stateful/decode.rs` -/

/-- `discard_value_remainder(n)`: `&mut remainder[..n]` of a `[0u8; 8]`; called with
`len & 1`, `len & 3`, `len & 7` -/
def remainderSlice (n : Nat) : PO Bytes := slice (List.replicate 8 0) 0 n

/-- `trim_trail_empty_bytes`: `while x.last() is ' ' or NUL { x = &x[..x.len() - 1] }`
(fuel = the length: the loop shortens `x` every round) -/
def trimTrailG : Nat → Bytes → PO Bytes
  | 0, x => if x.getLast? = some 32 ∨ x.getLast? = some 0 then .panic else .ok x
  | f + 1, x =>
    if x.getLast? = some 32 ∨ x.getLast? = some 0 then
      (slice x 0 (x.length - 1)).bind fun x' => trimTrailG f x'
    else .ok x

end Dicom.Guard
