/-
Model of `ul/src/address.rs`: `FullAeAddr<T>` / `AeAddr<T>` `Display` and `FromStr`.
The network address type `T` is a parameter given by its printer and parser.
-/
namespace Dicom.AeAddr

/-- `str::split_once(c)`: split at the first occurrence of `c`. -/
def splitOnce (c : Char) : List Char → Option (List Char × List Char)
  | [] => none
  | x :: xs =>
    if x = c then some ([], xs)
    else match splitOnce c xs with
      | some (a, b) => some (x :: a, b)
      | none => none

/-- `title.replace('@', "\\@")` -/
def escapeAt (t : List Char) : List Char :=
  t.flatMap fun c => if c = '@' then ['\\', '@'] else [c]

structure Full (α : Type) where
  title : List Char
  addr : α
deriving DecidableEq, Repr

structure Ae (α : Type) where
  title : Option (List Char)
  addr : α
deriving DecidableEq, Repr

/-- `Display for FullAeAddr<T>` -/
def Full.print (showA : α → List Char) (a : Full α) : List Char :=
  escapeAt a.title ++ '@' :: showA a.addr

/-- `FromStr for FullAeAddr<T>`; `none` stands for any of the two errors. -/
def Full.parse (parseA : List Char → Option α) (s : List Char) : Option (Full α) :=
  match splitOnce '@' s with
  | some (t, r) =>
    if t.isEmpty then none
    else match parseA r with
      | some a => some ⟨t, a⟩
      | none => none
  | none => none

/-- `Display for AeAddr<T>` -/
def Ae.print (showA : α → List Char) (a : Ae α) : List Char :=
  match a.title with
  | some t => escapeAt t ++ '@' :: showA a.addr
  | none => if '@' ∈ showA a.addr then '@' :: showA a.addr else showA a.addr

/-- `FromStr for AeAddr<T>` -/
def Ae.parse (parseA : List Char → Option α) (s : List Char) : Option (Ae α) :=
  match splitOnce '@' s with
  | some (t, r) =>
    match parseA r with
    | some a => some ⟨if t.isEmpty then none else some t, a⟩
    | none => none
  | none =>
    match parseA s with
    | some a => some ⟨none, a⟩
    | none => none

end Dicom.AeAddr
