/-
Model of the file meta group of dicom-rs and of the file framing around it.

* `object/src/meta.rs`: `FileMetaTable`, `PartialEq for FileMetaTable`, `bytes_eq_without_trailing_byte`,
  `dicom_len`, `calculate_information_group_length`, `update_information_group_length`,
  `FileMetaTableBuilder` (setters with `ui_padded` / `txt_padded`, `build`), `into_element_iter` + `write`
  (data set writer over the Explicit VR LE encoder), `read_from`, `apply` / `apply_required_string` /
  `apply_optional_string`
* `object/src/mem.rs`: `detect_preamble`, `open_file_with_all_options`, `from_reader_with_all_options`,
  the SOP UID inference at the end of `read_parts_with_all_options_impl`
* `object/src/lib.rs`: `write_all` / `write_to_file` framing (128 zero bytes, `DICM`, meta group, data set)

Strings are byte lists (default repertoire: one byte per character; the ISO-8859-1 codec used for the
meta group is then the identity). Element headers come from `Model/Header.lean` (Explicit VR LE).
-/
import DicomModel.Model.Header
namespace Dicom.Meta

def U32 : Nat := 4294967296

structure Table where
  igl : Nat                 -- information_group_length
  ver : Nat × Nat           -- information_version
  cls : Bytes               -- media_storage_sop_class_uid
  inst : Bytes              -- media_storage_sop_instance_uid
  ts : Bytes                -- transfer_syntax
  impl : Bytes              -- implementation_class_uid
  ivn : Option Bytes        -- implementation_version_name
  src : Option Bytes        -- source_application_entity_title
  snd : Option Bytes        -- sending_application_entity_title
  rcv : Option Bytes        -- receiving_application_entity_title
  pic : Option Bytes        -- private_information_creator_uid
  priv : Option Bytes       -- private_information
deriving DecidableEq, Repr

/-! ### group length -/

/-- `(len as u32 + 1) & !1` -/
def evenLen (n : Nat) : Nat := (n % U32 + 1) % U32 / 2 * 2

/-- `fn dicom_len` -/
def dicomLen (s : Bytes) : Nat := evenLen s.length

def optLen : Option Bytes → Nat
  | some s => 8 + dicomLen s
  | none => 0

/-- the private information term: `12 + ((x.len() as u32 + 1) & !1)` -/
def privLen : Option Bytes → Nat
  | some x => 12 + evenLen x.length
  | none => 0

/-- `calculate_information_group_length` (`u32` arithmetic, wrapping in release builds) -/
def calcLen (t : Table) : Nat :=
  (14 + 8 + dicomLen t.cls + 8 + dicomLen t.inst + 8 + dicomLen t.ts + 8 + dicomLen t.impl
    + optLen t.ivn + optLen t.src + optLen t.snd + optLen t.rcv + optLen t.pic
    + privLen t.priv) % U32

/-- `update_information_group_length` -/
def update (t : Table) : Table := { t with igl := calcLen t }

/-! ### padding-insensitive equality (`PartialEq for FileMetaTable`) -/

/-- `c.is_whitespace() || c == '\0'` on the default repertoire -/
def isTrim (b : Nat) : Bool := b == 0 || b == 0x20 || (9 ≤ b && b ≤ 13)

/-- `str::trim_end_matches(pred)` -/
def trimEnd (s : Bytes) : Bytes := (s.reverse.dropWhile isTrim).reverse

/-- `bytes_eq_without_trailing_byte`'s normalisation of one side -/
def stripPad (v : Bytes) : Bytes :=
  if v.length % 2 = 0 ∧ v.getLast? = some 0 then v.dropLast else v

def bytesEqNoPad (a b : Bytes) : Bool := stripPad a == stripPad b

def tableEq (a b : Table) : Bool :=
  a.igl == b.igl && a.ver == b.ver && trimEnd a.cls == trimEnd b.cls &&
  trimEnd a.inst == trimEnd b.inst && trimEnd a.ts == trimEnd b.ts &&
  trimEnd a.impl == trimEnd b.impl && a.ivn.map trimEnd == b.ivn.map trimEnd &&
  a.src.map trimEnd == b.src.map trimEnd && a.snd.map trimEnd == b.snd.map trimEnd &&
  a.rcv.map trimEnd == b.rcv.map trimEnd && a.pic.map trimEnd == b.pic.map trimEnd &&
  (match a.priv, b.priv with
   | none, none => true
   | some x, some y => bytesEqNoPad x y
   | _, _ => false)

/-! ### builder -/

/-- `fn padded(s, pad)` -/
def padded (pad : Nat) (s : Bytes) : Bytes := if s.length % 2 = 1 then s ++ [pad] else s
def uiPadded := padded 0
def txtPadded := padded 0x20

structure Builder where
  gl : Option Nat := none
  ver : Option (Nat × Nat) := none
  cls : Option Bytes := none
  inst : Option Bytes := none
  ts : Option Bytes := none
  impl : Option Bytes := none
  ivn : Option Bytes := none
  src : Option Bytes := none
  snd : Option Bytes := none
  rcv : Option Bytes := none
  pic : Option Bytes := none
  priv : Option Bytes := none
deriving DecidableEq, Repr

/-- crate constants `IMPLEMENTATION_CLASS_UID`, `IMPLEMENTATION_VERSION_NAME` -/
structure Defaults where
  implClass : Bytes
  implName : Bytes

/-- `FileMetaTableBuilder::build`; `none` = `MissingElement { TransferSyntax }` -/
def Builder.build (d : Defaults) (b : Builder) : Option Table :=
  match b.ts with
  | none => none
  | some ts =>
    let (impl, ivn) := match b.impl with
      | some i => (i, b.ivn)
      | none => (d.implClass, some d.implName)
    some (update {
      igl := 0, ver := b.ver.getD (0, 1), cls := b.cls.getD [], inst := b.inst.getD [], ts := ts,
      impl := impl, ivn := ivn, src := b.src, snd := b.snd, rcv := b.rcv, pic := b.pic, priv := b.priv })

/-! ### writer (`FileMetaTable::write`) -/

def tagOf (e : Nat) : Tag := ⟨2, e⟩

/-- `encode_element_header` of the stateful encoder: `even_len` on the length, then the codec -/
def header (e : Nat) (vr : VR) (len : Nat) : Except EncErr Bytes :=
  match encodeHeader .explicitLE ⟨tagOf e, vr, if len = undefinedLen then len else evenLen len⟩ with
  | .ok (h, _) => .ok h
  | .error x => .error x

/-- one element of `into_element_iter`: element number in group 0002, VR, and the value as the
table holds it (string bytes / `U8` bytes / the four bytes of the `UL`) -/
structure MElem where
  e : Nat
  vr : VR
  raw : Bytes
deriving DecidableEq, Repr

/-- padding byte: NUL for UI (`encode_text_element`) and for binary values
(`encode_primitive_element`), space for the other text VRs -/
def padByte (vr : VR) : Nat := if vr = .SH ∨ vr = .AE then 0x20 else 0

/-- the value field as written -/
def MElem.body (x : MElem) : Bytes := padded (padByte x.vr) x.raw

/-- the length handed to `encode_element_header`: the padded text length (`encode_text_element`),
the unpadded `calculate_byte_len` for binary values (`encode_primitive_element`) -/
def MElem.hdrLen (x : MElem) : Nat :=
  (if x.vr = .OB ∨ x.vr = .UL then x.raw.length else x.body.length) % U32

def encElem (x : MElem) : Except EncErr Bytes :=
  match header x.e x.vr x.hdrLen with
  | .ok h => .ok (h ++ x.body)
  | .error e => .error e

/-- the data set writer stops at the first error -/
def encAll : List MElem → Except EncErr Bytes
  | [] => .ok []
  | x :: xs =>
    match encElem x with
    | .error e => .error e
    | .ok b =>
      match encAll xs with
      | .error e => .error e
      | .ok bs => .ok (b ++ bs)

def optElem (e : Nat) (vr : VR) : Option Bytes → List MElem
  | some s => [⟨e, vr, s⟩]
  | none => []

/-- `into_element_iter` without the group length element -/
def elems (t : Table) : List MElem :=
  [⟨0x0001, .OB, [t.ver.1, t.ver.2]⟩, ⟨0x0002, .UI, t.cls⟩, ⟨0x0003, .UI, t.inst⟩,
   ⟨0x0010, .UI, t.ts⟩, ⟨0x0012, .UI, t.impl⟩]
  ++ optElem 0x0013 .SH t.ivn ++ optElem 0x0016 .AE t.src ++ optElem 0x0017 .AE t.snd
  ++ optElem 0x0018 .AE t.rcv ++ optElem 0x0100 .UI t.pic ++ optElem 0x0102 .OB t.priv

def glElem (t : Table) : MElem := ⟨0x0000, .UL, le32 t.igl⟩

/-- all elements after the group length element -/
def encodeBody (t : Table) : Except EncErr Bytes := encAll (elems t)

/-- `FileMetaTable::write` -/
def encodeMeta (t : Table) : Except EncErr Bytes := encAll (glElem t :: elems t)

/-! ### reader (`FileMetaTable::read_from`) -/

inductive RErr where
  | eof            -- ReadMagicCode / ReadValueData / DecodeElement
  | notDicom
  | unexpectedTag
  | unexpectedLength
  | undefinedLength
  | missingTs
deriving DecidableEq, Repr

def magic : Bytes := [0x44, 0x49, 0x43, 0x4D]

/-- `u32::saturating_add` -/
def satAdd (a b : Nat) : Nat := if a + b < U32 then a + b else U32 - 1

def noDict : Tag → Option VR := fun _ => none

/-- one known element: read the value and set the builder field -/
def setField (b : Builder) (e : Nat) (v : Bytes) : Builder :=
  if e = 0x0002 then { b with cls := some (uiPadded v) }
  else if e = 0x0003 then { b with inst := some (uiPadded v) }
  else if e = 0x0010 then { b with ts := some (uiPadded v) }
  else if e = 0x0012 then { b with impl := some (uiPadded v) }
  else if e = 0x0013 then { b with ivn := some (txtPadded v) }
  else if e = 0x0016 then { b with src := some (txtPadded v) }
  else if e = 0x0017 then { b with snd := some (txtPadded v) }
  else if e = 0x0018 then { b with rcv := some (txtPadded v) }
  else if e = 0x0100 then { b with pic := some (uiPadded v) }
  else if e = 0x0102 then { b with priv := some v }
  else b

/-- the `while total_bytes_read < group_length` loop. Every iteration consumes at least the 8 header
bytes, so `fuel = input length + 1` never runs out (`loop_fuel_irrelevant` is not needed: the callers
pass that fuel and the `0` branch is reported as EOF, which is what exhausting the input gives). -/
def loop : Nat → Nat → Nat → Builder → Bytes → Except RErr (Builder × Bytes)
  | 0, _, _, _, _ => .error .eof
  | fuel + 1, total, gl, b, bs =>
    if total < gl then
      match decodeHeader .explicitLE noDict bs with
      | none => .error .eof
      | some (h, n, r) =>
        if h.len = undefinedLen then .error .undefinedLength
        else if h.tag = ⟨2, 1⟩ ∧ h.len ≠ 2 then .error .unexpectedLength
        else
          match takeN h.len r with
          | none => if h.tag.group = 2 ∧ h.tag.elem ∈ [1, 2, 3, 0x10, 0x12, 0x13, 0x16, 0x17, 0x18, 0x100, 0x102]
                    then .error .eof else .error .unexpectedLength
          | some (v, r') =>
            let b' := if h.tag = ⟨2, 1⟩ then { b with ver := some (v.getD 0 0, v.getD 1 0) }
                      else if h.tag.group = 2 then setField b h.tag.elem v else b
            loop fuel (satAdd (satAdd total n) h.len) gl b' r'
    else .ok (b, bs)

/-- `read_from`: magic code, group length element, the loop, `build` -/
def readMeta (d : Defaults) (bs : Bytes) : Except RErr (Table × Bytes) :=
  match takeN 4 bs with
  | none => .error .eof
  | some (m, r0) =>
    if m ≠ magic then .error .notDicom else
    match decodeHeader .explicitLE noDict r0 with
    | none => .error .eof
    | some (h, _, r1) =>
      if h.tag ≠ ⟨2, 0⟩ then .error .unexpectedTag
      else if h.len ≠ 4 then .error .unexpectedLength
      else match rdLe32 r1 with
        | none => .error .eof
        | some (gl, r2) =>
          match loop (r2.length + 1) 0 gl { gl := some gl } r2 with
          | .error e => .error e
          | .ok (b, rest) =>
            match b.build d with
            | some t => .ok (t, rest)
            | none => .error .missingTs

/-! ### attribute operations on the table (`ApplyOp for FileMetaTable`) -/

/-- the part of a `PrimitiveValue` that `value.string()` looks at -/
inductive PV where
  | str (s : Bytes)
  | strs (ss : List Bytes)
  | other                 -- Empty or any numeric / date variant
deriving DecidableEq, Repr

/-- `PrimitiveValue::string` -/
def PV.string : PV → Option Bytes
  | .str s => some s
  | .strs (s :: _) => some s
  | .strs [] => none
  | .other => none

inductive Action where
  | remove | empty | setVr | truncate
  | set (v : PV) | setStr (s : Bytes)
  | setIfMissing (v : PV) | setStrIfMissing (s : Bytes)
  | replace (v : PV) | replaceStr (s : Bytes)
  | pushStr | pushNum
deriving DecidableEq, Repr

inductive AErr where
  | mandatory | incompatibleTypes | illegalExtend | unsupportedAction | unsupportedAttribute
deriving DecidableEq, Repr

/-- `apply_required_string`: new value of the field and the result -/
def applyRequired (a : Action) (s : Bytes) : Bytes × Option AErr :=
  match a with
  | .remove | .empty => (s, some .mandatory)
  | .setVr | .truncate => (s, none)
  | .set v | .replace v =>
    match v.string with
    | some x => (x, none)
    | none => (s, some .incompatibleTypes)
  | .setStr x | .replaceStr x => (x, none)
  | .setIfMissing _ | .setStrIfMissing _ => (s, none)
  | .pushStr => (s, some .illegalExtend)
  | .pushNum => (s, some .incompatibleTypes)

/-- `apply_optional_string` -/
def applyOptional (a : Action) (o : Option Bytes) : Option Bytes × Option AErr :=
  match a with
  | .remove => (none, none)
  | .empty => (o.map fun _ => [], none)
  | .setVr => (o, none)
  | .set v =>
    match v.string with
    | some x => (some x, none)
    | none => (o, some .incompatibleTypes)
  | .setStr x => (some x, none)
  | .setIfMissing v =>
    if o.isSome then (o, none) else
    match v.string with
    | some x => (some x, none)
    | none => (o, some .incompatibleTypes)
  | .setStrIfMissing x => (if o.isNone then some x else o, none)
  | .replace v =>
    if o.isNone then (o, none) else
    match v.string with
    | some x => (some x, none)
    | none => (o, some .incompatibleTypes)
  | .replaceStr x => (if o.isSome then some x else o, none)
  | .pushStr => (o, some .illegalExtend)
  | .pushNum => (o, some .incompatibleTypes)
  | .truncate => (o, some .unsupportedAction)

/-- first step of the selector: a plain tag, or a nested step -/
inductive Sel where
  | tag (t : Tag)
  | nested
deriving DecidableEq, Repr

/-- tail of `FileMetaTable::apply`: `}?; self.update_information_group_length(); Ok(())` -/
def finish (p : Table × Option AErr) : Table × Option AErr :=
  match p.2 with
  | none => (update p.1, none)
  | some e => (p.1, some e)

/-- `FileMetaTable::apply`: the table afterwards and the result. The group length is recomputed
only on success (`?` returns before `update_information_group_length`). -/
def apply (t : Table) (sel : Sel) (a : Action) : Table × Option AErr :=
  match sel with
  | .nested => (t, some .unsupportedAttribute)
  | .tag tg =>
    if tg = ⟨2, 0x10⟩ then finish ({ t with ts := (applyRequired a t.ts).1 }, (applyRequired a t.ts).2)
    else if tg = ⟨2, 2⟩ then finish ({ t with cls := (applyRequired a t.cls).1 }, (applyRequired a t.cls).2)
    else if tg = ⟨2, 3⟩ then finish ({ t with inst := (applyRequired a t.inst).1 }, (applyRequired a t.inst).2)
    else if tg = ⟨2, 0x12⟩ then finish ({ t with impl := (applyRequired a t.impl).1 }, (applyRequired a t.impl).2)
    else if tg = ⟨2, 0x13⟩ then finish ({ t with ivn := (applyOptional a t.ivn).1 }, (applyOptional a t.ivn).2)
    else if tg = ⟨2, 0x16⟩ then finish ({ t with src := (applyOptional a t.src).1 }, (applyOptional a t.src).2)
    else if tg = ⟨2, 0x17⟩ then finish ({ t with snd := (applyOptional a t.snd).1 }, (applyOptional a t.snd).2)
    else if tg = ⟨2, 0x18⟩ then finish ({ t with rcv := (applyOptional a t.rcv).1 }, (applyOptional a t.rcv).2)
    else if tg = ⟨2, 0x100⟩ then finish ({ t with pic := (applyOptional a t.pic).1 }, (applyOptional a t.pic).2)
    else if a = .remove ∨ a = .empty ∨ a = .truncate then finish (t, none)
    else (t, some .unsupportedAttribute)

def applyAll (t : Table) : List (Sel × Action) → Table
  | [] => t
  | (s, a) :: ops => applyAll (apply t s a).1 ops

/-! ### file framing -/

inductive ReadPreamble where
  | auto | never | always
deriving DecidableEq, Repr

/-- tag bytes of File Meta Information Group Length (0002,0000), which follow the magic code -/
def glTag : Bytes := [2, 0, 0, 0]

/-- `detect_preamble` on the first buffer fill; `none` = `UnexpectedEof`.
Repaired behaviour (finding C09 `dicm-at-128-without-preamble`): `DICM` at offset 128 is not taken
for the end of a preamble when the buffer itself starts with `DICM` + the group length tag and
offset 132 does not. The unrepaired code is `detectPreambleOld`. -/
def detectPreamble (buf : Bytes) : Option ReadPreamble :=
  if buf.length < 4 then none
  else if buf.length ≥ 132 ∧ (buf.drop 128).take 4 = magic then
    if (buf.take 4 = magic ∧ (buf.drop 4).take 4 = glTag) ∧
       ¬ (buf.length ≥ 136 ∧ (buf.drop 132).take 4 = glTag) then some .never
    else some .always
  else if buf.take 4 = magic then some .never
  else some .auto

/-- `detect_preamble` before the repair -/
def detectPreambleOld (buf : Bytes) : Option ReadPreamble :=
  if buf.length < 4 then none
  else if buf.length ≥ 132 ∧ (buf.drop 128).take 4 = magic then some .always
  else if buf.take 4 = magic then some .never
  else some .auto

/-- `open_file_with_all_options` (`byPath = true`) / `from_reader_with_all_options` up to and
including the meta group: the table and the bytes of the data set that follow.
`cap` = size of the `BufReader` buffer (the first `fill_buf` returns `min cap len` bytes for a file
or an in-memory source). -/
def openMeta (d : Defaults) (byPath : Bool) (cap : Nat) (bs : Bytes) : Except RErr (Table × Bytes) :=
  match detectPreamble (bs.take cap) with
  | none => .error .eof
  | some rp =>
    let skip := rp = .always ∨ (byPath = true ∧ rp = .auto)
    if skip then
      match takeN 128 bs with
      | none => .error .eof
      | some (_, r) => readMeta d r
    else readMeta d bs

/-- `PrimitiveValue::to_str` on a `Str`: `trim_end_matches([' ', '\0'])` -/
def toStr (s : Bytes) : Bytes := (s.reverse.dropWhile fun b => b == 0x20 || b == 0).reverse

/-- end of `read_parts_with_all_options_impl`: empty media storage UIDs are taken from the data set.
`inferSopOld` is the code as found (the group length is *not* recomputed: finding C09
`stale-group-length-after-sop-inference`); `inferSop` the repaired behaviour (recomputed). -/
def inferSopOld (t : Table) (sopClass sopInst : Option Bytes) : Table :=
  let t1 := if (trimEnd t.cls).isEmpty then
      match sopClass with | some c => { t with cls := toStr c } | none => t
    else t
  if (trimEnd t1.inst).isEmpty then
    match sopInst with | some c => { t1 with inst := toStr c } | none => t1
  else t1

def inferSop (t : Table) (sopClass sopInst : Option Bytes) : Table :=
  update (inferSopOld t sopClass sopInst)

/-- `write_all` / `write_to_file` framing -/
def fileBytes (metaBytes ds : Bytes) : Bytes := List.replicate 128 0 ++ magic ++ metaBytes ++ ds

/-! ### oracle on written bytes -/

/-- recorded group length and the number of bytes of group 0002 elements that follow the group
length element in an Explicit VR LE stream (`(recorded, actual, rest)`); walks element by element -/
def walk2 : Nat → Bytes → Nat → Option (Nat × Bytes)
  | 0, _, _ => none
  | fuel + 1, bs, acc =>
    match decodeHeader .explicitLE noDict bs with
    | none => some (acc, bs)
    | some (h, n, r) =>
      if h.tag.group ≠ 2 then some (acc, bs)
      else match takeN h.len r with
        | none => none
        | some (_, r') => walk2 fuel r' (acc + n + h.len)

def recordedVsActual (bs : Bytes) : Option (Nat × Nat × Bytes) :=
  match decodeHeader .explicitLE noDict bs with
  | some (h, _, r) =>
    if h.tag = ⟨2, 0⟩ ∧ h.vr = .UL ∧ h.len = 4 then
      match rdLe32 r with
      | some (gl, r') =>
        match walk2 (r'.length + 1) r' 0 with
        | some (act, rest) => some (gl, act, rest)
        | none => none
      | none => none
    else none
  | none => none

end Dicom.Meta
