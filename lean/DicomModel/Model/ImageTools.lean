/-
Model of the image import / export tools:
* `fromimage/src/main.rs`: `inject_image` + `update_from_img` — the Image Pixel module attributes and
  the native Pixel Data written for a decoded image (8/16-bit gray or RGB);
* `toimage/src/main.rs` `convert_single_file`:
  - `--unwrap`: `PixelDataObject::frame_pixel_data(0)` of native pixel data
    (`encoding/src/adapters.rs`): the first `rows*cols*spp*(bits_allocated/8)` bytes;
  - decoding of 3-sample images: `DecodedPixelData::to_dynamic_image_with_options`
    (`pixeldata/src/lib.rs`), RGB branch, bit depth `Auto`: no Modality/VOI transform is applied,
    8-bit data is used as it is, 16-bit data is read as little-endian words.
Images are sample arrays (row-major, channels interleaved).
-/
import DicomModel.Model.Util
import DicomModel.Model.Bytes
namespace Dicom.ImageTools

inductive Color | l8 | l16 | rgb8 | rgb16
deriving DecidableEq, Repr

def Color.spp : Color → Nat
  | .l8 | .l16 => 1
  | .rgb8 | .rgb16 => 3

def Color.bits : Color → Nat
  | .l8 | .rgb8 => 8
  | .l16 | .rgb16 => 16

/-- a decoded image (`image::DynamicImage` restricted to the four supported colour types) -/
structure Img where
  color : Color
  width : Nat
  height : Nat
  samples : List Nat
deriving DecidableEq, Repr

def Img.WellFormed (i : Img) : Prop :=
  i.samples.length = i.width * i.height * i.color.spp ∧ (∀ s ∈ i.samples, s < 2 ^ i.color.bits)

/-- `DynamicImage::into_bytes`: the sample buffer as bytes in native (little-endian) order -/
def intoBytes (i : Img) : Bytes :=
  if i.color.bits = 8 then i.samples else i.samples.flatMap le16

/-- the attributes `update_from_img` / `inject_image` put (`none` = element removed) -/
structure PixelModule where
  photometric : String
  lutShape : String
  spp : Nat
  planar : Option Nat
  cols : Nat
  rows : Nat
  bitsAllocated : Nat
  bitsStored : Nat
  highBit : Nat
  pixelRepr : Nat
  numberOfFrames : Option Nat
  pixelVr : String
  pixelData : Bytes
deriving DecidableEq, Repr

/-- `inject_image` (Rust `width as u16` truncates) -/
def inject (i : Img) : PixelModule :=
  { photometric := if i.color.spp = 1 then "MONOCHROME2" else "RGB"
    lutShape := "IDENTITY"
    spp := i.color.spp
    planar := if i.color.spp > 1 then some 0 else none
    cols := i.width % 65536
    rows := i.height % 65536
    bitsAllocated := i.color.bits
    bitsStored := i.color.bits
    highBit := i.color.bits - 1
    pixelRepr := 0
    numberOfFrames := none
    pixelVr := if i.color.bits = 8 then "OB" else "OW"
    pixelData := intoBytes i }

/-- bytes of one native frame (`determine_bytes_per_native_frame`, not YBR_FULL_422, > 1 bit) -/
def frameSize (m : PixelModule) : Nat := m.rows * m.cols * m.spp * ((m.bitsAllocated + 7) / 8)

/-- `toimage --unwrap`, frame 0 of native pixel data -/
def unwrapFrame (m : PixelModule) : Option Bytes :=
  if frameSize m ≤ m.pixelData.length then some (m.pixelData.take (frameSize m)) else none

/-- little-endian words of a byte string (`frame_data_ow`) -/
def wordsLe : Bytes → List Nat
  | a :: b :: r => (a + 256 * b) :: wordsLe r
  | _ => []

/-- the samples an unwrapped frame stands for -/
def samplesOf (bits : Nat) (b : Bytes) : List Nat := if bits = 8 then b else wordsLe b

/-- `to_dynamic_image_with_options(0, default)` for 3 samples per pixel, `RGB`, pixel-interleaved:
`None` stands for the error cases (unsupported photometric interpretation / bits, short data,
`ImageBuffer::from_raw` refusing a buffer that is too small) -/
def exportRgb (m : PixelModule) : Option Img :=
  if m.spp ≠ 3 ∨ m.photometric ≠ "RGB" ∨ m.planar ≠ some 0 then none else
  match unwrapFrame m with
  | none => none
  | some fr =>
    if m.bitsAllocated = 8 then some ⟨.rgb8, m.cols, m.rows, fr⟩
    else if m.bitsAllocated = 16 then some ⟨.rgb16, m.cols, m.rows, wordsLe fr⟩
    else none

/-- the whole trip of the statement: import, then export (gray: unwrapped frame read back as
samples; RGB: decoded) -/
def roundTrip (i : Img) : Option Img :=
  let m := inject i
  if i.color.spp = 1 then
    (unwrapFrame m).map fun fr => ⟨i.color, m.cols, m.rows, samplesOf m.bitsAllocated fr⟩
  else exportRgb m

end Dicom.ImageTools
