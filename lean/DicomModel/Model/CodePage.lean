/-
Single-byte code pages as the `encoding` crate implements them (rust-encoding 0.2,
`codec/singlebyte.rs` and the special-cased ISO-8859-1): a forward map byte → char (with holes)
and a backward map char → byte. Both maps are dumped exhaustively from the running crate
(`Gen/CodePages.lean`): all 256 bytes, and every Unicode scalar value the encoder accepts.
They are stored as search trees keyed by byte resp. by code point so that lookups reduce in
O(log n) kernel steps. Nothing about the trees is assumed: the theorems only use what `find`
returns (see `Props/C10.lean`).

Decoding mirrors `dicom_encoding::text`: `DecoderTrap::Call(decode_text_trap)` replaces an invalid
byte by a backslash and its three octal digits; encoding uses `EncoderTrap::Strict` (first
unrepresentable character ⇒ error).
-/
namespace Dicom.CodePage

/-- a string as its Unicode scalar values / a byte string -/
abbrev Str := List Nat

inductive Tree where
  | leaf
  | node (l : Tree) (k v : Nat) (r : Tree)
deriving Repr

def Tree.find : Tree → Nat → Option Nat
  | .leaf, _ => none
  | .node l k v r, x =>
    if Nat.blt x k then l.find x else if Nat.blt k x then r.find x else some v

/-- in-order list of (key, value) -/
def Tree.toListAux : Tree → List (Nat × Nat) → List (Nat × Nat)
  | .leaf, acc => acc
  | .node l k v r, acc => l.toListAux ((k, v) :: r.toListAux acc)

def Tree.toList (t : Tree) : List (Nat × Nat) := t.toListAux []

structure Page where
  /-- byte ↦ code point, for the bytes that decode -/
  dec : Tree
  /-- code point ↦ byte, for the characters that encode -/
  enc : Tree
deriving Repr

/-- `decode_text_trap`: `\` followed by the three octal digits of the offending byte -/
def escape (b : Nat) : Str := [92, 48 + b / 64 % 4, 48 + b / 8 % 8, 48 + b % 8]

def Page.decodeByte (p : Page) (b : Nat) : Str :=
  match p.dec.find b with
  | some c => [c]
  | none => escape b

/-- `codec.decode(bytes)` — total for single-byte pages -/
def Page.decode (p : Page) : List Nat → Str
  | [] => []
  | b :: bs => p.decodeByte b ++ p.decode bs

def Page.encodeChar (p : Page) (c : Nat) : Option Nat := p.enc.find c

/-- `codec.encode(text)` — `none` = `Err` (strict trap) -/
def Page.encode (p : Page) : Str → Option (List Nat)
  | [] => some []
  | c :: cs =>
    match p.encodeChar c, p.encode cs with
    | some b, some bs => some (b :: bs)
    | _, _ => none

def optIs : Option Nat → Nat → Bool
  | some x, y => Nat.beq x y
  | none, _ => false

/-- every (k, v) of `a` is found as v ↦ k in `b` -/
def inverseIn (a b : Tree) : Bool := a.toList.all fun kv => optIs (b.find kv.2) kv.1

/-- the two dumped maps are mutually inverse -/
def Page.good (p : Page) : Bool := inverseIn p.dec p.enc && inverseIn p.enc p.dec

/-- ASCII is mapped identically and the backslash byte decodes to the backslash only -/
def Page.asciiOk (p : Page) : Bool :=
  (List.range 128).all fun b => optIs (p.dec.find b) b && optIs (p.enc.find b) b

end Dicom.CodePage
