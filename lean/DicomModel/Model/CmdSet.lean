/-
Model of command-set construction and of what the data set writer emits for it in
Implicit VR Little Endian.

* `object/src/mem.rs`  `InMemDicomObject::command_from_iter_with_dict`, `even_len`
* `core/src/value/primitive.rs`  `PrimitiveValue::calculate_byte_len`, `HasLength for PrimitiveValue`
* `parser/src/stateful/encode.rs`  `encode_primitive_element`, `encode_text_element`,
  `encode_texts_element`, `encode_element_header` (even_len on the header length)
* `encoding/src/encode/implicit_le.rs`  `encode_element_header` (tag le16 le16, length le32)
* `encoding/src/encode/basic.rs`  `encode_primitive` for U16/U32/Tags

A tag is the 32-bit number `group * 65536 + element`. The attribute map (`BTreeMap<Tag, _>`) is a
key-sorted association list. Strings are byte lists (default repertoire: one byte per character, the
codec is the identity).
-/
import DicomModel.Model.Bytes
import DicomModel.Model.VR
namespace Dicom.Cmd

/-- the `PrimitiveValue` variants a command element can carry -/
inductive Val where
  | empty
  | str (s : Bytes)
  | strs (ss : List Bytes)
  | u16s (l : List Nat)
  | u32s (l : List Nat)
  | tags (l : List Nat)
deriving DecidableEq, Repr

structure Elem where
  tag : Nat
  vr : VR
  val : Val
deriving DecidableEq, Repr

def Elem.group (e : Elem) : Nat := e.tag / 65536
def Elem.element (e : Elem) : Nat := e.tag % 65536

def U32 : Nat := 4294967296

/-- `c.iter().map(|s| s.len() + 1).sum::<usize>()` -/
def sumLen1 : List Bytes → Nat
  | [] => 0
  | s :: ss => (s.length + 1) + sumLen1 ss

/-- `PrimitiveValue::calculate_byte_len` (`x & !1` is `x / 2 * 2`) -/
def calcByteLen : Val → Nat
  | .empty => 0
  | .str s => s.length
  | .strs ss => sumLen1 ss / 2 * 2
  | .u16s l => l.length * 2
  | .u32s l => l.length * 4
  | .tags l => l.length * 4

/-- `HasLength::length`: `Length::defined(calculate_byte_len() as u32)` -/
def valueLength (v : Val) : Nat := calcByteLen v % U32

/-- `fn even_len(l: u32) -> u32 { (l + 1) & !1 }` (wrapping, release build) -/
def evenLen (l : Nat) : Nat := (l + 1) % U32 / 2 * 2

/-- what one element adds to `calculated_length` in `command_from_iter_with_dict` -/
def contrib (e : Elem) : Nat :=
  if e.group = 0 ∧ e.element ≠ 0 then
    let l := valueLength e.val
    (if l ≠ 0xFFFFFFFF then evenLen l else 0) + 8
  else 0

/-- the running `u32` sum over a list of elements -/
def cmdLen : List Elem → Nat
  | [] => 0
  | e :: es => (contrib e + cmdLen es) % U32

/-! ### the attribute map -/

/-- `BTreeMap::insert`: key-sorted association list, an equal key is replaced -/
def insert (e : Elem) : List Elem → List Elem
  | [] => [e]
  | x :: xs =>
    if e.tag < x.tag then e :: x :: xs
    else if e.tag = x.tag then e :: xs
    else x :: insert e xs

/-- `iter.collect::<BTreeMap<_,_>>()`: later elements replace earlier ones -/
def collect (es : List Elem) : List Elem := es.foldl (fun m e => insert e m) []

def groupLengthElem (n : Nat) : Elem := ⟨0, .UL, .u32s [n]⟩

/-- `command_from_iter_with_dict` as it was before fix d1fe52b: the length summed over the *input*
sequence while the map is collected. -/
def commandInputSum (es : List Elem) : List Elem :=
  insert (groupLengthElem (cmdLen es)) (collect es)

/-- the construction (since fix d1fe52b): the length is summed over the elements that the map retains. -/
def command (es : List Elem) : List Elem :=
  let m := collect es
  insert (groupLengthElem (cmdLen m)) m

/-! ### the writer, Implicit VR Little Endian -/

def implHeader (tag len : Nat) : Bytes :=
  le16 (tag / 65536) ++ le16 (tag % 65536) ++ le32 len

/-- `texts.join("\\")` as the loop in `encode_texts_element` does it -/
def joinBs : List Bytes → Bytes
  | [] => []
  | [s] => s
  | s :: ss => s ++ 0x5c :: joinBs ss

def padTo (vr : VR) (b : Bytes) : Bytes :=
  if b.length % 2 = 1 then b ++ [if vr = .UI then 0 else 0x20] else b

def tagBytes (t : Nat) : Bytes := le16 (t / 65536) ++ le16 (t % 65536)

/-- value bytes written by `encode_primitive_element` (text paths pad with NUL for UI, space
otherwise; binary paths pad with 0, never needed here as their lengths are even) -/
def valueBytes (vr : VR) : Val → Bytes
  | .empty => []
  | .str s => padTo vr s
  | .strs ss => padTo vr (joinBs ss)
  | .u16s l => l.flatMap le16
  | .u32s l => l.flatMap le32
  | .tags l => l.flatMap tagBytes

/-- the length handed to `encode_element_header` (which applies `even_len` once more) -/
def headerLen (vr : VR) (v : Val) : Nat :=
  match v with
  | .str _ | .strs _ => (valueBytes vr v).length % U32
  | _ => calcByteLen v % U32

def encodeElem (e : Elem) : Bytes :=
  implHeader e.tag (evenLen (headerLen e.vr e.val)) ++ valueBytes e.vr e.val

def encodeImplicit (es : List Elem) : Bytes := es.flatMap encodeElem

/-- the command elements other than the group length itself -/
def others (es : List Elem) : List Elem :=
  es.filter fun e => e.group = 0 ∧ e.element ≠ 0

/-! ### independent oracle on written bytes: walk an Implicit VR LE stream -/

/-- sizes `(tag, total bytes)` of the elements of a defined-length Implicit VR LE stream;
`none` when the stream is cut short. `fuel` bounds the number of elements. -/
def walk : Nat → Bytes → Option (List (Nat × Nat))
  | 0, _ => none
  | _, [] => some []
  | fuel + 1, bs =>
    match rdLe16 bs with
    | none => none
    | some (g, r1) =>
      match rdLe16 r1 with
      | none => none
      | some (e, r2) =>
        match rdLe32 r2 with
        | none => none
        | some (len, r3) =>
          match takeN len r3 with
          | none => none
          | some (_, rest) =>
            match walk fuel rest with
            | none => none
            | some l => some ((g * 65536 + e, 8 + len) :: l)

/-- the oracle: the stream starts with `(0000,0000)` of length 4 whose value is the number of bytes
taken by the following elements of group 0000. Returns `(recorded, actual)`. -/
def recordedVsActual (bs : Bytes) : Option (Nat × Nat) :=
  match walk (bs.length + 1) bs with
  | some ((0, 12) :: rest) =>
    match rdLe32 (bs.drop 8) with
    | some (n, _) =>
      some (n, ((rest.filter fun p => p.1 / 65536 = 0).map (·.2)).sum)
    | none => none
  | _ => none

end Dicom.Cmd
