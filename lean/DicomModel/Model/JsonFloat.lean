/-
IEEE-754 binary32 / binary64 as bit patterns (`Nat`), with exact (rational) arithmetic for the few
`std` operations the DICOM-JSON code relies on:

* `cast`s `f32 as f64`, `f64 as f32`, `u64/i64 as f32/f64` (round to nearest, ties to even);
* `str::parse::<f32/f64>()` (Rust's `dec2flt` grammar, correctly rounded);
* `Display for f32/f64` without precision (shortest digits that identify the value, positional).

These are *std* functions, not dicom-rs code: they are part of the trusted base of C23/C24 and this
executable instance is tied to the real ones by the correspondence run (`flt` lines of the C23
runner).  Strings are UTF-8 byte lists.
-/
import DicomModel.Model.Util
namespace Dicom.Flt

structure Fmt where
  mb : Nat   -- stored mantissa bits
  eb : Nat   -- exponent bits
deriving DecidableEq, Repr

def b32 : Fmt := ⟨23, 8⟩
def b64 : Fmt := ⟨52, 11⟩

def Fmt.bias (F : Fmt) : Nat := 2 ^ (F.eb - 1) - 1
def Fmt.emax (F : Fmt) : Nat := 2 ^ F.eb - 1
def Fmt.signBit (F : Fmt) : Nat := 2 ^ (F.mb + F.eb)
def Fmt.infBits (F : Fmt) : Nat := F.emax * 2 ^ F.mb
/-- the canonical quiet NaN (`f32::NAN`, `f64::NAN`) -/
def Fmt.nanBits (F : Fmt) : Nat := F.infBits + 2 ^ (F.mb - 1)

def sign (F : Fmt) (b : Nat) : Bool := b / F.signBit % 2 == 1
def expo (F : Fmt) (b : Nat) : Nat := b / 2 ^ F.mb % 2 ^ F.eb
def mant (F : Fmt) (b : Nat) : Nat := b % 2 ^ F.mb
def isNaN (F : Fmt) (b : Nat) : Bool := expo F b == F.emax && mant F b != 0
def isInf (F : Fmt) (b : Nat) : Bool := expo F b == F.emax && mant F b == 0
def isFinite (F : Fmt) (b : Nat) : Bool := expo F b != F.emax
def isZero (F : Fmt) (b : Nat) : Bool := expo F b == 0 && mant F b == 0

/-- integer significand of a finite value -/
def sig (F : Fmt) (b : Nat) : Nat := if expo F b == 0 then mant F b else 2 ^ F.mb + mant F b
/-- exponent of the unit in the last place: value = sig * 2^ulpExp -/
def ulpExp (F : Fmt) (b : Nat) : Int := (Int.ofNat (max (expo F b) 1)) - Int.ofNat F.bias - Int.ofNat F.mb

/-- magnitude of a finite value as a fraction num/den -/
def magFrac (F : Fmt) (b : Nat) : Nat × Nat :=
  let e := ulpExp F b
  if e ≥ 0 then (sig F b * 2 ^ e.toNat, 1) else (sig F b, 2 ^ (-e).toNat)

/-- round the positive fraction `num/den` (`num > 0`, `den > 0`) to the nearest value of the
format, ties to even; result is the bit pattern without sign (overflow gives infinity). -/
def roundPos (F : Fmt) (num den : Nat) : Nat :=
  let k : Int := Int.ofNat (Nat.log2 num) - Int.ofNat (Nat.log2 den)
  let e1 : Int := k - Int.ofNat F.mb
  let q1 := if e1 ≥ 0 then num / (den * 2 ^ e1.toNat) else (num * 2 ^ (-e1).toNat) / den
  let e2 : Int := if q1 < 2 ^ F.mb then e1 - 1 else e1
  let emin : Int := 1 - Int.ofNat F.bias - Int.ofNat F.mb
  let e : Int := if e2 < emin then emin else e2
  let N := if e ≥ 0 then num else num * 2 ^ (-e).toNat
  let D := if e ≥ 0 then den * 2 ^ e.toNat else den
  let q := N / D
  let r := N % D
  let q' := if 2 * r > D || (2 * r == D && q % 2 == 1) then q + 1 else q
  let E : Nat := (e - emin).toNat   -- biased exponent field minus one
  let bits := E * 2 ^ F.mb + q'
  if bits ≥ F.infBits then F.infBits else bits

def withSign (F : Fmt) (neg : Bool) (b : Nat) : Nat := if neg then b + F.signBit else b

/-- `x as G` for a float `x` of format `F` (NaN maps to a quiet NaN keeping the sign, as on
x86-64/aarch64; never relied upon by the properties) -/
def castFF (F G : Fmt) (b : Nat) : Nat :=
  let s := sign F b
  if isNaN F b then withSign G s G.nanBits
  else if isInf F b then withSign G s G.infBits
  else if isZero F b then withSign G s 0
  else let (n, d) := magFrac F b; withSign G s (roundPos G n d)

/-- `n as G` for an unsigned integer -/
def castNat (G : Fmt) (n : Nat) : Nat := if n == 0 then 0 else roundPos G n 1
/-- `i as G` for a signed integer -/
def castInt (G : Fmt) (i : Int) : Nat :=
  if i < 0 then withSign G true (roundPos G i.natAbs 1) else castNat G i.toNat

/-! ### parsing (`core::num::dec2flt`) -/

def isDig (b : Nat) : Bool := 48 ≤ b && b ≤ 57
def lower (b : Nat) : Nat := if 65 ≤ b && b ≤ 90 then b + 32 else b

def takeDigits : Bytes → Bytes × Bytes
  | [] => ([], [])
  | b :: r => if isDig b then let (d, r') := takeDigits r; (b :: d, r') else ([], b :: r)

def digitsVal (ds : Bytes) : Nat := ds.foldl (fun a d => a * 10 + (d - 48)) 0

/-- value of `M * 10^E` rounded to the format (`M` given by its digits) -/
def decToBits (F : Fmt) (digits : Bytes) (E : Int) : Nat :=
  let M := digitsVal digits
  if M == 0 then 0 else
  let nd : Int := Int.ofNat digits.length
  if E + nd > 400 then F.infBits
  else if E + nd < -400 then 0
  else if E ≥ 0 then roundPos F (M * 10 ^ E.toNat) 1 else roundPos F M (10 ^ (-E).toNat)

/-- `Number ::= (Digit+ | Digit+ '.' Digit* | Digit* '.' Digit+) Exp?` -/
def parseNumber (F : Fmt) (s : Bytes) : Option Nat :=
  let (ip, r1) := takeDigits s
  let (fp, r2, _hasDot) : Bytes × Bytes × Bool := match r1 with
    | 46 :: r => let (f, r') := takeDigits r; (f, r', true)
    | _ => ([], r1, false)
  if ip.isEmpty && fp.isEmpty then none else
  let expo? : Option Int := match r2 with
    | [] => some 0
    | c :: r =>
      if lower c == 101 then
        let (neg, r') : Bool × Bytes := match r with
          | 43 :: t => (false, t)
          | 45 :: t => (true, t)
          | _ => (false, r)
        let (ed, rest) := takeDigits r'
        if ed.isEmpty || !rest.isEmpty then none
        else
          -- saturate very long exponents (Rust stops accumulating beyond 0x10000)
          let ev : Nat := if ed.length > 8 then (if digitsVal ed == 0 then 0 else 100000000) else digitsVal ed
          some (if neg then - Int.ofNat ev else Int.ofNat ev)
      else none
  match expo? with
  | none => none
  | some ex => some (decToBits F (ip ++ fp) (ex - Int.ofNat fp.length))

/-- `<f32|f64 as FromStr>::from_str`; `none` = `ParseFloatError` -/
def parse (F : Fmt) (s : Bytes) : Option Nat :=
  let (neg, body) : Bool × Bytes := match s with
    | 43 :: t => (false, t)
    | 45 :: t => (true, t)
    | _ => (false, s)
  let lw := body.map lower
  if lw == [105, 110, 102] || lw == [105, 110, 102, 105, 110, 105, 116, 121] then
    some (withSign F neg F.infBits)
  else if lw == [110, 97, 110] then some (withSign F neg F.nanBits)
  else match parseNumber F body with
    | some b => some (withSign F neg b)
    | none => none

/-! ### printing (`Display`, shortest round-trip digits, positional notation) -/

def toDecAux : Nat → Nat → Bytes
  | 0, _ => []
  | fuel + 1, n => if n < 10 then [48 + n] else toDecAux fuel (n / 10) ++ [48 + n % 10]
/-- `n.to_string()` for an unsigned integer -/
def toDec (n : Nat) : Bytes := toDecAux (n + 1) n

def stripZeros : Nat → Nat → Int → Nat × Int
  | 0, d, x => (d, x)
  | fuel + 1, d, x => if d != 0 && d % 10 == 0 then stripZeros fuel (d / 10) (x + 1) else (d, x)

/-- shortest decimal `D * 10^x` identifying the finite non-zero value `b`, closest to it among the
shortest (Steele–White / Grisu "shortest" mode as used by `core::fmt::float`). -/
def shortest (F : Fmt) (b : Nat) : Nat × Int :=
  let m := sig F b
  let e := ulpExp F b - 2          -- everything scaled by 4
  let V := 4 * m
  let HI := 4 * m + 2
  let LO := if mant F b == 0 && expo F b > 1 then 4 * m - 1 else 4 * m - 2
  let incl := m % 2 == 0
  -- as fractions over a common denominator `den`
  let sc := if e ≥ 0 then 2 ^ e.toNat else 1
  let den := if e ≥ 0 then 1 else 2 ^ (-e).toNat
  let v := V * sc; let hi := HI * sc; let lo := LO * sc
  -- decimal order: 10^(n10-1) ≤ v/den < 10^n10
  let est : Int := Int.ofNat (toDec (v / den)).length
  let n10 : Int :=
    if v / den > 0 then est
    else
      -- v < den: count leading zeros after the point
      let rec go (fuel : Nat) (x : Nat) (k : Int) : Int :=
        match fuel with
        | 0 => k
        | f + 1 => if x * 10 ≥ den then k else go f (x * 10) (k - 1)
      go 400 v 0
  let rec search (fuel : Nat) (k : Nat) : Nat × Int :=
    match fuel with
    | 0 => (0, 0)
    | f + 1 =>
      let x : Int := n10 - Int.ofNat k      -- candidates are D * 10^x
      -- D = floor(v / (den * 10^x))
      let (pn, pd) : Nat × Nat := if x ≥ 0 then (1, 10 ^ x.toNat) else (10 ^ (-x).toNat, 1)
      -- value of D*10^x over den is D*pd*den/pn ... compare cross-multiplied
      let D := (v * pn) / (den * pd)
      let dn := fun (d : Nat) => d * pd * den     -- numerator of d*10^x scaled by pn*den
      let vs := v * pn; let his := hi * pn; let los := lo * pn
      let downOk := if incl then dn D ≥ los else dn D > los
      let upOk := if incl then dn (D + 1) ≤ his else dn (D + 1) < his
      if downOk && upOk then
        let dl := vs - dn D; let du := dn (D + 1) - vs
        if dl < du then (D, x) else if du < dl then (D + 1, x)
        else if D % 2 == 0 then (D, x) else (D + 1, x)
      else if downOk then (D, x)
      else if upOk then (D + 1, x)
      else search f (k + 1)
  let (D, x) := search 20 1
  stripZeros 40 D x

/-- positional rendering of `D * 10^x` (no exponent, no trailing `.0`) -/
def positional (D : Nat) (x : Int) : Bytes :=
  let s := toDec D
  if x ≥ 0 then s ++ List.replicate x.toNat 48
  else
    let n := s.length
    let fx := (-x).toNat
    if n > fx then s.take (n - fx) ++ [46] ++ s.drop (n - fx)
    else [48, 46] ++ List.replicate (fx - n) 48 ++ s

/-- `format!("{}", x)` -/
def display (F : Fmt) (b : Nat) : Bytes :=
  if isNaN F b then [78, 97, 78]
  else
    let sg : Bytes := if sign F b then [45] else []
    if isInf F b then sg ++ [105, 110, 102]
    else if isZero F b then sg ++ [48]
    else let (D, x) := shortest F b; sg ++ positional D x

end Dicom.Flt
