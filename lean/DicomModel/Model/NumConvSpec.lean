/-
Specification side of C11: what number a text *denotes* (independent of Rust's parsing loop),
which stored items a value has, when an item is representable in a target type.
These definitions are used in the theorem statements (`Props/C11.lean`) and, being executable,
by the driver to evaluate the property on the implementation's outputs.
-/
import DicomModel.Model.NumConv
namespace Dicom.NumConv

/-- value of a non-empty string of ASCII digits (left fold, accumulator first) -/
def digitsFold : Int → List Char → Option Int
  | r, [] => some r
  | r, c :: cs =>
    match digitVal c with
    | none => none
    | some d => digitsFold (r * 10 + d) cs

def digitsVal (s : List Char) : Option Int :=
  if s.isEmpty then none else digitsFold 0 s

/-- the integer denoted by a decimal text: optional `+`/`-`, then one or more digits -/
def denote (s : List Char) : Option Int :=
  match s with
  | '+' :: r => digitsVal r
  | '-' :: r => (digitsVal r).map (- ·)
  | _ => digitsVal s

/-- one stored item seen as an integer: the number it holds (`none`: a text that is not a decimal
integer), and whether it is a text written with a minus sign -/
structure Stored where
  val : Option Int
  minus : Bool
deriving DecidableEq, Repr

def storedOfText (s : List Char) : Stored :=
  let t := trimWN s
  ⟨denote t, t.head? == some '-'⟩

/-- the stored integers of a value, in order; `none` for the variants that are not
integer-convertible at all (floats, tags, dates, times) -/
def storedInts : PV → Option (List Stored)
  | .empty => some []
  | .str s => some [storedOfText s]
  | .strs l => some (l.map storedOfText)
  | .ints _ l => some (l.map fun n => ⟨some n, false⟩)
  | _ => none

/-- statement strength: the item is a number within the range of `T` -/
def representableStmt (T : IntTy) (it : Stored) : Bool :=
  match it.val with
  | some n => decide (InRange T n)
  | none => false

/-- what the code accepts: a number within the range of `T`, not written with a minus sign when `T`
is unsigned (Rust's `u*::from_str` rejects `"-0"`: the one point where `representable` is narrower
than `representableStmt`; known finding `negative-zero-unsigned`). -/
def representable (T : IntTy) (it : Stored) : Bool :=
  match it.val with
  | some n => decide (InRange T n) && (T.signed || !it.minus)
  | none => false

/-- variants that the float conversions accept (by type) -/
def floatConvertible : PV → Bool
  | .empty | .str _ | .strs _ | .ints _ _ | .f32 _ | .f64 _ => true
  | _ => false

/-- variants that the integer conversions accept (by type) -/
def intConvertible : PV → Bool
  | .empty | .str _ | .strs _ | .ints _ _ => true
  | _ => false

/-! ### list model of `extend_*` / `truncate`

The abstract state is the *kind* of the value and the list of its items; the operations are
described on that state alone, from the documentation of the methods. -/

inductive Kind
  | empty | str | strs
  | ints (k : IntTy)
  | f32 | f64
  | tags | date | dateTime | time
deriving DecidableEq, Repr

def PV.kind : PV → Kind
  | .empty => .empty | .str _ => .str | .strs _ => .strs | .ints k _ => .ints k
  | .f32 _ => .f32 | .f64 _ => .f64 | .tags _ => .tags | .date _ => .date
  | .dateTime _ => .dateTime | .time _ => .time

structure Abs where
  kind : Kind
  items : List Item
deriving DecidableEq, Repr

def PV.abs (v : PV) : Abs := ⟨v.kind, v.items⟩

def Kind.textual : Kind → Bool
  | .empty | .str | .strs => true
  | _ => false

def Kind.numericOrText : Kind → Bool
  | .tags | .date | .dateTime | .time => false
  | _ => true

/-- documented compatibility of `extend_*` with the current value: strings can be appended to an
empty or textual value; numbers to anything but tags, dates and times -/
def compatibleK (k : Kind) (e : Ext) : Bool :=
  match e with
  | .strs _ => k.textual
  | _ => k.numericOrText

/-- what an `extend_*` call appends to a value of kind `k`: the strings / numbers themselves for an
empty value; their text for a textual value; the numbers cast to the current number type -/
def appendedK (ops : FloatOps) (k : Kind) (e : Ext) : List Item :=
  match k with
  | .empty =>
    match e with
    | .strs l => l.map .text
    | .ints _ l => l.map .int
    | .floats _ l => l.map fun x => .float x.bits
  | .str | .strs => e.texts.map .text
  | .ints K => (e.asInts ops K).map .int
  | .f32 => (e.asFloats ops .w32).map .float
  | .f64 => (e.asFloats ops .w64).map .float
  | _ => []

/-- the kind after a successful `extend_*` -/
def kindAfter (k : Kind) (e : Ext) : Kind :=
  match k with
  | .str => .strs
  | .empty =>
    match e with
    | .strs _ => .strs
    | .ints T _ => .ints T
    | .floats .w32 _ => .f32
    | .floats .w64 _ => .f64
  | k => k

/-- one operation on the abstract state (an incompatible `extend_*` fails and changes nothing;
`truncate` keeps the first `n` items; a single string that loses its item becomes the empty value) -/
def absStep (ops : FloatOps) (a : Abs) : Op → Abs
  | .extend e =>
    if compatibleK a.kind e then ⟨kindAfter a.kind e, a.items ++ appendedK ops a.kind e⟩ else a
  | .truncate n =>
    match a.kind with
    | .str => if n = 0 then ⟨.empty, []⟩ else ⟨.str, a.items.take n⟩
    | _ => ⟨a.kind, a.items.take n⟩

def absRun (ops : FloatOps) (a : Abs) (h : List Op) : Abs := h.foldl (absStep ops) a

def extendCompatible (v : PV) (e : Ext) : Bool := compatibleK v.kind e
def appended (ops : FloatOps) (v : PV) (e : Ext) : List Item := appendedK ops v.kind e

/-! ### accepted syntax of `str::parse::<f32/f64>` (`core::num::dec2flt`) -/

def isDigit (c : Char) : Bool := '0' ≤ c && c ≤ '9'

def lower (c : Char) : Char := if 'A' ≤ c ∧ c ≤ 'Z' then Char.ofNat (c.toNat + 32) else c

/-- optional sign; then `inf` | `infinity` | `nan` (any case), or digits `[. digits] [e [sign] digits]`
with at least one mantissa digit and, if `e` is present, at least one exponent digit. -/
def floatSyntax (s : List Char) : Bool :=
  let r := match s with
    | '+' :: r => r
    | '-' :: r => r
    | _ => s
  if r.isEmpty then false else
  let ip := r.takeWhile isDigit
  let r1 := r.dropWhile isDigit
  let (fp, r2, _dot) := match r1 with
    | '.' :: t => (t.takeWhile isDigit, t.dropWhile isDigit, true)
    | _ => ([], r1, false)
  let number :=
    if ip.length + fp.length = 0 then false else
    match r2 with
    | [] => true
    | c :: t =>
      if c = 'e' ∨ c = 'E' then
        let t' := match t with
          | '+' :: u => u
          | '-' :: u => u
          | _ => t
        !t'.isEmpty && t'.all isDigit
      else false
  let low := r.map lower
  number || low == "nan".toList || low == "inf".toList || low == "infinity".toList

end Dicom.NumConv
