/-
Line-protocol syntax for association PDUs and states (parsers and printers), shared by the
C28/C29/C30 drivers. Mirrors `harness/src/bin/c28/wire.rs`.
-/
import DicomModel.Model.Util
import DicomModel.Model.Assoc
namespace Dicom.Assoc.Line
open Dicom Dicom.Assoc

abbrev Toks := List String
/-- a parser consumes a prefix of the token list -/
abbrev P (α : Type) := Toks → Option (α × Toks)

def nat : P Nat
  | t :: r => t.toNat?.map (·, r)
  | [] => none

def str : P Str
  | t :: r => (unhexStr t).map (·, r)
  | [] => none

def bool : P Bool
  | "1" :: r => some (true, r)
  | "0" :: r => some (false, r)
  | _ => none

def word : P String
  | t :: r => some (t, r)
  | [] => none

/-- `n` repetitions of `p` -/
def rep (p : P α) : Nat → P (List α)
  | 0, ts => some ([], ts)
  | n+1, ts =>
    match p ts with
    | some (a, r) => match rep p n r with
      | some (as, r') => some (a :: as, r')
      | none => none
    | none => none

/-- a count followed by that many items -/
def counted (p : P α) : P (List α) := fun ts =>
  match nat ts with
  | some (n, r) => rep p n r
  | none => none

def userVar : P UserVar
  | t :: r =>
    let v : Option UserVar :=
      match t.splitOn ":" with
      | ["uk", ty, d] => do some (.unknown (← ty.toNat?) (← unhex d))
      | ["ml", n] => do some (.maxLength (← n.toNat?))
      | ["ic", s] => do some (.implClassUid (← unhexStr s))
      | ["iv", s] => do some (.implVersion (← unhexStr s))
      | ["xn", s, d] => do some (.extNeg (← unhexStr s) (← unhex d))
      | ["rs", s, a, b] => do some (.role (← unhexStr s) (a == "1") (b == "1"))
      | ["ui", p, k, a, b] => do some (.identity ⟨p == "1", ← k.toNat?, ← unhex a, ← unhex b⟩)
      | _ => none
    v.map (·, r)
  | [] => none

def proposed : P Proposed := fun ts => do
  let (id, r) ← nat ts
  let (a, r) ← str r
  let (tss, r) ← counted str r
  some (⟨id, a, tss⟩, r)

/-- `<pv> <calling> <called> <appctx> <n> {pc} <nuv> {uv}` (after the `rq` keyword) -/
def request : P Request := fun ts => do
  let (pv, r) ← nat ts
  let (calling, r) ← str r
  let (called, r) ← str r
  let (app, r) ← str r
  let (pcs, r) ← counted proposed r
  let (uvs, r) ← counted userVar r
  some (⟨pv, calling, called, app, pcs, uvs⟩, r)

def reasonOfCode : Nat → Option PcReason
  | 0 => some .acceptance | 1 => some .userRejection | 2 => some .noReason
  | 3 => some .abstractSyntaxNotSupported | 4 => some .transferSyntaxesNotSupported
  | _ => none

def pcResult : P PcResult := fun ts => do
  let (id, r) ← nat ts
  let (c, r) ← nat r
  let (t, r) ← str r
  some (⟨id, ← reasonOfCode c, t⟩, r)

def negotiated : P Negotiated := fun ts => do
  let (id, r) ← nat ts
  let (c, r) ← nat r
  let (t, r) ← str r
  let (a, r) ← str r
  some (⟨id, ← reasonOfCode c, t, a⟩, r)

def accept : P Accept := fun ts => do
  let (pv, r) ← nat ts
  let (calling, r) ← str r
  let (called, r) ← str r
  let (app, r) ← str r
  let (pcs, r) ← counted pcResult r
  let (uvs, r) ← counted userVar r
  some (⟨pv, calling, called, app, pcs, uvs⟩, r)

/-- what the harness observed as a PDU: a modelled PDU, or something else (`none`, errors) -/
inductive Seen
  | pdu (p : Pdu)
  | rj (result source reason : Nat)
  | other (s : String)
deriving Repr

def seen (ts : Toks) : Option Seen :=
  match ts with
  | "rq" :: r => do let (q, rest) ← request r; if rest.isEmpty then some (.pdu (.assocRQ q)) else none
  | "ac" :: r => do let (q, rest) ← accept r; if rest.isEmpty then some (.pdu (.assocAC q)) else none
  | ["rj", a, b, c] => do some (.rj (← a.toNat?) (← b.toNat?) (← c.toNat?))
  | ["ab", "0", _] => some (.pdu (.abortRQ .serviceUser))
  | ["ab", "2", "0"] => some (.pdu (.abortRQ .providerReasonNotSpecified))
  | ["ab", "2", "1"] => some (.pdu (.abortRQ .providerUnrecognizedPdu))
  | ["ab", "2", "2"] => some (.pdu (.abortRQ .providerUnexpectedPdu))
  | ["ab", a, b] => do some (.pdu (.abortRQ (.other (← a.toNat?) (← b.toNat?))))
  | ["rlrq"] => some (.pdu .releaseRQ)
  | ["rlrp"] => some (.pdu .releaseRP)
  | ["pd", _, _] => some (.pdu .pdata)
  | ["unk", t] => do some (.pdu (.unknown (← t.toNat?)))
  | [s] => some (.other s)
  | _ => none

/-! ### printers (same syntax) -/

def b01 (b : Bool) : String := if b then "1" else "0"

def showUv : UserVar → String
  | .unknown t d => s!"uk:{t}:{hexOf d}"
  | .maxLength n => s!"ml:{n}"
  | .implClassUid s => s!"ic:{hexOfStr s}"
  | .implVersion s => s!"iv:{hexOfStr s}"
  | .extNeg s d => s!"xn:{hexOfStr s}:{hexOf d}"
  | .role s a b => s!"rs:{hexOfStr s}:{b01 a}:{b01 b}"
  | .identity u => s!"ui:{b01 u.positiveResponse}:{u.kind}:{hexOf u.primary}:{hexOf u.secondary}"

def showUvs (uvs : List UserVar) : Toks := toString uvs.length :: uvs.map showUv

def showAbort : AbortSrc → Toks
  | .serviceUser => ["ab", "0", "0"]
  | .providerReasonNotSpecified => ["ab", "2", "0"]
  | .providerUnrecognizedPdu => ["ab", "2", "1"]
  | .providerUnexpectedPdu => ["ab", "2", "2"]
  | .other a b => ["ab", toString a, toString b]

def showPdu : Pdu → Toks
  | .assocRQ q =>
    ["rq", toString q.protocolVersion, hexOfStr q.calling, hexOfStr q.called, hexOfStr q.appContext,
     toString q.contexts.length] ++
    q.contexts.flatMap (fun pc => [toString pc.id, hexOfStr pc.abstractSyntax,
      toString pc.transferSyntaxes.length] ++ pc.transferSyntaxes.map hexOfStr) ++ showUvs q.userVars
  | .assocAC a =>
    ["ac", toString a.protocolVersion, hexOfStr a.calling, hexOfStr a.called, hexOfStr a.appContext,
     toString a.contexts.length] ++
    a.contexts.flatMap (fun pc => [toString pc.id, toString pc.reason.code, hexOfStr pc.transferSyntax]) ++
    showUvs a.userVars
  | .assocRJ perm src => ["rj", if perm then "1" else "2", toString src.codes.1, toString src.codes.2]
  | .abortRQ s => showAbort s
  | .releaseRQ => ["rlrq"]
  | .releaseRP => ["rlrp"]
  | .pdata => ["pd"]
  | .unknown t => ["unk", toString t]

def showNegotiated (pcs : List Negotiated) : Toks :=
  toString pcs.length :: pcs.flatMap (fun pc =>
    [toString pc.id, toString pc.reason.code, hexOfStr pc.transferSyntax, hexOfStr pc.abstractSyntax])

def showErr : ErrKind → String
  | .rejected => "err:rejected" | .aborted => "err:aborted" | .unexpectedPdu => "err:unexpected-pdu"
  | .unknownPdu => "err:unknown-pdu" | .missingAbstractSyntax => "err:missing-abstract-syntax"

def showView (v : ServerView) : Toks :=
  ["ok", toString v.peerMaxPdu, toString v.localMaxPdu, hexOfStr v.peerAeTitle, hexOfStr v.calledAeTitle] ++
  showNegotiated v.contexts ++ showUvs v.userVars

/-- split a token list at the `|` separators -/
def sections (ts : Toks) : List Toks :=
  let rec go (cur : Toks) (acc : List Toks) : Toks → List Toks
    | [] => (cur.reverse :: acc).reverse
    | "|" :: r => go [] (cur.reverse :: acc) r
    | t :: r => go (t :: cur) acc r
  go [] [] ts

/-! ### the harness's fixture policies (`harness/src/bin/c28/main.rs`) -/

def isPrefix : Str → Str → Bool
  | [], _ => true
  | _ :: _, [] => false
  | a :: as, b :: bs => a == b && isPrefix as bs

def accessOf (tok : String) : Option (Str → Str → Str → Option UserIdentity → Option SuReason) :=
  if tok == "any" then some acceptAny
  else if tok == "called" then some acceptCalledAeTitle
  else if tok == "ident" then some fun _ _ _ id =>
    match id with
    | none => some .noReasonGiven
    | some u => if u.primary = "alice".toList.map (·.toNat) then none else some .callingNotRecognized
  else if tok.startsWith "calling:" then
    (unhexStr (tok.drop 8).toString).map fun x => fun _ calling _ _ =>
      if calling = x then none else some .callingNotRecognized
  else none

def negOf (k : Nat) : (Str → Bytes → Option Bytes) × (Str → Bool → Bool → Option (Bool × Bool)) :=
  match k with
  | 0 => (fun _ _ => none, fun _ _ _ => none)
  | 1 => (fun uid d => if isPrefix "1.2.840.10008.5.1.4".toList uid then some ((d.take 3).map (· % 2)) else none,
          fun uid scu _ => if uid.getLast? = some '7' then none else some (scu, false))
  | _ => (fun _ _ => some [], fun _ _ _ => some (true, true))

structure CfgLine where
  cfg : Config
  strict : Bool
  pol : Policy
  acTok : String
  neg : Nat

/-- `<ae> <prom> <strict> <maxpdu> <ac> <neg> <nAS> as… <nTS> ts…`: the configuration is built
with the model's builder functions from the values passed to the real builder. -/
def cfgLine : P CfgLine := fun ts => do
  let (ae, r) ← str ts
  let (prom, r) ← bool r
  let (strict, r) ← bool r
  let (maxpdu, r) ← nat r
  let (ac, r) ← word r
  let (neg, r) ← nat r
  let (abs, r) ← counted str r
  let (tss, r) ← counted str r
  let access ← accessOf ac
  let c0 : Config := { aeTitle := ae, promiscuous := prom }
  let c1 := (c0.withMaxPdu maxpdu)
  let c2 := abs.foldl Config.withAbstractSyntax c1
  let c3 := tss.foldl Config.withTransferSyntax c2
  let (x, y) := negOf neg
  some (⟨c3, strict, ⟨access, x, y⟩, ac, neg⟩, r)

end Dicom.Assoc.Line
