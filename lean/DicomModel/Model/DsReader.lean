/-
Model of the data set token reader and of the stateful decoder underneath it (C07, C08):
  parser/src/dataset/read.rs     DataSetReader::next (the whole `loop`), update_seq_delimiters,
                                 push_sequence_token, read_value (3 value-read strategies), sanitize_length
  parser/src/stateful/decode.rs  StatefulDecoder: decode_header (+ pixel-representation VR override),
                                 decode_item_header, read_value / read_value_preserved / read_value_bytes with
                                 every read_value_* helper, read_to_vec, read_u32_to_vec, skip_bytes, position

The element header decoder is a parameter (`Dec σ`: a function with its own state `σ`), so that the
same reader runs over the three plain decoders and over the adaptive one (Model/Adaptive.lean).

What is modelled exactly: which bytes every step takes from the source, what it adds to `position`,
all reader state (`in_sequence`, delimiter stack with base offsets, `delimiter_check_pending`,
`offset_table_next`, `last_header`, `hard_break`, `signed_pixeldata`), tokens, header fields, binary values
(as unsigned bit patterns), tags, text values as *raw bytes split on backslash* (text decoding is the
identity on the default repertoire), error classes.
What is a parameter: `Cfg.parseOk` — whether a DA/DT/TM/DS/IS text is accepted by the date / number
parsers in the `Interpreted` strategy (those parsers are C11/C12's subject); the interpreted value is
represented by its kind and its number of components only.
The run stops at the first error (a consumer stops there; the code does not always set `hard_break`).
-/
import DicomModel.Model.Header
namespace Dicom.Rd

/-- `OddLengthStrategy` -/
inductive Odd where
  | accept | nextEven | fail
deriving DecidableEq, Repr, Inhabited

/-- `ValueReadStrategy` -/
inductive VMode where
  | interpreted | preserved | raw
deriving DecidableEq, Repr, Inhabited

/-- `sanitize_length`: `none` = the length "cannot or should not be resolved" -/
def sanitize (o : Odd) (len : Nat) : Option Nat :=
  if len ≠ undefinedLen ∧ len % 2 = 1 then
    match o with
    | .accept => some len
    | .nextEven => some (len + 1)
    | .fail => none
  else some len

/-! ### header decoders as a parameter -/

/-- result of `Decode::decode_header` as far as the reader distinguishes it -/
inductive HdrRes where
  /-- header, reported `bytes_read`, rest of the source -/
  | ok (h : ElemHeader) (n : Nat) (rest : Bytes)
  /-- `ReadHeaderTag` with `UnexpectedEof`: taken as the graceful end of the data set -/
  | eofTag
  | err
deriving DecidableEq, Repr, Inhabited

/-- an element header decoder with private state `σ` (`Cell<VrState>` of the adaptive decoder; `Unit` else) -/
structure Dec (σ : Type) where
  header : σ → Bytes → HdrRes × σ
  /-- byte order of item headers and of the basic decoder -/
  be : Bool
  /-- whether end of input inside `decode_item_header` is reported as `ReadItemHeader`
  (explicit VR and adaptive decoders: one 8-byte read) — the implicit VR decoder reports
  `ReadHeaderTag`/`ReadLength` instead, which the reader does not take as a graceful end -/
  itemEofGraceful : Bool

/-- lift the `Option` result of `Dicom.decodeHeader`: failure with fewer than 4 bytes left is the
end-of-input-in-tag case -/
def hdrOf (bs : Bytes) : Option (ElemHeader × Nat × Bytes) → HdrRes
  | some (h, n, rest) => .ok h n rest
  | none => if bs.length < 4 then .eofTag else .err

/-- the three plain decoders -/
def plainDec (ts : Syntax) (dict : Tag → Option VR) : Dec Unit where
  header := fun _ bs => (hdrOf bs (decodeHeader ts dict bs), ())
  be := ts.bigEndian
  itemEofGraceful := ts.explicit

/-! ### values -/

inductive NumKind where
  | u16 | i16 | u32 | i32 | u64 | i64 | f32 | f64
deriving DecidableEq, Repr, Inhabited

/-- result kinds of the `Interpreted` strategy for textual numbers and dates -/
inductive IKind where
  | date | dateTime | time | f64 | i32
deriving DecidableEq, Repr, Inhabited

/-- `PrimitiveValue` as read. Numbers are unsigned bit patterns of their width. -/
inductive RVal where
  | empty
  | u8 (b : Bytes)
  | nums (k : NumKind) (l : List Nat)
  | tags (l : List Tag)
  /-- `Strs`: raw bytes of each component -/
  | strs (l : List Bytes)
  | str (s : Bytes)
  /-- `Date`/`DateTime`/`Time`/`F64`/`I32` parsed from text: kind and number of components -/
  | interp (k : IKind) (n : Nat)
deriving DecidableEq, Repr, Inhabited

/-- unsigned value of a byte group in the given byte order -/
def valOf (be : Bool) (bs : Bytes) : Nat :=
  if be then bs.foldl (fun acc b => acc * 256 + b) 0
  else bs.foldr (fun b acc => b + 256 * acc) 0

/-- `n` numbers of `size` bytes each -/
def numsOf (be : Bool) (size : Nat) : Nat → Bytes → List Nat
  | 0, _ => []
  | n + 1, bs => valOf be (bs.take size) :: numsOf be size n (bs.drop size)

/-- `n` tags (`decode_tag` each) -/
def tagsOf (be : Bool) : Nat → Bytes → List Tag
  | 0, _ => []
  | n + 1, bs => ⟨valOf be (bs.take 2), valOf be ((bs.drop 2).take 2)⟩ :: tagsOf be n (bs.drop 4)

/-- `slice.split(|b| *b == b'\\')` (always at least one part) -/
def splitBs : Bytes → List Bytes
  | [] => [[]]
  | b :: r =>
    if b = 0x5C then [] :: splitBs r
    else match splitBs r with
      | p :: ps => (b :: p) :: ps
      | [] => [[b]]

/-- `trim_trail_empty_bytes`: drop trailing spaces and NULs -/
def trimTrail (bs : Bytes) : Bytes :=
  (bs.reverse.dropWhile fun b => b = 0x20 ∨ b = 0).reverse

structure Cfg where
  odd : Odd
  mode : VMode
  /-- dictionary VR of the tag is `VirtualVr::Xs` -/
  isXs : Tag → Bool
  /-- acceptance by the text parsers of the `Interpreted` strategy (trimmed value) -/
  parseOk : VR → Bytes → Bool

inductive ValRes where
  | ok (v : RVal)
  /-- a decoding error after the bytes were taken (`InvalidDateValue`, `ReadInt`, `DecodeText` …) -/
  | bad
  /-- `NonPrimitiveType` -/
  | nonPrimitive
deriving DecidableEq, Repr, Inhabited

/-- number array of element size `size`: `len >> k` numbers; the `len & (size-1)` trailing bytes are
read and discarded -/
def numVal (be : Bool) (k : NumKind) (size : Nat) (v : Bytes) : ValRes :=
  .ok (.nums k (numsOf be size (v.length / size) v))

/-- the text-to-binary paths of `read_value`: blank → `Empty`, else parsed by components -/
def interpVal (cfg : Cfg) (vr : VR) (k : IKind) (v : Bytes) : ValRes :=
  let buf := trimTrail v
  if buf.isEmpty then .ok .empty
  else if cfg.parseOk vr buf then .ok (.interp k (splitBs buf).length)
  else .bad

/-- the shared (preserved = interpreted) part of the VR dispatch, applied to the `len` value bytes `v` -/
def binVal (be : Bool) (vr : VR) (v : Bytes) : ValRes :=
  match vr with
  | .SQ => .nonPrimitive
  | .AT => .ok (.tags (tagsOf be (v.length / 4) v))
  | .AE | .AS | .PN | .SH | .LO | .UC | .UI | .CS => .ok (.strs (splitBs v))
  | .UT | .ST | .UR | .LT => .ok (.str v)
  | .UN | .OB => .ok (.u8 v)
  | .US | .OW => numVal be .u16 2 v
  | .SS => numVal be .i16 2 v
  | .FD | .OD => numVal be .f64 8 v
  | .FL | .OF => numVal be .f32 4 v
  | .SL => numVal be .i32 4 v
  | .SV => numVal be .i64 8 v
  | .OL | .UL => numVal be .u32 4 v
  | .OV | .UV => numVal be .u64 8 v
  -- the five VRs on which the strategies differ are dispatched by the callers
  | .DA | .DT | .TM | .DS | .IS => .ok (.strs (splitBs v))

/-- `read_value` / `read_value_preserved` / `read_value_bytes` on the value bytes (length ≠ 0) -/
def decodeVal (cfg : Cfg) (be : Bool) (vr : VR) (v : Bytes) : ValRes :=
  match cfg.mode with
  | .raw => if vr = .SQ then .nonPrimitive else .ok (.u8 v)
  | .preserved => binVal be vr v
  | .interpreted =>
    match vr with
    | .DA => interpVal cfg vr .date v
    | .DT => interpVal cfg vr .dateTime v
    | .TM => interpVal cfg vr .time v
    | .DS => interpVal cfg vr .f64 v
    | .IS => interpVal cfg vr .i32 v
    | _ => binVal be vr v

/-! ### reader state -/

/-- `SeqToken` -/
structure SeqTok where
  isItem : Bool
  len : Nat
  pix : Bool
  base : Nat
deriving DecidableEq, Repr, Inhabited

/-- `DataSetReader` with its `StatefulDecoder`, without the header decoder's private state
(source = bytes not yet consumed) -/
structure RSt where
  src : Bytes
  /-- `StatefulDecoder::position` -/
  pos : Nat
  signedPix : Option Bool
  inSeq : Bool
  otNext : Bool
  pending : Bool
  /-- `seq_delimiters`, last pushed first -/
  stack : List SeqTok
  hardBreak : Bool
  last : Option ElemHeader
deriving DecidableEq, Repr, Inhabited

def RSt.init (src : Bytes) (base : Nat) : RSt :=
  { src := src, pos := base, signedPix := none, inSeq := false, otNext := false,
    pending := false, stack := [], hardBreak := false, last := none }

inductive Tok where
  | elementHeader (h : ElemHeader)
  | sequenceStart (tag : Tag) (len : Nat)
  | pixelSequenceStart
  | sequenceEnd
  | itemStart (len : Nat)
  | itemEnd
  | primitiveValue (v : RVal)
  | itemValue (b : Bytes)
  | offsetTable (l : List Nat)
deriving DecidableEq, Repr, Inhabited

inductive ErrKind where
  | invalidElementLength | invalidItemLength | inconsistentSequenceEnd | unexpectedItemHeader
  | undefinedItemLength | unexpectedItemTag | readItemHeader | readHeader | readValue | readItemValue
deriving DecidableEq, Repr, Inhabited

inductive Out where
  | tok (t : Tok)
  | err (e : ErrKind)
  /-- the iterator returned `None` -/
  | done
deriving DecidableEq, Repr, Inhabited

def Out.isTok : Out → Bool
  | .tok _ => true
  | _ => false

/-- `push_sequence_token` (base offset = current position) -/
def RSt.push (s : RSt) (isItem : Bool) (len : Nat) (pix : Bool) : RSt :=
  { s with stack := ⟨isItem, len, pix, s.pos⟩ :: s.stack }

def RSt.pop (s : RSt) : RSt := { s with stack := s.stack.tail }

/-- outcome of `update_seq_delimiters` -/
inductive Upd where
  | tok (t : Tok) (s : RSt)
  | err (s : RSt)
  | none (s : RSt)

/-- `update_seq_delimiters` -/
def updateSeqDelimiters (s : RSt) : Upd :=
  match s.stack with
  | sd :: _ =>
    if sd.len ≠ undefinedLen then
      let eos := sd.base + sd.len
      if eos = s.pos then
        if sd.isItem then .tok .itemEnd { s.pop with inSeq := true }
        else .tok .sequenceEnd { s.pop with inSeq := false }
      else if eos < s.pos then .err s
      else .none { s with pending := false }
    else .none { s with pending := false }
  | [] => .none { s with pending := false }

/-- value read for a plain element header: the declared length is taken from the source whole
(`read_exact`; number arrays: whole numbers, then the remainder), `position += len` -/
def readValue (cfg : Cfg) (be : Bool) (h : ElemHeader) (s : RSt) : Option (RVal × RSt) :=
  if h.len = 0 then some (.empty, s)
  else if h.len = undefinedLen then none   -- `UndefinedValueLength` (not reachable from `next`)
  else match takeN h.len s.src with
    | none => none
    | some (v, rest) =>
      match decodeVal cfg be h.vr v with
      | .ok val =>
        -- `read_value_us`: Pixel Representation (0028,0103) sets `signed_pixeldata`
        let sp := if cfg.mode ≠ .raw ∧ (h.vr = .US ∨ h.vr = .OW) ∧ h.tag = ⟨0x0028, 0x0103⟩
          then (if v.length / 2 = 0 then none else some (decide (valOf be (v.take 2) ≠ 0)))
          else s.signedPix
        some (val, { s with src := rest, pos := s.pos + h.len, signedPix := sp })
      | _ => none

/-- `read_to_vec(len)`: `io::copy` of `take(len)` — a short source is *not* an error —
and `position += len` -/
def readToVec (len : Nat) (s : RSt) : Bytes × RSt :=
  (s.src.take len, { s with src := s.src.drop len, pos := s.pos + len })

/-- `read_u32_to_vec(len)`: `len >> 2` numbers (`read_exact`, error when short; `position += 4n`),
then `skip_bytes(len & 3)` (`io::copy`, short source accepted; `position += len & 3`) -/
def readU32ToVec (be : Bool) (len : Nat) (s : RSt) : Option (List Nat × RSt) :=
  let n := len / 4
  match takeN (4 * n) s.src with
  | none => none
  | some (v, rest) =>
    some (numsOf be 4 n v, { s with src := rest.drop (len % 4), pos := s.pos + 4 * n + len % 4 })

/-- item header seen where the reader expects items of a data set sequence (`in_sequence`).
`graceful` = `Dec.itemEofGraceful`. -/
def nextInSeq (cfg : Cfg) (be graceful : Bool) (s : RSt) : Out × RSt :=
  match decodeItemHeader be s.src with
  | .ok (.item len, rest) =>
    let s := { s with src := rest, pos := s.pos + 8 }
    match sanitize cfg.odd len with
    | none => (.err .invalidItemLength, s)
    | some len =>
      let s := { s with inSeq := false }
      match s.stack with
      | [] => (.err .unexpectedItemHeader, s)
      | lastD :: _ =>
        let s := s.push true len lastD.pix
        let s := if len = 0 then { s with pending := true } else s
        (.tok (.itemStart len), s)
  | .ok (.itemDelim, rest) =>
    let s := { s with src := rest, pos := s.pos + 8 }
    (.tok .itemEnd, { s.pop with inSeq := true, pending := true })
  | .ok (.seqDelim, rest) =>
    let s := { s with src := rest, pos := s.pos + 8 }
    (.tok .sequenceEnd, { s.pop with inSeq := false, pending := true })
  | .error .eof =>
    -- end of input inside a pixel data sequence is the graceful end of the data set, provided the
    -- decoder reports it as `ReadItemHeader`
    (if graceful ∧ (match s.stack with | t :: _ => t.pix | [] => false) = true then .done
     else .err .readItemHeader, { s with hardBreak := true, src := [] })
  | .error _ => (.err .readItemHeader, { s with hardBreak := true, src := s.src.drop 8 })

/-- first item header of an encapsulated pixel data element -/
def nextPixelStart (cfg : Cfg) (be : Bool) (s : RSt) : Out × RSt :=
  let s := { s.push false undefinedLen true with last := none }
  match decodeItemHeader be s.src with
  | .ok (.item len, rest) =>
    let s := { s with src := rest, pos := s.pos + 8 }
    match sanitize cfg.odd len with
    | none => (.err .invalidItemLength, s)
    | some len =>
      let s := ({ s with inSeq := false }).push true len true
      let s := if len = 0 then { s with pending := true } else { s with otNext := true }
      (.tok (.itemStart len), s)
  | .ok (.seqDelim, rest) =>
    let s := { s with src := rest, pos := s.pos + 8 }
    (.tok .sequenceEnd, { s.pop with inSeq := false })
  | .ok (.itemDelim, rest) =>
    (.err .unexpectedItemTag, { s with src := rest, pos := s.pos + 8, hardBreak := true })
  | .error .eof => (.err .readItemHeader, { s with hardBreak := true, src := [] })
  | .error _ => (.err .readItemHeader, { s with hardBreak := true, src := s.src.drop 8 })

def pixelDataTag : Tag := ⟨0x7FE0, 0x0010⟩

/-- a step of `next` either returns to the caller or goes on (to the next branch / loop round) -/
inductive Step where
  | ret (o : Out) (s : RSt)
  | go (s : RSt)

/-- the branches of `next` between the delimiter check and the header branch: the item header branch,
the pixel data item value / offset table branch, the value branch (`.go`: none applies) -/
def preBody (cfg : Cfg) (be graceful : Bool) (s : RSt) : Step :=
  if s.inSeq then
    let (o, s) := nextInSeq cfg be graceful s
    .ret o s
  else match s.stack with
    | ⟨true, len, true, _⟩ :: _ =>
      if len = undefinedLen then .ret (.err .undefinedItemLength) s
      else if s.otNext then
        let s := { s with otNext := false, pending := true }
        match readU32ToVec be len s with
        | some (t, s) => .ret (.tok (.offsetTable t)) s
        | none => .ret (.err .readItemValue) { s with src := [] }
      else
        let s := { s with pending := true }
        let (v, s) := readToVec len s
        .ret (.tok (.itemValue v)) s
    | _ =>
      match s.last with
      | some h =>
        if h.tag = pixelDataTag ∧ h.len = undefinedLen then
          let (o, s) := nextPixelStart cfg be s
          .ret o s
        else match readValue cfg be h s with
          | none => .ret (.err .readValue) { s with hardBreak := true, last := none }
          | some (v, s) => .ret (.tok (.primitiveValue v)) { s with last := none, pending := true }
      | none => .go s

/-- everything in `next` before the header branch: the pending check of item / sequence delimitation
by explicit length (`update_seq_delimiters`), then `preBody` -/
def preHeader (cfg : Cfg) (be graceful : Bool) (s : RSt) : Step :=
  if s.pending then
    match updateSeqDelimiters s with
    | .tok t s' => .ret (.tok t) s'
    | .err s' => .ret (.err .inconsistentSequenceEnd) { s' with hardBreak := true }
    | .none s' => preBody cfg be graceful s'
  else preBody cfg be graceful s

/-- the header branch of `next`, given the result of `Decode::decode_header` on the source:
`StatefulDecoder::decode_header` (position update, Pixel Representation VR override), then the
match on the header. `.go` = the stray item delimiter case (`continue`). -/
def headerStep (cfg : Cfg) (r : HdrRes) (s : RSt) : Step :=
  match r with
  | .ok h0 n rest =>
    let h : ElemHeader :=
      if s.signedPix = some true ∧ cfg.isXs h0.tag = true then { h0 with vr := .SS } else h0
    let s := { s with src := rest, pos := s.pos + n }
    if h.vr = .SQ then
      match sanitize cfg.odd h.len with
      | none => .ret (.err .invalidElementLength) s
      | some len =>
        let s := ({ s with inSeq := true }).push false len false
        let s := if len = 0 then { s with pending := true } else s
        .ret (.tok (.sequenceStart h.tag len)) s
    else if h.tag = Tag.itemDelim then
      if s.stack.isEmpty then .go s
      else .ret (.tok .itemEnd) { s.pop with inSeq := true, pending := true }
    else if h.tag = pixelDataTag ∧ h.len = undefinedLen then
      .ret (.tok .pixelSequenceStart) { s with last := some h }
    else if h.len = undefinedLen then
      .ret (.tok (.sequenceStart h.tag h.len)) (({ s with inSeq := true }).push false h.len false)
    else
      match sanitize cfg.odd h.len with
      | none => .ret (.err .invalidElementLength) s
      | some len =>
        let h := { h with len := len }
        .ret (.tok (.elementHeader h)) { s with last := some h }
  | .eofTag => .ret .done { s with hardBreak := true, src := [] }
  | .err => .ret (.err .readHeader) { s with hardBreak := true, src := [] }

variable {σ : Type}

/-- `DataSetReader::next`; `fuel` bounds the `continue` loop (each round consumes 8 bytes) -/
def next (cfg : Cfg) (D : Dec σ) : Nat → σ × RSt → Out × (σ × RSt)
  | 0, x => (.done, x)
  | fuel + 1, (d, s) =>
    if s.hardBreak then (.done, (d, s))
    else match preHeader cfg D.be D.itemEofGraceful s with
      | .ret o s => (o, (d, s))
      | .go s =>
        match headerStep cfg (D.header d s.src).1 s with
        | .ret o s' => (o, ((D.header d s.src).2, s'))
        | .go s' => next cfg D fuel ((D.header d s.src).2, s')

/-- one record of a run: the output, `position()` after it, bytes consumed from the source so far -/
structure Rec where
  out : Out
  pos : Nat
  consumed : Nat
deriving DecidableEq, Repr, Inhabited

/-- the reader driven to its end, to its first error, or for `cap` tokens; `total` = length of the
whole source (for the consumed count) -/
def run (cfg : Cfg) (D : Dec σ) (total : Nat) : Nat → σ × RSt → List Rec
  | 0, _ => []
  | cap + 1, x =>
    match next cfg D (x.2.src.length + 1) x with
    | (.tok t, x') => ⟨.tok t, x'.2.pos, total - x'.2.src.length⟩ :: run cfg D total cap x'
    | (o, x') => [⟨o, x'.2.pos, total - x'.2.src.length⟩]

/-- the whole reader over a byte string -/
def readAll (cfg : Cfg) (D : Dec σ) (d0 : σ) (base : Nat) (cap : Nat) (bs : Bytes) : List Rec :=
  run cfg D bs.length cap (d0, RSt.init bs base)

end Dicom.Rd
