/-
Model of the storage SCP tool: `storescp/src/store_sync.rs` and `store_async.rs` (`inner`, the two
receive loops are the same code up to `.await`), on Unix.

* text: `PrimitiveValue::to_str` (values separated by a backslash, each trimmed at the end of
  spaces and NULs, re-joined) followed by `trim_end_matches('\0')`, replacement of path separators
  and NUL by `_` (fix 08d5699) and `+ ".dcm"`;
* `PathBuf::push` (an absolute argument REPLACES the path, otherwise it is joined, `..` and `.`
  components are kept as they are);
* where `File::create` puts the file: a small model of path resolution (no symbolic links) over the
  set of existing directories;
* the receive loop: state = instance buffer, message id, affected SOP class / instance text; one
  step per P-DATA value; effects = files written and responses sent.
The command-set decoder, the data-set decoder (per transfer syntax) and the file system's answer
are parameters (`Env`).
-/
import DicomModel.Model.Util
import DicomModel.Model.Bytes
namespace Dicom.StoreScp

abbrev Str := List Char

/-! ## text of the UID -/

def nul : Char := Char.ofNat 0

/-- `str::trim_end_matches(p)` -/
def trimEndBy (p : Char → Bool) (s : Str) : Str := (s.reverse.dropWhile p).reverse

def isPad (c : Char) : Bool := c == ' ' || c == nul
def isNul (c : Char) : Bool := c == nul

def consHead (x : Char) : List Str → List Str
  | p :: ps => (x :: p) :: ps
  | [] => [[x]]

/-- `str::split(c)`: always at least one piece -/
def splitOn (c : Char) : Str → List Str
  | [] => [[]]
  | x :: xs => if x = c then [] :: splitOn c xs else consHead x (splitOn c xs)

def joinWith (sep : Char) : List Str → Str
  | [] => []
  | [a] => a
  | a :: b :: r => a ++ sep :: joinWith sep (b :: r)

/-- `PrimitiveValue::to_str` of a textual value whose raw text is `raw` -/
def toStrText (raw : Str) : Str :=
  joinWith '\\' ((splitOn '\\' raw).map (trimEndBy isPad))

def dcmExt : Str := ['.', 'd', 'c', 'm']

/-- `.map(|c| if std::path::is_separator(c) || c == '\0' { '_' } else { c })` on Unix -/
def sanitise (s : Str) : Str := s.map fun c => if c = '/' ∨ c = nul then '_' else c

/-- the file name (argument: the `to_str` text of the Affected SOP Instance UID):
`sop_instance_uid.trim_end_matches('\0')`, separators and NUL replaced by `_`, `+ ".dcm"`
(fix 08d5699; `fileNameLegacy` is the code before it) -/
def fileName (uid : Str) : Str := sanitise (trimEndBy isNul uid) ++ dcmExt

/-- before fix 08d5699: `sop_instance_uid.trim_end_matches('\0').to_string() + ".dcm"` -/
def fileNameLegacy (uid : Str) : Str := trimEndBy isNul uid ++ dcmExt

/-! ## `PathBuf::push` and where the file lands -/

def isAbs (p : Str) : Bool := p.head? == some '/'

/-- `PathBuf::push` on Unix -/
def push (self p : Str) : Str :=
  if isAbs p then p
  else if self.isEmpty || self.getLast? == some '/' then self ++ p
  else self ++ '/' :: p

/-- `out_dir.to_path_buf().push(file name)` -/
def outPath (dir uid : Str) : Str := push dir (fileName uid)

abbrev Comps := List Str

def dot : Str := ['.']
def dotdot : Str := ['.', '.']

/-- walk through directory components; every directory entered must exist -/
def walk (dirs : List Comps) : Comps → List Str → Option Comps
  | cur, [] => some cur
  | cur, c :: cs =>
    if c = [] ∨ c = dot then walk dirs cur cs
    else if c = dotdot then walk dirs cur.dropLast cs
    else if (cur ++ [c]) ∈ dirs then walk dirs (cur ++ [c]) cs else none

/-- the directory a path names -/
def locateDir (dirs : List Comps) (cwd : Comps) (p : Str) : Option Comps :=
  walk dirs (if isAbs p then [] else cwd) (splitOn '/' p)

/-- Where `File::create(p)` creates (or truncates) a regular file: `none` = the call fails
(NUL in the path, missing directory, name too long, the name is a directory, trailing slash). -/
def locate (dirs : List Comps) (cwd : Comps) (p : Str) : Option Comps :=
  if p = [] ∨ nul ∈ p then none else
  let cs := splitOn '/' p
  let name := cs.getLast?.getD []
  if name = [] ∨ name = dot ∨ name = dotdot ∨ (utf8Encode name).length > 255 then none else
  match walk dirs (if isAbs p then [] else cwd) cs.dropLast with
  | some d => if (d ++ [name]) ∈ dirs then none else some (d ++ [name])
  | none => none

/-- the property's first clause for one created file: it lies directly inside the directory `D`
(as a decision procedure; `Props/C32` shows it equivalent to `∃ name, f = D ++ [name]`) -/
def directlyInside (D f : Comps) : Bool := !f.isEmpty && f.dropLast == D

/-- the path before fix 08d5699 (kept for the refutation theorems of `Props/C32`) -/
def outPathLegacy (dir uid : Str) : Str := push dir (fileNameLegacy uid)

/-! ## the receive loop -/

inductive Kind | command | data
deriving DecidableEq, Repr

structure Pdv where
  pc : Nat
  kind : Kind
  last : Bool
  data : Bytes
deriving DecidableEq, Repr

inductive Ev
  | pdata (vs : List Pdv)
  | releaseRq
  | abortRq
  | other
deriving Repr

/-- what the loop reads from a decoded command set (raw text of the UID values) -/
structure Cmd where
  field : Option Nat
  msgId : Option Nat
  cls : Option Str
  inst : Option Str
deriving DecidableEq, Repr

structure Env (δ : Type) where
  /-- `InMemDicomObject::read_dataset_with_ts(.., IMPLICIT_VR_LITTLE_ENDIAN)` -/
  decodeCmd : Bytes → Option Cmd
  /-- `read_dataset_with_ts(instance_buffer, registry.get(ts))` -/
  decodeDs : Str → Bytes → Option δ
  /-- `obj.element(SOP_CLASS_UID)?.to_str()?` -/
  sopClass : δ → Option Str
  sopInst : δ → Option Str
  /-- negotiated presentation contexts: id, transfer syntax -/
  pcs : List (Nat × Str)
  outDir : Str
  /-- whether `write_to_file(path)` succeeds -/
  canWrite : Str → Bool

structure FileOut (δ : Type) where
  path : Str
  ts : Str
  cls : Str
  inst : Str
  ds : δ

inductive Effect (δ : Type)
  | wrote (f : FileOut δ)
  | storeRsp (pc msgId : Nat) (cls inst : Str)
  | echoRsp (pc msgId : Nat)
  | releaseRp

structure St where
  buf : Bytes
  msgId : Nat
  cls : Str
  inst : Str
deriving DecidableEq, Repr

def St.init : St := ⟨[], 1, [], []⟩

def lookupPc (pcs : List (Nat × Str)) (id : Nat) : Option Str :=
  (pcs.find? (·.1 = id)).map (·.2)

/-- one P-DATA value; `none` = the `?` operator returned an error: the session ends -/
def stepPdv {δ : Type} (env : Env δ) (s : St) (v : Pdv) : Option (St × List (Effect δ)) :=
  match v.kind, v.last with
  | .data, false => some ({ s with buf := s.buf ++ v.data }, [])
  | .command, false => some (s, [])      -- no branch of the `if` chain matches: ignored
  | .command, true =>
    match env.decodeCmd v.data with
    | none => none
    | some c =>
      match c.field with
      | none => none
      | some f =>
        if f = 0x0030 then some ({ s with buf := [] }, [.echoRsp v.pc s.msgId])
        else match c.msgId, c.cls, c.inst with
          | some m, some k, some u =>
            some ({ buf := [], msgId := m, cls := toStrText k, inst := toStrText u }, [])
          | _, _, _ => none
  | .data, true =>
    let buf := s.buf ++ v.data
    match lookupPc env.pcs v.pc with
    | none => none
    | some ts =>
      match env.decodeDs ts buf with
      | none => none
      | some ds =>
        match env.sopClass ds, env.sopInst ds with
        | some dc, some di =>
          let path := outPath env.outDir s.inst
          if env.canWrite path then
            some ({ s with buf := buf },
              [.wrote ⟨path, ts, dc, di, ds⟩, .storeRsp v.pc s.msgId s.cls s.inst])
          else none
        | _, _ => none

/-- the values of one P-DATA PDU, in order; an error drops the rest -/
def stepPdvs {δ : Type} (env : Env δ) : St → List Pdv → Option St × List (Effect δ)
  | s, [] => (some s, [])
  | s, v :: vs =>
    match stepPdv env s v with
    | none => (none, [])
    | some (s', es) => ((stepPdvs env s' vs).1, es ++ (stepPdvs env s' vs).2)

/-- the loop over received PDUs: effects until release, abort or the first error -/
def run {δ : Type} (env : Env δ) : St → List Ev → List (Effect δ)
  | _, [] => []
  | s, .pdata vs :: evs =>
    match stepPdvs env s vs with
    | (some s', es) => es ++ run env s' evs
    | (none, es) => es
  | _, .releaseRq :: _ => [.releaseRp]
  | _, .abortRq :: _ => []
  | s, .other :: evs => run env s evs

/-- `true` when the loop ended by an error (connection dropped without release) -/
def failed {δ : Type} (env : Env δ) : St → List Ev → Bool
  | _, [] => false
  | s, .pdata vs :: evs =>
    match stepPdvs env s vs with
    | (some s', _) => failed env s' evs
    | (none, _) => true
  | _, .releaseRq :: _ => false
  | _, .abortRq :: _ => false
  | s, .other :: evs => failed env s evs

/-! ## flat element scanners used by the driver (command set, file meta group, UIDs of a data set) -/

/-- Implicit VR little endian, defined lengths only: value of element `tag` (= group*65536+elem) -/
def findImplicit (tag : Nat) : Nat → Bytes → Option Bytes
  | 0, _ => none
  | fuel+1, bs =>
    match rdLe16 bs with
    | none => none
    | some (g, r1) => match rdLe16 r1 with
      | none => none
      | some (e, r2) => match rdLe32 r2 with
        | none => none
        | some (len, r3) =>
          if len = 0xFFFFFFFF then none else
          match takeN len r3 with
          | none => none
          | some (v, rest) =>
            if g * 65536 + e = tag then some v
            else if g * 65536 + e > tag then none
            else findImplicit tag fuel rest

def longVr (a b : Nat) : Bool :=
  let v := [Char.ofNat a, Char.ofNat b]
  v ∈ [['O','B'], ['O','W'], ['O','F'], ['O','D'], ['O','L'], ['O','V'], ['S','Q'], ['U','T'],
       ['U','N'], ['U','C'], ['U','R'], ['S','V'], ['U','V']]

/-- Explicit VR little endian, defined lengths only, up to element `tag` -/
def findExplicit (tag : Nat) : Nat → Bytes → Option Bytes
  | 0, _ => none
  | fuel+1, bs =>
    match rdLe16 bs with
    | none => none
    | some (g, r1) => match rdLe16 r1 with
      | none => none
      | some (e, r2) =>
        match r2 with
        | a :: b :: r3 =>
          let hdr : Option (Nat × Bytes) :=
            if longVr a b then
              match r3 with
              | _ :: _ :: r4 => rdLe32 r4
              | _ => none
            else rdLe16 r3
          match hdr with
          | none => none
          | some (len, r5) =>
            if len = 0xFFFFFFFF then none else
            match takeN len r5 with
            | none => none
            | some (v, rest) =>
              if g * 65536 + e = tag then some v
              else if g * 65536 + e > tag then none
              else findExplicit tag fuel rest
        | _ => none

/-- split a stored file: preamble, `DICM`, the meta group (by its group length), the rest -/
def splitFile (f : Bytes) : Option (Bytes × Bytes) :=
  if f.length < 144 then none else
  let body := f.drop 128
  if body.take 4 ≠ [68, 73, 67, 77] then none else
  let m := body.drop 4
  -- (0002,0000) UL 4 <len>
  if m.take 8 ≠ [2, 0, 0, 0, 85, 76, 4, 0] then none else
  match rdLe32 (m.drop 8) with
  | none => none
  | some (len, r) =>
    match takeN len r with
    | none => none
    | some (mg, rest) => some (mg, rest)

def asText (v : Bytes) : Str := v.map Char.ofNat

/-- layout written by `FileDicomObject::write_to_file`: preamble, magic code, meta group (group
length element first, `metaBody` = the other meta elements), then the encoded data set -/
def fileBytes (metaBody dsBytes : Bytes) : Bytes :=
  List.replicate 128 0 ++ ([68, 73, 67, 77] ++ ([2, 0, 0, 0, 85, 76, 4, 0] ++ (le32 metaBody.length ++ (metaBody ++ dsBytes))))

end Dicom.StoreScp
