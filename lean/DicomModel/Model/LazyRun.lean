/-
The lazy reader (Model/LazyReader.lean, C06's model, imported unchanged) driven by a consumer, with the
observations of the C07 runner: after every token — once the consumer has fetched (`into_owned`) or skipped
(`skip()`) the announced value — `position()` and the number of bytes taken from the source.
-/
import DicomModel.Model.LazyReader
namespace Dicom.LP

/-- what the consumer does with an announced value: fetch it (`into_owned`, which reads an element value
with `read_value_preserved` and an item value with `read_to_vec`) or `skip()` it -/
inductive Use where
  | read | skip
deriving DecidableEq, Repr

/-- the consumer's action on the token `advance` returned: the materialised token (when fetched) and the
decoder afterwards -/
def consumeTok (u : Use) (t : LTok) (d : Dec) : Except RErr (Option Token × Dec) :=
  match u with
  | .read => match t.intoOwned d with
    | .ok (tok, d') => .ok (some tok, d')
    | .error e => .error e
  | .skip => match t.skip d with
    | .ok d' => .ok (none, d')
    | .error e => .error e

/-- one record of a lazy run: the announced token, its materialised form if it was fetched, `position()`
and the bytes consumed once the consumer is done with it -/
structure LRec where
  tok : LTok
  owned : Option Token
  pos : Nat
  consumed : Nat
deriving DecidableEq, Repr

/-- the lazy reader driven by a consumer that, for the `k`-th token, fetches or skips the value (`use k`);
ends with the reader, at the first error of the reader or of the consumer, or after `fuel` tokens -/
def lazyRun (use : Nat → Use) (total : Nat) : Nat → Nat → LState → List LRec
  | 0, _, _ => []
  | fuel + 1, k, s =>
    match s.advance with
    | (some (.ok t), s') =>
      match consumeTok (use k) t s'.dec with
      | .ok (o, d) => ⟨t, o, d.pos, total - d.rest.length⟩ :: lazyRun use total fuel (k + 1) { s' with dec := d }
      | .error _ => []
    | _ => []

/-- how a lazy run ends -/
inductive LEnding where
  /-- `advance` returned `None` -/
  | done
  /-- `advance` returned an error -/
  | readerError
  /-- the consumer's `into_owned` / `skip` returned an error -/
  | valueError
  | cap
deriving DecidableEq, Repr

def lazyEnding (use : Nat → Use) : Nat → Nat → LState → LEnding
  | 0, _, _ => .cap
  | fuel + 1, k, s =>
    match s.advance with
    | (some (.ok t), s') =>
      match consumeTok (use k) t s'.dec with
      | .ok (_, d) => lazyEnding use fuel (k + 1) { s' with dec := d }
      | .error _ => .valueError
    | (some (.error _), _) => .readerError
    | (none, _) => .done

end Dicom.LP
