/-
Text syntax of tags and attribute selectors (C14).

* `core/src/header.rs`: `Display for Tag`, `FromStr for Tag`, `parse_tag_part`
* `core/src/ops.rs`: `Display for AttributeSelectorStep / AttributeSelector`, `AttributeSelector::new`
* `core/src/dictionary/data_element.rs`: `DataDictionary::parse_tag`, `parse_selector`

Strings are their UTF-8 bytes (`Bytes`); a tag is a pair `(group, element)`.
Rust operations that can panic are modelled with an explicit `panic` outcome:
`str::split_at` / slicing at an index that is not a char boundary, and `expect` on a failed
`from_str_radix`. (The guard `ensure!(s.is_char_boundary(4), NumberSnafu)` in `parse_tag_part` is the
repair of defect #1 of DESIGN §7; without it `"abc\u{e9}abc".parse::<Tag>()` panics.)
Modelling steps, stated once: `s.starts_with(c)` / `ends_with(c)` / `find(c)` / `split(c)` for an
ASCII `c` are byte operations (exact for valid UTF-8); `num.chars().all(is_ascii_hexdigit)` is
`all` over the bytes (a non-ASCII char has only bytes ≥ 0x80, none of which is a hex digit); slices
taken at positions found by `find('[')` / `len()-1` after `ends_with(']')` are at ASCII bytes and
cannot panic.
-/
import DicomModel.Model.Util
import DicomModel.Model.Digits
namespace Dicom.TagText

abbrev Tag := Nat × Nat

/-- `ParseTagError` -/
inductive TagErr where
  | start | separator | end_ | length | number
deriving DecidableEq, Repr

inductive Outcome (α : Type) where
  | ok (a : α)
  | err (e : TagErr)
  | panic
deriving DecidableEq, Repr

def Outcome.bind {α β : Type} (x : Outcome α) (f : α → Outcome β) : Outcome β :=
  match x with
  | .ok a => f a
  | .err e => .err e
  | .panic => .panic

/-- UTF-8 continuation byte `10xxxxxx` -/
def isContinuation (b : Nat) : Bool := 0x80 ≤ b && b < 0xC0

/-- `str::is_char_boundary(i)`: 0 and `len` are boundaries, an index beyond `len` is not, otherwise
the byte at `i` must not be a continuation byte -/
def isCharBoundary (s : Bytes) (i : Nat) : Bool :=
  if i = 0 then true
  else match s[i]? with
    | some b => !isContinuation b
    | none => i == s.length

/-- `&s[i..]` — panics unless `i` is a char boundary -/
def sliceFrom (s : Bytes) (i : Nat) : Outcome Bytes :=
  if isCharBoundary s i then .ok (s.drop i) else .panic

/-- `u8/char::is_ascii_hexdigit` -/
def isHexDigit (b : Nat) : Bool :=
  (48 ≤ b && b ≤ 57) || (65 ≤ b && b ≤ 70) || (97 ≤ b && b ≤ 102)

def hexVal (b : Nat) : Option Nat :=
  if 48 ≤ b ∧ b ≤ 57 then some (b - 48)
  else if 65 ≤ b ∧ b ≤ 70 then some (b - 55)
  else if 97 ≤ b ∧ b ≤ 102 then some (b - 87)
  else none

/-- `u16::from_str_radix(num, 16)` on a 4-byte string of hex digits (`none`: the `Err` that the
code `expect`s never to see) -/
def fromHex4 : Bytes → Option Nat
  | [a, b, c, d] =>
    match hexVal a, hexVal b, hexVal c, hexVal d with
    | some a, some b, some c, some d => some (((a * 16 + b) * 16 + c) * 16 + d)
    | _, _, _, _ => none
  | _ => none

/-- `parse_tag_part` -/
def parseTagPart (s : Bytes) : Outcome (Nat × Bytes) :=
  if !isCharBoundary s 4 then .err .number
  else
    -- `s.split_at(4)`: would panic off a boundary; guarded by the line above
    let num := s.take 4
    let rest := s.drop 4
    if !num.all isHexDigit then .err .number
    else match fromHex4 num with
      | some n => .ok (n, rest)
      | none => .panic   -- `.expect("failed to parse tag part")`

/-- `impl FromStr for Tag` -/
def parseTag (s : Bytes) : Outcome Tag :=
  if s.length = 11 then
    -- (gggg,eeee)
    if s.head? ≠ some 0x28 then .err .start
    else (sliceFrom s 1).bind fun s1 =>
      (parseTagPart s1).bind fun (g, rest) =>
        if rest.head? ≠ some 0x2C then .err .separator
        else (sliceFrom rest 1).bind fun r1 =>
          (parseTagPart r1).bind fun (e, rest2) =>
            if rest2 ≠ [0x29] then .err .end_ else .ok (g, e)
  else if s.length = 9 then
    -- gggg,eeee
    (parseTagPart s).bind fun (g, rest) =>
      if rest.head? ≠ some 0x2C then .err .separator
      else (sliceFrom rest 1).bind fun r1 =>
        (parseTagPart r1).bind fun (e, _) => .ok (g, e)
  else if s.length = 8 then
    -- ggggeeee
    (parseTagPart s).bind fun (g, rest) =>
      (parseTagPart rest).bind fun (e, _) => .ok (g, e)
  else .err .length

/-! ### printing -/

def hexDigit (upper : Bool) (n : Nat) : Nat :=
  if n < 10 then 48 + n else if upper then 55 + n else 87 + n

/-- `{:04X}` / `{:04x}` of a 16-bit value -/
def hex4 (upper : Bool) (n : Nat) : Bytes :=
  [hexDigit upper (n / 4096 % 16), hexDigit upper (n / 256 % 16), hexDigit upper (n / 16 % 16),
   hexDigit upper (n % 16)]

/-- the three accepted layouts -/
inductive Form where
  | paren   -- (GGGG,EEEE)
  | comma   -- GGGG,EEEE
  | plain   -- GGGGEEEE
deriving DecidableEq, Repr

def tagForm (f : Form) (upper : Bool) (t : Tag) : Bytes :=
  match f with
  | .paren => 0x28 :: (hex4 upper t.1 ++ 0x2C :: (hex4 upper t.2 ++ [0x29]))
  | .comma => hex4 upper t.1 ++ 0x2C :: hex4 upper t.2
  | .plain => hex4 upper t.1 ++ hex4 upper t.2

/-- `impl Display for Tag`: `({:04X},{:04X})` -/
def printTag (t : Tag) : Bytes := tagForm .paren true t

/-! ### attribute selectors -/

/-- `AttributeSelectorStep` -/
inductive Step where
  | tag (t : Tag)
  | nested (t : Tag) (item : Nat)
deriving DecidableEq, Repr

/-- `AttributeSelector`: the invariant of the Rust type (non-empty, every step but the last is
`Nested`, the last is `Tag`) is built into the shape -/
structure Selector where
  path : List (Tag × Nat)
  leaf : Tag
deriving DecidableEq, Repr

def Selector.steps (s : Selector) : List Step :=
  s.path.map (fun p => Step.nested p.1 p.2) ++ [Step.tag s.leaf]

/-- `Display for AttributeSelectorStep` -/
def printStep : Step → Bytes
  | .tag t => printTag t
  | .nested t i => printTag t ++ 0x5B :: (Digits.toDec i ++ [0x5D])

/-- steps separated by `.` -/
def joinDots : List Bytes → Bytes
  | [] => []
  | [p] => p
  | p :: q :: rest => p ++ 0x2E :: joinDots (q :: rest)

/-- `Display for AttributeSelector` -/
def printSelector (s : Selector) : Bytes := joinDots (s.steps.map printStep)

/-- `str::split(c)` for an ASCII `c` (always at least one part) -/
def splitOn (c : Nat) : Bytes → List Bytes
  | [] => [[]]
  | b :: bs =>
    if b = c then [] :: splitOn c bs
    else match splitOn c bs with
      | p :: ps => (b :: p) :: ps
      | [] => [[b]]

/-- the optional leading `+` accepted by `u32::from_str` -/
def stripPlus : Bytes → Bytes
  | 0x2B :: r => r
  | s => s

/-- `str::parse::<u32>()`: an optional `+`, then one or more ASCII digits, value below 2^32 -/
def parseU32 (s : Bytes) : Option Nat :=
  if (stripPlus s).isEmpty || (stripPlus s).any (fun b => !Digits.isDigit b) then none
  else if (stripPlus s).foldl (fun acc b => acc * 10 + (b - 48)) 0 < 4294967296 then
    some ((stripPlus s).foldl (fun acc b => acc * 10 + (b - 48)) 0)
  else none

/-- `str::find(c)` for an ASCII `c`: byte index of the first occurrence -/
def findByte (c : Nat) : Bytes → Option Nat
  | [] => none
  | b :: bs => if b = c then some 0 else (findByte c bs).map (· + 1)

/-- `ParseSelectorErrorInner` -/
inductive SelErr where
  | missingItemDelimiter | parseKey | parseItemIndex | parseLeaf
deriving DecidableEq, Repr

inductive SelOutcome (α : Type) where
  | ok (a : α)
  | err (e : SelErr)
  | panic
deriving DecidableEq, Repr

/-- result of `DataDictionary::parse_tag` (`Option<Tag>`, or a panic inside `Tag::from_str`) -/
inductive KeyOutcome where
  | tag (t : Tag)
  | unknown
  | panic
deriving DecidableEq, Repr

/-- `DataDictionary::parse_tag`: `tag.parse().ok().or_else(|| self.by_name(tag).map(|e| e.tag()))`;
`byName` is the dictionary (keyword text ↦ tag of the entry) -/
def dictParseTag (byName : Bytes → Option Tag) (s : Bytes) : KeyOutcome :=
  match parseTag s with
  | .ok t => .tag t
  | .err _ => match byName s with
    | some t => .tag t
    | none => .unknown
  | .panic => .panic

/-- one `part` of the loop body of `parse_selector` -/
def parsePart (byName : Bytes → Option Tag) (part : Bytes) : SelOutcome Step :=
  if part.getLast? = some 0x5D then
    -- intermediate: `«key»[«item»]`
    match findByte 0x5B part with
    | none => .err .missingItemDelimiter
    | some i =>
      let tagPart := part.take i
      let itemPart := (part.drop (i + 1)).take (part.length - 1 - (i + 1))
      match dictParseTag byName tagPart with
      | .panic => .panic
      | .unknown => .err .parseKey
      | .tag t =>
        match parseU32 itemPart with
        | none => .err .parseItemIndex
        | some n => .ok (.nested t n)
  else
    match dictParseTag byName part with
    | .panic => .panic
    | .unknown => .err .parseKey
    | .tag t => .ok (.tag t)

/-- the `for part in selector_text.split('.')` loop: stops at the first failing part -/
def parseParts (byName : Bytes → Option Tag) : List Bytes → SelOutcome (List Step)
  | [] => .ok []
  | p :: ps =>
    match parsePart byName p with
    | .ok st =>
      match parseParts byName ps with
      | .ok sts => .ok (st :: sts)
      | .err e => .err e
      | .panic => .panic
    | .err e => .err e
    | .panic => .panic

/-- `AttributeSelector::new`: the last step must be a `Tag`; intermediate `Tag` steps become
`Nested { item: 0 }` -/
def Selector.new : List Step → Option Selector
  | [] => none
  | [.tag t] => some ⟨[], t⟩
  | [.nested _ _] => none
  | st :: rest =>
    match Selector.new rest with
    | none => none
    | some s =>
      match st with
      | .tag t => some ⟨(t, 0) :: s.path, s.leaf⟩
      | .nested t i => some ⟨(t, i) :: s.path, s.leaf⟩

/-- `DataDictionary::parse_selector` -/
def parseSelector (byName : Bytes → Option Tag) (text : Bytes) : SelOutcome Selector :=
  match parseParts byName (splitOn 0x2E text) with
  | .ok steps =>
    match Selector.new steps with
    | some s => .ok s
    | none => .err .parseLeaf
  | .err e => .err e
  | .panic => .panic

/-! ### specification of the tag syntax (independent of the parser's structure) -/

/-- value of four hex digit characters (upper or lower case, each), most significant first -/
def specHex4 (a b c d : Nat) : Option Nat :=
  match hexVal a, hexVal b, hexVal c, hexVal d with
  | some a, some b, some c, some d => some (4096 * a + 256 * b + 16 * c + d)
  | _, _, _, _ => none

def specPair (g e : Option Nat) : Option Tag :=
  match g, e with
  | some g, some e => some (g, e)
  | _, _ => none

/-- the tag a text denotes, if it is exactly one of `(GGGG,EEEE)`, `GGGG,EEEE`, `GGGGEEEE` with
hexadecimal digits of either case -/
def specTagOfText : Bytes → Option Tag
  | [p, a, b, c, d, q, e, f, g, h, r] =>
    if p = 0x28 ∧ q = 0x2C ∧ r = 0x29 then specPair (specHex4 a b c d) (specHex4 e f g h) else none
  | [a, b, c, d, q, e, f, g, h] =>
    if q = 0x2C then specPair (specHex4 a b c d) (specHex4 e f g h) else none
  | [a, b, c, d, e, f, g, h] => specPair (specHex4 a b c d) (specHex4 e f g h)
  | _ => none

/-! ### text as numbers (the generated dictionary carries keywords as `Nat`) -/

/-- big-endian base-256 value of a byte string -/
def natOfBytes (s : Bytes) : Nat := s.foldl (fun a b => a * 256 + b) 0

def bytesOfAux : Nat → Nat → Bytes → Bytes
  | 0, _, acc => acc
  | f + 1, n, acc => if n = 0 then acc else bytesOfAux f (n / 256) (n % 256 :: acc)

/-- inverse of `natOfBytes` for texts of up to 256 bytes without leading NUL -/
def bytesOf (n : Nat) : Bytes := bytesOfAux 256 n []

end Dicom.TagText
