/-
Model of the storage SCU tool's presentation-context selection and send loop
(`storescu/src/main.rs`: `check_presentation_contexts`, `into_ts`;
 `storescu/src/store_sync.rs` / `store_async.rs`: `inner`, `send_file`).

* Strings are lists of Unicode scalar values (`Char`).
* The transfer syntax registry is a parameter `Reg` (`TransferSyntaxRegistry.get`): which UIDs it
  knows, their canonical UID, and the two capability bits the tool asks for
  (`is_codec_free`, `can_decode_all`).  `Reg.ofTable` is the concrete shape of the real one
  (`trim_end_matches(whitespace | NUL)` then a map lookup keyed by the entry's own UID).
* `check fixed …`: `fixed = true` is the code with the abstract-syntax filter on the Implicit VR LE
  fallback (finding C33-fallback-other-sop-class), `fixed = false` the code without it.
-/
namespace Dicom.StoreScu

abbrev Uid := List Char

/-- Rust `char::is_whitespace` (Unicode `White_Space`). -/
def isWs (c : Char) : Bool :=
  let n := c.toNat
  (9 ≤ n && n ≤ 13) || n == 0x20 || n == 0x85 || n == 0xA0 || n == 0x1680 ||
  (0x2000 ≤ n && n ≤ 0x200A) || n == 0x2028 || n == 0x2029 || n == 0x202F || n == 0x205F ||
  n == 0x3000

/-- the closure `|c| c.is_whitespace() || c == '\0'` -/
def isPad (c : Char) : Bool := isWs c || c.toNat == 0

/-- `str::trim_end_matches(isPad)` -/
def trimUid (s : Uid) : Uid := (s.reverse.dropWhile isPad).reverse

/-- what the tool asks of a `TransferSyntax` -/
structure TsEntry where
  /-- `uid()` -/
  uid : Uid
  /-- `is_codec_free()` -/
  codecFree : Bool
  /-- `can_decode_all()` -/
  canDecodeAll : Bool
deriving DecidableEq, Repr

/-- `TransferSyntaxRegistry.get` -/
abbrev Reg := Uid → Option TsEntry

/-- the real registry's shape: trim, then look the UID up among the registered entries -/
def Reg.ofTable (t : List TsEntry) : Reg := fun u => t.find? (fun e => e.uid == trimUid u)

/-- `PresentationContextNegotiated` (all of them accepted: the client keeps only those) -/
structure Pc where
  id : Nat
  /-- `abstract_syntax` -/
  asx : Uid
  /-- `transfer_syntax`, as received -/
  ts : Uid
deriving DecidableEq, Repr

/-- `DicomFile` -/
structure FileInfo where
  /-- `sop_class_uid` -/
  sop : Uid
  /-- `file_transfer_syntax` -/
  ts : Uid
  /-- `sop_instance_uid` -/
  inst : Uid := []
deriving DecidableEq, Repr

inductive SelErr where
  | unsupportedFileTs
  | noPresentationContext
  | noNegotiatedTs
deriving DecidableEq, Repr

def evrle : Uid := "1.2.840.10008.1.2.1".toList
def ivrle : Uid := "1.2.840.10008.1.2".toList

/-- `ignore_sop_class || pc.abstract_syntax == file.sop_class_uid` -/
def classOk (ign : Bool) (sop : Uid) (pc : Pc) : Bool := ign || pc.asx == sop

/-- second search: same transfer syntax, or both ends free of codecs -/
def usable (reg : Reg) (fts : TsEntry) (pc : Pc) : Bool :=
  pc.ts == fts.uid ||
  (match reg pc.ts with
   | some t => fts.codecFree && t.codecFree
   | none => false)

/-- third search (transcoding): Explicit VR LE on a matching context, else Implicit VR LE —
on a matching context when `fixed`, on *any* context otherwise. -/
def fallback (fixed ign : Bool) (sop : Uid) (pcs : List Pc) : Option Pc :=
  match (pcs.filter (classOk ign sop)).find? (fun pc => pc.ts == evrle) with
  | some pc => some pc
  | none =>
    if fixed then (pcs.filter (classOk ign sop)).find? (fun pc => pc.ts == ivrle)
    else pcs.find? (fun pc => pc.ts == ivrle)

/-- the end of the function: look the chosen context's transfer syntax up -/
def finish (reg : Reg) (pc : Pc) : Except SelErr (Pc × Uid) :=
  match reg pc.ts with
  | none => .error .noNegotiatedTs
  | some t => .ok (pc, t.uid)

/-- `check_presentation_contexts` with the outcome `fb` of the third search given
(`fb` is only looked at where the Rust code runs that search). -/
def checkCore (reg : Reg) (f : FileInfo) (pcs : List Pc) (ign never : Bool) (fb : Option Pc) :
    Except SelErr (Pc × Uid) :=
  match reg f.ts with
  | none => .error .unsupportedFileTs
  | some fts =>
    match (pcs.filter (classOk ign f.sop)).find? (fun pc => pc.ts == fts.uid) with
    | some pc => .ok (pc, pc.ts)
    | none =>
      match pcs.find? (fun pc => classOk ign f.sop pc && usable reg fts pc) with
      | some pc => finish reg pc
      | none =>
        if never || !fts.canDecodeAll then .error .noPresentationContext
        else match fb with
          | some pc => finish reg pc
          | none => .error .noPresentationContext

/-- `check_presentation_contexts`: the context to use and the UID of the syntax to write in. -/
def check (fixed : Bool) (reg : Reg) (f : FileInfo) (pcs : List Pc) (ign never : Bool) :
    Except SelErr (Pc × Uid) :=
  checkCore reg f pcs ign never (fallback fixed ign f.sop pcs)

/-- `check_files`: the (abstract syntax, transfer syntax) pairs proposed, one presentation context
each (a set in the tool; here with repetitions, in file order). -/
def proposals (never : Bool) (files : List FileInfo) : List (Uid × Uid) :=
  files.flatMap fun f =>
    (f.sop, f.ts) :: (if never then [] else [(f.sop, evrle), (f.sop, ivrle)])

/-- What `send_file` does with a file: the context whose id labels every PDV, the syntax the data
set is written in (`write_dataset_with_ts(ts_selected)`), and `into_ts`'s decision to transcode
(`ts_selected.uid() != meta.transfer_syntax()`; `file_transfer_syntax` is the registry's UID for the
meta group's value, i.e. its trimmed form). -/
structure Plan where
  file : FileInfo
  pc : Pc
  ts : Uid
  transcode : Bool
deriving DecidableEq, Repr

def plan (fixed : Bool) (reg : Reg) (pcs : List Pc) (ign never : Bool) (f : FileInfo) :
    Except SelErr Plan :=
  match check fixed reg f pcs ign never with
  | .ok (pc, ts) => .ok ⟨f, pc, ts, ts != f.ts⟩
  | .error e => .error e

/-- `store_sync::inner`: files in order; a file without a context is skipped, or ends the run
(`abort` + `exit`) under `--fail-first`.  Result: the stores sent, and whether the run was aborted. -/
def session (fixed : Bool) (reg : Reg) (pcs : List Pc) (ign never failFirst : Bool) :
    List FileInfo → List Plan × Bool
  | [] => ([], false)
  | f :: fs =>
    match plan fixed reg pcs ign never f with
    | .ok p =>
      let r := session fixed reg pcs ign never failFirst fs
      (p :: r.1, r.2)
    | .error _ =>
      if failFirst then ([], true) else session fixed reg pcs ign never failFirst fs

/-- `store_async::inner` with one worker: `files.pop()` takes them from the end. -/
def sessionAsync1 (fixed : Bool) (reg : Reg) (pcs : List Pc) (ign never failFirst : Bool)
    (files : List FileInfo) : List Plan × Bool :=
  session fixed reg pcs ign never failFirst files.reverse

end Dicom.StoreScu
