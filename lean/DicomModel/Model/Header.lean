/-
Model of the element / item header codecs of dicom-rs:
  encoding/src/encode/{implicit_le,explicit_le,explicit_be}.rs  (encode_element_header, encode_item_header,
      encode_item_delimiter, encode_sequence_delimiter, encode_tag)
  encoding/src/decode/{implicit_le,explicit_le,explicit_be,adaptive_le}.rs (decode_header, decode_item_header, decode_tag)
  core/src/header.rs  (VR::from_binary, VR::to_string/to_bytes, SequenceItemHeader::new, Length)

The VR tables and the lists of VRs that take the 16-bit length form are NOT written here: they are
regenerated from the source on every check (`Gen/VrTables.lean`, translators/vr_tables.py); the
functions below look them up, so a change of a match arm in the code changes this model.

=== API (namespace `Dicom`) ===
  VR                       34 constructors (Model/VR.lean);  `VR.all`
  VR.toBytes? v            `VR::to_bytes` : Option (Nat × Nat)   (none = the Rust code would panic)
  VR.toBytes v             same, totalised (`toBytes?_eq` in Props/C03 shows it never is `none`)
  VR.fromBinary a b        `VR::from_binary([a,b])` : Option VR
  VR.ps35Short             the 21 VRs of PS3.5 §7.1.2 with a 16-bit length (specification constant)
  Tag                      structure (group, elem : Nat), both u16 in Rust;  `Tag.item/itemDelim/seqDelim`
  undefinedLen             0xFFFFFFFF (`Length::UNDEFINED`); lengths are plain `Nat` (`u32` in Rust)
  ElemHeader               (tag, vr, len)                     = `DataElementHeader`
  Syntax                   implicitLE | explicitLE | explicitBE ; `.bigEndian`, `.explicit`
  encodeTag be tag         4 bytes
  encodeHeader ts h        : Except EncErr (Bytes × Nat)   bytes written and the byte count the encoder *reports*
  decodeHeader ts dict bs  : Option (ElemHeader × Nat × Bytes)   header, bytes_read as reported, rest; none = EOF error
                             `dict : Tag → Option VR` is the data dictionary (`by_tag(tag).vr().relaxed()`), used by Implicit VR
  decodeExplicitWith short be bs   explicit-VR header decoder over a given short-VR list (`Gen.adaptiveShort`
                             gives the explicit-locked path of adaptive_le.rs — for C08)
  resolveImplicitVr dict tag        the VR chosen in Implicit VR (OW special cases, dictionary, else UN)
  ItemHeader               item len | itemDelim | seqDelim     = `SequenceItemHeader`
  encodeItemHeader be len / encodeItemDelimiter be / encodeSeqDelimiter be     8 bytes each
  decodeItemHeader be bs   : Except ItemErr (ItemHeader × Bytes)
  decodeTag be bs          : Option (Tag × Bytes)
All integer fields are `Nat`; Rust's `u16`/`u32` types are the side conditions `Tag.Valid`, `len < 2^32`.
-/
import DicomModel.Model.Bytes
import DicomModel.Model.VR
import DicomModel.Gen.VrTables
namespace Dicom

/-! ### VR codes -/

def VR.all : List VR := Gen.vrAll

/-- `VR::to_string(self).as_bytes()` by lookup in the generated table (`none`: no arm) -/
def VR.toStringBytes? (v : VR) : Option (List Nat) := Gen.vrToString.lookup v

/-- `VR::to_bytes`: `[bytes[0], bytes[1]]` — indexing panics when the string is shorter -/
def VR.toBytes? (v : VR) : Option (Nat × Nat) :=
  match v.toStringBytes? with
  | some (a :: b :: _) => some (a, b)
  | _ => none

def VR.toBytes (v : VR) : Nat × Nat := (v.toBytes?).getD (0, 0)

/-- `std::str::from_utf8` on exactly two bytes succeeds iff both are ASCII or they form one
2-byte sequence -/
def utf8Ok2 (a b : Nat) : Bool :=
  (a < 128 && b < 128) || (0xC2 ≤ a && a ≤ 0xDF && 0x80 ≤ b && b ≤ 0xBF)

/-- `VR::from_binary(chars)`: `from_utf8(chars).ok().and_then(|s| VR::from_str(s).ok())`;
`from_str` is a `match` on string literals = first arm whose bytes are equal -/
def VR.fromBinary (a b : Nat) : Option VR :=
  if utf8Ok2 a b then Gen.vrFromStr.lookup [a, b] else none

/-- PS3.5 §7.1.2: VRs whose explicit-VR header has a 16-bit length field (specification) -/
def VR.ps35Short : List VR :=
  [.AE, .AS, .AT, .CS, .DA, .DS, .DT, .FL, .FD, .IS, .LO, .LT, .PN, .SH, .SL, .SS, .ST, .TM, .UI, .UL, .US]

/-! ### tags, lengths, headers -/

structure Tag where
  group : Nat
  elem : Nat
deriving DecidableEq, Repr, Inhabited

/-- both parts are `u16` -/
def Tag.Valid (t : Tag) : Prop := t.group < 65536 ∧ t.elem < 65536
instance (t : Tag) : Decidable t.Valid := by unfold Tag.Valid; infer_instance

def Tag.item : Tag := ⟨0xFFFE, 0xE000⟩
def Tag.itemDelim : Tag := ⟨0xFFFE, 0xE00D⟩
def Tag.seqDelim : Tag := ⟨0xFFFE, 0xE0DD⟩

/-- `Length::UNDEFINED` -/
def undefinedLen : Nat := 0xFFFFFFFF

structure ElemHeader where
  tag : Tag
  vr : VR
  len : Nat
deriving DecidableEq, Repr, Inhabited

inductive Syntax where
  | implicitLE | explicitLE | explicitBE
deriving DecidableEq, Repr, Inhabited

def Syntax.bigEndian : Syntax → Bool
  | .explicitBE => true
  | _ => false

def Syntax.explicit : Syntax → Bool
  | .implicitLE => false
  | _ => true

/-- the encoder's own short list (which file it comes from) -/
def Syntax.encShort : Syntax → List VR
  | .implicitLE => []
  | .explicitLE => Gen.encLeShort
  | .explicitBE => Gen.encBeShort

/-- the decoder's own short list -/
def Syntax.decShort : Syntax → List VR
  | .implicitLE => []
  | .explicitLE => Gen.decLeShort
  | .explicitBE => Gen.decBeShort

/-! ### encoding -/

/-- `encode_tag` -/
def encodeTag (be : Bool) (t : Tag) : Bytes := enc16 be t.group ++ enc16 be t.elem

inductive EncErr where
  /-- `WriteHeaderTooLong { length }` -/
  | headerTooLong (len : Nat)
deriving DecidableEq, Repr

/-- explicit VR `encode_element_header` over a given short list: bytes and reported count.
`vrb` are the two VR bytes. -/
def encodeExplicitWith (short : List VR) (be : Bool) (h : ElemHeader) : Except EncErr (Bytes × Nat) :=
  let vrb := h.vr.toBytes
  if short.contains h.vr then
    if h.len > 0xFFFF then .error (.headerTooLong h.len)
    else .ok (encodeTag be h.tag ++ [vrb.1, vrb.2] ++ enc16 be h.len, 8)
  else
    .ok (encodeTag be h.tag ++ [vrb.1, vrb.2] ++ [0, 0] ++ enc32 be h.len, 12)

/-- `Encode::encode_element_header` for the three encoders: written bytes and the returned count -/
def encodeHeader (ts : Syntax) (h : ElemHeader) : Except EncErr (Bytes × Nat) :=
  match ts with
  | .implicitLE => .ok (encodeTag false h.tag ++ le32 h.len, 8)
  | .explicitLE => encodeExplicitWith Gen.encLeShort false h
  | .explicitBE => encodeExplicitWith Gen.encBeShort true h

/-- `encode_item_header(len)` -/
def encodeItemHeader (be : Bool) (len : Nat) : Bytes := encodeTag be Tag.item ++ enc32 be len
/-- `encode_item_delimiter` -/
def encodeItemDelimiter (be : Bool) : Bytes := encodeTag be Tag.itemDelim ++ [0, 0, 0, 0]
/-- `encode_sequence_delimiter` -/
def encodeSeqDelimiter (be : Bool) : Bytes := encodeTag be Tag.seqDelim ++ [0, 0, 0, 0]

/-! ### decoding -/

/-- `decode_tag`; `none` = `UnexpectedEof` -/
def decodeTag (be : Bool) (bs : Bytes) : Option (Tag × Bytes) :=
  match rd16 be bs with
  | some (g, r) => match rd16 be r with
    | some (e, r') => some (⟨g, e⟩, r')
    | none => none
  | none => none

/-- VR resolution of the Implicit VR decoder (also `resolve_vr` of adaptive_le.rs) -/
def resolveImplicitVr (dict : Tag → Option VR) (t : Tag) : VR :=
  if t = ⟨0x7FE0, 0x0010⟩ ∨ (t.group / 256 = 0x60 ∧ t.elem = 0x3000) then .OW
  else (dict t).getD .UN

/-- explicit VR `decode_header` over a given short list.
Group 0xFFFE: tag + 32-bit length, VR reported as UN, 8 bytes. Unknown VR code ↦ UN. -/
def decodeExplicitWith (short : List VR) (be : Bool) (bs : Bytes) : Option (ElemHeader × Nat × Bytes) :=
  match decodeTag be bs with
  | none => none
  | some (t, r) =>
    if t.group = 0xFFFE then
      match rd32 be r with
      | some (len, r') => some (⟨t, .UN, len⟩, 8, r')
      | none => none
    else match r with
      | a :: b :: r1 =>
        let vr := (VR.fromBinary a b).getD .UN
        if short.contains vr then
          match rd16 be r1 with
          | some (len, r') => some (⟨t, vr, len⟩, 8, r')
          | none => none
        else match r1 with
          | _ :: _ :: r2 =>
            match rd32 be r2 with
            | some (len, r') => some (⟨t, vr, len⟩, 12, r')
            | none => none
          | _ => none
      | _ => none

/-- `Decode::decode_header` for the three decoders: header, reported `bytes_read`, rest of input -/
def decodeHeader (ts : Syntax) (dict : Tag → Option VR) (bs : Bytes) : Option (ElemHeader × Nat × Bytes) :=
  match ts with
  | .implicitLE =>
    match decodeTag false bs with
    | none => none
    | some (t, r) =>
      match rdLe32 r with
      | some (len, r') => some (⟨t, resolveImplicitVr dict t, len⟩, 8, r')
      | none => none
  | .explicitLE => decodeExplicitWith Gen.decLeShort false bs
  | .explicitBE => decodeExplicitWith Gen.decBeShort true bs

inductive ItemHeader where
  | item (len : Nat)
  | itemDelim
  | seqDelim
deriving DecidableEq, Repr, Inhabited

inductive ItemErr where
  | eof
  /-- `UnexpectedTag` -/
  | unexpectedTag (t : Tag)
  /-- `UnexpectedDelimiterLength` -/
  | delimiterLength (len : Nat)
deriving DecidableEq, Repr

/-- `SequenceItemHeader::new(tag, len)` -/
def ItemHeader.new (t : Tag) (len : Nat) : Except ItemErr ItemHeader :=
  if t = Tag.item then .ok (.item len)
  else if t = Tag.itemDelim then (if len ≠ 0 then .error (.delimiterLength len) else .ok .itemDelim)
  else if t = Tag.seqDelim then .ok .seqDelim
  else .error (.unexpectedTag t)

def ItemHeader.tag : ItemHeader → Tag
  | .item _ => Tag.item
  | .itemDelim => Tag.itemDelim
  | .seqDelim => Tag.seqDelim

def ItemHeader.len : ItemHeader → Nat
  | .item l => l
  | _ => 0

/-- `decode_item_header` (identical in the three decoders up to byte order) -/
def decodeItemHeader (be : Bool) (bs : Bytes) : Except ItemErr (ItemHeader × Bytes) :=
  match decodeTag be bs with
  | none => .error .eof
  | some (t, r) =>
    match rd32 be r with
    | none => .error .eof
    | some (len, r') =>
      match ItemHeader.new t len with
      | .ok h => .ok (h, r')
      | .error e => .error e

end Dicom
