/-
The value representations of `core/src/header.rs` (`pub enum VR`), declaration order.
Kept separate from `Model/Header.lean` so that the generated tables (`Gen/VrTables.lean`)
can refer to the constructors.
-/
namespace Dicom

inductive VR where
  | AE | AS | AT | CS | DA | DS | DT | FL | FD | IS | LO | LT | OB | OD | OF | OL | OV | OW
  | PN | SH | SL | SQ | SS | ST | SV | TM | UC | UI | UL | UN | UR | US | UT | UV
deriving DecidableEq, Repr, Inhabited

end Dicom
