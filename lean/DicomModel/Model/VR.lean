/-
The value representations of `core/src/header.rs` (`pub enum VR`), declaration order.
Kept separate from `Model/Header.lean` so that the generated tables (`Gen/VrTables.lean`)
can refer to the constructors.
-/
namespace Dicom

inductive VR where
  | AE | AS | AT | CS | DA | DS | DT | FL | FD | IS | LO | LT | OB | OD | OF | OL | OV | OW
  | PN | SH | SL | SQ | SS | ST | SV | TM | UC | UI | UL | UN | UR | US | UT | UV
deriving DecidableEq, Repr, Inhabited

/-- the constructor name (= Rust `Debug` of the variant); used by the line protocol only -/
def VR.name : VR → String
  | .AE => "AE" | .AS => "AS" | .AT => "AT" | .CS => "CS" | .DA => "DA" | .DS => "DS" | .DT => "DT"
  | .FL => "FL" | .FD => "FD" | .IS => "IS" | .LO => "LO" | .LT => "LT" | .OB => "OB" | .OD => "OD"
  | .OF => "OF" | .OL => "OL" | .OV => "OV" | .OW => "OW" | .PN => "PN" | .SH => "SH" | .SL => "SL"
  | .SQ => "SQ" | .SS => "SS" | .ST => "ST" | .SV => "SV" | .TM => "TM" | .UC => "UC" | .UI => "UI"
  | .UL => "UL" | .UN => "UN" | .UR => "UR" | .US => "US" | .UT => "UT" | .UV => "UV"

/-- all constructors, hand-written (the generated `Gen.vrAll` is compared with it in Props/C03) -/
def VR.ctors : List VR :=
  [.AE, .AS, .AT, .CS, .DA, .DS, .DT, .FL, .FD, .IS, .LO, .LT, .OB, .OD, .OF, .OL, .OV, .OW,
   .PN, .SH, .SL, .SQ, .SS, .ST, .SV, .TM, .UC, .UI, .UL, .UN, .UR, .US, .UT, .UV]

def VR.ofName? (s : String) : Option VR := VR.ctors.find? fun v => v.name == s

end Dicom
