/-
Model of `transfer-syntax-registry/src/adapters/rle_lossless.rs` (RLE Lossless, PS3.5 Annex G):
`read_rle_header`, `PackBitsReader::new`, and the segment placement loops of
`RleLosslessAdapter::decode` / `decode_frame` — with the repaired start offset
(segment `sample*bps + k` holds byte `bps-1-k` of the sample, i.e. most significant first;
output is little-endian, pixel-interleaved; defects #10/#11 of DESIGN §7).

Spec side (independent of the decoder): `Run` lists (literal / replicate / no-op), their
serialisation to PackBits bytes, and a reference RLE *encoder* (`encodeFrame`, `rleEncode`)
used by the correspondence pipeline to produce the inputs of the real decoder.
-/
import DicomModel.Model.Bytes
namespace Dicom.Rle

/-- result of a Rust function that may return `Err` or panic -/
inductive Outcome (α : Type) where
  | ok (a : α)
  | err
  | panic
deriving DecidableEq, Repr

def Outcome.map {α β : Type} (f : α → β) : Outcome α → Outcome β
  | .ok a => .ok (f a)
  | .err => .err
  | .panic => .panic

/-! ## PackBits (`PackBitsReader::new` over a whole segment) -/

/-- `PackBitsReader::new(Cursor(segment), segment.len())`: the decoded buffer, or `none` for the
`UnexpectedEof` of `read_exact` (a replicate header without its data byte).
Header `h` as `i8`: `0..=127` copies up to `h+1` literal bytes (`io::copy` of a `take`: a truncated
literal copies what is left, no error), `-127..=-1` (bytes 129..=255) repeats the next byte
`1-h = 257-byte` times, `-128` (byte 128) does nothing. -/
def unpack (bs : Bytes) : Option Bytes :=
  match bs with
  | [] => some []
  | h :: rest =>
    if h < 128 then
      match unpack (rest.drop (h + 1)) with
      | some r => some (rest.take (h + 1) ++ r)
      | none => none
    else if h = 128 then unpack rest
    else
      match rest with
      | [] => none
      | d :: rest' =>
        match unpack rest' with
        | some r => some (List.replicate (257 - h) d ++ r)
        | none => none
termination_by bs.length
decreasing_by all_goals (simp; try omega)

/-! ## Header -/

/-- `LittleEndian::read_u32_into`: `n` little-endian `u32`s from the front of `bs` -/
def rdLe32s : Nat → Bytes → Option (List Nat)
  | 0, _ => some []
  | n + 1, bs =>
    match rdLe32 bs with
    | some (v, r) =>
      match rdLe32s n r with
      | some vs => some (v :: vs)
      | none => none
    | none => none

/-- `read_rle_header`: panics on `fragment[0..4]` of a short fragment and on
`fragment[4..4*(n+1)]` (`n+1` in wrapping `u32` arithmetic) beyond the fragment. -/
def readRleHeader (frag : Bytes) : Outcome (List Nat) :=
  match rdLe32 frag with
  | none => .panic
  | some (n, _) =>
    let hi := 4 * ((n + 1) % 4294967296)
    if hi < 4 ∨ frag.length < hi then .panic
    else
      match rdLe32s n (frag.drop 4) with
      | some offs => .ok offs
      | none => .panic

/-! ## Placement -/

structure Params where
  rows : Nat
  cols : Nat
  spp : Nat
  bits : Nat
deriving Repr

def Params.bps (P : Params) : Nat := P.bits / 8
/-- `frame_size = bytes_per_sample * cols * rows * samples_per_pixel` -/
def Params.frameSize (P : Params) : Nat := P.bps * P.cols * P.rows * P.spp
def Params.step (P : Params) : Nat := P.bps * P.spp

/-- `for (k, idx) in (pos..end).step_by(step).enumerate() { dst[idx] = src[k] }`
(panics when `src` is exhausted first, or `idx` is outside `dst`) -/
def scatter (step end_ : Nat) : Nat → Bytes → Bytes → Outcome Bytes
  | pos, [], dst => if end_ ≤ pos then .ok dst else .panic
  | pos, x :: xs, dst =>
    if end_ ≤ pos then .ok dst
    else if pos < dst.length then scatter step end_ (pos + step) xs (dst.set pos x)
    else .panic

/-- body of the two inner loops for one `(sample_number, byte_offset)`:
slice the segment out of the fragment, PackBits-decode it, keep `rows*cols` bytes, scatter them.
`base` = `base_offset + frame_start`, the frame occupies `dst[base .. base+frame_size]`. -/
def placeSegment (P : Params) (frag : Bytes) (offsets : List Nat) (base : Nat) (dst : Bytes)
    (sn bo : Nat) : Outcome Bytes :=
  let ii := sn * P.bps + bo
  match offsets[ii]?, offsets[ii + 1]? with
  | some a, some b =>
    if b < a ∨ frag.length < b then .panic
    else
      match unpack ((frag.drop a).take (b - a)) with
      | none => .err
      | some buf =>
        let decoded := buf.take (P.rows * P.cols)
        let start := sn * P.bps + (P.bps - 1 - bo)
        scatter P.step (base + P.frameSize) (base + start) decoded dst
  | _, _ => .panic

/-- `for sample_number in 0..spp { for byte_offset in (0..bps).rev() {…} }` as the list of pairs -/
def segOrder (P : Params) : List (Nat × Nat) :=
  (List.range P.spp).flatMap fun sn => (List.range P.bps).reverse.map fun bo => (sn, bo)

def placeAll (P : Params) (frag : Bytes) (offsets : List Nat) (base : Nat) :
    List (Nat × Nat) → Bytes → Outcome Bytes
  | [], dst => .ok dst
  | (sn, bo) :: rest, dst =>
    match placeSegment P frag offsets base dst sn bo with
    | .ok dst' => placeAll P frag offsets base rest dst'
    | .err => .err
    | .panic => .panic

/-- one fragment decoded into `dst[base .. base+frame_size]` -/
def decodeFragmentInto (P : Params) (frag : Bytes) (base : Nat) (dst : Bytes) : Outcome Bytes :=
  match readRleHeader frag with
  | .ok offs => placeAll P frag (offs ++ [frag.length % 4294967296]) base (segOrder P) dst
  | .err => .err
  | .panic => .panic

/-- `RleLosslessAdapter::decode_frame(src, frame, dst)`; `frags` = the fragments after the
offset table, `dst0` = the contents of `dst` before the call (kept in front). -/
def decodeFrame (P : Params) (frags : List Bytes) (frame : Nat) (dst0 : Bytes) : Outcome Bytes :=
  if P.bits ≠ 8 ∧ P.bits ≠ 16 then .err
  else
    match frags[frame]? with
    | none => .err
    | some frag =>
      decodeFragmentInto P frag dst0.length (dst0 ++ List.replicate P.frameSize 0)

def decodeFrames (P : Params) (base0 : Nat) : Nat → List Bytes → Bytes → Outcome Bytes
  | _, [], dst => .ok dst
  | i, frag :: rest, dst =>
    match decodeFragmentInto P frag (base0 + i * P.frameSize) dst with
    | .ok dst' => decodeFrames P base0 (i + 1) rest dst'
    | .err => .err
    | .panic => .panic

/-- `RleLosslessAdapter::decode(src, dst)` -/
def decodeAll (P : Params) (frags : List Bytes) (dst0 : Bytes) : Outcome Bytes :=
  if P.bits ≠ 8 ∧ P.bits ≠ 16 then .err
  else decodeFrames P dst0.length 0 frags (dst0 ++ List.replicate (P.frameSize * frags.length) 0)

/-! ## Specification side: runs, reference encoder, expected output -/

inductive Run where
  | lit (bs : Bytes)
  | rep (n : Nat) (b : Nat)
  | noop
deriving DecidableEq, Repr

/-- a literal run carries 1..128 bytes, a replicate run 2..128 copies -/
def Run.Valid : Run → Prop
  | .lit bs => 1 ≤ bs.length ∧ bs.length ≤ 128
  | .rep n _ => 2 ≤ n ∧ n ≤ 128
  | .noop => True

instance : (r : Run) → Decidable r.Valid
  | .lit _ => by unfold Run.Valid; exact inferInstance
  | .rep _ _ => by unfold Run.Valid; exact inferInstance
  | .noop => by unfold Run.Valid; exact inferInstance

def Run.bytes : Run → Bytes
  | .lit bs => (bs.length - 1) :: bs
  | .rep n b => [257 - n, b]
  | .noop => [128]

def Run.expand : Run → Bytes
  | .lit bs => bs
  | .rep n b => List.replicate n b
  | .noop => []

def serialise (runs : List Run) : Bytes := runs.flatMap Run.bytes
def expand (runs : List Run) : Bytes := runs.flatMap Run.expand

/-- Annex G.3.1: a segment of odd length is padded with one zero byte (`pad = true`) -/
def padEven (pad : Bool) (seg : Bytes) : Bytes :=
  if pad ∧ seg.length % 2 = 1 then seg ++ [0] else seg

/-- offsets of the segments: 64, 64+|s0|, … -/
def segOffsets : Nat → List Bytes → List Nat
  | _, [] => []
  | off, s :: rest => off :: segOffsets (off + s.length) rest

/-- Annex G.5: 64-byte header = number of segments, 15 offsets (unused ones 0), then the segments -/
def encodeFrame (segs : List Bytes) : Bytes :=
  let offs := segOffsets 64 segs
  le32 segs.length ++ (offs ++ List.replicate (15 - segs.length) 0).flatMap le32 ++ segs.flatten

/-- byte `b` (0 = least significant) of a sample value -/
def byteOf (v b : Nat) : Nat := v / 256 ^ b % 256

/-- Annex G.2: the byte plane of segment `ii` of a frame given as pixel-interleaved sample
values: sample `ii / bps`, most significant byte first -/
def plane (spp bps : Nat) (frame : List Nat) (ii : Nat) : Bytes :=
  (List.range (frame.length / spp)).map fun p =>
    byteOf (frame.getD (p * spp + ii / bps) 0) (bps - 1 - ii % bps)

/-- expected output: every sample as `bps` little-endian bytes, in pixel-interleaved order -/
def leBytes (bps : Nat) (v : Nat) : Bytes := (List.range bps).map (byteOf v)
def leInterleaved (bps : Nat) (frame : List Nat) : Bytes := frame.flatMap (leBytes bps)

/-! ### Run chooser: turns a stream of arbitrary choice bytes into a valid run list for a plane -/

/-- length of the maximal prefix of bytes equal to `b` -/
def sameRun (b : Nat) : Bytes → Nat
  | [] => 0
  | x :: xs => if x = b then sameRun b xs + 1 else 0

/-- fallback when the choices are used up: literal chunks of at most 128 bytes -/
def litChunks (bs : Bytes) : List Run :=
  match bs with
  | [] => []
  | b :: rest => Run.lit ((b :: rest).take 128) :: litChunks ((b :: rest).drop 128)
termination_by bs.length
decreasing_by simp; omega

/-- two choice bytes per run: kind `c0 % 8` (0: no-op, 1–3: literal, 4–7: replicate),
wanted length from `c1`; lengths are clipped to what the plane allows. -/
def chooseRuns : List Nat → Bytes → List Run
  | [], plane => litChunks plane
  | [_], plane => litChunks plane
  | c0 :: c1 :: cs, plane =>
    if c0 % 8 = 0 then Run.noop :: chooseRuns cs plane
    else
      match plane with
      | [] => []
      | b :: rest =>
        if c0 % 8 < 4 then
          let n := c1 % 128 + 1
          Run.lit ((b :: rest).take n) :: chooseRuns cs ((b :: rest).drop n)
        else
          let n := min (c1 % 127 + 2) (sameRun b rest + 1)
          if 2 ≤ n then Run.rep n b :: chooseRuns cs ((b :: rest).drop n)
          else Run.lit [b] :: chooseRuns cs rest

/-- split the choice stream evenly over `n` consumers -/
def splitChoices (n : Nat) (cs : List Nat) : List (List Nat) :=
  (List.range n).map fun i => (cs.drop (i * (cs.length / n))).take (cs.length / n)

/-- the runs chosen for each of the `spp*bps` planes of a frame -/
def frameRuns (spp bps : Nat) (frame : List Nat) (choices : List Nat) : List (List Run) :=
  (List.range (spp * bps)).map fun ii =>
    chooseRuns ((splitChoices (spp * bps) choices).getD ii []) (plane spp bps frame ii)

/-- reference encoder of one frame from explicit runs per segment -/
def encodeFrameRuns (pad : Bool) (runs : List (List Run)) : Bytes :=
  encodeFrame (runs.map fun r => padEven pad (serialise r))

/-- the reference encoder of the pipeline: one fragment per frame -/
def rleEncode (spp bps : Nat) (pad : Bool) (frames : List (List Nat)) (choices : List Nat) :
    List Bytes :=
  (List.range frames.length).map fun f =>
    encodeFrameRuns pad
      (frameRuns spp bps (frames.getD f []) ((splitChoices frames.length choices).getD f []))

end Dicom.Rle
