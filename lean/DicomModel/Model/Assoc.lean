/-
Model of the association acceptor's request processing in `ul/src/association/server.rs`:
`ServerAssociationOptions::{with_abstract_syntax, with_transfer_syntax, max_pdu_length,
process_a_association_rq, choose_ts}`, the free functions `is_supported` / `choose_supported`,
the access-control variants `AcceptAny` / `AcceptCalledAeTitle`, and `uid.rs::trim_uid`.

Strings are `List Char`. The transfer syntax registry is a parameter: the list of UIDs whose
registry entry is not `Codec::Dataset(None)` (dumped from the real registry on every run); the
registry's key normalisation (`trim_end_matches(whitespace or NUL)`) is modelled here.
The user's `AccessControl` and `Negotiation` implementations are function parameters.
-/
import DicomModel.Model.Util
namespace Dicom.Assoc

abbrev Str := List Char

/-! ### constants of `ul/src/pdu/mod.rs` -/
def PDU_HEADER_SIZE : Nat := 6
def DEFAULT_MAX_PDU : Nat := 32768 - 6
def MINIMUM_PDU_SIZE : Nat := 1024 - 6
/-- `(u32::MAX & !1) - PDU_HEADER_SIZE` -/
def MAXIMUM_PDU_SIZE : Nat := 4294967294 - 6
def IMPLICIT_VR_LE : Str := "1.2.840.10008.1.2".toList
def DEFAULT_APP_CONTEXT : Str := "1.2.840.10008.3.1.1.1".toList

/-! ### UID normalisation -/

/-- `char::is_whitespace` (Unicode `White_Space`) -/
def isWs (c : Char) : Bool :=
  let n := c.toNat
  (9 ≤ n && n ≤ 13) || n == 0x20 || n == 0x85 || n == 0xA0 || n == 0x1680 ||
  (0x2000 ≤ n && n ≤ 0x200A) || n == 0x2028 || n == 0x2029 || n == 0x202F || n == 0x205F ||
  n == 0x3000

def isWsOrNul (c : Char) : Bool := isWs c || c == '\x00'

/-- `s.trim_end_matches(|c| c.is_whitespace() || c == '\0')` -/
def trimEndWsNul (s : Str) : Str := (s.reverse.dropWhile isWsOrNul).reverse

/-- `uid.rs::trim_uid`: only a UID that *ends with NUL* is trimmed. -/
def trimUid (s : Str) : Str :=
  if s.getLast? = some '\x00' then trimEndWsNul s else s

/-- `TransferSyntaxRegistryImpl::get` followed by `!ts.is_unsupported()`:
`reg` is the list of UIDs of the registry entries that are not `Codec::Dataset(None)`. -/
def isSupported (reg : List Str) (ts : Str) : Bool := reg.contains (trimEndWsNul ts)

/-- `choose_supported` -/
def chooseSupported (reg : List Str) (tss : List Str) : Option Str := tss.find? (isSupported reg)

/-! ### PDU data -/

inductive PcReason
  | acceptance | userRejection | noReason | abstractSyntaxNotSupported | transferSyntaxesNotSupported
deriving DecidableEq, Repr

def PcReason.code : PcReason → Nat
  | .acceptance => 0 | .userRejection => 1 | .noReason => 2
  | .abstractSyntaxNotSupported => 3 | .transferSyntaxesNotSupported => 4

structure Proposed where
  id : Nat
  abstractSyntax : Str
  transferSyntaxes : List Str
deriving DecidableEq, Repr

structure PcResult where
  id : Nat
  reason : PcReason
  transferSyntax : Str
deriving DecidableEq, Repr

structure Negotiated where
  id : Nat
  reason : PcReason
  transferSyntax : Str
  abstractSyntax : Str
deriving DecidableEq, Repr

structure UserIdentity where
  positiveResponse : Bool
  kind : Nat
  primary : Bytes
  secondary : Bytes
deriving DecidableEq, Repr

inductive UserVar
  | unknown (t : Nat) (data : Bytes)
  | maxLength (n : Nat)
  | implClassUid (s : Str)
  | implVersion (s : Str)
  | extNeg (uid : Str) (data : Bytes)
  | role (uid : Str) (scu scp : Bool)
  | identity (u : UserIdentity)
deriving DecidableEq, Repr

/-- `AssociationRJServiceUserReason` -/
inductive SuReason
  | noReasonGiven | appContextNotSupported | callingNotRecognized | calledNotRecognized
  | reserved (c : Nat)
deriving DecidableEq, Repr

/-- `AssociationRJSource` with the reasons of each source -/
inductive RjSource
  | serviceUser (r : SuReason)
  | providerAcseNoReason
  | providerAcseProtocolVersion
  | providerPresentation (c : Nat)
deriving DecidableEq, Repr

/-- (source, reason) codes on the wire, PS3.8 table 9-21 -/
def RjSource.codes : RjSource → Nat × Nat
  | .serviceUser .noReasonGiven => (1, 1)
  | .serviceUser .appContextNotSupported => (1, 2)
  | .serviceUser .callingNotRecognized => (1, 3)
  | .serviceUser .calledNotRecognized => (1, 7)
  | .serviceUser (.reserved c) => (1, c)
  | .providerAcseNoReason => (2, 1)
  | .providerAcseProtocolVersion => (2, 2)
  | .providerPresentation c => (3, c)

structure Request where
  protocolVersion : Nat
  calling : Str
  called : Str
  appContext : Str
  contexts : List Proposed
  userVars : List UserVar
deriving DecidableEq, Repr

structure Accept where
  protocolVersion : Nat
  calling : Str
  called : Str
  appContext : Str
  contexts : List PcResult
  userVars : List UserVar
deriving DecidableEq, Repr

/-- `AbortRQSource` as far as the acceptor produces it -/
inductive AbortSrc
  | serviceUser | providerUnexpectedPdu | providerUnrecognizedPdu | providerReasonNotSpecified
  | other (s r : Nat)
deriving DecidableEq, Repr

/-- `Pdu`; P-DATA carries only what the association layer looks at (nothing). -/
inductive Pdu
  | unknown (t : Nat)
  | assocRQ (rq : Request)
  | assocAC (ac : Accept)
  | assocRJ (permanent : Bool) (source : RjSource)
  | pdata
  | releaseRQ | releaseRP
  | abortRQ (src : AbortSrc)
deriving DecidableEq, Repr

/-- error classes of `association::Error` produced by request processing -/
inductive ErrKind
  | rejected | aborted | unexpectedPdu | unknownPdu | missingAbstractSyntax
deriving DecidableEq, Repr

/-! ### acceptor configuration -/

/-- `ServerAssociationOptions` (fields that request processing reads) -/
structure Config where
  aeTitle : Str := "THIS-SCP".toList
  appContext : Str := DEFAULT_APP_CONTEXT
  abstractSyntaxes : List Str := []
  transferSyntaxes : List Str := []
  protocolVersion : Nat := 1
  maxPdu : Nat := DEFAULT_MAX_PDU
  promiscuous : Bool := false
deriving DecidableEq, Repr

/-- `with_abstract_syntax` -/
def Config.withAbstractSyntax (c : Config) (s : Str) : Config :=
  { c with abstractSyntaxes := c.abstractSyntaxes ++ [trimUid s] }
/-- `with_transfer_syntax` -/
def Config.withTransferSyntax (c : Config) (s : Str) : Config :=
  { c with transferSyntaxes := c.transferSyntaxes ++ [trimUid s] }
/-- `max_pdu_length`: silently truncated to `MAXIMUM_PDU_SIZE` -/
def Config.withMaxPdu (c : Config) (n : Nat) : Config :=
  { c with maxPdu := min n MAXIMUM_PDU_SIZE }

/-- the user-supplied policies: `AccessControl::check_access` and the two `Negotiation` methods -/
structure Policy where
  /-- `check_access(this, calling, called, identity)`; `none` = clearance -/
  access : Str → Str → Str → Option UserIdentity → Option SuReason
  extNeg : Str → Bytes → Option Bytes
  roles : Str → Bool → Bool → Option (Bool × Bool)

/-- `AcceptAny` -/
def acceptAny : Str → Str → Str → Option UserIdentity → Option SuReason := fun _ _ _ _ => none
/-- `AcceptCalledAeTitle` -/
def acceptCalledAeTitle : Str → Str → Str → Option UserIdentity → Option SuReason :=
  fun this _ called _ => if this = called then none else some .calledNotRecognized

/-- `DefaultNegotiation` with the given access control -/
def Policy.default (access : Str → Str → Str → Option UserIdentity → Option SuReason) : Policy :=
  ⟨access, fun _ _ => none, fun _ _ _ => none⟩

/-! ### transfer syntax choice -/

/-- the predicate of the `find` in `choose_ts` (second branch, with its dead inner test kept) -/
def tsPred (cfg : Config) (reg : List Str) (ts : Str) : Bool :=
  if cfg.transferSyntaxes.isEmpty then trimEndWsNul ts == IMPLICIT_VR_LE
  else cfg.transferSyntaxes.contains (trimUid ts) && isSupported reg ts

/-- `ServerAssociationOptions::choose_ts` -/
def chooseTs (cfg : Config) (reg : List Str) (tss : List Str) : Option Str :=
  if cfg.transferSyntaxes.isEmpty then chooseSupported reg tss
  else tss.find? (tsPred cfg reg)

/-- the closure mapped over the proposed presentation contexts -/
def negotiateOne (cfg : Config) (reg : List Str) (pc : Proposed) : Negotiated :=
  let a := trimUid pc.abstractSyntax
  if !cfg.abstractSyntaxes.contains a && !cfg.promiscuous then
    ⟨pc.id, .abstractSyntaxNotSupported, IMPLICIT_VR_LE, a⟩
  else match chooseTs cfg reg pc.transferSyntaxes with
    | some ts => ⟨pc.id, .acceptance, ts, a⟩
    | none => ⟨pc.id, .transferSyntaxesNotSupported, IMPLICIT_VR_LE, a⟩

def Negotiated.toResult (n : Negotiated) : PcResult := ⟨n.id, n.reason, n.transferSyntax⟩

/-! ### user variables -/

structure UvState where
  identity : Option UserIdentity := none
  requestorMax : Nat := DEFAULT_MAX_PDU
  /-- items appended to the answer (extended negotiation and role selection results) -/
  extra : List UserVar := []
deriving DecidableEq, Repr

/-- one iteration of `for user_variable in user_variables` -/
def uvStep (pol : Policy) (st : UvState) : UserVar → UvState
  | .identity u => { st with identity := some u }
  | .maxLength len =>
    { st with requestorMax := if len = 0 then MAXIMUM_PDU_SIZE else min len MAXIMUM_PDU_SIZE }
  | .extNeg uid data =>
    match pol.extNeg uid data with
    | some r => { st with extra := st.extra ++ [.extNeg uid r] }
    | none => st
  | .role uid scu scp =>
    match pol.roles uid scu scp with
    | some (a, b) => { st with extra := st.extra ++ [.role uid a b] }
    | none => st
  | _ => st

def processUserVars (pol : Policy) (uvs : List UserVar) : UvState := uvs.foldl (uvStep pol) {}

/-- implementation class UID / version name are constants of the crate; the harness passes them -/
structure Impl where
  classUid : Str
  versionName : Str
deriving DecidableEq, Repr

/-! ### `process_a_association_rq` -/

/-- which reject reason a protocol-version mismatch produces:
`shipped` = the code as originally found (`ServiceUser(NoReasonGiven)`),
`repaired` = `ServiceProviderASCE(ProtocolVersionNotSupported)` (the code after the `fix:` commit;
this is the variant the correspondence run compares with). The same switch selects the
requestor's behaviour beyond 128 presentation contexts in `AssocClient.lean`. -/
inductive Variant | shipped | repaired
deriving DecidableEq, Repr

def pvRejectSource : Variant → RjSource
  | .shipped => .serviceUser .noReasonGiven
  | .repaired => .providerAcseProtocolVersion

/-- what the acceptor keeps after a successful negotiation (`NegotiatedOptions` + called AE) -/
structure ServerView where
  peerMaxPdu : Nat
  localMaxPdu : Nat
  userVars : List UserVar
  contexts : List Negotiated
  peerAeTitle : Str
  calledAeTitle : Str
deriving DecidableEq, Repr

/-- outcome: the PDU written back, and either the established view or the error class -/
structure Outcome where
  reply : Pdu
  result : Except ErrKind ServerView

def reject (src : RjSource) : Outcome := ⟨.assocRJ true src, .error .rejected⟩

def processRq (v : Variant) (cfg : Config) (reg : List Str) (pol : Policy) (impl : Impl) :
    Pdu → Outcome
  | .assocRQ rq =>
    if rq.protocolVersion ≠ cfg.protocolVersion then reject (pvRejectSource v)
    else if rq.appContext ≠ cfg.appContext then reject (.serviceUser .appContextNotSupported)
    else
      let st := processUserVars pol rq.userVars
      match pol.access cfg.aeTitle rq.calling rq.called st.identity with
      | some reason => reject (.serviceUser reason)
      | none =>
        let neg := rq.contexts.map (negotiateOne cfg reg)
        let uvs := [UserVar.maxLength cfg.maxPdu, .implClassUid impl.classUid,
                    .implVersion impl.versionName] ++ st.extra
        ⟨.assocAC ⟨cfg.protocolVersion, rq.calling, rq.called, rq.appContext,
                   neg.map Negotiated.toResult, uvs⟩,
         .ok ⟨st.requestorMax, cfg.maxPdu, uvs, neg, rq.calling, rq.called⟩⟩
  | .releaseRQ => ⟨.releaseRP, .error .aborted⟩
  | .unknown _ => ⟨.abortRQ .providerUnrecognizedPdu, .error .unknownPdu⟩
  | _ => ⟨.abortRQ .providerUnexpectedPdu, .error .unexpectedPdu⟩

/-- `establish`: refuses to start without abstract syntaxes unless promiscuous; then reads one
PDU and processes it. `none` = nothing is read or written. -/
def establish (v : Variant) (cfg : Config) (reg : List Str) (pol : Policy) (impl : Impl)
    (first : Pdu) : Option Outcome :=
  if cfg.abstractSyntaxes.isEmpty && !cfg.promiscuous then none
  else some (processRq v cfg reg pol impl first)

/-! ### the property's own vocabulary -/

/-- a proposed transfer syntax the acceptor may pick: configured (any when none is configured)
and supported by the registry -/
def Eligible (cfg : Config) (reg : List Str) (ts : Str) : Prop :=
  (cfg.transferSyntaxes = [] ∨ trimUid ts ∈ cfg.transferSyntaxes) ∧ isSupported reg ts = true

instance (cfg : Config) (reg : List Str) (ts : Str) : Decidable (Eligible cfg reg ts) := by
  unfold Eligible; infer_instance

/-- the abstract syntax is configured, or the acceptor is promiscuous -/
def AbstractOk (cfg : Config) (a : Str) : Prop :=
  trimUid a ∈ cfg.abstractSyntaxes ∨ cfg.promiscuous = true

instance (cfg : Config) (a : Str) : Decidable (AbstractOk cfg a) := by
  unfold AbstractOk; infer_instance

end Dicom.Assoc
