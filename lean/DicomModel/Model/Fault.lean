/-
Model of the writer / reader STACKS of dicom-rs over a faulty sink / source (property C34).

Bottom: a scripted sink (`Sink`) whose every call is answered by an arbitrary state machine
(`Ok n` — accept at most n bytes, `Ok 0`, `Err`), and a scripted source (`Src`).
Layers, each written after the code that runs in the real stack:
* `writeAllLoop`   — `std::io::Write::write_all` (default method): `Ok(0)` ⇒ `WriteZero` error;
* `BufW`           — `std::io::BufWriter` (`write`, `write_all`, `flush_buf`, `flush`, `Drop`: the
                     drop-flush swallows its error and does not flush the inner writer);
* `Defl`           — `flate2::write::DeflateEncoder` (`zio::Writer`: `dump`, `write`, `flush`,
                     `finish`, `Drop` = `let _ = self.finish()`), compressor abstract (`Comp`);
* `PDataW`         — `ul/src/association/pdata.rs` `PDataWriter` (`write`, `finish`, `Drop`);
* public operations: `FileDicomObject::write_all` / `write_dataset` (`object/src/lib.rs`),
  `InMemDicomObject::write_dataset_with_ts` (`object/src/mem.rs`), `FileMetaTable::write`,
  `write_pdu`; the data set writer / stateful encoder is the sequence of `write_all` calls (and the
  final `flush`) it issues (`Op`).
Reading: `readExact`, `BufReader::fill_buf`, `read_pdu_from_wire` (`ul/src/association/mod.rs`)
over an abstract framing function, `PDataReader::read`, and a reader program (`Prog`) for the
file / data set readers whose only way to continue after a failed read is the `UnexpectedEof` arm
(`parser/src/dataset/read.rs`).
Time-outs (`Interrupted` retry) are not modelled.
-/
import DicomModel.Model.Util
import DicomModel.Model.Bytes
namespace Dicom.Fault

/-- `io::Result<α>` plus an explicit panic outcome -/
inductive Res (α : Type) where
  | ok : α → Res α
  | err : Res α
  | panic : Res α
deriving Repr, DecidableEq

/-- request seen by the sink -/
inductive Req where
  | write (len : Nat)
  | flush
deriving Repr, DecidableEq

/-- the sink's (or source's) answer to one call; `ok n` = at most `n` bytes are transferred.
`err eof` is an `io::Error`; `eof = true` when its kind is `UnexpectedEof`. -/
inductive Resp where
  | ok (n : Nat)
  | err (eof : Bool)
deriving Repr, DecidableEq

/-! ## The scripted sink -/

structure Sink (β : Type) where
  /-- behaviour: state → bytes accepted so far → request → answer, new state -/
  beh : β → Nat → Req → Resp × β
  st : β
  /-- accepted bytes, newest first -/
  rout : Bytes
  pos : Nat
  /-- number of failures (`Err`, or `Ok(0)` for a non-empty request) handed to the caller -/
  fails : Nat

def Sink.content (s : Sink β) : Bytes := s.rout.reverse

def Sink.write (s : Sink β) (buf : Bytes) : Res Nat × Sink β :=
  if buf = [] then (.ok 0, s) else
  match s.beh s.st s.pos (.write buf.length) with
  | (.ok n, st') =>
    let m := min n buf.length
    (.ok m, { s with st := st', rout := (buf.take m).reverse ++ s.rout, pos := s.pos + m,
                     fails := if m = 0 then s.fails + 1 else s.fails })
  | (.err _, st') => (.err, { s with st := st', fails := s.fails + 1 })

def Sink.flush (s : Sink β) : Res Unit × Sink β :=
  match s.beh s.st s.pos .flush with
  | (.ok _, st') => (.ok (), { s with st := st' })
  | (.err _, st') => (.err, { s with st := st', fails := s.fails + 1 })

/-! ## Generic layer interface and `write_all` -/

structure Layer (σ : Type) where
  write : σ → Bytes → Res Nat × σ
  writeAll : σ → Bytes → Res Unit × σ
  flush : σ → Res Unit × σ
  /-- destructor (`Drop`), errors have nowhere to go -/
  drop : σ → σ
  /-- failures returned by the bottom sink so far -/
  fails : σ → Nat
  /-- bytes accepted by the bottom sink -/
  out : σ → Bytes
  /-- bytes accepted from above and not yet handed to the bottom sink (identity layers) -/
  pend : σ → Bytes

/-- Push `buf` through `w` until it is empty; returns what could not be written.
`Write::write_all`, `BufWriter::flush_buf` and `zio::Writer::dump` are all this loop. -/
def drain (w : σ → Bytes → Res Nat × σ) (s : σ) (buf : Bytes) : Res Unit × σ × Bytes :=
  if _h : buf = [] then (.ok (), s, []) else
  match w s buf with
  | (.ok 0, s') => (.err, s', buf)
  | (.ok (n+1), s') => drain w s' (buf.drop (n+1))
  | (.err, s') => (.err, s', buf)
  | (.panic, s') => (.panic, s', buf)
termination_by buf.length
decreasing_by
  have : 0 < buf.length := List.length_pos_iff.mpr _h
  simp only [List.length_drop]; omega

/-- `std::io::Write::write_all` (default method) -/
def writeAllLoop (w : σ → Bytes → Res Nat × σ) (s : σ) (buf : Bytes) : Res Unit × σ :=
  let r := drain w s buf
  (r.1, r.2.1)

def sinkLayer (β : Type) : Layer (Sink β) where
  write := Sink.write
  writeAll := writeAllLoop Sink.write
  flush := Sink.flush
  drop := id
  fails := Sink.fails
  out := Sink.content
  pend := fun _ => []

/-! ## `std::io::BufWriter` -/

structure BufW (σ : Type) where
  inner : σ
  buf : Bytes
  cap : Nat

/-- `BufWriter::flush_buf`: the written prefix leaves the buffer even on error (`BufGuard`) -/
def BufW.flushBuf (L : Layer σ) (b : BufW σ) : Res Unit × BufW σ :=
  let r := drain L.write b.inner b.buf
  (r.1, { b with inner := r.2.1, buf := r.2.2 })

/-- first half of `write_cold` / `write_all_cold`: make room if the data does not fit -/
def BufW.prep (L : Layer σ) (b : BufW σ) (n : Nat) : Res Unit × BufW σ :=
  if n > b.cap - b.buf.length then b.flushBuf L else (.ok (), b)

/-- `BufWriter::write` (+ `write_cold`) -/
def BufW.write (L : Layer σ) (b : BufW σ) (data : Bytes) : Res Nat × BufW σ :=
  if data.length < b.cap - b.buf.length then (.ok data.length, { b with buf := b.buf ++ data })
  else
    match b.prep L data.length with
    | (.ok (), b1) =>
      if data.length ≥ b1.cap then
        ((L.write b1.inner data).1, { b1 with inner := (L.write b1.inner data).2 })
      else (.ok data.length, { b1 with buf := b1.buf ++ data })
    | (.err, b1) => (.err, b1)
    | (.panic, b1) => (.panic, b1)

/-- `BufWriter::write_all` (+ `write_all_cold`): a specialisation, not the default loop -/
def BufW.writeAll (L : Layer σ) (b : BufW σ) (data : Bytes) : Res Unit × BufW σ :=
  if data.length < b.cap - b.buf.length then (.ok (), { b with buf := b.buf ++ data })
  else
    match b.prep L data.length with
    | (.ok (), b1) =>
      if data.length ≥ b1.cap then
        ((L.writeAll b1.inner data).1, { b1 with inner := (L.writeAll b1.inner data).2 })
      else (.ok (), { b1 with buf := b1.buf ++ data })
    | (.err, b1) => (.err, b1)
    | (.panic, b1) => (.panic, b1)

/-- `BufWriter::flush` = `flush_buf().and_then(|()| inner.flush())` -/
def BufW.flush (L : Layer σ) (b : BufW σ) : Res Unit × BufW σ :=
  match b.flushBuf L with
  | (.ok (), b1) => ((L.flush b1.inner).1, { b1 with inner := (L.flush b1.inner).2 })
  | (r, b1) => (r, b1)

/-- `Drop for BufWriter`: `let _r = self.flush_buf();` then the inner writer is dropped -/
def BufW.drop (L : Layer σ) (b : BufW σ) : BufW σ :=
  let b1 := (b.flushBuf L).2
  { b1 with inner := L.drop b1.inner }

def bufLayer (L : Layer σ) : Layer (BufW σ) where
  write := BufW.write L
  writeAll := BufW.writeAll L
  flush := BufW.flush L
  drop := BufW.drop L
  fails := fun b => L.fails b.inner
  out := fun b => L.out b.inner
  pend := fun b => L.pend b.inner ++ b.buf

/-! ## The deflate adapter (`flate2::write::DeflateEncoder`), compressor abstract -/

structure Comp where
  Z : Type
  /-- `run_vec(input, Flush::none())`: output appended to the internal buffer -/
  absorb : Z → Bytes → Z × Bytes
  /-- `run_vec(&[], Flush::sync())` -/
  sync : Z → Z × Bytes
  /-- `run_vec(&[], Flush::finish())` -/
  fin : Z → Z × Bytes

structure Defl (C : Comp) (σ : Type) where
  inner : σ
  /-- `zio::Writer::buf`: compressed bytes not yet given to the inner writer -/
  pending : Bytes
  z : C.Z

/-- `zio::Writer::dump` -/
def Defl.dump (L : Layer σ) (d : Defl C σ) : Res Unit × Defl C σ :=
  let r := drain L.write d.inner d.pending
  (r.1, { d with inner := r.2.1, pending := r.2.2 })

/-- `zio::Writer::write`: dump what is pending, then compress the input -/
def Defl.write (L : Layer σ) (d : Defl C σ) (data : Bytes) : Res Nat × Defl C σ :=
  match d.dump L with
  | (.ok (), d1) =>
    (.ok data.length, { d1 with z := (C.absorb d1.z data).1,
                                pending := d1.pending ++ (C.absorb d1.z data).2 })
  | (.err, d1) => (.err, d1)
  | (.panic, d1) => (.panic, d1)

/-- `zio::Writer::flush`: sync-flush the compressor, dump, flush the inner writer -/
def Defl.flush (L : Layer σ) (d : Defl C σ) : Res Unit × Defl C σ :=
  let d0 : Defl C σ := { d with z := (C.sync d.z).1, pending := d.pending ++ (C.sync d.z).2 }
  match d0.dump L with
  | (.ok (), d1) => ((L.flush d1.inner).1, { d1 with inner := (L.flush d1.inner).2 })
  | (r, d1) => (r, d1)

/-- `zio::Writer::finish`: dump, emit the final block, dump -/
def Defl.finish (L : Layer σ) (d : Defl C σ) : Res Unit × Defl C σ :=
  match d.dump L with
  | (.ok (), d1) =>
    Defl.dump L { d1 with z := (C.fin d1.z).1, pending := d1.pending ++ (C.fin d1.z).2 }
  | (r, d1) => (r, d1)

/-- `Drop for zio::Writer`: `let _ = self.finish();`, then the inner writer is dropped -/
def Defl.drop (L : Layer σ) (d : Defl C σ) : Defl C σ :=
  let d1 := (d.finish L).2
  { d1 with inner := L.drop d1.inner }

def deflLayer (C : Comp) (L : Layer σ) : Layer (Defl C σ) where
  write := Defl.write L
  writeAll := writeAllLoop (Defl.write L)
  flush := Defl.flush L
  drop := Defl.drop L
  fails := fun d => L.fails d.inner
  out := fun d => L.out d.inner
  pend := fun d => L.pend d.inner ++ d.pending

/-! ## Public writing operations -/

/-- what the data set writer / stateful encoder / PDU writer does to its writer -/
inductive Op where
  | w (data : Bytes)   -- `to.write_all(data)`
  | f                  -- `to.flush()`
deriving Repr, DecidableEq

/-- run the calls in order, stop at the first error (every call site is `…?`) -/
def runOps (L : Layer σ) : List Op → σ → Res Unit × σ
  | [], s => (.ok (), s)
  | .w d :: rest, s =>
    match L.writeAll s d with
    | (.ok (), s') => runOps L rest s'
    | (r, s') => (r, s')
  | .f :: rest, s =>
    match L.flush s with
    | (.ok (), s') => runOps L rest s'
    | (r, s') => (r, s')

/-- an operation that owns its stack: run the calls, then the stack is dropped, then return -/
def runOwned (L : Layer σ) (ops : List Op) (s : σ) : Res Unit × σ :=
  ((runOps L ops s).1, L.drop (runOps L ops s).2)

def opsData : List Op → Bytes
  | [] => []
  | .w d :: rest => d ++ opsData rest
  | .f :: rest => opsData rest

/-- `BufWriter::new` capacity -/
def bufCap : Nat := 8192

/-- `InMemDicomObject::write_dataset_with_ts` (no data set adapter), `FileMetaTable::write`,
`write_pdu`: the encoder writes straight to the caller's writer, which it does not own. -/
def pubDirect (ops : List Op) (s : Sink β) : Res Unit × Sink β :=
  runOps (sinkLayer β) ops s

/-- `FileDicomObject::write_all` / `write_dataset`, plain transfer syntax:
`BufWriter::new(to)`, all calls incl. the final `flush`, then the `BufWriter` is dropped. -/
def pubFile (ops : List Op) (s : Sink β) : Res Unit × BufW (Sink β) :=
  runOwned (bufLayer (sinkLayer β)) ops ⟨s, [], bufCap⟩

/-- `FileDicomObject::write_all`, deflated transfer syntax: `pre` (preamble, magic code, file meta
group and its flush) goes to the `BufWriter`; `ops` (the data set and the final flush) go through
the deflate adapter that wraps — and then owns — the `BufWriter`; all dropped before returning. -/
def pubFileDeflate (C : Comp) (z0 : C.Z) (pre ops : List Op) (s : Sink β) :
    Res Unit × Defl C (BufW (Sink β)) :=
  let LB := bufLayer (sinkLayer β)
  match runOps LB pre ⟨s, [], bufCap⟩ with
  | (.ok (), b) => runOwned (deflLayer C LB) ops ⟨b, [], z0⟩
  | (r, b) => (r, ⟨LB.drop b, [], z0⟩)

/-- `InMemDicomObject::write_dataset_with_ts`, deflated: the adapter wraps the caller's writer;
`ops` has no flush; the adapter is dropped before returning. -/
def pubDatasetDeflate (C : Comp) (z0 : C.Z) (ops : List Op) (s : Sink β) :
    Res Unit × Defl C (Sink β) :=
  runOwned (deflLayer C (sinkLayer β)) ops ⟨s, [], z0⟩

/-! ## `PDataWriter` -/

structure PDataW (σ : Type) where
  inner : σ
  buffer : Bytes
  maxPdu : Nat

def pdvHeader : Nat := 12

/-- `setup_pdata_header`; `buffer.len() - 12` underflows on a shorter buffer (panic) -/
def setupHeader (buffer : Bytes) (isLast : Bool) : Option Bytes :=
  if buffer.length < pdvHeader then none else
  let dataLen := buffer.length - pdvHeader
  some (buffer.take 2 ++ be32 ((dataLen + 6) % 4294967296) ++ be32 ((dataLen + 2) % 4294967296)
        ++ [buffer.getD 10 0, if isLast then 2 else 0] ++ buffer.drop pdvHeader)

def PDataW.new (inner : σ) (pcid maxPdu : Nat) : PDataW σ :=
  ⟨inner, [4, 0, 255, 255, 255, 255, 255, 255, 255, 255, pcid, 255], maxPdu⟩

/-- `dispatch_pdu` -/
def PDataW.dispatch (L : Layer σ) (p : PDataW σ) : Res Unit × PDataW σ :=
  match setupHeader p.buffer false with
  | none => (.panic, p)
  | some b =>
    match L.writeAll p.inner b with
    | (.ok (), i') => (.ok (), { p with inner := i', buffer := b.take pdvHeader })
    | (r, i') => (r, { p with inner := i', buffer := b })

/-- `impl Write for PDataWriter`: `write` (with `refill_after_dispatch`: when the buffer was already
full, the PDU goes out and the next one is started with bytes of `data`) -/
def PDataW.write (L : Layer σ) (p : PDataW σ) (data : Bytes) : Res Nat × PDataW σ :=
  let total := p.maxPdu + 6
  if p.buffer.length + data.length ≤ total then
    (.ok data.length, { p with buffer := p.buffer ++ data })
  else if total < p.buffer.length then (.panic, p)   -- `total_len - self.buffer.len()`
  else
    let n := total - p.buffer.length
    match PDataW.dispatch L { p with buffer := p.buffer ++ data.take n } with
    | (.ok (), p') =>
      if n > 0 then (.ok n, p')
      else
        let t := min data.length (total - p'.buffer.length)
        (.ok t, { p' with buffer := p'.buffer ++ data.take t })
    | (.err, p') => (.err, p')
    | (.panic, p') => (.panic, p')

/-- `finish_impl` -/
def PDataW.finish (L : Layer σ) (p : PDataW σ) : Res Unit × PDataW σ :=
  if p.buffer = [] then (.ok (), p) else
  match setupHeader p.buffer true with
  | none => (.panic, p)
  | some b =>
    match L.writeAll p.inner b with
    | (.ok (), i') => (.ok (), { p with inner := i', buffer := [] })
    | (r, i') => (r, { p with inner := i', buffer := b })

/-- `Drop for PDataWriter`: `let _ = self.finish_impl();` (the stream is borrowed, not dropped) -/
def PDataW.drop (L : Layer σ) (p : PDataW σ) : PDataW σ := (p.finish L).2

def pdataLayer (L : Layer σ) : Layer (PDataW σ) where
  write := PDataW.write L
  writeAll := writeAllLoop (PDataW.write L)
  flush := fun p => (.ok (), p)     -- "do nothing"
  drop := PDataW.drop L
  fails := fun p => L.fails p.inner
  out := fun p => L.out p.inner
  pend := fun p => L.pend p.inner ++ p.buffer

/-- user code: `w.write_all(chunk)` for every chunk, then `w.finish()` (which consumes the writer,
so `Drop` runs afterwards) -/
def pubPData (chunks : List Bytes) (pcid maxPdu : Nat) (s : Sink β) : Res Unit × PDataW (Sink β) :=
  let L := pdataLayer (sinkLayer β)
  let r1 := runOps L (chunks.map .w) (PDataW.new s pcid maxPdu)
  match r1.1 with
  | .ok () => ((PDataW.finish (sinkLayer β) r1.2).1, L.drop (PDataW.finish (sinkLayer β) r1.2).2)
  | r => (r, L.drop r1.2)

/-! ## Reading -/

structure Src (β : Type) where
  /-- behaviour: state → position → buffer size → answer -/
  beh : β → Nat → Nat → Resp × β
  st : β
  data : Bytes
  pos : Nat
  /-- number of `Err` answers handed to the caller, by kind -/
  ioFails : Nat
  eofFails : Nat

/-- read result: the error remembers whether its kind is `UnexpectedEof` -/
inductive RRes (α : Type) where
  | ok : α → RRes α
  | err (eof : Bool) : RRes α
deriving Repr, DecidableEq

/-- `Read::read` into a buffer of `n` bytes -/
def Src.read (s : Src β) (n : Nat) : RRes Bytes × Src β :=
  if n = 0 then (.ok [], s) else
  match s.beh s.st s.pos n with
  | (.ok m, st') =>
    let got := (s.data.drop s.pos).take (min m n)
    (.ok got, { s with st := st', pos := s.pos + got.length })
  | (.err eof, st') =>
    (.err eof, { s with st := st', ioFails := if eof then s.ioFails else s.ioFails + 1,
                        eofFails := if eof then s.eofFails + 1 else s.eofFails })

/-- `BufReader::new` capacity -/
def rdCap : Nat := 8192

/-- framing decision of `read_pdu` on the bytes buffered so far -/
inductive Frame where
  | more            -- `Ok(None)`
  | done (n : Nat)  -- `Ok(Some(pdu))`, `n` bytes consumed
  | bad             -- `Err(_)`
deriving Repr, DecidableEq

theorem Src.read_pos_le (s : Src β) (n : Nat) (h : s.pos ≤ s.data.length) :
    (s.read n).2.pos ≤ (s.read n).2.data.length ∧ (s.read n).2.data = s.data := by
  unfold Src.read
  split
  · exact ⟨h, rfl⟩
  · split
    · refine ⟨?_, rfl⟩
      simp only [List.length_take, List.length_drop]; omega
    · exact ⟨h, rfl⟩

theorem Src.read_progress (s : Src β) (n : Nat) (g : Bytes) (s' : Src β)
    (h : s.read n = (.ok g, s')) : s'.pos = s.pos + g.length ∧ s'.data = s.data ∧
      g.length ≤ s.data.length - s.pos := by
  unfold Src.read at h
  split at h
  · cases h; simp
  · split at h
    · cases h
      refine ⟨rfl, rfl, ?_⟩
      simp only [List.length_take, List.length_drop]; omega
    · cases h

/-- `read_pdu_from_wire`: parse what is buffered; if incomplete, one `fill_buf` of a fresh
`BufReader` (= one `read` of up to 8192 bytes), append, `ensure!(bytes_read != 0)`, repeat.
Result: the bytes of the PDU and the bytes left in `read_buffer`. -/
def wireLoop (frame : Bytes → Frame) (s : Src β) (rb : Bytes) (h : s.pos ≤ s.data.length) :
    RRes (Bytes × Bytes) × Src β :=
  match frame rb with
  | .bad => (.err false, s)
  | .done n => (.ok (rb.take n, rb.drop n), s)
  | .more =>
    match hr : s.read rdCap with
    | (.err e, s') => (.err e, s')
    | (.ok [], s') => (.err false, s')      -- ConnectionClosed
    | (.ok (g :: gs), s') =>
      wireLoop frame s' (rb ++ g :: gs) (by
        obtain ⟨h1, h2, h3⟩ := Src.read_progress s rdCap _ _ hr
        simp only [List.length_cons] at h1 h3; rw [h2]; omega)
termination_by s.data.length - s.pos
decreasing_by
  obtain ⟨h1, h2, h3⟩ := Src.read_progress s rdCap _ _ hr
  simp only [List.length_cons] at h1 h3; rw [h2]; omega

/-- the default `Read::read_exact` loop over a reader `rd` -/
def readExact (rd : σ → Nat → RRes Bytes × σ) (s : σ) (n : Nat) (acc : Bytes) : RRes Bytes × σ :=
  if _h : n = 0 then (.ok acc, s) else
  match rd s n with
  | (.ok [], s') => (.err true, s')            -- UnexpectedEof, made by `read_exact` itself
  | (.ok (g :: gs), s') =>
    let got := (g :: gs).take n
    readExact rd s' (n - got.length) (acc ++ got)
  | (.err e, s') => (.err e, s')
termination_by n
decreasing_by
  simp only [List.length_take, List.length_cons]; omega

/-- `BufReader<Src>` -/
structure BufR (β : Type) where
  inner : Src β
  buf : Bytes

/-- `BufReader::fill_buf` -/
def BufR.fillBuf (b : BufR β) : RRes Unit × BufR β :=
  if b.buf = [] then
    match b.inner.read rdCap with
    | (.ok g, i') => (.ok (), ⟨i', g⟩)
    | (.err e, i') => (.err e, ⟨i', []⟩)
  else (.ok (), b)

/-- `BufReader::read` -/
def BufR.read (b : BufR β) (n : Nat) : RRes Bytes × BufR β :=
  if b.buf = [] ∧ n ≥ rdCap then
    let (r, i') := b.inner.read n
    (r, ⟨i', []⟩)
  else
    match b.fillBuf with
    | (.ok (), b1) => (.ok (b1.buf.take n), { b1 with buf := b1.buf.drop n })
    | (.err e, b1) => (.err e, b1)

/-- `BufReader::read_exact`: from the buffer if it holds enough, else the default loop -/
def BufR.readExact (b : BufR β) (n : Nat) : RRes Bytes × BufR β :=
  if n ≤ b.buf.length then (.ok (b.buf.take n), { b with buf := b.buf.drop n })
  else Fault.readExact BufR.read b n []

/-- A reader (file meta group reader, data set reader, object builder) as the tree of its
`read_exact` requests. After a failed request the only way on is the arm that matches
`ErrorKind::UnexpectedEof` (graceful end of the data set, `parser/src/dataset/read.rs`);
any other error ends the operation with `Err` (every call site is `.context(…)?`). -/
inductive Prog where
  | done (ok : Bool)
  | need (n : Nat) (k : Bytes → Prog) (onEof : Prog)

def Prog.run : Prog → BufR β → Bool × BufR β
  | .done ok, b => (ok, b)
  | .need n k onEof, b =>
    match b.readExact n with
    | (.ok bs, b') => (k bs).run b'
    | (.err true, b') => onEof.run b'
    | (.err false, b') => (false, b')

/-- `from_reader`-style operation: `BufReader::new(src)` then the reader program -/
def pubRead (p : Prog) (s : Src β) : Bool × BufR β := p.run ⟨s, []⟩

/-- `detect_preamble` + preamble skip of `from_reader_with_all_options` (`object/src/mem.rs`):
ONE `fill_buf`; fewer than 4 bytes ⇒ error; `DICM` at 128 ⇒ skip 128 bytes; otherwise nothing is
skipped (and the file meta reader then fails on a file that has a preamble). -/
def detectPreamble (b : BufR β) : RRes Unit × BufR β :=
  match b.fillBuf with
  | (.err e, b1) => (.err e, b1)
  | (.ok (), b1) =>
    if b1.buf.length < 4 then (.err true, b1)
    else if b1.buf.length ≥ 132 ∧ (b1.buf.drop 128).take 4 = [68, 73, 67, 77] then
      match b1.readExact 128 with
      | (.ok _, b2) => (.ok (), b2)
      | (.err e, b2) => (.err e, b2)
    else (.ok (), b1)

/-- `FileMetaTable::read_from` starts with the magic code: `read_exact` 4 bytes, must be `DICM` -/
def magicThen (p : Prog) : Prog :=
  .need 4 (fun bs => if bs = [68, 73, 67, 77] then p else .done false) (.done false)

/-- `from_reader`: preamble detection, magic code, then the rest of the reader program -/
def pubReadFile (p : Prog) (s : Src β) : Bool × BufR β :=
  match detectPreamble ⟨s, []⟩ with
  | (.ok (), b) => (magicThen p).run b
  | (.err _, b) => (false, b)

/-- presentation data values of a P-DATA PDU body: (payload, last-fragment flag) of each -/
def pdvs : Nat → Bytes → Option (List (Bytes × Bool))
  | 0, _ => none
  | fuel+1, bs =>
    if bs = [] then some [] else
    match rdBe32 bs with
    | none => none
    | some (len, rest) =>
      if len < 2 ∨ rest.length < len then none else
      let ctrl := rest.getD 1 0
      match pdvs fuel (rest.drop len) with
      | none => none
      | some more => some (((rest.take len).drop 2, ctrl / 2 % 2 = 1) :: more)

/-- `self.last_pdu = pdata_value.is_last` for every value in turn: the last one wins -/
def lastFlag (vs : List (Bytes × Bool)) : Bool :=
  match vs.getLast? with
  | some v => v.2
  | none => false

/-- `PDataReader::read` called until it returns `Ok(0)` (`read_to_end`): PDUs are taken from the
wire while the last presentation data value seen was not flagged "last". A fresh read buffer. -/
def pdataReadAll (frame : Bytes → Frame) : Nat → (s : Src β) → Bytes → s.pos ≤ s.data.length →
    RRes Bytes × Src β
  | 0, s, _, _ => (.err false, s)
  | fuel+1, s, rb, h =>
    match wireLoop frame s rb h with
    | (.err e, s') => (.err e, s')
    | (.ok (pdu, rb'), s') =>
      if pdu.headD 0 ≠ 4 then (.err false, s') else
      match pdvs (pdu.length + 1) (pdu.drop 6) with
      | none => (.err false, s')
      | some vs =>
        if lastFlag vs then (.ok (vs.map (·.1)).flatten, s')
        else if h' : s'.pos ≤ s'.data.length then
          match pdataReadAll frame fuel s' rb' h' with
          | (.ok more, s'') => (.ok ((vs.map (·.1)).flatten ++ more), s'')
          | (.err e, s'') => (.err e, s'')
        else (.err false, s')

/-! ## Concrete scripts used by the correspondence run (mirror of `harness/src/bin/c34/fio.rs`) -/

inductive Kind where
  | clean | err | zero | eofkind | flusherr
deriving Repr, DecidableEq

structure Policy where
  kind : Kind
  k : Nat
  /-- accept at most `m` bytes per call (0 = no limit) -/
  m : Nat
  sticky : Bool
deriving Repr

/-- state: (failure already delivered, number of flush calls so far) -/
def Policy.sinkBeh (p : Policy) : (Bool × Nat) → Nat → Req → Resp × (Bool × Nat)
  | (fired, nf), pos, .write len =>
    let faulty := p.kind = .err ∨ p.kind = .zero
    if faulty ∧ pos = p.k ∧ (!fired || p.sticky) then
      (if p.kind = .err then .err false else .ok 0, (true, nf))
    else
      let n := if p.m > 0 then min len p.m else len
      let n := if faulty ∧ pos < p.k then min n (p.k - pos) else n
      (.ok n, (fired, nf))
  | (fired, nf), _, .flush =>
    if p.kind = .flusherr ∧ (nf = p.k ∨ (p.sticky ∧ nf > p.k)) then (.err false, (fired, nf + 1))
    else (.ok 0, (fired, nf + 1))

def Policy.sink (p : Policy) : Sink (Bool × Nat) := ⟨p.sinkBeh, (false, 0), [], 0, 0⟩

def Policy.srcBeh (p : Policy) : Bool → Nat → Nat → Resp × Bool
  | fired, pos, len =>
    let faulty := p.kind = .err ∨ p.kind = .zero ∨ p.kind = .eofkind
    if faulty ∧ pos = p.k ∧ (!fired || p.sticky) then
      (match p.kind with
        | .err => .err false
        | .eofkind => .err true
        | _ => .ok 0, true)
    else
      let n := if p.m > 0 then min len p.m else len
      let n := if faulty ∧ pos < p.k then min n (p.k - pos) else n
      (.ok n, fired)

def Policy.src (p : Policy) (data : Bytes) : Src Bool := ⟨p.srcBeh, false, data, 0, 0, 0⟩

/-- a compressor that replays a recorded emission schedule (bytes produced per call) -/
def replayComp : Comp where
  Z := List Nat
  absorb := fun z _ => (z.tail, List.replicate (z.headD 0) 0)
  sync := fun z => (z.tail, List.replicate (z.headD 0) 0)
  fin := fun z => (z.tail, List.replicate (z.headD 0) 0)

/-- framing of `read_pdu` (`ul/src/pdu/reader.rs`): 2 + 4 header bytes, then `length` bytes;
in strict mode a length above the maximum is an error before the body is awaited.
Whether the body parses is supplied by the caller (`bodyOk`). -/
def pduFrame (maxLen : Nat) (strict : Bool) (bodyOk : Bool) (rb : Bytes) : Frame :=
  if rb.length < 2 then .more
  else if rb.length - 2 < 4 then .more
  else
    match rdBe32 (rb.drop 2) with
    | none => .more
    | some (len, _) =>
      if strict ∧ len > maxLen then .bad
      else if rb.length - 6 < len then .more
      else if bodyOk then .done (6 + len) else .bad

end Dicom.Fault
