import DicomModel.Model.Registry
import DicomModel.Model.CodePage
import DicomModel.Model.VR
import DicomModel.Gen.Charsets
import DicomModel.Gen.CodePages
/-
Model of the text side of dicom-rs:
* `encoding/src/text.rs`: `SpecificCharacterSet::from_code` / `name` over the generated term table
  (`Gen/Charsets.lean`), the binding of each set to a codec; the single-byte codecs are the dumped
  pages of `Gen/CodePages.lean`, UTF-8 is the encoder of `Model/Util.lean`, the other multi-byte
  codecs (`WINDOWS_31J`, `ISO_2022_JP`, `WINDOWS_949`, `GB18030`, `GBK`) are *parameters*.
* `parser/src/stateful/encode.rs`: `encode_text_element`, `encode_texts_element`,
  `convert_text_untrailed` (which VRs always use the default repertoire), padding, `try_new_codec`
  after writing (0008,0005).
* `parser/src/stateful/decode.rs` (value strategy `Preserved`, the default of the data set reader):
  `read_value_strs` (split on the backslash *byte*, then decode; AE/CS/AS with the default codec),
  `read_value_str`, `read_value_cs` (switch on (0008,0005)).
-/
namespace Dicom.Charset
open Dicom.CodePage Dicom.Charset.Gen
open Dicom.Registry (eqStr isWhitespace)

/-! ### defined terms -/

/-- Rust `str::trim_end` (Unicode `White_Space`) -/
def trimEndWs : Str → Str
  | [] => []
  | c :: cs =>
    match trimEndWs cs with
    | [] => if isWhitespace c then [] else [c]
    | r => c :: r

/-- `SpecificCharacterSet::from_code` -/
def fromCode (code : Str) : Option Cs :=
  (Gen.fromCodeTable.find? fun e => eqStr e.1 (trimEndWs code)).map (·.2)

/-- the dumped single-byte page of a set, if all its encodings are single bytes -/
def pageOf (cs : Cs) : Option Page :=
  (Gen.pageOfTerm.find? fun e => eqStr e.1 cs.term).map (·.2)

/-! ### codecs -/

/-- a text codec as `TextCodec` exposes it: `encode` may fail (strict trap),
`decode` never fails (the trap substitutes an escape and continues) -/
structure Codec where
  encode : Str → Option (List Nat)
  decode : List Nat → Str

def pageCodec (p : Page) : Codec := ⟨p.encode, p.decode⟩

/-- UTF-8 encoding of scalar values (total) -/
def utf8EncodeNat (n : Nat) : List Nat :=
  if n < 0x80 then [n]
  else if n < 0x800 then [0xC0 + n / 64, 0x80 + n % 64]
  else if n < 0x10000 then [0xE0 + n / 4096, 0x80 + n / 64 % 64, 0x80 + n % 64]
  else [0xF0 + n / 262144, 0x80 + n / 4096 % 64, 0x80 + n / 64 % 64, 0x80 + n % 64]

def utf8Enc (s : Str) : List Nat := s.flatMap utf8EncodeNat

/-- UTF-8 decoding of well-formed input (what the encoder produces); ill-formed tails are dropped
— only used on the output of `utf8Enc` and on text the real code wrote -/
def utf8DecAux : Nat → List Nat → Str
  | 0, _ => []
  | _, [] => []
  | fuel+1, b :: rest =>
    if b < 0x80 then b :: utf8DecAux fuel rest
    else if b < 0xE0 then
      match rest with
      | c :: r => ((b % 32) * 64 + c % 64) :: utf8DecAux fuel r
      | _ => []
    else if b < 0xF0 then
      match rest with
      | c :: d :: r => ((b % 16) * 4096 + (c % 64) * 64 + d % 64) :: utf8DecAux fuel r
      | _ => []
    else
      match rest with
      | c :: d :: e :: r => ((b % 8) * 262144 + (c % 64) * 4096 + (d % 64) * 64 + e % 64) :: utf8DecAux fuel r
      | _ => []

def utf8Dec (bs : List Nat) : Str := utf8DecAux bs.length bs

/-- UTF-8: strings of code points (a Rust `str` holds nothing else) always encode -/
def utf8Codec : Codec :=
  ⟨fun s => if s.all (· < 0x110000) then some (utf8Enc s) else none, utf8Dec⟩

/-- how far the model knows a set's codec -/
inductive Known where
  | page (p : Page)
  | utf8
  | ext
deriving Repr

def known (cs : Cs) : Known :=
  match pageOf cs with
  | some p => .page p
  | none => if cs.encBinding = .UTF_8 ∧ cs.decBinding = .UTF_8 then .utf8 else .ext

/-- the codec environment: the known codecs, `ext` for the rest -/
def codecOf (ext : Cs → Codec) (cs : Cs) : Codec :=
  match known cs with
  | .page p => pageCodec p
  | .utf8 => utf8Codec
  | .ext => ext cs

/-! ### elements -/

/-- `PrimitiveValue::Str` (one text, may contain backslashes) or `PrimitiveValue::Strs` -/
inductive Form where
  | str | strs
deriving DecidableEq, Repr

structure Elem where
  tag : Nat
  vr : VR
  form : Form
  vals : List Str
deriving Repr

/-- an element as it travels: tag, VR, value bytes -/
structure Wire where
  tag : Nat
  vr : VR
  bytes : List Nat
deriving Repr

def scsTag : Nat := 0x00080005

/-- `convert_text_untrailed`: these VRs always use the default character repertoire -/
def writerUsesDefault : VR → Bool
  | .AE | .AS | .CS | .DA | .DS | .DT | .IS | .TM | .UI => true
  | _ => false

/-- join with the backslash byte -/
def joinBs : List (List Nat) → List Nat
  | [] => []
  | [a] => a
  | a :: b :: r => a ++ 92 :: joinBs (b :: r)

/-- `slice::split(|b| b == b'\\')` — always at least one part -/
def splitBs : List Nat → List (List Nat)
  | [] => [[]]
  | b :: bs =>
    if b = 92 then [] :: splitBs bs
    else match splitBs bs with
      | p :: ps => (b :: p) :: ps
      | [] => [[b]]

def mapM' (f : Str → Option (List Nat)) : List Str → Option (List (List Nat))
  | [] => some []
  | v :: vs =>
    match f v, mapM' f vs with
    | some b, some bs => some (b :: bs)
    | _, _ => none

def padEven (vr : VR) (bs : List Nat) : List Nat :=
  if bs.length % 2 = 1 then bs ++ [if vr = .UI then 0 else 32] else bs

/-- the set selected by a Specific Character Set value: unsupported names are ignored -/
def switchTo (cur : Cs) (name : Option Str) : Cs :=
  match name with
  | some n => (fromCode n).getD cur
  | none => cur

/-- `encode_text_element` / `encode_texts_element`: value bytes, and the text codec afterwards -/
def writeElem (codec : Cs → Codec) (cur : Cs) (e : Elem) : Option (Wire × Cs) :=
  let c := if writerUsesDefault e.vr then codec .Default else codec cur
  let body : Option (List Nat) :=
    match e.form with
    | .str => c.encode (e.vals.headD [])
    | .strs => (mapM' c.encode e.vals).map joinBs
  match body with
  | none => none
  | some b =>
    let cur' := if e.tag = scsTag then switchTo cur e.vals.head? else cur
    some (⟨e.tag, e.vr, padEven e.vr b⟩, cur')

def writeElems (codec : Cs → Codec) : Cs → List Elem → Option (List Wire)
  | _, [] => some []
  | cur, e :: es =>
    match writeElem codec cur e with
    | none => none
    | some (w, cur') =>
      match writeElems codec cur' es with
      | none => none
      | some ws => some (w :: ws)

/-- how `read_value_preserved` reads a textual VR -/
inductive ReadKind where
  /-- `read_value_strs` with the declared character set -/
  | strsDeclared
  /-- `read_value_strs` with the default codec (AE, AS; CS through `read_value_cs`) -/
  | strsDefault
  /-- `read_value_str`: one string, declared character set, no splitting -/
  | str
  /-- not a textual VR -/
  | other
deriving DecidableEq, Repr

def readKind : VR → ReadKind
  | .AE | .AS | .CS => .strsDefault
  | .PN | .SH | .LO | .UC | .UI | .IS | .DS | .DA | .TM | .DT => .strsDeclared
  | .UT | .ST | .UR | .LT => .str
  | _ => .other

/-- `read_value_preserved` on a textual element: the value read (`[]` = `PrimitiveValue::Empty`)
and the text codec afterwards -/
def readElem (codec : Cs → Codec) (cur : Cs) (w : Wire) : Elem × Cs :=
  if w.bytes = [] then (⟨w.tag, w.vr, .strs, []⟩, cur) else
  match readKind w.vr with
  | .strsDeclared => (⟨w.tag, w.vr, .strs, (splitBs w.bytes).map (codec cur).decode⟩, cur)
  | .strsDefault =>
    let parts := (splitBs w.bytes).map (codec .Default).decode
    let cur' := if w.tag = scsTag ∧ w.vr = .CS then switchTo cur parts.head? else cur
    (⟨w.tag, w.vr, .strs, parts⟩, cur')
  | .str => (⟨w.tag, w.vr, .str, [(codec cur).decode w.bytes]⟩, cur)
  | .other => (⟨w.tag, w.vr, .strs, []⟩, cur)

def readElems (codec : Cs → Codec) : Cs → List Wire → List Elem
  | _, [] => []
  | cur, w :: ws =>
    let (e, cur') := readElem codec cur w
    e :: readElems codec cur' ws

/-- what "reads back unchanged" means for one value list: trailing padding of the last value
(blanks/NULs added to reach even length) is not significant, and an empty value list is the same
as one empty value -/
def stripPad (s : Str) : Str := (s.reverse.dropWhile fun c => c == 32 || c == 0).reverse

def normVals (vs : List Str) : List Str :=
  match vs.reverse with
  | [] => []
  | l :: r =>
    let vs' := (stripPad l :: r).reverse
    if vs'.all (·.isEmpty) ∧ vs'.length ≤ 1 then [] else vs'

end Dicom.Charset
