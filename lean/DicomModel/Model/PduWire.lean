/-
Model of `ul/src/association/mod.rs::read_pdu_from_wire` and `read_pdu_from_wire_async`.

Both functions are the same loop over the persistent `read_buffer`:

    loop {
        match read_pdu(Cursor(&read_buffer[..]), max, strict)? {   // Err => return Err(ReceivePdu)
            Some(pdu) => { read_buffer.advance(position); break pdu }
            None => {}                                              // cursor reset, nothing consumed
        }
        let n = <one read from the transport, appended to read_buffer>;
        ensure!(n != 0, ConnectionClosed);
    }

The transport is a script: the list of byte chunks that successive reads will deliver (what the
sync version obtains from `BufReader::fill_buf` + `consume(all)`, the async version from
`read_buf(read_buffer)`); an exhausted script or an empty chunk is a read of 0 bytes (EOF).
The state carried between receives is `(read_buffer, rest of the script)`.
-/
import DicomModel.Model.Pdu
namespace Dicom.Pdu

inductive RecvErr
  | pdu (e : RErr)   -- `ReceivePdu { source }`
  | closed           -- `ConnectionClosed`
deriving DecidableEq, Repr

/-- one call of `read_pdu_from_wire(_async)`: the PDU, the new `read_buffer`, the script left -/
def receive (mx : Nat) (strict : Bool) : Bytes → List Bytes → Except RecvErr (Pdu × Bytes × List Bytes)
  | buf, chunks =>
    match readPdu mx strict buf with
    | .ok (p, rest) => .ok (p, rest, chunks)
    | .err e => .error (.pdu e)
    | .inc =>
      match chunks with
      | [] => .error .closed
      | c :: cs => if c.isEmpty then .error .closed else receive mx strict (buf ++ c) cs

/-- `n` successive receives on the same association -/
def receiveMany (mx : Nat) (strict : Bool) : Nat → Bytes → List Bytes →
    Except RecvErr (List Pdu × Bytes × List Bytes)
  | 0, buf, chunks => .ok ([], buf, chunks)
  | n + 1, buf, chunks =>
    match receive mx strict buf chunks with
    | .error e => .error e
    | .ok (p, buf', chunks') =>
      match receiveMany mx strict n buf' chunks' with
      | .error e => .error e
      | .ok (ps, b, c) => .ok (p :: ps, b, c)

/-! ## The transport below the loop: reads are limited by the room the receiver offers

`receive` above takes the script to be the reads as they happened. The two real receivers differ in
how much room they offer to one read, which re-splits what the peer sent:
* sync: `BufReader::new(reader)` — `fill_buf` reads into its 8 KiB buffer, all of it is appended;
* async: `read_buf(read_buffer)` — at most the spare capacity of the `BytesMut` (after a `reserve`
  when there is none), a quantity that depends on the allocation history.
`receiveR` is the loop over a transport holding the peer's segments, parameterised by the room
offered to the `k`-th read. -/

/-- one read with room for `room` bytes from a transport holding the segments `chunks`:
the bytes delivered and the transport afterwards (an exhausted transport delivers nothing = EOF) -/
def readSome (room : Nat) : List Bytes → Bytes × List Bytes
  | [] => ([], [])
  | c :: cs => if c.length ≤ room then (c, cs) else (c.take room, c.drop room :: cs)

/-- the receive loop with read counter `k`; fuel = an upper bound on the number of reads
(`receiveWire` supplies one more than the number of bytes the transport still holds) -/
def receiveR (mx : Nat) (strict : Bool) (rooms : Nat → Nat) :
    Nat → Nat → Bytes → List Bytes → Except RecvErr (Pdu × Bytes × List Bytes × Nat)
  | 0, _, _, _ => .error (.pdu .fuel)
  | f + 1, k, buf, chunks =>
    match readPdu mx strict buf with
    | .ok (p, rest) => .ok (p, rest, chunks, k)
    | .err e => .error (.pdu e)
    | .inc =>
      let d := (readSome (rooms k) chunks).1
      if d.isEmpty then .error .closed
      else receiveR mx strict rooms f (k + 1) (buf ++ d) (readSome (rooms k) chunks).2

def receiveWire (mx : Nat) (strict : Bool) (rooms : Nat → Nat) (k : Nat) (buf : Bytes) (chunks : List Bytes) :
    Except RecvErr (Pdu × Bytes × List Bytes × Nat) :=
  receiveR mx strict rooms (chunks.flatten.length + 1) k buf chunks

/-- `read_pdu_from_wire`: every read has the `BufReader`'s 8192 bytes of room -/
def receiveSync (mx : Nat) (strict : Bool) := receiveWire mx strict (fun _ => 8192)

/-- `read_pdu_from_wire_async`: the room of the `k`-th `read_buf` is whatever spare capacity the
buffer has then — any positive number -/
def receiveAsync (mx : Nat) (strict : Bool) (rooms : Nat → Nat) := receiveWire mx strict rooms

/-- `n` successive receives over the same transport and buffer -/
def receiveManyWire (mx : Nat) (strict : Bool) (rooms : Nat → Nat) : Nat → Nat → Bytes → List Bytes →
    Except RecvErr (List Pdu × Bytes × List Bytes × Nat)
  | 0, k, buf, chunks => .ok ([], buf, chunks, k)
  | n + 1, k, buf, chunks =>
    match receiveWire mx strict rooms k buf chunks with
    | .error e => .error e
    | .ok (p, buf', chunks', k') =>
      match receiveManyWire mx strict rooms n k' buf' chunks' with
      | .error e => .error e
      | .ok (ps, b, c, k'') => .ok (p :: ps, b, c, k'')

/-- what the sender puts on the wire for a sequence of PDUs -/
def writeAll : List Pdu → W
  | [] => .ok []
  | p :: ps => wcat (writePdu p) (writeAll ps)

end Dicom.Pdu
