/-
Model of `ul/src/association/mod.rs::read_pdu_from_wire` and `read_pdu_from_wire_async`.

Both functions are the same loop over the persistent `read_buffer`:

    loop {
        match read_pdu(Cursor(&read_buffer[..]), max, strict)? {   // Err => return Err(ReceivePdu)
            Some(pdu) => { read_buffer.advance(position); break pdu }
            None => {}                                              // cursor reset, nothing consumed
        }
        let n = <one read from the transport, appended to read_buffer>;
        ensure!(n != 0, ConnectionClosed);
    }

The transport is a script: the list of byte chunks that successive reads will deliver (what the
sync version obtains from `BufReader::fill_buf` + `consume(all)`, the async version from
`read_buf(read_buffer)`); an exhausted script or an empty chunk is a read of 0 bytes (EOF).
The state carried between receives is `(read_buffer, rest of the script)`.
-/
import DicomModel.Model.Pdu
namespace Dicom.Pdu

inductive RecvErr
  | pdu (e : RErr)   -- `ReceivePdu { source }`
  | closed           -- `ConnectionClosed`
deriving DecidableEq, Repr

/-- one call of `read_pdu_from_wire(_async)`: the PDU, the new `read_buffer`, the script left -/
def receive (mx : Nat) (strict : Bool) : Bytes → List Bytes → Except RecvErr (Pdu × Bytes × List Bytes)
  | buf, chunks =>
    match readPdu mx strict buf with
    | .ok (p, rest) => .ok (p, rest, chunks)
    | .err e => .error (.pdu e)
    | .inc =>
      match chunks with
      | [] => .error .closed
      | c :: cs => if c.isEmpty then .error .closed else receive mx strict (buf ++ c) cs

/-- `n` successive receives on the same association -/
def receiveMany (mx : Nat) (strict : Bool) : Nat → Bytes → List Bytes →
    Except RecvErr (List Pdu × Bytes × List Bytes)
  | 0, buf, chunks => .ok ([], buf, chunks)
  | n + 1, buf, chunks =>
    match receive mx strict buf chunks with
    | .error e => .error e
    | .ok (p, buf', chunks') =>
      match receiveMany mx strict n buf' chunks' with
      | .error e => .error e
      | .ok (ps, b, c) => .ok (p :: ps, b, c)

/-- what the sender puts on the wire for a sequence of PDUs -/
def writeAll : List Pdu → W
  | [] => .ok []
  | p :: ps => wcat (writePdu p) (writeAll ps)

end Dicom.Pdu
