/-
Model of the numeric conversions of `core/src/value/primitive.rs`
(`PrimitiveValue::to_int`, `to_multi_int`, `to_float32/64`, `to_multi_float32/64`,
`extend_str`, `extend_u16/i16/i32/u32/f32/f64`, `truncate`) and of the wrappers
`Value::{to_int,…,truncate}` (`core/src/value/mod.rs`) and `DataElement::{to_int,…}`
(`core/src/header.rs`).

Rust integer semantics are modelled on `Int` explicitly:
* `NumCast::from(x)` / `ToPrimitive::to_iN` between integer types = range check (`numCast`);
* `x as iN/uN` between integer types = reduction modulo `2^bits` with sign reinterpretation (`asCast`);
* `str::parse::<iN/uN>()` = `parseInt` (optional sign — `'+'` for every type, `'-'` for signed types
  only —, then one or more ASCII digits, accumulated with checked multiplication/addition).
Floating point numbers travel as IEEE bit patterns (`Nat`); the element operations on them
(`as` casts, `str::parse::<f32/f64>`) are the fields of `FloatOps`, a parameter of the model
(instantiated with Lean's `Float`/`Float32` in the driver, left abstract in the theorems).
-/
import DicomModel.Model.PersonName
namespace Dicom.NumConv

/-! ### integer types -/

inductive IntTy | u8 | i8 | u16 | i16 | u32 | i32 | u64 | i64
deriving DecidableEq, Repr

def IntTy.bits : IntTy → Nat
  | .u8 | .i8 => 8 | .u16 | .i16 => 16 | .u32 | .i32 => 32 | .u64 | .i64 => 64

def IntTy.signed : IntTy → Bool
  | .i8 | .i16 | .i32 | .i64 => true
  | _ => false

/-- `T::MIN` -/
def IntTy.lo (T : IntTy) : Int := if T.signed then -(2 ^ (T.bits - 1) : Int) else 0
/-- `T::MAX` -/
def IntTy.hi (T : IntTy) : Int := if T.signed then 2 ^ (T.bits - 1) - 1 else 2 ^ T.bits - 1

def InRange (T : IntTy) (n : Int) : Prop := T.lo ≤ n ∧ n ≤ T.hi
instance (T : IntTy) (n : Int) : Decidable (InRange T n) := by unfold InRange; infer_instance

/-- `<T as NumCast>::from(n)` for an integer `n` of any primitive integer type:
`Some(n)` iff representable. -/
def numCast (T : IntTy) (n : Int) : Option Int := if InRange T n then some n else none

/-- `n as T` between integer types: two's complement truncation / reinterpretation. -/
def asCast (T : IntTy) (n : Int) : Int :=
  let m := n % (2 ^ T.bits : Int)
  if T.signed ∧ m ≥ 2 ^ (T.bits - 1) then m - 2 ^ T.bits else m

/-! ### text → integer -/

/-- `whitespace_or_null` -/
def wsOrNull (c : Char) : Bool := Dicom.PN.isWs c || c == '\x00'

/-- `str::trim_matches(whitespace_or_null)` -/
def trimWN (s : List Char) : List Char :=
  ((s.dropWhile wsOrNull).reverse.dropWhile wsOrNull).reverse

/-- `(c as char).to_digit(10)` -/
def digitVal (c : Char) : Option Int :=
  if '0' ≤ c ∧ c ≤ '9' then some (c.toNat - 48 : Nat) else none

/-- positive accumulation loop of `from_str_radix`: `checked_mul(10)` then `checked_add(d)`;
an invalid digit or an overflow ends with an error. -/
def accPos (T : IntTy) : Int → List Char → Option Int
  | r, [] => some r
  | r, c :: cs =>
    match digitVal c with
    | none => none
    | some d =>
      if r * 10 ≤ T.hi ∧ r * 10 + d ≤ T.hi then accPos T (r * 10 + d) cs else none

/-- negative accumulation loop: `checked_mul(10)` then `checked_sub(d)`. -/
def accNeg (T : IntTy) : Int → List Char → Option Int
  | r, [] => some r
  | r, c :: cs =>
    match digitVal c with
    | none => none
    | some d =>
      if T.lo ≤ r * 10 ∧ T.lo ≤ r * 10 - d then accNeg T (r * 10 - d) cs else none

/-- `str::parse::<T>()` (`from_str_radix(s, 10)`); `none` = any `ParseIntError`. -/
def parseInt (T : IntTy) (s : List Char) : Option Int :=
  match s with
  | [] => none
  | ['+'] => none
  | ['-'] => none
  | '+' :: rest => accPos T 0 rest
  | '-' :: rest => if T.signed then accNeg T 0 rest else accPos T 0 ('-' :: rest)
  | _ => accPos T 0 s

/-- the conversion applied to every string item -/
def parseItem (T : IntTy) (s : List Char) : Option Int := parseInt T (trimWN s)

/-! ### integer → text (`to_string`) -/

def digitChar (d : Nat) : Char := Char.ofNat (48 + d)

def showNat (n : Nat) : List Char :=
  if _h : n < 10 then [digitChar n] else showNat (n / 10) ++ [digitChar (n % 10)]
decreasing_by omega

def showInt (n : Int) : List Char :=
  if n < 0 then '-' :: showNat n.natAbs else showNat n.natAbs

/-! ### values -/

/-- `collect::<Result<Vec<_>, _>>()`: all converted items in order, or the (first) error. -/
def collectOpt {α β : Type} (f : α → Option β) : List α → Option (List β)
  | [] => some []
  | x :: xs =>
    match f x with
    | none => none
    | some y => match collectOpt f xs with
      | none => none
      | some ys => some (y :: ys)

/-- `PrimitiveValue`. The seven integer variants `U8 I16 U16 I32 U32 I64 U64` are
`ints k items` (there is no `I8` variant: see `PV.WF`); `F32`/`F64` carry bit patterns; tags and
date/time items are carried as opaque texts (only counted, appended to and truncated here). -/
inductive PV
  | empty
  | strs (l : List (List Char))
  | str (s : List Char)
  | tags (l : List (List Char))
  | ints (k : IntTy) (l : List Int)
  | f32 (l : List Nat)
  | f64 (l : List Nat)
  | date (l : List (List Char))
  | dateTime (l : List (List Char))
  | time (l : List (List Char))
deriving DecidableEq, Repr

/-- `multiplicity()` -/
def PV.card : PV → Nat
  | .empty => 0
  | .str _ => 1
  | .strs l | .tags l | .date l | .dateTime l | .time l => l.length
  | .ints _ l => l.length
  | .f32 l | .f64 l => l.length

/-- the value is a legal Rust value: an existing variant, every number within its type -/
def PV.WF : PV → Prop
  | .ints k l => k ≠ .i8 ∧ ∀ x ∈ l, InRange k x
  | .f32 l => ∀ x ∈ l, x < 2 ^ 32
  | .f64 l => ∀ x ∈ l, x < 2 ^ 64
  | _ => True

/-- `to_int::<T>()`; `none` = `Err(ConvertValueError)`. -/
def toInt (T : IntTy) : PV → Option Int
  | .str s => parseItem T s
  | .strs (s :: _) => parseItem T s
  | .ints _ (x :: _) => numCast T x
  | _ => none

/-- `to_multi_int::<T>()` (repaired code: no `!is_empty()` guards). -/
def toMultiInt (T : IntTy) : PV → Option (List Int)
  | .empty => some []
  | .str s => (parseItem T s).map ([·])
  | .strs l => collectOpt (parseItem T) l
  | .ints _ l => collectOpt (numCast T) l
  | _ => none

/-! ### floats -/

inductive FW | w32 | w64 deriving DecidableEq, Repr

/-- Element operations on floating point numbers (bit patterns). -/
structure FloatOps where
  /-- `n as f32`, also `<f32 as NumCast>::from(n)` (never fails for integers) -/
  intToF : FW → Int → Nat
  /-- `x as f64` for `x : f32` / `x as f32` for `x : f64` (`NumCast` between floats is `as`) -/
  fToF : FW → FW → Nat → Nat
  /-- `x as T` for a float `x` of width `w`: truncation toward zero, saturating, NaN ↦ 0 -/
  fToInt : FW → IntTy → Nat → Int
  /-- `str::parse::<f32/f64>()` -/
  parseF : FW → List Char → Option Nat

/-- a float result: a computed bit pattern -/
abbrev FBits := Nat

def parseFItem (ops : FloatOps) (w : FW) (s : List Char) : Option FBits := ops.parseF w (trimWN s)

/-- float → float: the stored number itself for the same width (`Ok(s[0])`), `NumCast` (= `as`)
otherwise -/
def FloatOps.conv (ops : FloatOps) (src w : FW) (x : Nat) : Nat :=
  if src = w then x else ops.fToF src w x

/-- `to_float32()` / `to_float64()` -/
def toFloat (ops : FloatOps) (w : FW) : PV → Option FBits
  | .str s => parseFItem ops w s
  | .strs (s :: _) => parseFItem ops w s
  | .ints _ (x :: _) => some (ops.intToF w x)
  | .f32 (x :: _) => some (ops.conv .w32 w x)
  | .f64 (x :: _) => some (ops.conv .w64 w x)
  | _ => none

/-- `to_multi_float32()` / `to_multi_float64()` (repaired code: `Empty => Ok(vec![])` in both). -/
def toMultiFloat (ops : FloatOps) (w : FW) : PV → Option (List FBits)
  | .empty => some []
  | .str s => (parseFItem ops w s).map ([·])
  | .strs l => collectOpt (parseFItem ops w) l
  | .ints _ l => some (l.map (ops.intToF w))
  | .f32 l => some (l.map (ops.conv .w32 w))
  | .f64 l => some (l.map (ops.conv .w64 w))
  | _ => none

/-! ### extend / truncate -/

inductive ModErr | incompatibleString | incompatibleNumber
deriving DecidableEq, Repr

/-- a float to append: its bits and its `to_string()` (Rust's float printing is not modelled) -/
structure FItem where
  bits : Nat
  text : List Char
deriving DecidableEq, Repr

/-- argument of one `extend_*` call -/
inductive Ext
  | strs (l : List (List Char))          -- extend_str
  | ints (T : IntTy) (l : List Int)      -- extend_u16 / extend_i16 / extend_i32 / extend_u32
  | floats (w : FW) (l : List FItem)     -- extend_f32 / extend_f64
deriving DecidableEq, Repr

def Ext.len : Ext → Nat
  | .strs l => l.length
  | .ints _ l => l.length
  | .floats _ l => l.length

/-- the appended numbers as text (`n.to_string()`) -/
def Ext.texts : Ext → List (List Char)
  | .strs l => l
  | .ints _ l => l.map showInt
  | .floats _ l => l.map (·.text)

/-- the appended numbers cast (`as`) to integer type `K` -/
def Ext.asInts (ops : FloatOps) (K : IntTy) : Ext → List Int
  | .strs _ => []
  | .ints T l => if T = K then l else l.map (asCast K)
  | .floats w l => l.map fun x => ops.fToInt w K x.bits

/-- the appended numbers cast (`as`) to a float of width `w` -/
def Ext.asFloats (ops : FloatOps) (w : FW) : Ext → List Nat
  | .strs _ => []
  | .ints _ l => l.map (ops.intToF w)
  | .floats w' l => l.map fun x => ops.conv w' w x.bits

/-- `extend_str`, `extend_u16`, … on the current value -/
def extend (ops : FloatOps) (v : PV) (e : Ext) : Except ModErr PV :=
  match e with
  | .strs xs =>
    match v with
    | .empty => .ok (.strs xs)
    | .strs l => .ok (.strs (l ++ xs))
    | .str s => .ok (.strs (s :: xs))
    | _ => .error .incompatibleString
  | _ =>
    match v with
    | .empty =>
      match e with
      | .ints T l => .ok (.ints T l)
      | .floats .w32 l => .ok (.f32 (l.map (·.bits)))
      | .floats .w64 l => .ok (.f64 (l.map (·.bits)))
      | .strs l => .ok (.strs l)
    | .strs l => .ok (.strs (l ++ e.texts))
    | .str s => .ok (.strs (s :: e.texts))
    | .ints K l => .ok (.ints K (l ++ e.asInts ops K))
    | .f32 l => .ok (.f32 (l ++ e.asFloats ops .w32))
    | .f64 l => .ok (.f64 (l ++ e.asFloats ops .w64))
    | .tags _ | .date _ | .dateTime _ | .time _ => .error .incompatibleNumber

/-- `truncate(limit)` (repaired code: a single string is one item, limit 0 empties the value) -/
def truncate (limit : Nat) : PV → PV
  | .empty => .empty
  | .str s => if limit = 0 then .empty else .str s
  | .strs l => .strs (l.take limit)
  | .tags l => .tags (l.take limit)
  | .ints k l => .ints k (l.take limit)
  | .f32 l => .f32 (l.take limit)
  | .f64 l => .f64 (l.take limit)
  | .date l => .date (l.take limit)
  | .dateTime l => .dateTime (l.take limit)
  | .time l => .time (l.take limit)

/-- one step of an operation history; a failed `extend_*` leaves the value unchanged -/
inductive Op
  | extend (e : Ext)
  | truncate (limit : Nat)
deriving DecidableEq, Repr

def step (ops : FloatOps) (v : PV) : Op → PV
  | .extend e => match extend ops v e with
    | .ok v' => v'
    | .error _ => v
  | .truncate n => truncate n v

def run (ops : FloatOps) (v : PV) (h : List Op) : PV := h.foldl (step ops) v

/-! ### list model of the items (the spec side of `extend`/`truncate`) -/

/-- one stored item, independent of the container -/
inductive Item
  | text (s : List Char)
  | int (n : Int)
  | float (bits : Nat)
  | other (s : List Char)
deriving DecidableEq, Repr

/-- the items of a value, in order -/
def PV.items : PV → List Item
  | .empty => []
  | .str s => [.text s]
  | .strs l => l.map .text
  | .tags l | .date l | .dateTime l | .time l => l.map .other
  | .ints _ l => l.map .int
  | .f32 l | .f64 l => l.map .float

/-! ### wrappers -/

/-- `Value<I, P>`: primitive, data set sequence (items), pixel fragment sequence
(offset table, fragments). Items and fragments are carried as opaque identifiers. -/
inductive Val
  | prim (v : PV)
  | seq (items : List Nat)
  | pix (offsets : List Nat) (frags : List Nat)
deriving DecidableEq, Repr

def Val.toInt (T : IntTy) : Val → Option Int
  | .prim v => NumConv.toInt T v
  | _ => none
def Val.toMultiInt (T : IntTy) : Val → Option (List Int)
  | .prim v => NumConv.toMultiInt T v
  | _ => none
def Val.toFloat (ops : FloatOps) (w : FW) : Val → Option FBits
  | .prim v => NumConv.toFloat ops w v
  | _ => none
def Val.toMultiFloat (ops : FloatOps) (w : FW) : Val → Option (List FBits)
  | .prim v => NumConv.toMultiFloat ops w v
  | _ => none
/-- `Value::truncate`: items of a sequence, fragments of a pixel sequence (offset table kept) -/
def Val.truncate (limit : Nat) : Val → Val
  | .prim v => .prim (NumConv.truncate limit v)
  | .seq l => .seq (l.take limit)
  | .pix o f => .pix o (f.take limit)

end Dicom.NumConv
