/-
Model of the association requestor in `ul/src/association/client.rs`:
`ClientAssociationOptions::{with_presentation_context, max_pdu_length, create_a_associate_req,
process_a_association_resp, establish_impl}`, of `association/mod.rs::encode_pdu` and the
`send` implementations, and the composition requestor → wire → acceptor → wire → requestor with
the acceptor model of `Model/Assoc.lean`.

The PDU codec is a parameter: `w : Str → Str` is what a text field becomes when it is written
and read back (the reader applies `str::trim`); the PDU writer used by `encode_pdu` is a
parameter returning the encoded bytes.
-/
import DicomModel.Model.Util
import DicomModel.Model.Assoc
namespace Dicom.Assoc

/-! ### requestor options -/

structure ClientOpts where
  calling : Str := "THIS-SCU".toList
  called : Option Str := none
  appContext : Str := DEFAULT_APP_CONTEXT
  /-- (abstract syntax, transfer syntaxes), stored as trimmed by the builder -/
  contexts : List (Str × List Str) := []
  protocolVersion : Nat := 1
  maxPdu : Nat := DEFAULT_MAX_PDU
  strict : Bool := true
  extNeg : List (Str × Bytes) := []
  roles : List (Str × Bool × Bool) := []
  /-- result of `determine_user_identity` -/
  identity : Option UserIdentity := none
deriving DecidableEq, Repr

/-- `with_presentation_context` -/
def ClientOpts.withContext (o : ClientOpts) (a : Str) (tss : List Str) : ClientOpts :=
  { o with contexts := o.contexts ++ [(trimUid a, tss.map trimUid)] }
/-- `max_pdu_length` -/
def ClientOpts.withMaxPdu (o : ClientOpts) (n : Nat) : ClientOpts :=
  { o with maxPdu := min n MAXIMUM_PDU_SIZE }

inductive ClientErr
  | missingAbstractSyntax | tooManyContexts | protocolVersion | noneAccepted | rejected
  | unexpectedPdu | unknownPdu | receive
deriving DecidableEq, Repr

/-- `.enumerate().map(|(i, pc)| PresentationContextProposed { id: (2 * i + 1) as u8, .. })`;
the `as u8` cast wraps. -/
def proposeFrom : Nat → List (Str × List Str) → List Proposed
  | _, [] => []
  | i, (a, tss) :: rest => ⟨(2 * i + 1) % 256, a, tss⟩ :: proposeFrom (i + 1) rest

/-- `create_a_associate_req`. `shipped`: identifiers wrap beyond 128 contexts;
`repaired`: more than 128 contexts is an error. -/
def createRq (v : Variant) (impl : Impl) (o : ClientOpts) (aeTitle : Option Str) :
    Except ClientErr (List Proposed × Request) :=
  if o.contexts.isEmpty then .error .missingAbstractSyntax
  else if v = .repaired ∧ o.contexts.length > 128 then .error .tooManyContexts
  else
    let called := match o.called, aeTitle with
      | some c, _ => c
      | none, some a => a
      | none, none => "ANY-SCP".toList
    let proposed := proposeFrom 0 o.contexts
    let uvs := [UserVar.maxLength o.maxPdu, .implClassUid impl.classUid, .implVersion impl.versionName]
      ++ o.extNeg.map (fun (u, d) => UserVar.extNeg u d)
      ++ o.roles.map (fun (u, a, b) => UserVar.role u a b)
      ++ (match o.identity with | some u => [UserVar.identity u] | none => [])
    .ok (proposed, ⟨o.protocolVersion, o.calling, called, o.appContext, proposed, uvs⟩)

/-- what the requestor keeps (`NegotiatedOptions` as stored in `ClientAssociation`) -/
structure ClientView where
  contexts : List Negotiated
  peerMaxPdu : Nat
  localMaxPdu : Nat
  userVars : List UserVar
  peerAeTitle : Str
deriving DecidableEq, Repr

def firstMaxLength : List UserVar → Option Nat
  | [] => none
  | .maxLength n :: _ => some n
  | _ :: r => firstMaxLength r

/-- `process_a_association_resp` -/
def processResp (o : ClientOpts) (resp : Pdu) (proposed : List Proposed) : Except ClientErr ClientView :=
  match resp with
  | .assocAC ac =>
    if o.protocolVersion ≠ ac.protocolVersion then .error .protocolVersion
    else
      let m := (firstMaxLength ac.userVars).getD DEFAULT_MAX_PDU
      let m := if m = 0 then MAXIMUM_PDU_SIZE else min m MAXIMUM_PDU_SIZE
      let cs := (ac.contexts.filter fun c =>
          c.reason = .acceptance && proposed.any (fun p => p.id == c.id)).filterMap fun c =>
        (proposed.find? (fun p => p.id == c.id)).map fun p =>
          (⟨c.id, c.reason, c.transferSyntax, p.abstractSyntax⟩ : Negotiated)
      if cs.isEmpty then .error .noneAccepted
      else .ok ⟨cs, m, o.maxPdu, ac.userVars, ac.called⟩
  | .assocRJ _ _ => .error .rejected
  | .unknown _ => .error .unknownPdu
  | _ => .error .unexpectedPdu

/-! ### the wire between the two -/

def wirePc (w : Str → Str) (p : Proposed) : Proposed :=
  ⟨p.id, w p.abstractSyntax, p.transferSyntaxes.map w⟩

def wireUv (w : Str → Str) : UserVar → UserVar
  | .implClassUid s => .implClassUid (w s)
  | .implVersion s => .implVersion (w s)
  | .extNeg u d => .extNeg (w u) d
  | .role u a b => .role (w u) a b
  | u => u

def wireRq (w : Str → Str) (q : Request) : Request :=
  ⟨q.protocolVersion, w q.calling, w q.called, w q.appContext, q.contexts.map (wirePc w),
   q.userVars.map (wireUv w)⟩

def wirePdu (w : Str → Str) : Pdu → Pdu
  | .assocRQ q => .assocRQ (wireRq w q)
  | .assocAC a => .assocAC ⟨a.protocolVersion, w a.calling, w a.called, w a.appContext,
      a.contexts.map (fun c => ⟨c.id, c.reason, w c.transferSyntax⟩), a.userVars.map (wireUv w)⟩
  | p => p

/-- both ends of one association attempt -/
structure Both where
  server : Except ErrKind ServerView
  client : Except ClientErr ClientView

/-- `establish_impl` against `ServerAssociationOptions::establish`, PDUs travelling through `w`.
The requestor reads the answer with its own maximum PDU length, which the reader refuses when it
is below the minimum (the request has been sent by then). -/
def associate (v : Variant) (w : Str → Str) (impl : Impl) (o : ClientOpts) (aeTitle : Option Str)
    (cfg : Config) (reg : List Str) (pol : Policy) : Except ClientErr Both :=
  match createRq v impl o aeTitle with
  | .error e => .error e
  | .ok (proposed, rq) =>
    let out := processRq v cfg reg pol impl (.assocRQ (wireRq w rq))
    let client := if o.maxPdu < MINIMUM_PDU_SIZE then .error .receive
      else processResp o (wirePdu w out.reply) proposed
    .ok ⟨out.result, client⟩

/-! ### sending -/

inductive SendErr
  | sendPdu | tooLong (length : Nat)
deriving DecidableEq, Repr

/-- `encode_pdu(buffer, pdu, peer_max_pdu_length)`: `write` is the PDU writer -/
def encodePdu {α : Type} (write : α → Option Bytes) (pdu : α) (limit : Nat) : Except SendErr Bytes :=
  match write pdu with
  | none => .error .sendPdu
  | some bs => if bs.length > limit then .error (.tooLong bs.length) else .ok bs

/-- `send` of either side: encode against the peer's maximum plus the PDU header, then put the
bytes on the wire. State = the PDUs written so far. -/
def send {α : Type} (write : α → Option Bytes) (peerMax : Nat) (wire : List Bytes) (pdu : α) :
    Except SendErr Unit × List Bytes :=
  match encodePdu write pdu (peerMax + PDU_HEADER_SIZE) with
  | .ok bs => (.ok (), wire ++ [bs])
  | .error e => (.error e, wire)

/-- a whole script of sends -/
def sendAll {α : Type} (write : α → Option Bytes) (peerMax : Nat) (wire : List Bytes) :
    List α → List Bytes
  | [] => wire
  | p :: ps => sendAll write peerMax (send write peerMax wire p).2 ps

/-- encoded size of a P-DATA-TF PDU with the given PDV payload sizes (`write_pdu`):
6 bytes of PDU header, and per PDV 4 bytes of length + context id + control header -/
def pdataLen (pdvs : List Nat) : Nat := 6 + (pdvs.map (· + 6)).sum

end Dicom.Assoc

namespace Dicom.Assoc

/-- `str::trim`: what the PDU reader does to every text field (the writer adds no white space
to UIDs; AE titles are space-padded to 16 and trimmed back) -/
def wireTrim (s : Str) : Str := ((s.dropWhile isWs).reverse.dropWhile isWs).reverse

end Dicom.Assoc
