/-
`ValidPS35` — an independent structural checker of an encoded data set (PS3.5 §7.1, §7.5, §A.4),
written from the standard and NOT from the dicom-rs writer or reader. It shares only the integer
codecs (`rd16`/`rd32`) and the list of VR names with the rest of the model.

It accepts a byte string iff it is a sequence of data elements such that
  * every explicit-VR header carries one of the 34 VR codes, uses the 16-bit length form exactly for
    the PS3.5 short VRs and has zero reserved bytes otherwise;
  * every defined value length is even and that many bytes follow;
  * a sequence (VR SQ; in Implicit VR: a tag the caller declares a sequence, or any undefined-length
    element other than Pixel Data) consists of items `(FFFE,E000)`; a defined-length sequence / item ends
    exactly where its length says; an undefined-length one is closed by the matching delimiter
    `(FFFE,E0DD)` / `(FFFE,E00D)` with zero length; no delimiter appears anywhere else;
  * undefined length otherwise occurs only on Pixel Data (7FE0,0010) (VR OB/OW), whose content is a
    sequence of defined, even-length fragments closed by a sequence delimiter;
  * a non-empty value of a text VR does not end in NUL, a UI value does not end in a space
    (padding byte rule as far as it is visible in the bytes alone).
It returns the primitive values met, in document order, so that the caller can check the padding
byte of every value against the original (`padOk`).

  validPS35 ts isSeq bs : Bool        parsePS35 ts isSeq bs : Option (List PVal)
-/
import DicomModel.Model.Bytes
import DicomModel.Model.VR
namespace Dicom.Valid

/-- transfer syntax as the validator sees it -/
structure Cfg where
  explicit : Bool
  bigEndian : Bool
  /-- Implicit VR only: tags known to be sequences -/
  isSeq : Nat → Nat → Bool

structure PVal where
  group : Nat
  elem : Nat
  vr : Option VR
  value : Bytes
deriving Repr, DecidableEq

def shortVrs : List VR :=
  [.AE, .AS, .AT, .CS, .DA, .DS, .DT, .FL, .FD, .IS, .LO, .LT, .PN, .SH, .SL, .SS, .ST, .TM, .UI, .UL, .US]

def textVrs : List VR := [.AE, .AS, .CS, .DA, .DS, .DT, .IS, .LO, .LT, .PN, .SH, .ST, .TM, .UC, .UR, .UT]

def vrOfCode (a b : Nat) : Option VR :=
  VR.ctors.find? fun v => v.name.toList.map Char.toNat == [a, b]

def undef : Nat := 0xFFFFFFFF

/-- the padding byte PS3.5 prescribes for a VR -/
def specPad (vr : VR) : Nat := if textVrs.contains vr then 0x20 else 0

/-- visible part of the padding rule -/
def trailOk (vr : Option VR) (v : Bytes) : Bool :=
  match vr, v.getLast? with
  | some vr, some last =>
    if textVrs.contains vr then last != 0 else if vr == .UI then last != 0x20 else true
  | _, _ => true

/-- tag and 32-bit length (items, delimiters) -/
def rdTagLen (c : Cfg) (bs : Bytes) : Option (Nat × Nat × Nat × Bytes) :=
  match rd16 c.bigEndian bs with
  | some (g, r1) => match rd16 c.bigEndian r1 with
    | some (e, r2) => match rd32 c.bigEndian r2 with
      | some (l, r3) => some (g, e, l, r3)
      | none => none
    | none => none
  | none => none

/-- element header: group, element, VR (explicit), length, rest -/
def rdHeader (c : Cfg) (bs : Bytes) : Option (Nat × Nat × Option VR × Nat × Bytes) :=
  match rd16 c.bigEndian bs with
  | some (g, r1) => match rd16 c.bigEndian r1 with
    | some (e, r2) =>
      if c.explicit then
        match r2 with
        | a :: b :: r3 =>
          match vrOfCode a b with
          | none => none
          | some vr =>
            if shortVrs.contains vr then
              match rd16 c.bigEndian r3 with
              | some (l, r4) => some (g, e, some vr, l, r4)
              | none => none
            else match r3 with
              | 0 :: 0 :: r4 => match rd32 c.bigEndian r4 with
                | some (l, r5) => some (g, e, some vr, l, r5)
                | none => none
              | _ => none
        | _ => none
      else match rd32 c.bigEndian r2 with
        | some (l, r3) => some (g, e, none, l, r3)
        | none => none
    | none => none
  | none => none

/-- fragments of encapsulated pixel data up to and including the sequence delimiter -/
def vFrags (c : Cfg) : Nat → Bytes → Option Bytes
  | 0, _ => none
  | fuel + 1, bs =>
    match rdTagLen c bs with
    | some (0xFFFE, 0xE0DD, 0, r) => some r
    | some (0xFFFE, 0xE000, l, r) =>
      if l = undef ∨ l % 2 ≠ 0 then none
      else match takeN l r with
        | some (_, r') => vFrags c fuel r'
        | none => none
    | _ => none

/-- is the element a sequence of items? explicit VR: VR SQ; Implicit VR: a tag the caller declares a
sequence, or any undefined-length element other than Pixel Data -/
def isSqOf (c : Cfg) (g e : Nat) (vr : Option VR) (l : Nat) : Bool :=
  match vr with
  | some v => v == VR.SQ
  | none => c.isSeq g e || (l == undef && !(g == 0x7FE0 && e == 0x0010))

inductive Stop where
  | atEnd | atDelim
deriving DecidableEq, Repr

mutual
/-- elements until the end of the region (`atEnd`) or an item delimiter (`atDelim`);
returns the values met and what follows the region -/
def vElems (c : Cfg) : Nat → Stop → Bytes → Option (List PVal × Bytes)
  | 0, _, _ => none
  | fuel + 1, stop, bs =>
    if bs.isEmpty then (if stop = .atEnd then some ([], []) else none)
    else match rdHeader { c with explicit := false } bs with   -- peek: tag + 32 bits
      | none => none
      | some (g, e, _, l0, r0) =>
        if g = 0xFFFE then
          (if e = 0xE00D ∧ l0 = 0 ∧ stop = .atDelim then some ([], r0) else none)
        else match rdHeader c bs with
          | none => none
          | some (_, _, vr, l, r) =>
            if isSqOf c g e vr l then
              if l = undef then
                match vItems c fuel .atDelim r with
                | some (vs, r') => match vElems c fuel stop r' with
                  | some (ws, r'') => some (vs ++ ws, r'')
                  | none => none
                | none => none
              else if l % 2 ≠ 0 then none
              else match takeN l r with
                | none => none
                | some (region, r') =>
                  match vItems c fuel .atEnd region with
                  | some (vs, []) => match vElems c fuel stop r' with
                    | some (ws, r'') => some (vs ++ ws, r'')
                    | none => none
                  | _ => none
            else if l = undef then
              if g = 0x7FE0 ∧ e = 0x0010 ∧ (vr = none ∨ vr = some VR.OB ∨ vr = some VR.OW) then
                match vFrags c fuel r with
                | some r' => vElems c fuel stop r'
                | none => none
              else none
            else if l % 2 ≠ 0 then none
            else match takeN l r with
              | none => none
              | some (v, r') =>
                if trailOk vr v then
                  match vElems c fuel stop r' with
                  | some (ws, r'') => some (⟨g, e, vr, v⟩ :: ws, r'')
                  | none => none
                else none
/-- items until the end of the region (`atEnd`) or a sequence delimiter (`atDelim`) -/
def vItems (c : Cfg) : Nat → Stop → Bytes → Option (List PVal × Bytes)
  | 0, _, _ => none
  | fuel + 1, stop, bs =>
    if bs.isEmpty then (if stop = .atEnd then some ([], []) else none)
    else match rdTagLen c bs with
      | some (0xFFFE, 0xE0DD, 0, r) => if stop = .atDelim then some ([], r) else none
      | some (0xFFFE, 0xE000, l, r) =>
        if l = undef then
          match vElems c fuel .atDelim r with
          | some (vs, r') => match vItems c fuel stop r' with
            | some (ws, r'') => some (vs ++ ws, r'')
            | none => none
          | none => none
        else if l % 2 ≠ 0 then none
        else match takeN l r with
          | none => none
          | some (region, r') =>
            match vElems c fuel .atEnd region with
            | some (vs, []) => match vItems c fuel stop r' with
              | some (ws, r'') => some (vs ++ ws, r'')
              | none => none
            | _ => none
      | _ => none
end

/-- parse a whole data set; `some values` iff structurally valid -/
def parsePS35 (c : Cfg) (bs : Bytes) : Option (List PVal) :=
  match vElems c (bs.length + 1) .atEnd bs with
  | some (vs, []) => some vs
  | _ => none

def validPS35 (c : Cfg) (bs : Bytes) : Bool := (parsePS35 c bs).isSome

end Dicom.Valid
