/-
Model of `core/src/value/partial.rs`, `deserialize.rs` (partial parsers), `range.rs` and the
`da/tm/dt_byte_len` part of `primitive.rs`: DICOM DA / TM / DT values with partial precision.

Text is a byte list (`&[u8]`).  Integers are `Nat` (the Rust types `u8/u16/u32` only bound the
*inputs*; every arithmetic expression of the modelled code stays far below the type's maximum for
inputs of those types, see the notes at each definition).  `FixedOffset` is its `local_minus_utc`
in seconds (`Int`).  chrono is modelled where the code calls it: `NaiveDate::from_ymd_opt` =
Gregorian validity (`daysInMonth`), `num_days` between dates = difference of `dayNumber`,
`NaiveTime::from_hms_micro_opt`, `FixedOffset` `Display`, and the orderings.  These chrono facts are
validated against the real library by the correspondence run (exhaustively for years 0–9999).
Errors are `none` (only the ok/err class is observable for the property).  No modelled function
can panic (all slice indexes are guarded by the preceding length tests, which the model repeats).
-/
import DicomModel.Model.Digits
namespace Dicom.Partial
open Dicom.Digits

/-! ## components and constructors (partial.rs) -/

inductive Comp where
  | year | month | day | hour | minute | second | millisecond | fraction | utcWest | utcEast
deriving DecidableEq, Repr

/-- `check_component`: is the value inside the component's range? -/
def checkComponent (c : Comp) (v : Nat) : Bool :=
  match c with
  | .year => v ≤ 9999
  | .month => 1 ≤ v && v ≤ 12
  | .day => 1 ≤ v && v ≤ 31
  | .hour => v ≤ 23
  | .minute => v ≤ 59
  | .second => v ≤ 60
  | .millisecond => v ≤ 999
  | .fraction => v ≤ 999999
  | .utcWest => v ≤ 12 * 3600
  | .utcEast => v ≤ 14 * 3600

inductive DicomDate where
  | year (y : Nat)
  | month (y m : Nat)
  | day (y m d : Nat)
deriving DecidableEq, Repr

inductive DicomTime where
  | hour (h : Nat)
  | minute (h m : Nat)
  | second (h m s : Nat)
  | fraction (h m s f fp : Nat)
deriving DecidableEq, Repr

structure DicomDateTime where
  date : DicomDate
  time : Option DicomTime
  tz : Option Int
deriving DecidableEq, Repr

namespace DicomDate
def fromY (y : Nat) : Option DicomDate :=
  if checkComponent .year y then some (.year y) else none
def fromYm (y m : Nat) : Option DicomDate :=
  if checkComponent .year y && checkComponent .month m then some (.month y m) else none
def fromYmd (y m d : Nat) : Option DicomDate :=
  if checkComponent .year y && checkComponent .month m && checkComponent .day d
  then some (.day y m d) else none

def yr : DicomDate → Nat
  | .year y => y | .month y _ => y | .day y _ _ => y
def mon : DicomDate → Option Nat
  | .year _ => none | .month _ m => some m | .day _ m _ => some m
def dy : DicomDate → Option Nat
  | .day _ _ d => some d | _ => none

def isPrecise (d : DicomDate) : Bool := d.dy.isSome

/-- `DicomDate::to_encoded` -/
def toEncoded : DicomDate → Bytes
  | .year y => fmtPad 4 y
  | .month y m => fmtPad 4 y ++ fmtPad 2 m
  | .day y m d => fmtPad 4 y ++ fmtPad 2 m ++ fmtPad 2 d

/-- `PrimitiveValue::da_byte_len` -/
def byteLen : DicomDate → Nat
  | .year _ => 4 | .month _ _ => 6 | .day _ _ _ => 8
end DicomDate

namespace DicomTime
def fromH (h : Nat) : Option DicomTime :=
  if checkComponent .hour h then some (.hour h) else none
def fromHm (h m : Nat) : Option DicomTime :=
  if checkComponent .hour h && checkComponent .minute m then some (.minute h m) else none
def fromHms (h m s : Nat) : Option DicomTime :=
  if checkComponent .hour h && checkComponent .minute m && checkComponent .second s
  then some (.second h m s) else none
/-- `from_hms_milli`: hour, minute and second are range-checked like in every other constructor
(since /repo commit 8fcd311; before it only the millisecond was checked). -/
def fromHmsMilli (h m s ms : Nat) : Option DicomTime :=
  if checkComponent .millisecond ms && checkComponent .hour h && checkComponent .minute m
      && checkComponent .second s
  then some (.fraction h m s ms 3) else none
/-- `from_hms_micro`, as above. -/
def fromHmsMicro (h m s us : Nat) : Option DicomTime :=
  if checkComponent .fraction us && checkComponent .hour h && checkComponent .minute m
      && checkComponent .second s
  then some (.fraction h m s us 6) else none
/-- `from_hmsf` (crate-private, used by the parser).  `fraction ≤ 10^fp ≤ 10^6` when the second
test passes, so `fraction * 10^(6-fp)` is at most `10^6·10^5 < 2^32`. -/
def fromHmsf (h m s fraction fp : Nat) : Option DicomTime :=
  if !(1 ≤ fp && fp ≤ 6) then none
  else if 10 ^ fp < fraction then none
  else if !(checkComponent .hour h && checkComponent .minute m && checkComponent .second s) then none
  else if !checkComponent .fraction (fraction * 10 ^ (6 - fp)) then none
  else some (.fraction h m s fraction fp)

def hr : DicomTime → Nat
  | .hour h => h | .minute h _ => h | .second h _ _ => h | .fraction h _ _ _ _ => h
def min : DicomTime → Option Nat
  | .hour _ => none | .minute _ m => some m | .second _ m _ => some m | .fraction _ m _ _ _ => some m
def sec : DicomTime → Option Nat
  | .second _ _ s => some s | .fraction _ _ s _ _ => some s | _ => none
def fracAndPrecision : DicomTime → Option (Nat × Nat)
  | .fraction _ _ _ f fp => some (f, fp) | _ => none

def isPrecise (t : DicomTime) : Bool :=
  match t.fracAndPrecision with
  | some (_, fp) => fp == 6
  | none => false

/-- `DicomTime::to_encoded`; the fraction is `(10^fp + f).to_string().get(1..)` -/
def toEncoded : DicomTime → Bytes
  | .hour h => fmtPad 2 h
  | .minute h m => fmtPad 2 h ++ fmtPad 2 m
  | .second h m s => fmtPad 2 h ++ fmtPad 2 m ++ fmtPad 2 s
  | .fraction h m s f fp => fmtPad 2 h ++ fmtPad 2 m ++ fmtPad 2 s ++ 46 :: (toDec (10 ^ fp + f)).drop 1

/-- `PrimitiveValue::tm_byte_len` -/
def byteLen : DicomTime → Nat
  | .hour _ => 2 | .minute _ _ => 4 | .second _ _ _ => 6 | .fraction _ _ _ _ fp => 7 + fp
end DicomTime

/-- chrono `Display for FixedOffset` (`+HH:MM`, or `+HH:MM:SS` when the seconds are not zero) -/
def offsetToString (o : Int) : Bytes :=
  let sign := if o < 0 then 45 else 43
  let a := o.natAbs
  let sec := a % 60
  let mins := a / 60
  let mn := mins % 60
  let hour := mins / 60
  if sec = 0 then sign :: (fmtPad 2 hour ++ 58 :: fmtPad 2 mn)
  else sign :: (fmtPad 2 hour ++ 58 :: (fmtPad 2 mn ++ 58 :: fmtPad 2 sec))

/-- `offset.to_string().replace(':', "")` -/
def offsetEncoded (o : Int) : Bytes := (offsetToString o).filter (· != 58)

namespace DicomDateTime
def fromDate (d : DicomDate) : DicomDateTime := ⟨d, none, none⟩
def fromDateWithTimeZone (d : DicomDate) (o : Int) : DicomDateTime := ⟨d, none, some o⟩
def fromDateAndTime (d : DicomDate) (t : DicomTime) : Option DicomDateTime :=
  if d.isPrecise then some ⟨d, some t, none⟩ else none
def fromDateAndTimeWithTimeZone (d : DicomDate) (t : DicomTime) (o : Int) : Option DicomDateTime :=
  if d.isPrecise then some ⟨d, some t, some o⟩ else none

/-- `DicomDateTime::to_encoded` -/
def toEncoded (v : DicomDateTime) : Bytes :=
  match v.time with
  | some t => match v.tz with
    | some o => v.date.toEncoded ++ t.toEncoded ++ offsetEncoded o
    | none => v.date.toEncoded ++ t.toEncoded
  | none => match v.tz with
    | some o => v.date.toEncoded ++ offsetEncoded o
    | none => v.date.toEncoded

/-- `PrimitiveValue::dt_byte_len` -/
def byteLen (v : DicomDateTime) : Nat :=
  v.date.byteLen + (match v.time with | some t => t.byteLen | none => 0)
    + (if v.tz.isSome then 5 else 0)
end DicomDateTime

/-- `calculate_byte_len` of a `Date`/`Time`/`DateTime` primitive value, given the per-item lengths:
`Σ (len + 1) & !1` -/
def calcByteLen (lens : List Nat) : Nat :=
  let s := (lens.map (· + 1)).sum
  s - s % 2

/-! ## parsers (deserialize.rs) -/

/-- `parse_date_partial` -/
def parseDatePartial (buf : Bytes) : Option (DicomDate × Bytes) :=
  if buf.length < 4 then none else
  match readNumber (buf.take 4) with
  | none => none
  | some year =>
    let buf := buf.drop 4
    if buf.length < 2 then (DicomDate.fromY year).map (·, buf) else
    match readNumber (buf.take 2) with
    | none => (DicomDate.fromY year).map (·, buf)
    | some month =>
      let buf := buf.drop 2
      if buf.length < 2 then (DicomDate.fromYm year month).map (·, buf) else
      match readNumber (buf.take 2) with
      | none => (DicomDate.fromYm year month).map (·, buf)
      | some day => (DicomDate.fromYmd year month day).map (·, buf.drop 2)

/-- `parse_time_partial` -/
def parseTimePartial (buf : Bytes) : Option (DicomTime × Bytes) :=
  if buf.length < 2 then none else
  match readNumber (buf.take 2) with
  | none => none
  | some hour =>
    let buf := buf.drop 2
    if buf.length < 2 then (DicomTime.fromH hour).map (·, buf) else
    match readNumber (buf.take 2) with
    | none => (DicomTime.fromH hour).map (·, buf)
    | some minute =>
      let buf := buf.drop 2
      if buf.length < 2 then (DicomTime.fromHm hour minute).map (·, buf) else
      match readNumber (buf.take 2) with
      | none => (DicomTime.fromHm hour minute).map (·, buf)
      | some second =>
        let buf := buf.drop 2
        if buf.length > 1 && buf.head? == some 46 then
          let buf := buf.drop 1
          let n := Nat.min 6 (leadingDigits buf)
          match readNumber (buf.take n) with
          | none => none
          | some fraction => (DicomTime.fromHmsf hour minute second fraction n).map (·, buf.drop n)
        else (DicomTime.fromHms hour minute second).map (·, buf)

/-- `FixedOffset::east_opt` / `west_opt` (argument already signed) -/
def fixedOffsetOpt (secs : Int) : Option Int :=
  if -86400 < secs ∧ secs < 86400 then some secs else none

/-- the time-zone suffix of `parse_datetime_partial`: `none` = error, `some none` = no suffix -/
def parseTzSuffix (buf : Bytes) : Option (Option Int) :=
  if buf.length = 0 then some none
  else if buf.length > 4 then
    match buf with
    | sign :: rest =>
      match readNumber (rest.take 2) with
      | none => none
      | some tzH =>
        match readNumber ((rest.drop 2).take 2) with
        | none => none
        | some tzM =>
          let s := (tzH * 60 + tzM) * 60
          if sign = 43 then
            if checkComponent .utcEast s then (fixedOffsetOpt (Int.ofNat s)).map some else none
          else if sign = 45 then
            if checkComponent .utcWest s then (fixedOffsetOpt (- Int.ofNat s)).map some else none
          else none
    | [] => none
  else none

/-- `parse_datetime_partial` -/
def parseDateTimePartial (buf : Bytes) : Option DicomDateTime :=
  match parseDatePartial buf with
  | none => none
  | some (date, rest) =>
    let (time, buf) := match parseTimePartial rest with
      | some (t, b) => (some t, b)
      | none => (none, rest)
    match parseTzSuffix buf with
    | none => none
    | some (some o) => match time with
      | some tm => DicomDateTime.fromDateAndTimeWithTimeZone date tm o
      | none => some (DicomDateTime.fromDateWithTimeZone date o)
    | some none => match time with
      | some tm => DicomDateTime.fromDateAndTime date tm
      | none => some (DicomDateTime.fromDate date)

/-! ## chrono: calendar dates, times of day, instants -/

def isLeap (y : Nat) : Bool := y % 4 == 0 && (y % 100 != 0 || y % 400 == 0)

def daysInMonth (y m : Nat) : Nat :=
  if m = 2 then (if isLeap y then 29 else 28)
  else if m = 4 ∨ m = 6 ∨ m = 9 ∨ m = 11 then 30
  else 31

structure NaiveDate where
  y : Nat
  m : Nat
  d : Nat
deriving DecidableEq, Repr

/-- `NaiveDate::from_ymd_opt` for years 0..=10000 (chrono's own year range is ±262142) -/
def NaiveDate.fromYmdOpt (y m d : Nat) : Option NaiveDate :=
  if 1 ≤ m ∧ m ≤ 12 ∧ 1 ≤ d ∧ d ≤ daysInMonth y m then some ⟨y, m, d⟩ else none

/-- days before the first of month `m` in a year -/
def daysBeforeMonth (leap : Bool) (m : Nat) : Nat :=
  let c := match m with
    | 1 => 0 | 2 => 31 | 3 => 59 | 4 => 90 | 5 => 120 | 6 => 151 | 7 => 181 | 8 => 212
    | 9 => 243 | 10 => 273 | 11 => 304 | _ => 334
  if leap && m > 2 then c + 1 else c

/-- days before 1 January of year `y`, counted from 0000-01-01 (year 0 is a leap year) -/
def daysBeforeYear (y : Nat) : Nat :=
  if y = 0 then 0 else 365 * y + (y - 1) / 4 - (y - 1) / 100 + (y - 1) / 400 + 1

/-- day count from 0000-01-01 (= chrono `num_days_from_ce() + 365`) -/
def NaiveDate.dayNumber (d : NaiveDate) : Nat :=
  daysBeforeYear d.y + daysBeforeMonth (isLeap d.y) d.m + (d.d - 1)

/-- chrono's `Ord for NaiveDate` (year, then ordinal) -/
def NaiveDate.le (a b : NaiveDate) : Bool :=
  a.y < b.y || (a.y == b.y && (a.m < b.m || (a.m == b.m && a.d ≤ b.d)))

structure NaiveTime where
  h : Nat
  m : Nat
  s : Nat
  /-- microseconds; 1 000 000 ≤ f < 2 000 000 only for chrono's leap-second representation -/
  f : Nat
deriving DecidableEq, Repr

/-- `NaiveTime::from_hms_micro_opt` -/
def NaiveTime.fromHmsMicroOpt (h m s f : Nat) : Option NaiveTime :=
  if h < 24 ∧ m < 60 ∧ s < 60 ∧ (f < 1000000 ∨ (s = 59 ∧ f < 2000000)) then some ⟨h, m, s, f⟩ else none

def NaiveTime.secs (t : NaiveTime) : Nat := t.h * 3600 + t.m * 60 + t.s

/-- chrono's `Ord for NaiveTime` (seconds of day, then fraction) -/
def NaiveTime.le (a b : NaiveTime) : Bool :=
  a.secs < b.secs || (a.secs == b.secs && a.f ≤ b.f)

/-- `PreciseDateTime`: naive, or aware (local date and time plus offset) -/
inductive Precise where
  | naive (d : NaiveDate) (t : NaiveTime)
  | aware (d : NaiveDate) (t : NaiveTime) (o : Int)
deriving DecidableEq, Repr

/-- seconds from 0000-01-01T00:00:00 of the local clock reading -/
def localSecs (d : NaiveDate) (t : NaiveTime) : Int :=
  Int.ofNat (d.dayNumber * 86400 + t.secs)

/-- `NaiveDateTime` order: (date, time) lexicographic -/
def naiveLe (d1 : NaiveDate) (t1 : NaiveTime) (d2 : NaiveDate) (t2 : NaiveTime) : Bool :=
  (d1.le d2 && d1 != d2) || (d1 == d2 && t1.le t2)

/-- `DateTime<FixedOffset>` order: by UTC instant (`local − offset`), then fraction -/
def awareLe (d1 : NaiveDate) (t1 : NaiveTime) (o1 : Int) (d2 : NaiveDate) (t2 : NaiveTime) (o2 : Int) : Bool :=
  let u1 := localSecs d1 t1 - o1
  let u2 := localSecs d2 t2 - o2
  u1 < u2 || (u1 == u2 && t1.f ≤ t2.f)

/-- `PartialOrd for PreciseDateTime`: only like variants compare -/
def Precise.le? : Precise → Precise → Option Bool
  | .naive d1 t1, .naive d2 t2 => some (naiveLe d1 t1 d2 t2)
  | .aware d1 t1 o1, .aware d2 t2 o2 => some (awareLe d1 t1 o1 d2 t2 o2)
  | _, _ => none

/-! ## AsRange (range.rs) -/

namespace DicomDate
/-- `AsRange::earliest` -/
def earliest (v : DicomDate) : Option NaiveDate :=
  NaiveDate.fromYmdOpt v.yr (v.mon.getD 1) (v.dy.getD 1)

/-- `AsRange::latest`; for a missing day: `(first of next month − first of this month).num_days()` -/
def latest (v : DicomDate) : Option NaiveDate :=
  let y := v.yr
  let m := v.mon.getD 12
  match v.dy with
  | some d => NaiveDate.fromYmdOpt y m d
  | none =>
    match (if m = 12 then NaiveDate.fromYmdOpt (y + 1) 1 1 else NaiveDate.fromYmdOpt y (m + 1) 1),
          NaiveDate.fromYmdOpt y m 1 with
    | some next, some first => NaiveDate.fromYmdOpt y m (next.dayNumber - first.dayNumber)
    | _, _ => none

/-- `AsRange::exact` / `to_naive_date` -/
def exact (v : DicomDate) : Option NaiveDate := if v.isPrecise then v.earliest else none
end DicomDate

namespace DicomTime
/-- `AsRange::earliest` (`f * 10^(6-fp)`; `u32::pow(10, 6 - fp)` needs `fp ≤ 6`, true of every
constructible value).  A leap second `hh:mm:60.f` is handed to chrono in chrono's representation:
second 59 with `1_000_000 + f` microseconds (/repo fix 011408a; before it second 60 was passed on
and chrono refused it). -/
def earliest (v : DicomTime) : Option NaiveTime :=
  let f := match v.fracAndPrecision with
    | none => 0
    | some (f, fp) => f * 10 ^ (6 - fp)
  let s := v.sec.getD 0
  if s = 60 then NaiveTime.fromHmsMicroOpt v.hr (v.min.getD 0) 59 (f + 1000000)
  else NaiveTime.fromHmsMicroOpt v.hr (v.min.getD 0) s f

/-- `AsRange::latest` -/
def latest (v : DicomTime) : Option NaiveTime :=
  let f := match v.fracAndPrecision with
    | none => 999999
    | some (f, fp) => f * 10 ^ (6 - fp) + 10 ^ (6 - fp) - 1
  let s := v.sec.getD 59
  if s = 60 then NaiveTime.fromHmsMicroOpt v.hr (v.min.getD 59) 59 (f + 1000000)
  else NaiveTime.fromHmsMicroOpt v.hr (v.min.getD 59) s f

def exact (v : DicomTime) : Option NaiveTime := if v.isPrecise then v.earliest else none
/-- `to_naive_time` -/
def toNaiveTime (v : DicomTime) : Option NaiveTime := if v.sec.isSome then v.earliest else none
end DicomTime

namespace DicomDateTime
def isPrecise (v : DicomDateTime) : Bool :=
  match v.time with | some t => t.isPrecise | none => false

/-- `offset.from_local_datetime(..).single()`: always `Some` for a fixed offset and years 0–10000 -/
def mkPrecise (tz : Option Int) (d : NaiveDate) (t : NaiveTime) : Precise :=
  match tz with
  | some o => .aware d t o
  | none => .naive d t

def earliest (v : DicomDateTime) : Option Precise :=
  match v.date.earliest with
  | none => none
  | some d =>
    match (match v.time with | some t => t.earliest | none => NaiveTime.fromHmsMicroOpt 0 0 0 0) with
    | none => none
    | some t => some (mkPrecise v.tz d t)

def latest (v : DicomDateTime) : Option Precise :=
  match v.date.latest with
  | none => none
  | some d =>
    match (match v.time with | some t => t.latest | none => NaiveTime.fromHmsMicroOpt 23 59 59 999999) with
    | none => none
    | some t => some (mkPrecise v.tz d t)

def exact (v : DicomDateTime) : Option Precise := if v.isPrecise then v.earliest else none
end DicomDateTime

/-! ## ranges (range.rs) -/

structure DateRange where
  start : Option NaiveDate
  stop : Option NaiveDate
deriving DecidableEq, Repr

structure TimeRange where
  start : Option NaiveTime
  stop : Option NaiveTime
deriving DecidableEq, Repr

/-- `DateTimeRange`; `aware = true` is the `TimeZone` variant -/
structure DateTimeRange where
  aware : Bool
  start : Option Precise
  stop : Option Precise
deriving DecidableEq, Repr

/-- `DateRange::from_start_to_end` (error on inversion) -/
def DateRange.fromStartToEnd (s e : NaiveDate) : Option DateRange :=
  if e.le s && s != e then none else some ⟨some s, some e⟩

def TimeRange.fromStartToEnd (s e : NaiveTime) : Option TimeRange :=
  if e.le s && s != e then none else some ⟨some s, some e⟩

/-- `buf.iter().position(|e| *e == b'-')` -/
def dashPosition : Bytes → Option Nat
  | [] => none
  | b :: rest => if b = 45 then some 0 else (dashPosition rest).map (· + 1)

/-- `parse_date_range` -/
def parseDateRange (buf : Bytes) : Option DateRange :=
  if buf.length < 5 then none else
  match dashPosition buf with
  | none => none
  | some sep =>
    let start := buf.take sep
    let stop := buf.drop (sep + 1)
    if sep = 0 then
      match parseDatePartial stop with
      | none => none
      | some (d, _) => d.latest.map fun e => ⟨none, some e⟩
    else if sep = buf.length - 1 then
      match parseDatePartial start with
      | none => none
      | some (d, _) => d.earliest.map fun s => ⟨some s, none⟩
    else
      match parseDatePartial start with
      | none => none
      | some (a, _) =>
        match a.earliest with
        | none => none
        | some s =>
          match parseDatePartial stop with
          | none => none
          | some (b, _) =>
            match b.latest with
            | none => none
            | some e => DateRange.fromStartToEnd s e

/-- `parse_time_range` -/
def parseTimeRange (buf : Bytes) : Option TimeRange :=
  if buf.length < 3 then none else
  match dashPosition buf with
  | none => none
  | some sep =>
    let start := buf.take sep
    let stop := buf.drop (sep + 1)
    if sep = 0 then
      match parseTimePartial stop with
      | none => none
      | some (t, _) => t.latest.map fun e => ⟨none, some e⟩
    else if sep = buf.length - 1 then
      match parseTimePartial start with
      | none => none
      | some (t, _) => t.earliest.map fun s => ⟨some s, none⟩
    else
      match parseTimePartial start with
      | none => none
      | some (a, _) =>
        match a.earliest with
        | none => none
        | some s =>
          match parseTimePartial stop with
          | none => none
          | some (b, _) =>
            match b.latest with
            | none => none
            | some e => TimeRange.fromStartToEnd s e

/-- the `AmbiguousDtRangeParser` implementations that do not read the system clock -/
inductive Ambig where
  | toKnown | failOn | ignoreTz
deriving DecidableEq, Repr

/-- strict `>` of chrono on like variants -/
def gtNaive (d1 : NaiveDate) (t1 : NaiveTime) (d2 : NaiveDate) (t2 : NaiveTime) : Bool :=
  !(naiveLe d1 t1 d2 t2)
def gtAware (d1 : NaiveDate) (t1 : NaiveTime) (o1 : Int) (d2 : NaiveDate) (t2 : NaiveTime) (o2 : Int) : Bool :=
  !(awareLe d1 t1 o1 d2 t2 o2)

/-- the four-way `match (start, end)` of `parse_datetime_range_impl`, with the inversion tests of
`from_start_to_end(_with_time_zone)` and of the ambiguity handlers -/
def mkDateTimeRange (amb : Ambig) (s e : Precise) : Option DateTimeRange :=
  match s, e with
  | .naive d1 t1, .naive d2 t2 =>
    if gtNaive d1 t1 d2 t2 then none else some ⟨false, some s, some e⟩
  | .aware d1 t1 o1, .aware d2 t2 o2 =>
    if gtAware d1 t1 o1 d2 t2 o2 then none else some ⟨true, some s, some e⟩
  | .naive d1 t1, .aware d2 t2 o2 =>
    match amb with
    | .toKnown => if gtAware d1 t1 o2 d2 t2 o2 then none else some ⟨true, some (.aware d1 t1 o2), some e⟩
    | .failOn => none
    | .ignoreTz => if gtNaive d1 t1 d2 t2 then none else some ⟨false, some s, some (.naive d2 t2)⟩
  | .aware d1 t1 o1, .naive d2 t2 =>
    match amb with
    | .toKnown => if gtAware d1 t1 o1 d2 t2 o1 then none else some ⟨true, some s, some (.aware d2 t2 o1)⟩
    | .failOn => none
    | .ignoreTz => if gtNaive d1 t1 d2 t2 then none else some ⟨false, some (.naive d1 t1), some e⟩

/-- indexes of all `-`, counting from `i` (`enumerate().filter(..).map(..).collect()`) -/
def dashIndexesFrom (i : Nat) : Bytes → List Nat
  | [] => []
  | b :: rest => if b = 45 then i :: dashIndexesFrom (i + 1) rest else dashIndexesFrom (i + 1) rest

def dashIndexes (buf : Bytes) : List Nat := dashIndexesFrom 0 buf

/-- split at `sep` and build the range from `earliest` of the left and `latest` of the right part -/
def dtRangeAt (amb : Ambig) (buf : Bytes) (sep : Nat) : Option DateTimeRange :=
  match parseDateTimePartial (buf.take sep) with
  | none => none
  | some a =>
    match a.earliest with
    | none => none
    | some s =>
      match parseDateTimePartial (buf.drop (sep + 1)) with
      | none => none
      | some b =>
        match b.latest with
        | none => none
        | some e => mkDateTimeRange amb s e

/-- `parse_datetime_range_impl::<T>` -/
def parseDateTimeRange (amb : Ambig) (buf : Bytes) : Option DateTimeRange :=
  if buf.length < 5 then none else
  if buf.head? = some 45 then
    match parseDateTimePartial (buf.drop 1) with
    | none => none
    | some b => match b.latest with
      | none => none
      | some e => some ⟨(match e with | .aware .. => true | .naive .. => false), none, some e⟩
  else if buf.getLast? = some 45 then
    match parseDateTimePartial (buf.take (buf.length - 1)) with
    | none => none
    | some a => match a.earliest with
      | none => none
      | some s => some ⟨(match s with | .aware .. => true | .naive .. => false), some s, none⟩
  else
    match dashIndexes buf with
    | [] => none
    | [d0] => dtRangeAt amb buf d0
    | [d0, d1] =>
      -- one west offset somewhere: try the first dash; a parse error of either side, or an error
      -- of the range construction, selects the second dash; an error of `earliest`/`latest`
      -- is returned (`?`)
      match parseDateTimePartial (buf.take d0), parseDateTimePartial (buf.drop (d0 + 1)) with
      | some a, some b =>
        match a.earliest with
        | none => none
        | some s =>
          match b.latest with
          | none => none
          | some e =>
            match mkDateTimeRange amb s e with
            | some r => some r
            | none => dtRangeAt amb buf d1
      | _, _ => dtRangeAt amb buf d1
    | [_, d1, _] => dtRangeAt amb buf d1
    | _ => none

end Dicom.Partial
