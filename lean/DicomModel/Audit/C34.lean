import DicomModel.AuditTool
import DicomModel.Props.C34
#audit_module DicomModel.Props.C34
