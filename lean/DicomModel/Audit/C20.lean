import DicomModel.AuditTool
import DicomModel.Props.C20
#audit_module DicomModel.Props.C20
