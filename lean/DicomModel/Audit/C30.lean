import DicomModel.AuditTool
import DicomModel.Props.C30
#audit_module DicomModel.Props.C30
