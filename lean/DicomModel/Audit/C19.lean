import DicomModel.AuditTool
import DicomModel.Props.C19
#audit_module DicomModel.Props.C19
