import DicomModel.AuditTool
import DicomModel.Props.C24
#audit_module DicomModel.Props.C24
