import DicomModel.AuditTool
import DicomModel.Props.C25
#audit_module DicomModel.Props.C25
