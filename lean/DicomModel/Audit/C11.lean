import DicomModel.AuditTool
import DicomModel.Props.C11
#audit_module DicomModel.Props.C11
