import DicomModel.AuditTool
import DicomModel.Props.C08
#audit_module DicomModel.Props.C08
