import DicomModel.AuditTool
import DicomModel.Props.C26
#audit_module DicomModel.Props.C26
