import DicomModel.AuditTool
import DicomModel.Props.C13
#audit_module DicomModel.Props.C13
