import DicomModel.AuditTool
import DicomModel.Props.C21
#audit_module DicomModel.Props.C21
