import DicomModel.AuditTool
import DicomModel.Props.C15
#audit_module DicomModel.Props.C15
