import DicomModel.AuditTool
import DicomModel.Props.C29
#audit_module DicomModel.Props.C29
