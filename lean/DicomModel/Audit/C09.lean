import DicomModel.AuditTool
import DicomModel.Props.C09
#audit_module DicomModel.Props.C09
