import DicomModel.AuditTool
import DicomModel.Props.C01
#audit_module DicomModel.Props.C01
