import DicomModel.AuditTool
import DicomModel.Props.C07
#audit_module DicomModel.Props.C07
