import DicomModel.AuditTool
import DicomModel.Props.C17
#audit_module DicomModel.Props.C17
