import DicomModel.AuditTool
import DicomModel.Props.C27
#audit_module DicomModel.Props.C27
