import DicomModel.AuditTool
import DicomModel.Props.C35
#audit_module DicomModel.Props.C35
