import DicomModel.AuditTool
import DicomModel.Props.C12
#audit_module DicomModel.Props.C12
