import DicomModel.AuditTool
import DicomModel.Props.C18
#audit_module DicomModel.Props.C18
