import DicomModel.AuditTool
import DicomModel.Props.C23
#audit_module DicomModel.Props.C23
