import DicomModel.AuditTool
import DicomModel.Props.C06
#audit_module DicomModel.Props.C06
