import DicomModel.AuditTool
import DicomModel.Props.C31
#audit_module DicomModel.Props.C31
