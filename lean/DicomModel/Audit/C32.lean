import DicomModel.AuditTool
import DicomModel.Props.C32
#audit_module DicomModel.Props.C32
