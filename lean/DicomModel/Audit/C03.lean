import DicomModel.AuditTool
import DicomModel.Props.C03
#audit_module DicomModel.Props.C03
