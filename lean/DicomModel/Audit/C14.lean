import DicomModel.AuditTool
import DicomModel.Props.C14
#audit_module DicomModel.Props.C14
