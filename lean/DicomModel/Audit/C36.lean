import DicomModel.AuditTool
import DicomModel.Props.C36
#audit_module DicomModel.Props.C36
