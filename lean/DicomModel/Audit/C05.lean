import DicomModel.AuditTool
import DicomModel.Props.C05
#audit_module DicomModel.Props.C05
