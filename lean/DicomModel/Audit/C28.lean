import DicomModel.AuditTool
import DicomModel.Props.C28
#audit_module DicomModel.Props.C28
