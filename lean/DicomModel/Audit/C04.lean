import DicomModel.AuditTool
import DicomModel.Props.C04
import DicomModel.Props.C04Ref
#audit_module DicomModel.Props.C04
#audit_module DicomModel.Props.C04Ref
