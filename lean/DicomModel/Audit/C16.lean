import DicomModel.AuditTool
import DicomModel.Props.C16
#audit_module DicomModel.Props.C16
