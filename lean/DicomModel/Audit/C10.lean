import DicomModel.AuditTool
import DicomModel.Props.C10
#audit_module DicomModel.Props.C10
