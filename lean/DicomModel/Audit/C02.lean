import DicomModel.AuditTool
import DicomModel.Props.C02
#audit_module DicomModel.Props.C02
