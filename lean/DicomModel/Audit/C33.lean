import DicomModel.AuditTool
import DicomModel.Props.C33
#audit_module DicomModel.Props.C33
