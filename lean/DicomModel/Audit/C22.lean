import DicomModel.AuditTool
import DicomModel.Props.C22
#audit_module DicomModel.Props.C22
