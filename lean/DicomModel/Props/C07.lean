import DicomModel.Lemmas.DsReaderPos
import DicomModel.Lemmas.LazyPos
/-
C07 — odd-length values are handled per strategy and reading stays aligned; `position()` = bytes consumed.

Model: Model/DsReader.lean — `DataSetReader::next` with `sanitize_length`, and the `StatefulDecoder`
underneath it with the repaired value readers (fixes bc139e6: the whole declared length of a numeric value
is consumed; aeb0d7f: blank DA/DT/TM/DS/IS values advance the position).

Headline theorems
* `next_tok_exact`             one reader step (every branch) adds to `position` what it takes from the source
* `position_exact`             after every token of a run, `position = base + bytes consumed` — any header
                               decoder with a truthful byte count (`plainDec_exact`: the three syntaxes,
                               `adaptiveDec_exact`), all VRs, 3 odd-length strategies, 3 value strategies
* `truncated_fragment_position` the side condition of both (a fragment / offset table that is read lies inside
                               the source) cannot be dropped: `read_to` / `skip_bytes` add the full length to
                               `position` when the source ends early (finding `item-value-truncated-position`)
* `element_read`               an element is read whole: header token, value token, source = what follows
* `accept_consumes_declared`, `next_even_plus_one`, `fail_errors`, `item_length_by_strategy`
* `aligned_after`              the next header is decoded from the byte after the declared / evened length
* `position_exact_lazy`        the same invariant for the lazy reader (C06's model, imported), whatever the consumer
                               does with each announced value (`into_owned` or `skip`); `skipped_short_value_position`:
                               its side condition is needed
-/
set_option linter.unusedSimpArgs false
set_option linter.unusedVariables false
namespace Dicom.Rd
variable {σ : Type}

/-- **one reader step** — whatever token `next` returns, `position` advanced by exactly the number of
bytes taken from the source (all branches: delimiters by length, item headers, element headers in any
syntax, values of every VR in the three value strategies, offset tables, fragments) — provided a fragment /
offset table that is read lies inside the source (`ItemReadOk`; see `truncated_fragment_position`) -/
theorem next_tok_exact (cfg : Cfg) (D : Dec σ) (hD : HdrExact D) :
    ∀ fuel d s t x', ItemReadOk s → next cfg D fuel (d, s) = (.tok t, x') → Exact s x'.2 := by
  intro fuel
  induction fuel with
  | zero => intro d s t x' _ h; simp [next] at h
  | succ fuel ih =>
    intro d s t x' hok h
    unfold next at h
    split at h
    · simp at h
    · cases hp : preHeader cfg D.be D.itemEofGraceful s with
      | ret o s1 =>
        rw [hp] at h
        simp only at h
        injection h with h1 h2
        subst h1; subst h2
        exact preHeader_tok_exact hok hp
      | go s1 =>
        rw [hp] at h
        simp only at h
        have hg := preHeader_go hp
        have hr : ∀ h0 n rest, (D.header d s1.src).1 = .ok h0 n rest → rest.length + n = s1.src.length := by
          intro h0 n rest he
          exact hD d s1.src h0 n rest (D.header d s1.src).2 (by rw [← he])
        cases hs : headerStep cfg (D.header d s1.src).1 s1 with
        | ret o s2 =>
          rw [hs] at h
          simp only at h
          injection h with h1 h2
          subst h1; subst h2
          exact hg.1.trans (headerStep_tok_exact hr hs)
        | go s2 =>
          rw [hs] at h
          simp only at h
          have hge := headerStep_go_exact hr hs
          have := ih _ s2 t x' (ItemReadOk_of_stack_nil hge.2) h
          exact (hg.1.trans hge.1).trans this

/-- along a run, every fragment / offset table that is read lies inside the source -/
def ItemReadsOk (cfg : Cfg) (D : Dec σ) : Nat → σ × RSt → Prop
  | 0, _ => True
  | cap + 1, x =>
    ItemReadOk x.2 ∧
      ((next cfg D (x.2.src.length + 1) x).1.isTok = true →
        ItemReadsOk cfg D cap (next cfg D (x.2.src.length + 1) x).2)

instance (s : RSt) : Decidable (ItemReadOk s) := by
  unfold ItemReadOk; split <;> infer_instance

instance instDecItemReadsOk (cfg : Cfg) (D : Dec σ) : (cap : Nat) → (x : σ × RSt) → Decidable (ItemReadsOk cfg D cap x)
  | 0, _ => isTrue trivial
  | cap + 1, x =>
    have := instDecItemReadsOk cfg D cap (next cfg D (x.2.src.length + 1) x).2
    by unfold ItemReadsOk; exact inferInstance

/-- **position_exact** — after every token of a run, `position() = base + bytes consumed from the source`:
all reader steps, all VRs, the three odd-length strategies, the three value strategies, any header decoder
that reports its byte count truthfully -/
theorem position_exact (cfg : Cfg) (D : Dec σ) (hD : HdrExact D) (base total : Nat) :
    ∀ cap x, x.2.pos + x.2.src.length = base + total → base ≤ x.2.pos → ItemReadsOk cfg D cap x →
      ∀ r ∈ run cfg D total cap x, (∃ t, r.out = .tok t) → r.pos = base + r.consumed := by
  intro cap
  induction cap with
  | zero => intro x _ _ _ r hr; simp [run] at hr
  | succ cap ih =>
    intro x hinv hb hok r hr ht
    obtain ⟨d, s⟩ := x
    unfold run at hr
    unfold ItemReadsOk at hok
    obtain ⟨hok1, hok2⟩ := hok
    cases hn : next cfg D (s.src.length + 1) (d, s) with
    | mk o x' =>
      simp only at hr hok2
      rw [hn] at hr hok2
      cases o with
      | tok t =>
        simp only at hr
        have hok2 := hok2 rfl
        simp only at hok2
        have hex := next_tok_exact cfg D hD _ d s t x' hok1 hn
        have hinv' : x'.2.pos + x'.2.src.length = base + total := by
          have := hex.1; simp only at hinv; omega
        have hb' : base ≤ x'.2.pos := Nat.le_trans hb hex.2
        rcases List.mem_cons.mp hr with hr | hr
        · subst hr; simp only; omega
        · exact ih x' hinv' hb' hok2 r hr ht
      | err e =>
        simp only [List.mem_singleton] at hr
        subst hr
        obtain ⟨t, ht⟩ := ht
        simp at ht
      | done =>
        simp only [List.mem_singleton] at hr
        subst hr
        obtain ⟨t, ht⟩ := ht
        simp at ht


/-! ### the three strategies -/

theorem sanitize_accept (len : Nat) : sanitize .accept len = some len := by
  unfold sanitize; split <;> rfl

theorem sanitize_even (o : Odd) (len : Nat) (h : len % 2 = 0) : sanitize o len = some len := by
  unfold sanitize; simp [h]

theorem sanitize_nextEven_odd (len : Nat) (hu : len ≠ undefinedLen) (h : len % 2 = 1) :
    sanitize .nextEven len = some (len + 1) := by
  unfold sanitize; simp [hu, h]

theorem sanitize_fail_odd (len : Nat) (hu : len ≠ undefinedLen) (h : len % 2 = 1) :
    sanitize .fail len = none := by
  unfold sanitize; simp [hu, h]

theorem sanitize_defined {o : Odd} {len len' : Nat} (hu : len ≠ undefinedLen) (h : sanitize o len = some len') :
    len' ≠ undefinedLen := by
  unfold sanitize at h
  split at h
  · rename_i hc
    cases o <;> simp at h
    · omega
    · have := hc.2; simp [undefinedLen] at *; omega
  · simp at h; omega

/-- the reader is between elements: nothing pending, not at sequence level, no header waiting for its
value, not inside a pixel data item -/
structure Between (s : RSt) : Prop where
  hardBreak : s.hardBreak = false
  pending : s.pending = false
  inSeq : s.inSeq = false
  last : s.last = none
  notPixItem : ∀ len b tl, s.stack ≠ ⟨true, len, true, b⟩ :: tl

theorem preBody_between_none {cfg : Cfg} {be g : Bool} {s : RSt} (hin : s.inSeq = false)
    (hl : s.last = none) (hp : ∀ len b tl, s.stack ≠ ⟨true, len, true, b⟩ :: tl) :
    preBody cfg be g s = .go s := by
  unfold preBody
  simp only [hin, Bool.false_eq_true, if_false]
  simp [hl]

/-- the VR override of `StatefulDecoder::decode_header` -/
def overridden (cfg : Cfg) (s : RSt) (h : ElemHeader) : ElemHeader :=
  if s.signedPix = some true ∧ cfg.isXs h.tag = true then { h with vr := .SS } else h

/-- **an element is read whole** (any VR, any value strategy, any strategy for odd lengths that yields
`len'`): from a state between elements, with the source starting with a header of declared length
`h.len`, followed by `len'` value bytes `v`, followed by `rest` — the first call of `next` yields the
header token with length `len'`, the second the value token, and afterwards the source is exactly `rest`,
`position` has advanced by header size + `len'`, and the reader is between elements again (with the
delimiter check pending). -/
theorem element_read (cfg : Cfg) (D : Dec σ) (d d' : σ) (s : RSt) (h : ElemHeader) (n len' : Nat)
    (v rest : Bytes) (val : RVal) (f1 f2 : Nat)
    (hs : Between s)
    (hdr : D.header d s.src = (.ok h n (v ++ rest), d'))
    (hsq : (overridden cfg s h).vr ≠ .SQ) (hid : h.tag ≠ Tag.itemDelim) (hund : h.len ≠ undefinedLen)
    (hsan : sanitize cfg.odd h.len = some len') (hv : v.length = len')
    (hval : if len' = 0 then val = .empty else decodeVal cfg D.be (overridden cfg s h).vr v = .ok val) :
    ∃ s1 s2,
      next cfg D (f1 + 1) (d, s) = (.tok (.elementHeader ⟨h.tag, (overridden cfg s h).vr, len'⟩), (d', s1)) ∧
      next cfg D (f2 + 1) (d', s1) = (.tok (.primitiveValue val), (d', s2)) ∧
      s2.src = rest ∧ s2.pos = s.pos + n + len' ∧
      s2.last = none ∧ s2.stack = s.stack ∧ s2.inSeq = false ∧ s2.hardBreak = false ∧ s2.pending = true := by
  have hfst : (D.header d s.src).1 = .ok h n (v ++ rest) := by rw [hdr]
  have hsnd : (D.header d s.src).2 = d' := by rw [hdr]
  have hpre : preHeader cfg D.be D.itemEofGraceful s = .go s := by
    unfold preHeader
    simp only [hs.pending, Bool.false_eq_true, if_false]
    exact preBody_between_none hs.inSeq hs.last hs.notPixItem
  have htag : (overridden cfg s h).tag = h.tag := by unfold overridden; split <;> rfl
  have hlen : (overridden cfg s h).len = h.len := by unfold overridden; split <;> rfl
  have hlen'u : len' ≠ undefinedLen := sanitize_defined hund hsan
  -- first step: the header
  let h1 : ElemHeader := ⟨h.tag, (overridden cfg s h).vr, len'⟩
  let s1 : RSt := { s with src := v ++ rest, pos := s.pos + n, last := some h1 }
  have hstep1 : headerStep cfg (.ok h n (v ++ rest)) s = .ret (.tok (.elementHeader h1)) s1 := by
    simp only [headerStep]
    have e : (if s.signedPix = some true ∧ cfg.isXs h.tag = true then { h with vr := VR.SS } else h)
        = overridden cfg s h := rfl
    rw [e]
    simp only [hsq, if_false, htag, hid, hlen, hund, and_false, hsan]
    rfl
  have hn1 : next cfg D (f1 + 1) (d, s) = (.tok (.elementHeader h1), (d', s1)) := by
    unfold next
    simp only [hs.hardBreak, Bool.false_eq_true, if_false, hpre, hfst, hsnd, hstep1]
  -- second step: the value
  let s2 : RSt :=
    { s1 with src := rest, pos := s.pos + n + len', last := none, pending := true,
              signedPix := (if len' = 0 then s.signedPix else
                if cfg.mode ≠ .raw ∧ (h1.vr = .US ∨ h1.vr = .OW) ∧ h1.tag = ⟨0x0028, 0x0103⟩
                then (if v.length / 2 = 0 then none else some (decide (valOf D.be (v.take 2) ≠ 0)))
                else s.signedPix) }
  have hpre1 : preHeader cfg D.be D.itemEofGraceful s1 = .ret (.tok (.primitiveValue val)) s2 := by
    unfold preHeader
    have hp1 : s1.pending = false := hs.pending
    simp only [hp1, Bool.false_eq_true, if_false]
    unfold preBody
    have hi1 : s1.inSeq = false := hs.inSeq
    simp only [hi1, Bool.false_eq_true, if_false]
    split
    · rename_i hst; exact absurd hst (hs.notPixItem _ _ _)
    · have hl1 : s1.last = some h1 := rfl
      simp only [hl1]
      have hne : ¬ (h1.tag = pixelDataTag ∧ h1.len = undefinedLen) := fun hc => hlen'u hc.2
      simp only [hne, if_false]
      unfold readValue
      have hl1' : h1.len = len' := rfl
      by_cases h0 : len' = 0
      · have hv0 : v = [] := by
          have : v.length = 0 := by rw [hv, h0]
          exact List.eq_nil_of_length_eq_zero this
        have hvl : val = .empty := by simpa [h0] using hval
        subst hv0
        simp [hl1', h0, hvl, s1, s2, hs.inSeq]
      · have hdv : decodeVal cfg D.be (overridden cfg s h).vr v = .ok val := by simpa [h0] using hval
        have htk : takeN len' s1.src = some (v, rest) := by
          unfold takeN
          have : len' ≤ (v ++ rest).length := by simp; omega
          simp only [s1, this, if_true]
          rw [← hv]
          simp
        have hvr : h1.vr = (overridden cfg s h).vr := rfl
        simp only [hl1', h0, hlen'u, if_false, htk, hvr, hdv]
        simp only [s2, h0, if_false]
        rfl
  have hn2 := hpre1
  refine ⟨s1, s2, hn1, ?_, rfl, rfl, rfl, rfl, hs.inSeq, hs.hardBreak, rfl⟩
  unfold next
  have hb1 : s1.hardBreak = false := hs.hardBreak
  simp only [hb1, Bool.false_eq_true, if_false, hpre1]


/-- **accept_consumes_declared** — the default strategy takes exactly the declared number of bytes, odd or
not, for every VR and value strategy, and leaves the source at the byte following them -/
theorem accept_consumes_declared (cfg : Cfg) (D : Dec σ) (d d' : σ) (s : RSt) (h : ElemHeader) (n : Nat)
    (v rest : Bytes) (val : RVal) (f1 f2 : Nat) (hodd : cfg.odd = .accept)
    (hs : Between s) (hdr : D.header d s.src = (.ok h n (v ++ rest), d'))
    (hsq : (overridden cfg s h).vr ≠ .SQ) (hid : h.tag ≠ Tag.itemDelim) (hund : h.len ≠ undefinedLen)
    (hv : v.length = h.len)
    (hval : if h.len = 0 then val = .empty else decodeVal cfg D.be (overridden cfg s h).vr v = .ok val) :
    ∃ s1 s2,
      next cfg D (f1 + 1) (d, s) = (.tok (.elementHeader ⟨h.tag, (overridden cfg s h).vr, h.len⟩), (d', s1)) ∧
      next cfg D (f2 + 1) (d', s1) = (.tok (.primitiveValue val), (d', s2)) ∧
      s2.src = rest ∧ s2.pos = s.pos + n + h.len ∧
      s2.last = none ∧ s2.stack = s.stack ∧ s2.inSeq = false ∧ s2.hardBreak = false ∧ s2.pending = true :=
  element_read cfg D d d' s h n h.len v rest val f1 f2 hs hdr hsq hid hund
    (by rw [hodd]; exact sanitize_accept _) hv hval

/-- **next_even_plus_one** — the next-even strategy reports the odd declared length plus one and takes
one more byte than declared -/
theorem next_even_plus_one (cfg : Cfg) (D : Dec σ) (d d' : σ) (s : RSt) (h : ElemHeader) (n : Nat)
    (v rest : Bytes) (val : RVal) (f1 f2 : Nat) (hodd : cfg.odd = .nextEven) (ho : h.len % 2 = 1)
    (hs : Between s) (hdr : D.header d s.src = (.ok h n (v ++ rest), d'))
    (hsq : (overridden cfg s h).vr ≠ .SQ) (hid : h.tag ≠ Tag.itemDelim) (hund : h.len ≠ undefinedLen)
    (hv : v.length = h.len + 1)
    (hval : decodeVal cfg D.be (overridden cfg s h).vr v = .ok val) :
    ∃ s1 s2,
      next cfg D (f1 + 1) (d, s) = (.tok (.elementHeader ⟨h.tag, (overridden cfg s h).vr, h.len + 1⟩), (d', s1)) ∧
      next cfg D (f2 + 1) (d', s1) = (.tok (.primitiveValue val), (d', s2)) ∧
      s2.src = rest ∧ s2.pos = s.pos + n + (h.len + 1) ∧
      s2.last = none ∧ s2.stack = s.stack ∧ s2.inSeq = false ∧ s2.hardBreak = false ∧ s2.pending = true :=
  element_read cfg D d d' s h n (h.len + 1) v rest val f1 f2 hs hdr hsq hid hund
    (by rw [hodd]; exact sanitize_nextEven_odd _ hund ho) hv (by simp [hval])

/-- **fail_errors** — the failing strategy reports an error at an element of odd length (after its header
has been taken: `position` has advanced by the header size) -/
theorem fail_errors (cfg : Cfg) (D : Dec σ) (d d' : σ) (s : RSt) (h : ElemHeader) (n : Nat) (rest : Bytes)
    (f : Nat) (hodd : cfg.odd = .fail) (ho : h.len % 2 = 1) (hund : h.len ≠ undefinedLen)
    (hs : Between s) (hdr : D.header d s.src = (.ok h n rest, d')) (hid : h.tag ≠ Tag.itemDelim) :
    next cfg D (f + 1) (d, s) =
      (.err .invalidElementLength, (d', { s with src := rest, pos := s.pos + n })) := by
  have hfst : (D.header d s.src).1 = .ok h n rest := by rw [hdr]
  have hsnd : (D.header d s.src).2 = d' := by rw [hdr]
  have hpre : preHeader cfg D.be D.itemEofGraceful s = .go s := by
    unfold preHeader
    simp only [hs.pending, Bool.false_eq_true, if_false]
    exact preBody_between_none hs.inSeq hs.last hs.notPixItem
  have hsan : sanitize cfg.odd h.len = none := by rw [hodd]; exact sanitize_fail_odd _ hund ho
  have htag : (overridden cfg s h).tag = h.tag := by unfold overridden; split <;> rfl
  have hlen : (overridden cfg s h).len = h.len := by unfold overridden; split <;> rfl
  have hstep : headerStep cfg (.ok h n rest) s =
      .ret (.err .invalidElementLength) { s with src := rest, pos := s.pos + n } := by
    simp only [headerStep]
    have e : (if s.signedPix = some true ∧ cfg.isXs h.tag = true then { h with vr := VR.SS } else h)
        = overridden cfg s h := rfl
    rw [e]
    by_cases hsq : (overridden cfg s h).vr = .SQ
    · simp only [hsq, if_true, hlen, hsan]
    · simp only [hsq, if_false, htag, hid, hlen, hund, and_false, hsan]
  unfold next
  simp only [hs.hardBreak, Bool.false_eq_true, if_false, hpre, hfst, hsnd, hstep]

/-- odd item lengths: the item start token carries the sanitised length; the failing strategy errors -/
theorem item_length_by_strategy (cfg : Cfg) (be g : Bool) (s : RSt) (len : Nat) (rest : Bytes)
    (top : SeqTok) (tl : List SeqTok) (hst : s.stack = top :: tl)
    (hd : decodeItemHeader be s.src = .ok (.item len, rest)) :
    match sanitize cfg.odd len with
    | some len' => (nextInSeq cfg be g s).1 = .tok (.itemStart len') ∧
        (nextInSeq cfg be g s).2.src = rest ∧ (nextInSeq cfg be g s).2.pos = s.pos + 8
    | none => (nextInSeq cfg be g s).1 = .err .invalidItemLength := by
  unfold nextInSeq
  rw [hd]
  simp only
  cases hsan : sanitize cfg.odd len with
  | none => simp
  | some len' =>
    simp only [hst]
    split <;> simp [RSt.push]

/-- **aligned_after** — between elements (as after `element_read`, where the source is the byte string
following the declared or evened length), unless an enclosing item or sequence of explicit length ends
right here, the next call decodes an element header from the current source -/
theorem aligned_after (cfg : Cfg) (D : Dec σ) (d : σ) (s : RSt) (f : Nat)
    (hb : s.hardBreak = false) (hin : s.inSeq = false) (hl : s.last = none)
    (hp : ∀ len b tl, s.stack ≠ ⟨true, len, true, b⟩ :: tl)
    (hu : s.pending = true → updateSeqDelimiters s = .none { s with pending := false }) :
    next cfg D (f + 1) (d, s) =
      match headerStep cfg (D.header d s.src).1 { s with pending := false } with
      | .ret o s' => (o, ((D.header d s.src).2, s'))
      | .go s' => next cfg D f ((D.header d s.src).2, s') := by
  have hpre : preHeader cfg D.be D.itemEofGraceful s = .go { s with pending := false } := by
    unfold preHeader
    by_cases hpd : s.pending = true
    · simp only [hpd, if_true, hu hpd]
      exact preBody_between_none hin hl hp
    · have : s.pending = false := by simpa using hpd
      simp only [this, Bool.false_eq_true, if_false]
      have e : { s with pending := false } = s := by cases s; simp_all
      rw [e]
      exact preBody_between_none hin hl hp
  conv => lhs; unfold next
  rw [if_neg (by simp [hb]), hpre]
  rfl


/-! ### corollaries over whole byte strings -/

/-- `position_exact` for the reader over one of the three uncompressed syntaxes -/
theorem position_exact_plain (cfg : Cfg) (ts : Syntax) (dict : Tag → Option VR) (base cap : Nat) (bs : Bytes)
    (hok : ItemReadsOk cfg (plainDec ts dict) cap ((), RSt.init bs base)) :
    ∀ r ∈ readAll cfg (plainDec ts dict) () base cap bs, (∃ t, r.out = .tok t) → r.pos = base + r.consumed :=
  position_exact cfg (plainDec ts dict) (plainDec_exact ts dict) base bs.length cap ((), RSt.init bs base)
    (by simp [RSt.init]) (by simp [RSt.init]) hok

/-- `position_exact` for the reader with flexible VR decoding -/
theorem position_exact_adaptive (cfg : Cfg) (dictV : Tag → Option VVr) (base cap : Nat) (bs : Bytes)
    (hok : ItemReadsOk cfg (adaptiveDec dictV) cap (.unknown, RSt.init bs base)) :
    ∀ r ∈ readAll cfg (adaptiveDec dictV) .unknown base cap bs, (∃ t, r.out = .tok t) → r.pos = base + r.consumed :=
  position_exact cfg (adaptiveDec dictV) (adaptiveDec_exact dictV) base bs.length cap (.unknown, RSt.init bs base)
    (by simp [RSt.init]) (by simp [RSt.init]) hok

/-- every VR other than SQ has a value in the preserved and raw strategies, whatever the bytes and their
number (so `element_read` applies to every VR with every odd length) -/
theorem decodeVal_total (cfg : Cfg) (be : Bool) (vr : VR) (v : Bytes) (hsq : vr ≠ .SQ)
    (hm : cfg.mode ≠ .interpreted) : ∃ val, decodeVal cfg be vr v = .ok val := by
  unfold decodeVal
  cases hmode : cfg.mode with
  | interpreted => exact absurd hmode hm
  | raw => simp [hsq]
  | preserved => cases vr <;> simp [binVal, numVal] at hsq ⊢

/-- in the interpreted strategy the same holds outside DA/DT/TM/DS/IS; for these five a blank value is
`Empty` and any other value is decided by the text parsers (`Cfg.parseOk`) -/
theorem decodeVal_total_interpreted (cfg : Cfg) (be : Bool) (vr : VR) (v : Bytes) (hsq : vr ≠ .SQ)
    (hm : cfg.mode = .interpreted)
    (hp : (vr = .DA ∨ vr = .DT ∨ vr = .TM ∨ vr = .DS ∨ vr = .IS) →
      (trimTrail v).isEmpty = true ∨ cfg.parseOk vr (trimTrail v) = true) :
    ∃ val, decodeVal cfg be vr v = .ok val := by
  unfold decodeVal
  rw [hm]
  cases vr <;> simp [binVal, numVal, interpVal] at hsq hp ⊢
  all_goals
    rcases hp with hp | hp
    · simp [hp]
    · by_cases he : trimTrail v = [] <;> simp [he, hp]

/-! ### witnesses and satisfiability -/

def wCfg7 (o : Odd) (m : VMode) : Cfg := { odd := o, mode := m, isXs := fun _ => false, parseOk := fun _ _ => true }

/-- Explicit VR LE: encapsulated Pixel Data, empty offset table, one fragment declared with 4 bytes of which
only 2 are there -/
def wTruncated : Bytes :=
  [0xE0, 0x7F, 0x10, 0x00, 0x4F, 0x42, 0, 0, 0xFF, 0xFF, 0xFF, 0xFF,
   0xFE, 0xFF, 0x00, 0xE0, 0, 0, 0, 0,
   0xFE, 0xFF, 0x00, 0xE0, 4, 0, 0, 0, 0xAA, 0xBB]

/-- The side condition of `position_exact` is needed: `read_to` adds the full declared length to
`position` although the source ended two bytes early — the fragment token is produced with
`position = 32`, `consumed = 30`. -/
theorem truncated_fragment_position :
    (readAll (wCfg7 .accept .preserved) (plainDec .explicitLE fun _ => none) () 0 100 wTruncated).map
        (fun r => (r.out, r.pos, r.consumed)) =
      [(.tok .pixelSequenceStart, 12, 12), (.tok (.itemStart 0), 20, 20), (.tok .itemEnd, 20, 20),
       (.tok (.itemStart 4), 28, 28), (.tok (.itemValue [0xAA, 0xBB]), 32, 30),
       (.tok .itemEnd, 32, 30), (.done, 32, 30)] := by
  decide

/-- Explicit VR LE: (0028,0010) US with declared length 3 (one number and one stray byte), then
(0028,0011) US 2 -/
def wOddUs : Bytes :=
  [0x28, 0x00, 0x10, 0x00, 0x55, 0x53, 3, 0, 0x01, 0x02, 0x03,
   0x28, 0x00, 0x11, 0x00, 0x55, 0x53, 2, 0, 0x04, 0x00]

/-- the repaired reader on the input of defect #7: the three bytes are consumed, the next element is read
where it starts, positions are exact -/
theorem odd_us_accept :
    (readAll (wCfg7 .accept .preserved) (plainDec .explicitLE fun _ => none) () 0 100 wOddUs).map
        (fun r => (r.out, r.pos, r.consumed)) =
      [(.tok (.elementHeader ⟨⟨0x28, 0x10⟩, .US, 3⟩), 8, 8), (.tok (.primitiveValue (.nums .u16 [0x0201])), 11, 11),
       (.tok (.elementHeader ⟨⟨0x28, 0x11⟩, .US, 2⟩), 19, 19), (.tok (.primitiveValue (.nums .u16 [4])), 21, 21),
       (.done, 21, 21)] := by
  decide

/-- the same bytes under the failing strategy -/
theorem odd_us_fail :
    (readAll (wCfg7 .fail .preserved) (plainDec .explicitLE fun _ => none) () 0 100 wOddUs).map (·.out) =
      [.err .invalidElementLength] := by
  decide

/-- under the next-even strategy the value is one byte longer (here it swallows the first byte of the next
tag: the stream was not written for that strategy) -/
theorem odd_us_next_even :
    ((readAll (wCfg7 .nextEven .preserved) (plainDec .explicitLE fun _ => none) () 0 100 wOddUs).map
        (fun r => (r.out, r.pos, r.consumed))).take 2 =
      [(.tok (.elementHeader ⟨⟨0x28, 0x10⟩, .US, 4⟩), 8, 8),
       (.tok (.primitiveValue (.nums .u16 [0x0201, 0x2803])), 12, 12)] := by
  decide

/-- the initial state is between elements -/
example (bs : Bytes) (base : Nat) : Between (RSt.init bs base) :=
  ⟨rfl, rfl, rfl, rfl, by intro len b tl h; simp [RSt.init] at h⟩

/-- `ItemReadsOk` holds along the whole run of a complete stream (here: `wOddUs`, 5 steps) -/
example : ItemReadsOk (wCfg7 .accept .preserved) (plainDec .explicitLE fun _ => none) 5 ((), RSt.init wOddUs 0) := by
  decide

end Dicom.Rd

/-! ### the lazy reader (model of the C06 builder: Model/LazyReader.lean) -/

namespace Dicom.LP
open Dicom.DC

/-- `P` of the content, if any -/
def OptAll {α : Type} : Option α → (α → Prop) → Prop
  | none, _ => True
  | some a, P => P a

instance {α : Type} (o : Option α) (P : α → Prop) [∀ a, Decidable (P a)] : Decidable (OptAll o P) := by
  cases o <;> simp only [OptAll] <;> infer_instance

/-- the token `advance` announces, if any -/
def announced (s : LState) : Option (LTok × LState) :=
  match s.advance with
  | (some (.ok t), s') => some (t, s')
  | _ => none

/-- the reader once the consumer is done with the announced value, if it succeeds -/
def consumed? (u : Use) (t : LTok) (s' : LState) : Option LState :=
  match consumeTok u t s'.dec with
  | .ok (_, d) => some { s' with dec := d }
  | .error _ => none

/-- along a lazy run, `ValueInside` at every token -/
def ValuesInside (use : Nat → Use) : Nat → Nat → LState → Prop
  | 0, _, _ => True
  | fuel + 1, k, s =>
    OptAll (announced s) fun p =>
      ValueInside (use k) p.1 p.2.dec ∧
        OptAll (consumed? (use k) p.1 p.2) fun s'' => ValuesInside use fuel (k + 1) s''

instance instDecValuesInside (use : Nat → Use) : (fuel k : Nat) → (s : LState) → Decidable (ValuesInside use fuel k s)
  | 0, _, _ => isTrue trivial
  | fuel + 1, k, s =>
    have := fun s'' => instDecValuesInside use fuel (k + 1) s''
    by unfold ValuesInside; exact inferInstance

/-- **position_exact_lazy** — after every token of the lazy reader, once the consumer has read or skipped
the announced value, `position() = base + bytes consumed` — for every byte string, every consumer policy,
provided the values that go through `io::copy` lie inside the source -/
theorem position_exact_lazy (use : Nat → Use) (base total : Nat) :
    ∀ fuel k s, s.dec.pos + s.dec.rest.length = base + total → base ≤ s.dec.pos →
      ValuesInside use fuel k s →
      ∀ r ∈ lazyRun use total fuel k s, r.pos = base + r.consumed := by
  intro fuel
  induction fuel with
  | zero => intro k s _ _ _ r hr; simp [lazyRun] at hr
  | succ fuel ih =>
    intro k s hinv hb hok r hr
    unfold lazyRun at hr
    unfold ValuesInside announced at hok
    rcases ha : s.advance with ⟨res, s'⟩
    rw [ha] at hr hok
    cases res with
    | none => simp at hr
    | some x =>
      cases x with
      | error e => simp at hr
      | ok t =>
        simp only [OptAll] at hr hok
        obtain ⟨hin, hok2⟩ := hok
        have h1 := advance_exact ha
        unfold consumed? at hok2
        rcases hc : consumeTok (use k) t s'.dec with e | ⟨o, d⟩
        · rw [hc] at hr; simp at hr
        · rw [hc] at hr hok2
          simp only [OptAll] at hr hok2
          have h2 := consume_exact hin hc
          have h12 := h1.trans h2
          rcases List.mem_cons.mp hr with hr | hr
          · subst hr; simp only; have := h12.1; have := h12.2; omega
          · exact ih (k + 1) { s' with dec := d } (by have := h12.1; simp only; omega)
              (Nat.le_trans hb h12.2) hok2 r hr

/-- Explicit VR LE: (0008,0060) CS declaring 4 bytes, 2 present -/
def wShortValue : Bytes := [0x08, 0x00, 0x60, 0x00, 0x43, 0x53, 4, 0, 0x43, 0x54]

/-- `ValuesInside` is needed: a consumer that `skip`s an element value reaching beyond the end of the source
is left with `position = 12` after 10 bytes (same `io::copy` as in `truncated_fragment_position`) -/
theorem skipped_short_value_position :
    (lazyRun (fun _ => .skip) 10 5 0 (LState.new .explicitLE (fun _ => none) wShortValue)).map
        (fun r => (r.pos, r.consumed)) = [(8, 8), (12, 10)] := by
  decide

/-- … while reading the same value is an error, not a token -/
theorem read_short_value_errors :
    (lazyRun (fun _ => .read) 10 5 0 (LState.new .explicitLE (fun _ => none) wShortValue)).map
        (fun r => (r.pos, r.consumed)) = [(8, 8)] := by
  decide

/-- `ValuesInside` holds along the run over a complete stream, values skipped and read alternately -/
example : ValuesInside (fun k => if k % 4 = 1 then .skip else .read) 6 0
    (LState.new .explicitLE (fun _ => none) Dicom.Rd.wOddUs) := by
  decide

end Dicom.LP
