import DicomModel.Model.ImageTools
import DicomModel.Lemmas.Bytes
/-
C35 — Image import and export tools round-trip pixel values.

Model: `DicomModel/Model/ImageTools.lean` (`fromimage` `inject_image`/`update_from_img`, `toimage`
`--unwrap` and the RGB branch of `to_dynamic_image_with_options`).

`import_export_id`: for EVERY well-formed 8/16-bit gray or RGB image whose dimensions fit `u16`,
import followed by export (gray: unwrapped frame; RGB: decoded, no intensity transform) gives back
the same dimensions and samples.  `import_export_id_codec` composes it with an image file codec that
is a parameter (`decode (encode x) = some x`, the PNG codec of the `image` crate in the run).
The statement's quantifier (sizes 1-64) lies inside the hypothesis `width, height < 65536`;
`dims_truncated` shows the hypothesis is needed by the code (`width as u16`).
-/
namespace Dicom.ImageTools

theorem wordsLe_flatMap_le16 (xs : List Nat) (h : ∀ s ∈ xs, s < 65536) :
    wordsLe (xs.flatMap le16) = xs := by
  induction xs with
  | nil => rfl
  | cons x xs ih =>
    have hx : x < 65536 := h x (by simp)
    have := ih (fun s hs => h s (by simp [hs]))
    simp only [List.flatMap_cons, le16, List.cons_append, List.nil_append, wordsLe, this]
    congr 1
    omega

theorem length_flatMap_le16 (xs : List Nat) : (xs.flatMap le16).length = 2 * xs.length := by
  induction xs with
  | nil => rfl
  | cons x xs ih => simp [List.flatMap_cons, le16, ih]; omega

theorem intoBytes_len_aux (c : Color) (s : List Nat) :
    (if c.bits = 8 then s else s.flatMap le16).length = s.length * ((c.bits + 7) / 8) := by
  split
  · rename_i h; rw [h]; simp
  · rename_i h
    have h16 : c.bits = 16 := by cases c <;> simp [Color.bits] at *
    rw [length_flatMap_le16, h16]; omega

theorem intoBytes_length (i : Img) (wf : i.WellFormed) :
    (intoBytes i).length = i.height * i.width * i.color.spp * ((i.color.bits + 7) / 8) := by
  obtain ⟨hl, _⟩ := wf
  unfold intoBytes
  rw [intoBytes_len_aux, hl, Nat.mul_comm i.width i.height]

theorem frameSize_inject (i : Img) (hw : i.width < 65536) (hh : i.height < 65536) :
    frameSize (inject i) = i.height * i.width * i.color.spp * ((i.color.bits + 7) / 8) := by
  simp [frameSize, inject, Nat.mod_eq_of_lt hw, Nat.mod_eq_of_lt hh]

/-- `--unwrap` returns exactly the imported sample bytes -/
theorem unwrap_inject (i : Img) (wf : i.WellFormed) (hw : i.width < 65536) (hh : i.height < 65536) :
    unwrapFrame (inject i) = some (intoBytes i) := by
  have hf := frameSize_inject i hw hh
  have hl := intoBytes_length i wf
  have hpd : (inject i).pixelData = intoBytes i := rfl
  unfold unwrapFrame
  rw [hpd, hf, ← hl]
  simp

theorem samplesOf_intoBytes (i : Img) (wf : i.WellFormed) :
    samplesOf i.color.bits (intoBytes i) = i.samples := by
  obtain ⟨_, hs⟩ := wf
  cases hc : i.color <;> simp [samplesOf, intoBytes, Color.bits, hc] at *
  · exact wordsLe_flatMap_le16 _ hs
  · exact wordsLe_flatMap_le16 _ hs

/-- **import_export_id** -/
theorem import_export_id (i : Img) (wf : i.WellFormed) (hw : i.width < 65536) (hh : i.height < 65536) :
    roundTrip i = some i := by
  have hu := unwrap_inject i wf hw hh
  have hs := samplesOf_intoBytes i wf
  have hcols : (inject i).cols = i.width := by simp [inject, Nat.mod_eq_of_lt hw]
  have hrows : (inject i).rows = i.height := by simp [inject, Nat.mod_eq_of_lt hh]
  obtain ⟨c, w, h, s⟩ := i
  cases c
  · simp only [roundTrip, Color.spp, if_true, hu, Option.map_some, hcols, hrows]
    simp only [inject, Color.bits] at *
    simp [hs]
  · simp only [roundTrip, Color.spp, if_true, hu, Option.map_some, hcols, hrows]
    simp only [inject, Color.bits] at *
    simp [hs]
  · have h3 : (inject ⟨Color.rgb8, w, h, s⟩).spp = 3 := rfl
    have hp : (inject ⟨Color.rgb8, w, h, s⟩).photometric = "RGB" := rfl
    have hpl : (inject ⟨Color.rgb8, w, h, s⟩).planar = some 0 := rfl
    have hb : (inject ⟨Color.rgb8, w, h, s⟩).bitsAllocated = 8 := rfl
    simp only [roundTrip, Color.spp, exportRgb, h3, hp, hpl, hb, hu, hcols, hrows]
    simp [samplesOf, Color.bits] at hs
    simp [hs]
  · have h3 : (inject ⟨Color.rgb16, w, h, s⟩).spp = 3 := rfl
    have hp : (inject ⟨Color.rgb16, w, h, s⟩).photometric = "RGB" := rfl
    have hpl : (inject ⟨Color.rgb16, w, h, s⟩).planar = some 0 := rfl
    have hb : (inject ⟨Color.rgb16, w, h, s⟩).bitsAllocated = 16 := rfl
    simp only [roundTrip, Color.spp, exportRgb, h3, hp, hpl, hb, hu, hcols, hrows]
    simp [samplesOf, Color.bits] at hs
    simp [hs]

/-- with an image file codec that decodes what it encoded (the PNG codec, a parameter):
file → import → export → file → decode gives back the image -/
theorem import_export_id_codec {F : Type} (encode : Img → F) (decode : F → Option Img)
    (hcodec : ∀ x, decode (encode x) = some x)
    (i : Img) (wf : i.WellFormed) (hw : i.width < 65536) (hh : i.height < 65536) :
    ((decode (encode i)).bind roundTrip).bind (fun o => decode (encode o)) = some i := by
  simp [hcodec, import_export_id i wf hw hh]

/-- the imported attributes are those of the image (what the intermediate DICOM file must hold) -/
theorem inject_attrs (i : Img) (hw : i.width < 65536) (hh : i.height < 65536) :
    (inject i).cols = i.width ∧ (inject i).rows = i.height ∧ (inject i).spp = i.color.spp ∧
    (inject i).bitsAllocated = i.color.bits ∧ (inject i).bitsStored = i.color.bits ∧
    (inject i).highBit + 1 = i.color.bits ∧ (inject i).pixelRepr = 0 ∧
    (inject i).numberOfFrames = none := by
  refine ⟨by simp [inject, Nat.mod_eq_of_lt hw], by simp [inject, Nat.mod_eq_of_lt hh], rfl, rfl, rfl, ?_, rfl, rfl⟩
  cases hc : i.color <;> simp [inject, Color.bits, hc]

/-- the `u16` hypothesis is forced by the code: a 65537-pixel-wide image is imported as 1 column -/
theorem dims_truncated (s : List Nat) : (inject ⟨.l8, 65537, 1, s⟩).cols = 1 := by simp [inject]

-- the hypotheses are satisfiable
example : roundTrip ⟨.rgb16, 1, 2, [1, 2, 65535, 256, 0, 7]⟩ = some ⟨.rgb16, 1, 2, [1, 2, 65535, 256, 0, 7]⟩ := by
  decide
example : roundTrip ⟨.l8, 3, 1, [1, 2, 255]⟩ = some ⟨.l8, 3, 1, [1, 2, 255]⟩ := by decide

end Dicom.ImageTools
