import DicomModel.Model.Assoc
/-
C28 — the association acceptor negotiates presentation contexts by the rules.

All theorems are about `processRq` / `negotiateOne`, the transcription of
`ServerAssociationOptions::process_a_association_rq` and its helpers, for *every* request
(any number of contexts, any strings), every configuration, every registry contents and every
user-supplied access-control / negotiation policy.

The one clause the code as found did not satisfy — a protocol-version mismatch was answered with
service-user / no-reason-given instead of service-provider(ACSE) / protocol-version-not-supported
(repaired in /repo by "fix: reject an unsupported protocol version with the matching
A-ASSOCIATE-RJ reason") — is isolated in `Variant`: `reject_protocol_version` is proved for the
repaired variant (= the code now) and `shipped_protocol_version_reason_not_matching` proves the
negation for the code as originally shipped.
-/
namespace Dicom.Assoc

variable (v : Variant) (cfg : Config) (reg : List Str) (pol : Policy) (impl : Impl)

/-! ### transfer syntax choice = first eligible -/

theorem tsPred_eq (h : cfg.transferSyntaxes ≠ []) (ts : Str) :
    tsPred cfg reg ts = decide (Eligible cfg reg ts) := by
  have he : cfg.transferSyntaxes.isEmpty = false := by
    cases hc : cfg.transferSyntaxes <;> simp_all
  simp only [tsPred, he, Eligible, h, false_or]
  by_cases h1 : trimUid ts ∈ cfg.transferSyntaxes <;> by_cases h2 : isSupported reg ts = true <;>
    simp [h1, h2]

/-- `choose_ts` picks the first proposed transfer syntax that is eligible (the inner
`is_empty` test of the closure is dead code). -/
theorem chooseTs_eq_find (tss : List Str) :
    chooseTs cfg reg tss = tss.find? (fun ts => decide (Eligible cfg reg ts)) := by
  unfold chooseTs
  by_cases h : cfg.transferSyntaxes = []
  · simp [h, chooseSupported, Eligible]
  · have he : cfg.transferSyntaxes.isEmpty = false := by
      cases hc : cfg.transferSyntaxes <;> simp_all
    simp only [he, Bool.false_eq_true, ↓reduceIte]
    congr 1
    funext ts
    exact tsPred_eq cfg reg h ts

theorem abstract_test_eq (a : Str) :
    (!cfg.abstractSyntaxes.contains (trimUid a) && !cfg.promiscuous) = !decide (AbstractOk cfg a) := by
  unfold AbstractOk
  by_cases h1 : trimUid a ∈ cfg.abstractSyntaxes <;> by_cases h2 : cfg.promiscuous = true <;>
    simp [h1, h2]

/-! ### per presentation context -/

/-- the result of one context carries the proposed identifier and the trimmed abstract syntax -/
theorem negotiateOne_id (pc : Proposed) :
    (negotiateOne cfg reg pc).id = pc.id ∧
    (negotiateOne cfg reg pc).abstractSyntax = trimUid pc.abstractSyntax := by
  unfold negotiateOne
  simp only
  split
  · exact ⟨rfl, rfl⟩
  · split <;> exact ⟨rfl, rfl⟩

/-- **accept_iff**: a context is accepted exactly when its abstract syntax is configured (or the
acceptor is promiscuous) and some proposed transfer syntax is configured (any when none is
configured) and supported by the registry. -/
theorem accept_iff (pc : Proposed) :
    (negotiateOne cfg reg pc).reason = .acceptance ↔
      AbstractOk cfg pc.abstractSyntax ∧ ∃ ts ∈ pc.transferSyntaxes, Eligible cfg reg ts := by
  unfold negotiateOne
  simp only [abstract_test_eq, chooseTs_eq_find]
  by_cases ha : AbstractOk cfg pc.abstractSyntax
  · simp only [ha, decide_true, Bool.not_true, Bool.false_eq_true, ↓reduceIte, true_and]
    cases hf : pc.transferSyntaxes.find? (fun ts => decide (Eligible cfg reg ts)) with
    | some ts =>
      have := List.find?_some hf
      have hm := List.mem_of_find?_eq_some hf
      simp only [true_iff]
      exact ⟨ts, hm, by simpa using this⟩
    | none =>
      rw [List.find?_eq_none] at hf
      simp only [reduceCtorEq, false_iff, not_exists, not_and]
      intro ts hm
      simpa using hf ts hm
  · simp [ha]

/-- **chosen_is_first**: the accepted transfer syntax is the first eligible proposed one — it is
eligible, it occurs in the proposal, and nothing before it is eligible. It is returned exactly
as proposed (padding included). -/
theorem chosen_is_first (pc : Proposed)
    (h : (negotiateOne cfg reg pc).reason = .acceptance) :
    ∃ pre post, pc.transferSyntaxes = pre ++ (negotiateOne cfg reg pc).transferSyntax :: post ∧
      (∀ t ∈ pre, ¬ Eligible cfg reg t) ∧
      Eligible cfg reg (negotiateOne cfg reg pc).transferSyntax := by
  unfold negotiateOne at h ⊢
  simp only [abstract_test_eq, chooseTs_eq_find] at h ⊢
  by_cases ha : AbstractOk cfg pc.abstractSyntax
  · simp only [ha, decide_true, Bool.not_true, Bool.false_eq_true, ↓reduceIte] at h ⊢
    cases hf : pc.transferSyntaxes.find? (fun ts => decide (Eligible cfg reg ts)) with
    | some ts =>
      simp only
      obtain ⟨hp, pre, post, hsplit, hpre⟩ := List.find?_eq_some_iff_append.mp hf
      refine ⟨pre, post, hsplit, ?_, by simpa using hp⟩
      intro t ht
      simpa using hpre t ht
    | none => simp [hf] at h
  · simp [ha] at h

/-- **reason_names_failure**: a context that is not accepted names the failing condition —
"abstract syntax not supported" exactly when the abstract syntax is neither configured nor
waved through by promiscuous mode, "transfer syntaxes not supported" exactly when the abstract
syntax passed and no proposed transfer syntax is eligible; no other reason is ever given. -/
theorem reason_names_failure (pc : Proposed) :
    ((negotiateOne cfg reg pc).reason = .abstractSyntaxNotSupported ↔
        ¬ AbstractOk cfg pc.abstractSyntax) ∧
    ((negotiateOne cfg reg pc).reason = .transferSyntaxesNotSupported ↔
        AbstractOk cfg pc.abstractSyntax ∧ ¬ ∃ ts ∈ pc.transferSyntaxes, Eligible cfg reg ts) ∧
    ((negotiateOne cfg reg pc).reason = .acceptance ∨
     (negotiateOne cfg reg pc).reason = .abstractSyntaxNotSupported ∨
     (negotiateOne cfg reg pc).reason = .transferSyntaxesNotSupported) := by
  have hacc := accept_iff cfg reg pc
  unfold negotiateOne at hacc ⊢
  simp only [abstract_test_eq] at hacc ⊢
  by_cases ha : AbstractOk cfg pc.abstractSyntax
  · simp only [ha, decide_true, Bool.not_true, Bool.false_eq_true, ↓reduceIte, true_and,
      not_true_eq_false, iff_false] at hacc ⊢
    cases hc : chooseTs cfg reg pc.transferSyntaxes with
    | some ts =>
      simp only [hc, true_iff] at hacc
      simp [hacc]
    | none =>
      simp only [hc, reduceCtorEq, false_iff] at hacc
      simp [hacc]
  · simp [ha]

/-- a refused context carries the default transfer syntax in its (insignificant) TS field -/
theorem refused_ts_is_default (pc : Proposed)
    (h : (negotiateOne cfg reg pc).reason ≠ .acceptance) :
    (negotiateOne cfg reg pc).transferSyntax = IMPLICIT_VR_LE := by
  unfold negotiateOne at h ⊢
  simp only [abstract_test_eq] at h ⊢
  by_cases ha : AbstractOk cfg pc.abstractSyntax
  · simp only [ha, decide_true, Bool.not_true, Bool.false_eq_true, ↓reduceIte] at h ⊢
    cases hc : chooseTs cfg reg pc.transferSyntaxes with
    | some ts => simp [hc] at h
    | none => rfl
  · simp [ha]

/-! ### whole request -/

/-- the request is answered with A-ASSOCIATE-AC exactly when protocol version and application
context name match and access control gives clearance; the answer and the acceptor's state are
then determined by the per-context negotiation. -/
theorem accepted_iff (rq : Request) :
    (∃ view, (processRq v cfg reg pol impl (.assocRQ rq)).result = .ok view) ↔
      rq.protocolVersion = cfg.protocolVersion ∧ rq.appContext = cfg.appContext ∧
      pol.access cfg.aeTitle rq.calling rq.called (processUserVars pol rq.userVars).identity = none := by
  unfold processRq
  by_cases h1 : rq.protocolVersion = cfg.protocolVersion
  · by_cases h2 : rq.appContext = cfg.appContext
    · simp only [h1, h2, ne_eq, not_true_eq_false, ↓reduceIte, true_and]
      cases hacc : pol.access cfg.aeTitle rq.calling rq.called (processUserVars pol rq.userVars).identity with
      | none => simp
      | some r => simp [reject]
    · simp [h1, h2, reject]
  · simp [h1, reject]

/-- shape of an accepted answer -/
theorem accepted_shape (rq : Request) (view : ServerView)
    (h : (processRq v cfg reg pol impl (.assocRQ rq)).result = .ok view) :
    let neg := rq.contexts.map (negotiateOne cfg reg)
    let uvs := [UserVar.maxLength cfg.maxPdu, .implClassUid impl.classUid,
                .implVersion impl.versionName] ++ (processUserVars pol rq.userVars).extra
    (processRq v cfg reg pol impl (.assocRQ rq)).reply =
        .assocAC ⟨cfg.protocolVersion, rq.calling, rq.called, rq.appContext,
                  neg.map Negotiated.toResult, uvs⟩ ∧
    view = ⟨(processUserVars pol rq.userVars).requestorMax, cfg.maxPdu, uvs, neg,
            rq.calling, rq.called⟩ := by
  unfold processRq at h ⊢
  by_cases h1 : rq.protocolVersion = cfg.protocolVersion
  · by_cases h2 : rq.appContext = cfg.appContext
    · simp only [h1, h2, ne_eq, not_true_eq_false, ↓reduceIte] at h ⊢
      cases hacc : pol.access cfg.aeTitle rq.calling rq.called (processUserVars pol rq.userVars).identity with
      | none =>
        simp only [hacc, Except.ok.injEq] at h ⊢
        constructor <;> first | rfl | trivial | exact h.symm
      | some r => simp [hacc, reject] at h
    · simp [h1, h2, reject] at h
  · simp [h1, reject] at h

/-- **one_result_per_context**: the A-ASSOCIATE-AC carries one result per proposed presentation
context, with the same identifiers in the same order; so does the acceptor's own list, and the
two agree entry by entry. -/
theorem one_result_per_context (rq : Request) (view : ServerView)
    (h : (processRq v cfg reg pol impl (.assocRQ rq)).result = .ok view) :
    ∃ ac, (processRq v cfg reg pol impl (.assocRQ rq)).reply = .assocAC ac ∧
      ac.contexts.length = rq.contexts.length ∧
      ac.contexts.map (·.id) = rq.contexts.map (·.id) ∧
      view.contexts.map (·.id) = rq.contexts.map (·.id) ∧
      ac.contexts = view.contexts.map Negotiated.toResult := by
  obtain ⟨hr, hv⟩ := accepted_shape v cfg reg pol impl rq view h
  refine ⟨_, hr, ?_, ?_, ?_, ?_⟩
  · simp
  · simp only [List.map_map]
    apply List.map_congr_left
    intro pc _
    exact (negotiateOne_id cfg reg pc).1
  · subst hv
    simp only [List.map_map]
    apply List.map_congr_left
    intro pc _
    exact (negotiateOne_id cfg reg pc).1
  · subst hv; rfl

/-- the `i`-th result of the answer is the negotiation of the `i`-th proposed context, so
`accept_iff`, `chosen_is_first` and `reason_names_failure` speak about every entry of the PDU. -/
theorem result_pointwise (rq : Request) (view : ServerView)
    (h : (processRq v cfg reg pol impl (.assocRQ rq)).result = .ok view)
    (i : Nat) (hi : i < rq.contexts.length) :
    view.contexts[i]? = some (negotiateOne cfg reg rq.contexts[i]) := by
  obtain ⟨_, hv⟩ := accepted_shape v cfg reg pol impl rq view h
  subst hv
  simp [hi]

/-! ### rejections -/

/-- **reject_reasons (protocol version)**, repaired variant: another protocol version is rejected
with service-provider (ACSE) / protocol-version-not-supported, whatever else the request says. -/
theorem reject_protocol_version (rq : Request) (h : rq.protocolVersion ≠ cfg.protocolVersion) :
    (processRq .repaired cfg reg pol impl (.assocRQ rq)).reply
        = .assocRJ true .providerAcseProtocolVersion ∧
    (processRq .repaired cfg reg pol impl (.assocRQ rq)).result = .error .rejected ∧
    RjSource.codes .providerAcseProtocolVersion = (2, 2) := by
  simp [processRq, h, reject, pvRejectSource, RjSource.codes]

/-- the code as shipped answers a protocol-version mismatch with service-user / no-reason-given
(codes 1,1), which is not the matching reason (codes 2,2): the clause fails on this witness. -/
theorem shipped_protocol_version_reason_not_matching :
    ∃ rq : Request, rq.protocolVersion ≠ ({} : Config).protocolVersion ∧
      (processRq .shipped {} [] (Policy.default acceptAny) ⟨[], []⟩ (.assocRQ rq)).reply
        = .assocRJ true (.serviceUser .noReasonGiven) ∧
      RjSource.codes (.serviceUser .noReasonGiven) ≠ RjSource.codes .providerAcseProtocolVersion :=
  ⟨⟨2, [], [], DEFAULT_APP_CONTEXT, [], []⟩, by decide, by decide, by decide⟩

/-- **reject_reasons (application context)** -/
theorem reject_app_context (rq : Request) (h1 : rq.protocolVersion = cfg.protocolVersion)
    (h2 : rq.appContext ≠ cfg.appContext) :
    (processRq v cfg reg pol impl (.assocRQ rq)).reply
        = .assocRJ true (.serviceUser .appContextNotSupported) ∧
    (processRq v cfg reg pol impl (.assocRQ rq)).result = .error .rejected ∧
    RjSource.codes (.serviceUser .appContextNotSupported) = (1, 2) := by
  simp [processRq, h1, h2, reject, RjSource.codes]

/-- **reject_reasons (access control)**: a request refused by the access-control policy is
rejected with exactly the service-user reason the policy gave; the policy sees this node's AE
title, the calling and called titles of the request and the *last* user identity item. -/
theorem reject_access_control (rq : Request) (r : SuReason)
    (h1 : rq.protocolVersion = cfg.protocolVersion) (h2 : rq.appContext = cfg.appContext)
    (h3 : pol.access cfg.aeTitle rq.calling rq.called
            (processUserVars pol rq.userVars).identity = some r) :
    (processRq v cfg reg pol impl (.assocRQ rq)).reply = .assocRJ true (.serviceUser r) ∧
    (processRq v cfg reg pol impl (.assocRQ rq)).result = .error .rejected := by
  simp [processRq, h1, h2, h3, reject]

/-- `AcceptCalledAeTitle` refuses exactly the requests whose called AE title differs from this
node's, with called-AE-title-not-recognized (1,7); `AcceptAny` refuses nothing. -/
theorem builtin_access_control (this calling called : Str) (u : Option UserIdentity) :
    acceptAny this calling called u = none ∧
    (acceptCalledAeTitle this calling called u = none ↔ this = called) ∧
    (this ≠ called → acceptCalledAeTitle this calling called u = some .calledNotRecognized) ∧
    RjSource.codes (.serviceUser .calledNotRecognized) = (1, 7) := by
  refine ⟨rfl, ?_, ?_, rfl⟩
  · unfold acceptCalledAeTitle; by_cases h : this = called <;> simp [h]
  · intro h; simp [acceptCalledAeTitle, h]

/-! ### maximum PDU length of the requestor -/

def isMaxLength : UserVar → Bool
  | .maxLength _ => true
  | _ => false

theorem uvStep_keeps_max (st : UvState) (u : UserVar) (h : isMaxLength u = false) :
    (uvStep pol st u).requestorMax = st.requestorMax := by
  cases u <;> simp [uvStep, isMaxLength] at h ⊢
  · split <;> rfl
  · split <;> rfl

theorem foldl_keeps_max (uvs : List UserVar) (st : UvState)
    (h : ∀ u ∈ uvs, isMaxLength u = false) :
    (uvs.foldl (uvStep pol) st).requestorMax = st.requestorMax := by
  induction uvs generalizing st with
  | nil => rfl
  | cons u us ih =>
    simp only [List.foldl_cons]
    rw [ih _ (fun x hx => h x (by simp [hx]))]
    exact uvStep_keeps_max pol st u (h u (by simp))

/-- **max_pdu_from_request**: absent ↦ the default; otherwise the *last* Maximum Length item
decides: 0 ↦ the largest supported, `n` ↦ `min n MAXIMUM_PDU_SIZE`. -/
theorem max_pdu_from_request (uvs : List UserVar) :
    ((∀ u ∈ uvs, isMaxLength u = false) →
        (processUserVars pol uvs).requestorMax = DEFAULT_MAX_PDU) ∧
    (∀ pre post n, uvs = pre ++ UserVar.maxLength n :: post →
        (∀ u ∈ post, isMaxLength u = false) →
        (processUserVars pol uvs).requestorMax =
          if n = 0 then MAXIMUM_PDU_SIZE else min n MAXIMUM_PDU_SIZE) := by
  constructor
  · intro h
    exact foldl_keeps_max pol uvs {} h
  · intro pre post n hs hpost
    subst hs
    unfold processUserVars
    rw [List.foldl_append, List.foldl_cons, foldl_keeps_max pol post _ hpost]
    rfl

/-- the acceptor's view: the requestor's maximum comes from the request as above, never exceeds
the largest supported value, and the acceptor's own maximum is the configured one, which is also
what the A-ASSOCIATE-AC announces in its first user item. -/
theorem max_pdu_in_view (rq : Request) (view : ServerView)
    (h : (processRq v cfg reg pol impl (.assocRQ rq)).result = .ok view) :
    view.peerMaxPdu = (processUserVars pol rq.userVars).requestorMax ∧
    view.localMaxPdu = cfg.maxPdu ∧
    view.userVars.head? = some (.maxLength cfg.maxPdu) := by
  obtain ⟨_, hv⟩ := accepted_shape v cfg reg pol impl rq view h
  subst hv
  exact ⟨rfl, rfl, rfl⟩

theorem uvStep_max_le (st : UvState) (u : UserVar) (h : st.requestorMax ≤ MAXIMUM_PDU_SIZE) :
    (uvStep pol st u).requestorMax ≤ MAXIMUM_PDU_SIZE := by
  cases u <;> simp only [uvStep] <;> try exact h
  · split
    · exact Nat.le_refl _
    · exact Nat.min_le_right _ _
  · split <;> exact h
  · split <;> exact h

theorem requestorMax_le (uvs : List UserVar) :
    (processUserVars pol uvs).requestorMax ≤ MAXIMUM_PDU_SIZE := by
  unfold processUserVars
  suffices ∀ st : UvState, st.requestorMax ≤ MAXIMUM_PDU_SIZE →
      (uvs.foldl (uvStep pol) st).requestorMax ≤ MAXIMUM_PDU_SIZE by
    exact this {} (by decide)
  induction uvs with
  | nil => intro st h; exact h
  | cons u us ih => intro st h; exact ih _ (uvStep_max_le pol st u h)

/-! ### other first PDUs, and `establish` -/

/-- anything but an A-ASSOCIATE-RQ never establishes an association: a release request is
answered with a release reply, the rest with an abort. -/
theorem non_request_never_established (p : Pdu) (h : ∀ rq, p ≠ .assocRQ rq) :
    ∃ e, (processRq v cfg reg pol impl p).result = .error e ∧
      ((processRq v cfg reg pol impl p).reply = .releaseRP ∨
       ∃ s, (processRq v cfg reg pol impl p).reply = .abortRQ s) := by
  cases p with
  | assocRQ rq => exact absurd rfl (h rq)
  | releaseRQ => exact ⟨_, rfl, .inl rfl⟩
  | unknown t => exact ⟨_, rfl, .inr ⟨_, rfl⟩⟩
  | assocAC ac => exact ⟨_, rfl, .inr ⟨_, rfl⟩⟩
  | assocRJ a b => exact ⟨_, rfl, .inr ⟨_, rfl⟩⟩
  | pdata => exact ⟨_, rfl, .inr ⟨_, rfl⟩⟩
  | releaseRP => exact ⟨_, rfl, .inr ⟨_, rfl⟩⟩
  | abortRQ s => exact ⟨_, rfl, .inr ⟨_, rfl⟩⟩

/-! ### non-vacuity: the hypotheses above are satisfiable, on the default configuration -/

def exCfg : Config := (({} : Config).withAbstractSyntax "1.2.840.10008.1.1\x00".toList)
def exReg : List Str := [IMPLICIT_VR_LE, "1.2.840.10008.1.2.1".toList]
def exPc : Proposed := ⟨3, "1.2.840.10008.1.1".toList, ["1.2.3".toList, "1.2.840.10008.1.2.1\x00".toList, IMPLICIT_VR_LE]⟩
def exRq : Request := ⟨1, "SCU".toList, "THIS-SCP".toList, DEFAULT_APP_CONTEXT, [exPc], [.maxLength 0]⟩

example : (negotiateOne exCfg exReg exPc).reason = .acceptance := by decide
example : (negotiateOne exCfg exReg exPc).transferSyntax = "1.2.840.10008.1.2.1\x00".toList := by decide
example : (negotiateOne exCfg exReg { exPc with abstractSyntax := "1.2".toList }).reason
    = .abstractSyntaxNotSupported := by decide
example : (negotiateOne exCfg exReg { exPc with transferSyntaxes := ["1.2.3".toList] }).reason
    = .transferSyntaxesNotSupported := by decide
example : ∃ view, (processRq .repaired exCfg exReg (Policy.default acceptCalledAeTitle) ⟨[], []⟩
    (.assocRQ exRq)).result = .ok view ∧ view.peerMaxPdu = MAXIMUM_PDU_SIZE := ⟨_, rfl, by decide⟩

end Dicom.Assoc
