import DicomModel.Model.PersonName
/-
C17 — Person names round-trip between text and components.

`PN.toDicomString` / `PN.fromText` model `PersonName::to_dicom_string` / `from_text`.
Hypothesis on each present component (`CompOk`): no `'^'`, no Unicode white space at either end
(`str::trim` strips `char::is_whitespace`, not just U+0020). `'='` need not be excluded.
"Same components" is up to `normEmpty`: a component that is present but empty (`Some("")`, only
reachable through the builder) denotes the same DICOM name as an absent one and parses back absent.
All 32 presence patterns are covered by one proof over component lists of any length.
-/
namespace Dicom.PN

/-! ### split / join -/

theorem split_nocaret {s : List Char} (h : '^' ∉ s) : splitCaret s = [s] := by
  induction s with
  | nil => rfl
  | cons c cs ih =>
    have hc : c ≠ '^' := fun e => h (by simp [e])
    have hcs : '^' ∉ cs := fun m => h (by simp [m])
    simp [splitCaret, hc, ih hcs]

theorem split_append {s : List Char} (h : '^' ∉ s) (r : List Char) :
    splitCaret (s ++ '^' :: r) = s :: splitCaret r := by
  induction s with
  | nil => simp [splitCaret]
  | cons c cs ih =>
    have hc : c ≠ '^' := fun e => h (by simp [e])
    have hcs : '^' ∉ cs := fun m => h (by simp [m])
    simp [splitCaret, hc, ih hcs]

def NoCaret (c : Comp) : Prop := ∀ s, c = some s → '^' ∉ s

theorem noCaret_getD {c : Comp} (h : NoCaret c) : '^' ∉ c.getD [] := by
  cases c with
  | none => simp
  | some s => exact h s rfl

/-- splitting the joined text gives back the component texts (absent ↦ empty). -/
theorem split_join : ∀ (cs : List Comp), cs ≠ [] → (∀ c ∈ cs, NoCaret c) →
    splitCaret (joinCaret cs) = cs.map (·.getD [])
  | [], h, _ => absurd rfl h
  | [c], _, hc => by
    simp [joinCaret, split_nocaret (noCaret_getD (hc c (by simp)))]
  | c :: c' :: r, _, hc => by
    have h1 := noCaret_getD (hc c (by simp))
    have ih := split_join (c' :: r) (by simp) (fun x hx => hc x (by simp [hx]))
    simp only [joinCaret, split_append h1, ih, List.map_cons]

/-! ### trim is the identity on the produced text -/

theorem dropWhile_id {p : Char → Bool} {l : List Char}
    (h : ∀ x, l.head? = some x → p x = false) : l.dropWhile p = l := by
  cases l with
  | nil => rfl
  | cons a t => simp [List.dropWhile, h a rfl]

theorem trim_id {s : List Char} (hh : ∀ x, s.head? = some x → isWs x = false)
    (hl : ∀ x, s.getLast? = some x → isWs x = false) : trim s = s := by
  unfold trim
  rw [dropWhile_id hh, dropWhile_id (by simpa using hl), List.reverse_reverse]

theorem compOk_noCaret {c : Comp} (h : CompOk c = true) : NoCaret c := by
  intro s e; subst e
  simp [CompOk, strOk] at h
  exact h.1.1

theorem isWs_caret : isWs '^' = false := by decide

theorem compOk_head {c : Comp} (h : CompOk c = true) :
    ∀ x, (c.getD []).head? = some x → isWs x = false := by
  intro x hx
  cases c with
  | none => simp at hx
  | some s =>
    simp [CompOk, strOk] at h
    cases s with
    | nil => simp at hx
    | cons a t => simp at hx; subst hx; simpa using h.1.2

theorem compOk_last {c : Comp} (h : CompOk c = true) :
    ∀ x, (c.getD []).getLast? = some x → isWs x = false := by
  intro x hx
  cases c with
  | none => simp at hx
  | some s =>
    simp [CompOk, strOk] at h
    simp only [Option.getD_some] at hx
    have := h.2
    simp [hx] at this
    exact this

theorem join_head : ∀ (cs : List Comp), (∀ c ∈ cs, CompOk c = true) →
    ∀ x, (joinCaret cs).head? = some x → isWs x = false
  | [], _, x, hx => by simp [joinCaret] at hx
  | [c], h, x, hx => compOk_head (h c (by simp)) x (by simpa [joinCaret] using hx)
  | c :: c' :: r, h, x, hx => by
    simp only [joinCaret] at hx
    cases hc : c.getD [] with
    | nil => simp [hc] at hx; subst hx; exact isWs_caret
    | cons a t =>
      simp [hc] at hx; subst hx
      exact compOk_head (h c (by simp)) a (by simp [hc])

theorem join_last : ∀ (cs : List Comp), (∀ c ∈ cs, CompOk c = true) →
    ∀ x, (joinCaret cs).getLast? = some x → isWs x = false
  | [], _, x, hx => by simp [joinCaret] at hx
  | [c], h, x, hx => compOk_last (h c (by simp)) x (by simpa [joinCaret] using hx)
  | c :: c' :: r, h, x, hx => by
    have ih := join_last (c' :: r) (fun y hy => h y (by simp [hy]))
    simp only [joinCaret] at hx
    rw [List.getLast?_append] at hx
    cases hj : (joinCaret (c' :: r)).getLast? with
    | none =>
      simp [List.getLast?_cons, hj] at hx
      subst hx; exact isWs_caret
    | some y =>
      simp [List.getLast?_cons, hj] at hx
      subst hx; exact ih y hj

/-! ### trailing absent components -/

theorem strip_spec (cs : List Comp) :
    ∃ k, cs = stripTrailingNone cs ++ List.replicate k none := by
  refine ⟨(cs.reverse.takeWhile (·.isNone)).length, ?_⟩
  have h := List.takeWhile_append_dropWhile (p := fun c : Comp => c.isNone) (l := cs.reverse)
  have h2 : cs = (cs.reverse.dropWhile (·.isNone)).reverse ++ (cs.reverse.takeWhile (·.isNone)).reverse := by
    rw [← List.reverse_append, h, List.reverse_reverse]
  have h3 : (cs.reverse.takeWhile (·.isNone)).reverse
      = List.replicate (cs.reverse.takeWhile (·.isNone)).length none := by
    rw [List.eq_replicate_iff]
    refine ⟨by simp, ?_⟩
    intro b hb
    have := List.mem_takeWhile_imp (List.mem_reverse.mp hb)
    cases b <;> simp_all
  unfold stripTrailingNone
  rw [← h3]; exact h2

theorem strip_subset (cs : List Comp) : ∀ c ∈ stripTrailingNone cs, c ∈ cs := by
  intro c hc
  obtain ⟨k, hk⟩ := strip_spec cs
  rw [hk]; exact List.mem_append_left _ hc

theorem getElem?_join_strip (cs : List Comp) (i : Nat) :
    (stripTrailingNone cs)[i]?.join = cs[i]?.join := by
  obtain ⟨k, hk⟩ := strip_spec cs
  generalize stripTrailingNone cs = A at hk
  subst hk
  by_cases hi : i < A.length
  · rw [List.getElem?_append_left hi]
  · have hi' : A.length ≤ i := Nat.le_of_not_lt hi
    rw [List.getElem?_append_right hi', List.getElem?_eq_none hi']
    simp [List.getElem?_replicate]
    split <;> simp

/-- the last element left by `stripTrailingNone` is a present component -/
theorem strip_last (cs : List Comp) : (stripTrailingNone cs).getLast? ≠ some none := by
  unfold stripTrailingNone
  rw [List.getLast?_reverse]
  cases h : cs.reverse.dropWhile (·.isNone) with
  | nil => simp
  | cons a t =>
    have := List.head_dropWhile_not (fun c : Comp => c.isNone) cs.reverse (by simp [h])
    simp [h] at this
    simp
    intro e; subst e; simp at this

/-! ### components of the parsed text -/

theorem component_map (A : List Comp) (i : Nat) :
    component (A.map (·.getD [])) i = normEmpty (A[i]?.join) := by
  unfold component
  rw [List.getElem?_map]
  cases A[i]? with
  | none => rfl
  | some c =>
    cases c with
    | none => rfl
    | some s => cases s <;> rfl

theorem component_empty (i : Nat) : component [[]] i = none := by
  cases i <;> simp [component]

/-- General form over component lists of any length: the `i`-th component parsed from the written
text is the `i`-th component (absent beyond the end), present-but-empty read as absent. -/
theorem component_rt (cs : List Comp) (h : ∀ c ∈ cs, CompOk c = true) (i : Nat) :
    component (splitCaret (trim (toTextL cs))) i = normEmpty (cs[i]?.join) := by
  have hs : ∀ c ∈ stripTrailingNone cs, CompOk c = true := fun c hc => h c (strip_subset cs c hc)
  unfold toTextL
  rw [trim_id (join_head _ hs) (join_last _ hs), ← getElem?_join_strip]
  by_cases he : stripTrailingNone cs = []
  · simp [he, joinCaret, splitCaret, component_empty, normEmpty]
  · rw [split_join _ he (fun c hc => compOk_noCaret (hs c hc)), component_map]

/-- **C17, round trip.** For every person name whose present components contain no `'^'` and have
no white space at either end (all 32 presence patterns, any texts), parsing the written DICOM text
gives back the same components (present-but-empty read as absent). -/
theorem pn_rt (p : PN) (h : p.Ok = true) : PN.fromText p.toDicomString = p.norm := by
  have hc : ∀ c ∈ p.comps, CompOk c = true := by
    simpa [PN.Ok, List.all_eq_true] using h
  have k := component_rt p.comps hc
  simp only [PN.fromText, PN.toDicomString, PN.norm]
  rw [k 0, k 1, k 2, k 3, k 4]
  simp [PN.comps]

/-- With no present-but-empty component the round trip is the identity. -/
theorem pn_rt_id (p : PN) (h : p.Ok = true) (hn : p.norm = p) :
    PN.fromText p.toDicomString = p := by
  rw [pn_rt p h, hn]

/-- **C17, shape of the text.** The `'^'`-separated parts of the written text are exactly the
components up to the last present one, an absent component being an empty part: leading absent
components are kept as separators, trailing absent ones are omitted (nothing is written for a
name with no present component). -/
theorem text_parts (cs : List Comp) (h : ∀ c ∈ cs, NoCaret c) :
    splitCaret (toTextL cs) =
      if stripTrailingNone cs = [] then [[]] else (stripTrailingNone cs).map (·.getD []) := by
  unfold toTextL
  split
  · next he => simp [he, joinCaret, splitCaret]
  · next he => exact split_join _ he (fun c hc => h c (strip_subset cs c hc))

/-- The number of parts is the position of the last present component. -/
theorem text_parts_length (cs : List Comp) (h : ∀ c ∈ cs, NoCaret c) (hp : lastPresent cs ≠ 0) :
    (splitCaret (toTextL cs)).length = lastPresent cs := by
  rw [text_parts cs h]
  have : stripTrailingNone cs ≠ [] := by
    intro e; simp [lastPresent, e] at hp
  simp [this, lastPresent]

/-- Trailing absent components are omitted: when no component is present-but-empty, the written
text does not end in a separator, i.e. its last part is a non-empty component text. -/
theorem no_trailing_separator (cs : List Comp) (h : ∀ c ∈ cs, NoCaret c)
    (hn : ∀ c ∈ cs, c ≠ some []) (hp : lastPresent cs ≠ 0) :
    ∃ s, (splitCaret (toTextL cs)).getLast? = some s ∧ s ≠ [] ∧ some s ∈ cs := by
  have hne : stripTrailingNone cs ≠ [] := by
    intro e; simp [lastPresent, e] at hp
  rw [text_parts cs h]
  simp only [hne, if_false, List.getLast?_map]
  have hl := strip_last cs
  cases hg : (stripTrailingNone cs).getLast? with
  | none => simp [List.getLast?_eq_none_iff] at hg; exact absurd hg hne
  | some c =>
    cases c with
    | none => exact absurd hg hl
    | some s =>
      have hm : some s ∈ cs := strip_subset cs _ (List.mem_of_getLast? hg)
      refine ⟨s, by simp, ?_, hm⟩
      intro e; subst e; exact hn _ hm rfl

/-- The hypothesis is needed: a component with `'^'` does not come back. -/
theorem caret_in_component_fails :
    PN.fromText (PN.toDicomString ⟨some ['A', '^', 'B'], none, none, none, none⟩)
      ≠ ⟨some ['A', '^', 'B'], none, none, none, none⟩ := by decide

/-- … nor does a component with a leading space. -/
theorem leading_space_fails :
    PN.fromText (PN.toDicomString ⟨some [' ', 'A'], none, none, none, none⟩)
      ≠ ⟨some [' ', 'A'], none, none, none, none⟩ := by decide

/-- A present-but-empty component is read back absent (why the statement is up to `norm`). -/
theorem present_empty_reads_absent :
    PN.fromText (PN.toDicomString ⟨some ['A'], none, none, none, some []⟩)
      = ⟨some ['A'], none, none, none, none⟩ := by decide

/-- non-vacuity: the test names of the repository satisfy the hypotheses -/
example : (PN.Ok ⟨some "Adams".toList, some "John".toList, none, some "Rev.".toList, none⟩ = true) ∧
    PN.toDicomString ⟨some "Adams".toList, some "John".toList, none, some "Rev.".toList, none⟩
      = "Adams^John^^Rev.".toList := by decide

example : PN.toDicomString ⟨none, none, none, none, some "B.A. M.Div.".toList⟩
      = "^^^^B.A. M.Div.".toList := by decide

end Dicom.PN
