import DicomModel.Model.PersonName
import DicomModel.Lemmas.PersonName
/-
C17 — Person names round-trip between text and components.

`PN.toDicomString` / `PN.fromText` model `PersonName::to_dicom_string` / `from_text`.
Hypothesis on each present component (`CompOk`): no `'^'`, no Unicode white space at either end
(`str::trim` strips `char::is_whitespace`, not just U+0020). `'='` need not be excluded.
"Same components" is up to `normEmpty`: a component that is present but empty (`Some("")`, only
reachable through the builder) denotes the same DICOM name as an absent one and parses back absent.
All 32 presence patterns are covered by one proof over component lists of any length.
-/
namespace Dicom.PN

/-- General form over component lists of any length: the `i`-th component parsed from the written
text is the `i`-th component (absent beyond the end), present-but-empty read as absent. -/
theorem component_rt (cs : List Comp) (h : ∀ c ∈ cs, CompOk c = true) (i : Nat) :
    component (splitCaret (trim (toTextL cs))) i = normEmpty (cs[i]?.join) := by
  have hs : ∀ c ∈ stripTrailingNone cs, CompOk c = true := fun c hc => h c (strip_subset cs c hc)
  unfold toTextL
  rw [trim_id (join_head _ hs) (join_last _ hs), ← getElem?_join_strip]
  by_cases he : stripTrailingNone cs = []
  · simp [he, joinCaret, splitCaret, component_empty, normEmpty]
  · rw [split_join _ he (fun c hc => compOk_noCaret (hs c hc)), component_map]

/-- **C17, round trip.** For every person name whose present components contain no `'^'` and have
no white space at either end (all 32 presence patterns, any texts), parsing the written DICOM text
gives back the same components (present-but-empty read as absent). -/
theorem pn_rt (p : PN) (h : p.Ok = true) : PN.fromText p.toDicomString = p.norm := by
  have hc : ∀ c ∈ p.comps, CompOk c = true := by
    simpa [PN.Ok, List.all_eq_true] using h
  have k := component_rt p.comps hc
  simp only [PN.fromText, PN.toDicomString, PN.norm]
  rw [k 0, k 1, k 2, k 3, k 4]
  simp [PN.comps]

/-- With no present-but-empty component the round trip is the identity. -/
theorem pn_rt_id (p : PN) (h : p.Ok = true) (hn : p.norm = p) :
    PN.fromText p.toDicomString = p := by
  rw [pn_rt p h, hn]

/-- **C17, shape of the text.** The `'^'`-separated parts of the written text are exactly the
components up to the last present one, an absent component being an empty part: leading absent
components are kept as separators, trailing absent ones are omitted (nothing is written for a
name with no present component). -/
theorem text_parts (cs : List Comp) (h : ∀ c ∈ cs, NoCaret c) :
    splitCaret (toTextL cs) =
      if stripTrailingNone cs = [] then [[]] else (stripTrailingNone cs).map (·.getD []) := by
  unfold toTextL
  split
  · next he => simp [he, joinCaret, splitCaret]
  · next he => exact split_join _ he (fun c hc => h c (strip_subset cs c hc))

/-- The number of parts is the position of the last present component. -/
theorem text_parts_length (cs : List Comp) (h : ∀ c ∈ cs, NoCaret c) (hp : lastPresent cs ≠ 0) :
    (splitCaret (toTextL cs)).length = lastPresent cs := by
  rw [text_parts cs h]
  have : stripTrailingNone cs ≠ [] := by
    intro e; simp [lastPresent, e] at hp
  simp [this, lastPresent]

/-- Trailing absent components are omitted: when no component is present-but-empty, the written
text does not end in a separator, i.e. its last part is a non-empty component text. -/
theorem no_trailing_separator (cs : List Comp) (h : ∀ c ∈ cs, NoCaret c)
    (hn : ∀ c ∈ cs, c ≠ some []) (hp : lastPresent cs ≠ 0) :
    ∃ s, (splitCaret (toTextL cs)).getLast? = some s ∧ s ≠ [] ∧ some s ∈ cs := by
  have hne : stripTrailingNone cs ≠ [] := by
    intro e; simp [lastPresent, e] at hp
  rw [text_parts cs h]
  simp only [hne, if_false, List.getLast?_map]
  have hl := strip_last cs
  cases hg : (stripTrailingNone cs).getLast? with
  | none => simp [List.getLast?_eq_none_iff] at hg; exact absurd hg hne
  | some c =>
    cases c with
    | none => exact absurd hg hl
    | some s =>
      have hm : some s ∈ cs := strip_subset cs _ (List.mem_of_getLast? hg)
      refine ⟨s, by simp, ?_, hm⟩
      intro e; subst e; exact hn _ hm rfl

/-- The hypothesis is needed: a component with `'^'` does not come back. -/
theorem caret_in_component_fails :
    PN.fromText (PN.toDicomString ⟨some ['A', '^', 'B'], none, none, none, none⟩)
      ≠ ⟨some ['A', '^', 'B'], none, none, none, none⟩ := by decide

/-- … nor does a component with a leading space. -/
theorem leading_space_fails :
    PN.fromText (PN.toDicomString ⟨some [' ', 'A'], none, none, none, none⟩)
      ≠ ⟨some [' ', 'A'], none, none, none, none⟩ := by decide

/-- A present-but-empty component is read back absent (why the statement is up to `norm`). -/
theorem present_empty_reads_absent :
    PN.fromText (PN.toDicomString ⟨some ['A'], none, none, none, some []⟩)
      = ⟨some ['A'], none, none, none, none⟩ := by decide

/-- non-vacuity: the test names of the repository satisfy the hypotheses -/
example : (PN.Ok ⟨some "Adams".toList, some "John".toList, none, some "Rev.".toList, none⟩ = true) ∧
    PN.toDicomString ⟨some "Adams".toList, some "John".toList, none, some "Rev.".toList, none⟩
      = "Adams^John^^Rev.".toList := by decide

example : PN.toDicomString ⟨none, none, none, none, some "B.A. M.Div.".toList⟩
      = "^^^^B.A. M.Div.".toList := by decide

end Dicom.PN
