import DicomModel.Model.PduWire
import DicomModel.Props.C25
/-
C27 — PDU reception is independent of how the byte stream is segmented.

`receiveR`/`receiveSync`/`receiveAsync` (second half of this file) put the transport below the loop:
the peer's segments are re-split by the room each read offers (8192 for the sync `BufReader`, any
positive spare capacity for the async `read_buf`); `receive_seq_sync`, `receive_seq_async`,
`sync_async_agree` are the property for the two real receivers.
`receive` (Model/PduWire.lean) models one call of `read_pdu_from_wire` / `read_pdu_from_wire_async`
over a script of transport reads. The theorems quantify over *every* script whose concatenation is
the byte stream (`chunks.flatten = stream`) with no empty read — several PDUs in one read, one PDU
over many reads, one-byte reads are all instances. They are built from C25's `pdu_rt` (a complete
PDU at the front of the buffer is returned and exactly its bytes are consumed) and
`prefix_incomplete` (a partial PDU makes the loop read on), with the buffer invariant
`read_buffer ++ (script left).flatten = bytes of the PDUs not yet returned`.
-/
namespace Dicom.Pdu

/-- what a sequence of receives needs of each PDU: well-formed, and not longer than the maximum
when the receiver is strict -/
def Receivable (mx : Nat) (strict : Bool) (p : Pdu) : Prop :=
  WellFormedPdu p ∧ ∀ bs, writePdu p = .ok bs → strict = true → bs.length - 6 ≤ mx

/-- **One receive.** If buffer plus script start with the encoding `e` of `p`, the receive returns
`p` (normal form) whatever the segmentation, and the state left is again buffer ++ script = the
bytes after `e`: nothing lost, nothing duplicated. -/
theorem receive_one {mx : Nat} {strict : Bool} (hmx : validMax mx) {p : Pdu} {e : Bytes}
    (hp : Receivable mx strict p) (he : writePdu p = .ok e) (tail : Bytes) :
    ∀ (chunks : List Bytes) (buf : Bytes), buf ++ chunks.flatten = e ++ tail → (∀ c ∈ chunks, c ≠ []) →
      ∃ buf' chunks', receive mx strict buf chunks = .ok (normPdu p, buf', chunks') ∧
        buf' ++ chunks'.flatten = tail ∧ (∀ c ∈ chunks', c ≠ []) := by
  have hfit := hp.2 e he
  intro chunks
  induction chunks with
  | nil =>
    intro buf hb _
    simp only [List.flatten_nil, List.append_nil] at hb
    subst hb
    refine ⟨tail, [], ?_, by simp, by simp⟩
    unfold receive
    rw [pdu_rt hp.1 he mx strict hmx hfit tail]
  | cons c cs ih =>
    intro buf hb hne
    rcases List.append_eq_append_iff.1 hb with ⟨a', h1, h2⟩ | ⟨c', h1, h2⟩
    · -- buf is a prefix of e
      by_cases ha : a' = []
      · subst ha
        simp only [List.append_nil] at h1
        subst h1
        refine ⟨[], c :: cs, ?_, by simpa using h2, hne⟩
        unfold receive
        have := pdu_rt hp.1 he mx strict hmx hfit []
        simp only [List.append_nil] at this
        rw [this]
      · -- strict prefix: incomplete, read the next chunk
        have hlen : buf.length < e.length := by
          rw [h1]; cases a' <;> simp_all
        have hpre : buf = e.take buf.length := by rw [h1]; simp
        have hinc := prefix_incomplete he mx strict hmx hfit buf.length hlen
        rw [← hpre] at hinc
        have hc : c ≠ [] := hne c (by simp)
        have hce : c.isEmpty = false := by
          cases c with
          | nil => exact absurd rfl hc
          | cons _ _ => rfl
        obtain ⟨buf', chunks', h3, h4, h5⟩ := ih (buf ++ c)
          (by simp only [List.flatten_cons] at hb; simpa using hb) (fun x hx => hne x (by simp [hx]))
        refine ⟨buf', chunks', ?_, h4, h5⟩
        unfold receive
        rw [hinc]
        simp only [hce]
        exact h3
    · -- the whole of e is already in the buffer
      subst h1
      refine ⟨c', c :: cs, ?_, by simpa using h2.symm, hne⟩
      unfold receive
      rw [pdu_rt hp.1 he mx strict hmx hfit c']

/-- **Sequence.** For any PDUs `ps` written to the wire and any segmentation of the stream
(`chunks.flatten = stream`, no empty read), `ps.length` successive receives starting from an empty
buffer return exactly `ps` (normal forms) in order, and leave buffer and script empty. -/
theorem receive_seq {mx : Nat} {strict : Bool} (hmx : validMax mx) :
    ∀ (ps : List Pdu) (stream : Bytes), (∀ p ∈ ps, Receivable mx strict p) → writeAll ps = .ok stream →
      ∀ (buf : Bytes) (chunks : List Bytes), buf ++ chunks.flatten = stream → (∀ c ∈ chunks, c ≠ []) →
        receiveMany mx strict ps.length buf chunks = .ok (ps.map normPdu, [], []) := by
  intro ps
  induction ps with
  | nil =>
    intro stream _ hw buf chunks hb hne
    simp [writeAll] at hw; subst hw
    obtain ⟨h1, h1'⟩ := List.append_eq_nil_iff.1 hb
    subst h1
    have h2 : chunks = [] := by
      cases chunks with
      | nil => rfl
      | cons c cs =>
        exfalso
        have hc := hne c (by simp)
        simp only [List.flatten_cons] at h1'
        exact hc (List.append_eq_nil_iff.1 h1').1
    subst h2
    simp [receiveMany]
  | cons p ps ih =>
    intro stream hr hw buf chunks hb hne
    simp only [writeAll] at hw
    obtain ⟨e, tail, he, ht, rfl⟩ := wcat_ok.1 hw
    obtain ⟨buf', chunks', h1, h2, h3⟩ :=
      receive_one hmx (hr p (by simp)) he tail chunks buf hb hne
    simp only [List.length_cons, receiveMany, h1,
      ih tail (fun q hq => hr q (by simp [hq])) ht buf' chunks' h2 h3, List.map_cons]

/-- the statement of the property: start with an empty buffer, any segmentation of the stream -/
theorem receive_seq_segmentation {mx : Nat} {strict : Bool} (hmx : validMax mx) (ps : List Pdu) (stream : Bytes)
    (hr : ∀ p ∈ ps, Receivable mx strict p) (hw : writeAll ps = .ok stream)
    (chunks : List Bytes) (hseg : chunks.flatten = stream) (hne : ∀ c ∈ chunks, c ≠ []) :
    receiveMany mx strict ps.length [] chunks = .ok (ps.map normPdu, [], []) :=
  receive_seq hmx ps stream hr hw [] chunks (by simpa using hseg) hne

/-- two segmentations of the same stream are indistinguishable to the receiver -/
theorem segmentation_irrelevant {mx : Nat} {strict : Bool} (hmx : validMax mx) (ps : List Pdu) (stream : Bytes)
    (hr : ∀ p ∈ ps, Receivable mx strict p) (hw : writeAll ps = .ok stream)
    (c1 c2 : List Bytes) (h1 : c1.flatten = stream) (h2 : c2.flatten = stream)
    (n1 : ∀ c ∈ c1, c ≠ []) (n2 : ∀ c ∈ c2, c ≠ []) :
    receiveMany mx strict ps.length [] c1 = receiveMany mx strict ps.length [] c2 := by
  rw [receive_seq_segmentation hmx ps stream hr hw c1 h1 n1,
    receive_seq_segmentation hmx ps stream hr hw c2 h2 n2]

/-- a receive that finds a complete PDU in the buffer does not touch the transport -/
theorem receive_buffered_no_read {mx : Nat} {strict : Bool} (hmx : validMax mx) {p : Pdu} {e : Bytes}
    (hp : Receivable mx strict p) (he : writePdu p = .ok e) (rest : Bytes) (chunks : List Bytes) :
    receive mx strict (e ++ rest) chunks = .ok (normPdu p, rest, chunks) := by
  unfold receive
  rw [pdu_rt hp.1 he mx strict hmx (hp.2 e he) rest]

/-- when the peer closes in the middle of a PDU the receive fails with `ConnectionClosed`
(it does not return a PDU made of the partial bytes) -/
theorem receive_truncated_closed {mx : Nat} {strict : Bool} (hmx : validMax mx) {p : Pdu} {e : Bytes}
    (hp : Receivable mx strict p) (he : writePdu p = .ok e) (n : Nat) (hn : n < e.length) :
    receive mx strict (e.take n) [] = .error .closed := by
  unfold receive
  rw [prefix_incomplete he mx strict hmx (hp.2 e he) n hn]

/-- **Any stream.** Whatever the bytes are, a receive that returns a PDU has taken some `k` reads
from the script, and the PDU is what `read_pdu` makes of the buffer extended by exactly those
reads; the new buffer is what `read_pdu` left over, and the script continues after the `k` reads. -/
theorem receive_ok_spec {mx : Nat} {strict : Bool} :
    ∀ (chunks : List Bytes) (buf : Bytes) (p : Pdu) (buf' : Bytes) (cs' : List Bytes),
      receive mx strict buf chunks = .ok (p, buf', cs') →
      ∃ k, cs' = chunks.drop k ∧ readPdu mx strict (buf ++ (chunks.take k).flatten) = .ok (p, buf') := by
  intro chunks
  induction chunks with
  | nil =>
    intro buf p buf' cs' h
    unfold receive at h
    cases hr : readPdu mx strict buf with
    | ok x => obtain ⟨q, rest⟩ := x; simp [hr] at h; exact ⟨0, by simp [h.2.2], by simp [hr, h.1, h.2.1]⟩
    | inc => simp [hr] at h
    | err e => simp [hr] at h
  | cons c cs ih =>
    intro buf p buf' cs' h
    unfold receive at h
    cases hr : readPdu mx strict buf with
    | ok x => obtain ⟨q, rest⟩ := x; simp [hr] at h; exact ⟨0, by simp [h.2.2], by simp [hr, h.1, h.2.1]⟩
    | err e => simp [hr] at h
    | inc =>
      simp only [hr] at h
      by_cases hc : c.isEmpty = true
      · simp [hc] at h
      · simp only [hc] at h
        obtain ⟨k, h1, h2⟩ := ih (buf ++ c) p buf' cs' h
        exact ⟨k + 1, by simp [h1], by simpa using h2⟩

/-- **No byte lost, none duplicated — for any stream.** After a successful receive, the bytes of the
old buffer and script are: the returned PDU's own `6 + L` bytes, then the new buffer, then the
remaining script. -/
theorem receive_conserves {mx : Nat} {strict : Bool} (hmx : validMax mx) (chunks : List Bytes) (buf : Bytes)
    (p : Pdu) (buf' : Bytes) (cs' : List Bytes) (h : receive mx strict buf chunks = .ok (p, buf', cs')) :
    ∃ used, buf ++ chunks.flatten = used ++ (buf' ++ cs'.flatten) ∧ declaredLen used = some (used.length - 6) ∧
      6 ≤ used.length := by
  obtain ⟨k, h1, h2⟩ := receive_ok_spec chunks buf p buf' cs' h
  obtain ⟨L, h3, h4, h5⟩ := read_ok_framing mx strict hmx _ p buf' h2
  have hsplit : buf ++ chunks.flatten = (buf ++ (chunks.take k).flatten) ++ cs'.flatten := by
    subst h1
    rw [List.append_assoc, ← List.flatten_append, List.take_append_drop]
  rw [hsplit]
  generalize buf ++ (chunks.take k).flatten = X at h2 h3 h4 h5 ⊢
  have hlen : (X.take (6 + L)).length = 6 + L := by
    rw [List.length_take]; omega
  refine ⟨X.take (6 + L), ?_, ?_, by omega⟩
  · rw [h4, ← List.append_assoc, List.take_append_drop]
  · rw [hlen]
    match X, h3 with
    | t :: z :: a :: b :: c :: d :: body, h3 =>
      simp only [declaredLen, Option.some.injEq] at h3
      have : 6 + L = (L + 5) + 1 := by omega
      rw [this]
      simp only [List.take_succ_cons, declaredLen, h3]
      congr 1
    | [], h3 => simp [declaredLen] at h3
    | [_], h3 => simp [declaredLen] at h3
    | [_, _], h3 => simp [declaredLen] at h3
    | [_, _, _], h3 => simp [declaredLen] at h3
    | [_, _, _, _], h3 => simp [declaredLen] at h3
    | [_, _, _, _, _], h3 => simp [declaredLen] at h3
/-! ### The receivers over a transport that re-splits: sync (8 KiB reads) and async (spare capacity) -/

/-- a read with positive room from a transport of non-empty segments delivers a non-empty prefix of
what the transport holds, and leaves non-empty segments -/
theorem readSome_spec {room : Nat} (hroom : 1 ≤ room) {c : Bytes} {cs : List Bytes}
    (hne : ∀ x ∈ c :: cs, x ≠ []) :
    (readSome room (c :: cs)).1 ≠ [] ∧
      (readSome room (c :: cs)).1 ++ (readSome room (c :: cs)).2.flatten = (c :: cs).flatten ∧
      (∀ x ∈ (readSome room (c :: cs)).2, x ≠ []) ∧
      (readSome room (c :: cs)).2.flatten.length < (c :: cs).flatten.length := by
  have hc : c ≠ [] := hne c (by simp)
  have hcl : 1 ≤ c.length := by cases c <;> simp_all
  unfold readSome
  by_cases h : c.length ≤ room
  · simp only [h, if_true]
    refine ⟨hc, by simp, fun x hx => hne x (by simp [hx]), by simp; omega⟩
  · simp only [h, if_false]
    refine ⟨?_, ?_, ?_, ?_⟩
    · intro h0
      have := congrArg List.length h0
      rw [List.length_take, List.length_nil] at this; omega
    · simp [← List.append_assoc, List.take_append_drop]
    · intro x hx
      rcases List.mem_cons.1 hx with h1 | h1
      · subst h1; intro h0
        have := congrArg List.length h0
        rw [List.length_drop, List.length_nil] at this; omega
      · exact hne x (by simp [h1])
    · simp; omega

/-- **One receive over a re-splitting transport.** Whatever room each read is given (≥ 1 byte), a
receive returns the PDU whose encoding `e` heads buffer ++ transport, and leaves buffer ++ transport
= the bytes after `e`. -/
theorem receive_one_wire {mx : Nat} {strict : Bool} (hmx : validMax mx) {rooms : Nat → Nat}
    (hrooms : ∀ k, 1 ≤ rooms k) {p : Pdu} {e : Bytes}
    (hp : Receivable mx strict p) (he : writePdu p = .ok e) (tail : Bytes) :
    ∀ (f k : Nat) (buf : Bytes) (chunks : List Bytes), chunks.flatten.length < f →
      buf ++ chunks.flatten = e ++ tail → (∀ c ∈ chunks, c ≠ []) →
      ∃ buf' chunks' k', receiveR mx strict rooms f k buf chunks = .ok (normPdu p, buf', chunks', k') ∧
        buf' ++ chunks'.flatten = tail ∧ (∀ c ∈ chunks', c ≠ []) := by
  have hfit := hp.2 e he
  intro f
  induction f with
  | zero => intro k buf chunks hf; omega
  | succ f ih =>
    intro k buf chunks hf hb hne
    rcases List.append_eq_append_iff.1 hb with ⟨a', h1, h2⟩ | ⟨c', h1, h2⟩
    · by_cases ha : a' = []
      · subst ha
        simp only [List.append_nil] at h1
        subst h1
        refine ⟨[], chunks, k, ?_, by simpa using h2, hne⟩
        unfold receiveR
        have := pdu_rt hp.1 he mx strict hmx hfit []
        simp only [List.append_nil] at this
        rw [this]
      · have hlen : buf.length < e.length := by
          rw [h1]; cases a' <;> simp_all
        have hpre : buf = e.take buf.length := by rw [h1]; simp
        have hinc := prefix_incomplete he mx strict hmx hfit buf.length hlen
        rw [← hpre] at hinc
        -- the transport still holds bytes
        cases chunks with
        | nil =>
          exfalso
          simp at h2
          exact ha h2.1
        | cons c cs =>
          obtain ⟨s1, s2, s3, s4⟩ := readSome_spec (hrooms k) hne
          have hd : ((readSome (rooms k) (c :: cs)).1).isEmpty = false := by
            cases hx : (readSome (rooms k) (c :: cs)).1 with
            | nil => exact absurd hx s1
            | cons _ _ => rfl
          obtain ⟨buf', chunks', k', h3, h4, h5⟩ := ih (k + 1) (buf ++ (readSome (rooms k) (c :: cs)).1)
            (readSome (rooms k) (c :: cs)).2 (by omega) (by rw [List.append_assoc, s2]; exact hb) s3
          refine ⟨buf', chunks', k', ?_, h4, h5⟩
          unfold receiveR
          rw [hinc]
          simp only [hd]
          exact h3
    · subst h1
      refine ⟨c', chunks, k, ?_, by simpa using h2.symm, hne⟩
      unfold receiveR
      rw [pdu_rt hp.1 he mx strict hmx hfit c']

/-- **Sequence over a re-splitting transport**: for any PDUs, any segmentation by the peer
(non-empty segments) and any rooms (≥ 1) offered by the receiver, `ps.length` receives return
exactly `ps` (normal forms), leaving buffer and transport empty. -/
theorem receive_seq_wire {mx : Nat} {strict : Bool} (hmx : validMax mx) {rooms : Nat → Nat}
    (hrooms : ∀ k, 1 ≤ rooms k) :
    ∀ (ps : List Pdu) (stream : Bytes), (∀ p ∈ ps, Receivable mx strict p) → writeAll ps = .ok stream →
      ∀ (k : Nat) (buf : Bytes) (chunks : List Bytes), buf ++ chunks.flatten = stream → (∀ c ∈ chunks, c ≠ []) →
        ∃ k', receiveManyWire mx strict rooms ps.length k buf chunks = .ok (ps.map normPdu, [], [], k') := by
  intro ps
  induction ps with
  | nil =>
    intro stream _ hw k buf chunks hb hne
    simp [writeAll] at hw; subst hw
    obtain ⟨h1, h1'⟩ := List.append_eq_nil_iff.1 hb
    subst h1
    have h2 : chunks = [] := by
      cases chunks with
      | nil => rfl
      | cons c cs =>
        exfalso
        have hc := hne c (by simp)
        simp only [List.flatten_cons] at h1'
        exact hc (List.append_eq_nil_iff.1 h1').1
    subst h2
    exact ⟨k, by simp [receiveManyWire]⟩
  | cons p ps ih =>
    intro stream hr hw k buf chunks hb hne
    simp only [writeAll] at hw
    obtain ⟨e, tail, he, ht, rfl⟩ := wcat_ok.1 hw
    obtain ⟨buf', chunks', k1, h1, h2, h3⟩ :=
      receive_one_wire hmx hrooms (hr p (by simp)) he tail (chunks.flatten.length + 1) k buf chunks
        (Nat.lt_succ_self _) hb hne
    obtain ⟨k2, h4⟩ := ih tail (fun q hq => hr q (by simp [hq])) ht k1 buf' chunks' h2 h3
    exact ⟨k2, by simp only [List.length_cons, receiveManyWire, receiveWire, h1, h4, List.map_cons]⟩

/-- the synchronous receiver (`BufReader`, 8192 bytes of room per read) -/
theorem receive_seq_sync {mx : Nat} {strict : Bool} (hmx : validMax mx) (ps : List Pdu) (stream : Bytes)
    (hr : ∀ p ∈ ps, Receivable mx strict p) (hw : writeAll ps = .ok stream)
    (chunks : List Bytes) (hseg : chunks.flatten = stream) (hne : ∀ c ∈ chunks, c ≠ []) :
    ∃ k, receiveManyWire mx strict (fun _ => 8192) ps.length 0 [] chunks = .ok (ps.map normPdu, [], [], k) :=
  receive_seq_wire hmx (fun _ => by decide) ps stream hr hw 0 [] chunks (by simpa using hseg) hne

/-- the asynchronous receiver (`read_buf` into whatever spare capacity the buffer has) -/
theorem receive_seq_async {mx : Nat} {strict : Bool} (hmx : validMax mx) (rooms : Nat → Nat)
    (hrooms : ∀ k, 1 ≤ rooms k) (ps : List Pdu) (stream : Bytes)
    (hr : ∀ p ∈ ps, Receivable mx strict p) (hw : writeAll ps = .ok stream)
    (chunks : List Bytes) (hseg : chunks.flatten = stream) (hne : ∀ c ∈ chunks, c ≠ []) :
    ∃ k, receiveManyWire mx strict rooms ps.length 0 [] chunks = .ok (ps.map normPdu, [], [], k) :=
  receive_seq_wire hmx hrooms ps stream hr hw 0 [] chunks (by simpa using hseg) hne

/-- sync and async receivers agree with each other on every stream of receivable PDUs -/
theorem sync_async_agree {mx : Nat} {strict : Bool} (hmx : validMax mx) (rooms : Nat → Nat)
    (hrooms : ∀ k, 1 ≤ rooms k) (ps : List Pdu) (stream : Bytes)
    (hr : ∀ p ∈ ps, Receivable mx strict p) (hw : writeAll ps = .ok stream)
    (c1 c2 : List Bytes) (h1 : c1.flatten = stream) (h2 : c2.flatten = stream)
    (n1 : ∀ c ∈ c1, c ≠ []) (n2 : ∀ c ∈ c2, c ≠ []) :
    (receiveManyWire mx strict (fun _ => 8192) ps.length 0 [] c1).map (·.1) =
      (receiveManyWire mx strict rooms ps.length 0 [] c2).map (·.1) := by
  obtain ⟨k1, e1⟩ := receive_seq_sync hmx ps stream hr hw c1 h1 n1
  obtain ⟨k2, e2⟩ := receive_seq_async hmx rooms hrooms ps stream hr hw c2 h2 n2
  rw [e1, e2]; rfl
/-- non-vacuity: a release request followed by an abort, delivered as 1 + 18 + 1 bytes -/
example : receiveMany 16384 true 2 [] [[5], [0, 0, 0, 0, 4, 0, 0, 0, 0, 7, 0, 0, 0, 0, 4, 0, 0, 0], [0]]
    = .ok ([.releaseRQ, .abortRQ .serviceUser], [], []) := by rfl

end Dicom.Pdu
