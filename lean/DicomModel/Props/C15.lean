/-
C15 — The standard data dictionary answers consistently for every tag and keyword.

Model: `Model/DictCore.lean` (`init_dictionary`, `indexed_tag`, `by_name`, the SOP class registry),
instantiated in `Model/Dict.lean` with the tables generated from `dictionary-std/src/{tags,uids}.rs`
by `translators/dict.py` (source order, nothing repaired).  `Lemmas/DictSpec.lean` proves the
refinement for *any* well-formed table; here the generated tables are shown well-formed (kernel
evaluation, using the translator's search trees only as certificates) and the statement's clauses
are instantiated:

* `lookup_eq_spec`         — for all 2^32 tags `by_tag` = the stated precedence order;
* `by_name_consistent`     — an entry's keyword looks up that entry (same keyword, same tag);
* `constants_eq_entries`   — every tag constant equals its entry's tag (and its doc line agrees);
* `uid_registry_consistent`, `sop_class_constants` — the SOP class dictionary.
-/
import DicomModel.Lemmas.DictSpec
import DicomModel.Model.Dict
import DicomModel.Gen.DictConsts
import DicomModel.Gen.DictCert
namespace Dicom.Dict

set_option maxRecDepth 100000

/-! ## the generated table is well-formed -/

theorem entries_keys_cert :
    checkIdx Gen.keyTree.find (Gen.entries.map Row.key) 0 = true := by decide +kernel

/-- no two `ENTRIES` rows have the same inner tag (so the order in which `init_dictionary` fills
the hash map does not matter) -/
theorem entries_keys_nodup : (Gen.entries.map Row.key).Nodup := nodup_of_checkIdx entries_keys_cert

theorem entries_aliases_cert :
    checkIdx Gen.aliasTree.find (Gen.entries.map Row.alias) 0 = true := by decide +kernel

/-- no two `ENTRIES` rows have the same keyword -/
theorem entries_aliases_nodup : (Gen.entries.map Row.alias).Nodup :=
  nodup_of_checkIdx entries_aliases_cert

/-- 16-bit fields, range entries have a zero open byte, no (GGxx,EEEE) entry overlaps a (GGGG,EExx) one -/
theorem entries_tableCheck : tableCheck Gen.entries = true := by decide +kernel

theorem entries_ok : TableOk Gen.entries := ⟨entries_keys_nodup, entries_tableCheck⟩

theorem entries_no_generic_alias :
    Gen.entries.all (fun r => r.alias != glAlias && r.alias != pcAlias) = true := by decide +kernel

/-! ## the statement -/

/-- **For every one of the 2^32 tags** `by_tag` returns what the published table prescribes:
the exact entry if one exists, otherwise the repeating-group or repeating-element entry that covers
it, otherwise the private creator entry for (odd group, 0010–00FF), otherwise the generic group
length entry for element 0000, otherwise nothing. -/
theorem lookup_eq_spec (g e : Nat) (hg : g < 65536) (he : e < 65536) :
    indexedTag registry g e = specLookup Gen.entries g e :=
  indexedTag_eq_spec entries_ok g e hg he

/-- every entry is returned for its own tag -/
theorem by_tag_of_entry {r : Row} (hr : r ∈ Gen.entries) :
    indexedTag registry r.group r.elem = .entry r :=
  indexedTag_inner entries_ok hr

/-- **Looking up any entry's keyword returns an entry with that keyword and the same tag**
(in fact that very entry). -/
theorem by_name_consistent {r : Row} (hr : r ∈ Gen.entries) :
    byName registry r.alias = .entry r := by
  apply byName_entry entries_aliases_nodup _ hr
  intro x hx
  have := List.all_eq_true.mp entries_no_generic_alias x hx
  simp only [Bool.and_eq_true, bne_iff_ne, ne_eq] at this
  exact this.1

/-- keyword → tag → entry closes the loop -/
theorem by_name_then_by_tag {r : Row} (hr : r ∈ Gen.entries) :
    byName registry r.alias = indexedTag registry r.group r.elem := by
  rw [by_name_consistent hr, by_tag_of_entry hr]

/-- "GenericGroupLength" is known by name although it is not a table entry -/
theorem by_name_generic_group_length : byName registry glAlias = .groupLength := byName_groupLength

/-- a keyword outside the table is not resolved (the rejection side of `by_name`) -/
theorem by_name_unknown {a : Nat} (h : ∀ r ∈ Gen.entries, r.alias ≠ a) (hg : a ≠ glAlias) :
    byName registry a = .none := byName_none h hg

/-- the group-local registry used by the driver's exhaustive sweep gives the model's answer -/
theorem sweep_registry_correct (g e : Nat) (he : e < 65536) :
    indexedTag (initDictionary (Gen.entries.filter (relevant g))) g e = indexedTag registry g e :=
  indexedTag_filter (fun _ hr => (entries_ok.fields hr).2.1) g e he

/-! ## tag constants -/

theorem consts_check : constsCheck Gen.consts Gen.entryRefs Gen.entries = true := by decide +kernel

/-- **Every tag constant equals its entry's tag.** (Constant names are distinct — rustc rejects a
duplicate `pub const` — so "the constant an entry refers to" is well defined.) The i-th `pub const` of tags.rs is the constant
the i-th `ENTRIES` row refers to; its value is that row's tag (`Single(C)` for a `Tag` constant, the
`TagRange` constant itself for repeating groups/elements) and its doc line
`/// Keyword (GGGG,EEEE)` names the row's keyword and the same tag or range. There are as many
constants as entries. -/
theorem constants_eq_entries :
    Gen.consts.length = Gen.entries.length ∧
      ∀ i (hc : i < Gen.consts.length) (hr : i < Gen.entries.length),
        Gen.consts[i].group = Gen.entries[i].group ∧ Gen.consts[i].elem = Gen.entries[i].elem ∧
        Gen.consts[i].docAlias = Gen.entries[i].alias ∧
        (Gen.consts[i].kind = 3 ∧ Gen.entries[i].kind = 0 ∨ Gen.consts[i].kind = Gen.entries[i].kind) := by
  obtain ⟨l1, l2, hall⟩ := constsCheck_forall consts_check
  refine ⟨l1, ?_⟩
  intro i hc hr
  have hf : i < Gen.entryRefs.length := by omega
  obtain ⟨_, hg, he, ha, hk⟩ := constRowOk_spec (hall i hc hf hr)
  exact ⟨hg, he, ha, hk⟩

/-- hence the constant's keyword resolves, by name, to an entry carrying the constant's tag -/
theorem constant_by_name (i : Nat) (hc : i < Gen.consts.length) :
    ∃ r, byName registry Gen.consts[i].docAlias = .entry r ∧
      r.group = Gen.consts[i].group ∧ r.elem = Gen.consts[i].elem := by
  obtain ⟨l, h⟩ := constants_eq_entries
  have hr : i < Gen.entries.length := by omega
  obtain ⟨hg, he, ha, _⟩ := h i hc hr
  refine ⟨Gen.entries[i], ?_, hg.symm, he.symm⟩
  have := by_name_consistent (List.getElem_mem hr)
  rw [← ha] at this
  exact this

/-! ## SOP class dictionary -/

theorem sop_uids_cert :
    checkIdx Gen.sopUidTree.find (Gen.sopClasses.map UidRow.uid) 0 = true := by decide +kernel
theorem sop_aliases_cert :
    checkIdx Gen.sopAliasTree.find (Gen.sopClasses.map UidRow.alias) 0 = true := by decide +kernel

/-- **The SOP class dictionary maps each UID and keyword to the same entry**: looking up an entry's
UID, or its keyword, returns that entry. -/
theorem uid_registry_consistent {e : UidRow} (he : e ∈ Gen.sopClasses) :
    byUid uidRegistry e.uid = some e ∧ byKeyword uidRegistry e.alias = some e :=
  ⟨mapGet_foldl_of_nodup UidRow.uid _ (nodup_of_checkIdx sop_uids_cert) he,
   mapGet_foldl_of_nodup UidRow.alias _ (nodup_of_checkIdx sop_aliases_cert) he⟩

/-- every SOP class entry is a SOP class, and uids.rs declares a constant with its UID whose doc
line `/// SOP Class: <name>` carries the entry's name -/
theorem sop_class_constants :
    Gen.sopClasses.all (fun e => e.type == 0 &&
      Gen.uidConsts.any (fun c => c.value == e.uid && c.docName == e.name && c.docType == 0)) = true := by
  decide +kernel

/-! ## the precedence is not vacuous (concrete tags, evaluated on the generated table) -/

/-- (7FE0,0010) PixelData is covered by the repeating group (7Fxx,0010) VariablePixelData, and the
exact entry wins -/
example : (match specLookup Gen.entries 0x7FE0 0x0010 with
    | .entry r => r.kind == 0 && r.alias == 0x506978656c44617461 | _ => false) = true ∧
    (Gen.entries.find? (fun r => r.kind != 0 && r.covers 0x7FE0 0x0010)).isSome = true := by
  decide +kernel
/-- (7F10,0010) has no exact entry: the repeating group entry; (0020,3142): the repeating element
entry (0020,31xx) -/
example : (match specLookup Gen.entries 0x7F10 0x0010 with
    | .entry r => r.kind == 1 && r.group == 0x7F00 | _ => false) = true ∧
    (match specLookup Gen.entries 0x0020 0x3142 with
    | .entry r => r.kind == 2 | _ => false) = true := by decide +kernel
end Dicom.Dict
