import DicomModel.Model.AeAddr
/-
C36 — Application entity addresses print and parse back unchanged.

The address type is a parameter: `showA`/`parseA` with `parseA (showA a) = some a`
(true of the std socket address types and of `String`).
"Has a title" means a non-empty title: `AeAddr::new("", a)` prints `@a`, which the parser
documents (and the repo's tests pin) as "no title"; the excluded point is executed on the real
code by the correspondence run (sig `empty-title`).
-/
namespace Dicom.AeAddr

theorem escapeAt_id {t : List Char} (h : '@' ∉ t) : escapeAt t = t := by
  induction t with
  | nil => rfl
  | cons x xs ih =>
    have hx : x ≠ '@' := fun e => h (by simp [e])
    have hxs : '@' ∉ xs := fun m => h (by simp [m])
    simp [escapeAt, hx] at *
    exact ih hxs

theorem splitOnce_append {t : List Char} (h : '@' ∉ t) (r : List Char) :
    splitOnce '@' (t ++ '@' :: r) = some (t, r) := by
  induction t with
  | nil => simp [splitOnce]
  | cons x xs ih =>
    have hx : x ≠ '@' := fun e => h (by simp [e])
    have hxs : '@' ∉ xs := fun m => h (by simp [m])
    simp [splitOnce, hx, ih hxs]

theorem splitOnce_none {s : List Char} (h : '@' ∉ s) : splitOnce '@' s = none := by
  induction s with
  | nil => rfl
  | cons x xs ih =>
    have hx : x ≠ '@' := fun e => h (by simp [e])
    have hxs : '@' ∉ xs := fun m => h (by simp [m])
    simp [splitOnce, hx, ih hxs]

variable {α : Type} (showA : α → List Char) (parseA : List Char → Option α)

/-- A full address with a non-empty, `@`-free title round-trips. -/
theorem full_rt (hA : ∀ a, parseA (showA a) = some a) (t : List Char) (a : α)
    (h : '@' ∉ t) (hne : t ≠ []) :
    Full.parse parseA (Full.print showA ⟨t, a⟩) = some ⟨t, a⟩ := by
  have : t.isEmpty = false := by cases t <;> simp_all
  simp [Full.parse, Full.print, escapeAt_id h, splitOnce_append h, hA, this]

/-- An address with a title round-trips (the network address itself may contain `@`). -/
theorem ae_rt_with_title (hA : ∀ a, parseA (showA a) = some a) (t : List Char) (a : α)
    (h : '@' ∉ t) (hne : t ≠ []) :
    Ae.parse parseA (Ae.print showA ⟨some t, a⟩) = some ⟨some t, a⟩ := by
  have : t.isEmpty = false := by cases t <;> simp_all
  simp [Ae.parse, Ae.print, escapeAt_id h, splitOnce_append h, hA, this]

/-- An address without a title parses back without one — for *every* network address text,
including one that contains `@` (the printer then emits a leading `@`). -/
theorem ae_rt_without_title (hA : ∀ a, parseA (showA a) = some a) (a : α) :
    Ae.parse parseA (Ae.print showA ⟨none, a⟩) = some ⟨none, a⟩ := by
  by_cases hm : '@' ∈ showA a
  · have : splitOnce '@' ('@' :: showA a) = some ([], showA a) := by simp [splitOnce]
    simp [Ae.parse, Ae.print, hm, this, hA]
  · simp [Ae.parse, Ae.print, hm, splitOnce_none hm, hA]

/-- The hypothesis on the title is needed: a title with `@` does not come back. -/
theorem title_with_at_fails :
    Ae.parse (α := List Char) some (Ae.print id ⟨some ['A', '@', 'B'], ['h']⟩)
      ≠ some ⟨some ['A', '@', 'B'], ['h']⟩ := by decide

/-- non-vacuity: hypotheses of the three theorems are met by a concrete address -/
example : '@' ∉ ['S', 'C', 'P'] ∧ ['S', 'C', 'P'] ≠ [] ∧
    Full.parse (α := List Char) some (Full.print id ⟨['S', 'C', 'P'], ['h', ':', '1']⟩)
      = some ⟨['S', 'C', 'P'], ['h', ':', '1']⟩ := by decide

end Dicom.AeAddr
