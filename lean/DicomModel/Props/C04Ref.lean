import DicomModel.Lemmas.NormCanon
import DicomModel.Lemmas.ValidNorm
/-
C04 (second module) — the bytes written for ANY well-formed data set (any depth, default strategy) are
exactly the reference PS3.5 encoding (`Ref.encElems`, Model/RefEncode.lean: a structural recursion written
from PS3.5 §7.1/§7.5/§A.4, independent of the writer model) of the data set's normal form: every value
field even and padded per VR, every header length = the number of value bytes that follow, every sequence
and item with undefined length closed by its own delimiter, fragments of even length.
-/
set_option linter.unusedSimpArgs false
namespace Dicom.C04
open Dicom.Norm Dicom.Ref

/-- **the writer's output is the reference encoding of the normalised tree** -/
theorem write_eq_reference (ts : Syntax) (dict : Tag → Option VR) (t : Elems) (hwf : WfElems ts dict t) :
    writeDataset ts .setUndefined t = .ok (encElems ts (normElems ts t)) := by
  obtain ⟨hc, hu⟩ := canon_norm_elems ts dict t hwf
  rw [← write_norm ts dict t hwf]
  exact writeDataset_ref ts dict .setUndefined _ hc (Or.inr hu)

/-- … whose total length is even -/
theorem written_length_even (ts : Syntax) (dict : Tag → Option VR) (t : Elems) (hwf : WfElems ts dict t) :
    ∃ bs, writeDataset ts .setUndefined t = .ok bs ∧ bs.length % 2 = 0 :=
  ⟨_, write_eq_reference ts dict t hwf, even_elems ts dict _ (canon_norm_elems ts dict t hwf).1⟩

/-- and in which every primitive value field is the VR-padded value: the normal form's reference value is
`paddedValue` (odd values padded with NUL for UI and binary VRs, space for text VRs) -/
theorem reference_value_is_padded (be : Bool) (vr : VR) (v : PValue) (hv : ValidFor be vr v) :
    Ref.value be (normValue be vr v) = paddedValue be vr v ∧ (paddedValue be vr v).length % 2 = 0 :=
  ⟨refValue_norm be vr v hv, paddedValue_even be vr v⟩

/-! ### the property's central clause: the output is accepted by the independent checker -/

open Dicom.ValidRef in
/-- **`encode_valid`, default strategy.** For every well-formed data set of any nesting depth, in each of the
three uncompressed syntaxes, the bytes written by the data set writer are accepted by the independent
PS3.5 checker `Valid.validPS35` (every header well-formed with the right length form, every defined length
even and exact, every sequence and item closed by its own delimiter, fragments even, visible padding rule).
`PadVisibleElems`: the content of a text value does not end in the other class's padding byte (a text
value in NUL, a UI in a space) — otherwise no checker can tell content from wrong padding.
Implicit VR: the checker's sequence oracle is the dictionary's (`dictSeq dict`). -/
theorem encode_valid (ts : Syntax) (dict : Tag → Option VR) (t : Elems)
    (hwf : WfElems ts dict t) (hpad : PadVisibleElems ts t) :
    ∃ bs, writeDataset ts .setUndefined t = .ok bs ∧
      Valid.validPS35 (cfg ts (dictSeq dict)) bs = true :=
  ⟨_, write_eq_reference ts dict t hwf,
    valid_ref ts dict _ _ (canon_norm_elems ts dict t hwf).1 (side_norm_elems ts dict t hwf hpad)⟩

open Dicom.ValidRef in
/-- **`encode_valid`, NoChange strategy** under consistent recorded lengths (`LenOkElems`), defined and
undefined lengths mixed at any depth: defined-length items and sequences end exactly where their length says. -/
theorem encode_valid_nochange (ts : Syntax) (dict : Tag → Option VR) (t : Elems)
    (hwf : WfElems ts dict t) (hlen : LenOkElems ts dict t) (hpad : PadVisibleElems ts t) :
    ∃ bs, writeDataset ts .noChange t = .ok bs ∧
      Valid.validPS35 (cfg ts (dictSeq dict)) bs = true := by
  have hc := canon_keep_elems ts dict t hwf hlen
  refine ⟨encElems ts (keepElems ts t), ?_, valid_ref ts dict _ _ hc (side_keep_elems ts dict t hwf hlen hpad)⟩
  rw [← write_keep ts dict .noChange t hwf]
  exact writeDataset_ref ts dict .noChange _ hc (Or.inl rfl)

open Dicom.ValidRef in
/-- the checker accepts the reference PS3.5 encoding of every canonical tree (the lemma behind both) -/
theorem reference_encoding_valid (ts : Syntax) (dict : Tag → Option VR) (isSeq : Nat → Nat → Bool) (t : Elems)
    (hc : canonElems ts dict t = true) (hs : SideElems ts isSeq t) :
    Valid.validPS35 (cfg ts isSeq) (encElems ts t) = true :=
  valid_ref ts dict isSeq t hc hs

/-- non-vacuity of `encode_valid`: a nested tree with padded text (odd PN, odd UI), numbers, an empty item and a
pixel sequence satisfies both hypotheses in Explicit VR LE; its output is accepted (also by direct kernel
evaluation of the checker on the model writer's bytes) -/
def validSample : Elems :=
  .cons (.prim ⟨0x0008, 0x0018⟩ .UI 5 (.strs [[49, 46, 50, 46, 51]]))
  (.cons (.seq ⟨0x0008, 0x1140⟩ undefinedLen
      (.cons undefinedLen (.cons (.prim ⟨0x0010, 0x0010⟩ .PN 3 (.str [65, 94, 66])) .nil)
      (.cons undefinedLen .nil .nil)))
  (.cons (.prim ⟨0x0028, 0x0010⟩ .US 2 (.u16 [512]))
  (.cons (.pix [0] [[1, 2, 3]]) .nil)))

open Dicom.ValidRef in
theorem valid_sample_hypotheses :
    WfElems .explicitLE (fun _ => none) validSample ∧ PadVisibleElems .explicitLE validSample := by
  constructor
  · simp [WfElems, WfElem, WfItems, validSample, ValidFor, FitsHeader, DsIsOk, ValueAscii, Ascii, NumericOk,
      paddedValue, padTo, textPad, binPad, encodePrimitive, joinBackslash, Ref.tagOk, Ref.sortedElems,
      Ref.sortedFrom, Ref.tagLt, Ref.tagOf, Tag.pixelData, undefinedLen, strsVrs, strVrs, C03.ps35,
      Syntax.explicit, Syntax.bigEndian, enc16, le16]
  · simp [PadVisibleElems, PadVisible, PadVisibleItems, validSample, paddedValue, padTo, textPad, binPad,
      encodePrimitive, joinBackslash, Valid.trailOk, Valid.textVrs, Syntax.explicit, Syntax.bigEndian, enc16, le16]

open Dicom.ValidRef in
theorem valid_sample_checked :
    ∃ bs, writeDataset .explicitLE .setUndefined validSample = .ok bs ∧
      Valid.validPS35 (cfg .explicitLE (dictSeq fun _ => none)) bs = true :=
  encode_valid .explicitLE (fun _ => none) validSample valid_sample_hypotheses.1 valid_sample_hypotheses.2

end Dicom.C04
