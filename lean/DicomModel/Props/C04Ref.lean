import DicomModel.Lemmas.NormCanon
/-
C04 (second module) — the bytes written for ANY well-formed data set (any depth, default strategy) are
exactly the reference PS3.5 encoding (`Ref.encElems`, Model/RefEncode.lean: a structural recursion written
from PS3.5 §7.1/§7.5/§A.4, independent of the writer model) of the data set's normal form: every value
field even and padded per VR, every header length = the number of value bytes that follow, every sequence
and item with undefined length closed by its own delimiter, fragments of even length.
-/
namespace Dicom.C04
open Dicom.Norm Dicom.Ref

/-- **the writer's output is the reference encoding of the normalised tree** -/
theorem write_eq_reference (ts : Syntax) (dict : Tag → Option VR) (t : Elems) (hwf : WfElems ts dict t) :
    writeDataset ts .setUndefined t = .ok (encElems ts (normElems ts t)) := by
  obtain ⟨hc, hu⟩ := canon_norm_elems ts dict t hwf
  rw [← write_norm ts dict t hwf]
  exact writeDataset_ref ts dict .setUndefined _ hc (Or.inr hu)

/-- … whose total length is even -/
theorem written_length_even (ts : Syntax) (dict : Tag → Option VR) (t : Elems) (hwf : WfElems ts dict t) :
    ∃ bs, writeDataset ts .setUndefined t = .ok bs ∧ bs.length % 2 = 0 :=
  ⟨_, write_eq_reference ts dict t hwf, even_elems ts dict _ (canon_norm_elems ts dict t hwf).1⟩

/-- and in which every primitive value field is the VR-padded value: the normal form's reference value is
`paddedValue` (odd values padded with NUL for UI and binary VRs, space for text VRs) -/
theorem reference_value_is_padded (be : Bool) (vr : VR) (v : PValue) (hv : ValidFor be vr v) :
    Ref.value be (normValue be vr v) = paddedValue be vr v ∧ (paddedValue be vr v).length % 2 = 0 :=
  ⟨refValue_norm be vr v hv, paddedValue_even be vr v⟩

end Dicom.C04
