import DicomModel.Lemmas.DsReader
/-
C08 — flexible VR decoding agrees with the correct decoder.

Model: Model/Adaptive.lean (`adaptiveHeader`, state `VrState`, `vrCompat`) under the reader of
Model/DsReader.lean; the dictionary is a parameter `dictV : Tag → Option VVr`.

Headline theorems
* `locked_explicit_eq`, `locked_implicit_eq`   header level: once locked, the adaptive decoder IS the plain one
* `run_locked_explicit`, `run_locked_implicit` from any reader state, whole runs agree
* `adaptive_eq_implicit`   statement, implicit half: first element unambiguous → flexible run = implicit run
* `adaptive_eq_explicit`   statement, explicit half, under the hypothesis the proof needs: the first
                           element's VR code is allowed by the dictionary entry of its tag (or no entry)
* `explicit_vr_un_misread` that hypothesis cannot be dropped: the real decoder mis-reads such data
                           (finding `explicit-first-vr-disagrees-dict`)
* `flexible_option_*`      the same through the reader option (`readWithOptions`), incl. big endian
* `adaptive_eq_explicit_strays`, `adaptive_eq_implicit_strays`   the same with any number of leading stray item
                           delimitation items (skipped by the reader, leaving the decoder undecided)
Caveats made explicit in the statements: runs over the implicit decoder are compared up to `normOut`
(the implicit decoder reports end of input in an item header as a different error kind, so a stream
cut inside a pixel data sequence ends with an error there and gracefully under the adaptive decoder);
`hF`: tags of group FFFE resolve to UN in the dictionary (false only for (FFFE,0000), which is not a
data element of any data set: see `fffe_group_length_differs`).
-/
set_option linter.unusedSimpArgs false
namespace Dicom.Rd

theorem adaptiveShort_eq : Gen.adaptiveShort = Gen.decLeShort := by decide

theorem hdrOf_none_of_tag {bs : Bytes} {t : Tag} {r : Bytes} (h : decodeTag false bs = some (t, r)) :
    hdrOf bs none = .err := by
  unfold hdrOf
  have : ¬ bs.length < 4 := by
    intro hl
    match bs, hl with
    | [], _ => simp [decodeTag, rd16, rdLe16] at h
    | [_], _ => simp [decodeTag, rd16, rdLe16] at h
    | [_, _], _ => simp [decodeTag, rd16, rdLe16] at h
    | [_, _, _], _ => simp [decodeTag, rd16, rdLe16] at h
    | _ :: _ :: _ :: _ :: _, hl => simp at hl; omega
  simp [this]

theorem locked_explicit_eq (dictV : Tag → Option VVr) (dict : Tag → Option VR) (bs : Bytes) :
    adaptiveHeader dictV .explicit bs = (hdrOf bs (decodeHeader .explicitLE dict bs), .explicit) := by
  unfold adaptiveHeader decodeHeader decodeExplicitWith
  rw [← adaptiveShort_eq]
  cases htag : decodeTag false bs with
  | none => simp [hdrOf]
  | some p =>
    obtain ⟨t, r⟩ := p
    have he := hdrOf_none_of_tag htag
    simp only [rd32, rd16, Bool.false_eq_true, if_false]
    by_cases hg : t.group = 0xFFFE
    · simp only [hg, if_true]
      cases rdLe32 r with
      | none => simp [he, hdrOf]
      | some q => simp [hdrOf]
    · simp only [hg, if_false]
      match r with
      | [] => simp [he, hdrOf]
      | [_] => simp [he, hdrOf]
      | a :: b :: r1 =>
        simp only [explicitLength]
        by_cases hs : Gen.adaptiveShort.contains ((VR.fromBinary a b).getD .UN) = true
        · simp only [hs, if_true]
          cases rdLe16 r1 with
          | none => simp [he, hdrOf]
          | some q => simp [hdrOf]
        · simp only [hs]
          match r1 with
          | [] => simp [he, hdrOf]
          | [_] => simp [he, hdrOf]
          | _ :: _ :: r2 =>
            cases h32 : rdLe32 r2 <;> simp [h32, hdrOf]

/-- Once locked to implicit VR, every header decodes exactly as the Implicit VR LE decoder's —
for tags outside the delimiter group FFFE, and inside it whenever the dictionary resolves the tag
to UN (true of the three delimiter tags; (FFFE,0000) is the exception in the standard dictionary) -/
theorem locked_implicit_eq (dictV : Tag → Option VVr) (bs : Bytes)
    (hF : ∀ t : Tag, t.group = 0xFFFE → resolveImplicitVr (relaxedDict dictV) t = .UN) :
    adaptiveHeader dictV .implicit bs =
      (hdrOf bs (decodeHeader .implicitLE (relaxedDict dictV) bs), .implicit) := by
  unfold adaptiveHeader decodeHeader
  cases htag : decodeTag false bs with
  | none => simp [hdrOf]
  | some p =>
    obtain ⟨t, r⟩ := p
    by_cases hg : t.group = 0xFFFE
    · simp only [hg, if_true]
      cases h32 : rdLe32 r <;> simp [h32, hdrOf, hF t hg]
    · simp only [hg, if_false, implicitRest]
      cases h32 : rdLe32 r <;> simp [h32, hdrOf]

/-- the first header is that of a data element (not group FFFE) whose two bytes after the tag spell a
VR that the dictionary entry of the tag allows (or the tag has no entry) -/
def explicitFirstOk (dictV : Tag → Option VVr) (bs : Bytes) : Bool :=
  match decodeTag false bs with
  | some (t, a :: b :: _) =>
    t.group ≠ 0xFFFE &&
      (match VR.fromBinary a b with
       | some vr => (match dictV t with | some vvr => vrCompat vr vvr | none => true)
       | none => false)
  | some (t, _) => t.group ≠ 0xFFFE
  | none => true

/-- the first header is that of a data element (not group FFFE) and is unambiguous -/
def implicitFirstOk (dictV : Tag → Option VVr) (bs : Bytes) : Bool :=
  (match decodeTag false bs with
   | some (t, _) => t.group ≠ 0xFFFE
   | none => true) && unambiguous dictV bs

def HdrRes.isOk : HdrRes → Bool
  | .ok _ _ _ => true
  | _ => false

theorem hdrOf_none_not_ok (bs : Bytes) : (hdrOf bs none).isOk = false := by
  simp only [hdrOf]; split <;> rfl

theorem unknown_explicit (dictV : Tag → Option VVr) (bs : Bytes) (h : explicitFirstOk dictV bs = true) :
    (adaptiveHeader dictV .unknown bs).1 = (adaptiveHeader dictV .explicit bs).1 ∧
    ((adaptiveHeader dictV .unknown bs).1.isOk = true → (adaptiveHeader dictV .unknown bs).2 = .explicit) := by
  unfold explicitFirstOk at h
  unfold adaptiveHeader
  cases htag : decodeTag false bs with
  | none => simp [hdrOf_none_not_ok]
  | some p =>
    obtain ⟨t, r⟩ := p
    have he := hdrOf_none_of_tag htag
    rw [htag] at h
    match r, h with
    | [], h => simp at h; simp [h, he, HdrRes.isOk]
    | [_], h => simp at h; simp [h, he, HdrRes.isOk]
    | a :: b :: r1, h =>
      simp only [Bool.and_eq_true, decide_eq_true_eq] at h
      obtain ⟨hg, hv⟩ := h
      simp only [hg, if_false]
      cases hfb : VR.fromBinary a b with
      | none => simp [hfb] at hv
      | some vr =>
        simp only [hfb] at hv
        cases hd : dictV t with
        | none => simp [hd]
        | some vvr => simp only [hd] at hv; simp [hd, hv]

theorem unknown_implicit (dictV : Tag → Option VVr) (bs : Bytes) (h : implicitFirstOk dictV bs = true) :
    (adaptiveHeader dictV .unknown bs).1 = (adaptiveHeader dictV .implicit bs).1 ∧
    ((adaptiveHeader dictV .unknown bs).1.isOk = true → (adaptiveHeader dictV .unknown bs).2 = .implicit) := by
  unfold implicitFirstOk unambiguous at h
  unfold adaptiveHeader
  cases htag : decodeTag false bs with
  | none => simp [hdrOf_none_not_ok]
  | some p =>
    obtain ⟨t, r⟩ := p
    have he := hdrOf_none_of_tag htag
    rw [htag] at h
    simp only [Bool.and_eq_true, decide_eq_true_eq] at h
    obtain ⟨hg, hv⟩ := h
    simp only [hg, if_false]
    match r, hv with
    | [], hv => simp [implicitRest, rdLe32, he, HdrRes.isOk]
    | [_], hv => simp [implicitRest, rdLe32, he, HdrRes.isOk]
    | a :: b :: r1, hv =>
      simp only at hv
      cases hfb : VR.fromBinary a b with
      | none =>
        simp only [hfb, implicitRest]
        cases h32 : rdLe32 (a :: b :: r1) <;> simp [hdrOf_none_not_ok]
      | some vr =>
        simp only [hfb] at hv
        cases hd : dictV t with
        | none => simp [hd] at hv
        | some vvr =>
          simp only [hd] at hv
          simp only [hfb, hd, hv, implicitRest, if_true]
          cases h32 : rdLe32 (a :: b :: r1) <;> simp [hdrOf_none_not_ok]


/-! ### runs -/

theorem preHeader_init (cfg : Cfg) (be g : Bool) (bs : Bytes) (base : Nat) :
    preHeader cfg be g (RSt.init bs base) = .go (RSt.init bs base) := by
  simp [preHeader, preBody, RSt.init]

theorem headerStep_go {cfg : Cfg} {r : HdrRes} {s s' : RSt} (h : headerStep cfg r s = .go s') :
    ∃ h0 n rest, r = .ok h0 n rest ∧ h0.tag = Tag.itemDelim := by
  cases r with
  | eofTag => simp [headerStep] at h
  | err => simp [headerStep] at h
  | ok h0 n rest =>
    refine ⟨h0, n, rest, rfl, ?_⟩
    have htag : (if s.signedPix = some true ∧ cfg.isXs h0.tag = true then { h0 with vr := VR.SS } else h0).tag
        = h0.tag := by split <;> rfl
    simp only [headerStep, htag] at h
    repeat' split at h
    all_goals first | (cases h; done) | (cases h; assumption) | assumption

theorem headerStep_tok_isOk {cfg : Cfg} {r : HdrRes} {s s' : RSt} {t : Tok}
    (h : headerStep cfg r s = .ret (.tok t) s') : r.isOk = true := by
  cases r with
  | eofTag => simp [headerStep] at h
  | err => simp [headerStep] at h
  | ok h0 n rest => rfl

theorem run_first_eq {σ1 σ2 : Type} (cfg : Cfg) (D1 : Dec σ1) (D2 : Dec σ2) (f : Out → Out)
    (total cap base : Nat) (bs : Bytes) (d1 : σ1) (d2 : σ2)
    (hr : (D1.header d1 bs).1 = (D2.header d2 bs).1)
    (hnogo : ∀ s', headerStep cfg (D1.header d1 bs).1 (RSt.init bs base) ≠ .go s')
    (hrest : (D1.header d1 bs).1.isOk = true → ∀ s cap,
      (run cfg D1 total cap ((D1.header d1 bs).2, s)).map (mapOut f) =
        (run cfg D2 total cap ((D2.header d2 bs).2, s)).map (mapOut f)) :
    (run cfg D1 total cap (d1, RSt.init bs base)).map (mapOut f) =
      (run cfg D2 total cap (d2, RSt.init bs base)).map (mapOut f) := by
  cases cap with
  | zero => simp [run]
  | succ cap =>
    unfold run
    simp only
    have hfuel : (RSt.init bs base).src.length + 1 = bs.length + 1 := rfl
    rw [hfuel]
    unfold next
    have hb : (RSt.init bs base).hardBreak = false := rfl
    have hsrc : (RSt.init bs base).src = bs := rfl
    simp only [hb, Bool.false_eq_true, if_false, preHeader_init, hsrc]
    rw [← hr]
    cases hs : headerStep cfg (D1.header d1 bs).1 (RSt.init bs base) with
    | go s' => exact absurd hs (hnogo s')
    | ret o s' =>
      cases o with
      | tok t =>
        have hok := headerStep_tok_isOk hs
        simp [mapOut, hrest hok s' cap]
      | err e => simp [mapOut]
      | done => simp [mapOut]

theorem adaptiveHeader_tag {dictV : Tag → Option VVr} {st st' : VrState} {bs rest : Bytes}
    {h : ElemHeader} {n : Nat} (hh : adaptiveHeader dictV st bs = (.ok h n rest, st')) :
    ∃ r, decodeTag false bs = some (h.tag, r) := by
  unfold adaptiveHeader at hh
  cases htag : decodeTag false bs with
  | none => rw [htag] at hh; simp [hdrOf] at hh; split at hh <;> simp at hh
  | some p =>
    obtain ⟨t, r⟩ := p
    have he := hdrOf_none_of_tag htag
    refine ⟨r, ?_⟩
    rw [htag] at hh
    simp only [explicitLength, implicitRest, he] at hh
    repeat' split at hh
    all_goals first | (simp at hh; done) | (simp at hh; rw [← hh.1.1]) | skip


theorem mapOut_id : mapOut id = id := by funext r; cases r; rfl

/-- **locked, explicit** — from any reader state, the reader over the adaptive decoder locked to explicit
VR produces exactly the run of the reader over the Explicit VR LE decoder -/
theorem run_locked_explicit (cfg : Cfg) (dictV : Tag → Option VVr) (dict : Tag → Option VR)
    (total cap : Nat) (s : RSt) :
    run cfg (adaptiveDec dictV) total cap (.explicit, s) =
      run cfg (plainDec .explicitLE dict) total cap ((), s) := by
  have := run_sim cfg (adaptiveDec dictV) (plainDec .explicitLE dict) (· = ·) goodQ_eq id
    (fun _ _ h => by rw [h]) (fun d1 _ => d1 = .explicit)
    (fun s => StepRel.refl goodQ_eq _)
    (fun d1 d2 bs hR => by
      subst hR
      simp only [adaptiveDec, plainDec]
      rw [locked_explicit_eq dictV dict bs]
      exact ⟨rfl, rfl⟩)
    total cap .explicit () s rfl
  simpa [mapOut_id] using this

/-- **locked, implicit** — likewise for the Implicit VR LE decoder; the two runs are equal up to how an
end of input inside an item header is reported at the very end (`normOut`: the adaptive decoder reports
it the way the explicit decoders do, and the reader then ends gracefully inside a pixel data sequence) -/
theorem run_locked_implicit (cfg : Cfg) (dictV : Tag → Option VVr)
    (hF : ∀ t : Tag, t.group = 0xFFFE → resolveImplicitVr (relaxedDict dictV) t = .UN)
    (total cap : Nat) (s : RSt) :
    (run cfg (adaptiveDec dictV) total cap (.implicit, s)).map (mapOut normOut) =
      (run cfg (plainDec .implicitLE (relaxedDict dictV)) total cap ((), s)).map (mapOut normOut) :=
  run_sim cfg (adaptiveDec dictV) (plainDec .implicitLE (relaxedDict dictV)) OutEq goodQ_outEq normOut
    (fun _ _ h => h.norm) (fun d1 _ => d1 = .implicit)
    (fun s => preHeader_flag cfg false true false s)
    (fun d1 d2 bs hR => by
      subst hR
      simp only [adaptiveDec, plainDec]
      rw [locked_implicit_eq dictV bs hF]
      exact ⟨rfl, rfl⟩)
    total cap .implicit () s rfl

theorem firstOk_group {dictV : Tag → Option VVr} {bs r : Bytes} {t : Tag}
    (h : explicitFirstOk dictV bs = true ∨ implicitFirstOk dictV bs = true)
    (ht : decodeTag false bs = some (t, r)) : t.group ≠ 0xFFFE := by
  rcases h with h | h
  · unfold explicitFirstOk at h
    rw [ht] at h
    split at h
    · rename_i heq; cases heq; simp at h; exact h.1
    · rename_i heq; cases heq; simpa using h
    · rename_i heq; cases heq
  · unfold implicitFirstOk at h
    rw [ht] at h
    simp at h
    exact h.1

theorem nogo_of_firstOk (cfg : Cfg) {dictV : Tag → Option VVr} {bs : Bytes} (base : Nat)
    (h : explicitFirstOk dictV bs = true ∨ implicitFirstOk dictV bs = true) (s' : RSt) :
    headerStep cfg (adaptiveHeader dictV .unknown bs).1 (RSt.init bs base) ≠ .go s' := by
  intro hgo
  obtain ⟨h0, n, rest, hr, htag⟩ := headerStep_go hgo
  have hh : adaptiveHeader dictV .unknown bs = (.ok h0 n rest, (adaptiveHeader dictV .unknown bs).2) := by
    rw [← hr]
  obtain ⟨r, hdt⟩ := adaptiveHeader_tag hh
  have := firstOk_group h hdt
  rw [htag] at this
  exact this rfl

/-- **explicit data** — a data set in Explicit VR LE whose first element carries a VR code that the
dictionary entry of its tag allows (or whose tag has no entry) is read, with flexible decoding, exactly
as by the explicit decoder. The hypothesis on the VR code is *needed*: see `explicit_vr_un_misread`. -/
theorem adaptive_eq_explicit (cfg : Cfg) (dictV : Tag → Option VVr) (dict : Tag → Option VR)
    (base cap : Nat) (bs : Bytes) (h : explicitFirstOk dictV bs = true) :
    readAll cfg (adaptiveDec dictV) .unknown base cap bs =
      readAll cfg (plainDec .explicitLE dict) () base cap bs := by
  have hu := unknown_explicit dictV bs h
  have := run_first_eq cfg (adaptiveDec dictV) (plainDec .explicitLE dict) id bs.length cap base bs
    .unknown ()
    (by
      simp only [adaptiveDec, plainDec]
      rw [hu.1, locked_explicit_eq dictV dict bs])
    (nogo_of_firstOk cfg base (Or.inl h))
    (fun hok s cap => by
      have hst : (adaptiveHeader dictV .unknown bs).2 = .explicit := hu.2 hok
      simp only [adaptiveDec] at hok ⊢
      rw [hst]
      have := run_locked_explicit cfg dictV dict bs.length cap s
      simp only [adaptiveDec] at this
      rw [this])
  simpa [readAll, mapOut_id] using this

/-- **implicit data** — a data set in Implicit VR LE whose first element is unambiguous (the statement's
condition) is read, with flexible decoding, as by the implicit decoder (same records, up to `normOut` on
the final one). -/
theorem adaptive_eq_implicit (cfg : Cfg) (dictV : Tag → Option VVr)
    (hF : ∀ t : Tag, t.group = 0xFFFE → resolveImplicitVr (relaxedDict dictV) t = .UN)
    (base cap : Nat) (bs : Bytes) (h : implicitFirstOk dictV bs = true) :
    (readAll cfg (adaptiveDec dictV) .unknown base cap bs).map (mapOut normOut) =
      (readAll cfg (plainDec .implicitLE (relaxedDict dictV)) () base cap bs).map (mapOut normOut) := by
  have hu := unknown_implicit dictV bs h
  exact run_first_eq cfg (adaptiveDec dictV) (plainDec .implicitLE (relaxedDict dictV)) normOut bs.length cap
    base bs .unknown ()
    (by
      simp only [adaptiveDec, plainDec]
      rw [hu.1, locked_implicit_eq dictV bs hF])
    (nogo_of_firstOk cfg base (Or.inr h))
    (fun hok s cap => by
      have hst : (adaptiveHeader dictV .unknown bs).2 = .implicit := hu.2 hok
      simp only [adaptiveDec] at hok ⊢
      rw [hst]
      have := run_locked_implicit cfg dictV hF bs.length cap s
      simp only [adaptiveDec] at this
      exact this)


/-! ### witnesses -/

/-- a two-entry dictionary: SOP Class UID is UI, Modality is CS -/
def wDict (t : Tag) : Option VVr :=
  if t = ⟨0x0008, 0x0016⟩ then some (.exact .UI) else if t = ⟨0x0008, 0x0060⟩ then some (.exact .CS) else none

def wCfg : Cfg := { odd := .accept, mode := .preserved, isXs := fun _ => false, parseOk := fun _ _ => true }

/-- Explicit VR LE: (0008,0016) written with VR UN (PS3.5 allows UN for any attribute), length 2, "1."
then (0008,0060) CS "CT" -/
def wExplicitUn : Bytes :=
  [0x08, 0x00, 0x16, 0x00, 0x55, 0x4E, 0, 0, 2, 0, 0, 0, 0x31, 0x2E,
   0x08, 0x00, 0x60, 0x00, 0x43, 0x53, 2, 0, 0x43, 0x54]

/-- The extra hypothesis of `adaptive_eq_explicit` is needed: explicit data whose first element's VR
code (here UN) disagrees with the dictionary entry (UI) is locked to implicit VR and mis-read — the
explicit decoder reads two elements, the flexible reader fails on a 20053-byte value. The statement's
ambiguity condition does not exclude this input. -/
theorem explicit_vr_un_misread :
    explicitFirstOk wDict wExplicitUn = false ∧
    (readAll wCfg (plainDec .explicitLE (relaxedDict wDict)) () 0 100 wExplicitUn).map (·.out) =
      [.tok (.elementHeader ⟨⟨0x0008, 0x0016⟩, .UN, 2⟩), .tok (.primitiveValue (.u8 [0x31, 0x2E])),
       .tok (.elementHeader ⟨⟨0x0008, 0x0060⟩, .CS, 2⟩), .tok (.primitiveValue (.strs [[0x43, 0x54]])), .done] ∧
    (readAll wCfg (adaptiveDec wDict) .unknown 0 100 wExplicitUn).map (·.out) =
      [.tok (.elementHeader ⟨⟨0x0008, 0x0016⟩, .UI, 20053⟩), .err .readValue] := by
  decide


/-- Implicit VR LE: (0008,0060) Modality with declared length 0x00005343 — its two low bytes spell "CS",
the dictionary VR of the attribute (stream cut after 4 value bytes) -/
def wImplicitAmbiguous : Bytes := [0x08, 0x00, 0x60, 0x00, 0x43, 0x53, 0, 0, 0x43, 0x54, 0x20, 0x20]

/-- The statement's ambiguity condition is needed: an ambiguous first element of implicit data is
taken for explicit VR. -/
theorem ambiguous_implicit_misread :
    unambiguous wDict wImplicitAmbiguous = false ∧
    (readAll wCfg (plainDec .implicitLE (relaxedDict wDict)) () 0 100 wImplicitAmbiguous).map (·.out) =
      [.tok (.elementHeader ⟨⟨0x0008, 0x0060⟩, .CS, 21315⟩), .err .readValue] ∧
    ((readAll wCfg (adaptiveDec wDict) .unknown 0 100 wImplicitAmbiguous).map (·.out)).head? =
      some (.tok (.elementHeader ⟨⟨0x0008, 0x0060⟩, .CS, 0⟩)) := by
  decide

/-- `hF` cannot be dropped from `locked_implicit_eq`: the standard dictionary answers (FFFE,0000) with its
generic group length entry (UL), the adaptive decoder says UN for every tag of group FFFE -/
theorem fffe_group_length_differs :
    let d : Tag → Option VVr := fun t => if t.elem = 0 then some (.exact .UL) else none
    let bs : Bytes := [0xFE, 0xFF, 0x00, 0x00, 4, 0, 0, 0]
    (adaptiveHeader d .implicit bs).1 = .ok ⟨⟨0xFFFE, 0⟩, .UN, 4⟩ 8 [] ∧
    hdrOf bs (decodeHeader .implicitLE (relaxedDict d) bs) = .ok ⟨⟨0xFFFE, 0⟩, .UL, 4⟩ 8 [] := by
  decide

/-- the VR that the Implicit VR decoder takes from a dictionary entry is always compatible with it:
explicit data written with the dictionary's VRs satisfies `explicitFirstOk` -/
theorem vrCompat_relaxed (v : VVr) : vrCompat v.relaxed v = true := by
  cases v with
  | exact vr => cases vr <;> decide
  | _ => decide

/-- the extracted table is the one the statement's reading assumes: an exact dictionary VR is compatible
with itself only, `Xs` with US/SS, `Ox` and `Px` with OB/OW, `Lt` with US/OW (re-checked against the source
on every run: a changed arm of `vr_compatible_with_virtual` changes `Gen/VrCompat.lean`) -/
theorem vrCompat_table (p : VR) :
    (∀ vr, vrCompat p (.exact vr) = decide (p = vr)) ∧
    vrCompat p .xs = decide (p = .US ∨ p = .SS) ∧
    vrCompat p .ox = decide (p = .OB ∨ p = .OW) ∧
    vrCompat p .px = decide (p = .OB ∨ p = .OW) ∧
    vrCompat p .lt = decide (p = .US ∨ p = .OW) := by
  refine ⟨fun vr => ?_, ?_, ?_, ?_, ?_⟩
  · cases p <;> cases vr <;> decide
  all_goals cases p <;> decide

/-! ### through the reader option -/

/-- flexible decoding, data in Explicit VR LE (whatever little-endian syntax is declared) -/
theorem flexible_option_explicit (cfg : Cfg) (dictV : Tag → Option VVr) (declared : Syntax)
    (hd : declared.bigEndian = false) (cap : Nat) (bs : Bytes) (h : explicitFirstOk dictV bs = true) :
    readWithOptions cfg dictV declared true cap bs = readWithOptions cfg dictV .explicitLE false cap bs := by
  simp only [readWithOptions, hd, and_self, if_true]
  simp only [Syntax.bigEndian, Bool.false_eq_true, and_false, if_false]
  exact adaptive_eq_explicit cfg dictV _ 0 cap bs h

/-- flexible decoding, data in Implicit VR LE -/
theorem flexible_option_implicit (cfg : Cfg) (dictV : Tag → Option VVr) (declared : Syntax)
    (hd : declared.bigEndian = false)
    (hF : ∀ t : Tag, t.group = 0xFFFE → resolveImplicitVr (relaxedDict dictV) t = .UN)
    (cap : Nat) (bs : Bytes) (h : implicitFirstOk dictV bs = true) :
    (readWithOptions cfg dictV declared true cap bs).map (mapOut normOut) =
      (readWithOptions cfg dictV .implicitLE false cap bs).map (mapOut normOut) := by
  simp only [readWithOptions, hd, and_self, if_true]
  simp only [Syntax.bigEndian, Bool.false_eq_true, and_false, if_false]
  exact adaptive_eq_implicit cfg dictV hF 0 cap bs h

/-- the option has no effect on a big-endian syntax -/
theorem flexible_option_big_endian (cfg : Cfg) (dictV : Tag → Option VVr) (cap : Nat) (bs : Bytes) :
    readWithOptions cfg dictV .explicitBE true cap bs = readWithOptions cfg dictV .explicitBE false cap bs := by
  simp [readWithOptions, Syntax.bigEndian]

/-! ### the hypotheses are satisfiable -/

/-- explicit data starting with (0008,0060) CS "CT": allowed by the dictionary -/
example : explicitFirstOk wDict [0x08, 0x00, 0x60, 0x00, 0x43, 0x53, 2, 0, 0x43, 0x54] = true := by decide
/-- explicit data starting with a tag unknown to the dictionary -/
example : explicitFirstOk wDict [0x09, 0x00, 0x01, 0x10, 0x55, 0x4E, 0, 0, 0, 0, 0, 0] = true := by decide
/-- implicit data starting with (0008,0060), length 2: the bytes 02 00 spell no VR -/
example : implicitFirstOk wDict [0x08, 0x00, 0x60, 0x00, 2, 0, 0, 0, 0x43, 0x54] = true := by decide
/-- implicit data starting with (0008,0060), length 0x4E55 ("UN"): a VR code, but not CS → unambiguous -/
example : implicitFirstOk wDict [0x08, 0x00, 0x60, 0x00, 0x55, 0x4E, 0, 0] = true := by decide
/-- `hF` holds of a dictionary without entries in group FFFE -/
example : ∀ t : Tag, t.group = 0xFFFE → resolveImplicitVr (relaxedDict wDict) t = .UN := by
  intro t ht
  have h1 : t ≠ ⟨0x7FE0, 0x0010⟩ := by intro h; rw [h] at ht; simp at ht
  have h2 : ¬ (t.group / 256 = 0x60 ∧ t.elem = 0x3000) := by rw [ht]; simp
  have h3 : wDict t = none := by
    unfold wDict
    have a : t ≠ ⟨0x0008, 0x0016⟩ := by intro h; rw [h] at ht; simp at ht
    have b : t ≠ ⟨0x0008, 0x0060⟩ := by intro h; rw [h] at ht; simp at ht
    simp [a, b]
  simp [resolveImplicitVr, h1, h2, relaxedDict, h3]


/-! ### leading stray item delimiters -/

variable {σ1 σ2 : Type}

/-- a stray item delimitation item: the tag (FFFE,E00D) and any four length bytes -/
def stray (a b c d : Nat) : Bytes := [0xFE, 0xFF, 0x0D, 0xE0, a, b, c, d]

/-- `k` stray item delimitation items (their length bytes taken from `ls`) in front of `bs` -/
def strays : List (Nat × Nat × Nat × Nat) → Bytes → Bytes
  | [], bs => bs
  | (a, b, c, d) :: ls, bs => stray a b c d ++ strays ls bs

/-- the reader at the top level of a data set, between elements, nothing open -/
structure Fresh (s : RSt) : Prop where
  hardBreak : s.hardBreak = false
  pending : s.pending = false
  inSeq : s.inSeq = false
  last : s.last = none
  stack : s.stack = []

theorem Fresh.pre {cfg : Cfg} {be g : Bool} {s : RSt} (h : Fresh s) : preHeader cfg be g s = .go s := by
  unfold preHeader
  simp only [h.pending, Bool.false_eq_true, if_false]
  unfold preBody
  simp [h.inSeq, h.stack, h.last]

theorem headerStep_stray (cfg : Cfg) (s : RSt) (len : Nat) (rest : Bytes) (h : Fresh s) :
    headerStep cfg (.ok ⟨Tag.itemDelim, .UN, len⟩ 8 rest) s = .go { s with src := rest, pos := s.pos + 8 } := by
  simp only [headerStep]
  have hstack : s.stack.isEmpty = true := by simp [h.stack]
  split <;> simp [Tag.itemDelim, hstack]

theorem Fresh.skip {s : RSt} (h : Fresh s) (rest : Bytes) (p : Nat) : Fresh { s with src := rest, pos := p } :=
  ⟨h.hardBreak, h.pending, h.inSeq, h.last, h.stack⟩

/-- **lock-step over leading stray delimiters** — two decoders that both read a stray item delimitation item
as `(FFFE,E00D) UN len` / 8 bytes without changing state, and that agree on the first real header
(`hfirst`), make the reader take the same step from any fresh state whose source is `strays ls bs` -/
theorem next_strays_sim (cfg : Cfg) (D1 : Dec σ1) (D2 : Dec σ2) (d1 : σ1) (d2 : σ2) (R : σ1 → σ2 → Prop)
    (bs : Bytes)
    (hs1 : ∀ a b c d rest, ∃ len, D1.header d1 (stray a b c d ++ rest) = (.ok ⟨Tag.itemDelim, .UN, len⟩ 8 rest, d1) ∧
      (D2.header d2 (stray a b c d ++ rest)) = (.ok ⟨Tag.itemDelim, .UN, len⟩ 8 rest, d2))
    (hr : (D1.header d1 bs).1 = (D2.header d2 bs).1)
    (hnogo : ∀ s s', Fresh s → headerStep cfg (D1.header d1 bs).1 s ≠ .go s')
    (hR : (D1.header d1 bs).1.isOk = true → R (D1.header d1 bs).2 (D2.header d2 bs).2)
 :
    ∀ (ls : List (Nat × Nat × Nat × Nat)) (f : Nat) (s : RSt), Fresh s → s.src = strays ls bs →
      (next cfg D1 f (d1, s)).1 = (next cfg D2 f (d2, s)).1 ∧
      (next cfg D1 f (d1, s)).2.2 = (next cfg D2 f (d2, s)).2.2 ∧
      ((next cfg D1 f (d1, s)).1.isTok = true → R (next cfg D1 f (d1, s)).2.1 (next cfg D2 f (d2, s)).2.1) := by
  intro ls
  induction ls with
  | nil =>
    intro f s hf hsrc
    simp only [strays] at hsrc
    cases f with
    | zero => simp [next, Out.isTok]
    | succ f =>
      unfold next
      simp only [hf.hardBreak, Bool.false_eq_true, if_false, hf.pre, hsrc]
      rw [← hr]
      cases hstep : headerStep cfg (D1.header d1 bs).1 s with
      | go s' => exact absurd hstep (hnogo s s' hf)
      | ret o s' =>
        simp only
        refine ⟨trivial, trivial, ?_⟩
        intro ht
        cases o with
        | tok t => exact hR (headerStep_tok_isOk hstep)
        | err e => simp [Out.isTok] at ht
        | done => simp [Out.isTok] at ht
  | cons q ls ih =>
    intro f s hf hsrc
    obtain ⟨a, b, c, d⟩ := q
    simp only [strays] at hsrc
    cases f with
    | zero => simp [next, Out.isTok]
    | succ f =>
      obtain ⟨len, h1, h2⟩ := hs1 a b c d (strays ls bs)
      unfold next
      simp only [hf.hardBreak, Bool.false_eq_true, if_false, hf.pre, hsrc, h1, h2,
        headerStep_stray cfg s len _ hf]
      exact ih f _ ⟨rfl, hf.pending, hf.inSeq, hf.last, hf.stack⟩ rfl


theorem run_strays_sim (cfg : Cfg) (D1 : Dec σ1) (D2 : Dec σ2) (d1 : σ1) (d2 : σ2) (R : σ1 → σ2 → Prop)
    (bs : Bytes) (f : Out → Out) (total : Nat)
    (hs1 : ∀ a b c d rest, ∃ len, D1.header d1 (stray a b c d ++ rest) = (.ok ⟨Tag.itemDelim, .UN, len⟩ 8 rest, d1) ∧
      (D2.header d2 (stray a b c d ++ rest)) = (.ok ⟨Tag.itemDelim, .UN, len⟩ 8 rest, d2))
    (hr : (D1.header d1 bs).1 = (D2.header d2 bs).1)
    (hnogo : ∀ s s', Fresh s → headerStep cfg (D1.header d1 bs).1 s ≠ .go s')
    (hR : (D1.header d1 bs).1.isOk = true → R (D1.header d1 bs).2 (D2.header d2 bs).2)
    (hrest : ∀ e1 e2 s cap, R e1 e2 →
      (run cfg D1 total cap (e1, s)).map (mapOut f) = (run cfg D2 total cap (e2, s)).map (mapOut f))
    (ls : List (Nat × Nat × Nat × Nat)) (cap : Nat) (s : RSt) (hf : Fresh s) (hsrc : s.src = strays ls bs) :
    (run cfg D1 total cap (d1, s)).map (mapOut f) = (run cfg D2 total cap (d2, s)).map (mapOut f) := by
  cases cap with
  | zero => simp [run]
  | succ cap =>
    have hn := next_strays_sim cfg D1 D2 d1 d2 R bs hs1 hr hnogo hR ls (s.src.length + 1) s hf hsrc
    unfold run
    simp only
    generalize next cfg D1 (s.src.length + 1) (d1, s) = x1 at hn
    generalize next cfg D2 (s.src.length + 1) (d2, s) = x2 at hn
    obtain ⟨o1, e1, s1⟩ := x1
    obtain ⟨o2, e2, s2⟩ := x2
    simp only at hn
    obtain ⟨ho, hs, hRR⟩ := hn
    subst ho; subst hs
    cases o1 with
    | tok t => simp [mapOut, hrest e1 e2 s1 cap (hRR rfl)]
    | err e => simp [mapOut]
    | done => simp [mapOut]

theorem stray_adaptive (dictV : Tag → Option VVr) (st : VrState) (a b c d : Nat) (rest : Bytes) :
    adaptiveHeader dictV st (stray a b c d ++ rest) =
      (.ok ⟨Tag.itemDelim, .UN, a + 256 * b + 65536 * c + 16777216 * d⟩ 8 rest, st) := by
  simp [adaptiveHeader, stray, decodeTag, rd16, rdLe16, rdLe32, Tag.itemDelim]

theorem stray_explicit (dict : Tag → Option VR) (a b c d : Nat) (rest : Bytes) :
    (plainDec .explicitLE dict).header () (stray a b c d ++ rest) =
      (.ok ⟨Tag.itemDelim, .UN, a + 256 * b + 65536 * c + 16777216 * d⟩ 8 rest, ()) := by
  simp [plainDec, decodeHeader, decodeExplicitWith, stray, decodeTag, rd16, rdLe16, rd32, rdLe32, Tag.itemDelim, hdrOf]

theorem stray_implicit (dict : Tag → Option VR) (hu : resolveImplicitVr dict Tag.itemDelim = .UN)
    (a b c d : Nat) (rest : Bytes) :
    (plainDec .implicitLE dict).header () (stray a b c d ++ rest) =
      (.ok ⟨Tag.itemDelim, .UN, a + 256 * b + 65536 * c + 16777216 * d⟩ 8 rest, ()) := by
  have : (⟨65534, 57357⟩ : Tag) = Tag.itemDelim := rfl
  simp [plainDec, decodeHeader, stray, decodeTag, rd16, rdLe16, rdLe32, hdrOf, this, hu]

theorem nogo_of_firstOk' (cfg : Cfg) {dictV : Tag → Option VVr} {bs : Bytes}
    (h : explicitFirstOk dictV bs = true ∨ implicitFirstOk dictV bs = true) (s s' : RSt) :
    headerStep cfg (adaptiveHeader dictV .unknown bs).1 s ≠ .go s' := by
  intro hgo
  obtain ⟨h0, n, rest, hr, htag⟩ := headerStep_go hgo
  have hh : adaptiveHeader dictV .unknown bs = (.ok h0 n rest, (adaptiveHeader dictV .unknown bs).2) := by
    rw [← hr]
  obtain ⟨r, hdt⟩ := adaptiveHeader_tag hh
  have := firstOk_group h hdt
  rw [htag] at this
  exact this rfl

theorem Fresh.init (bs : Bytes) (base : Nat) : Fresh (RSt.init bs base) := ⟨rfl, rfl, rfl, rfl, rfl⟩

/-- **explicit data after stray item delimiters** — any number of stray item delimitation items (which the
reader skips at the top level, and which leave the adaptive decoder undecided) in front of a data set whose
first element satisfies `explicitFirstOk`: flexible run = explicit run -/
theorem adaptive_eq_explicit_strays (cfg : Cfg) (dictV : Tag → Option VVr) (dict : Tag → Option VR)
    (base cap : Nat) (ls : List (Nat × Nat × Nat × Nat)) (bs : Bytes) (h : explicitFirstOk dictV bs = true) :
    readAll cfg (adaptiveDec dictV) .unknown base cap (strays ls bs) =
      readAll cfg (plainDec .explicitLE dict) () base cap (strays ls bs) := by
  have hu := unknown_explicit dictV bs h
  have := run_strays_sim cfg (adaptiveDec dictV) (plainDec .explicitLE dict) .unknown () (fun e _ => e = .explicit)
    bs id (strays ls bs).length
    (fun a b c d rest => ⟨_, stray_adaptive dictV .unknown a b c d rest, stray_explicit dict a b c d rest⟩)
    (by simp only [adaptiveDec, plainDec]; rw [hu.1, locked_explicit_eq dictV dict bs])
    (fun s s' _ => nogo_of_firstOk' cfg (Or.inl h) s s')
    (fun hok => hu.2 hok)
    (fun e1 e2 s cap hR => by
      subst hR
      rw [run_locked_explicit cfg dictV dict _ cap s])
    ls cap (RSt.init (strays ls bs) base) (Fresh.init _ _) rfl
  simpa [readAll, mapOut_id] using this

/-- **implicit data after stray item delimiters** — likewise for `implicitFirstOk` (up to `normOut`) -/
theorem adaptive_eq_implicit_strays (cfg : Cfg) (dictV : Tag → Option VVr)
    (hF : ∀ t : Tag, t.group = 0xFFFE → resolveImplicitVr (relaxedDict dictV) t = .UN)
    (base cap : Nat) (ls : List (Nat × Nat × Nat × Nat)) (bs : Bytes) (h : implicitFirstOk dictV bs = true) :
    (readAll cfg (adaptiveDec dictV) .unknown base cap (strays ls bs)).map (mapOut normOut) =
      (readAll cfg (plainDec .implicitLE (relaxedDict dictV)) () base cap (strays ls bs)).map (mapOut normOut) := by
  have hu := unknown_implicit dictV bs h
  exact run_strays_sim cfg (adaptiveDec dictV) (plainDec .implicitLE (relaxedDict dictV)) .unknown ()
    (fun e _ => e = .implicit) bs normOut (strays ls bs).length
    (fun a b c d rest => ⟨_, stray_adaptive dictV .unknown a b c d rest,
      stray_implicit _ (hF Tag.itemDelim rfl) a b c d rest⟩)
    (by simp only [adaptiveDec, plainDec]; rw [hu.1, locked_implicit_eq dictV bs hF])
    (fun s s' _ => nogo_of_firstOk' cfg (Or.inr h) s s')
    (fun hok => hu.2 hok)
    (fun e1 e2 s cap hR => by
      subst hR
      exact run_locked_implicit cfg dictV hF _ cap s)
    ls cap (RSt.init (strays ls bs) base) (Fresh.init _ _) rfl


/-- two stray delimiters (one with a non-zero length field) in front of explicit data: the model's runs
agree, as `adaptive_eq_explicit_strays` says -/
example :
    readAll wCfg (adaptiveDec wDict) .unknown 0 100
        (strays [(0, 0, 0, 0), (7, 0, 0, 0)] [0x08, 0x00, 0x60, 0x00, 0x43, 0x53, 2, 0, 0x43, 0x54]) =
      readAll wCfg (plainDec .explicitLE (relaxedDict wDict)) () 0 100
        (strays [(0, 0, 0, 0), (7, 0, 0, 0)] [0x08, 0x00, 0x60, 0x00, 0x43, 0x53, 2, 0, 0x43, 0x54]) :=
  adaptive_eq_explicit_strays wCfg wDict _ 0 100 _ _ (by decide)

end Dicom.Rd
