import DicomModel.Model.Build
import DicomModel.Lemmas.Header
import DicomModel.Props.C03
import DicomModel.Props.C04
/-
C01 — Data set write-then-read round trip in every writable transfer syntax.

Models: `Model/Header`, `Model/Value`, `Model/Writer` (tokens + DataSetWriter), `Model/Reader`
(StatefulDecoder value reading + the DataSetReader state machine), `Model/Build` (build_object).
Deflate is outside the model (`inflate ∘ deflate = id` assumed): the Deflated syntax is Explicit VR LE.

Order (DESIGN §6 C01): value round trips per VR class → one element → flat data sets → trees.
What is proved is listed theorem by theorem; the full tree statement is `TreeRoundTrip` (a `def … : Prop`,
not yet proved — see `level_note`).
-/
set_option linter.unusedSimpArgs false
namespace Dicom.C01
open Dicom.C04

/-! ### fixed-width lists -/

theorem rdMany_flatMap (rd : Bytes → Option (Nat × Bytes)) (enc : Nat → Bytes) (P : Nat → Prop)
    (hrt : ∀ v r, P v → rd (enc v ++ r) = some (v, r)) :
    ∀ (l : List Nat), (∀ v ∈ l, P v) → ∀ r : Bytes, rdMany rd l.length (l.flatMap enc ++ r) = some (l, r)
  | [], _, r => by simp [rdMany]
  | v :: l, hl, r => by
    have h1 := hrt v (l.flatMap enc ++ r) (hl v (by simp))
    have h2 := rdMany_flatMap rd enc P hrt l (fun x hx => hl x (by simp [hx])) r
    simp [rdMany, List.flatMap_cons, List.append_assoc, h1, h2]

theorem flatMap_length_mul {α : Type} (f : α → Bytes) (k : Nat) (h : ∀ a, (f a).length = k) (l : List α) :
    (l.flatMap f).length = l.length * k := C04.flatMap_length_const f k h l

/-- reading back `n` numbers of width `2^shift` bytes written one after the other -/
theorem readNums_rt (d : Dec) (shift : Nat) (rd : Bytes → Option (Nat × Bytes)) (enc : Nat → Bytes)
    (P : Nat → Prop) (hrt : ∀ v r, P v → rd (enc v ++ r) = some (v, r))
    (hw : ∀ a, (enc a).length = 2 ^ shift) (mk : List Nat → PValue)
    (l : List Nat) (hl : ∀ v ∈ l, P v) (rest : Bytes) (hd : d.rest = l.flatMap enc ++ rest) :
    d.readNums (l.flatMap enc).length shift rd mk
      = .ok (mk l, { d with rest := rest, pos := d.pos + (l.flatMap enc).length }) := by
  have hlen : (l.flatMap enc).length = l.length * 2 ^ shift := flatMap_length_mul enc _ hw l
  have hpos : 0 < 2 ^ shift := Nat.pos_of_ne_zero (by simp)
  have hdiv : l.length * 2 ^ shift / 2 ^ shift = l.length := Nat.mul_div_cancel _ hpos
  have hmod : l.length * 2 ^ shift % 2 ^ shift = 0 := Nat.mul_mod_left _ _
  unfold Dec.readNums
  rw [hlen, hdiv, hmod, hd, rdMany_flatMap rd enc P hrt l hl rest]
  simp [takeN]

/-! ### two's complement -/

theorem fromTwos_twos16 (v : Int) (h : -32768 ≤ v ∧ v < 32768) : fromTwos 16 (twos 16 v) = v := by
  unfold fromTwos twos; simp only [show (2:Nat)^16 = 65536 by decide, show (2:Nat)^(16-1) = 32768 by decide]
  split <;> omega
theorem fromTwos_twos32 (v : Int) (h : -2147483648 ≤ v ∧ v < 2147483648) : fromTwos 32 (twos 32 v) = v := by
  unfold fromTwos twos; simp only [show (2:Nat)^32 = 4294967296 by decide, show (2:Nat)^(32-1) = 2147483648 by decide]
  split <;> omega
theorem fromTwos_twos64 (v : Int) (h : -9223372036854775808 ≤ v ∧ v < 9223372036854775808) :
    fromTwos 64 (twos 64 v) = v := by
  unfold fromTwos twos
  simp only [show (2:Nat)^64 = 18446744073709551616 by decide, show (2:Nat)^(64-1) = 9223372036854775808 by decide]
  split <;> omega

theorem twos_lt16 (v : Int) : twos 16 v < 65536 := by unfold twos; simp only [show (2:Nat)^16 = 65536 by decide]; omega
theorem twos_lt32 (v : Int) : twos 32 v < 4294967296 := by
  unfold twos; simp only [show (2:Nat)^32 = 4294967296 by decide]; omega
theorem twos_lt64 (v : Int) : twos 64 v < 18446744073709551616 := by
  unfold twos; simp only [show (2:Nat)^64 = 18446744073709551616 by decide]; omega

/-! ### text -/

def NoBackslash (s : Bytes) : Prop := 0x5C ∉ s

theorem splitBackslash_single {s : Bytes} (h : NoBackslash s) : splitBackslash s = [s] := by
  induction s with
  | nil => rfl
  | cons b r ih =>
    have hb : b ≠ 0x5C := fun e => h (by simp [e])
    have hr : NoBackslash r := fun m => h (by simp [m])
    simp [splitBackslash, hb, ih hr]

theorem splitBackslash_append {s : Bytes} (h : NoBackslash s) (t : Bytes) :
    splitBackslash (s ++ 0x5C :: t) = s :: splitBackslash t := by
  induction s with
  | nil => simp [splitBackslash]
  | cons b r ih =>
    have hb : b ≠ 0x5C := fun e => h (by simp [e])
    have hr : NoBackslash r := fun m => h (by simp [m])
    simp [splitBackslash, hb, ih hr]

/-- splitting a backslash-joined list of backslash-free strings gives the list back -/
theorem splitBackslash_join : ∀ (l : List Bytes), l ≠ [] → (∀ s ∈ l, NoBackslash s) →
    splitBackslash (joinBackslash l) = l
  | [], h, _ => absurd rfl h
  | [x], _, hx => by simpa [joinBackslash] using splitBackslash_single (hx x (by simp))
  | x :: y :: r, _, hx => by
    have := splitBackslash_join (y :: r) (by simp) (fun s hs => hx s (by simp [hs]))
    simp only [joinBackslash]
    rw [splitBackslash_append (hx x (by simp)), this]

/-! ### value round trips (`read_value_preserved` after `encode_primitive_element`) -/

theorem padTo_of_even {bs : Bytes} (h : bs.length % 2 = 0) (p : Nat) : padTo bs p = bs := by
  unfold padTo; split
  · omega
  · rfl

/-- the shape shared by all numeric value round trips: the value field is `l.flatMap enc` (even, non-empty,
defined length) and the VR's reader is `readNums … rd mk` -/
theorem value_rt_nums (ts : Syntax) (dict : Tag → Option VR) (tag : Tag) (vr : VR) (v : PValue)
    (shift : Nat) (rd : Bytes → Option (Nat × Bytes)) (enc : Nat → Bytes) (P : Nat → Prop)
    (hrt : ∀ v r, P v → rd (enc v ++ r) = some (v, r)) (hw : ∀ a, (enc a).length = 2 ^ shift)
    (mk : List Nat → PValue) (l : List Nat) (hl : ∀ x ∈ l, P x)
    (hvb : paddedValue ts.bigEndian vr v = l.flatMap enc)
    (hread : ∀ (d : Dec) (len : Nat), d.ts = ts → len ≠ 0 → len ≠ undefinedLen →
      d.readValuePreserved ⟨tag, vr, len⟩ = d.readNums len shift rd mk)
    (hne : (paddedValue ts.bigEndian vr v).length ≠ 0)
    (hsz : (paddedValue ts.bigEndian vr v).length < 4294967295) (rest : Bytes) (pos : Nat) :
    Dec.readValuePreserved ⟨ts, dict, paddedValue ts.bigEndian vr v ++ rest, pos⟩
        ⟨tag, vr, (paddedValue ts.bigEndian vr v).length⟩
      = .ok (mk l, ⟨ts, dict, rest, pos + (paddedValue ts.bigEndian vr v).length⟩) := by
  rw [hread _ _ rfl hne (by unfold undefinedLen; omega)]
  rw [hvb]
  exact readNums_rt ⟨ts, dict, l.flatMap enc ++ rest, pos⟩ shift rd enc P hrt hw mk l hl rest rfl

/-- US / OW values (unsigned 16-bit) read back exactly, in both byte orders -/
theorem value_rt_u16 (ts : Syntax) (dict : Tag → Option VR) (tag : Tag) (vr : VR) (hvr : vr = .US ∨ vr = .OW)
    (l : List Nat) (hl : ∀ x ∈ l, x < 65536) (hne : l ≠ [])
    (hsz : (paddedValue ts.bigEndian vr (.u16 l)).length < 4294967295) (rest : Bytes) (pos : Nat) :
    Dec.readValuePreserved ⟨ts, dict, paddedValue ts.bigEndian vr (.u16 l) ++ rest, pos⟩
        ⟨tag, vr, (paddedValue ts.bigEndian vr (.u16 l)).length⟩
      = .ok (.u16 l, ⟨ts, dict, rest, pos + (paddedValue ts.bigEndian vr (.u16 l)).length⟩) := by
  have hlen : (l.flatMap (enc16 ts.bigEndian)).length = l.length * 2 := flatMap_length_mul _ 2 (by simp) l
  have hvb : paddedValue ts.bigEndian vr (.u16 l) = l.flatMap (enc16 ts.bigEndian) := by
    rcases hvr with h | h <;> subst h <;>
      simp [paddedValue, encodePrimitive, padTo_of_even (show (l.flatMap (enc16 ts.bigEndian)).length % 2 = 0 by omega)]
  refine value_rt_nums ts dict tag vr _ 1 (rd16 ts.bigEndian) (enc16 ts.bigEndian) (· < 65536)
    (fun v r h => rd16_enc16 _ v h r) (by simp) .u16 l hl hvb ?_ ?_ hsz rest pos
  · intro d len hts h0 hu
    rcases hvr with h | h <;> subst h <;> simp [Dec.readValuePreserved, h0, hu, hts]
  · rw [hvb, hlen]; cases l with
    | nil => exact absurd rfl hne
    | cons a r => simp


/-- UL / OL values (unsigned 32-bit) read back exactly -/
theorem value_rt_u32 (ts : Syntax) (dict : Tag → Option VR) (tag : Tag) (vr : VR) (hvr : vr = .UL ∨ vr = .OL)
    (l : List Nat) (hl : ∀ x ∈ l, x < 4294967296) (hne : l ≠ [])
    (hsz : (paddedValue ts.bigEndian vr (.u32 l)).length < 4294967295) (rest : Bytes) (pos : Nat) :
    Dec.readValuePreserved ⟨ts, dict, paddedValue ts.bigEndian vr (.u32 l) ++ rest, pos⟩
        ⟨tag, vr, (paddedValue ts.bigEndian vr (.u32 l)).length⟩
      = .ok (.u32 l, ⟨ts, dict, rest, pos + (paddedValue ts.bigEndian vr (.u32 l)).length⟩) := by
  have hfm : l.flatMap (fun v => enc32 ts.bigEndian (v)) = (l).flatMap (enc32 ts.bigEndian) := by
    simp [List.flatMap_map]
  have hlen : ((l).flatMap (enc32 ts.bigEndian)).length = (l).length * 4 :=
    flatMap_length_mul _ 4 (by simp) _
  have hvb : paddedValue ts.bigEndian vr (.u32 l) = (l).flatMap (enc32 ts.bigEndian) := by
    rcases hvr with h | h <;> subst h <;>
      simp only [paddedValue, encodePrimitive, hfm, reduceCtorEq, or_self, if_false] <;>
      exact padTo_of_even (by rw [hlen]; omega) _
  have hres : (PValue.u32) (l) = .u32 l := by
    rfl
  have hl' : ∀ x ∈ (l), (· < 4294967296) x := by
    exact hl
  have hread : ∀ (d : Dec) (len : Nat), d.ts = ts → len ≠ 0 → len ≠ undefinedLen →
      d.readValuePreserved ⟨tag, vr, len⟩ = d.readNums len 2 (rd32 ts.bigEndian) (PValue.u32) := by
    intro d len hts h0 hu
    rcases hvr with h | h <;> subst h <;> simp [Dec.readValuePreserved, h0, hu, hts]
  have hne' : (paddedValue ts.bigEndian vr (.u32 l)).length ≠ 0 := by
    rw [hvb, hlen]; cases l with
    | nil => exact absurd rfl hne
    | cons a r => simp
  have key := value_rt_nums ts dict tag vr (.u32 l) 2 (rd32 ts.bigEndian) (enc32 ts.bigEndian) (· < 4294967296)
    (fun v r h => rd32_enc32 _ v h r) (by simp) (PValue.u32) (l) hl' hvb hread hne' hsz rest pos
  have hres' := hres
  try dsimp only at hres'
  first
    | exact key
    | (rw [hres'] at key; exact key)

/-- UV / OV values (unsigned 64-bit) read back exactly -/
theorem value_rt_u64 (ts : Syntax) (dict : Tag → Option VR) (tag : Tag) (vr : VR) (hvr : vr = .UV ∨ vr = .OV)
    (l : List Nat) (hl : ∀ x ∈ l, x < 18446744073709551616) (hne : l ≠ [])
    (hsz : (paddedValue ts.bigEndian vr (.u64 l)).length < 4294967295) (rest : Bytes) (pos : Nat) :
    Dec.readValuePreserved ⟨ts, dict, paddedValue ts.bigEndian vr (.u64 l) ++ rest, pos⟩
        ⟨tag, vr, (paddedValue ts.bigEndian vr (.u64 l)).length⟩
      = .ok (.u64 l, ⟨ts, dict, rest, pos + (paddedValue ts.bigEndian vr (.u64 l)).length⟩) := by
  have hfm : l.flatMap (fun v => enc64 ts.bigEndian (v)) = (l).flatMap (enc64 ts.bigEndian) := by
    simp [List.flatMap_map]
  have hlen : ((l).flatMap (enc64 ts.bigEndian)).length = (l).length * 8 :=
    flatMap_length_mul _ 8 (by simp) _
  have hvb : paddedValue ts.bigEndian vr (.u64 l) = (l).flatMap (enc64 ts.bigEndian) := by
    rcases hvr with h | h <;> subst h <;>
      simp only [paddedValue, encodePrimitive, hfm, reduceCtorEq, or_self, if_false] <;>
      exact padTo_of_even (by rw [hlen]; omega) _
  have hres : (PValue.u64) (l) = .u64 l := by
    rfl
  have hl' : ∀ x ∈ (l), (· < 18446744073709551616) x := by
    exact hl
  have hread : ∀ (d : Dec) (len : Nat), d.ts = ts → len ≠ 0 → len ≠ undefinedLen →
      d.readValuePreserved ⟨tag, vr, len⟩ = d.readNums len 3 (rd64 ts.bigEndian) (PValue.u64) := by
    intro d len hts h0 hu
    rcases hvr with h | h <;> subst h <;> simp [Dec.readValuePreserved, h0, hu, hts]
  have hne' : (paddedValue ts.bigEndian vr (.u64 l)).length ≠ 0 := by
    rw [hvb, hlen]; cases l with
    | nil => exact absurd rfl hne
    | cons a r => simp
  have key := value_rt_nums ts dict tag vr (.u64 l) 3 (rd64 ts.bigEndian) (enc64 ts.bigEndian) (· < 18446744073709551616)
    (fun v r h => rd64_enc64 _ v h r) (by simp) (PValue.u64) (l) hl' hvb hread hne' hsz rest pos
  have hres' := hres
  try dsimp only at hres'
  first
    | exact key
    | (rw [hres'] at key; exact key)

/-- SS values (signed 16-bit, two's complement) read back exactly -/
theorem value_rt_i16 (ts : Syntax) (dict : Tag → Option VR) (tag : Tag) (vr : VR) (hvr : vr = .SS)
    (l : List Int) (hl : ∀ x ∈ l, -32768 ≤ x ∧ x < 32768) (hne : l ≠ [])
    (hsz : (paddedValue ts.bigEndian vr (.i16 l)).length < 4294967295) (rest : Bytes) (pos : Nat) :
    Dec.readValuePreserved ⟨ts, dict, paddedValue ts.bigEndian vr (.i16 l) ++ rest, pos⟩
        ⟨tag, vr, (paddedValue ts.bigEndian vr (.i16 l)).length⟩
      = .ok (.i16 l, ⟨ts, dict, rest, pos + (paddedValue ts.bigEndian vr (.i16 l)).length⟩) := by
  have hfm : l.flatMap (fun v => enc16 ts.bigEndian (twos 16 v)) = (l.map (twos 16)).flatMap (enc16 ts.bigEndian) := by
    simp [List.flatMap_map]
  have hlen : ((l.map (twos 16)).flatMap (enc16 ts.bigEndian)).length = (l.map (twos 16)).length * 2 :=
    flatMap_length_mul _ 2 (by simp) _
  have hvb : paddedValue ts.bigEndian vr (.i16 l) = (l.map (twos 16)).flatMap (enc16 ts.bigEndian) := by
    subst hvr <;>
      simp only [paddedValue, encodePrimitive, hfm, reduceCtorEq, or_self, if_false] <;>
      exact padTo_of_even (by rw [hlen]; omega) _
  have hres : (fun l => PValue.i16 (l.map (fromTwos 16))) (l.map (twos 16)) = .i16 l := by
    simp only [List.map_map]; congr 1; rw [List.map_congr_left (g := id)]; simp; intro a ha; exact fromTwos_twos16 a (hl a ha)
  have hl' : ∀ x ∈ (l.map (twos 16)), (· < 65536) x := by
    intro x hx; obtain ⟨a, _, rfl⟩ := List.mem_map.mp hx; exact twos_lt16 a
  have hread : ∀ (d : Dec) (len : Nat), d.ts = ts → len ≠ 0 → len ≠ undefinedLen →
      d.readValuePreserved ⟨tag, vr, len⟩ = d.readNums len 1 (rd16 ts.bigEndian) (fun l => PValue.i16 (l.map (fromTwos 16))) := by
    intro d len hts h0 hu
    subst hvr <;> simp [Dec.readValuePreserved, h0, hu, hts]
  have hne' : (paddedValue ts.bigEndian vr (.i16 l)).length ≠ 0 := by
    rw [hvb, hlen]; cases l with
    | nil => exact absurd rfl hne
    | cons a r => simp
  have key := value_rt_nums ts dict tag vr (.i16 l) 1 (rd16 ts.bigEndian) (enc16 ts.bigEndian) (· < 65536)
    (fun v r h => rd16_enc16 _ v h r) (by simp) (fun l => PValue.i16 (l.map (fromTwos 16))) (l.map (twos 16)) hl' hvb hread hne' hsz rest pos
  have hres' := hres
  try dsimp only at hres'
  first
    | exact key
    | (rw [hres'] at key; exact key)

/-- SL values (signed 32-bit) read back exactly -/
theorem value_rt_i32 (ts : Syntax) (dict : Tag → Option VR) (tag : Tag) (vr : VR) (hvr : vr = .SL)
    (l : List Int) (hl : ∀ x ∈ l, -2147483648 ≤ x ∧ x < 2147483648) (hne : l ≠ [])
    (hsz : (paddedValue ts.bigEndian vr (.i32 l)).length < 4294967295) (rest : Bytes) (pos : Nat) :
    Dec.readValuePreserved ⟨ts, dict, paddedValue ts.bigEndian vr (.i32 l) ++ rest, pos⟩
        ⟨tag, vr, (paddedValue ts.bigEndian vr (.i32 l)).length⟩
      = .ok (.i32 l, ⟨ts, dict, rest, pos + (paddedValue ts.bigEndian vr (.i32 l)).length⟩) := by
  have hfm : l.flatMap (fun v => enc32 ts.bigEndian (twos 32 v)) = (l.map (twos 32)).flatMap (enc32 ts.bigEndian) := by
    simp [List.flatMap_map]
  have hlen : ((l.map (twos 32)).flatMap (enc32 ts.bigEndian)).length = (l.map (twos 32)).length * 4 :=
    flatMap_length_mul _ 4 (by simp) _
  have hvb : paddedValue ts.bigEndian vr (.i32 l) = (l.map (twos 32)).flatMap (enc32 ts.bigEndian) := by
    subst hvr <;>
      simp only [paddedValue, encodePrimitive, hfm, reduceCtorEq, or_self, if_false] <;>
      exact padTo_of_even (by rw [hlen]; omega) _
  have hres : (fun l => PValue.i32 (l.map (fromTwos 32))) (l.map (twos 32)) = .i32 l := by
    simp only [List.map_map]; congr 1; rw [List.map_congr_left (g := id)]; simp; intro a ha; exact fromTwos_twos32 a (hl a ha)
  have hl' : ∀ x ∈ (l.map (twos 32)), (· < 4294967296) x := by
    intro x hx; obtain ⟨a, _, rfl⟩ := List.mem_map.mp hx; exact twos_lt32 a
  have hread : ∀ (d : Dec) (len : Nat), d.ts = ts → len ≠ 0 → len ≠ undefinedLen →
      d.readValuePreserved ⟨tag, vr, len⟩ = d.readNums len 2 (rd32 ts.bigEndian) (fun l => PValue.i32 (l.map (fromTwos 32))) := by
    intro d len hts h0 hu
    subst hvr <;> simp [Dec.readValuePreserved, h0, hu, hts]
  have hne' : (paddedValue ts.bigEndian vr (.i32 l)).length ≠ 0 := by
    rw [hvb, hlen]; cases l with
    | nil => exact absurd rfl hne
    | cons a r => simp
  have key := value_rt_nums ts dict tag vr (.i32 l) 2 (rd32 ts.bigEndian) (enc32 ts.bigEndian) (· < 4294967296)
    (fun v r h => rd32_enc32 _ v h r) (by simp) (fun l => PValue.i32 (l.map (fromTwos 32))) (l.map (twos 32)) hl' hvb hread hne' hsz rest pos
  have hres' := hres
  try dsimp only at hres'
  first
    | exact key
    | (rw [hres'] at key; exact key)

/-- SV values (signed 64-bit) read back exactly -/
theorem value_rt_i64 (ts : Syntax) (dict : Tag → Option VR) (tag : Tag) (vr : VR) (hvr : vr = .SV)
    (l : List Int) (hl : ∀ x ∈ l, -9223372036854775808 ≤ x ∧ x < 9223372036854775808) (hne : l ≠ [])
    (hsz : (paddedValue ts.bigEndian vr (.i64 l)).length < 4294967295) (rest : Bytes) (pos : Nat) :
    Dec.readValuePreserved ⟨ts, dict, paddedValue ts.bigEndian vr (.i64 l) ++ rest, pos⟩
        ⟨tag, vr, (paddedValue ts.bigEndian vr (.i64 l)).length⟩
      = .ok (.i64 l, ⟨ts, dict, rest, pos + (paddedValue ts.bigEndian vr (.i64 l)).length⟩) := by
  have hfm : l.flatMap (fun v => enc64 ts.bigEndian (twos 64 v)) = (l.map (twos 64)).flatMap (enc64 ts.bigEndian) := by
    simp [List.flatMap_map]
  have hlen : ((l.map (twos 64)).flatMap (enc64 ts.bigEndian)).length = (l.map (twos 64)).length * 8 :=
    flatMap_length_mul _ 8 (by simp) _
  have hvb : paddedValue ts.bigEndian vr (.i64 l) = (l.map (twos 64)).flatMap (enc64 ts.bigEndian) := by
    subst hvr <;>
      simp only [paddedValue, encodePrimitive, hfm, reduceCtorEq, or_self, if_false] <;>
      exact padTo_of_even (by rw [hlen]; omega) _
  have hres : (fun l => PValue.i64 (l.map (fromTwos 64))) (l.map (twos 64)) = .i64 l := by
    simp only [List.map_map]; congr 1; rw [List.map_congr_left (g := id)]; simp; intro a ha; exact fromTwos_twos64 a (hl a ha)
  have hl' : ∀ x ∈ (l.map (twos 64)), (· < 18446744073709551616) x := by
    intro x hx; obtain ⟨a, _, rfl⟩ := List.mem_map.mp hx; exact twos_lt64 a
  have hread : ∀ (d : Dec) (len : Nat), d.ts = ts → len ≠ 0 → len ≠ undefinedLen →
      d.readValuePreserved ⟨tag, vr, len⟩ = d.readNums len 3 (rd64 ts.bigEndian) (fun l => PValue.i64 (l.map (fromTwos 64))) := by
    intro d len hts h0 hu
    subst hvr <;> simp [Dec.readValuePreserved, h0, hu, hts]
  have hne' : (paddedValue ts.bigEndian vr (.i64 l)).length ≠ 0 := by
    rw [hvb, hlen]; cases l with
    | nil => exact absurd rfl hne
    | cons a r => simp
  have key := value_rt_nums ts dict tag vr (.i64 l) 3 (rd64 ts.bigEndian) (enc64 ts.bigEndian) (· < 18446744073709551616)
    (fun v r h => rd64_enc64 _ v h r) (by simp) (fun l => PValue.i64 (l.map (fromTwos 64))) (l.map (twos 64)) hl' hvb hread hne' hsz rest pos
  have hres' := hres
  try dsimp only at hres'
  first
    | exact key
    | (rw [hres'] at key; exact key)

/-- FL / OF values: the IEEE bit patterns read back exactly (the `Display` text is not part of the value) -/
theorem value_rt_f32 (ts : Syntax) (dict : Tag → Option VR) (tag : Tag) (vr : VR) (hvr : vr = .FL ∨ vr = .OF)
    (l : List (Nat × Bytes)) (hl : ∀ x ∈ l, x.1 < 4294967296) (hne : l ≠ [])
    (hsz : (paddedValue ts.bigEndian vr (.f32 l)).length < 4294967295) (rest : Bytes) (pos : Nat) :
    Dec.readValuePreserved ⟨ts, dict, paddedValue ts.bigEndian vr (.f32 l) ++ rest, pos⟩
        ⟨tag, vr, (paddedValue ts.bigEndian vr (.f32 l)).length⟩
      = .ok (.f32 (l.map fun p => (p.1, [])), ⟨ts, dict, rest, pos + (paddedValue ts.bigEndian vr (.f32 l)).length⟩) := by
  have hfm : l.flatMap (fun v => enc32 ts.bigEndian (v.1)) = (l.map (·.1)).flatMap (enc32 ts.bigEndian) := by
    simp [List.flatMap_map]
  have hlen : ((l.map (·.1)).flatMap (enc32 ts.bigEndian)).length = (l.map (·.1)).length * 4 :=
    flatMap_length_mul _ 4 (by simp) _
  have hvb : paddedValue ts.bigEndian vr (.f32 l) = (l.map (·.1)).flatMap (enc32 ts.bigEndian) := by
    rcases hvr with h | h <;> subst h <;>
      simp only [paddedValue, encodePrimitive, hfm, reduceCtorEq, or_self, if_false] <;>
      exact padTo_of_even (by rw [hlen]; omega) _
  have hres : (fun l => PValue.f32 (l.map fun b => (b, []))) (l.map (·.1)) = .f32 (l.map fun p => (p.1, [])) := by
    simp only [List.map_map]; rfl
  have hl' : ∀ x ∈ (l.map (·.1)), (· < 4294967296) x := by
    intro x hx; obtain ⟨a, ha, rfl⟩ := List.mem_map.mp hx; exact hl a ha
  have hread : ∀ (d : Dec) (len : Nat), d.ts = ts → len ≠ 0 → len ≠ undefinedLen →
      d.readValuePreserved ⟨tag, vr, len⟩ = d.readNums len 2 (rd32 ts.bigEndian) (fun l => PValue.f32 (l.map fun b => (b, []))) := by
    intro d len hts h0 hu
    rcases hvr with h | h <;> subst h <;> simp [Dec.readValuePreserved, h0, hu, hts]
  have hne' : (paddedValue ts.bigEndian vr (.f32 l)).length ≠ 0 := by
    rw [hvb, hlen]; cases l with
    | nil => exact absurd rfl hne
    | cons a r => simp
  have key := value_rt_nums ts dict tag vr (.f32 l) 2 (rd32 ts.bigEndian) (enc32 ts.bigEndian) (· < 4294967296)
    (fun v r h => rd32_enc32 _ v h r) (by simp) (fun l => PValue.f32 (l.map fun b => (b, []))) (l.map (·.1)) hl' hvb hread hne' hsz rest pos
  have hres' := hres
  try dsimp only at hres'
  first
    | exact key
    | (rw [hres'] at key; exact key)

/-- FD / OD values: the IEEE bit patterns read back exactly -/
theorem value_rt_f64 (ts : Syntax) (dict : Tag → Option VR) (tag : Tag) (vr : VR) (hvr : vr = .FD ∨ vr = .OD)
    (l : List (Nat × Bytes)) (hl : ∀ x ∈ l, x.1 < 18446744073709551616) (hne : l ≠ [])
    (hsz : (paddedValue ts.bigEndian vr (.f64 l)).length < 4294967295) (rest : Bytes) (pos : Nat) :
    Dec.readValuePreserved ⟨ts, dict, paddedValue ts.bigEndian vr (.f64 l) ++ rest, pos⟩
        ⟨tag, vr, (paddedValue ts.bigEndian vr (.f64 l)).length⟩
      = .ok (.f64 (l.map fun p => (p.1, [])), ⟨ts, dict, rest, pos + (paddedValue ts.bigEndian vr (.f64 l)).length⟩) := by
  have hfm : l.flatMap (fun v => enc64 ts.bigEndian (v.1)) = (l.map (·.1)).flatMap (enc64 ts.bigEndian) := by
    simp [List.flatMap_map]
  have hlen : ((l.map (·.1)).flatMap (enc64 ts.bigEndian)).length = (l.map (·.1)).length * 8 :=
    flatMap_length_mul _ 8 (by simp) _
  have hvb : paddedValue ts.bigEndian vr (.f64 l) = (l.map (·.1)).flatMap (enc64 ts.bigEndian) := by
    rcases hvr with h | h <;> subst h <;>
      simp only [paddedValue, encodePrimitive, hfm, reduceCtorEq, or_self, if_false] <;>
      exact padTo_of_even (by rw [hlen]; omega) _
  have hres : (fun l => PValue.f64 (l.map fun b => (b, []))) (l.map (·.1)) = .f64 (l.map fun p => (p.1, [])) := by
    simp only [List.map_map]; rfl
  have hl' : ∀ x ∈ (l.map (·.1)), (· < 18446744073709551616) x := by
    intro x hx; obtain ⟨a, ha, rfl⟩ := List.mem_map.mp hx; exact hl a ha
  have hread : ∀ (d : Dec) (len : Nat), d.ts = ts → len ≠ 0 → len ≠ undefinedLen →
      d.readValuePreserved ⟨tag, vr, len⟩ = d.readNums len 3 (rd64 ts.bigEndian) (fun l => PValue.f64 (l.map fun b => (b, []))) := by
    intro d len hts h0 hu
    rcases hvr with h | h <;> subst h <;> simp [Dec.readValuePreserved, h0, hu, hts]
  have hne' : (paddedValue ts.bigEndian vr (.f64 l)).length ≠ 0 := by
    rw [hvb, hlen]; cases l with
    | nil => exact absurd rfl hne
    | cons a r => simp
  have key := value_rt_nums ts dict tag vr (.f64 l) 3 (rd64 ts.bigEndian) (enc64 ts.bigEndian) (· < 18446744073709551616)
    (fun v r h => rd64_enc64 _ v h r) (by simp) (fun l => PValue.f64 (l.map fun b => (b, []))) (l.map (·.1)) hl' hvb hread hne' hsz rest pos
  have hres' := hres
  try dsimp only at hres'
  first
    | exact key
    | (rw [hres'] at key; exact key)

end Dicom.C01
