import DicomModel.Model.Build
import DicomModel.Lemmas.Header
import DicomModel.Props.C03
import DicomModel.Props.C04
import DicomModel.Lemmas.NormCanon
import DicomModel.Lemmas.NormKeepCanon
import DicomModel.Lemmas.NormImplicit
import DicomModel.Lemmas.NormOw
/-
C01 — Data set write-then-read round trip in every writable transfer syntax.

Models: `Model/Header`, `Model/Value`, `Model/Writer` (tokens + DataSetWriter), `Model/Reader`
(StatefulDecoder value reading + the DataSetReader state machine), `Model/Build` (build_object).
Deflate is outside the model (`inflate ∘ deflate = id` assumed): the Deflated syntax is Explicit VR LE.

Order (DESIGN §6 C01): value round trips per VR class → one element → flat data sets → trees.
What is proved is listed theorem by theorem; the full tree statement is `TreeRoundTrip` (a `def … : Prop`,
not yet proved — see `level_note`).
-/
set_option linter.unusedSimpArgs false
namespace Dicom.C01
open Dicom.C04

/-! ### fixed-width lists -/

theorem rdMany_flatMap (rd : Bytes → Option (Nat × Bytes)) (enc : Nat → Bytes) (P : Nat → Prop)
    (hrt : ∀ v r, P v → rd (enc v ++ r) = some (v, r)) :
    ∀ (l : List Nat), (∀ v ∈ l, P v) → ∀ r : Bytes, rdMany rd l.length (l.flatMap enc ++ r) = some (l, r)
  | [], _, r => by simp [rdMany]
  | v :: l, hl, r => by
    have h1 := hrt v (l.flatMap enc ++ r) (hl v (by simp))
    have h2 := rdMany_flatMap rd enc P hrt l (fun x hx => hl x (by simp [hx])) r
    simp [rdMany, List.flatMap_cons, List.append_assoc, h1, h2]

theorem flatMap_length_mul {α : Type} (f : α → Bytes) (k : Nat) (h : ∀ a, (f a).length = k) (l : List α) :
    (l.flatMap f).length = l.length * k := C04.flatMap_length_const f k h l

/-- reading back `n` numbers of width `2^shift` bytes written one after the other -/
theorem readNums_rt (d : Dec) (shift : Nat) (rd : Bytes → Option (Nat × Bytes)) (enc : Nat → Bytes)
    (P : Nat → Prop) (hrt : ∀ v r, P v → rd (enc v ++ r) = some (v, r))
    (hw : ∀ a, (enc a).length = 2 ^ shift) (mk : List Nat → PValue)
    (l : List Nat) (hl : ∀ v ∈ l, P v) (rest : Bytes) (hd : d.rest = l.flatMap enc ++ rest) :
    d.readNums (l.flatMap enc).length shift rd mk
      = .ok (mk l, { d with rest := rest, pos := d.pos + (l.flatMap enc).length }) := by
  have hlen : (l.flatMap enc).length = l.length * 2 ^ shift := flatMap_length_mul enc _ hw l
  have hpos : 0 < 2 ^ shift := Nat.pos_of_ne_zero (by simp)
  have hdiv : l.length * 2 ^ shift / 2 ^ shift = l.length := Nat.mul_div_cancel _ hpos
  have hmod : l.length * 2 ^ shift % 2 ^ shift = 0 := Nat.mul_mod_left _ _
  unfold Dec.readNums
  rw [hlen, hdiv, hmod, hd, rdMany_flatMap rd enc P hrt l hl rest]
  simp [takeN]

/-! ### two's complement -/

theorem fromTwos_twos16 (v : Int) (h : -32768 ≤ v ∧ v < 32768) : fromTwos 16 (twos 16 v) = v := by
  unfold fromTwos twos; simp only [show (2:Nat)^16 = 65536 by decide, show (2:Nat)^(16-1) = 32768 by decide]
  split <;> omega
theorem fromTwos_twos32 (v : Int) (h : -2147483648 ≤ v ∧ v < 2147483648) : fromTwos 32 (twos 32 v) = v := by
  unfold fromTwos twos; simp only [show (2:Nat)^32 = 4294967296 by decide, show (2:Nat)^(32-1) = 2147483648 by decide]
  split <;> omega
theorem fromTwos_twos64 (v : Int) (h : -9223372036854775808 ≤ v ∧ v < 9223372036854775808) :
    fromTwos 64 (twos 64 v) = v := by
  unfold fromTwos twos
  simp only [show (2:Nat)^64 = 18446744073709551616 by decide, show (2:Nat)^(64-1) = 9223372036854775808 by decide]
  split <;> omega

theorem twos_lt16 (v : Int) : twos 16 v < 65536 := by unfold twos; simp only [show (2:Nat)^16 = 65536 by decide]; omega
theorem twos_lt32 (v : Int) : twos 32 v < 4294967296 := by
  unfold twos; simp only [show (2:Nat)^32 = 4294967296 by decide]; omega
theorem twos_lt64 (v : Int) : twos 64 v < 18446744073709551616 := by
  unfold twos; simp only [show (2:Nat)^64 = 18446744073709551616 by decide]; omega

/-! ### text -/

def NoBackslash (s : Bytes) : Prop := 0x5C ∉ s

theorem splitBackslash_single {s : Bytes} (h : NoBackslash s) : splitBackslash s = [s] := by
  induction s with
  | nil => rfl
  | cons b r ih =>
    have hb : b ≠ 0x5C := fun e => h (by simp [e])
    have hr : NoBackslash r := fun m => h (by simp [m])
    simp [splitBackslash, hb, ih hr]

theorem splitBackslash_append {s : Bytes} (h : NoBackslash s) (t : Bytes) :
    splitBackslash (s ++ 0x5C :: t) = s :: splitBackslash t := by
  induction s with
  | nil => simp [splitBackslash]
  | cons b r ih =>
    have hb : b ≠ 0x5C := fun e => h (by simp [e])
    have hr : NoBackslash r := fun m => h (by simp [m])
    simp [splitBackslash, hb, ih hr]

/-- splitting a backslash-joined list of backslash-free strings gives the list back -/
theorem splitBackslash_join : ∀ (l : List Bytes), l ≠ [] → (∀ s ∈ l, NoBackslash s) →
    splitBackslash (joinBackslash l) = l
  | [], h, _ => absurd rfl h
  | [x], _, hx => by simpa [joinBackslash] using splitBackslash_single (hx x (by simp))
  | x :: y :: r, _, hx => by
    have := splitBackslash_join (y :: r) (by simp) (fun s hs => hx s (by simp [hs]))
    simp only [joinBackslash]
    rw [splitBackslash_append (hx x (by simp)), this]

/-! ### value round trips (`read_value_preserved` after `encode_primitive_element`) -/

theorem padTo_of_even {bs : Bytes} (h : bs.length % 2 = 0) (p : Nat) : padTo bs p = bs := by
  unfold padTo; split
  · omega
  · rfl

/-- the shape shared by all numeric value round trips: the value field is `l.flatMap enc` (even, non-empty,
defined length) and the VR's reader is `readNums … rd mk` -/
theorem value_rt_nums (ts : Syntax) (dict : Tag → Option VR) (tag : Tag) (vr : VR) (v : PValue)
    (shift : Nat) (rd : Bytes → Option (Nat × Bytes)) (enc : Nat → Bytes) (P : Nat → Prop)
    (hrt : ∀ v r, P v → rd (enc v ++ r) = some (v, r)) (hw : ∀ a, (enc a).length = 2 ^ shift)
    (mk : List Nat → PValue) (l : List Nat) (hl : ∀ x ∈ l, P x)
    (hvb : paddedValue ts.bigEndian vr v = l.flatMap enc)
    (hread : ∀ (d : Dec) (len : Nat), d.ts = ts → len ≠ 0 → len ≠ undefinedLen →
      d.readValuePreserved ⟨tag, vr, len⟩ = d.readNums len shift rd mk)
    (hne : (paddedValue ts.bigEndian vr v).length ≠ 0)
    (hsz : (paddedValue ts.bigEndian vr v).length < 4294967295) (rest : Bytes) (pos : Nat) :
    Dec.readValuePreserved ⟨ts, dict, paddedValue ts.bigEndian vr v ++ rest, pos⟩
        ⟨tag, vr, (paddedValue ts.bigEndian vr v).length⟩
      = .ok (mk l, ⟨ts, dict, rest, pos + (paddedValue ts.bigEndian vr v).length⟩) := by
  rw [hread _ _ rfl hne (by unfold undefinedLen; omega)]
  rw [hvb]
  exact readNums_rt ⟨ts, dict, l.flatMap enc ++ rest, pos⟩ shift rd enc P hrt hw mk l hl rest rfl

/-- US / OW values (unsigned 16-bit) read back exactly, in both byte orders -/
theorem value_rt_u16 (ts : Syntax) (dict : Tag → Option VR) (tag : Tag) (vr : VR) (hvr : vr = .US ∨ vr = .OW)
    (l : List Nat) (hl : ∀ x ∈ l, x < 65536) (hne : l ≠ [])
    (hsz : (paddedValue ts.bigEndian vr (.u16 l)).length < 4294967295) (rest : Bytes) (pos : Nat) :
    Dec.readValuePreserved ⟨ts, dict, paddedValue ts.bigEndian vr (.u16 l) ++ rest, pos⟩
        ⟨tag, vr, (paddedValue ts.bigEndian vr (.u16 l)).length⟩
      = .ok (.u16 l, ⟨ts, dict, rest, pos + (paddedValue ts.bigEndian vr (.u16 l)).length⟩) := by
  have hlen : (l.flatMap (enc16 ts.bigEndian)).length = l.length * 2 := flatMap_length_mul _ 2 (by simp) l
  have hvb : paddedValue ts.bigEndian vr (.u16 l) = l.flatMap (enc16 ts.bigEndian) := by
    rcases hvr with h | h <;> subst h <;>
      simp [paddedValue, encodePrimitive, padTo_of_even (show (l.flatMap (enc16 ts.bigEndian)).length % 2 = 0 by omega)]
  refine value_rt_nums ts dict tag vr _ 1 (rd16 ts.bigEndian) (enc16 ts.bigEndian) (· < 65536)
    (fun v r h => rd16_enc16 _ v h r) (by simp) .u16 l hl hvb ?_ ?_ hsz rest pos
  · intro d len hts h0 hu
    rcases hvr with h | h <;> subst h <;> simp [Dec.readValuePreserved, h0, hu, hts]
  · rw [hvb, hlen]; cases l with
    | nil => exact absurd rfl hne
    | cons a r => simp


/-- UL / OL values (unsigned 32-bit) read back exactly -/
theorem value_rt_u32 (ts : Syntax) (dict : Tag → Option VR) (tag : Tag) (vr : VR) (hvr : vr = .UL ∨ vr = .OL)
    (l : List Nat) (hl : ∀ x ∈ l, x < 4294967296) (hne : l ≠ [])
    (hsz : (paddedValue ts.bigEndian vr (.u32 l)).length < 4294967295) (rest : Bytes) (pos : Nat) :
    Dec.readValuePreserved ⟨ts, dict, paddedValue ts.bigEndian vr (.u32 l) ++ rest, pos⟩
        ⟨tag, vr, (paddedValue ts.bigEndian vr (.u32 l)).length⟩
      = .ok (.u32 l, ⟨ts, dict, rest, pos + (paddedValue ts.bigEndian vr (.u32 l)).length⟩) := by
  have hfm : l.flatMap (fun v => enc32 ts.bigEndian (v)) = (l).flatMap (enc32 ts.bigEndian) := by
    simp [List.flatMap_map]
  have hlen : ((l).flatMap (enc32 ts.bigEndian)).length = (l).length * 4 :=
    flatMap_length_mul _ 4 (by simp) _
  have hvb : paddedValue ts.bigEndian vr (.u32 l) = (l).flatMap (enc32 ts.bigEndian) := by
    rcases hvr with h | h <;> subst h <;>
      simp only [paddedValue, encodePrimitive, hfm, reduceCtorEq, or_self, if_false] <;>
      exact padTo_of_even (by rw [hlen]; omega) _
  have hres : (PValue.u32) (l) = .u32 l := by
    rfl
  have hl' : ∀ x ∈ (l), (· < 4294967296) x := by
    exact hl
  have hread : ∀ (d : Dec) (len : Nat), d.ts = ts → len ≠ 0 → len ≠ undefinedLen →
      d.readValuePreserved ⟨tag, vr, len⟩ = d.readNums len 2 (rd32 ts.bigEndian) (PValue.u32) := by
    intro d len hts h0 hu
    rcases hvr with h | h <;> subst h <;> simp [Dec.readValuePreserved, h0, hu, hts]
  have hne' : (paddedValue ts.bigEndian vr (.u32 l)).length ≠ 0 := by
    rw [hvb, hlen]; cases l with
    | nil => exact absurd rfl hne
    | cons a r => simp
  have key := value_rt_nums ts dict tag vr (.u32 l) 2 (rd32 ts.bigEndian) (enc32 ts.bigEndian) (· < 4294967296)
    (fun v r h => rd32_enc32 _ v h r) (by simp) (PValue.u32) (l) hl' hvb hread hne' hsz rest pos
  have hres' := hres
  try dsimp only at hres'
  first
    | exact key
    | (rw [hres'] at key; exact key)

/-- UV / OV values (unsigned 64-bit) read back exactly -/
theorem value_rt_u64 (ts : Syntax) (dict : Tag → Option VR) (tag : Tag) (vr : VR) (hvr : vr = .UV ∨ vr = .OV)
    (l : List Nat) (hl : ∀ x ∈ l, x < 18446744073709551616) (hne : l ≠ [])
    (hsz : (paddedValue ts.bigEndian vr (.u64 l)).length < 4294967295) (rest : Bytes) (pos : Nat) :
    Dec.readValuePreserved ⟨ts, dict, paddedValue ts.bigEndian vr (.u64 l) ++ rest, pos⟩
        ⟨tag, vr, (paddedValue ts.bigEndian vr (.u64 l)).length⟩
      = .ok (.u64 l, ⟨ts, dict, rest, pos + (paddedValue ts.bigEndian vr (.u64 l)).length⟩) := by
  have hfm : l.flatMap (fun v => enc64 ts.bigEndian (v)) = (l).flatMap (enc64 ts.bigEndian) := by
    simp [List.flatMap_map]
  have hlen : ((l).flatMap (enc64 ts.bigEndian)).length = (l).length * 8 :=
    flatMap_length_mul _ 8 (by simp) _
  have hvb : paddedValue ts.bigEndian vr (.u64 l) = (l).flatMap (enc64 ts.bigEndian) := by
    rcases hvr with h | h <;> subst h <;>
      simp only [paddedValue, encodePrimitive, hfm, reduceCtorEq, or_self, if_false] <;>
      exact padTo_of_even (by rw [hlen]; omega) _
  have hres : (PValue.u64) (l) = .u64 l := by
    rfl
  have hl' : ∀ x ∈ (l), (· < 18446744073709551616) x := by
    exact hl
  have hread : ∀ (d : Dec) (len : Nat), d.ts = ts → len ≠ 0 → len ≠ undefinedLen →
      d.readValuePreserved ⟨tag, vr, len⟩ = d.readNums len 3 (rd64 ts.bigEndian) (PValue.u64) := by
    intro d len hts h0 hu
    rcases hvr with h | h <;> subst h <;> simp [Dec.readValuePreserved, h0, hu, hts]
  have hne' : (paddedValue ts.bigEndian vr (.u64 l)).length ≠ 0 := by
    rw [hvb, hlen]; cases l with
    | nil => exact absurd rfl hne
    | cons a r => simp
  have key := value_rt_nums ts dict tag vr (.u64 l) 3 (rd64 ts.bigEndian) (enc64 ts.bigEndian) (· < 18446744073709551616)
    (fun v r h => rd64_enc64 _ v h r) (by simp) (PValue.u64) (l) hl' hvb hread hne' hsz rest pos
  have hres' := hres
  try dsimp only at hres'
  first
    | exact key
    | (rw [hres'] at key; exact key)

/-- SS values (signed 16-bit, two's complement) read back exactly -/
theorem value_rt_i16 (ts : Syntax) (dict : Tag → Option VR) (tag : Tag) (vr : VR) (hvr : vr = .SS)
    (l : List Int) (hl : ∀ x ∈ l, -32768 ≤ x ∧ x < 32768) (hne : l ≠ [])
    (hsz : (paddedValue ts.bigEndian vr (.i16 l)).length < 4294967295) (rest : Bytes) (pos : Nat) :
    Dec.readValuePreserved ⟨ts, dict, paddedValue ts.bigEndian vr (.i16 l) ++ rest, pos⟩
        ⟨tag, vr, (paddedValue ts.bigEndian vr (.i16 l)).length⟩
      = .ok (.i16 l, ⟨ts, dict, rest, pos + (paddedValue ts.bigEndian vr (.i16 l)).length⟩) := by
  have hfm : l.flatMap (fun v => enc16 ts.bigEndian (twos 16 v)) = (l.map (twos 16)).flatMap (enc16 ts.bigEndian) := by
    simp [List.flatMap_map]
  have hlen : ((l.map (twos 16)).flatMap (enc16 ts.bigEndian)).length = (l.map (twos 16)).length * 2 :=
    flatMap_length_mul _ 2 (by simp) _
  have hvb : paddedValue ts.bigEndian vr (.i16 l) = (l.map (twos 16)).flatMap (enc16 ts.bigEndian) := by
    subst hvr <;>
      simp only [paddedValue, encodePrimitive, hfm, reduceCtorEq, or_self, if_false] <;>
      exact padTo_of_even (by rw [hlen]; omega) _
  have hres : (fun l => PValue.i16 (l.map (fromTwos 16))) (l.map (twos 16)) = .i16 l := by
    simp only [List.map_map]; congr 1; rw [List.map_congr_left (g := id)]; simp; intro a ha; exact fromTwos_twos16 a (hl a ha)
  have hl' : ∀ x ∈ (l.map (twos 16)), (· < 65536) x := by
    intro x hx; obtain ⟨a, _, rfl⟩ := List.mem_map.mp hx; exact twos_lt16 a
  have hread : ∀ (d : Dec) (len : Nat), d.ts = ts → len ≠ 0 → len ≠ undefinedLen →
      d.readValuePreserved ⟨tag, vr, len⟩ = d.readNums len 1 (rd16 ts.bigEndian) (fun l => PValue.i16 (l.map (fromTwos 16))) := by
    intro d len hts h0 hu
    subst hvr <;> simp [Dec.readValuePreserved, h0, hu, hts]
  have hne' : (paddedValue ts.bigEndian vr (.i16 l)).length ≠ 0 := by
    rw [hvb, hlen]; cases l with
    | nil => exact absurd rfl hne
    | cons a r => simp
  have key := value_rt_nums ts dict tag vr (.i16 l) 1 (rd16 ts.bigEndian) (enc16 ts.bigEndian) (· < 65536)
    (fun v r h => rd16_enc16 _ v h r) (by simp) (fun l => PValue.i16 (l.map (fromTwos 16))) (l.map (twos 16)) hl' hvb hread hne' hsz rest pos
  have hres' := hres
  try dsimp only at hres'
  first
    | exact key
    | (rw [hres'] at key; exact key)

/-- SL values (signed 32-bit) read back exactly -/
theorem value_rt_i32 (ts : Syntax) (dict : Tag → Option VR) (tag : Tag) (vr : VR) (hvr : vr = .SL)
    (l : List Int) (hl : ∀ x ∈ l, -2147483648 ≤ x ∧ x < 2147483648) (hne : l ≠ [])
    (hsz : (paddedValue ts.bigEndian vr (.i32 l)).length < 4294967295) (rest : Bytes) (pos : Nat) :
    Dec.readValuePreserved ⟨ts, dict, paddedValue ts.bigEndian vr (.i32 l) ++ rest, pos⟩
        ⟨tag, vr, (paddedValue ts.bigEndian vr (.i32 l)).length⟩
      = .ok (.i32 l, ⟨ts, dict, rest, pos + (paddedValue ts.bigEndian vr (.i32 l)).length⟩) := by
  have hfm : l.flatMap (fun v => enc32 ts.bigEndian (twos 32 v)) = (l.map (twos 32)).flatMap (enc32 ts.bigEndian) := by
    simp [List.flatMap_map]
  have hlen : ((l.map (twos 32)).flatMap (enc32 ts.bigEndian)).length = (l.map (twos 32)).length * 4 :=
    flatMap_length_mul _ 4 (by simp) _
  have hvb : paddedValue ts.bigEndian vr (.i32 l) = (l.map (twos 32)).flatMap (enc32 ts.bigEndian) := by
    subst hvr <;>
      simp only [paddedValue, encodePrimitive, hfm, reduceCtorEq, or_self, if_false] <;>
      exact padTo_of_even (by rw [hlen]; omega) _
  have hres : (fun l => PValue.i32 (l.map (fromTwos 32))) (l.map (twos 32)) = .i32 l := by
    simp only [List.map_map]; congr 1; rw [List.map_congr_left (g := id)]; simp; intro a ha; exact fromTwos_twos32 a (hl a ha)
  have hl' : ∀ x ∈ (l.map (twos 32)), (· < 4294967296) x := by
    intro x hx; obtain ⟨a, _, rfl⟩ := List.mem_map.mp hx; exact twos_lt32 a
  have hread : ∀ (d : Dec) (len : Nat), d.ts = ts → len ≠ 0 → len ≠ undefinedLen →
      d.readValuePreserved ⟨tag, vr, len⟩ = d.readNums len 2 (rd32 ts.bigEndian) (fun l => PValue.i32 (l.map (fromTwos 32))) := by
    intro d len hts h0 hu
    subst hvr <;> simp [Dec.readValuePreserved, h0, hu, hts]
  have hne' : (paddedValue ts.bigEndian vr (.i32 l)).length ≠ 0 := by
    rw [hvb, hlen]; cases l with
    | nil => exact absurd rfl hne
    | cons a r => simp
  have key := value_rt_nums ts dict tag vr (.i32 l) 2 (rd32 ts.bigEndian) (enc32 ts.bigEndian) (· < 4294967296)
    (fun v r h => rd32_enc32 _ v h r) (by simp) (fun l => PValue.i32 (l.map (fromTwos 32))) (l.map (twos 32)) hl' hvb hread hne' hsz rest pos
  have hres' := hres
  try dsimp only at hres'
  first
    | exact key
    | (rw [hres'] at key; exact key)

/-- SV values (signed 64-bit) read back exactly -/
theorem value_rt_i64 (ts : Syntax) (dict : Tag → Option VR) (tag : Tag) (vr : VR) (hvr : vr = .SV)
    (l : List Int) (hl : ∀ x ∈ l, -9223372036854775808 ≤ x ∧ x < 9223372036854775808) (hne : l ≠ [])
    (hsz : (paddedValue ts.bigEndian vr (.i64 l)).length < 4294967295) (rest : Bytes) (pos : Nat) :
    Dec.readValuePreserved ⟨ts, dict, paddedValue ts.bigEndian vr (.i64 l) ++ rest, pos⟩
        ⟨tag, vr, (paddedValue ts.bigEndian vr (.i64 l)).length⟩
      = .ok (.i64 l, ⟨ts, dict, rest, pos + (paddedValue ts.bigEndian vr (.i64 l)).length⟩) := by
  have hfm : l.flatMap (fun v => enc64 ts.bigEndian (twos 64 v)) = (l.map (twos 64)).flatMap (enc64 ts.bigEndian) := by
    simp [List.flatMap_map]
  have hlen : ((l.map (twos 64)).flatMap (enc64 ts.bigEndian)).length = (l.map (twos 64)).length * 8 :=
    flatMap_length_mul _ 8 (by simp) _
  have hvb : paddedValue ts.bigEndian vr (.i64 l) = (l.map (twos 64)).flatMap (enc64 ts.bigEndian) := by
    subst hvr <;>
      simp only [paddedValue, encodePrimitive, hfm, reduceCtorEq, or_self, if_false] <;>
      exact padTo_of_even (by rw [hlen]; omega) _
  have hres : (fun l => PValue.i64 (l.map (fromTwos 64))) (l.map (twos 64)) = .i64 l := by
    simp only [List.map_map]; congr 1; rw [List.map_congr_left (g := id)]; simp; intro a ha; exact fromTwos_twos64 a (hl a ha)
  have hl' : ∀ x ∈ (l.map (twos 64)), (· < 18446744073709551616) x := by
    intro x hx; obtain ⟨a, _, rfl⟩ := List.mem_map.mp hx; exact twos_lt64 a
  have hread : ∀ (d : Dec) (len : Nat), d.ts = ts → len ≠ 0 → len ≠ undefinedLen →
      d.readValuePreserved ⟨tag, vr, len⟩ = d.readNums len 3 (rd64 ts.bigEndian) (fun l => PValue.i64 (l.map (fromTwos 64))) := by
    intro d len hts h0 hu
    subst hvr <;> simp [Dec.readValuePreserved, h0, hu, hts]
  have hne' : (paddedValue ts.bigEndian vr (.i64 l)).length ≠ 0 := by
    rw [hvb, hlen]; cases l with
    | nil => exact absurd rfl hne
    | cons a r => simp
  have key := value_rt_nums ts dict tag vr (.i64 l) 3 (rd64 ts.bigEndian) (enc64 ts.bigEndian) (· < 18446744073709551616)
    (fun v r h => rd64_enc64 _ v h r) (by simp) (fun l => PValue.i64 (l.map (fromTwos 64))) (l.map (twos 64)) hl' hvb hread hne' hsz rest pos
  have hres' := hres
  try dsimp only at hres'
  first
    | exact key
    | (rw [hres'] at key; exact key)

/-- FL / OF values: the IEEE bit patterns read back exactly (the `Display` text is not part of the value) -/
theorem value_rt_f32 (ts : Syntax) (dict : Tag → Option VR) (tag : Tag) (vr : VR) (hvr : vr = .FL ∨ vr = .OF)
    (l : List (Nat × Bytes)) (hl : ∀ x ∈ l, x.1 < 4294967296) (hne : l ≠ [])
    (hsz : (paddedValue ts.bigEndian vr (.f32 l)).length < 4294967295) (rest : Bytes) (pos : Nat) :
    Dec.readValuePreserved ⟨ts, dict, paddedValue ts.bigEndian vr (.f32 l) ++ rest, pos⟩
        ⟨tag, vr, (paddedValue ts.bigEndian vr (.f32 l)).length⟩
      = .ok (.f32 (l.map fun p => (p.1, [])), ⟨ts, dict, rest, pos + (paddedValue ts.bigEndian vr (.f32 l)).length⟩) := by
  have hfm : l.flatMap (fun v => enc32 ts.bigEndian (v.1)) = (l.map (·.1)).flatMap (enc32 ts.bigEndian) := by
    simp [List.flatMap_map]
  have hlen : ((l.map (·.1)).flatMap (enc32 ts.bigEndian)).length = (l.map (·.1)).length * 4 :=
    flatMap_length_mul _ 4 (by simp) _
  have hvb : paddedValue ts.bigEndian vr (.f32 l) = (l.map (·.1)).flatMap (enc32 ts.bigEndian) := by
    rcases hvr with h | h <;> subst h <;>
      simp only [paddedValue, encodePrimitive, hfm, reduceCtorEq, or_self, if_false] <;>
      exact padTo_of_even (by rw [hlen]; omega) _
  have hres : (fun l => PValue.f32 (l.map fun b => (b, []))) (l.map (·.1)) = .f32 (l.map fun p => (p.1, [])) := by
    simp only [List.map_map]; rfl
  have hl' : ∀ x ∈ (l.map (·.1)), (· < 4294967296) x := by
    intro x hx; obtain ⟨a, ha, rfl⟩ := List.mem_map.mp hx; exact hl a ha
  have hread : ∀ (d : Dec) (len : Nat), d.ts = ts → len ≠ 0 → len ≠ undefinedLen →
      d.readValuePreserved ⟨tag, vr, len⟩ = d.readNums len 2 (rd32 ts.bigEndian) (fun l => PValue.f32 (l.map fun b => (b, []))) := by
    intro d len hts h0 hu
    rcases hvr with h | h <;> subst h <;> simp [Dec.readValuePreserved, h0, hu, hts]
  have hne' : (paddedValue ts.bigEndian vr (.f32 l)).length ≠ 0 := by
    rw [hvb, hlen]; cases l with
    | nil => exact absurd rfl hne
    | cons a r => simp
  have key := value_rt_nums ts dict tag vr (.f32 l) 2 (rd32 ts.bigEndian) (enc32 ts.bigEndian) (· < 4294967296)
    (fun v r h => rd32_enc32 _ v h r) (by simp) (fun l => PValue.f32 (l.map fun b => (b, []))) (l.map (·.1)) hl' hvb hread hne' hsz rest pos
  have hres' := hres
  try dsimp only at hres'
  first
    | exact key
    | (rw [hres'] at key; exact key)

/-- FD / OD values: the IEEE bit patterns read back exactly -/
theorem value_rt_f64 (ts : Syntax) (dict : Tag → Option VR) (tag : Tag) (vr : VR) (hvr : vr = .FD ∨ vr = .OD)
    (l : List (Nat × Bytes)) (hl : ∀ x ∈ l, x.1 < 18446744073709551616) (hne : l ≠ [])
    (hsz : (paddedValue ts.bigEndian vr (.f64 l)).length < 4294967295) (rest : Bytes) (pos : Nat) :
    Dec.readValuePreserved ⟨ts, dict, paddedValue ts.bigEndian vr (.f64 l) ++ rest, pos⟩
        ⟨tag, vr, (paddedValue ts.bigEndian vr (.f64 l)).length⟩
      = .ok (.f64 (l.map fun p => (p.1, [])), ⟨ts, dict, rest, pos + (paddedValue ts.bigEndian vr (.f64 l)).length⟩) := by
  have hfm : l.flatMap (fun v => enc64 ts.bigEndian (v.1)) = (l.map (·.1)).flatMap (enc64 ts.bigEndian) := by
    simp [List.flatMap_map]
  have hlen : ((l.map (·.1)).flatMap (enc64 ts.bigEndian)).length = (l.map (·.1)).length * 8 :=
    flatMap_length_mul _ 8 (by simp) _
  have hvb : paddedValue ts.bigEndian vr (.f64 l) = (l.map (·.1)).flatMap (enc64 ts.bigEndian) := by
    rcases hvr with h | h <;> subst h <;>
      simp only [paddedValue, encodePrimitive, hfm, reduceCtorEq, or_self, if_false] <;>
      exact padTo_of_even (by rw [hlen]; omega) _
  have hres : (fun l => PValue.f64 (l.map fun b => (b, []))) (l.map (·.1)) = .f64 (l.map fun p => (p.1, [])) := by
    simp only [List.map_map]; rfl
  have hl' : ∀ x ∈ (l.map (·.1)), (· < 18446744073709551616) x := by
    intro x hx; obtain ⟨a, ha, rfl⟩ := List.mem_map.mp hx; exact hl a ha
  have hread : ∀ (d : Dec) (len : Nat), d.ts = ts → len ≠ 0 → len ≠ undefinedLen →
      d.readValuePreserved ⟨tag, vr, len⟩ = d.readNums len 3 (rd64 ts.bigEndian) (fun l => PValue.f64 (l.map fun b => (b, []))) := by
    intro d len hts h0 hu
    rcases hvr with h | h <;> subst h <;> simp [Dec.readValuePreserved, h0, hu, hts]
  have hne' : (paddedValue ts.bigEndian vr (.f64 l)).length ≠ 0 := by
    rw [hvb, hlen]; cases l with
    | nil => exact absurd rfl hne
    | cons a r => simp
  have key := value_rt_nums ts dict tag vr (.f64 l) 3 (rd64 ts.bigEndian) (enc64 ts.bigEndian) (· < 18446744073709551616)
    (fun v r h => rd64_enc64 _ v h r) (by simp) (fun l => PValue.f64 (l.map fun b => (b, []))) (l.map (·.1)) hl' hvb hread hne' hsz rest pos
  have hres' := hres
  try dsimp only at hres'
  first
    | exact key
    | (rw [hres'] at key; exact key)

/-! ### bytes, text and tags -/

theorem takeN_append' (a r : Bytes) : takeN a.length (a ++ r) = some (a, r) := by simp [takeN]

/-- OB / UN values: the bytes come back, followed by the single NUL padding byte when their number is odd
("trailing padding" of the property statement) -/
theorem value_rt_u8 (ts : Syntax) (dict : Tag → Option VR) (tag : Tag) (vr : VR) (hvr : vr = .OB ∨ vr = .UN)
    (l : List Nat) (hne : l ≠ []) (hsz : (paddedValue ts.bigEndian vr (.u8 l)).length < 4294967295)
    (rest : Bytes) (pos : Nat) :
    paddedValue ts.bigEndian vr (.u8 l) = padTo l 0 ∧
    Dec.readValuePreserved ⟨ts, dict, paddedValue ts.bigEndian vr (.u8 l) ++ rest, pos⟩
        ⟨tag, vr, (paddedValue ts.bigEndian vr (.u8 l)).length⟩
      = .ok (.u8 (padTo l 0), ⟨ts, dict, rest, pos + (paddedValue ts.bigEndian vr (.u8 l)).length⟩) := by
  have hvb : paddedValue ts.bigEndian vr (.u8 l) = padTo l 0 := by
    rcases hvr with h | h <;> subst h <;> simp [paddedValue, encodePrimitive, binPad]
  refine ⟨hvb, ?_⟩
  rw [hvb] at hsz ⊢
  have h0 : (padTo l 0).length ≠ 0 := by
    rw [C04.padTo_length]; unfold C04.evenUp
    cases l with
    | nil => exact absurd rfl hne
    | cons a r => simp
  have hu : (padTo l 0).length ≠ undefinedLen := by unfold undefinedLen; omega
  rcases hvr with h | h <;> subst h <;>
    simp [Dec.readValuePreserved, h0, hu, Dec.take, takeN_append']

/-- the encoded text of a textual value -/
def textOf : PValue → Option Bytes
  | .str s => some s
  | .strs l => some (joinBackslash l)
  | _ => none

def strsVrs : List VR := [.AE, .AS, .PN, .SH, .LO, .UC, .UI, .IS, .DS, .DA, .TM, .DT, .CS]
def strVrs : List VR := [.UT, .ST, .UR, .LT]

theorem textDecode_ascii {s : Bytes} (h : C04.Ascii s) : textDecode s = some s := by
  unfold textDecode
  have : s.all (· < 128) = true := by
    rw [List.all_eq_true]; intro b hb; simpa using h b hb
  simp [this]

theorem textDecodeAll_ascii : ∀ {l : List Bytes}, (∀ s ∈ l, C04.Ascii s) → textDecodeAll l = some l
  | [], _ => rfl
  | s :: r, h => by
    have h1 := textDecode_ascii (h s (by simp))
    have h2 := textDecodeAll_ascii (l := r) (fun x hx => h x (by simp [hx]))
    simp [textDecodeAll, h1, h2]

theorem splitBackslash_ascii : ∀ {s : Bytes}, C04.Ascii s → ∀ p ∈ splitBackslash s, C04.Ascii p := by
  intro s
  induction s with
  | nil => intro _ p hp; simp [splitBackslash] at hp; subst hp; intro b hb; cases hb
  | cons b r ih =>
    intro h p hp
    have hr : C04.Ascii r := fun x hx => h x (by simp [hx])
    have hb : b < 128 := h b (by simp)
    simp only [splitBackslash] at hp
    split at hp
    · rcases List.mem_cons.mp hp with h1 | h1
      · subst h1; intro x hx; cases hx
      · exact ih hr p h1
    · split at hp
      · rename_i x xs hx
        have hxs := ih hr
        rw [hx] at hxs
        rcases List.mem_cons.mp hp with h1 | h1
        · subst h1
          intro y hy
          rcases List.mem_cons.mp hy with h2 | h2
          · subst h2; exact hb
          · exact hxs x (by simp) y h2
        · exact hxs p (by simp [h1])
      · simp at hp; subst hp
        intro y hy; simp at hy; subst hy; exact hb

theorem padTo_ascii {s : Bytes} (h : C04.Ascii s) (p : Nat) (hp : p < 128) : C04.Ascii (padTo s p) := by
  unfold padTo; split
  · intro b hb
    rcases List.mem_append.mp hb with h1 | h1
    · exact h b h1
    · simp at h1; subst h1; exact hp
  · exact h

theorem textPad_lt (vr : VR) : textPad vr < 128 := by unfold textPad; split <;> decide

/-- **Text values** (`Str` or `Strs`, default repertoire) under the multi-valued text VRs come back as the
components of the written text, the last one carrying the padding byte (space; NUL for UI) when the text
length is odd; under UT / ST / UR / LT as the single padded string. -/
theorem value_rt_text (ts : Syntax) (dict : Tag → Option VR) (tag : Tag) (vr : VR) (v : PValue) (tb : Bytes)
    (htb : textOf v = some tb) (hascii : C04.Ascii tb) (hne : tb ≠ [])
    (hsz : (padTo tb (textPad vr)).length < 4294967295) (rest : Bytes) (pos : Nat) :
    paddedValue ts.bigEndian vr v = padTo tb (textPad vr) ∧
    (vr ∈ strsVrs →
      Dec.readValuePreserved ⟨ts, dict, padTo tb (textPad vr) ++ rest, pos⟩ ⟨tag, vr, (padTo tb (textPad vr)).length⟩
        = .ok (.strs (splitBackslash (padTo tb (textPad vr))), ⟨ts, dict, rest, pos + (padTo tb (textPad vr)).length⟩)) ∧
    (vr ∈ strVrs →
      Dec.readValuePreserved ⟨ts, dict, padTo tb (textPad vr) ++ rest, pos⟩ ⟨tag, vr, (padTo tb (textPad vr)).length⟩
        = .ok (.str (padTo tb (textPad vr)), ⟨ts, dict, rest, pos + (padTo tb (textPad vr)).length⟩)) := by
  have hvb : paddedValue ts.bigEndian vr v = padTo tb (textPad vr) := by
    cases v <;> simp [textOf] at htb <;> subst htb <;> rfl
  have hpa := padTo_ascii hascii (textPad vr) (textPad_lt vr)
  have h0 : (padTo tb (textPad vr)).length ≠ 0 := by
    rw [C04.padTo_length]; unfold C04.evenUp
    cases tb with
    | nil => exact absurd rfl hne
    | cons a r => simp
  have hu : (padTo tb (textPad vr)).length ≠ undefinedLen := by unfold undefinedLen; omega
  have hdec := textDecodeAll_ascii (splitBackslash_ascii hpa)
  have hdec1 := textDecode_ascii hpa
  refine ⟨hvb, ?_, ?_⟩
  · intro hm
    simp only [strsVrs, List.mem_cons, List.mem_nil_iff, or_false] at hm
    rcases hm with h | h | h | h | h | h | h | h | h | h | h | h | h <;> subst h <;>
      simp [Dec.readValuePreserved, h0, hu, Dec.take, takeN_append', hdec]
  · intro hm
    simp only [strVrs, List.mem_cons, List.mem_nil_iff, or_false] at hm
    rcases hm with h | h | h | h <;> subst h <;>
      simp [Dec.readValuePreserved, h0, hu, Dec.take, takeN_append', hdec1]

/-- reading the components back: a list of backslash-free strings whose joined length is even
(no padding) comes back *exactly* -/
theorem value_rt_strs_even (l : List Bytes) (hl : l ≠ []) (hnb : ∀ s ∈ l, NoBackslash s)
    (heven : (joinBackslash l).length % 2 = 0) (pad : Nat) :
    splitBackslash (padTo (joinBackslash l) pad) = l := by
  rw [padTo_of_even heven, splitBackslash_join l hl hnb]

/-- the last component with the padding byte appended -/
def padLast : List Bytes → Nat → List Bytes
  | [], _ => []
  | [x], p => [x ++ [p]]
  | x :: y :: r, p => x :: padLast (y :: r) p

theorem joinBackslash_padLast : ∀ (l : List Bytes), l ≠ [] → ∀ p, joinBackslash l ++ [p] = joinBackslash (padLast l p)
  | [], h, _ => absurd rfl h
  | [x], _, p => rfl
  | x :: y :: r, _, p => by
    have := joinBackslash_padLast (y :: r) (by simp) p
    cases r with
    | nil => simp [joinBackslash, padLast]
    | cons z r' =>
      simp only [joinBackslash, padLast, List.append_assoc, List.cons_append] at this ⊢
      rw [this]

theorem padLast_ne : ∀ (l : List Bytes) (p : Nat), l ≠ [] → padLast l p ≠ []
  | [], _, h => absurd rfl h
  | [x], _, _ => by simp [padLast]
  | x :: y :: r, _, _ => by simp [padLast]

theorem padLast_noBackslash : ∀ (l : List Bytes) (p : Nat), p ≠ 0x5C → (∀ s ∈ l, NoBackslash s) →
    ∀ s ∈ padLast l p, NoBackslash s
  | [], _, _, _ => by simp [padLast]
  | [x], p, hp, h => by
    intro s hs; simp [padLast] at hs; subst hs
    intro hm
    rcases List.mem_append.mp hm with h1 | h1
    · exact h x (by simp) h1
    · simp at h1; exact hp h1.symm
  | x :: y :: r, p, hp, h => by
    intro s hs
    simp only [padLast, List.mem_cons] at hs
    rcases hs with h1 | h1
    · subst h1; exact h s (by simp)
    · exact padLast_noBackslash (y :: r) p hp (fun t ht => h t (by simp [ht])) s (by simpa using h1)

/-- … and with an odd joined length the components come back with the padding byte appended to the
last one only (the documented normalisation: trailing padding) -/
theorem value_rt_strs_odd (l : List Bytes) (hl : l ≠ []) (hnb : ∀ s ∈ l, NoBackslash s)
    (hodd : (joinBackslash l).length % 2 = 1) (pad : Nat) (hp : pad ≠ 0x5C) :
    splitBackslash (padTo (joinBackslash l) pad) = padLast l pad := by
  have : padTo (joinBackslash l) pad = joinBackslash l ++ [pad] := by simp [padTo, hodd]
  rw [this, joinBackslash_padLast l hl, splitBackslash_join _ (padLast_ne l pad hl) (padLast_noBackslash l pad hp hnb)]

/-! ### one element: `encode_primitive_element` then `decode_header` + `read_value_preserved` -/

/-- an empty value (length 0) reads back as `Empty`, whatever the VR -/
theorem value_rt_empty (d : Dec) (tag : Tag) (vr : VR) :
    d.readValuePreserved ⟨tag, vr, 0⟩ = .ok (.empty, d) := by
  simp [Dec.readValuePreserved]

/-- what reading the value field `vb` under `vr` yields, for any continuation and position -/
def ValueReads (ts : Syntax) (tag : Tag) (vr : VR) (vb : Bytes) (v' : PValue) : Prop :=
  ∀ (dict : Tag → Option VR) (rest : Bytes) (pos : Nat),
    Dec.readValuePreserved ⟨ts, dict, vb ++ rest, pos⟩ ⟨tag, vr, vb.length⟩
      = .ok (v', ⟨ts, dict, rest, pos + vb.length⟩)

/-- **Explicit VR, one primitive element.** What `encode_primitive_element` appended to the output is
read back by `decode_header` as the same tag and VR with the exact (padded, even) value length, and by
`read_value_preserved` as `v'` — for any following bytes, leaving them untouched, and with the position
advanced by exactly the number of bytes written (`hnow`: the value is not bytes under OW, which the
encoder re-packs into words first). `ValueReads` is discharged per VR class by the
`value_rt_*` theorems above (`v'` = the value up to the documented trailing padding). -/
theorem elem_rt_explicit (ts : Syntax) (hts : ts.explicit = true) (e e' : Enc) (hets : e.ts = ts)
    (de : ElemHeader) (v v' : PValue) (ht : de.tag.Valid) (hg : de.tag.group ≠ 0xFFFE)
    (hascii : C04.ValueAscii v) (hsize : (paddedValue ts.bigEndian de.vr v).length < 4294967295)
    (hnow : owWords de.vr v = v) (hw0 : e.encodePrimitiveElement de v = .ok e')
    (hv : ValueReads ts de.tag de.vr (paddedValue ts.bigEndian de.vr v) v') :
    ∃ bs, e'.out = e.out ++ bs ∧ ∀ (dict : Tag → Option VR) (rest : Bytes) (pos : Nat),
      ∃ d1, Dec.decodeHeader ⟨ts, dict, bs ++ rest, pos⟩
              = .ok (⟨de.tag, de.vr, (paddedValue ts.bigEndian de.vr v).length⟩, d1) ∧
            d1.readValuePreserved ⟨de.tag, de.vr, (paddedValue ts.bigEndian de.vr v).length⟩
              = .ok (v', ⟨ts, dict, rest, pos + bs.length⟩) := by
  have hw : e.primitiveElement de v = .ok e' := by
    unfold Enc.encodePrimitiveElement at hw0; rwa [hnow] at hw0
  subst hets
  obtain ⟨_, hbs, n, henc, hout⟩ := C04.primitive_element_layout de v hascii hsize hw
  refine ⟨hbs ++ paddedValue e.ts.bigEndian de.vr v, by rw [hout, List.append_assoc], ?_⟩
  intro dict rest pos
  have hrt := C03.header_rt_explicit e.ts hts dict ⟨de.tag, de.vr, (paddedValue e.ts.bigEndian de.vr v).length⟩
    ht hg (by show (paddedValue e.ts.bigEndian de.vr v).length < 4294967296; omega) hbs n henc
    (paddedValue e.ts.bigEndian de.vr v ++ rest)
  refine ⟨⟨e.ts, dict, paddedValue e.ts.bigEndian de.vr v ++ rest, pos + hbs.length⟩, ?_, ?_⟩
  · simp only [Dec.decodeHeader, List.append_assoc, hrt]
  · have := hv dict rest (pos + hbs.length)
    rw [this]
    simp [List.length_append, Nat.add_assoc]

/-- **Implicit VR LE, one primitive element**: same, except that the VR the reader works with is the
dictionary's (`resolveImplicitVr`), which is the documented normalisation; `ValueReads` is therefore asked
for that VR. -/
theorem elem_rt_implicit (e e' : Enc) (hets : e.ts = .implicitLE) (dict : Tag → Option VR)
    (de : ElemHeader) (v v' : PValue) (ht : de.tag.Valid)
    (hascii : C04.ValueAscii v) (hsize : (paddedValue false de.vr v).length < 4294967295)
    (hnow : owWords de.vr v = v) (hw0 : e.encodePrimitiveElement de v = .ok e')
    (hv : ValueReads .implicitLE de.tag (resolveImplicitVr dict de.tag) (paddedValue false de.vr v) v') :
    ∃ bs, e'.out = e.out ++ bs ∧ ∀ (rest : Bytes) (pos : Nat),
      ∃ d1, Dec.decodeHeader ⟨.implicitLE, dict, bs ++ rest, pos⟩
              = .ok (⟨de.tag, resolveImplicitVr dict de.tag, (paddedValue false de.vr v).length⟩, d1) ∧
            d1.readValuePreserved ⟨de.tag, resolveImplicitVr dict de.tag, (paddedValue false de.vr v).length⟩
              = .ok (v', ⟨.implicitLE, dict, rest, pos + bs.length⟩) := by
  have hw : e.primitiveElement de v = .ok e' := by
    unfold Enc.encodePrimitiveElement at hw0; rwa [hnow] at hw0
  have hbe : e.ts.bigEndian = false := by rw [hets]; rfl
  have hsize' : (paddedValue e.ts.bigEndian de.vr v).length < 4294967295 := by rw [hbe]; exact hsize
  obtain ⟨_, hbs, n, henc, hout⟩ := C04.primitive_element_layout de v hascii hsize' hw
  rw [hbe] at henc hout
  rw [hets] at henc
  refine ⟨hbs ++ paddedValue false de.vr v, by rw [hout, List.append_assoc], ?_⟩
  intro rest pos
  obtain ⟨hrt, h8⟩ := C03.header_rt_implicit dict ⟨de.tag, de.vr, (paddedValue false de.vr v).length⟩
    ht (by show (paddedValue false de.vr v).length < 4294967296; omega) hbs n henc
    (paddedValue false de.vr v ++ rest)
  refine ⟨⟨.implicitLE, dict, paddedValue false de.vr v ++ rest, pos + hbs.length⟩, ?_, ?_⟩
  · simp only [Dec.decodeHeader, List.append_assoc, hrt]
  · have := hv dict rest (pos + hbs.length)
    rw [this]
    simp [List.length_append, Nat.add_assoc]

/-! ### whole data sets of any depth

`Norm.normElems ts t` is the data set "up to the documented normalisations": same tags, same VRs, same
order, same nesting; every value replaced by its normal form `Norm.normValue` (trailing padding kept as
the reader delivers it: the components of the padded text / the padded bytes; numbers and dates under text
VRs as their text; floats as their bit patterns; empty values as `Empty`), recorded value lengths = the
written ones, sequences and items with undefined length, fragments padded to even length.
`Norm.WfElems ts dict t` is the well-formedness of the *in-memory* data set (values valid for their VR,
default repertoire, fitting their header; ascending tags in every item; in Implicit VR the VR is the
dictionary's — the documented normalisation).

The proof composes: state-machine writer = recursive writer (`C04.write_tree_eq_rec`), the writer cannot
tell a value from its normal form (`Norm.write_norm`), the normal form is canonical (`Norm.canon_norm_*`),
and on canonical trees the writer equals the reference encoder and the DataSetReader state machine +
`build_object` return the tree (Lemmas/Ref*.lean, shared with C02). -/

/-- **Round trip, default strategy, any nesting depth, all three uncompressed syntaxes** (the Deflated
syntax is Explicit VR LE under `inflate ∘ deflate = id`): writing never fails, and reading the written
bytes back with the same syntax yields the data set up to the documented normalisations. -/
theorem tree_rt_undefined (ts : Syntax) (dict : Tag → Option VR) (t : Elems)
    (hd : Ref.dictOk ts dict = true) (hwf : Norm.WfElems ts dict t) (hsorted : Ref.sortedElems t = true) :
    ∃ bs, writeDataset ts .setUndefined t = .ok bs ∧
      readDataset ts dict bs = .ok (Norm.normElems ts t) :=
  Norm.write_read_norm ts dict t hd hwf hsorted

/-- **Writing never fails and never panics** for a well-formed data set (C01's last clause; the proof is
`C04.write_total`, restated with C01's well-formedness) -/
theorem write_total (ts : Syntax) (dict : Tag → Option VR) (t : Elems)
    (hd : Ref.dictOk ts dict = true) (hwf : Norm.WfElems ts dict t) (hsorted : Ref.sortedElems t = true) :
    ∃ bs, writeDataset ts .setUndefined t = .ok bs := by
  obtain ⟨bs, h, _⟩ := tree_rt_undefined ts dict t hd hwf hsorted
  exact ⟨bs, h⟩

/-- the normalisation is idempotent on values: what was read back is already in normal form, so a second
write-read cycle changes nothing more -/
theorem norm_value_stable (be : Bool) (vr : VR) (v : PValue) (hv : Norm.ValidFor be vr v) :
    paddedValue be vr (Norm.normValue be vr v) = paddedValue be vr v :=
  Norm.paddedValue_norm be vr v hv

/-- **Round trip with the `NoChange` strategy** (recorded sequence / item lengths written as they are), any
nesting depth, all three uncompressed syntaxes: if the recorded lengths are consistent
(`Norm.LenOkElems`: every defined length is the length of its content as encoded — what a reader records)
the writer succeeds and reading back returns the normal form *with the same recorded lengths*
(`Norm.keepElems`). Defined and undefined lengths may be mixed freely. -/
theorem tree_rt_nochange (ts : Syntax) (dict : Tag → Option VR) (t : Elems)
    (hd : Ref.dictOk ts dict = true) (hwf : Norm.WfElems ts dict t) (hlen : Norm.LenOkElems ts dict t)
    (hsorted : Ref.sortedElems t = true) :
    ∃ bs, writeDataset ts .noChange t = .ok bs ∧ readDataset ts dict bs = .ok (Norm.keepElems ts t) :=
  Norm.write_read_keep ts dict t hd hwf hlen hsorted

/-- the writer state machine cannot tell a well-formed tree from its normal form under *either* strategy
(so stale recorded lengths under `NoChange` produce exactly the bytes the normal form with the same stale
lengths would produce — the documented risk of that strategy, not an additional one) -/
theorem write_any_strategy_norm (ts : Syntax) (dict : Tag → Option VR) (strat : Strategy) (t : Elems)
    (hwf : Norm.WfElems ts dict t) :
    writeDataset ts strat (Norm.keepElems ts t) = writeDataset ts strat t :=
  Norm.write_keep ts dict strat t hwf

/-- **Implicit VR LE with the dictionary as a parameter function**, including attributes the dictionary does
not know (private / unknown tags, whatever VR they carry in memory): writing succeeds and reading back yields
the normal form of `Norm.dictElems dict t` — every element under the VR the dictionary gives
(`Ref.implicitVr`: OW for Pixel/Overlay Data, UN when unknown), unknown attributes with their value field as
bytes. This is the documented normalisation "in Implicit VR the VR of a known attribute is the dictionary's". -/
theorem tree_rt_implicit_dict (dict : Tag → Option VR) (t : Elems)
    (hd : Ref.dictOk .implicitLE dict = true) (hwf : Norm.WfImpElems dict t) (hsorted : Ref.sortedElems t = true) :
    ∃ bs, writeDataset .implicitLE .setUndefined t = .ok bs ∧
      readDataset .implicitLE dict bs = .ok (Norm.normElems .implicitLE (Norm.dictElems dict t)) :=
  Norm.write_read_implicit dict t hd hwf hsorted

/-- **Round trip with 8-bit samples held as bytes under OW** (legal content of a word VR; the writer re-packs
them into 16-bit words, dicom-rs fix 457c39a): if the re-packed data set `Norm.owElems t` is well-formed
(`Norm.validFor_ow_u8`: any bytes qualify), writing `t` succeeds and reading back yields the normal form of
the re-packed data set — under OW the words `lo + 256·hi`, whose in-memory bytes are the original bytes, in
all three syntaxes including Big Endian. For data sets without such elements `owElems t = t` and this is
`tree_rt_undefined`. -/
theorem tree_rt_undefined_ow (ts : Syntax) (dict : Tag → Option VR) (t : Elems)
    (hd : Ref.dictOk ts dict = true) (hwf : Norm.WfElems ts dict (Norm.owElems t))
    (hsorted : Ref.sortedElems t = true) :
    ∃ bs, writeDataset ts .setUndefined t = .ok bs ∧
      readDataset ts dict bs = .ok (Norm.normElems ts (Norm.owElems t)) :=
  Norm.write_read_ow ts dict t hd hwf hsorted

/-- the regression witness of that fix, Explicit VR Big Endian: (7FE0,0010) OW `U8([1,2,3,4])` is written
as the words 0x0201 0x0403 in big-endian byte order and read back as `U16([513, 1027])`, whose little-endian
in-memory bytes are 01 02 03 04 (kernel evaluation of the model writer and reader) -/
def owWitness : Elems := .cons (.prim ⟨0x7FE0, 0x0010⟩ .OW 4 (.u8 [1, 2, 3, 4])) .nil

theorem ow_witness_round_trips :
    writeDataset .explicitBE .setUndefined owWitness
      = .ok [0x7F, 0xE0, 0x00, 0x10, 79, 87, 0, 0, 0, 0, 0, 4, 2, 1, 4, 3] ∧
    ((writeDataset .explicitBE .setUndefined owWitness).toOption.bind fun bs =>
        (readDataset .explicitBE (fun _ => none) bs).toOption.map Elems.tokens)
      = some [.elementHeader ⟨⟨0x7FE0, 0x0010⟩, .OW, 4⟩, .primitiveValue (.u16 [513, 1027])] := by
  constructor
  · rfl
  · decide +kernel

/-- non-vacuity / end-to-end on a concrete nested tree (sequence with two items, a nested sequence, an
empty sequence, a pixel sequence with an odd and an empty fragment, text with padding, numbers):
the model writer and reader round-trip it in all three syntaxes, and the re-read tree differs only by
the padding. -/
def sampleTree : Elems :=
  .cons (.prim ⟨0x0008, 0x0060⟩ .CS 2 (.strs [[77, 82]]))
  (.cons (.seq ⟨0x0008, 0x1140⟩ undefinedLen
      (.cons undefinedLen (.cons (.prim ⟨0x0008, 0x1150⟩ .UI 5 (.strs [[49, 46, 50, 46, 51]]))
                          (.cons (.seq ⟨0x0008, 0x1199⟩ undefinedLen (.cons undefinedLen .nil .nil)) .nil))
      (.cons undefinedLen (.cons (.seq ⟨0x0040, 0xA730⟩ undefinedLen .nil) .nil) .nil)))
  (.cons (.prim ⟨0x0010, 0x0010⟩ .PN 7 (.str [68, 111, 101, 94, 74, 111, 104]))
  (.cons (.prim ⟨0x0028, 0x0010⟩ .US 2 (.u16 [512]))
  (.cons (.pix [0] [[1, 2, 3], []]) .nil))))

def sampleDict : Tag → Option VR := fun t =>
  if t = ⟨0x0008, 0x0060⟩ then some .CS else if t = ⟨0x0010, 0x0010⟩ then some .PN
  else if t = ⟨0x0008, 0x1140⟩ ∨ t = ⟨0x0008, 0x1199⟩ ∨ t = ⟨0x0040, 0xA730⟩ then some .SQ
  else if t = ⟨0x0008, 0x1150⟩ then some .UI else if t = ⟨0x0028, 0x0010⟩ then some .US else none

def sampleReread : Elems :=
  .cons (.prim ⟨0x0008, 0x0060⟩ .CS 2 (.strs [[77, 82]]))
  (.cons (.seq ⟨0x0008, 0x1140⟩ undefinedLen
      (.cons undefinedLen (.cons (.prim ⟨0x0008, 0x1150⟩ .UI 6 (.strs [[49, 46, 50, 46, 51, 0]]))
                          (.cons (.seq ⟨0x0008, 0x1199⟩ undefinedLen (.cons undefinedLen .nil .nil)) .nil))
      (.cons undefinedLen (.cons (.seq ⟨0x0040, 0xA730⟩ undefinedLen .nil) .nil) .nil)))
  (.cons (.prim ⟨0x0010, 0x0010⟩ .PN 8 (.strs [[68, 111, 101, 94, 74, 111, 104, 32]]))
  (.cons (.prim ⟨0x0028, 0x0010⟩ .US 2 (.u16 [512]))
  (.cons (.pix [0] [[1, 2, 3, 0], []]) .nil))))

/-- write, read back, and list the tokens of the re-read tree (tokens determine the tree) -/
def rereadTokens (ts : Syntax) : Option (List Token) :=
  (writeDataset ts .setUndefined sampleTree).toOption.bind fun bs =>
    (readDataset ts sampleDict bs).toOption.map Elems.tokens

theorem sample_tree_round_trips :
    rereadTokens .implicitLE = some sampleReread.tokens ∧
    rereadTokens .explicitLE = some sampleReread.tokens ∧
    rereadTokens .explicitBE = some sampleReread.tokens := by
  decide +kernel

/-- non-vacuity of `tree_rt_undefined`: the nested sample tree (sequence in sequence, empty sequence,
empty item, pixel sequence with an odd and an empty fragment, padded text, numbers) is well-formed for
Implicit VR LE with its dictionary, and for both explicit syntaxes -/
theorem sample_tree_wellformed :
    Ref.dictOk .implicitLE sampleDict = true ∧ Ref.sortedElems sampleTree = true ∧
    Norm.WfElems .implicitLE sampleDict sampleTree ∧ Norm.WfElems .explicitLE sampleDict sampleTree ∧
    Norm.WfElems .explicitBE sampleDict sampleTree := by
  refine ⟨by decide, by decide, ?_, ?_, ?_⟩ <;>
  simp [Norm.WfElems, Norm.WfElem, Norm.WfItems, sampleTree, Norm.ValidFor, C04.FitsHeader, C04.DsIsOk,
    C04.ValueAscii, C04.Ascii, Norm.NumericOk,
    C04.paddedValue, padTo, textPad, binPad, encodePrimitive, joinBackslash, Ref.tagOk, Ref.sortedElems,
    Ref.sortedFrom, Ref.tagLt, Ref.tagOf, Tag.pixelData, undefinedLen, Norm.strsVrs, Norm.strVrs, Ref.implicitVr,
    sampleDict, C03.ps35, Syntax.explicit, Syntax.bigEndian, enc16, le16, be16]

/-- non-vacuity of `tree_rt_undefined_ow`: the re-packed OW witness is well-formed in Explicit VR Big Endian -/
theorem ow_witness_wellformed :
    Norm.WfElems .explicitBE (fun _ => none) (Norm.owElems owWitness) ∧ Ref.sortedElems owWitness = true := by
  refine ⟨?_, by decide⟩
  simp [Norm.WfElems, Norm.WfElem, Norm.owElems, Norm.owElem, owWitness, owWords, packWords, Norm.ValidFor,
    C04.FitsHeader, C04.DsIsOk, C04.ValueAscii, Norm.NumericOk, C04.paddedValue, padTo, binPad, encodePrimitive,
    Ref.tagOk, Tag.pixelData, undefinedLen, Norm.strsVrs, Norm.strVrs, C03.ps35, Syntax.explicit, Syntax.bigEndian,
    enc16, be16]

/-! ### Deflated Explicit VR Little Endian

The fourth writable syntax wraps the Explicit VR LE writer / reader in a deflate / inflate adapter
(`DataRWAdapter` of the `deflate` feature, flate2). The codec is third-party code and enters as a parameter:
`C : DeflateCodec` is *any* pair of functions with `inflate (deflate b) = b`. -/

/-- the deflate layer as the model sees it: any pair of byte-string functions that are inverse one way -/
structure DeflateCodec where
  deflate : Bytes → Bytes
  inflate : Bytes → Bytes
  inverse : ∀ b, inflate (deflate b) = b

/-- `write_dataset_with_ts(_options)` for Deflated Explicit VR LE: the Explicit VR LE writer through the adapter -/
def writeDeflated (C : DeflateCodec) (strat : Strategy) (t : Elems) : Except WErr Bytes :=
  match writeDataset .explicitLE strat t with
  | .ok bs => .ok (C.deflate bs)
  | .error e => .error e

/-- `read_dataset_with_ts` for Deflated Explicit VR LE: the Explicit VR LE reader behind the adapter -/
def readDeflated (C : DeflateCodec) (dict : Tag → Option VR) (raw : Bytes) : Except RdErr Elems :=
  readDataset .explicitLE dict (C.inflate raw)

/-- **Round trip in Deflated Explicit VR LE, default strategy, any nesting depth, for every codec with
`inflate ∘ deflate = id`**: writing never fails and reading the written bytes back yields the normal form. -/
theorem tree_rt_deflated (C : DeflateCodec) (dict : Tag → Option VR) (t : Elems)
    (hd : Ref.dictOk .explicitLE dict = true) (hwf : Norm.WfElems .explicitLE dict t)
    (hsorted : Ref.sortedElems t = true) :
    ∃ raw, writeDeflated C .setUndefined t = .ok raw ∧
      readDeflated C dict raw = .ok (Norm.normElems .explicitLE t) := by
  obtain ⟨bs, hw, hr⟩ := tree_rt_undefined .explicitLE dict t hd hwf hsorted
  refine ⟨C.deflate bs, ?_, ?_⟩
  · simp only [writeDeflated, hw]
  · simp only [readDeflated, C.inverse, hr]

/-- … and with the `NoChange` strategy for trees with consistent recorded lengths -/
theorem tree_rt_deflated_nochange (C : DeflateCodec) (dict : Tag → Option VR) (t : Elems)
    (hd : Ref.dictOk .explicitLE dict = true) (hwf : Norm.WfElems .explicitLE dict t)
    (hlen : Norm.LenOkElems .explicitLE dict t) (hsorted : Ref.sortedElems t = true) :
    ∃ raw, writeDeflated C .noChange t = .ok raw ∧
      readDeflated C dict raw = .ok (Norm.keepElems .explicitLE t) := by
  obtain ⟨bs, hw, hr⟩ := tree_rt_nochange .explicitLE dict t hd hwf hlen hsorted
  refine ⟨C.deflate bs, ?_, ?_⟩
  · simp only [writeDeflated, hw]
  · simp only [readDeflated, C.inverse, hr]

def sampleDictD : Tag → Option VR := fun t => if t = ⟨0x0008, 0x0060⟩ then some .CS else none

/-- the hypothesis on the codec is needed: with a "codec" that loses the stream the round trip fails
(so the theorem above is not true for the wrong reason) -/
theorem deflated_needs_inverse :
    ∃ (deflate inflate : Bytes → Bytes),
      (readDataset .explicitLE sampleDictD (inflate (deflate
        [0x08, 0x00, 0x60, 0x00, 67, 83, 2, 0, 77, 82]))).toOption.map Elems.tokens ≠
      (readDataset .explicitLE sampleDictD [0x08, 0x00, 0x60, 0x00, 67, 83, 2, 0, 77, 82]).toOption.map Elems.tokens := by
  refine ⟨fun _ => [], fun b => b, ?_⟩
  show ((readDataset .explicitLE sampleDictD []).toOption.map Elems.tokens ≠
      (readDataset .explicitLE sampleDictD [0x08, 0x00, 0x60, 0x00, 67, 83, 2, 0, 77, 82]).toOption.map Elems.tokens)
  decide +kernel

/-- non-vacuity: the identity is a codec -/
example : DeflateCodec := ⟨id, id, fun _ => rfl⟩

end Dicom.C01
