import DicomModel.Model.Release
/-
C30 — association release and abort follow the upper-layer protocol.

`Reachable` is the set of all states the two peers and the two channels can get into under ANY
interleaving of their actions (`Model/Release.lean`). `Inv` is an inductive invariant; the
statement's four clauses are corollaries for every reachable state:
* `release_completes_only_after_reply`
* `failure_during_release_closes` (+ `failed_is_closed`)
* `nothing_follows_release` / `no_send_after_completed_release`
* `release_request_is_answered` / `replying_must_reply`
-/
namespace Dicom.Release

/-! ### shapes of what a peer has put on the wire -/

def Clean (T : List Msg) : Prop := ∀ m ∈ T, m = .data ∨ m = .other

/-- data / other PDUs, then exactly one `x`, then nothing -/
def EndsWith (T : List Msg) (x : Msg) : Prop := ∃ pre, Clean pre ∧ T = pre ++ [x]

def OutShape : PState → List Msg → Prop
  | .established, T | .replying, T | .peerAborted, T | .closed, T => Clean T
  | .awaitingRP, T | .released, T | .failed, T => EndsWith T .releaseRQ
  | .replied, T | .repliedClosed, T => EndsWith T .releaseRP
  | .aborted, T => EndsWith T .abort

def Replyish (st : PState) : Prop := st = .replying ∨ st = .replied ∨ st = .repliedClosed

instance (st : PState) : Decidable (Replyish st) := by unfold Replyish; infer_instance

/-- the requestor-side half of the invariant (the other half is the same on `s.swap`) -/
structure Half (s : Sys) : Prop where
  inflight : ∃ done, s.tRA = done ++ s.ra
  shape : OutShape s.r s.tRA
  replyish : Replyish s.r → EndsWith s.tAR .releaseRQ ∧ s.ar = []
  got : s.gotRQr = true ↔ Replyish s.r
  released : s.r = .released → s.a = .replied ∨ s.a = .repliedClosed

def Inv (s : Sys) : Prop := Half s ∧ Half s.swap

theorem swap_swap (s : Sys) : s.swap.swap = s := rfl

theorem inv_swap {s : Sys} (h : Inv s) : Inv s.swap := ⟨h.2, by rw [swap_swap]; exact h.1⟩

/-! ### list facts -/

theorem clean_append {T : List Msg} {m : Msg} (h : Clean T) (hm : m = .data ∨ m = .other) :
    Clean (T ++ [m]) := by
  intro x hx
  simp only [List.mem_append, List.mem_singleton] at hx
  rcases hx with hx | hx
  · exact h x hx
  · subst hx; exact hm

theorem clean_not {T : List Msg} (h : Clean T) {x : Msg} (hx : x ∈ T) :
    x ≠ .releaseRQ ∧ x ≠ .releaseRP ∧ x ≠ .abort := by
  rcases h x hx with h | h <;> subst h <;> simp

theorem endsWith_mem {T : List Msg} {x y : Msg} (h : EndsWith T x) (hy : y ∈ T)
    (hn : y ≠ .data ∧ y ≠ .other) : y = x := by
  obtain ⟨pre, hc, rfl⟩ := h
  simp only [List.mem_append, List.mem_singleton] at hy
  rcases hy with hy | hy
  · rcases hc y hy with h | h
    · exact absurd h hn.1
    · exact absurd h hn.2
  · exact hy

/-- which states can have put a given control PDU on the wire -/
theorem shape_of_mem {st : PState} {T : List Msg} (h : OutShape st T) {y : Msg} (hy : y ∈ T)
    (hn : y ≠ .data ∧ y ≠ .other) :
    EndsWith T y ∧
    (y = .releaseRQ → st = .awaitingRP ∨ st = .released ∨ st = .failed) ∧
    (y = .releaseRP → st = .replied ∨ st = .repliedClosed) := by
  cases st <;> simp only [OutShape] at h
  all_goals first
    | (rcases h y hy with h' | h'
       · exact absurd h' hn.1
       · exact absurd h' hn.2)
    | (have e := endsWith_mem h hy hn
       subst e
       refine ⟨h, ?_, ?_⟩ <;> intro h' <;> simp_all)

/-- in flight `x :: rest`, everything sent `pre ++ [x']` with `x` not in `pre`: `x` is the last
thing sent and nothing follows it -/
theorem last_in_flight {done pre rest : List Msg} {x x' : Msg}
    (h : done ++ x :: rest = pre ++ [x']) (hx : x ∉ pre) : rest = [] := by
  rcases List.append_eq_append_iff.mp h with ⟨a', h1, h2⟩ | ⟨c', h1, h2⟩
  · cases a' with
    | nil => simp at h2; exact h2.2
    | cons y ys =>
      simp only [List.cons_append, List.cons.injEq] at h2
      exact absurd (by rw [h1, h2.1]; simp) hx
  · cases c' with
    | nil => simp at h2; exact h2.2
    | cons y ys =>
      have := congrArg List.length h2
      simp at this

/-! ### the invariant is inductive -/

theorem inv_init : Inv init := by
  constructor <;>
  exact ⟨⟨[], rfl⟩, by simp [OutShape, init, Sys.swap, Clean], by simp [Replyish, init, Sys.swap],
    by simp [Replyish, init, Sys.swap], by simp [init, Sys.swap]⟩

/-- while this side's trace is clean the other side has neither answered nor completed a release -/
theorem other_idle {s : Sys} (h : Inv s) (hclean : Clean s.tRA) :
    ¬ Replyish s.a ∧ s.a ≠ .released := by
  obtain ⟨hR, hA⟩ := h
  constructor
  · intro hr
    obtain ⟨⟨pre, _, hpre⟩, _⟩ := hA.replyish hr
    have : Msg.releaseRQ ∈ s.tRA := by
      have e : s.swap.tAR = s.tRA := rfl
      rw [← e, hpre]; simp
    exact (clean_not hclean this).1 rfl
  · intro hr
    have h1 := hA.released hr
    have e : s.swap.a = s.r := rfl
    rw [e] at h1
    have hs := hR.shape
    rcases h1 with h1 | h1 <;>
    · simp only [h1, OutShape] at hs
      obtain ⟨pre, _, hpre⟩ := hs
      have : Msg.releaseRP ∈ s.tRA := by rw [hpre]; simp
      exact (clean_not hclean this).2.1 rfl

/-- sending from a state whose own trace is still clean -/
theorem send_preserves {s : Sys} (h : Inv s) (m : Msg) (st : PState)
    (hclean : Clean s.tRA) (hshape : OutShape st (s.tRA ++ [m]))
    (hrep : Replyish st ↔ Replyish s.r) (hrel : st ≠ .released) :
    Inv (s.sendR m st) := by
  obtain ⟨hidle1, hidle2⟩ := other_idle h hclean
  obtain ⟨hR, hA⟩ := h
  constructor
  · refine ⟨?_, hshape, ?_, ?_, ?_⟩
    · obtain ⟨d, hd⟩ := hR.inflight
      exact ⟨d, by simp [Sys.sendR, hd]⟩
    · intro hr; exact hR.replyish (hrep.mp hr)
    · simp only [Sys.sendR]
      rw [hR.got]; exact hrep.symm
    · intro hr; exact absurd hr hrel
  · refine ⟨hA.inflight, hA.shape, ?_, hA.got, ?_⟩
    · intro hr; exact absurd hr hidle1
    · intro hr; exact absurd hr hidle2

theorem shape_clean_of_established {s : Sys} (h : Inv s) (he : s.r = .established ∨ s.r = .replying) :
    Clean s.tRA := by
  have := h.1.shape
  rcases he with he | he <;> simpa [he, OutShape] using this

theorem not_replyish_established : ¬ Replyish .established := by simp [Replyish]

/-- every action of the requestor-side peer preserves the invariant -/
theorem stepR_preserves {s s' : Sys} (a : Act) (h : Inv s) (hs : stepR s a = some s') : Inv s' := by
  cases a with
  | sendData =>
    simp only [stepR] at hs
    split at hs
    · rename_i he
      cases hs
      have hc := shape_clean_of_established h (.inl he)
      exact send_preserves h _ _ hc (by simpa [OutShape] using clean_append hc (.inl rfl))
        (by simp [Replyish, he]) (by simp)
    · cases hs
  | sendOther =>
    simp only [stepR] at hs
    split at hs
    · rename_i he
      cases hs
      have hc := shape_clean_of_established h (.inl he)
      exact send_preserves h _ _ hc (by simpa [OutShape] using clean_append hc (.inr rfl))
        (by simp [Replyish, he]) (by simp)
    · cases hs
  | release =>
    simp only [stepR] at hs
    split at hs
    · rename_i he
      cases hs
      have hc := shape_clean_of_established h (.inl he)
      exact send_preserves h _ _ hc (by simp only [OutShape]; exact ⟨_, hc, rfl⟩)
        (by simp [Replyish, he]) (by simp)
    · cases hs
  | abort =>
    simp only [stepR] at hs
    split at hs
    · rename_i he
      cases hs
      have hc := shape_clean_of_established h (.inl he)
      exact send_preserves h _ _ hc (by simp only [OutShape]; exact ⟨_, hc, rfl⟩)
        (by simp [Replyish, he]) (by simp)
    · cases hs
  | reply =>
    simp only [stepR] at hs
    split at hs
    · rename_i he
      cases hs
      have hc := shape_clean_of_established h (.inr he)
      exact send_preserves h _ _ hc (by simp only [OutShape]; exact ⟨_, hc, rfl⟩)
        (by simp [Replyish, he]) (by simp)
    · cases hs
  | close =>
    simp only [stepR] at hs
    obtain ⟨hR, hA⟩ := h
    split at hs
    · rename_i he
      cases hs
      constructor
      · refine ⟨hR.inflight, ?_, ?_, ?_, ?_⟩
        · have := hR.shape; simpa [he, OutShape] using this
        · intro hr; simp [Replyish] at hr
        · have := hR.got; simp [he, Replyish] at this; simp [Replyish, this]
        · intro hr; cases hr
      · refine ⟨by simpa [Sys.swap] using hA.inflight, by simpa [Sys.swap] using hA.shape, by simpa [Sys.swap] using hA.replyish, by simpa [Sys.swap] using hA.got, ?_⟩
        intro hr
        have := hA.released hr
        have e : s.swap.a = s.r := rfl
        rw [e, he] at this
        simp at this
    · split at hs
      · rename_i he
        cases hs
        constructor
        · refine ⟨hR.inflight, ?_, ?_, ?_, ?_⟩
          · have := hR.shape; simpa [he, OutShape] using this
          · intro _; exact hR.replyish (by simp [Replyish, he])
          · have := hR.got; simp [he, Replyish] at this; simp [Replyish, this]
          · intro hr; cases hr
        · refine ⟨by simpa [Sys.swap] using hA.inflight, by simpa [Sys.swap] using hA.shape, by simpa [Sys.swap] using hA.replyish, by simpa [Sys.swap] using hA.got, ?_⟩
          intro _; exact .inr rfl
      · cases hs
  | recv =>
    simp only [stepR] at hs
    obtain ⟨hR, hA⟩ := h
    have hAin : ∃ done, s.tAR = done ++ s.ar := hA.inflight
    have hAshape : OutShape s.a s.tAR := hA.shape
    split at hs
    · rename_i he
      -- established: the storescp-style loop takes the next PDU
      have hgot : s.gotRQr = false := by
        have := hR.got; simp [he, Replyish] at this; exact this
      have hclean : Clean s.tRA := by have := hR.shape; simpa [he, OutShape] using this
      cases har : s.ar with
      | nil =>
        simp only [har] at hs
        split at hs
        · cases hs
          constructor
          · refine ⟨hR.inflight, by simpa [OutShape] using hclean, ?_, ?_, ?_⟩
            · intro hr; simp [Replyish] at hr
            · simp [Replyish, hgot]
            · intro hr; cases hr
          · refine ⟨by simpa [Sys.swap] using hA.inflight, by simpa [Sys.swap] using hA.shape, by simpa [Sys.swap] using hA.replyish, by simpa [Sys.swap] using hA.got, ?_⟩
            intro hr
            have := hA.released hr
            have e : s.swap.a = s.r := rfl
            rw [e, he] at this; simp at this
        · cases hs
      | cons m rest =>
        simp only [har] at hs
        cases hs
        obtain ⟨done, hdone⟩ := hAin
        rw [har] at hdone
        have hmem : m ∈ s.tAR := by rw [hdone]; simp
        constructor
        · refine ⟨hR.inflight, ?_, ?_, ?_, ?_⟩
          · cases m <;> simpa [onRecvEstablished, OutShape] using hclean
          · intro hr
            have hm : m = .releaseRQ := by
              cases m <;> simp [onRecvEstablished, Replyish] at hr ⊢
            subst hm
            obtain ⟨hends, _, _⟩ := shape_of_mem hAshape hmem (by simp)
            refine ⟨hends, ?_⟩
            obtain ⟨pre, hpc, hpre⟩ := hends
            rw [hpre] at hdone
            exact last_in_flight hdone.symm (fun hx => (clean_not hpc hx).1 rfl)
          · cases m <;> simp [onRecvEstablished, Replyish, hgot]
          · intro hr; cases m <;> simp [onRecvEstablished] at hr
        · refine ⟨⟨done ++ [m], by simp [Sys.swap, hdone]⟩, hA.shape, hA.replyish, hA.got, ?_⟩
          intro hr
          have := hA.released hr
          have e : s.swap.a = s.r := rfl
          rw [e, he] at this; simp at this
    · split at hs
      · rename_i hne he
        -- inside release(): waiting for the reply
        have hgot : s.gotRQr = false := by
          have := hR.got; simp [he, Replyish] at this; exact this
        have hshape : EndsWith s.tRA .releaseRQ := by
          have := hR.shape; simpa [he, OutShape] using this
        cases har : s.ar with
        | nil =>
          simp only [har] at hs
          split at hs
          · cases hs
            constructor
            · refine ⟨hR.inflight, by simpa [OutShape] using hshape, ?_, ?_, ?_⟩
              · intro hr; simp [Replyish] at hr
              · simp [Replyish, hgot]
              · intro hr; cases hr
            · refine ⟨by simpa [Sys.swap] using hA.inflight, by simpa [Sys.swap] using hA.shape, by simpa [Sys.swap] using hA.replyish, by simpa [Sys.swap] using hA.got, ?_⟩
              intro hr
              have := hA.released hr
              have e : s.swap.a = s.r := rfl
              rw [e, he] at this; simp at this
          · cases hs
        | cons m rest =>
          simp only [har] at hs
          cases hs
          obtain ⟨done, hdone⟩ := hAin
          rw [har] at hdone
          have hmem : m ∈ s.tAR := by rw [hdone]; simp
          constructor
          · refine ⟨hR.inflight, ?_, ?_, ?_, ?_⟩
            · cases m <;> simpa [onRecvAwaiting, OutShape] using hshape
            · intro hr; cases m <;> simp [onRecvAwaiting, Replyish] at hr
            · cases m <;> simp [onRecvAwaiting, Replyish, hgot]
            · intro hr
              have hm : m = .releaseRP := by
                cases m <;> simp [onRecvAwaiting] at hr ⊢
              subst hm
              exact (shape_of_mem hAshape hmem (by simp)).2.2 rfl
          · refine ⟨⟨done ++ [m], by simp [Sys.swap, hdone]⟩, hA.shape, hA.replyish, hA.got, ?_⟩
            intro hr
            have := hA.released hr
            have e : s.swap.a = s.r := rfl
            rw [e, he] at this; simp at this
      · cases hs

theorem step_preserves {s s' : Sys} (p : Peer) (a : Act) (h : Inv s) (hs : step s p a = some s') :
    Inv s' := by
  cases p with
  | R => exact stepR_preserves a h hs
  | A =>
    simp only [step, Option.map_eq_some_iff] at hs
    obtain ⟨t, ht, rfl⟩ := hs
    exact inv_swap (stepR_preserves a (inv_swap h) ht)

/-- the invariant holds in every state of every interleaving -/
theorem reachable_inv {s : Sys} (h : Reachable s) : Inv s := by
  induction h with
  | init => exact inv_init
  | step p a _ hs ih => exact step_preserves p a ih hs

/-! ### the four clauses of the statement -/

/-- state of a peer, its trace, the other's -/
def Sys.st (s : Sys) : Peer → PState
  | .R => s.r
  | .A => s.a
def Sys.sent (s : Sys) : Peer → List Msg
  | .R => s.tRA
  | .A => s.tAR
def Peer.other : Peer → Peer
  | .R => .A
  | .A => .R

/-- **a release completes only after a release reply was received**: when `release()` has
returned `Ok` on one side, that side had sent exactly one A-RELEASE-RQ as its last PDU, the other
side took it out of the channel and answered with an A-RELEASE-RP as *its* last PDU — and the
completing step itself is the reception of that reply (`completion_is_reception`). -/
theorem release_completes_only_after_reply {s : Sys} (h : Reachable s) (p : Peer)
    (hrel : s.st p = .released) :
    EndsWith (s.sent p) .releaseRQ ∧ EndsWith (s.sent p.other) .releaseRP ∧
    (s.st p.other = .replied ∨ s.st p.other = .repliedClosed) := by
  have hi := reachable_inv h
  cases p with
  | R =>
    simp only [Sys.st] at hrel
    have ho := hi.1.released hrel
    have h1 := hi.1.shape
    have h2 : OutShape s.a s.tAR := hi.2.shape
    simp only [hrel, OutShape] at h1
    refine ⟨h1, ?_, ho⟩
    rcases ho with ho | ho <;> simpa [ho, OutShape, Sys.sent, Peer.other] using h2
  | A =>
    simp only [Sys.st] at hrel
    have ho : s.r = .replied ∨ s.r = .repliedClosed := hi.2.released hrel
    have h1 : OutShape s.a s.tAR := hi.2.shape
    have h2 := hi.1.shape
    simp only [hrel, OutShape] at h1
    refine ⟨h1, ?_, ho⟩
    rcases ho with ho | ho <;> simpa [ho, OutShape, Sys.sent, Peer.other] using h2

theorem stepR_released {s s' : Sys} (a : Act) (hs : stepR s a = some s')
    (_hb : s.r ≠ .released) (ha : s'.r = .released) :
    a = .recv ∧ s.r = .awaitingRP ∧ s.ar.head? = some .releaseRP := by
  cases a <;> simp only [stepR] at hs
  case recv =>
    by_cases he : s.r = .established
    · simp only [he, ↓reduceIte] at hs
      cases har : s.ar with
      | nil =>
        simp only [har] at hs
        split at hs <;> cases hs
        simp at ha
      | cons m rest =>
        simp only [har] at hs
        cases hs
        cases m <;> simp [onRecvEstablished] at ha
    · by_cases hw : s.r = .awaitingRP
      · simp only [hw, ↓reduceIte, show (PState.awaitingRP = PState.established) = False by simp] at hs
        cases har : s.ar with
        | nil =>
          simp only [har] at hs
          split at hs <;> cases hs
          simp at ha
        | cons m rest =>
          simp only [har] at hs
          cases hs
          cases m <;> simp [onRecvAwaiting] at ha
          exact ⟨rfl, hw, by simp⟩
      · simp [he, hw] at hs
  case close =>
    split at hs
    · cases hs; simp at ha
    · split at hs
      · cases hs; simp at ha
      · cases hs
  all_goals
    split at hs
    · cases hs; simp [Sys.sendR] at ha
    · cases hs

/-- the only step into `released` is the reception of an A-RELEASE-RP while waiting for it -/
theorem completion_is_reception {s s' : Sys} (p : Peer) (a : Act) (hs : step s p a = some s')
    (hbefore : s.st p ≠ .released) (hafter : s'.st p = .released) :
    a = .recv ∧ s.st p = .awaitingRP ∧ delivered s p = some .releaseRP := by
  cases p with
  | R => exact stepR_released a hs hbefore hafter
  | A =>
    simp only [step, Option.map_eq_some_iff] at hs
    obtain ⟨t, ht, rfl⟩ := hs
    exact stepR_released (s := s.swap) a ht hbefore hafter

theorem stepR_failure {s s' : Sys} (hs : stepR s .recv = some s')
    (hw : s.r = .awaitingRP) (hm : s.ar.head? ≠ some .releaseRP) :
    s'.r = .failed ∧ ∀ a, stepR s' a = none := by
  simp only [stepR, hw, ↓reduceIte, show (PState.awaitingRP = PState.established) = False by simp] at hs
  have key : s'.r = .failed := by
    cases har : s.ar with
    | nil =>
      simp only [har] at hs
      split at hs <;> cases hs
      rfl
    | cons m rest =>
      simp only [har] at hs hm
      cases hs
      cases m <;> simp [onRecvAwaiting] at hm ⊢
  refine ⟨key, ?_⟩
  intro a; cases a <;> simp [stepR, key]

/-- **an abort or unexpected PDU (or end of stream) during release ends the association with an
error and a closed connection**: whatever `release()` reads other than A-RELEASE-RP takes the
peer to `failed`, whose socket is closed, and nothing is enabled for it any more. -/
theorem failure_during_release_closes {s s' : Sys} (p : Peer) (hs : step s p .recv = some s')
    (hw : s.st p = .awaitingRP) (hm : delivered s p ≠ some .releaseRP) :
    s'.st p = .failed ∧ (s'.st p).sockClosed = true ∧ ∀ a, step s' p a = none := by
  cases p with
  | R =>
    obtain ⟨h1, h2⟩ := stepR_failure hs hw hm
    exact ⟨h1, by simp [Sys.st, h1, PState.sockClosed], h2⟩
  | A =>
    simp only [step, Option.map_eq_some_iff] at hs
    obtain ⟨t, ht, rfl⟩ := hs
    obtain ⟨h1, h2⟩ := stepR_failure (s := s.swap) ht hw hm
    refine ⟨h1, ?_, ?_⟩
    · have : t.swap.st .A = t.r := rfl
      simp [this, h1, PState.sockClosed]
    · intro a
      simp [step, swap_swap, h2 a]

/-- **nothing follows a release request, a release reply or an abort** on the wire, in either
direction, in any reachable state: what a peer has sent is data/other PDUs followed by at most
one of the three, as its last PDU. -/
theorem nothing_follows_release {s : Sys} (h : Reachable s) (p : Peer) (pre post : List Msg) (x : Msg)
    (hx : x = .releaseRQ ∨ x = .releaseRP ∨ x = .abort) (hsent : s.sent p = pre ++ x :: post) :
    post = [] ∧ Clean pre := by
  have hi := reachable_inv h
  have hshape : OutShape (s.st p) (s.sent p) := by
    cases p
    · exact hi.1.shape
    · exact hi.2.shape
  have hmem : x ∈ s.sent p := by rw [hsent]; simp
  have hn : x ≠ .data ∧ x ≠ .other := by rcases hx with h | h | h <;> subst h <;> simp
  obtain ⟨⟨q, hq, hqe⟩, _, _⟩ := shape_of_mem hshape hmem hn
  rw [hsent] at hqe
  have hpost := last_in_flight hqe (fun hxq => by
    have := hq x hxq
    rcases this with h | h
    · exact hn.1 h
    · exact hn.2 h)
  subst hpost
  have := List.append_inj' hqe (by simp)
  exact ⟨rfl, this.1 ▸ hq⟩

/-- **no data transfer follows a completed release**: once `release()` has returned `Ok` on one
side, neither side can send anything any more. -/
theorem no_send_after_completed_release {s : Sys} (h : Reachable s) (p : Peer)
    (hrel : s.st p = .released) (q : Peer) (a : Act)
    (ha : a = .sendData ∨ a = .sendOther ∨ a = .release ∨ a = .abort ∨ a = .reply) :
    step s q a = none := by
  obtain ⟨_, _, ho⟩ := release_completes_only_after_reply h p hrel
  cases p <;> cases q <;> simp only [Sys.st, Peer.other] at hrel ho <;>
    rcases ha with ha | ha | ha | ha | ha <;> subst ha <;>
    rcases ho with ho | ho <;> simp [step, stepR, Sys.swap, hrel, ho]

/-- **an acceptor answers a release request with a release reply** (either role, as the machine
is the same): a peer that has taken an A-RELEASE-RQ out of its channel is about to reply or has
replied — and then the reply is the last PDU it sent. -/
theorem release_request_is_answered {s : Sys} (h : Reachable s) :
    (s.gotRQa = true → s.a = .replying ∨ EndsWith s.tAR .releaseRP) ∧
    (s.gotRQr = true → s.r = .replying ∨ EndsWith s.tRA .releaseRP) := by
  have hi := reachable_inv h
  constructor
  · intro hg
    have hr : Replyish s.a := hi.2.got.mp hg
    have hs : OutShape s.a s.tAR := hi.2.shape
    rcases hr with hr | hr | hr
    · exact .inl hr
    · right; simpa [hr, OutShape] using hs
    · right; simpa [hr, OutShape] using hs
  · intro hg
    have hr : Replyish s.r := hi.1.got.mp hg
    have hs := hi.1.shape
    rcases hr with hr | hr | hr
    · exact .inl hr
    · right; simpa [hr, OutShape] using hs
    · right; simpa [hr, OutShape] using hs

/-- between taking the request and replying nothing else can be done by that peer, and replying
is always possible -/
theorem replying_must_reply (s : Sys) (p : Peer) (hr : s.st p = .replying) :
    (∃ s', step s p .reply = some s') ∧ ∀ a, a ≠ .reply → step s p a = none := by
  cases p with
  | R =>
    simp only [Sys.st] at hr
    refine ⟨⟨s.sendR .releaseRP .replied, by simp [step, stepR, hr]⟩, ?_⟩
    intro a ha; cases a <;> simp_all [step, stepR]
  | A =>
    simp only [Sys.st] at hr
    have hr' : s.swap.r = .replying := hr
    refine ⟨⟨(s.swap.sendR .releaseRP .replied).swap, by simp [step, stepR, hr']⟩, ?_⟩
    intro a ha; cases a <;> simp_all [step, stepR]

/-- a failed, aborted or released peer has closed its socket and does nothing more -/
theorem terminal_is_closed (s : Sys) (p : Peer)
    (h : s.st p = .failed ∨ s.st p = .released ∨ s.st p = .aborted ∨ s.st p = .peerAborted) :
    (s.st p).sockClosed = true ∧ ∀ a, step s p a = none := by
  cases p <;> simp only [Sys.st] at h <;> rcases h with h | h | h | h <;>
    (refine ⟨by simp [Sys.st, h, PState.sockClosed], ?_⟩; intro a; cases a <;> simp [step, stepR, Sys.swap, h])

/-! ### non-vacuity: a completed release, a release collision and an abort during release are reachable -/

theorem reachable_of_run {s s' : Sys} (sched : List (Peer × Act)) (h : Reachable s)
    (hr : run s sched = some s') : Reachable s' := by
  induction sched generalizing s with
  | nil => simp [run] at hr; exact hr ▸ h
  | cons x xs ih =>
    obtain ⟨p, a⟩ := x
    simp only [run] at hr
    cases hst : step s p a with
    | none => simp [hst] at hr
    | some t =>
      simp only [hst] at hr
      exact ih (Reachable.step p a h hst) hr

example : ∃ s, Reachable s ∧ s.r = .released ∧ s.a = .repliedClosed :=
  ⟨_, reachable_of_run [(.R, .sendData), (.A, .recv), (.R, .release), (.A, .recv), (.A, .reply), (.R, .recv), (.A, .close)]
    Reachable.init rfl, rfl, rfl⟩
example : ∃ s, Reachable s ∧ s.r = .failed ∧ s.a = .failed :=
  ⟨_, reachable_of_run [(.R, .release), (.A, .release), (.A, .recv), (.R, .recv)] Reachable.init rfl, rfl, rfl⟩
example : ∃ s, Reachable s ∧ s.r = .failed ∧ s.a = .aborted :=
  ⟨_, reachable_of_run [(.A, .sendData), (.R, .release), (.A, .abort), (.R, .recv)] Reachable.init rfl, rfl, rfl⟩

end Dicom.Release
