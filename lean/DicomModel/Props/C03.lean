import DicomModel.Model.Header
import DicomModel.Lemmas.Header
/-
C03 — Element and item headers follow the PS3.5 §7.1 wire layout.

All statements are about the model `Model/Header.lean`, whose VR tables and 16-bit-length VR lists
are regenerated from the dicom-rs source on every check (`Gen/VrTables.lean`). The statements are
unbounded in tag, VR and length (`Nat` fields under the `u16`/`u32` range conditions that the Rust
types impose).
-/
set_option linter.unusedSimpArgs false
namespace Dicom.C03

/-- The PS3.5 §7.1.2 list, spelled out here independently of model and code. -/
def ps35 : List VR :=
  [VR.AE, VR.AS, VR.AT, VR.CS, VR.DA, VR.DS, VR.DT, VR.FL, VR.FD, VR.IS, VR.LO, VR.LT, VR.PN,
   VR.SH, VR.SL, VR.SS, VR.ST, VR.TM, VR.UI, VR.UL, VR.US]

/-- membership in a list (as the code's `match` does), order-insensitive comparison of two lists -/
def sameSet (a b : List VR) : Bool := VR.all.all fun v => a.contains v == b.contains v

/-- Each of the five match-arm lists extracted from the source denotes exactly the PS3.5 set
(a VR moved between the two classes in any one file breaks this at build time). -/
theorem short_list_is_ps35 :
    sameSet Gen.encLeShort ps35 = true ∧ sameSet Gen.encBeShort ps35 = true ∧
    sameSet Gen.decLeShort ps35 = true ∧ sameSet Gen.decBeShort ps35 = true ∧
    sameSet Gen.adaptiveShort ps35 = true ∧ sameSet VR.ps35Short ps35 = true := by decide

theorem sameSet_contains {a b : List VR} (h : sameSet a b = true) (v : VR) :
    a.contains v = b.contains v := by
  have := (List.all_eq_true.mp h) v (VR.mem_all v)
  simpa using this

theorem encShort_contains (ts : Syntax) (hts : ts.explicit = true) (v : VR) :
    ts.encShort.contains v = ps35.contains v := by
  cases ts
  · cases hts
  · exact sameSet_contains short_list_is_ps35.1 v
  · exact sameSet_contains short_list_is_ps35.2.1 v

theorem decShort_contains (ts : Syntax) (hts : ts.explicit = true) (v : VR) :
    ts.decShort.contains v = ps35.contains v := by
  cases ts
  · cases hts
  · exact sameSet_contains short_list_is_ps35.2.2.1 v
  · exact sameSet_contains short_list_is_ps35.2.2.2.1 v

theorem encodeHeader_explicit (ts : Syntax) (hts : ts.explicit = true) (h : ElemHeader) :
    encodeHeader ts h = encodeExplicitWith ts.encShort ts.bigEndian h := by
  cases ts
  · cases hts
  · rfl
  · rfl

theorem decodeHeader_explicit (ts : Syntax) (hts : ts.explicit = true) (dict : Tag → Option VR) (bs : Bytes) :
    decodeHeader ts dict bs = decodeExplicitWith ts.decShort ts.bigEndian bs := by
  cases ts
  · cases hts
  · rfl
  · rfl

/-! ### VR codes -/

/-- the `enum VR` of the source has exactly the model's 34 constructors, in the same order -/
theorem vr_enum_matches : Gen.vrAll = VR.ctors := by decide

/-- every VR has a two-byte code (the indexing in `to_bytes` never panics) and both are bytes -/
theorem to_bytes_total (v : VR) : v.toBytes? = some v.toBytes ∧ v.toBytes.1 < 256 ∧ v.toBytes.2 < 256 :=
  ⟨VR.toBytes?_eq v, VR.toBytes_lt v⟩

/-- the VR code table is complete: all 34 VRs are listed -/
theorem vr_all_complete (v : VR) : v ∈ VR.all := VR.mem_all v

theorem lookup_some_mem {α β : Type} [BEq α] [LawfulBEq α] {k : α} {v : β} :
    ∀ {l : List (α × β)}, l.lookup k = some v → (k, v) ∈ l
  | [], h => by simp [List.lookup] at h
  | (k', v') :: l, h => by
    simp only [List.lookup] at h
    by_cases hk : k == k'
    · simp [hk] at h
      have : k = k' := by simpa using hk
      subst this; subst h; exact List.mem_cons_self
    · simp [hk] at h
      exact List.mem_cons_of_mem _ (lookup_some_mem h)

/-- A two-byte code is recognised as `v` if and only if it is `v`'s code — for **all** pairs of
bytes (indeed all pairs of naturals), not a sample. -/
theorem from_binary_iff (a b : Nat) (v : VR) : VR.fromBinary a b = some v ↔ v.toBytes = (a, b) := by
  constructor
  · intro h
    unfold VR.fromBinary at h
    split at h
    · have hm := lookup_some_mem h
      simp only [Gen.vrFromStr, List.mem_cons, Prod.mk.injEq, List.cons.injEq, List.mem_nil_iff,
        and_true, or_false] at hm
      rcases hm with hm | hm | hm | hm | hm | hm | hm | hm | hm | hm | hm | hm | hm | hm | hm | hm | hm
        | hm | hm | hm | hm | hm | hm | hm | hm | hm | hm | hm | hm | hm | hm | hm | hm | hm <;>
      (obtain ⟨⟨ha, hb⟩, hv⟩ := hm; subst ha; subst hb; subst hv; rfl)
    · cases h
  · intro h
    have := VR.fromBinary_toBytes v
    rw [h] at this
    exact this

/-- a code is recognised iff it is the code of one of the defined VRs -/
theorem from_binary_recognised_iff (a b : Nat) :
    (VR.fromBinary a b).isSome = true ↔ ∃ v ∈ VR.all, v.toBytes = (a, b) := by
  constructor
  · intro h
    match hv : VR.fromBinary a b with
    | some v => exact ⟨v, VR.mem_all v, (from_binary_iff a b v).mp hv⟩
    | none => simp [hv] at h
  · rintro ⟨v, _, hv⟩
    simp [(from_binary_iff a b v).mpr hv]

/-- codes are pairwise distinct -/
theorem to_bytes_injective (v w : VR) (h : v.toBytes = w.toBytes) : v = w := by
  have h1 := (from_binary_iff w.toBytes.1 w.toBytes.2 v).mpr (by rw [h])
  have h2 := VR.fromBinary_toBytes w
  rw [h1] at h2
  exact Option.some.inj h2

/-! ### layout -/

/-- explicit byte layout of a 16/32-bit field in the two byte orders -/
def u16Bytes (be : Bool) (n : Nat) : Bytes :=
  if be then [n / 256 % 256, n % 256] else [n % 256, n / 256 % 256]
def u32Bytes (be : Bool) (n : Nat) : Bytes :=
  if be then [n / 16777216 % 256, n / 65536 % 256, n / 256 % 256, n % 256]
  else [n % 256, n / 256 % 256, n / 65536 % 256, n / 16777216 % 256]

theorem enc16_eq (be : Bool) (n : Nat) : enc16 be n = u16Bytes be n := by cases be <;> rfl
theorem enc32_eq (be : Bool) (n : Nat) : enc32 be n = u32Bytes be n := by cases be <;> rfl

/-- **Layout, explicit VR, 16-bit form**: used for exactly the PS3.5 VRs (with `header_layout_long`),
bytes are tag ‖ VR ‖ len16 in the syntax's byte order, reported count 8. -/
theorem header_layout_short (ts : Syntax) (hts : ts.explicit = true) (h : ElemHeader)
    (hv : h.vr ∈ ps35) (hl : h.len ≤ 0xFFFF) :
    encodeHeader ts h = .ok
      (u16Bytes ts.bigEndian h.tag.group ++ u16Bytes ts.bigEndian h.tag.elem ++
        [h.vr.toBytes.1, h.vr.toBytes.2] ++ u16Bytes ts.bigEndian h.len, 8) := by
  have hc : ts.encShort.contains h.vr = true := by
    rw [encShort_contains ts hts]; simpa using hv
  have : ¬ h.len > 65535 := by omega
  rw [encodeHeader_explicit ts hts]
  simp only [encodeExplicitWith, hc, this, if_true, if_false, encodeTag, enc16_eq]

/-- **Layout, explicit VR, 32-bit form**: every other VR — tag ‖ VR ‖ 00 00 ‖ len32, count 12. -/
theorem header_layout_long (ts : Syntax) (hts : ts.explicit = true) (h : ElemHeader)
    (hv : h.vr ∉ ps35) :
    encodeHeader ts h = .ok
      (u16Bytes ts.bigEndian h.tag.group ++ u16Bytes ts.bigEndian h.tag.elem ++
        [h.vr.toBytes.1, h.vr.toBytes.2] ++ [0, 0] ++ u32Bytes ts.bigEndian h.len, 12) := by
  have hc : ts.encShort.contains h.vr = false := by
    rw [encShort_contains ts hts]; simpa using hv
  rw [encodeHeader_explicit ts hts]
  simp only [encodeExplicitWith, hc, encodeTag, enc16_eq, enc32_eq]
  rfl

/-- **Layout, Implicit VR LE**: tag ‖ len32, little endian, count 8, whatever the VR. -/
theorem header_layout_implicit (h : ElemHeader) :
    encodeHeader .implicitLE h = .ok
      (u16Bytes false h.tag.group ++ u16Bytes false h.tag.elem ++ u32Bytes false h.len, 8) := rfl

/-- **A 16-bit-form header whose length does not fit is rejected, never truncated.** -/
theorem short_overflow_rejected (ts : Syntax) (hts : ts.explicit = true) (h : ElemHeader)
    (hv : h.vr ∈ ps35) (hl : h.len > 0xFFFF) :
    encodeHeader ts h = .error (.headerTooLong h.len) := by
  have hc : ts.encShort.contains h.vr = true := by
    rw [encShort_contains ts hts]; simpa using hv
  rw [encodeHeader_explicit ts hts]
  simp only [encodeExplicitWith, hc, hl, if_true]

/-- encoding fails in no other case -/
theorem encode_ok_iff (ts : Syntax) (h : ElemHeader) :
    (∃ r, encodeHeader ts h = .ok r) ↔ ¬ (ts.explicit = true ∧ h.vr ∈ ps35 ∧ h.len > 0xFFFF) := by
  by_cases hts : ts.explicit = true
  · by_cases hv : h.vr ∈ ps35
    · by_cases hl : h.len > 0xFFFF
      · simp [short_overflow_rejected ts hts h hv hl, hts, hv, hl]
      · simp [header_layout_short ts hts h hv (by omega), hl]
    · simp [header_layout_long ts hts h hv, hv]
  · cases ts <;> simp_all [Syntax.explicit, header_layout_implicit]

/-- the reported byte count is the number of bytes written -/
theorem count_is_length (ts : Syntax) (h : ElemHeader) (bs : Bytes) (n : Nat)
    (he : encodeHeader ts h = .ok (bs, n)) : n = bs.length := by
  by_cases hts : ts.explicit = true
  · by_cases hv : h.vr ∈ ps35
    · by_cases hl : h.len > 0xFFFF
      · rw [short_overflow_rejected ts hts h hv hl] at he; cases he
      · rw [header_layout_short ts hts h hv (by omega)] at he
        injection he with he; injection he with h1 h2; subst h1; subst h2
        cases ts.bigEndian <;> rfl
    · rw [header_layout_long ts hts h hv] at he
      injection he with he; injection he with h1 h2; subst h1; subst h2
      cases ts.bigEndian <;> rfl
  · cases ts
    · rw [header_layout_implicit] at he
      injection he with he; injection he with h1 h2; subst h1; subst h2; rfl
    · exact absurd rfl hts
    · exact absurd rfl hts

/-- items and delimiters are tag ‖ 32-bit length -/
theorem item_layout (be : Bool) (len : Nat) :
    encodeItemHeader be len = u16Bytes be 0xFFFE ++ u16Bytes be 0xE000 ++ u32Bytes be len ∧
    encodeItemDelimiter be = u16Bytes be 0xFFFE ++ u16Bytes be 0xE00D ++ [0, 0, 0, 0] ∧
    encodeSeqDelimiter be = u16Bytes be 0xFFFE ++ u16Bytes be 0xE0DD ++ [0, 0, 0, 0] := by
  cases be <;> exact ⟨rfl, rfl, rfl⟩

/-! ### round trip with exact byte count -/

/-- **Explicit VR**: decoding an encoded header followed by anything returns the same tag, VR and
length, reports exactly the number of bytes of the layout, and leaves the rest untouched.
(Group 0xFFFE is the item/delimiter space: such tags are read as tag ‖ len32 — see
`explicit_group_fffe`.) -/
theorem header_rt_explicit (ts : Syntax) (hts : ts.explicit = true) (dict : Tag → Option VR)
    (h : ElemHeader) (ht : h.tag.Valid) (hg : h.tag.group ≠ 0xFFFE) (hl : h.len < 4294967296)
    (bs : Bytes) (n : Nat) (he : encodeHeader ts h = .ok (bs, n)) (rest : Bytes) :
    decodeHeader ts dict (bs ++ rest) = some (h, bs.length, rest) := by
  rw [decodeHeader_explicit ts hts]
  rw [encodeHeader_explicit ts hts] at he
  -- the decoder's list denotes the same set as the encoder's
  have hsame : ∀ v, ts.decShort.contains v = ts.encShort.contains v := fun v => by
    rw [decShort_contains ts hts, encShort_contains ts hts]
  have key : decodeExplicitWith ts.decShort ts.bigEndian (bs ++ rest)
      = decodeExplicitWith ts.encShort ts.bigEndian (bs ++ rest) := by
    unfold decodeExplicitWith
    simp only [hsame]
  rw [key]
  obtain ⟨h1, h2⟩ := decodeExplicitWith_encode ts.encShort ts.bigEndian h ht hg hl rest bs n he
  rw [h1, h2]

/-- **Implicit VR LE**: same tag and length, 8 bytes; the VR is the dictionary's (the property's
documented normalisation), `OW` for Pixel Data and Overlay Data. -/
theorem header_rt_implicit (dict : Tag → Option VR) (h : ElemHeader) (ht : h.tag.Valid)
    (hl : h.len < 4294967296) (bs : Bytes) (n : Nat)
    (he : encodeHeader .implicitLE h = .ok (bs, n)) (rest : Bytes) :
    decodeHeader .implicitLE dict (bs ++ rest)
      = some (⟨h.tag, resolveImplicitVr dict h.tag, h.len⟩, bs.length, rest) ∧ bs.length = 8 := by
  simp only [encodeHeader] at he
  injection he with he; injection he with h1 h2; subst h1; subst h2
  have := decodeTag_encodeTag false h.tag ht (le32 h.len ++ rest)
  simp [decodeHeader, List.append_assoc, this, rdLe32_le32 _ hl]

/-- a tag of group 0xFFFE met by the explicit VR element decoder is read as tag ‖ len32 (8 bytes, VR
reported UN) — this is how item headers and delimiters inside data sets are read -/
theorem explicit_group_fffe (ts : Syntax) (hts : ts.explicit = true) (dict : Tag → Option VR)
    (e len : Nat) (he : e < 65536) (hl : len < 4294967296) (rest : Bytes) :
    decodeHeader ts dict (encodeTag ts.bigEndian ⟨0xFFFE, e⟩ ++ enc32 ts.bigEndian len ++ rest)
      = some (⟨⟨0xFFFE, e⟩, .UN, len⟩, 8, rest) := by
  rw [decodeHeader_explicit ts hts]
  have hv : (Tag.mk 0xFFFE e).Valid := ⟨(by decide : 0xFFFE < 65536), he⟩
  simp [decodeExplicitWith, List.append_assoc, decodeTag_encodeTag _ _ hv, rd32_enc32 _ _ hl]

/-- item header and delimiters decode back, consuming exactly their 8 bytes -/
theorem item_rt (be : Bool) (len : Nat) (hl : len < 4294967296) (rest : Bytes) :
    decodeItemHeader be (encodeItemHeader be len ++ rest) = .ok (.item len, rest) ∧
    decodeItemHeader be (encodeItemDelimiter be ++ rest) = .ok (.itemDelim, rest) ∧
    decodeItemHeader be (encodeSeqDelimiter be ++ rest) = .ok (.seqDelim, rest) :=
  ⟨decodeItemHeader_item be len hl rest, decodeItemHeader_itemDelim be rest,
   decodeItemHeader_seqDelim be rest⟩

/-- the explicit-locked path of the adaptive decoder is the Explicit VR LE decoder -/
theorem adaptive_explicit_eq (bs : Bytes) :
    decodeExplicitWith Gen.adaptiveShort false bs = decodeExplicitWith Gen.decLeShort false bs := by
  have hsame : ∀ v, Gen.adaptiveShort.contains v = Gen.decLeShort.contains v := fun v => by
    rw [sameSet_contains short_list_is_ps35.2.2.2.2.1 v, sameSet_contains short_list_is_ps35.2.2.1 v]
  unfold decodeExplicitWith
  simp only [hsame]

theorem rd16_short {be : Bool} {bs : Bytes} (h : bs.length < 2) : rd16 be bs = none := by
  match bs, h with
  | [], _ => cases be <;> rfl
  | [_], _ => cases be <;> rfl
  | _ :: _ :: _, h => simp at h; omega

theorem rd32_short {be : Bool} {bs : Bytes} (h : bs.length < 4) : rd32 be bs = none := by
  match bs, h with
  | [], _ => cases be <;> rfl
  | [_], _ => cases be <;> rfl
  | [_, _], _ => cases be <;> rfl
  | [_, _, _], _ => cases be <;> rfl
  | _ :: _ :: _ :: _ :: _, h => simp at h; omega

theorem explicit_prefix_incomplete (short : List VR) (be : Bool) (h : ElemHeader)
    (ht : h.tag.Valid) (hg : h.tag.group ≠ 0xFFFE)
    (bs : Bytes) (n : Nat) (he : encodeExplicitWith short be h = .ok (bs, n)) (k : Nat) (hk : k < bs.length) :
    decodeExplicitWith short be (bs.take k) = none := by
  have hfb := VR.fromBinary_toBytes h.vr
  have ht0 : decodeTag be (encodeTag be h.tag) = some (h.tag, []) := by
    simpa using decodeTag_encodeTag be h.tag ht []
  by_cases h4 : k < 4
  · have : decodeTag be (bs.take k) = none := decodeTag_short (by simp; omega)
    simp [decodeExplicitWith, this]
  · unfold encodeExplicitWith at he
    by_cases hs : short.contains h.vr = true
    · have hm : h.vr ∈ short := by simpa using hs
      simp only [hs, if_true] at he
      by_cases hlen : h.len > 0xFFFF
      · simp [hlen] at he
      · simp only [hlen, if_false] at he
        injection he with he; injection he with hb hn; subst hb; subst hn
        simp only [List.append_assoc] at hk ⊢
        have hk8 : k < 8 := by simpa using hk
        rw [List.take_append, encodeTag_length, List.take_of_length_le (by simp; omega)]
        obtain ⟨j, rfl⟩ : ∃ j, k = 4 + j := ⟨k - 4, by omega⟩
        simp only [Nat.add_sub_cancel_left]
        match j, hk8 with
        | 0, _ => simp [decodeExplicitWith, ht0, hg]
        | 1, _ => simp [decodeExplicitWith, decodeTag_encodeTag _ _ ht, hg]
        | 2, _ => simp [decodeExplicitWith, decodeTag_encodeTag _ _ ht, hg, hfb, hm, rd16_short]
        | 3, _ =>
          have : rd16 be (List.take 1 (enc16 be h.len)) = none := rd16_short (by simp)
          simp [decodeExplicitWith, decodeTag_encodeTag _ _ ht, hg, hfb, hm, this]
        | j + 4, hj => omega
    · have hm : h.vr ∉ short := by simpa using hs
      simp only [hs] at he
      injection he with he; injection he with hb hn; subst hb; subst hn
      simp only [List.append_assoc] at hk ⊢
      have hk12 : k < 12 := by simpa using hk
      rw [List.take_append, encodeTag_length, List.take_of_length_le (by simp; omega)]
      obtain ⟨j, rfl⟩ : ∃ j, k = 4 + j := ⟨k - 4, by omega⟩
      simp only [Nat.add_sub_cancel_left]
      match j, hk12 with
      | 0, _ => simp [decodeExplicitWith, ht0, hg]
      | 1, _ => simp [decodeExplicitWith, decodeTag_encodeTag _ _ ht, hg]
      | 2, _ => simp [decodeExplicitWith, decodeTag_encodeTag _ _ ht, hg, hfb, hm]
      | 3, _ => simp [decodeExplicitWith, decodeTag_encodeTag _ _ ht, hg, hfb, hm]
      | 4, _ => simp [decodeExplicitWith, decodeTag_encodeTag _ _ ht, hg, hfb, hm, rd32_short]
      | 5, _ =>
        have : rd32 be (List.take 1 (enc32 be h.len)) = none := rd32_short (by simp)
        simp [decodeExplicitWith, decodeTag_encodeTag _ _ ht, hg, hfb, hm, this]
      | 6, _ =>
        have : rd32 be (List.take 2 (enc32 be h.len)) = none := rd32_short (by simp)
        simp [decodeExplicitWith, decodeTag_encodeTag _ _ ht, hg, hfb, hm, this]
      | 7, _ =>
        have : rd32 be (List.take 3 (enc32 be h.len)) = none := rd32_short (by simp)
        simp [decodeExplicitWith, decodeTag_encodeTag _ _ ht, hg, hfb, hm, this]
      | j + 8, hj => omega

/-- a truncated header is an error (EOF), never a header: every strict prefix of an encoded header
fails to decode (explicit VR) -/
theorem header_prefix_incomplete (ts : Syntax) (hts : ts.explicit = true) (dict : Tag → Option VR)
    (h : ElemHeader) (ht : h.tag.Valid) (hg : h.tag.group ≠ 0xFFFE)
    (bs : Bytes) (n : Nat) (he : encodeHeader ts h = .ok (bs, n)) (k : Nat) (hk : k < bs.length) :
    decodeHeader ts dict (bs.take k) = none := by
  rw [decodeHeader_explicit ts hts]
  rw [encodeHeader_explicit ts hts] at he
  have hsame : ∀ v, ts.decShort.contains v = ts.encShort.contains v := fun v => by
    rw [decShort_contains ts hts, encShort_contains ts hts]
  have key : decodeExplicitWith ts.decShort ts.bigEndian (bs.take k)
      = decodeExplicitWith ts.encShort ts.bigEndian (bs.take k) := by
    unfold decodeExplicitWith
    simp only [hsame]
  rw [key]
  exact explicit_prefix_incomplete ts.encShort ts.bigEndian h ht hg bs n he k hk

/-! ### non-vacuity and the excluded points -/

example : encodeHeader .explicitLE ⟨⟨0x0010, 0x0010⟩, .PN, 8⟩
    = .ok ([0x10, 0, 0x10, 0, 80, 78, 8, 0], 8) := by rfl
example : encodeHeader .explicitBE ⟨⟨0x7FE0, 0x0010⟩, .OW, 0xFFFFFFFF⟩
    = .ok ([0x7F, 0xE0, 0, 0x10, 79, 87, 0, 0, 255, 255, 255, 255], 12) := by rfl
example : encodeHeader .explicitLE ⟨⟨0x0010, 0x0010⟩, .PN, 0x10000⟩ = .error (.headerTooLong 0x10000) := by rfl
/-- lower-case or unknown codes are not VRs -/
example : VR.fromBinary 97 101 = none ∧ VR.fromBinary 0 0 = none ∧ VR.fromBinary 0xC3 0xA9 = none := by decide

end Dicom.C03
