import DicomModel.Model.Encap
import DicomModel.Lemmas.Encap
/-
C18 — Encapsulated pixel data has a correct offset table, fragments and total length.

Model: `DicomModel/Model/Encap.lean` (repaired behaviour of DESIGN §7 #3, #4, #13).
All statements are over arbitrary byte lists / frame lists / frame counts (no size bound other than
the `u32` limits the code itself has, which are explicit hypotheses).

The default encoder pads an odd-length encoded frame with one NUL (repair of the findings
`odd-fragment-uncompressed` / `odd-fragment-jpeg-baseline` of an earlier round), so parity holds for
every writer: `transcode_fragments_even`.
-/
namespace Dicom.Encap

/-! ### `Fragments::new` -/

/-- Every fragment made by `Fragments::new` has the (even) effective size. -/
theorem fragments_size {data : Bytes} {fs sz : Nat} {frs : List Bytes}
    (hs : effSize data.length fs = .ok sz) (h : fragmentsNew data fs = .ok frs) :
    ∀ f ∈ frs, f.length = sz := by
  by_cases hsz : sz = 0
  · subst hsz
    simp only [fragmentsNew, hs, if_true, Outcome.ok.injEq] at h
    subst h; intro f hf; simp at hf
  · rw [fragmentsNew_eq hs hsz] at h
    simp only [Outcome.ok.injEq] at h
    subst h
    have hb := divCeil_bounds data.length sz (Nat.pos_of_ne_zero hsz)
    apply chunksExact_mem_len
    simp only [List.length_append, List.length_replicate]; omega

/-- **fragments_even** — every fragment has even length, for all data and all fragment sizes. -/
theorem fragments_even {data : Bytes} {fs : Nat} {frs : List Bytes}
    (h : fragmentsNew data fs = .ok frs) : ∀ f ∈ frs, f.length % 2 = 0 := by
  cases hs : effSize data.length fs with
  | panic => simp [fragmentsNew, hs] at h
  | ok sz =>
    intro f hf
    rw [fragments_size hs h f hf]
    exact effSize_even hs

/-- effective size 0 only arises for `fragment_size = 0` on data whose length is 0 modulo 2^32 -/
theorem effSize_zero {len fs : Nat} (h : effSize len fs = .ok 0) : fs = 0 ∧ len % (u32Max + 1) = 0 := by
  unfold effSize at h
  simp only at h
  by_cases hfs : fs = 0
  · subst hfs
    simp only [if_true] at h
    by_cases h1 : len % (u32Max + 1) % 2 = 0
    · rw [if_pos h1] at h; simp only [Outcome.ok.injEq] at h; exact ⟨rfl, h⟩
    · rw [if_neg h1] at h
      by_cases h2 : len % (u32Max + 1) + 1 ≤ u32Max
      · rw [if_pos h2] at h; simp only [Outcome.ok.injEq] at h; omega
      · rw [if_neg h2] at h; cases h
  · simp only [hfs, if_false] at h
    by_cases h1 : fs % 2 = 0
    · rw [if_pos h1] at h; simp only [Outcome.ok.injEq] at h; omega
    · rw [if_neg h1] at h
      by_cases h2 : fs + 1 ≤ u32Max
      · rw [if_pos h2] at h; simp only [Outcome.ok.injEq] at h; omega
      · rw [if_neg h2] at h; cases h

/-- **fragments_concat** — the concatenated fragments are the frame data followed by `k` zero
bytes, `k` smaller than the effective fragment size: nothing lost, nothing reordered
(in particular the last byte of a 17 000 001-byte frame survives, defect #4). -/
theorem fragments_concat {data : Bytes} {fs sz : Nat} {frs : List Bytes}
    (hlen : data.length ≤ u32Max)
    (hs : effSize data.length fs = .ok sz) (h : fragmentsNew data fs = .ok frs) :
    ∃ k, frs.flatten = data ++ List.replicate k 0 ∧ k ≤ sz - 1 ∧
      frs.length = divCeil data.length (max sz 1) := by
  by_cases hsz : sz = 0
  · subst hsz
    have hz := effSize_zero hs
    have hl : data.length = 0 := by
      have := hz.2; unfold u32Max at *; omega
    simp only [fragmentsNew, hs, if_true, Outcome.ok.injEq] at h
    subst h
    refine ⟨0, ?_, by simp, ?_⟩
    · simp [List.length_eq_zero_iff.mp hl]
    · simp [divCeil, hl]
  · rw [fragmentsNew_eq hs hsz] at h
    simp only [Outcome.ok.injEq] at h
    subst h
    have hb := divCeil_bounds data.length sz (Nat.pos_of_ne_zero hsz)
    refine ⟨sz * divCeil data.length sz - data.length, ?_, by omega, ?_⟩
    · rw [chunksExact_flatten (by simp only [List.length_append, List.length_replicate]; omega)]
      apply List.take_of_length_le
      simp only [List.length_append, List.length_replicate]; omega
    · rw [chunksExact_length]
      have : max sz 1 = sz := by omega
      rw [this]

/-- With `fragment_size = 0` (what `encapsulate` uses) a frame becomes at most one fragment holding
the data and **at most one pad byte**. -/
theorem fragments_whole {data : Bytes} {frs : List Bytes}
    (hlen : data.length < u32Max) (h : fragmentsNew data 0 = .ok frs) :
    frs.length ≤ 1 ∧ ∃ k, k ≤ 1 ∧ frs.flatten = data ++ List.replicate k 0 := by
  have hmod : data.length % (u32Max + 1) = data.length := Nat.mod_eq_of_lt (by omega)
  by_cases hev : data.length % 2 = 0
  · have hs : effSize data.length 0 = .ok data.length := by
      simp [effSize, hmod, hev]
    obtain ⟨k, h1, h2, h3⟩ := fragments_concat (by omega) hs h
    have hb : divCeil data.length (max data.length 1) ≤ 1 := by
      unfold divCeil
      by_cases h0 : data.length = 0
      · simp [h0]
      · have : max data.length 1 = data.length := by omega
        rw [this]
        apply Nat.le_of_lt_succ
        apply Nat.div_lt_of_lt_mul; omega
    refine ⟨by omega, ⟨0, by omega, ?_⟩⟩
    -- k is 0: total length is a multiple of the size
    by_cases h0 : data.length = 0
    · have : k = 0 := by omega
      subst this; exact h1
    · have hall := fragments_size hs h
      have hlenfl : frs.flatten.length = data.length + k := by simp [h1]
      have : frs.length = 1 ∨ frs.length = 0 := by omega
      rcases this with h1' | h0'
      · match frs, h1' with
        | [f], _ =>
          have := hall f (by simp)
          simp only [List.flatten_cons, List.flatten_nil, List.append_nil] at hlenfl
          have : k = 0 := by omega
          subst this; exact h1
      · have : frs = [] := List.length_eq_zero_iff.mp h0'
        subst this
        simp at hlenfl; omega
  · have hs : effSize data.length 0 = .ok (data.length + 1) := by
      have : data.length + 1 ≤ u32Max := by omega
      simp [effSize, hmod, hev, this]
    obtain ⟨k, h1, h2, h3⟩ := fragments_concat (by omega) hs h
    have hb : divCeil data.length (max (data.length + 1) 1) ≤ 1 := by
      unfold divCeil
      have : max (data.length + 1) 1 = data.length + 1 := by omega
      rw [this]
      apply Nat.le_of_lt_succ
      apply Nat.div_lt_of_lt_mul; omega
    refine ⟨by omega, ?_⟩
    have hall := fragments_size hs h
    have hlenfl : frs.flatten.length = data.length + k := by simp [h1]
    have hcnt : frs.length = 1 ∨ frs.length = 0 := by omega
    rcases hcnt with h1' | h0'
    · match frs, h1' with
      | [f], _ =>
        have := hall f (by simp)
        simp only [List.flatten_cons, List.flatten_nil, List.append_nil] at hlenfl
        exact ⟨k, by omega, h1⟩
    · have : frs = [] := List.length_eq_zero_iff.mp h0'
      subst this
      simp at hlenfl
      exact ⟨k, by omega, h1⟩

/-- the length-only model used for the large probes agrees with the byte-level one -/
theorem fragLens_spec {data : Bytes} {fs : Nat} {frs : List Bytes}
    (hlen : data.length ≤ u32Max) (h : fragmentsNew data fs = .ok frs) :
    ∃ sz, fragLens data.length fs = .ok (frs.length, sz) ∧ ∀ f ∈ frs, f.length = sz := by
  cases hs : effSize data.length fs with
  | panic => simp [fragmentsNew, hs] at h
  | ok sz =>
    obtain ⟨k, _, _, h3⟩ := fragments_concat hlen hs h
    by_cases hsz : sz = 0
    · subst hsz
      simp only [fragmentsNew, hs, if_true, Outcome.ok.injEq] at h
      subst h
      exact ⟨0, by simp [fragLens, hs], by simp⟩
    · refine ⟨sz, ?_, fragments_size hs h⟩
      have : max sz 1 = sz := by omega
      simp [fragLens, hs, hsz, h3, this]

/-- **no panic** — `Fragments::new` returns for every input below the `u32` limit, in particular
for fragment size 0 and for empty data (defect #3). -/
theorem fragments_no_panic (data : Bytes) (fs : Nat) (hfs : fs < u32Max) (hlen : data.length < u32Max) :
    ∃ frs, fragmentsNew data fs = .ok frs := by
  have hmod : data.length % (u32Max + 1) = data.length := Nat.mod_eq_of_lt (by omega)
  have : ∃ sz, effSize data.length fs = .ok sz := by
    unfold effSize
    simp only [hmod]
    generalize hx : (if fs = 0 then data.length else fs) = x
    have hxlt : x < u32Max := by by_cases h0 : fs = 0 <;> simp [h0] at hx <;> omega
    by_cases h1 : x % 2 = 0
    · exact ⟨x, by rw [if_pos h1]⟩
    · have h2 : x + 1 ≤ u32Max := by omega
      exact ⟨x + 1, by rw [if_neg h1, if_pos h2]⟩
  obtain ⟨sz, hs⟩ := this
  by_cases hsz : sz = 0
  · exact ⟨[], by simp [fragmentsNew, hs, hsz]⟩
  · exact ⟨_, fragmentsNew_eq hs hsz⟩

/-- at the very top of `u32` the `+ 1` overflows: the hypothesis of `fragments_no_panic` is needed -/
theorem fragments_overflow : fragmentsNew [1] u32Max = .panic := by decide

/-! ### `From<Vec<Fragments>>`: the basic offset table of the helpers -/

/-- **bot_is_prefix_sums** (helpers) — when the conversion does not panic, the table has one entry
per frame, entry `i` is `Σ_{j<i} Σ_{fragment of frame j} (8 + len)` (so entry 0 is 0), and the
fragments are those of the frames in order. -/
theorem bot_is_prefix_sums_helper {frames : List (List Bytes)} {table : List Nat} {frags : List Bytes}
    (h : fromFrames frames = .ok (table, frags)) :
    table.length = frames.length ∧ frags = frames.flatten ∧
    ∀ i, i < frames.length → table[i]? = some (((frames.take i).map frameLen).sum) := by
  unfold fromFrames at h
  by_cases he : frames.isEmpty
  · simp only [he, if_true, Outcome.ok.injEq, Prod.mk.injEq] at h
    have : frames = [] := List.isEmpty_iff.mp he
    subst this
    obtain ⟨rfl, rfl⟩ := h
    simp
  · simp only [he] at h
    have hne : frames ≠ [] := fun e => he (by simp [e])
    by_cases hp : (decide (frames.length > 1) && frames.any (fun fr => decide (fr.length > 1))) = true
    · rw [if_pos hp] at h; cases h
    · rw [if_neg hp] at h
      simp only [Bool.false_eq_true, if_false, Outcome.ok.injEq, Prod.mk.injEq] at h
      obtain ⟨rfl, rfl⟩ := h
      have hl : 0 + frames.length = frames.length - 1 + 1 := by
        have : frames.length ≠ 0 := fun e => hne (List.length_eq_zero_iff.mp e)
        omega
      rw [fromLoop_table (frames.length - 1) frames 0 0 hne hl, fromLoop_frags]
      refine ⟨prefixOffsets_length 0 frames, rfl, ?_⟩
      intro i hi
      rw [prefixOffsets_get 0 frames i hi]; simp

/-- the conversion panics exactly on the documented precondition: several frames, one of them
with more than one fragment -/
theorem fromFrames_no_panic (frames : List (List Bytes))
    (h : frames.length ≤ 1 ∨ ∀ fr ∈ frames, fr.length ≤ 1) : ∃ r, fromFrames frames = .ok r := by
  unfold fromFrames
  by_cases he : frames.isEmpty
  · exact ⟨([], []), by simp [he]⟩
  · simp only [he]
    have : (decide (frames.length > 1) && frames.any (fun fr => decide (fr.length > 1))) = false := by
      rcases h with h | h
      · have : ¬ frames.length > 1 := by omega
        simp [this]
      · have : frames.any (fun fr => decide (fr.length > 1)) = false := by
          simp only [List.any_eq_false, decide_eq_true_eq]
          intro fr hfr; have := h fr hfr; omega
        simp [this]
    simp [this]

theorem fromFrames_precondition_panics :
    fromFrames [[[1, 2], [3, 4]], [[5, 6]]] = .panic := by decide

theorem mapFrames_ok {fs : Nat} {ds : List Bytes} {frs : List (List Bytes)}
    (h : mapFrames fs ds = .ok frs) :
    frs.length = ds.length ∧ ∀ i, i < ds.length → fragmentsNew (ds.getD i []) fs = .ok (frs.getD i []) := by
  induction ds generalizing frs with
  | nil => simp only [mapFrames, Outcome.ok.injEq] at h; subst h; simp
  | cons d ds ih =>
    simp only [mapFrames] at h
    split at h
    · rename_i a b ha hb
      simp only [Outcome.ok.injEq] at h
      subst h
      obtain ⟨h1, h2⟩ := ih hb
      refine ⟨by simp [h1], ?_⟩
      intro i hi
      cases i with
      | zero => simpa using ha
      | succ i => simpa using h2 i (by simpa using hi)
    · cases h

/-- **`encapsulate` never panics** (frames below the `u32` limit): also not on empty frames. -/
theorem encapsulate_no_panic (frames : List Bytes) (hlen : ∀ d ∈ frames, d.length < u32Max) :
    ∃ r, encapsulate frames = .ok r := by
  have hmap : ∃ frs, mapFrames 0 frames = .ok frs ∧ ∀ fr ∈ frs, fr.length ≤ 1 := by
    induction frames with
    | nil => exact ⟨[], rfl, by simp⟩
    | cons d ds ih =>
      obtain ⟨frs, h1, h2⟩ := ih (fun d hd => hlen d (by simp [hd]))
      obtain ⟨fr, hfr⟩ := fragments_no_panic d 0 (by decide) (hlen d (by simp))
      refine ⟨fr :: frs, by simp [mapFrames, hfr, h1], ?_⟩
      intro x hx
      simp only [List.mem_cons] at hx
      rcases hx with rfl | hx
      · exact (fragments_whole (hlen d (by simp)) hfr).1
      · exact h2 x hx
  obtain ⟨frs, h1, h2⟩ := hmap
  obtain ⟨r, hr⟩ := fromFrames_no_panic frs (Or.inr h2)
  exact ⟨r, by simp [encapsulate, h1, hr]⟩

/-- `encapsulate`: everything the property says about the helper, in one statement. -/
theorem encapsulate_spec {frames : List Bytes} {table : List Nat} {frags : List Bytes}
    (hlen : ∀ d ∈ frames, d.length < u32Max) (h : encapsulate frames = .ok (table, frags)) :
    ∃ frs : List (List Bytes),
      frs.length = frames.length ∧ frags = frs.flatten ∧
      table.length = frames.length ∧
      (∀ i, i < frames.length → table[i]? = some (((frs.take i).map frameLen).sum)) ∧
      (∀ f ∈ frags, f.length % 2 = 0) ∧
      (∀ i, i < frames.length → (frs.getD i []).length ≤ 1 ∧
          ∃ k, k ≤ 1 ∧ (frs.getD i []).flatten = frames.getD i [] ++ List.replicate k 0) := by
  unfold encapsulate at h
  split at h
  · rename_i frs hm
    obtain ⟨hl, hget⟩ := mapFrames_ok hm
    obtain ⟨h1, h2, h3⟩ := bot_is_prefix_sums_helper h
    refine ⟨frs, hl, h2, by omega, fun i hi => h3 i (by omega), ?_, ?_⟩
    · intro f hf
      subst h2
      simp only [List.mem_flatten] at hf
      obtain ⟨fr, hfr, hf⟩ := hf
      obtain ⟨i, hi, rfl⟩ := List.getElem_of_mem hfr
      have := hget i (by omega)
      have hd : frs.getD i [] = frs[i] := by simp [List.getD, hi]
      rw [hd] at this
      exact fragments_even this f hf
    · intro i hi
      have hd : frames.getD i [] ∈ frames := by
        simp only [List.getD, List.getElem?_eq_getElem hi, Option.getD_some]; exact List.getElem_mem hi
      exact fragments_whole (hlen _ hd) (hget i hi)
  · cases h

/-! ### default `PixelDataWriter::encode` and `decode_and_encode` -/

/-- **bot_is_prefix_sums** (transcoding) — for any per-frame encoder, the offset table built by the
default `encode` has one entry per frame, the first is 0 and entry `i` is the sum of `8 + len` of
the fragments of all earlier frames; there is one fragment per frame, the one the encoder produced. -/
theorem bot_is_prefix_sums {enc : Nat → Option Bytes} {attr : Option Nat} {ops : List (Nat × Nat)}
    {e : Encapsulated} (h : transcodeEncap enc attr ops = some e) :
    e.table.length = attr.getD 1 ∧ e.fragments.length = attr.getD 1 ∧
    (∀ i, i < attr.getD 1 → (enc i).map padEven = e.fragments[i]?) ∧
    ∀ i, i < attr.getD 1 →
      e.table[i]? = some (((e.fragments.take i).map fun f => f.length + 8).sum) := by
  unfold transcodeEncap encodeDefault at h
  simp only [List.map_nil, List.sum_nil, List.nil_append] at h
  split at h
  · cases h
  · rename_i frags table hd
    split at hd
    · cases hd
    · rename_i ds ts hl
      simp only [Option.some.injEq, Prod.mk.injEq] at hd
      obtain ⟨rfl, rfl⟩ := hd
      simp only [Option.some.injEq] at h
      subst h
      obtain ⟨h1, h2, h3⟩ := encodeLoop_spec enc _ 0 0 ds ts hl
      simp only
      refine ⟨by rw [h2, prefixOffsets_length]; simp [h1], h1, ?_, ?_⟩
      · intro i hi; simpa using h3 i hi
      · intro i hi
        rw [h2, prefixOffsets_get 0 _ i (by simp [h1, hi])]
        simp [← List.map_take, frameLen, Function.comp_def]

/-- **fragments_even** (transcoding) — whatever the per-frame encoder writes (an odd-sized
uncompressed frame, an odd-length JPEG or deflate stream), every fragment of the transcoded object
has even length, and it is the encoder's output plus at most one NUL. -/
theorem transcode_fragments_even {enc : Nat → Option Bytes} {attr : Option Nat} {ops : List (Nat × Nat)}
    {e : Encapsulated} (h : transcodeEncap enc attr ops = some e) :
    (∀ f ∈ e.fragments, f.length % 2 = 0) ∧
    ∀ i, i < attr.getD 1 → ∃ fd k, enc i = some fd ∧ k ≤ 1 ∧
      e.fragments[i]? = some (fd ++ List.replicate k 0) := by
  obtain ⟨_, h2, h3, _⟩ := bot_is_prefix_sums h
  constructor
  · intro f hf
    obtain ⟨i, hi, rfl⟩ := List.getElem_of_mem hf
    have := h3 i (by omega)
    rw [List.getElem?_eq_getElem hi] at this
    cases he : enc i with
    | none => simp [he] at this
    | some fd =>
      simp only [he, Option.map_some, Option.some.injEq] at this
      rw [← this]; exact padEven_even fd
  · intro i hi
    have := h3 i hi
    cases he : enc i with
    | none =>
      simp only [he, Option.map_none] at this
      have hlt : i < e.fragments.length := by omega
      rw [List.getElem?_eq_getElem hlt] at this
      cases this
    | some fd =>
      obtain ⟨k, hk, hp⟩ := padEven_spec fd
      exact ⟨fd, k, rfl, hk, by rw [← this, he]; simp [hp]⟩

/-- the first entry is 0 whenever there is a frame -/
theorem bot_first_zero {enc : Nat → Option Bytes} {attr : Option Nat} {ops : List (Nat × Nat)}
    {e : Encapsulated} (h : transcodeEncap enc attr ops = some e) (hn : 0 < attr.getD 1) :
    e.table[0]? = some 0 := by
  have := (bot_is_prefix_sums h).2.2.2 0 hn
  simpa using this

/-- **total_length_eq_sum** — whatever operations the writer returned (the uncompressed writer sets
the native length, the deflated one the length of its last fragment), the attribute
(7FE0,0003) of the transcoded object is the sum of all fragment lengths. -/
theorem total_length_eq_sum {enc : Nat → Option Bytes} {attr : Option Nat} {ops : List (Nat × Nat)}
    {e : Encapsulated} (h : transcodeEncap enc attr ops = some e) :
    e.totalLength = some ((e.fragments.map List.length).sum) := by
  unfold transcodeEncap at h
  split at h
  · cases h
  · simp only [Option.some.injEq] at h
    subst h
    simp only [Attrs.get_put]

/-- the ordering matters: applying the operations last (the unrepaired order) gives the wrong total
for three deflated frames of 6 bytes -/
theorem total_length_needs_order :
    Attrs.get (Attrs.put (Attrs.put [] tagTotalLength 18) tagTotalLength 6) tagTotalLength ≠ some 18 := by
  decide

/-! ### `frame_pixel_data` -/

theorem length_flatten_of_nonempty {frames : List (List Bytes)} (hne : ∀ fr ∈ frames, fr ≠ [])
    (h : frames.flatten.length = frames.length) : ∀ fr ∈ frames, fr.length = 1 := by
  induction frames with
  | nil => intro fr hfr; simp at hfr
  | cons a rest ih =>
    have ha : 1 ≤ a.length := by
      have := hne a (by simp)
      cases a with
      | nil => exact absurd rfl this
      | cons _ _ => simp
    have hrest : rest.length ≤ rest.flatten.length := by
      clear ih h
      induction rest with
      | nil => simp
      | cons b r ihr =>
        have hb : 1 ≤ b.length := by
          have := hne b (by simp)
          cases b with
          | nil => exact absurd rfl this
          | cons _ _ => simp
        have := ihr (fun fr hfr => hne fr (by
          simp only [List.mem_cons] at hfr ⊢
          rcases hfr with h | h
          · exact Or.inl h
          · exact Or.inr (Or.inr h)))
        simp only [List.flatten_cons, List.length_append, List.length_cons]; omega
    simp only [List.flatten_cons, List.length_append, List.length_cons] at h
    intro fr hfr
    simp only [List.mem_cons] at hfr
    rcases hfr with rfl | hfr
    · omega
    · exact ih (fun fr hfr => hne fr (by simp [hfr])) (by omega) fr hfr

theorem flatten_singletons_get {frames : List (List Bytes)} (h1 : ∀ fr ∈ frames, fr.length = 1)
    (i : Nat) (hi : i < frames.length) : frames.flatten[i]? = some (frames[i]).flatten := by
  induction frames generalizing i with
  | nil => simp at hi
  | cons a rest ih =>
    have ha := h1 a (by simp)
    match a, ha with
    | [f], _ =>
      cases i with
      | zero => simp
      | succ i =>
        simp only [List.flatten_cons, List.singleton_append, List.getElem?_cons_succ, List.getElem_cons_succ]
        exact ih (fun fr hfr => h1 fr (by simp [hfr])) i (by simpa using hi)

/-- **frame_data_exact** — for an object whose fragments are those of `frames` (every frame at
least one fragment, any number of fragments per frame), whose table is the one the property
describes and whose Number of Frames is right, `frame_pixel_data(i)` is exactly the concatenation
of frame `i`'s fragments, for every frame. -/
theorem frame_data_exact (frames : List (List Bytes)) (attr : Option Nat)
    (hne : ∀ fr ∈ frames, fr ≠ []) (hattr : attr.getD 1 = frames.length)
    (i : Nat) (hi : i < frames.length) :
    framePixelData attr (prefixOffsets 0 frames) frames.flatten i = some (frames[i]).flatten := by
  unfold framePixelData
  by_cases hcnt : frames.flatten.length = attr.getD 1
  · -- one fragment per frame
    rw [if_pos hcnt]
    exact flatten_singletons_get (length_flatten_of_nonempty hne (by omega)) i hi
  · rw [if_neg hcnt]
    have hbase : (prefixOffsets 0 frames)[i]? = some (((frames.take i).map frameLen).sum) := by
      rw [prefixOffsets_get 0 frames i hi]; simp
    have hb : (if i = 0 then some ((prefixOffsets 0 frames)[i]?.getD 0) else (prefixOffsets 0 frames)[i]?)
        = some (((frames.take i).map frameLen).sum) := by
      by_cases h0 : i = 0
      · subst h0; simp [hbase]
      · simp [h0, hbase]
    simp only [hb]
    congr 1
    -- split the fragment list around frame i
    have hsplit : frames = frames.take i ++ frames[i] :: frames.drop (i + 1) := by
      conv => lhs; rw [← List.take_append_drop i frames]
      rw [List.drop_eq_getElem_cons hi]
    have hflat : frames.flatten = (frames.take i).flatten ++ (frames[i] ++ (frames.drop (i + 1)).flatten) := by
      have h := congrArg List.flatten hsplit
      rw [List.flatten_append, List.flatten_cons] at h
      exact h
    have hpre : frameLen (frames.take i).flatten = ((frames.take i).map frameLen).sum := by
      generalize frames.take i = l
      induction l with
      | nil => simp [frameLen]
      | cons a r ih => simp [frameLen_append, ih]
    have hfi : frames[i] ≠ [] := hne _ (List.getElem_mem hi)
    by_cases hlast : i + 1 < frames.length
    · have hnext : (prefixOffsets 0 frames)[i + 1]? =
          some (((frames.take i).map frameLen).sum + frameLen frames[i]) := by
        rw [prefixOffsets_get 0 frames (i + 1) hlast]
        rw [List.take_succ_eq_append_getElem hi]
        simp only [List.map_append, List.sum_append, List.map_cons, List.map_nil, List.sum_cons,
          List.sum_nil, Nat.zero_add, Nat.add_zero]
      rw [hnext, hflat]
      rw [gather_skip _ _ _ _ 0 (by simp [hpre]) (by
        intro n hn; simp only [Option.some.injEq] at hn
        have := frameLen_pos_of_ne_nil hfi; omega)]
      exact gather_take _ _ _ _ _ (Nat.le_refl _) hfi rfl
    · have hnext : (prefixOffsets 0 frames)[i + 1]? = none := by
        apply List.getElem?_eq_none
        rw [prefixOffsets_length]; omega
      have hdrop : frames.drop (i + 1) = [] := List.drop_eq_nil_of_le (by omega)
      rw [hnext, hflat, hdrop]
      rw [gather_skip _ _ _ _ 0 (by simp [hpre]) (by intro n hn; cases hn)]
      exact gather_take _ _ _ _ _ (Nat.le_refl _) hfi (by simp)

/-- a single frame may also come with an empty table (no Number of Frames needed) -/
theorem frame_data_exact_no_table (fr : List Bytes) (attr : Option Nat) (hattr : attr.getD 1 = 1)
    (hne : fr ≠ []) : framePixelData attr [] fr 0 = some fr.flatten := by
  unfold framePixelData
  by_cases hcnt : fr.length = attr.getD 1
  · rw [if_pos hcnt]
    match fr, hcnt with
    | [f], _ => simp
    | [], h => exact absurd rfl hne
    | _ :: _ :: _, h => simp at h; omega
  · rw [if_neg hcnt]
    simp only [List.getElem?_nil, Option.getD_none, if_true]
    congr 1
    have := gather_take 0 none fr [] 0 (Nat.le_refl _) hne rfl
    simpa using this

/-- frame retrieval after transcoding: every frame gives back exactly its fragment -/
theorem frame_data_after_transcode {enc : Nat → Option Bytes} {n : Nat} {ops : List (Nat × Nat)}
    {e : Encapsulated} (h : transcodeEncap enc (some n) ops = some e) (i : Nat) :
    framePixelData (some e.table.length) e.table e.fragments i = e.fragments[i]? := by
  obtain ⟨h1, h2, _, _⟩ := bot_is_prefix_sums h
  simp only [Option.getD_some] at h1 h2
  unfold framePixelData
  simp [h1, h2]

/-! ### the uncompressed writer -/

/-- a 3×3 8-bit frame (9 bytes) becomes a 10-byte fragment: frame plus one NUL -/
theorem uncompressed_odd_frame_padded :
    transcodeEncap (uncompressedFrame ⟨3, 3, 1, 8, some 1, [1, 2, 3, 4, 5, 6, 7, 8, 9]⟩) (some 1) []
      = some ⟨[0], [[1, 2, 3, 4, 5, 6, 7, 8, 9, 0]], 1, some 10⟩ := by decide

/-! ### non-vacuity -/

example : fragmentsNew [1, 2, 3] 0 = .ok [[1, 2, 3, 0]] := by decide
example : fragmentsNew [] 0 = .ok [] := by decide
example : fragmentsNew [1, 2, 3, 4, 5] 3 = .ok [[1, 2, 3, 4], [5, 0, 0, 0]] := by decide
example : encapsulate [[20, 30, 40], [], [50, 60, 70, 80]] =
    .ok ([0, 12, 12], [[20, 30, 40, 0], [50, 60, 70, 80]]) := by decide
example : transcodeEncap (uncompressedFrame ⟨1, 2, 1, 16, some 3, [1,2,3,4,5,6,7,8,9,10,11,12]⟩) (some 3)
    (uncompressedOps ⟨1, 2, 1, 16, some 3, [1,2,3,4,5,6,7,8,9,10,11,12]⟩)
    = some ⟨[0, 12, 24], [[1,2,3,4],[5,6,7,8],[9,10,11,12]], 3, some 12⟩ := by decide
example : framePixelData (some 3) [0, 22, 32] [[1, 1], [2, 2, 2, 2], [3, 3], [4, 4]] 0 = some [1, 1, 2, 2, 2, 2] := by
  decide

end Dicom.Encap
