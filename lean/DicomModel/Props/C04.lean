import DicomModel.Model.Writer
import DicomModel.Model.Valid
import DicomModel.Lemmas.Header
import DicomModel.Lemmas.Writer
import DicomModel.Props.C03
import DicomModel.Model.Charset
/-
C04 — Encoded output is structurally valid DICOM with exact lengths and padding; every reported
byte count equals the number of bytes written.

Models: `Model/Value.lean` (primitive encoders, StatefulEncoder), `Model/Writer.lean` (token stream,
DataSetWriter), `Model/Valid.lean` (the independent checker `validPS35` = the property's
"independent parser", also run on the real bytes by the driver).
-/
set_option linter.unusedSimpArgs false
namespace Dicom.C04

/-! ### byte counts of the primitive encoders -/

theorem joinCount_eq_length (l : List Bytes) : joinCount l = (joinBackslash l).length := by
  induction l with
  | nil => rfl
  | cons x r ih =>
    cases r with
    | nil => rfl
    | cons y r' =>
      simp only [joinCount, joinBackslash, List.length_append, List.length_cons] at ih ⊢
      omega

theorem flatMap_length_const {α : Type} (f : α → Bytes) (k : Nat) (h : ∀ a, (f a).length = k) (l : List α) :
    (l.flatMap f).length = l.length * k := by
  induction l with
  | nil => simp
  | cons a r ih => simp [List.flatMap_cons, ih, h, Nat.add_mul]; omega

/-- **`encode_primitive` returns the number of bytes it wrote**, for every value variant, both byte orders. -/
theorem primitive_count (be : Bool) (v : PValue) :
    (encodePrimitive be v).2 = (encodePrimitive be v).1.length := by
  cases v <;> simp only [encodePrimitive, joinCount_eq_length]
  all_goals first
    | rfl
    | (symm; apply flatMap_length_const; intro a; simp)

/-! ### `bytes_written` of the stateful encoder and the writer -/

/-- the counter invariant -/
def Enc.Exact (e : Enc) : Prop := e.written = e.out.length

theorem push_exact {e : Enc} (h : Enc.Exact e) (bs : Bytes) (n : Nat) (hn : n = bs.length) :
    Enc.Exact (e.push bs n) := by
  simp only [Enc.Exact, Enc.push, List.length_append] at *
  omega

theorem elementHeader_exact {e e' : Enc} (h : Enc.Exact e) (hd : ElemHeader)
    (he : e.elementHeader hd = .ok e') : Enc.Exact e' := by
  unfold Enc.elementHeader at he
  dsimp only at he
  generalize (if hd.len = undefinedLen then hd else { hd with len := evenLen hd.len }) = h' at he
  split at he
  · rename_i bs n henc
    injection he with he; subst he
    exact push_exact h bs n (C03.count_is_length _ _ _ _ henc)
  · cases he

theorem itemHeader_exact {e : Enc} (h : Enc.Exact e) (len : Nat) : Enc.Exact (e.itemHeader len) :=
  push_exact h _ _ (by simp)
theorem itemDelimiter_exact {e : Enc} (h : Enc.Exact e) : Enc.Exact e.itemDelimiter :=
  push_exact h _ _ (by simp)
theorem seqDelimiter_exact {e : Enc} (h : Enc.Exact e) : Enc.Exact e.seqDelimiter :=
  push_exact h _ _ (by simp)
theorem writeRaw_exact {e : Enc} (h : Enc.Exact e) (bs : Bytes) : Enc.Exact (e.writeRaw bs) :=
  push_exact h _ _ rfl
theorem writeBytes_exact {e : Enc} (h : Enc.Exact e) (bs : Bytes) : Enc.Exact (e.writeBytes bs) := by
  unfold Enc.writeBytes
  split
  · exact push_exact (push_exact h _ _ rfl) _ _ rfl
  · exact push_exact h _ _ rfl
theorem offsetTable_exact {e : Enc} (h : Enc.Exact e) (t : List Nat) : Enc.Exact (e.offsetTable t) :=
  push_exact h _ _ (by symm; apply flatMap_length_const; intro a; simp)

theorem headerAndValue_exact {e e' : Enc} (h : Enc.Exact e) (de : ElemHeader) (v : Bytes)
    (he : e.headerAndValue de v = .ok e') : Enc.Exact e' := by
  unfold Enc.headerAndValue at he
  split at he
  · rename_i e1 h1
    injection he with he; subst he
    exact push_exact (elementHeader_exact h _ h1) _ _ rfl
  · cases he

theorem primitiveElement_exact {e e' : Enc} (h : Enc.Exact e) (de : ElemHeader) (v : PValue)
    (he : e.primitiveElement de v = .ok e') : Enc.Exact e' := by
  unfold Enc.primitiveElement at he
  split at he
  · -- Str
    unfold Enc.textElement at he
    split at he
    · cases he
    · exact headerAndValue_exact h _ _ he
  · -- Strs
    unfold Enc.textsElement at he
    split at he
    · cases he
    · exact headerAndValue_exact h _ _ he
  · split at he
    · -- DS / IS as text
      unfold Enc.elementAsText at he
      split at he
      · exact elementHeader_exact h _ he
      · split at he
        · cases he
        · split at he
          · cases he
          · rename_i t _ e1 h1
            have hx := elementHeader_exact h _ h1
            split at he
            · injection he with he; subst he
              simp only [Enc.Exact, List.length_append, List.length_cons, List.length_nil] at *
              omega
            · injection he with he; subst he
              simp only [Enc.Exact, List.length_append] at *
              omega
    · split at he
      · cases he
      · rename_i e1 h1
        have hx := elementHeader_exact h _ h1
        have hc := primitive_count e.ts.bigEndian v
        generalize hp : encodePrimitive e.ts.bigEndian v = p at he hc
        obtain ⟨bs, n⟩ := p
        simp only at he hc
        have h2 : Enc.Exact (e1.push bs n) := push_exact hx bs n hc
        split at he
        · injection he with he; subst he
          exact push_exact h2 _ _ rfl
        · injection he with he; subst he
          exact h2

theorem encodePrimitiveElement_exact {e e' : Enc} (h : Enc.Exact e) (de : ElemHeader) (v : PValue)
    (he : e.encodePrimitiveElement de v = .ok e') : Enc.Exact e' :=
  primitiveElement_exact h de _ he

theorem writeImpl_exact {w w' : Writer} (h : Enc.Exact w.enc) (tok : Token)
    (he : w.writeImpl tok = .ok w') : Enc.Exact w'.enc := by
  cases tok <;> simp only [Writer.writeImpl] at he
  case elementHeader hd =>
    split at he
    · rename_i e1 h1; injection he with he; subst he; exact elementHeader_exact h _ h1
    · cases he
  case sequenceStart tag len =>
    split at he
    · rename_i e1 h1; injection he with he; subst he; exact elementHeader_exact h _ h1
    · cases he
  case pixelSequenceStart =>
    split at he
    · rename_i e1 h1; injection he with he; subst he; exact elementHeader_exact h _ h1
    · cases he
  case sequenceEnd => injection he with he; subst he; exact seqDelimiter_exact h
  case itemStart len => injection he with he; subst he; exact itemHeader_exact h len
  case itemEnd => injection he with he; subst he; exact itemDelimiter_exact h
  case primitiveValue v =>
    split at he
    · cases he
    · split at he
      · rename_i e1 h1; injection he with he; subst he; exact encodePrimitiveElement_exact h _ _ h1
      · cases he
  case itemValue bs => injection he with he; subst he; exact writeBytes_exact h bs
  case offsetTable t => injection he with he; subst he; exact offsetTable_exact h t
  case panic => cases he

theorem write_exact {w w' : Writer} (h : Enc.Exact w.enc) (tok : Token)
    (he : w.write tok = .ok w') : Enc.Exact w'.enc := by
  unfold Writer.write at he
  split at he
  · split at he <;> (refine writeImpl_exact ?_ _ he; exact h)
  · split at he <;> (try dsimp only at he) <;> (refine writeImpl_exact ?_ _ he; exact h)
  · split at he
    · dsimp only at he
      split at he
      · refine writeImpl_exact ?_ _ he; exact h
      · injection he with he; subst he; exact h
    · injection he with he; subst he; exact h
  · split at he
    · dsimp only at he
      split at he
      · refine writeImpl_exact ?_ _ he; exact h
      · injection he with he; subst he; exact h
    · injection he with he; subst he; exact h
  · injection he with he; subst he; exact h
  · refine writeImpl_exact ?_ _ he; exact h
  · exact writeImpl_exact h _ he
  · exact writeImpl_exact h _ he
  · exact writeImpl_exact h _ he
  · exact writeImpl_exact h _ he

/-- **Every byte count reported by the encoding layer equals the number of bytes written**: after
*any* token sequence (well-formed or not) fed to the data set writer, `bytes_written` of its printer is
the length of the output. -/
theorem count_exact (toks : List Token) : ∀ (w w' : Writer), Enc.Exact w.enc →
    w.writeAll toks = .ok w' → Enc.Exact w'.enc := by
  induction toks with
  | nil => intro w w' h he; simp only [Writer.writeAll] at he; injection he with he; subst he; exact h
  | cons t r ih =>
    intro w w' h he
    simp only [Writer.writeAll] at he
    split at he
    · rename_i w1 h1
      exact ih w1 w' (write_exact h t h1) he
    · cases he

theorem count_exact_dataset (ts : Syntax) (strat : Strategy) (toks : List Token) (w' : Writer)
    (he : (Writer.new ts strat).writeAll toks = .ok w') : w'.enc.written = w'.enc.out.length :=
  count_exact toks (Writer.new ts strat) w' (by simp [Enc.Exact, Writer.new, Enc.new]) he

/-! ### `calculate_byte_len` -/

def evenUp (n : Nat) : Nat := n + n % 2

theorem joinCount_sum (c : List Bytes) (h : c ≠ []) : joinCount c + 1 = sumLenPlus1 c := by
  induction c with
  | nil => exact absurd rfl h
  | cons x r ih =>
    cases r with
    | nil => simp [joinCount, sumLenPlus1]
    | cons y r' =>
      have := ih (by simp)
      simp only [joinCount, sumLenPlus1, List.map_cons, List.sum_cons] at this ⊢
      omega

theorem clearBit0_join (c : List Bytes) : evenUp (clearBit0 (sumLenPlus1 c)) = evenUp (joinCount c) := by
  cases c with
  | nil => rfl
  | cons x r =>
    have := joinCount_sum (x :: r) (by simp)
    simp only [evenUp, clearBit0]
    omega

/-- **`calculate_byte_len` is the encoded length rounded up to even**, for every variant (text variants:
default repertoire, where one character is one byte). This is what makes the header length written
by `encode_primitive_element` agree with the bytes that follow. -/
theorem byte_len_even_rounding (be : Bool) (v : PValue) :
    evenUp v.calculateByteLen = evenUp (encodePrimitive be v).2 := by
  cases v <;> simp only [PValue.calculateByteLen, encodePrimitive, clearBit0_join]

/-! ### a primitive element: header length = number of value bytes that follow, even, padded per VR -/

/-- the value field PS3.5 prescribes: raw value, plus one VR-specific padding byte when odd.
(`textPad`: NUL for UI, space otherwise; `binPad`: space for DA/DT/TM typed values, NUL otherwise;
numbers under DS/IS are decimal text padded with a space.) -/
def paddedValue (be : Bool) (vr : VR) (v : PValue) : Bytes :=
  match v with
  | .str s => padTo s (textPad vr)
  | .strs l => padTo (joinBackslash l) (textPad vr)
  | .empty => []
  | _ =>
    if vr = .DS ∨ vr = .IS then padTo ((v.numText?).getD []) 0x20
    else padTo (encodePrimitive be v).1 (binPad vr)

/-- text in the default repertoire -/
def Ascii (s : Bytes) : Prop := ∀ b ∈ s, b < 128

def ValueAscii : PValue → Prop
  | .str s => Ascii s
  | .strs l => ∀ s ∈ l, Ascii s
  | _ => True

/-- the DS/IS text path is only defined for the numeric variants (the code has `unreachable!()`) -/
def NumericUnderDsIs (vr : VR) (v : PValue) : Prop :=
  (vr = .DS ∨ vr = .IS) → (v.numText?).isSome ∨ v = .empty ∨ (∃ s, v = .str s) ∨ (∃ l, v = .strs l)

theorem padTo_even (bs : Bytes) (p : Nat) : (padTo bs p).length % 2 = 0 := by
  unfold padTo; split
  · simp; omega
  · omega

theorem padTo_length (bs : Bytes) (p : Nat) : (padTo bs p).length = evenUp bs.length := by
  unfold padTo evenUp; split
  · simp; omega
  · omega

theorem textEncode_ascii {s : Bytes} (h : Ascii s) : textEncode s = some s := by
  unfold textEncode
  have : s.all (· < 128) = true := by
    rw [List.all_eq_true]; intro b hb; simpa using h b hb
  simp [this]

theorem textEncodeAll_ascii : ∀ {l : List Bytes}, (∀ s ∈ l, Ascii s) → textEncodeAll l = some l
  | [], _ => rfl
  | s :: r, h => by
    have h1 := textEncode_ascii (h s (by simp))
    have h2 := textEncodeAll_ascii (l := r) (fun x hx => h x (by simp [hx]))
    simp [textEncodeAll, h1, h2]

theorem evenLen_of_even {n : Nat} (he : n % 2 = 0) (hb : n < 4294967295) : evenLen n = n := by
  unfold evenLen clearBit0; omega

theorem evenLen_eq_evenUp {n : Nat} (hb : n + 1 < 4294967296) : evenLen n = evenUp n := by
  unfold evenLen clearBit0 evenUp; omega

/-- header with length `len` (even, defined) then nothing else -/
theorem elementHeader_out {e e' : Enc} (hd : ElemHeader) (heven : hd.len % 2 = 0) (hb : hd.len < 4294967295)
    (he : e.elementHeader hd = .ok e') :
    ∃ hb n, encodeHeader e.ts hd = .ok (hb, n) ∧ e'.out = e.out ++ hb ∧ e'.ts = e.ts := by
  unfold Enc.elementHeader at he
  have hne : hd.len ≠ undefinedLen := by unfold undefinedLen; omega
  simp only [hne, if_false, evenLen_of_even heven hb] at he
  split at he
  · rename_i bs n henc
    injection he with he; subst he
    exact ⟨bs, n, henc, rfl, rfl⟩
  · cases he

theorem headerAndValue_out {e e' : Enc} (de : ElemHeader) (v : Bytes) (heven : v.length % 2 = 0)
    (hb : v.length < 4294967295) (he : e.headerAndValue de v = .ok e') :
    ∃ hbs n, encodeHeader e.ts ⟨de.tag, de.vr, v.length⟩ = .ok (hbs, n) ∧ e'.out = e.out ++ hbs ++ v := by
  unfold Enc.headerAndValue at he
  have hm : v.length % 4294967296 = v.length := Nat.mod_eq_of_lt (by omega)
  split at he
  · rename_i e1 h1
    injection he with he; subst he
    rw [hm] at h1
    obtain ⟨hbs, n, h2, h3, _⟩ := elementHeader_out ⟨de.tag, de.vr, v.length⟩ heven hb h1
    exact ⟨hbs, n, h2, by simp [Enc.push, h3]⟩
  · cases he

/-- **Each defined length equals the number of value bytes that follow and is even; odd values are
padded with the VR-specific byte.** Whatever the recorded header length, a primitive element is
written as the header carrying the true (padded) value length, followed by exactly `paddedValue`. -/
theorem primitive_element_layout {e e' : Enc} (de : ElemHeader) (v : PValue)
    (hascii : ValueAscii v) (hsize : (paddedValue e.ts.bigEndian de.vr v).length < 4294967295)
    (he : e.primitiveElement de v = .ok e') :
    let vb := paddedValue e.ts.bigEndian de.vr v
    vb.length % 2 = 0 ∧
    ∃ hbs n, encodeHeader e.ts ⟨de.tag, de.vr, vb.length⟩ = .ok (hbs, n) ∧ e'.out = e.out ++ hbs ++ vb := by
  intro vb
  have hdef : vb = paddedValue e.ts.bigEndian de.vr v := rfl
  have hsz : vb.length < 4294967295 := hsize
  clear hsize
  clear_value vb
  unfold Enc.primitiveElement at he
  split at he
  · -- Str
    rename_i text
    have hvb : vb = padTo text (textPad de.vr) := hdef
    unfold Enc.textElement at he
    rw [textEncode_ascii hascii] at he
    simp only at he
    rw [hvb] at hsz ⊢
    exact ⟨padTo_even _ _, headerAndValue_out de _ (padTo_even _ _) hsz he⟩
  · -- Strs
    rename_i texts
    have hvb : vb = padTo (joinBackslash texts) (textPad de.vr) := hdef
    unfold Enc.textsElement at he
    rw [textEncodeAll_ascii hascii] at he
    simp only at he
    rw [hvb] at hsz ⊢
    exact ⟨padTo_even _ _, headerAndValue_out de _ (padTo_even _ _) hsz he⟩
  · rename_i hnstr hnstrs
    split at he
    · -- DS / IS as text
      rename_i hds
      unfold Enc.elementAsText at he
      split at he
      · -- Empty
        have hvb : vb = [] := hdef
        rw [hvb]
        obtain ⟨hbs, n, h2, h3, _⟩ := elementHeader_out (e := e) ⟨de.tag, de.vr, 0⟩ (by show 0 % 2 = 0; decide) (by show 0 < 4294967295; decide) he
        exact ⟨rfl, hbs, n, h2, by simp [h3]⟩
      · rename_i hnempty
        split at he
        · cases he
        · rename_i t ht
          have hvb : vb = padTo t 0x20 := by
            rw [hdef]
            unfold paddedValue
            split
            · exact absurd rfl (hnstr _)
            · exact absurd rfl (hnstrs _)
            · exact absurd rfl hnempty
            · simp [hds, ht]
          rw [hvb] at hsz ⊢
          have hlen := padTo_length t 0x20
          rw [hlen] at hsz
          have hmod : t.length % 4294967296 = t.length := Nat.mod_eq_of_lt (by unfold evenUp at hsz; omega)
          rw [hmod, evenLen_eq_evenUp (by unfold evenUp at hsz; omega)] at he
          split at he
          · cases he
          · rename_i e1 h1
            obtain ⟨hbs, n, h2, h3, h4⟩ := elementHeader_out (e := e) ⟨de.tag, de.vr, evenUp t.length⟩
              (by show evenUp t.length % 2 = 0; unfold evenUp; omega) hsz h1
            refine ⟨padTo_even _ _, hbs, n, by rw [hlen]; exact h2, ?_⟩
            split at he
            · rename_i hodd
              injection he with he; subst he
              simp [h3, padTo, hodd]
            · rename_i hodd
              injection he with he; subst he
              simp [h3, padTo, hodd]
    · -- binary path
      rename_i hds
      have hvb : vb = padTo (encodePrimitive e.ts.bigEndian v).1 (binPad de.vr) ∨ (v = .empty ∧ vb = []) := by
        rw [hdef]
        unfold paddedValue
        split
        · exact absurd rfl (hnstr _)
        · exact absurd rfl (hnstrs _)
        · right; exact ⟨rfl, rfl⟩
        · left; simp [hds]
      have hvb' : vb = padTo (encodePrimitive e.ts.bigEndian v).1 (binPad de.vr) := by
        rcases hvb with h | ⟨h1, h2⟩
        · exact h
        · rw [h2, h1]; rfl
      have hcnt := primitive_count e.ts.bigEndian v
      have hround := byte_len_even_rounding e.ts.bigEndian v
      rw [hvb'] at hsz ⊢
      have hlen := padTo_length (encodePrimitive e.ts.bigEndian v).1 (binPad de.vr)
      rw [hlen, ← hcnt] at hsz
      rw [← hround] at hsz
      have hmod : v.calculateByteLen % 4294967296 = v.calculateByteLen :=
        Nat.mod_eq_of_lt (by unfold evenUp at hsz; omega)
      rw [hmod] at he
      split at he
      · cases he
      · rename_i e1 h1
        unfold Enc.elementHeader at h1
        have hne : v.calculateByteLen ≠ undefinedLen := by unfold undefinedLen; unfold evenUp at hsz; omega
        simp only [hne, if_false, evenLen_eq_evenUp (by unfold evenUp at hsz; omega : v.calculateByteLen + 1 < 4294967296)] at h1
        split at h1
        · rename_i hbs n henc
          injection h1 with h1; subst h1
          rw [hround, hcnt] at henc
          refine ⟨padTo_even _ _, hbs, n, by rw [hlen]; exact henc, ?_⟩
          generalize hp : encodePrimitive e.ts.bigEndian v = p at he hcnt
          obtain ⟨bs, cnt⟩ := p
          simp only at he hcnt
          subst hcnt
          split at he
          · rename_i hodd
            injection he with he; subst he
            have : bs.length % 2 = 1 := by omega
            simp [Enc.push, padTo, this]
          · rename_i hodd
            injection he with he; subst he
            have : ¬ bs.length % 2 = 1 := by omega
            simp [Enc.push, padTo, this]
        · cases h1

/-! ### writing never fails (`write_total`) and the writer is a structural recursion -/

theorem push_ts (e : Enc) (bs : Bytes) (n : Nat) : (e.push bs n).ts = e.ts := rfl

/-- the length the stateful encoder puts in the header -/
def hdrLen (l : Nat) : Nat := if l = undefinedLen then l else evenLen l

/-- a header whose (even-rounded) length fits its length field is written -/
theorem elementHeader_total (e : Enc) (hd : ElemHeader)
    (hfit : e.ts.explicit = true → hd.vr ∈ C03.ps35 → hdrLen hd.len ≤ 0xFFFF) :
    ∃ e', e.elementHeader hd = .ok e' ∧ e'.ts = e.ts := by
  unfold Enc.elementHeader
  dsimp only
  have hh : (if hd.len = undefinedLen then hd else { hd with len := evenLen hd.len })
      = ⟨hd.tag, hd.vr, hdrLen hd.len⟩ := by
    unfold hdrLen; split
    · rename_i hu; cases hd; simp_all
    · rfl
  rw [hh]
  obtain ⟨r, hr⟩ := (C03.encode_ok_iff e.ts ⟨hd.tag, hd.vr, hdrLen hd.len⟩).mpr (by
    intro h
    have := hfit h.1 h.2.1
    have h3 := h.2.2
    simp only at h3
    omega)
  obtain ⟨bs, n⟩ := r
  rw [hr]; exact ⟨_, rfl, rfl⟩

theorem sq_not_short : VR.SQ ∉ C03.ps35 := by decide
theorem ob_not_short : VR.OB ∉ C03.ps35 := by decide

/-- size condition on a primitive element for a given syntax: the padded value fits the length field
of its header (32 bits; 16 bits for the PS3.5 short VRs in explicit VR) -/
def FitsHeader (ts : Syntax) (vr : VR) (n : Nat) : Prop :=
  n < 4294967295 ∧ (ts.explicit = true → vr ∈ C03.ps35 → n ≤ 0xFFFF)

/-- under DS / IS a non-text value must be numeric (the code has `unreachable!()` for dates and tags) -/
def DsIsOk (vr : VR) (v : PValue) : Prop :=
  (vr = .DS ∨ vr = .IS) → match v with
    | .date _ | .dateTime _ | .time _ | .tags _ => False
    | _ => True

/-- **`encode_primitive_element` never fails** for a value in the default repertoire that fits its header -/
theorem primitiveElement_total (e : Enc) (de : ElemHeader) (v : PValue)
    (hascii : ValueAscii v) (hds : DsIsOk de.vr v)
    (hfit : FitsHeader e.ts de.vr (paddedValue e.ts.bigEndian de.vr v).length) :
    ∃ e', e.primitiveElement de v = .ok e' ∧ e'.ts = e.ts := by
  obtain ⟨hsz, hshort⟩ := hfit
  unfold Enc.primitiveElement
  split
  · -- Str
    rename_i text
    have hvb : paddedValue e.ts.bigEndian de.vr (.str text) = padTo text (textPad de.vr) := rfl
    rw [hvb] at hsz hshort
    unfold Enc.textElement
    rw [textEncode_ascii hascii]
    simp only
    unfold Enc.headerAndValue
    have hm : (padTo text (textPad de.vr)).length % 4294967296 = (padTo text (textPad de.vr)).length :=
      Nat.mod_eq_of_lt (by omega)
    obtain ⟨e1, h1, h2⟩ := elementHeader_total e ⟨de.tag, de.vr, (padTo text (textPad de.vr)).length % 4294967296⟩ (by
      intro hx hv
      rw [hm]; unfold hdrLen
      have hne : (padTo text (textPad de.vr)).length ≠ undefinedLen := by unfold undefinedLen; omega
      simp only [hne, if_false, evenLen_of_even (padTo_even _ _) hsz]
      exact hshort hx hv)
    rw [h1]; exact ⟨_, rfl, by simp [Enc.push, h2]⟩
  · -- Strs
    rename_i texts
    have hvb : paddedValue e.ts.bigEndian de.vr (.strs texts) = padTo (joinBackslash texts) (textPad de.vr) := rfl
    rw [hvb] at hsz hshort
    unfold Enc.textsElement
    rw [textEncodeAll_ascii hascii]
    simp only
    unfold Enc.headerAndValue
    have hm : (padTo (joinBackslash texts) (textPad de.vr)).length % 4294967296
        = (padTo (joinBackslash texts) (textPad de.vr)).length := Nat.mod_eq_of_lt (by omega)
    obtain ⟨e1, h1, h2⟩ := elementHeader_total e
      ⟨de.tag, de.vr, (padTo (joinBackslash texts) (textPad de.vr)).length % 4294967296⟩ (by
      intro hx hv
      rw [hm]; unfold hdrLen
      have hne : (padTo (joinBackslash texts) (textPad de.vr)).length ≠ undefinedLen := by unfold undefinedLen; omega
      simp only [hne, if_false, evenLen_of_even (padTo_even _ _) hsz]
      exact hshort hx hv)
    rw [h1]; exact ⟨_, rfl, by simp [Enc.push, h2]⟩
  · rename_i hnstr hnstrs
    split
    · -- DS / IS as text
      rename_i hdsvr
      unfold Enc.elementAsText
      split
      · -- Empty
        obtain ⟨e1, h1, h2⟩ := elementHeader_total e ⟨de.tag, de.vr, 0⟩ (by
          intro _ _; show hdrLen 0 ≤ 0xFFFF; decide)
        exact ⟨e1, h1, h2⟩
      · rename_i hnempty
        have hnum : ∃ t, v.numText? = some t := by
          have := hds hdsvr
          cases v <;> simp_all [PValue.numText?]
        obtain ⟨t, ht⟩ := hnum
        have hvb : paddedValue e.ts.bigEndian de.vr v = padTo t 0x20 := by
          unfold paddedValue
          split
          · exact absurd rfl (hnstr _)
          · exact absurd rfl (hnstrs _)
          · exact absurd rfl hnempty
          · simp [hdsvr, ht]
        rw [hvb, padTo_length] at hsz hshort
        simp only [ht]
        have hmod : t.length % 4294967296 = t.length := Nat.mod_eq_of_lt (by unfold evenUp at hsz; omega)
        obtain ⟨e1, h1, h2⟩ := elementHeader_total e ⟨de.tag, de.vr, evenLen (t.length % 4294967296)⟩ (by
          intro hx hv
          rw [hmod, evenLen_eq_evenUp (by unfold evenUp at hsz; omega)]
          unfold hdrLen
          have hne : evenUp t.length ≠ undefinedLen := by unfold undefinedLen; omega
          simp only [hne, if_false, evenLen_of_even (by unfold evenUp; omega) hsz]
          exact hshort hx hv)
        rw [h1]
        simp only
        split
        · exact ⟨_, rfl, h2⟩
        · exact ⟨_, rfl, h2⟩
    · -- binary path
      rename_i hdsvr
      have hcnt := primitive_count e.ts.bigEndian v
      have hround := byte_len_even_rounding e.ts.bigEndian v
      have hvblen : (paddedValue e.ts.bigEndian de.vr v).length = evenUp v.calculateByteLen := by
        have : paddedValue e.ts.bigEndian de.vr v = padTo (encodePrimitive e.ts.bigEndian v).1 (binPad de.vr) := by
          unfold paddedValue
          split
          · exact absurd rfl (hnstr _)
          · exact absurd rfl (hnstrs _)
          · rfl
          · simp [hdsvr]
        rw [this, padTo_length, ← hcnt, hround]
      rw [hvblen] at hsz hshort
      have hmod : v.calculateByteLen % 4294967296 = v.calculateByteLen :=
        Nat.mod_eq_of_lt (by unfold evenUp at hsz; omega)
      obtain ⟨e1, h1, h2⟩ := elementHeader_total e ⟨de.tag, de.vr, v.calculateByteLen % 4294967296⟩ (by
        intro hx hv
        rw [hmod]; unfold hdrLen
        have hne : v.calculateByteLen ≠ undefinedLen := by unfold undefinedLen; unfold evenUp at hsz; omega
        simp only [hne, if_false, evenLen_eq_evenUp (by unfold evenUp at hsz; omega : v.calculateByteLen + 1 < 4294967296)]
        exact hshort hx hv)
      rw [h1]
      simp only
      generalize encodePrimitive e.ts.bigEndian v = p
      obtain ⟨bs, n⟩ := p
      simp only
      split
      · exact ⟨_, rfl, by simp [Enc.push, h2]⟩
      · exact ⟨_, rfl, by simp [Enc.push, h2]⟩

/-- the OW/U8 re-packing keeps a value writable -/
theorem owWords_ascii (vr : VR) (v : PValue) (h : ValueAscii v) : ValueAscii (owWords vr v) := by
  cases v <;> simp only [owWords] <;> first | exact h | (split <;> trivial)

theorem owWords_dsis (vr : VR) (v : PValue) (h : DsIsOk vr v) : DsIsOk vr (owWords vr v) := by
  cases v <;> simp only [owWords] <;> first | exact h | (split <;> first | exact h | (intro hx; trivial))

mutual
/-- well-formedness for writing in syntax `ts`: token-level `WF`, text in the default repertoire, every
value fits the length field of its header -/
def Elem.Writable (ts : Syntax) : Elem → Prop
  | .prim _ vr _ v =>
    ValueAscii v ∧ DsIsOk vr v ∧ FitsHeader ts vr (paddedValue ts.bigEndian vr (owWords vr v)).length
  | .seq _ _ items => Items.Writable ts items
  | .pix _ _ => True
def Items.Writable (ts : Syntax) : Items → Prop
  | .nil => True
  | .cons _ elems rest => Elems.Writable ts elems ∧ Items.Writable ts rest
def Elems.Writable (ts : Syntax) : Elems → Prop
  | .nil => True
  | .cons e rest => Elem.Writable ts e ∧ Elems.Writable ts rest
end

theorem recFrags_ts (frags : List Bytes) : ∀ e : Enc, (recFrags e frags).ts = e.ts := by
  induction frags with
  | nil => intro e; rfl
  | cons f r ih =>
    intro e
    simp only [recFrags, ih]
    unfold recFrag
    split
    · rfl
    · unfold Enc.writeBytes
      dsimp only
      split <;> rfl

theorem recBot_ts (bot : List Nat) (e : Enc) : (recBot e bot).ts = e.ts := by
  unfold recBot; split <;> rfl

mutual
theorem recElem_total (ts : Syntax) : ∀ (el : Elem), Elem.Writable ts el → ∀ (e : Enc), e.ts = ts →
    ∃ e', recElem e el = .ok e' ∧ e'.ts = ts
  | .prim tag vr len v, hw, e, he => by
    obtain ⟨h1, h2, h3⟩ := hw
    subst he
    obtain ⟨e', h, ht⟩ := primitiveElement_total e ⟨tag, vr, len⟩ (owWords vr v)
      (owWords_ascii vr v h1) (owWords_dsis vr v h2) h3
    exact ⟨e', h, ht⟩
  | .seq tag len items, hw, e, he => by
    obtain ⟨e1, h1, t1⟩ := elementHeader_total e ⟨tag, .SQ, undefinedLen⟩ (fun _ h => absurd h sq_not_short)
    obtain ⟨e2, h2, t2⟩ := recItems_total ts items hw e1 (t1.trans he)
    exact ⟨e2.seqDelimiter, by simp [recElem, exBind, h1, h2], t2⟩
  | .pix bot frags, _, e, he => by
    obtain ⟨e1, h1, t1⟩ := elementHeader_total e ⟨Tag.pixelData, .OB, undefinedLen⟩ (fun _ h => absurd h ob_not_short)
    refine ⟨(recFrags (recBot e1 bot) frags).seqDelimiter, by simp [recElem, exBind, h1], ?_⟩
    show (recFrags (recBot e1 bot) frags).ts = ts
    rw [recFrags_ts, recBot_ts, t1, he]
theorem recItems_total (ts : Syntax) : ∀ (its : Items), Items.Writable ts its → ∀ (e : Enc), e.ts = ts →
    ∃ e', recItems e its = .ok e' ∧ e'.ts = ts
  | .nil, _, e, he => ⟨e, rfl, he⟩
  | .cons len elems rest, hw, e, he => by
    obtain ⟨e1, h1, t1⟩ := recElems_total ts elems hw.1 (e.itemHeader undefinedLen) he
    obtain ⟨e2, h2, t2⟩ := recItems_total ts rest hw.2 e1.itemDelimiter t1
    exact ⟨e2, by simp [recItems, exBind, h1, h2], t2⟩
theorem recElems_total (ts : Syntax) : ∀ (es : Elems), Elems.Writable ts es → ∀ (e : Enc), e.ts = ts →
    ∃ e', recElems e es = .ok e' ∧ e'.ts = ts
  | .nil, _, e, he => ⟨e, rfl, he⟩
  | .cons el rest, hw, e, he => by
    obtain ⟨e1, h1, t1⟩ := recElem_total ts el hw.1 e he
    obtain ⟨e2, h2, t2⟩ := recElems_total ts rest hw.2 e1 t1
    exact ⟨e2, by simp [recElems, exBind, h1, h2], t2⟩
end

/-- **The data set writer is a structural recursion** (all depths, default strategy): the token state
machine produces exactly what the recursive writer `recElems` produces. -/
theorem write_tree_eq_rec (ts : Syntax) (t : Elems) (hwf : t.WF) :
    writeDataset ts .setUndefined t = exBind (recElems (Enc.new ts) t) (fun e => .ok e.out) :=
  writeDataset_eq_rec ts t hwf

/-- **Writing never fails and never panics** for a well-formed data set of any depth (default strategy):
no `Err`, no `panic` outcome of the model writer. -/
theorem write_total (ts : Syntax) (t : Elems) (hwf : t.WF) (hw : Elems.Writable ts t) :
    ∃ bs, writeDataset ts .setUndefined t = .ok bs := by
  rw [write_tree_eq_rec ts t hwf]
  obtain ⟨e', h, _⟩ := recElems_total ts t hw (Enc.new ts) rfl
  exact ⟨e'.out, by simp [exBind, h]⟩

/-! ### regression witness of a repaired defect (fix f2b04a4)

Before the fix `DataSetWriter::write` kept `last_de` = the Pixel Data header after an encapsulated
pixel data element had ended; under `SetUndefined` the next `ItemStart` then kept its recorded
explicit length while the item's content was rewritten with undefined lengths (structurally invalid
output). The tree below is the witness found by the correspondence run (case #0 of the runner). -/

def witnessTree : Elems :=
  .cons (.seq ⟨0x0008, 0x1140⟩ undefinedLen
    (.cons undefinedLen (.cons (.pix [] []) .nil)
      (.cons 20 (.cons (.seq ⟨0x0008, 0x1140⟩ 8 (.cons 0 .nil .nil)) .nil) .nil))) .nil

def explicitLECfg : Valid.Cfg := ⟨true, false, fun _ _ => false⟩

theorem set_undefined_witness_valid :
    ∃ bs, writeDataset .explicitLE .setUndefined witnessTree = .ok bs ∧
      Valid.validPS35 explicitLECfg bs = true := by
  refine ⟨_, rfl, ?_⟩
  decide +kernel

/-- with the recorded lengths left alone (`NoChange`) the same consistent tree is written validly -/
theorem no_change_witness_valid :
    ∃ bs, writeDataset .explicitLE .noChange witnessTree = .ok bs ∧
      Valid.validPS35 explicitLECfg bs = true := by
  refine ⟨_, rfl, ?_⟩
  decide +kernel

/-! ### text elements under any Specific Character Set (`encode_text_element` / `encode_texts_element`)

The declared length and the padding follow the *encoded* bytes, whatever the codec does to the length of the
text (a Latin-1 or Cyrillic page shortens non-ASCII text relative to UTF-8, UTF-8 may lengthen it): for EVERY
codec environment, set in force and text element, the value field written is the encoded text, plus exactly
one VR-specific padding byte when (and only when) that is odd; its length is even. -/

/-- the encoded text of an element before padding: the codec of the set in force (the default repertoire for
AE, AS, CS, DA, DS, DT, IS, TM, UI), components joined with the backslash byte -/
def textBody (codec : Charset.Gen.Cs → Charset.Codec) (cur : Charset.Gen.Cs) (e : Charset.Elem) : Option (List Nat) :=
  let c := if Charset.writerUsesDefault e.vr then codec .Default else codec cur
  match e.form with
  | .str => c.encode (e.vals.headD [])
  | .strs => (Charset.mapM' c.encode e.vals).map Charset.joinBs

open Charset in
theorem writeElem_eq (codec : Gen.Cs → Codec) (cur : Gen.Cs) (e : Charset.Elem) :
    writeElem codec cur e = (textBody codec cur e).map fun b =>
      (⟨e.tag, e.vr, padEven e.vr b⟩, if e.tag = scsTag then switchTo cur e.vals.head? else cur) := by
  obtain ⟨tag, vr, form, vals⟩ := e
  cases form
  · simp only [writeElem, textBody]
    cases (if writerUsesDefault vr = true then codec .Default else codec cur).encode (vals.headD []) <;> rfl
  · simp only [writeElem, textBody]
    cases mapM' (if writerUsesDefault vr = true then codec .Default else codec cur).encode vals <;> rfl

open Charset in
theorem text_value_even (codec : Gen.Cs → Codec) (cur : Gen.Cs) (e : Charset.Elem) (w : Wire) (cur' : Gen.Cs)
    (h : writeElem codec cur e = some (w, cur')) : w.bytes.length % 2 = 0 := by
  rw [writeElem_eq] at h
  cases hb : textBody codec cur e with
  | none => simp [hb] at h
  | some b =>
    simp only [hb, Option.map, Option.some.injEq, Prod.mk.injEq] at h
    obtain ⟨rfl, _⟩ := h
    simp only [padEven]
    split
    · simp only [List.length_append, List.length_cons, List.length_nil]; omega
    · omega

open Charset in
theorem text_value_padding (codec : Gen.Cs → Codec) (cur : Gen.Cs) (e : Charset.Elem) (w : Wire) (cur' : Gen.Cs)
    (h : writeElem codec cur e = some (w, cur')) :
    ∃ raw, textBody codec cur e = some raw ∧ w.tag = e.tag ∧ w.vr = e.vr ∧
      (raw.length % 2 = 0 → w.bytes = raw) ∧
      (raw.length % 2 = 1 → w.bytes = raw ++ [if e.vr = .UI then 0 else 32]) := by
  rw [writeElem_eq] at h
  cases hb : textBody codec cur e with
  | none => simp [hb] at h
  | some b =>
    simp only [hb, Option.map, Option.some.injEq, Prod.mk.injEq] at h
    obtain ⟨rfl, _⟩ := h
    refine ⟨b, rfl, rfl, rfl, ?_, ?_⟩ <;> intro hl <;> simp [padEven, hl]

/-- non-vacuity and the point of the statement: under ISO_IR 100 the PN "ã" (2 bytes of UTF-8) is ONE byte on
the wire and is padded; "ãb" (3 bytes of UTF-8) is two bytes and is not (kernel evaluation over the dumped page) -/
theorem latin1_padding_follows_encoded_length :
    (Charset.writeElem (Charset.codecOf fun _ => ⟨fun _ => none, fun _ => []⟩) .IsoIr100
        ⟨0x00100010, .PN, .strs, [[0xE3]]⟩).map (·.1.bytes) = some [0xE3, 32] ∧
    (Charset.writeElem (Charset.codecOf fun _ => ⟨fun _ => none, fun _ => []⟩) .IsoIr100
        ⟨0x00100010, .PN, .strs, [[0xE3, 98]]⟩).map (·.1.bytes) = some [0xE3, 98] := by
  decide +kernel

end Dicom.C04
