import DicomModel.Model.Writer
import DicomModel.Model.Valid
import DicomModel.Lemmas.Header
import DicomModel.Props.C03
/-
C04 — Encoded output is structurally valid DICOM with exact lengths and padding; every reported
byte count equals the number of bytes written.

Models: `Model/Value.lean` (primitive encoders, StatefulEncoder), `Model/Writer.lean` (token stream,
DataSetWriter), `Model/Valid.lean` (the independent checker `validPS35` = the property's
"independent parser", also run on the real bytes by the driver).
-/
set_option linter.unusedSimpArgs false
namespace Dicom.C04

/-! ### byte counts of the primitive encoders -/

theorem joinCount_eq_length (l : List Bytes) : joinCount l = (joinBackslash l).length := by
  induction l with
  | nil => rfl
  | cons x r ih =>
    cases r with
    | nil => rfl
    | cons y r' =>
      simp only [joinCount, joinBackslash, List.length_append, List.length_cons] at ih ⊢
      omega

theorem flatMap_length_const {α : Type} (f : α → Bytes) (k : Nat) (h : ∀ a, (f a).length = k) (l : List α) :
    (l.flatMap f).length = l.length * k := by
  induction l with
  | nil => simp
  | cons a r ih => simp [List.flatMap_cons, ih, h, Nat.add_mul]; omega

/-- **`encode_primitive` returns the number of bytes it wrote**, for every value variant, both byte orders. -/
theorem primitive_count (be : Bool) (v : PValue) :
    (encodePrimitive be v).2 = (encodePrimitive be v).1.length := by
  cases v <;> simp only [encodePrimitive, joinCount_eq_length]
  all_goals first
    | rfl
    | (symm; apply flatMap_length_const; intro a; simp)

/-! ### `bytes_written` of the stateful encoder and the writer -/

/-- the counter invariant -/
def Enc.Exact (e : Enc) : Prop := e.written = e.out.length

theorem push_exact {e : Enc} (h : Enc.Exact e) (bs : Bytes) (n : Nat) (hn : n = bs.length) :
    Enc.Exact (e.push bs n) := by
  simp only [Enc.Exact, Enc.push, List.length_append] at *
  omega

theorem elementHeader_exact {e e' : Enc} (h : Enc.Exact e) (hd : ElemHeader)
    (he : e.elementHeader hd = .ok e') : Enc.Exact e' := by
  unfold Enc.elementHeader at he
  dsimp only at he
  generalize (if hd.len = undefinedLen then hd else { hd with len := evenLen hd.len }) = h' at he
  split at he
  · rename_i bs n henc
    injection he with he; subst he
    exact push_exact h bs n (C03.count_is_length _ _ _ _ henc)
  · cases he

theorem itemHeader_exact {e : Enc} (h : Enc.Exact e) (len : Nat) : Enc.Exact (e.itemHeader len) :=
  push_exact h _ _ (by simp)
theorem itemDelimiter_exact {e : Enc} (h : Enc.Exact e) : Enc.Exact e.itemDelimiter :=
  push_exact h _ _ (by simp)
theorem seqDelimiter_exact {e : Enc} (h : Enc.Exact e) : Enc.Exact e.seqDelimiter :=
  push_exact h _ _ (by simp)
theorem writeRaw_exact {e : Enc} (h : Enc.Exact e) (bs : Bytes) : Enc.Exact (e.writeRaw bs) :=
  push_exact h _ _ rfl
theorem writeBytes_exact {e : Enc} (h : Enc.Exact e) (bs : Bytes) : Enc.Exact (e.writeBytes bs) := by
  unfold Enc.writeBytes
  split
  · exact push_exact (push_exact h _ _ rfl) _ _ rfl
  · exact push_exact h _ _ rfl
theorem offsetTable_exact {e : Enc} (h : Enc.Exact e) (t : List Nat) : Enc.Exact (e.offsetTable t) :=
  push_exact h _ _ (by symm; apply flatMap_length_const; intro a; simp)

theorem headerAndValue_exact {e e' : Enc} (h : Enc.Exact e) (de : ElemHeader) (v : Bytes)
    (he : e.headerAndValue de v = .ok e') : Enc.Exact e' := by
  unfold Enc.headerAndValue at he
  split at he
  · rename_i e1 h1
    injection he with he; subst he
    exact push_exact (elementHeader_exact h _ h1) _ _ rfl
  · cases he

theorem primitiveElement_exact {e e' : Enc} (h : Enc.Exact e) (de : ElemHeader) (v : PValue)
    (he : e.primitiveElement de v = .ok e') : Enc.Exact e' := by
  unfold Enc.primitiveElement at he
  split at he
  · -- Str
    unfold Enc.textElement at he
    split at he
    · cases he
    · exact headerAndValue_exact h _ _ he
  · -- Strs
    unfold Enc.textsElement at he
    split at he
    · cases he
    · exact headerAndValue_exact h _ _ he
  · split at he
    · -- DS / IS as text
      unfold Enc.elementAsText at he
      split at he
      · exact elementHeader_exact h _ he
      · split at he
        · cases he
        · split at he
          · cases he
          · rename_i t _ e1 h1
            have hx := elementHeader_exact h _ h1
            split at he
            · injection he with he; subst he
              simp only [Enc.Exact, List.length_append, List.length_cons, List.length_nil] at *
              omega
            · injection he with he; subst he
              simp only [Enc.Exact, List.length_append] at *
              omega
    · split at he
      · cases he
      · rename_i e1 h1
        have hx := elementHeader_exact h _ h1
        have hc := primitive_count e.ts.bigEndian v
        generalize hp : encodePrimitive e.ts.bigEndian v = p at he hc
        obtain ⟨bs, n⟩ := p
        simp only at he hc
        have h2 : Enc.Exact (e1.push bs n) := push_exact hx bs n hc
        split at he
        · injection he with he; subst he
          exact push_exact h2 _ _ rfl
        · injection he with he; subst he
          exact h2

theorem writeImpl_exact {w w' : Writer} (h : Enc.Exact w.enc) (tok : Token)
    (he : w.writeImpl tok = .ok w') : Enc.Exact w'.enc := by
  cases tok <;> simp only [Writer.writeImpl] at he
  case elementHeader hd =>
    split at he
    · rename_i e1 h1; injection he with he; subst he; exact elementHeader_exact h _ h1
    · cases he
  case sequenceStart tag len =>
    split at he
    · rename_i e1 h1; injection he with he; subst he; exact elementHeader_exact h _ h1
    · cases he
  case pixelSequenceStart =>
    split at he
    · rename_i e1 h1; injection he with he; subst he; exact elementHeader_exact h _ h1
    · cases he
  case sequenceEnd => injection he with he; subst he; exact seqDelimiter_exact h
  case itemStart len => injection he with he; subst he; exact itemHeader_exact h len
  case itemEnd => injection he with he; subst he; exact itemDelimiter_exact h
  case primitiveValue v =>
    split at he
    · cases he
    · split at he
      · rename_i e1 h1; injection he with he; subst he; exact primitiveElement_exact h _ _ h1
      · cases he
  case itemValue bs => injection he with he; subst he; exact writeBytes_exact h bs
  case offsetTable t => injection he with he; subst he; exact offsetTable_exact h t
  case panic => cases he

theorem write_exact {w w' : Writer} (h : Enc.Exact w.enc) (tok : Token)
    (he : w.write tok = .ok w') : Enc.Exact w'.enc := by
  unfold Writer.write at he
  split at he
  · split at he <;> (refine writeImpl_exact ?_ _ he; exact h)
  · split at he <;> (try dsimp only at he) <;> (refine writeImpl_exact ?_ _ he; exact h)
  · split at he
    · dsimp only at he
      split at he
      · refine writeImpl_exact ?_ _ he; exact h
      · injection he with he; subst he; exact h
    · injection he with he; subst he; exact h
  · split at he
    · dsimp only at he
      split at he
      · refine writeImpl_exact ?_ _ he; exact h
      · injection he with he; subst he; exact h
    · injection he with he; subst he; exact h
  · injection he with he; subst he; exact h
  · refine writeImpl_exact ?_ _ he; exact h
  · exact writeImpl_exact h _ he
  · exact writeImpl_exact h _ he
  · exact writeImpl_exact h _ he
  · exact writeImpl_exact h _ he

/-- **Every byte count reported by the encoding layer equals the number of bytes written**: after
*any* token sequence (well-formed or not) fed to the data set writer, `bytes_written` of its printer is
the length of the output. -/
theorem count_exact (toks : List Token) : ∀ (w w' : Writer), Enc.Exact w.enc →
    w.writeAll toks = .ok w' → Enc.Exact w'.enc := by
  induction toks with
  | nil => intro w w' h he; simp only [Writer.writeAll] at he; injection he with he; subst he; exact h
  | cons t r ih =>
    intro w w' h he
    simp only [Writer.writeAll] at he
    split at he
    · rename_i w1 h1
      exact ih w1 w' (write_exact h t h1) he
    · cases he

theorem count_exact_dataset (ts : Syntax) (strat : Strategy) (toks : List Token) (w' : Writer)
    (he : (Writer.new ts strat).writeAll toks = .ok w') : w'.enc.written = w'.enc.out.length :=
  count_exact toks (Writer.new ts strat) w' (by simp [Enc.Exact, Writer.new, Enc.new]) he

/-! ### `calculate_byte_len` -/

def evenUp (n : Nat) : Nat := n + n % 2

theorem joinCount_sum (c : List Bytes) (h : c ≠ []) : joinCount c + 1 = sumLenPlus1 c := by
  induction c with
  | nil => exact absurd rfl h
  | cons x r ih =>
    cases r with
    | nil => simp [joinCount, sumLenPlus1]
    | cons y r' =>
      have := ih (by simp)
      simp only [joinCount, sumLenPlus1, List.map_cons, List.sum_cons] at this ⊢
      omega

theorem clearBit0_join (c : List Bytes) : evenUp (clearBit0 (sumLenPlus1 c)) = evenUp (joinCount c) := by
  cases c with
  | nil => rfl
  | cons x r =>
    have := joinCount_sum (x :: r) (by simp)
    simp only [evenUp, clearBit0]
    omega

/-- **`calculate_byte_len` is the encoded length rounded up to even**, for every variant (text variants:
default repertoire, where one character is one byte). This is what makes the header length written
by `encode_primitive_element` agree with the bytes that follow. -/
theorem byte_len_even_rounding (be : Bool) (v : PValue) :
    evenUp v.calculateByteLen = evenUp (encodePrimitive be v).2 := by
  cases v <;> simp only [PValue.calculateByteLen, encodePrimitive, clearBit0_join]

/-! ### the default strategy is *not* always valid: a recorded finding

`DataSetWriter::write` keeps `last_de` = the Pixel Data header after an encapsulated pixel data
element has ended; under `SetUndefined` the next `ItemStart` then keeps its recorded explicit length
while the item's content is rewritten with undefined lengths. The model reproduces the code; the
independent checker rejects the result. (KNOWN_FINDINGS: stale-item-length-after-pixel-sequence.) -/

def witnessTree : Elems :=
  .cons (.seq ⟨0x0008, 0x1140⟩ undefinedLen
    (.cons undefinedLen (.cons (.pix [] []) .nil)
      (.cons 20 (.cons (.seq ⟨0x0008, 0x1140⟩ 8 (.cons 0 .nil .nil)) .nil) .nil))) .nil

def explicitLECfg : Valid.Cfg := ⟨true, false, fun _ _ => false⟩

theorem set_undefined_stale_item_length_witness :
    ∃ bs, writeDataset .explicitLE .setUndefined witnessTree = .ok bs ∧
      Valid.validPS35 explicitLECfg bs = false := by
  refine ⟨_, rfl, ?_⟩
  decide +kernel

/-- with the recorded lengths left alone (`NoChange`) the same consistent tree is written validly -/
theorem no_change_witness_valid :
    ∃ bs, writeDataset .explicitLE .noChange witnessTree = .ok bs ∧
      Valid.validPS35 explicitLECfg bs = true := by
  refine ⟨_, rfl, ?_⟩
  decide +kernel

end Dicom.C04
