import DicomModel.Model.Json
import DicomModel.Lemmas.Json
/-
C24 — DICOM JSON output conforms to PS3.18 Annex F.

`annexF` (Model/Json.lean) is the decidable Annex F validator; it does not mention `toJson`.
Main theorem `annexF_toJson`: for every well-typed data set (value variant belongs to the VR,
numbers in range, tags in the iteration order of the BTreeMap) serialisation succeeds (no panic)
and the output satisfies `annexF`; nested sequences of any depth.
The model is the repaired code: AT values as `GGGGEEEE` (defect #8) and no `Value` /
`InlineBinary` member for a value without items (finding `empty-value-has-member`,
findings/C24-empty-value-has-member.md).  `annexFWith true` is the validator without the
"empty ⇒ no member" clause; the driver uses it only to name that failure.
-/
set_option linter.unusedSimpArgs false
set_option linter.unusedVariables false
namespace Dicom.Json
open Dicom.Flt

/-! ### keys -/

theorem keysAscending_map_tagKey : ∀ (ts : List Nat), sortedTags ts = true →
    (∀ t ∈ ts, t < 4294967296) → keysAscending (ts.map tagKey) = true
  | [], _, _ => rfl
  | [_], _, _ => rfl
  | a :: b :: r, hs, hb => by
    simp only [sortedTags, Bool.and_eq_true, decide_eq_true_eq] at hs
    have ih := keysAscending_map_tagKey (b :: r) hs.2 (fun t ht => hb t (by simp [ht]))
    simp only [List.map_cons, keysAscending, Bool.and_eq_true]
    exact ⟨bytesLt_tagKey hs.1 (hb b (by simp)), by simpa using ih⟩

/-! ### items of the value arrays -/

theorem toDecAux_digits : ∀ (f n : Nat), (toDecAux f n).all isDig = true
  | 0, _ => rfl
  | f + 1, n => by
    unfold toDecAux
    split
    · simp [isDig]; omega
    · simp [toDecAux_digits f (n / 10), isDig]; omega

theorem toDec_digits (n : Nat) : (toDec n).all isDig = true := toDecAux_digits _ _

theorem toDec_ne_nil (n : Nat) : toDec n ≠ [] := by
  unfold toDec toDecAux
  split <;> simp

theorem isDecimal_toDec (n : Nat) : isDecimal (toDec n) = true := by
  have h1 := toDec_digits n
  have h2 := toDec_ne_nil n
  unfold isDecimal
  split
  · rename_i r heq
    -- first char is '-' : impossible, it is a digit
    rw [heq] at h1; simp [isDig] at h1
  · simp [h1, h2]

theorem isDecimal_intDec (i : Int) : isDecimal (intDec i) = true := by
  unfold intDec
  split
  · simp [isDecimal, toDec_digits, toDec_ne_nil]
  · exact isDecimal_toDec _

theorem floatItem_ne_null (F : Fmt) (w : Nat → Nat) (x : Nat) :
    isFloatItem (floatItem F w x) = true ∧ isNumOrStr (floatItem F w x) = true := by
  unfold floatItem
  by_cases h1 : isFinite F x = true
  · simp [h1, isFloatItem, isNumOrStr]
  · by_cases h2 : isNaN F x = true
    · simp [h1, h2, isFloatItem, isNumOrStr]
    · have hinf : isInf F x = true := by
        simp [isFinite, isNaN, isInf] at *
        simp_all
      by_cases h3 : sign F x = true <;> simp [h1, h2, h3, hinf, isFloatItem, isNumOrStr]

theorem isIntIn_intNum (lo hi i : Int) : isIntIn lo hi (intNum i) = (decide (lo ≤ i) && decide (i ≤ hi)) := by
  unfold intNum
  split
  · simp only [isIntIn, intOfNum]
    have : -(Int.ofNat i.natAbs) = i := by simp only [Int.ofNat_eq_natCast]; omega
    rw [this]
  · simp only [isIntIn, intOfNum]
    have : Int.ofNat i.toNat = i := by simp only [Int.ofNat_eq_natCast]; omega
    rw [this]

/-! ### shape of one attribute object -/

theorem kVr_beq : (kVr == kVr) = true := by decide
theorem kValue_beq : (kValue == kValue) = true := by decide
theorem kInline_beq : (kInline == kInline) = true := by decide

theorem elementF_empty (lax : Bool) (vr : VR) :
    elementF lax (.obj [(kVr, .str (vrName vr))]) = true := by
  simp [elementF, parseVR_vrName, kVr_beq]

theorem elementF_inline (lax : Bool) (vr : VR) (s : Bytes) (h : fClass vr = .binary) :
    elementF lax (.obj [(kVr, .str (vrName vr)), (kInline, .str s)])
      = (validB64 s && (lax || !s.isEmpty)) := by
  simp [elementF, parseVR_vrName, kVr_beq, kInline_beq, h]

theorem elementF_sq (lax : Bool) (vr : VR) (v : J) (h : fClass vr = .sq) :
    elementF lax (.obj [(kVr, .str (vrName vr)), (kValue, v)]) = itemsF lax v := by
  simp [elementF, parseVR_vrName, kVr_beq, kValue_beq, h]

theorem elementF_value (lax : Bool) (vr : VR) (v : J) (c : FClass) (h : fClass vr = c)
    (h1 : c ≠ .binary) (h2 : c ≠ .sq) :
    elementF lax (.obj [(kVr, .str (vrName vr)), (kValue, v)]) = valuesF lax c v := by
  cases c <;> simp_all [elementF, parseVR_vrName, kVr_beq, kValue_beq]

/-! ### value arrays, per Annex F class -/

theorem splitBs_ne_nil (s : Bytes) : splitBs s ≠ [] := by
  induction s with
  | nil => simp [splitBs]
  | cons b r ih =>
    unfold splitBs
    split
    · simp
    · split <;> simp

theorem valuesF_text (lax : Bool) (l : List Bytes) :
    valuesF lax .text (.arr (l.map .str)) = (lax || !l.isEmpty) := by
  simp [valuesF, List.all_map, isStrOrNull, Function.comp_def]

theorem valuesF_at (lax : Bool) (l : List Nat) :
    valuesF lax .at (.arr (l.map fun t => .str (tagKey t))) = (lax || !l.isEmpty) := by
  simp [valuesF, List.all_map, isAtItem, Function.comp_def, isTagKey_tagKey]

theorem valuesF_pn (lax : Bool) (l : List Bytes) :
    valuesF lax .pn (.arr (l.map fun s => .obj [(kAlpha, .str s)])) = (lax || !l.isEmpty) := by
  have : (kAlpha == kAlpha) = true := by decide
  simp [valuesF, List.all_map, isPersonName, Function.comp_def, lookup, this, isStr]

theorem valuesF_float (lax : Bool) (F : Fmt) (w : Nat → Nat) (l : List Nat) :
    valuesF lax .float (.arr (l.map (floatItem F w))) = (lax || !l.isEmpty) := by
  simp [valuesF, List.all_map, Function.comp_def, (floatItem_ne_null F w _).1]

theorem valuesF_numstr_float (lax : Bool) (F : Fmt) (w : Nat → Nat) (l : List Nat) :
    valuesF lax .numstr (.arr (l.map (floatItem F w))) = (lax || !l.isEmpty) := by
  simp [valuesF, List.all_map, Function.comp_def, (floatItem_ne_null F w _).2]

theorem valuesF_numstr_strs (lax : Bool) (l : List Bytes) :
    valuesF lax .numstr (.arr (l.map .str)) = (lax || !l.isEmpty) := by
  simp [valuesF, List.all_map, isNumOrStr, Function.comp_def]

theorem isNumOrStr_intNum (i : Int) : isNumOrStr (intNum i) = true := by
  unfold intNum; split <;> rfl

theorem valuesF_numstr_ints (lax : Bool) (l : List Int) :
    valuesF lax .numstr (.arr (l.map intNum)) = (lax || !l.isEmpty) := by
  simp [valuesF, List.all_map, isNumOrStr_intNum, Function.comp_def]

theorem valuesF_int_signed (lax : Bool) (lo hi : Int) (l : List Int) (h : allIn lo hi l = true) :
    valuesF lax (.int lo hi) (.arr (l.map intNum)) = (lax || !l.isEmpty) := by
  simp only [allIn, List.all_eq_true] at h
  simp only [valuesF, List.all_map, Function.comp_def, isIntIn_intNum]
  have : l.all (fun x => decide (lo ≤ x) && decide (x ≤ hi)) = true := by
    simpa [List.all_eq_true] using h
  simp [this]

theorem valuesF_int_unsigned (lax : Bool) (hi : Int) (B : Nat) (hB : (B : Int) = hi + 1)
    (l : List Nat) (h : allLt B l = true) :
    valuesF lax (.int 0 hi) (.arr (l.map fun n => .num (.pos n))) = (lax || !l.isEmpty) := by
  simp only [allLt, List.all_eq_true, decide_eq_true_eq] at h
  have : l.all (fun n => isIntIn 0 hi (.num (.pos n))) = true := by
    simp only [List.all_eq_true, isIntIn, intOfNum, Bool.and_eq_true, decide_eq_true_eq]
    intro n hn
    have := h n hn
    constructor
    · exact Int.natCast_nonneg n
    · simp only [Int.ofNat_eq_natCast]; omega
  simp [valuesF, List.all_map, Function.comp_def, this]

theorem valuesF_bigint_signed (lax : Bool) (l : List Int)
    (h : allIn (-9223372036854775808) 9223372036854775807 l = true) :
    valuesF lax (.bigint (-9223372036854775808) 9223372036854775807)
      (.arr (l.map fun i => if fitsI32 i then intNum i else .str (intDec i))) = (lax || !l.isEmpty) := by
  simp only [allIn, List.all_eq_true, Bool.and_eq_true, decide_eq_true_eq] at h
  have : l.all (fun i => isBigIntItem (-9223372036854775808) 9223372036854775807
      (if fitsI32 i then intNum i else .str (intDec i))) = true := by
    simp only [List.all_eq_true]
    intro i hi
    have hb := h i hi
    split
    · have h2 := isIntIn_intNum (-9223372036854775808) 9223372036854775807 i
      unfold intNum at *
      split
      · simp only [isBigIntItem, intOfNum, Int.ofNat_eq_natCast]
        simp; omega
      · simp only [isBigIntItem, intOfNum, Int.ofNat_eq_natCast]
        simp; omega
    · simp [isBigIntItem, isDecimal_intDec]
  simp [valuesF, List.all_map, Function.comp_def, this]

theorem valuesF_bigint_unsigned (lax : Bool) (l : List Nat)
    (h : allLt 18446744073709551616 l = true) :
    valuesF lax (.bigint 0 18446744073709551615)
      (.arr (l.map fun (n : Nat) => if n ≤ 2147483647 then .num (.pos n) else .str (toDec n)))
      = (lax || !l.isEmpty) := by
  simp only [allLt, List.all_eq_true, decide_eq_true_eq] at h
  have : l.all (fun (n : Nat) => isBigIntItem 0 18446744073709551615
      (if n ≤ 2147483647 then .num (.pos n) else .str (toDec n))) = true := by
    simp only [List.all_eq_true]
    intro n hn
    have hb := h n hn
    split
    · simp only [isBigIntItem, intOfNum, Int.ofNat_eq_natCast]
      simp; omega
    · simp [isBigIntItem, isDecimal_toDec]
  simp [valuesF, List.all_map, Function.comp_def, this]

/-! ### binary values -/

theorem isBytes_flatMap {α : Type} (f : α → Bytes) (h : ∀ x, IsBytes (f x)) (l : List α) :
    IsBytes (l.flatMap f) := by
  intro b hb
  simp only [List.mem_flatMap] at hb
  obtain ⟨x, _, hx⟩ := hb
  exact h x b hx

theorem isBytes_le16 (n : Nat) : IsBytes (le16 n) := by
  intro b hb; simp [le16] at hb; omega
theorem isBytes_le32 (n : Nat) : IsBytes (le32 n) := by
  intro b hb; simp [le32] at hb; omega
theorem isBytes_le64 (n : Nat) : IsBytes (le64 n) := by
  intro b hb
  simp only [le64, List.mem_append] at hb
  cases hb with
  | inl h => exact isBytes_le32 _ b h
  | inr h => exact isBytes_le32 _ b h

theorem flatMap_isEmpty {α : Type} (f : α → Bytes) (h : ∀ x, f x ≠ []) (l : List α) :
    (l.flatMap f).isEmpty = l.isEmpty := by
  cases l with
  | nil => rfl
  | cons a r =>
    simp only [List.flatMap_cons, List.isEmpty_cons]
    cases hfa : f a with
    | nil => exact absurd hfa (h a)
    | cons x y => rfl

theorem validB64_enc {bs : Bytes} (h : IsBytes bs) : validB64 (b64enc bs) = true := by
  simp [validB64, b64dec_enc bs h]

theorem b64enc_isEmpty (bs : Bytes) : (b64enc bs).isEmpty = bs.isEmpty := by
  cases bs with
  | nil => rfl
  | cons a r =>
    have : b64enc (a :: r) ≠ [] := fun e => by simpa using b64enc_eq_nil.mp e
    cases h : b64enc (a :: r) with
    | nil => exact absurd h this
    | cons _ _ => rfl

/-- the binary value kinds: bytes are bytes, and an item makes the byte string non-empty -/
theorem toBytes_binary (p : Prim) (hr : p.inRange = true)
    (hk : p.binKind = true) :
    IsBytes (toBytes p) ∧ (toBytes p).isEmpty = !p.nonEmpty := by
  cases p <;> simp [Prim.binKind] at hk
  case u8 l =>
    refine ⟨?_, by simp [toBytes, Prim.nonEmpty]⟩
    intro b hb
    simp only [Prim.inRange, allLt, List.all_eq_true, decide_eq_true_eq] at hr
    exact hr b hb
  case u16 l =>
    exact ⟨isBytes_flatMap _ isBytes_le16 l, by
      simp [toBytes, Prim.nonEmpty, flatMap_isEmpty le16 (fun x => by simp [le16])]⟩
  case u32 l =>
    exact ⟨isBytes_flatMap _ isBytes_le32 l, by
      simp [toBytes, Prim.nonEmpty, flatMap_isEmpty le32 (fun x => by simp [le32])]⟩
  case u64 l =>
    exact ⟨isBytes_flatMap _ isBytes_le64 l, by
      simp [toBytes, Prim.nonEmpty, flatMap_isEmpty le64 (fun x => by simp [le64, le32])]⟩
  case f32 l =>
    exact ⟨isBytes_flatMap _ isBytes_le32 l, by
      simp [toBytes, Prim.nonEmpty, flatMap_isEmpty le32 (fun x => by simp [le32])]⟩
  case f64 l =>
    exact ⟨isBytes_flatMap _ isBytes_le64 l, by
      simp [toBytes, Prim.nonEmpty, flatMap_isEmpty le64 (fun x => by simp [le64, le32])]⟩

/-! ### one primitive element -/

theorem splitBs_isEmpty (s : Bytes) : (splitBs s).isEmpty = false := by
  cases h : splitBs s with
  | nil => exact absurd h (splitBs_ne_nil s)
  | cons _ _ => rfl

theorem or_not_isEmpty {α : Type} (lax : Bool) (l : List α)
    (hf : lax = true ∨ (!l.isEmpty) = true) : (lax || !l.isEmpty) = true := by
  cases hf with
  | inl h => simp [h]
  | inr h => simp [h]

theorem primMembers_of_nonEmpty (vr : VR) (p : Prim) (h : p.nonEmpty = true) :
    primMembers vr p = (match serClass vr with
      | .strings => .ok [(kValue, asStrings p)]
      | .person => .ok [(kValue, asPersonNames p)]
      | .numbers => (asNumbers p).map fun j => [(kValue, j)]
      | .binary => .ok [(kInline, inlineBinary p)]
      | .sq => .panic) := by
  unfold primMembers
  rw [h]
  rfl

theorem primMembers_of_empty (vr : VR) (p : Prim) (h : p.nonEmpty = false) :
    primMembers vr p = .ok [] := by
  simp [primMembers, h]

/-- textual value kinds (`Str`, `Strs`) in every VR that admits them -/
theorem text_conforms (lax : Bool) (vr : VR) (p : Prim)
    (hp : (∃ l, p = .strs l) ∨ (∃ s, p = .str s)) (hk : kindOk vr p = true)
    (hnz : p.nonEmpty = true) :
    ∃ ms, primMembers vr p = .ok ms ∧
      elementF lax (.obj ((kVr, .str (vrName vr)) :: ms)) = true := by
  have hne : (toMultiStr p).isEmpty = false := by
    rcases hp with ⟨l, rfl⟩ | ⟨s, rfl⟩
    · simp [toMultiStr, splitBs_isEmpty]
    · simp [toMultiStr]
  have hnotTags : asStrings p = .arr ((toMultiStr p).map .str) := by
    rcases hp with ⟨l, rfl⟩ | ⟨s, rfl⟩ <;> rfl
  cases vr <;> (first
    | (exfalso; (rcases hp with ⟨l, rfl⟩ | ⟨s, rfl⟩ <;> simp [kindOk] at hk); done)
    | (refine ⟨[(kValue, asStrings p)], ?_, ?_⟩
       · rw [primMembers_of_nonEmpty _ _ hnz]; rfl
       · rw [elementF_value _ _ _ .text rfl (by simp) (by simp), hnotTags, valuesF_text, hne]; simp)
    | (refine ⟨[(kValue, asPersonNames p)], ?_, ?_⟩
       · rw [primMembers_of_nonEmpty _ _ hnz]; rfl
       · rw [elementF_value _ _ _ .pn rfl (by simp) (by simp)]
         simp only [asPersonNames]
         rw [valuesF_pn, hne]; simp)
    | (rcases hp with ⟨l, rfl⟩ | ⟨s, rfl⟩
       · refine ⟨[(kValue, .arr (l.map .str))], by rw [primMembers_of_nonEmpty _ _ hnz]; rfl, ?_⟩
         rw [elementF_value _ _ _ .numstr rfl (by simp) (by simp), valuesF_numstr_strs]
         exact or_not_isEmpty lax l (Or.inr (by simpa [Prim.nonEmpty] using hnz))
       · refine ⟨[(kValue, .arr [.str s])], by rw [primMembers_of_nonEmpty _ _ hnz]; rfl, ?_⟩
         rw [elementF_value _ _ _ .numstr rfl (by simp) (by simp)]
         simp [valuesF, isNumOrStr]))

theorem binary_elem (lax : Bool) (vr : VR) (p : Prim) (hc : fClass vr = .binary)
    (hr : p.inRange = true)
    (hk : p.binKind = true)
    (hf : lax = true ∨ p.nonEmpty = true) :
    elementF lax (.obj [(kVr, .str (vrName vr)), (kInline, inlineBinary p)]) = true := by
  have hb := toBytes_binary p hr hk
  rw [inlineBinary, elementF_inline _ _ _ hc, validB64_enc hb.1, b64enc_isEmpty, hb.2]
  cases hf with
  | inl h => simp [h]
  | inr h => simp [h]

/-- every well-typed primitive value: serialisation succeeds and the attribute object conforms -/
theorem prim_conforms (lax : Bool) (vr : VR) (p : Prim)
    (hk : kindOk vr p = true) (hr : p.inRange = true) :
    ∃ ms, primMembers vr p = .ok ms ∧
      elementF lax (.obj ((kVr, .str (vrName vr)) :: ms)) = true := by
  cases hne : p.nonEmpty with
  | false => exact ⟨[], primMembers_of_empty vr p hne, elementF_empty lax vr⟩
  | true =>
  have h : lax = true ∨ p.nonEmpty = true := Or.inr hne
  cases p with
  | empty => simp [Prim.nonEmpty] at hne
  | strs l => exact text_conforms lax vr _ (Or.inl ⟨l, rfl⟩) hk hne
  | str s => exact text_conforms lax vr _ (Or.inr ⟨s, rfl⟩) hk hne
  | tags l =>
    cases vr <;> (first
      | (exfalso; simp [kindOk] at hk; done)
      | (refine ⟨_, by rw [primMembers_of_nonEmpty _ _ hne]; rfl, ?_⟩
         rw [elementF_value _ _ _ .at rfl (by simp) (by simp)]
         simp only [asStrings]; rw [valuesF_at]
         exact or_not_isEmpty lax l (by simpa [Prim.nonEmpty] using h)))
  | u8 l =>
    cases vr <;> (first
      | (exfalso; simp [kindOk] at hk; done)
      | exact ⟨_, by rw [primMembers_of_nonEmpty _ _ hne]; rfl, binary_elem lax _ _ rfl hr rfl h⟩)
  | i16 l =>
    cases vr <;> (first
      | (exfalso; simp [kindOk] at hk; done)
      | (refine ⟨_, by rw [primMembers_of_nonEmpty _ _ hne]; rfl, ?_⟩
         rw [elementF_value _ _ _ _ rfl (by simp [fClass]) (by simp [fClass])]
         simp only [fClass]
         rw [valuesF_int_signed _ _ _ _ (by simpa [Prim.inRange] using hr)]
         exact or_not_isEmpty lax l (by simpa [Prim.nonEmpty] using h)))
  | u16 l =>
    cases vr <;> (first
      | (exfalso; simp [kindOk] at hk; done)
      | exact ⟨_, by rw [primMembers_of_nonEmpty _ _ hne]; rfl, binary_elem lax _ _ rfl hr rfl h⟩
      | (refine ⟨_, by rw [primMembers_of_nonEmpty _ _ hne]; rfl, ?_⟩
         rw [elementF_value _ _ _ _ rfl (by simp [fClass]) (by simp [fClass])]
         simp only [fClass]
         rw [valuesF_int_unsigned _ 65535 65536 (by decide) _ (by simpa [Prim.inRange] using hr)]
         exact or_not_isEmpty lax l (by simpa [Prim.nonEmpty] using h)))
  | i32 l =>
    cases vr <;> (first
      | (exfalso; simp [kindOk] at hk; done)
      | (refine ⟨_, by rw [primMembers_of_nonEmpty _ _ hne]; rfl, ?_⟩
         rw [elementF_value _ _ _ _ rfl (by simp [fClass]) (by simp [fClass])]
         simp only [fClass]
         rw [valuesF_int_signed _ _ _ _ (by simpa [Prim.inRange] using hr)]
         exact or_not_isEmpty lax l (by simpa [Prim.nonEmpty] using h))
      | (refine ⟨_, by rw [primMembers_of_nonEmpty _ _ hne]; rfl, ?_⟩
         rw [elementF_value _ _ _ .numstr rfl (by simp) (by simp), valuesF_numstr_ints]
         exact or_not_isEmpty lax l (by simpa [Prim.nonEmpty] using h)))
  | u32 l =>
    cases vr <;> (first
      | (exfalso; simp [kindOk] at hk; done)
      | exact ⟨_, by rw [primMembers_of_nonEmpty _ _ hne]; rfl, binary_elem lax _ _ rfl hr rfl h⟩
      | (refine ⟨_, by rw [primMembers_of_nonEmpty _ _ hne]; rfl, ?_⟩
         rw [elementF_value _ _ _ _ rfl (by simp [fClass]) (by simp [fClass])]
         simp only [fClass]
         rw [valuesF_int_unsigned _ 4294967295 4294967296 (by decide) _ (by simpa [Prim.inRange] using hr)]
         exact or_not_isEmpty lax l (by simpa [Prim.nonEmpty] using h)))
  | i64 l =>
    cases vr <;> (first
      | (exfalso; simp [kindOk] at hk; done)
      | (refine ⟨_, by rw [primMembers_of_nonEmpty _ _ hne]; rfl, ?_⟩
         rw [elementF_value _ _ _ _ rfl (by simp [fClass]) (by simp [fClass])]
         simp only [fClass]
         rw [valuesF_bigint_signed _ _ (by simpa [Prim.inRange] using hr)]
         exact or_not_isEmpty lax l (by simpa [Prim.nonEmpty] using h)))
  | u64 l =>
    cases vr <;> (first
      | (exfalso; simp [kindOk] at hk; done)
      | exact ⟨_, by rw [primMembers_of_nonEmpty _ _ hne]; rfl, binary_elem lax _ _ rfl hr rfl h⟩
      | (refine ⟨_, by rw [primMembers_of_nonEmpty _ _ hne]; rfl, ?_⟩
         rw [elementF_value _ _ _ _ rfl (by simp [fClass]) (by simp [fClass])]
         simp only [fClass]
         rw [valuesF_bigint_unsigned _ _ (by simpa [Prim.inRange] using hr)]
         exact or_not_isEmpty lax l (by simpa [Prim.nonEmpty] using h)))
  | f32 l =>
    cases vr <;> (first
      | (exfalso; simp [kindOk] at hk; done)
      | exact ⟨_, by rw [primMembers_of_nonEmpty _ _ hne]; rfl, binary_elem lax _ _ rfl hr rfl h⟩
      | (refine ⟨_, by rw [primMembers_of_nonEmpty _ _ hne]; rfl, ?_⟩
         rw [elementF_value _ _ _ .float rfl (by simp) (by simp), valuesF_float]
         exact or_not_isEmpty lax l (by simpa [Prim.nonEmpty] using h)))
  | f64 l =>
    cases vr <;> (first
      | (exfalso; simp [kindOk] at hk; done)
      | exact ⟨_, by rw [primMembers_of_nonEmpty _ _ hne]; rfl, binary_elem lax _ _ rfl hr rfl h⟩
      | (refine ⟨_, by rw [primMembers_of_nonEmpty _ _ hne]; rfl, ?_⟩
         rw [elementF_value _ _ _ .float rfl (by simp) (by simp), valuesF_float]
         exact or_not_isEmpty lax l (by simpa [Prim.nonEmpty] using h))
      | (refine ⟨_, by rw [primMembers_of_nonEmpty _ _ hne]; rfl, ?_⟩
         rw [elementF_value _ _ _ .numstr rfl (by simp) (by simp), valuesF_numstr_float]
         exact or_not_isEmpty lax l (by simpa [Prim.nonEmpty] using h)))
  | date l =>
    cases vr <;> (first
      | (exfalso; simp [kindOk] at hk; done)
      | (refine ⟨_, by rw [primMembers_of_nonEmpty _ _ hne]; rfl, ?_⟩
         rw [elementF_value _ _ _ .text rfl (by simp) (by simp)]
         simp only [asStrings, toMultiStr]; rw [valuesF_text]
         exact or_not_isEmpty lax _ (by simpa [Prim.nonEmpty] using h)))
  | dateTime l =>
    cases vr <;> (first
      | (exfalso; simp [kindOk] at hk; done)
      | (refine ⟨_, by rw [primMembers_of_nonEmpty _ _ hne]; rfl, ?_⟩
         rw [elementF_value _ _ _ .text rfl (by simp) (by simp)]
         simp only [asStrings, toMultiStr]; rw [valuesF_text]
         exact or_not_isEmpty lax _ (by simpa [Prim.nonEmpty] using h)))
  | time l =>
    cases vr <;> (first
      | (exfalso; simp [kindOk] at hk; done)
      | (refine ⟨_, by rw [primMembers_of_nonEmpty _ _ hne]; rfl, ?_⟩
         rw [elementF_value _ _ _ .text rfl (by simp) (by simp)]
         simp only [asStrings, toMultiStr]; rw [valuesF_text]
         exact or_not_isEmpty lax _ (by simpa [Prim.nonEmpty] using h)))

/-! ### whole data sets, any nesting depth -/

theorem Elem.wf_tag : ∀ (e : Elem), e.wf = true → e.tag < 4294967296
  | .prim t _ _, h => by simpa [Elem.wf, Elem.tag] using h
  | .seq t _ _, h => by
    simp only [Elem.wf, Bool.and_eq_true, decide_eq_true_eq] at h
    exact h.1
  | .pix t _, h => by simpa [Elem.wf, Elem.tag] using h

theorem tagsOf_lt : ∀ (es : List Elem), elemsWf es = true → ∀ t ∈ tagsOf es, t < 4294967296
  | [], _, t, ht => by simp [tagsOf] at ht
  | e :: es, h, t, ht => by
    simp only [elemsWf, Bool.and_eq_true] at h
    simp only [tagsOf, List.mem_cons] at ht
    cases ht with
    | inl h1 => subst h1; exact Elem.wf_tag e h.1
    | inr h1 => exact tagsOf_lt es h.2 t h1

mutual
theorem elem_conforms (lax : Bool) : ∀ (e : Elem), e.wf = true → e.typed = true →
    ∃ j, elemToJson e = .ok j ∧ elementF lax j = true
  | .prim t vr p, _, ht => by
    simp only [Elem.typed, Bool.and_eq_true] at ht
    obtain ⟨ms, h1, h2⟩ := prim_conforms lax vr p ht.1 ht.2
    exact ⟨_, by simp [elemToJson, h1], h2⟩
  | .seq t vr [], _, _ => ⟨_, rfl, elementF_empty lax vr⟩
  | .seq t vr (d :: ds), hw, ht => by
    simp only [Elem.typed, Bool.and_eq_true, beq_iff_eq] at ht
    simp only [Elem.wf, Bool.and_eq_true] at hw
    obtain ⟨js, h1, h2, h3⟩ := items_conform lax (d :: ds) hw.2 ht.2
    refine ⟨.obj [(kVr, .str (vrName vr)), (kValue, .arr js)], by simp [elemToJson, h1], ?_⟩
    have hvr : fClass vr = .sq := by rw [ht.1]; rfl
    rw [elementF_sq _ _ _ hvr]
    simp [itemsF, h2, h3]
  | .pix t vr, _, _ => ⟨_, rfl, elementF_empty lax vr⟩
theorem items_conform (lax : Bool) : ∀ (items : List (List Elem)), itemsWf items = true →
    itemsTyped items = true →
    ∃ js, itemsToJson items = .ok js ∧ allF lax js = true ∧ js.isEmpty = items.isEmpty
  | [], _, _ => ⟨[], rfl, rfl, rfl⟩
  | d :: ds, hw, ht => by
    simp only [itemsWf, Bool.and_eq_true] at hw
    simp only [itemsTyped, Bool.and_eq_true] at ht
    obtain ⟨ms, m1, m2, m3⟩ := members_conform lax d hw.1.1 ht.1
    obtain ⟨js, j1, j2, _⟩ := items_conform lax ds hw.2 ht.2
    refine ⟨.obj ms :: js, by simp [itemsToJson, m1, j1], ?_, rfl⟩
    simp only [allF, annexFWith, m2, j2, Bool.and_true, m3]
    exact keysAscending_map_tagKey _ hw.1.2 (tagsOf_lt d hw.1.1)
theorem members_conform (lax : Bool) : ∀ (es : List Elem), elemsWf es = true →
    elemsTyped es = true →
    ∃ ms, membersToJson es = .ok ms ∧ membersF lax ms = true ∧ keysOf ms = (tagsOf es).map tagKey
  | [], _, _ => ⟨[], rfl, rfl, rfl⟩
  | e :: es, hw, ht => by
    simp only [elemsWf, Bool.and_eq_true] at hw
    simp only [elemsTyped, Bool.and_eq_true] at ht
    obtain ⟨j, e1, e2⟩ := elem_conforms lax e hw.1 ht.1
    obtain ⟨ms, m1, m2, m3⟩ := members_conform lax es hw.2 ht.2
    refine ⟨(tagKey e.tag, j) :: ms, by simp [membersToJson, e1, m1], ?_, ?_⟩
    · simp [membersF, isTagKey_tagKey, e2, m2]
    · simp [keysOf, tagsOf, m3]
end

/-- **C24.** Every well-typed data set (`DataSet.wf`: tags in the BTreeMap's order; `elemsTyped`:
value variants belong to their VRs, numbers in range) serialises without error or panic, and the
output passes the Annex F validator: an object with 8-upper-hex keys in ascending order whose
members have `"vr"` first and the Annex F value form of that VR (AT as 8 hex digits, PN objects
with `Alphabetic`, FL/FD/SL/SS/UL/US numbers with `"NaN"`/`"inf"`/`"-inf"` for non-finite floats,
binary VRs as canonical base64 `InlineBinary`, sequences as arrays of such objects), and no
`Value`/`InlineBinary` member for a value without items — at every nesting depth. -/
theorem annexF_toJson (ds : DataSet) (hw : ds.wf = true) (ht : elemsTyped ds = true) :
    ∃ j, toJson ds = .ok j ∧ annexF j = true := by
  simp only [DataSet.wf, Bool.and_eq_true] at hw
  obtain ⟨ms, m1, m2, m3⟩ := members_conform false ds hw.1 ht
  refine ⟨.obj ms, by simp [toJson, m1], ?_⟩
  simp only [annexF, annexFWith, m2, Bool.and_true, m3]
  exact keysAscending_map_tagKey _ hw.2 (tagsOf_lt ds hw.1)

/-- the serialiser cannot panic on a well-typed data set (its two panic sites,
`unreachable!("unexpected VR SQ …")` and `AsNumbers` on dates/tags, need an ill-typed element) -/
theorem toJson_no_panic (ds : DataSet) (hw : ds.wf = true) (ht : elemsTyped ds = true) :
    toJson ds ≠ .panic := by
  obtain ⟨j, h, _⟩ := annexF_toJson ds hw ht
  simp [h]

/-- … and it *can* on an ill-typed one: a date under a numeric VR, a primitive under `SQ`. -/
theorem toJson_panics_illtyped :
    toJson [.prim 0x00280010 .US (.date [([50, 48], [50, 48])])] = .panic ∧
    toJson [.prim 0x00280010 .SQ (.str [65])] = .panic := ⟨rfl, rfl⟩

/-- the binary clause says what the bytes are: `InlineBinary` decodes to the little-endian bytes -/
theorem inlineBinary_decodes (p : Prim) (hr : p.inRange = true)
    (hk : p.binKind = true) :
    ∃ s, inlineBinary p = .str s ∧ b64dec s = some (toBytes p) :=
  ⟨_, rfl, b64dec_enc _ (toBytes_binary p hr hk).1⟩

/-- values without items have no `Value`/`InlineBinary` member (repaired finding
`empty-value-has-member`): a zero-length `U16` vector, an empty `U8` buffer, an item-less sequence -/
example : toJson [.prim 0x00280010 .US (.u16 []), .prim 0x7FE00010 .OB (.u8 []), .seq 0x7FE00020 .SQ []]
    = .ok (.obj [(ascii "00280010", .obj [(kVr, .str (ascii "US"))]),
                 (ascii "7FE00010", .obj [(kVr, .str (ascii "OB"))]),
                 (ascii "7FE00020", .obj [(kVr, .str (ascii "SQ"))])]) := by rfl

/-- AT values are written as eight hex digits (repaired defect #8), e.g. `"00100020"` -/
example : toJson [.prim 0x00209165 .AT (.tags [0x00100020])] =
    .ok (.obj [(ascii "00209165", .obj [(kVr, .str (ascii "AT")),
      (kValue, .arr [.str (ascii "00100020")])])]) := by rfl

/-- non-vacuity: a data set with nested sequences, a non-finite float, a big integer, binary
values and empty vectors meets the hypotheses of `annexF_toJson` -/
example :
    let ds : DataSet := [
      .prim 0x00080018 .UI (.strs [ascii "1.2.3 "]),
      .prim 0x00186020 .FL (.f32 [0x7FC00000, 0x3F800000]),
      .prim 0x00280010 .US (.u16 []),
      .seq 0x00400275 .SQ [[.prim 0x00400009 .SV (.i64 [-9007199254740993])], []],
      .prim 0x7FE00010 .OW (.u16 [1, 65535])]
    ds.wf = true ∧ elemsTyped ds = true := by decide

end Dicom.Json
