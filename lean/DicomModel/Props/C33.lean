import DicomModel.Model.StoreScu
/-
C33 — The storage SCU sends each file on a matching presentation context.

All theorems are about `check true …` (the selection with the abstract-syntax filter on the
Implicit VR LE fallback, finding C33-fallback-other-sop-class) unless they say otherwise; they hold
for every registry, every file, every list of accepted contexts and every option setting.
`orig_fallback_violates` shows that `chosen_context_matches` is false of the selection as originally
coded (`check false …`), `fix_is_conservative` that the repair changes nothing else.
-/
namespace Dicom.StoreScu

/-! ### trimming and registries -/

theorem dropWhile_idem (p : α → Bool) (l : List α) :
    (l.dropWhile p).dropWhile p = l.dropWhile p := by
  induction l with
  | nil => rfl
  | cons x xs ih =>
    by_cases h : p x
    · simp [h, ih]
    · simp [h]

theorem trimUid_idem (s : Uid) : trimUid (trimUid s) = trimUid s := by
  simp [trimUid, dropWhile_idem]

theorem trim_evrle : trimUid evrle = evrle := by decide
theorem trim_ivrle : trimUid ivrle = ivrle := by decide

/-- a registry whose entries are filed under their own UID and found by the trimmed key -/
def Reg.Lawful (reg : Reg) : Prop := ∀ u e, reg u = some e → e.uid = trimUid u

theorem Reg.ofTable_lawful (t : List TsEntry) : (Reg.ofTable t).Lawful := by
  intro u e h
  have := List.find?_some h
  simpa using this

/-- `check_file` stores the registry's UID of the file's transfer syntax: a trimmed text -/
def FileInfo.Canonical (f : FileInfo) : Prop := f.ts = trimUid f.ts

/-! ### the selected context -/

theorem find?_filter_and (p q : Pc → Bool) (l : List Pc) :
    (l.filter p).find? q = l.find? (fun a => p a && q a) := by
  induction l with
  | nil => rfl
  | cons a as ih =>
    by_cases hp : p a
    · by_cases hq : q a
      · simp [hp, hq]
      · simp [hp, hq, ih]
    · simp [hp, ih]

theorem find?_filter_mem {p q : Pc → Bool} {l : List Pc} {x : Pc}
    (h : (l.filter p).find? q = some x) : x ∈ l ∧ p x = true ∧ q x = true := by
  have hm := List.mem_of_find?_eq_some h
  have hq := List.find?_some h
  rw [List.mem_filter] at hm
  exact ⟨hm.1, hm.2, hq⟩

theorem fallback_mem {fixed ign : Bool} {sop : Uid} {pcs : List Pc} {pc : Pc}
    (h : fallback fixed ign sop pcs = some pc) : pc ∈ pcs := by
  unfold fallback at h
  split at h
  · next x hx => cases h; exact (find?_filter_mem hx).1
  · split at h
    · exact (find?_filter_mem h).1
    · exact List.mem_of_find?_eq_some h

theorem fallback_fixed_class {ign : Bool} {sop : Uid} {pcs : List Pc} {pc : Pc}
    (h : fallback true ign sop pcs = some pc) : classOk ign sop pc = true := by
  unfold fallback at h
  split at h
  · next x hx => cases h; exact (find?_filter_mem hx).2.1
  · simp only [if_true] at h
    exact (find?_filter_mem h).2.1

theorem fallback_ts {fixed ign : Bool} {sop : Uid} {pcs : List Pc} {pc : Pc}
    (h : fallback fixed ign sop pcs = some pc) : pc.ts = evrle ∨ pc.ts = ivrle := by
  unfold fallback at h
  split at h
  · next x hx => cases h; left; simpa using (find?_filter_mem hx).2.2
  · split at h
    · right; simpa using (find?_filter_mem h).2.2
    · right; simpa using List.find?_some h

theorem finish_ok {reg : Reg} {pc pc' : Pc} {ts : Uid} (h : finish reg pc = .ok (pc', ts)) :
    ∃ t, reg pc.ts = some t ∧ pc' = pc ∧ ts = t.uid := by
  unfold finish at h
  split at h
  · cases h
  · next t ht => cases h; exact ⟨t, ht, rfl, rfl⟩

/-- Everything `check` can answer with, case by case (the shape of the Rust function). -/
theorem check_ok_cases {fixed : Bool} {reg : Reg} {f : FileInfo} {pcs : List Pc}
    {ign never : Bool} {pc : Pc} {ts : Uid}
    (h : check fixed reg f pcs ign never = .ok (pc, ts)) :
    ∃ fts, reg f.ts = some fts ∧ pc ∈ pcs ∧
      ( -- exact match
        (classOk ign f.sop pc = true ∧ pc.ts = fts.uid ∧ ts = pc.ts) ∨
        -- same syntax or both codec-free
        (classOk ign f.sop pc = true ∧ usable reg fts pc = true ∧
          ∃ t, reg pc.ts = some t ∧ ts = t.uid) ∨
        -- transcoding fallback
        (never = false ∧ fts.canDecodeAll = true ∧ fallback fixed ign f.sop pcs = some pc ∧
          ∃ t, reg pc.ts = some t ∧ ts = t.uid)) := by
  unfold check checkCore at h
  split at h
  · cases h
  · next fts hf =>
    refine ⟨fts, hf, ?_⟩
    split at h
    · next x hx =>
      cases h
      have := find?_filter_mem hx
      exact ⟨this.1, .inl ⟨this.2.1, by simpa using this.2.2, rfl⟩⟩
    · split at h
      · next y hy =>
        obtain ⟨t, ht, rfl, rfl⟩ := finish_ok h
        have hm := List.mem_of_find?_eq_some hy
        have hp := List.find?_some hy
        simp only [Bool.and_eq_true] at hp
        exact ⟨hm, .inr (.inl ⟨hp.1, hp.2, t, ht, rfl⟩)⟩
      · split at h
        · cases h
        · next hcond =>
          simp only [Bool.or_eq_true, Bool.not_eq_true', not_or, Bool.not_eq_true,
            Bool.not_eq_false] at hcond
          split at h
          · next z hz =>
            obtain ⟨t, ht, rfl, rfl⟩ := finish_ok h
            exact ⟨fallback_mem hz, .inr (.inr ⟨hcond.1, hcond.2, hz, t, ht, rfl⟩)⟩
          · cases h

/-- The context chosen is one of the accepted contexts. -/
theorem chosen_context_accepted {fixed : Bool} {reg : Reg} {f : FileInfo} {pcs : List Pc}
    {ign never : Bool} {pc : Pc} {ts : Uid}
    (h : check fixed reg f pcs ign never = .ok (pc, ts)) : pc ∈ pcs := by
  obtain ⟨_, _, hm, _⟩ := check_ok_cases h
  exact hm

/-- **chosen_context_matches** — unless `--ignore-sop-class` is given, the abstract syntax of the
context chosen is the file's SOP class. -/
theorem chosen_context_matches {reg : Reg} {f : FileInfo} {pcs : List Pc}
    {never : Bool} {pc : Pc} {ts : Uid}
    (h : check true reg f pcs false never = .ok (pc, ts)) : pc.asx = f.sop := by
  obtain ⟨_, _, _, hc⟩ := check_ok_cases h
  have key : classOk false f.sop pc = true := by
    rcases hc with hc | hc | hc
    · exact hc.1
    · exact hc.1
    · exact fallback_fixed_class hc.2.2.1
  simpa [classOk] using key

/-- The syntax written in is the chosen context's transfer syntax (its registered, trimmed form):
the tool never sends bytes in a syntax other than the context's. -/
theorem chosen_ts_is_context_ts {fixed : Bool} {reg : Reg} (hreg : reg.Lawful) {f : FileInfo}
    {pcs : List Pc} {ign never : Bool} {pc : Pc} {ts : Uid}
    (h : check fixed reg f pcs ign never = .ok (pc, ts)) : ts = trimUid pc.ts := by
  obtain ⟨fts, hf, _, hc⟩ := check_ok_cases h
  rcases hc with ⟨_, he, ht⟩ | ⟨_, _, t, ht, hts⟩ | ⟨_, _, _, t, ht, hts⟩
  · rw [ht, he, hreg _ _ hf, trimUid_idem]
  · rw [hts]; exact hreg _ _ ht
  · rw [hts]; exact hreg _ _ ht

/-- **ts_is_file_or_transcoded** — for every store the tool sends: the data set is written in the
context's transfer syntax; `into_ts` leaves the file alone exactly when that is the file's own
syntax; and when it transcodes, either both syntaxes are free of codecs (a re-encoding of the data
set) or transcoding is allowed (`--never-transcode` absent), the file's syntax can be fully decoded
and the target is Explicit or Implicit VR Little Endian. -/
theorem ts_is_file_or_transcoded {fixed : Bool} {reg : Reg} (hreg : reg.Lawful) {f : FileInfo}
    (hfile : f.Canonical) {pcs : List Pc} {ign never : Bool} {p : Plan}
    (h : plan fixed reg pcs ign never f = .ok p) :
    p.ts = trimUid p.pc.ts ∧
    (p.transcode = false ↔ p.ts = f.ts) ∧
    (p.transcode = true →
      ∃ fts, reg f.ts = some fts ∧
        ((fts.codecFree = true ∧ ∃ t, reg p.pc.ts = some t ∧ t.codecFree = true) ∨
         (never = false ∧ fts.canDecodeAll = true ∧ (p.ts = evrle ∨ p.ts = ivrle)))) := by
  unfold plan at h
  split at h
  · next pc ts hc =>
    cases h
    have hts := chosen_ts_is_context_ts hreg hc
    refine ⟨hts, by simp, ?_⟩
    intro htr
    simp only [bne_iff_ne, ne_eq] at htr
    obtain ⟨fts, hf, _, hcase⟩ := check_ok_cases hc
    refine ⟨fts, hf, ?_⟩
    rcases hcase with ⟨_, he, ht⟩ | ⟨_, hu, t, ht, hts'⟩ | ⟨hn, hd, hfb, t, ht, hts'⟩
    · -- exact match: ts = fts.uid; then transcoding means f.ts was not canonical
      exfalso
      apply htr
      rw [ht, he, hreg _ _ hf]; exact hfile.symm
    · left
      unfold usable at hu
      rw [ht] at hu
      simp only [Bool.or_eq_true, beq_iff_eq, Bool.and_eq_true] at hu
      rcases hu with hu | hu
      · exfalso
        apply htr
        rw [hts', hreg _ _ ht, hu, hreg _ _ hf, trimUid_idem]; exact hfile.symm
      · exact ⟨hu.1, t, ht, hu.2⟩
    · right
      refine ⟨hn, hd, ?_⟩
      rw [hts', hreg _ _ ht]
      rcases fallback_ts hfb with e | e
      · left; rw [e]; exact trim_evrle
      · right; rw [e]; exact trim_ivrle
  · cases h

/-- `--never-transcode`: the only conversion left is a re-encoding between codec-free syntaxes
(the second search of the Rust function does not look at the option). -/
theorem never_transcode_respected {fixed : Bool} {reg : Reg} (hreg : reg.Lawful) {f : FileInfo}
    (hfile : f.Canonical) {pcs : List Pc} {ign : Bool} {p : Plan}
    (h : plan fixed reg pcs ign true f = .ok p) (htr : p.transcode = true) :
    ∃ fts t, reg f.ts = some fts ∧ reg p.pc.ts = some t ∧
      fts.codecFree = true ∧ t.codecFree = true := by
  obtain ⟨fts, hf, hc⟩ := (ts_is_file_or_transcoded hreg hfile h).2.2 htr
  rcases hc with ⟨hcf, t, ht, htf⟩ | ⟨hn, _⟩
  · exact ⟨fts, t, hf, ht, hcf, htf⟩
  · cases hn

/-! ### completeness: when is a file sent, and untouched -/

/-- A matching context with the file's own transfer syntax is always preferred: the file then goes
out as it is, on the first such context in the acceptor's order. -/
theorem exact_preferred {fixed : Bool} {reg : Reg} {f : FileInfo} {pcs : List Pc}
    {ign never : Bool} {fts : TsEntry} (hf : reg f.ts = some fts)
    (hex : ∃ pc ∈ pcs, classOk ign f.sop pc = true ∧ pc.ts = fts.uid) :
    ∃ pc, check fixed reg f pcs ign never = .ok (pc, fts.uid) ∧
      pcs.find? (fun pc => classOk ign f.sop pc && pc.ts == fts.uid) = some pc := by
  obtain ⟨pc0, hm, hc, ht⟩ := hex
  have hsome : (pcs.find? (fun pc => classOk ign f.sop pc && pc.ts == fts.uid)).isSome = true := by
    rw [List.find?_isSome]
    exact ⟨pc0, hm, by simp [hc, ht]⟩
  obtain ⟨pc, hpc⟩ := Option.isSome_iff_exists.mp hsome
  refine ⟨pc, ?_, hpc⟩
  have hq := List.find?_some hpc
  simp only [Bool.and_eq_true, beq_iff_eq] at hq
  unfold check checkCore
  rw [hf]
  have hpc' := hpc
  rw [← find?_filter_and] at hpc'
  simp only [hpc', hq.2]

/-- With a lawful registry and a canonical file, that store is not transcoded. -/
theorem exact_not_transcoded {fixed : Bool} {reg : Reg} (hreg : reg.Lawful) {f : FileInfo}
    (hfile : f.Canonical) {pcs : List Pc} {ign never : Bool} {fts : TsEntry}
    (hf : reg f.ts = some fts)
    (hex : ∃ pc ∈ pcs, classOk ign f.sop pc = true ∧ pc.ts = fts.uid) :
    ∃ p, plan fixed reg pcs ign never f = .ok p ∧ p.transcode = false ∧ p.ts = f.ts := by
  obtain ⟨pc, hc, _⟩ := exact_preferred (fixed := fixed) (never := never) hf hex
  have e : fts.uid = f.ts := by rw [hreg _ _ hf]; exact hfile.symm
  refine ⟨⟨f, pc, fts.uid, fts.uid != f.ts⟩, ?_, ?_, e⟩
  · unfold plan; rw [hc]
  · simp [e]

/-- "No matching presentation contexts" is only reported when there is none to use: no matching
context has the file's syntax or a codec-free pair, and transcoding is off, impossible, or no
matching context offers Explicit/Implicit VR Little Endian. -/
theorem no_context_justified {reg : Reg} {f : FileInfo} {pcs : List Pc} {ign never : Bool}
    (h : check true reg f pcs ign never = .error .noPresentationContext) :
    ∃ fts, reg f.ts = some fts ∧
      (∀ pc ∈ pcs, classOk ign f.sop pc = true → pc.ts ≠ fts.uid ∧ usable reg fts pc = false) ∧
      (never = true ∨ fts.canDecodeAll = false ∨
        ∀ pc ∈ pcs, classOk ign f.sop pc = true → pc.ts ≠ evrle ∧ pc.ts ≠ ivrle) := by
  unfold check checkCore at h
  split at h
  · cases h
  · next fts hf =>
    refine ⟨fts, hf, ?_⟩
    split at h
    · cases h
    · next hex =>
      split at h
      · next y hy =>
        unfold finish at h
        split at h <;> cases h
      · next hus =>
        have h1 : ∀ pc ∈ pcs, classOk ign f.sop pc = true →
            pc.ts ≠ fts.uid ∧ usable reg fts pc = false := by
          intro pc hm hc
          rw [List.find?_eq_none] at hex hus
          have a := hex pc (List.mem_filter.mpr ⟨hm, hc⟩)
          have b := hus pc hm
          simp only [beq_iff_eq] at a
          simp only [hc, Bool.true_and, Bool.not_eq_true] at b
          exact ⟨a, b⟩
        refine ⟨h1, ?_⟩
        split at h
        · next hcond =>
          simp only [Bool.or_eq_true, Bool.not_eq_true'] at hcond
          rcases hcond with e | e
          · exact .inl e
          · exact .inr (.inl e)
        · right; right
          split at h
          · next z hz =>
            unfold finish at h
            split at h <;> cases h
          · next hfb =>
            unfold fallback at hfb
            split at hfb
            · cases hfb
            · next hev =>
              simp only [if_true] at hfb
              intro pc hm hc
              rw [List.find?_eq_none] at hev hfb
              have a := hev pc (List.mem_filter.mpr ⟨hm, hc⟩)
              have b := hfb pc (List.mem_filter.mpr ⟨hm, hc⟩)
              simp only [beq_iff_eq] at a b
              exact ⟨a, b⟩

/-! ### the selection as originally coded, and what the repair changes -/

/-- Without the filter the property is false: a CT file (deflated) is put on the context accepted
for MR images, because that is the only Implicit VR LE context. -/
theorem orig_fallback_violates :
    ∃ (reg : Reg) (f : FileInfo) (pcs : List Pc) (pc : Pc) (ts : Uid),
      reg.Lawful ∧ f.Canonical ∧
      check false reg f pcs false false = .ok (pc, ts) ∧ pc.asx ≠ f.sop ∧
      check true reg f pcs false false = .error .noPresentationContext := by
  let tbl : List TsEntry :=
    [⟨ivrle, true, true⟩, ⟨evrle, true, true⟩, ⟨"1.2.840.10008.1.2.1.99".toList, false, true⟩]
  refine ⟨Reg.ofTable tbl,
    ⟨"1.2.840.10008.5.1.4.1.1.2".toList, "1.2.840.10008.1.2.1.99".toList, []⟩,
    [⟨1, "1.2.840.10008.5.1.4.1.1.4".toList, ivrle⟩],
    ⟨1, "1.2.840.10008.5.1.4.1.1.4".toList, ivrle⟩, ivrle,
    Reg.ofTable_lawful tbl, ?_, ?_, ?_, ?_⟩
  · rfl
  · rfl
  · decide
  · rfl

theorem find?_filter_of_find? {p q : Pc → Bool} {l : List Pc} {x : Pc}
    (h : l.find? q = some x) (hp : p x = true) : (l.filter p).find? q = some x := by
  rw [find?_filter_and]
  induction l with
  | nil => cases h
  | cons a as ih =>
    rw [List.find?_cons] at h ⊢
    by_cases hq : q a
    · simp only [hq] at h
      cases h
      simp [hp, hq]
    · simp only [hq] at h
      simp only [hq, Bool.and_false]
      exact ih h

theorem fallback_orig_to_fixed {ign : Bool} {sop : Uid} {pcs : List Pc} {pc : Pc}
    (h : fallback false ign sop pcs = some pc) (hc : classOk ign sop pc = true) :
    fallback true ign sop pcs = some pc := by
  unfold fallback at h ⊢
  split at h
  · next x hx => cases h; simp
  · next hnone =>
    simp only [Bool.false_eq_true, if_false] at h
    simp only [if_true]
    exact find?_filter_of_find? h hc

theorem fallback_orig_none {ign : Bool} {sop : Uid} {pcs : List Pc}
    (h : fallback false ign sop pcs = none) : fallback true ign sop pcs = none := by
  unfold fallback at h ⊢
  split at h
  · cases h
  · next hnone =>
    simp only [Bool.false_eq_true, if_false] at h
    simp only [if_true]
    rw [List.find?_eq_none] at h ⊢
    intro x hx
    exact h x (List.mem_filter.mp hx).1

/-- The repair only touches sends on a mismatched context: wherever the original selection
answers with a context that passes the SOP class test, the repaired one gives the same answer. -/
theorem fix_is_conservative {reg : Reg} {f : FileInfo} {pcs : List Pc} {ign never : Bool}
    {pc : Pc} {ts : Uid}
    (h : check false reg f pcs ign never = .ok (pc, ts)) (hc : classOk ign f.sop pc = true) :
    check true reg f pcs ign never = .ok (pc, ts) := by
  unfold check checkCore at h ⊢
  split
  · next hf => rw [hf] at h; exact h
  · next fts hf =>
    rw [hf] at h
    simp only at h ⊢
    split
    · next x hx => rw [hx] at h; exact h
    · next hx =>
      rw [hx] at h
      simp only at h ⊢
      split
      · next y hy => rw [hy] at h; exact h
      · next hy =>
        rw [hy] at h
        simp only at h ⊢
        split
        · next hcond => rw [if_pos hcond] at h; exact h
        · next hcond =>
          rw [if_neg hcond] at h
          split at h
          · next z hz =>
            obtain ⟨t, ht, rfl, rfl⟩ := finish_ok h
            rw [fallback_orig_to_fixed hz hc]
            exact h
          · cases h

/-- … and it never turns a refusal into a send. -/
theorem fix_keeps_refusals {reg : Reg} {f : FileInfo} {pcs : List Pc} {ign never : Bool}
    {e : SelErr} (h : check false reg f pcs ign never = .error e) :
    ∃ e', check true reg f pcs ign never = .error e' := by
  unfold check checkCore at h ⊢
  split
  · exact ⟨_, rfl⟩
  · next fts hf =>
    rw [hf] at h
    simp only at h ⊢
    split
    · next x hx => rw [hx] at h; cases h
    · next hx =>
      rw [hx] at h
      simp only at h ⊢
      split
      · next y hy => rw [hy] at h; exact ⟨e, h⟩
      · next hy =>
        rw [hy] at h
        simp only at h ⊢
        split
        · exact ⟨_, rfl⟩
        · next hcond =>
          rw [if_neg hcond] at h
          split at h
          · next z hz =>
            by_cases hc : classOk ign f.sop z = true
            · rw [fallback_orig_to_fixed hz hc]; exact ⟨e, h⟩
            · cases hfx : fallback true ign f.sop pcs with
              | none => exact ⟨_, rfl⟩
              | some w =>
                -- both are the first Implicit VR LE context of their list, or the same Explicit one
                have hz' := hz
                unfold fallback at hz' hfx
                split at hz'
                · next x hx2 =>
                  cases hz'
                  exact absurd (find?_filter_mem hx2).2.1 hc
                · next hnone =>
                  simp only [hnone, if_true] at hfx
                  simp only [Bool.false_eq_true, if_false] at hz'
                  have hw := find?_filter_mem hfx
                  have hwts : w.ts = ivrle := by simpa using hw.2.2
                  have hzts : z.ts = ivrle := by simpa using List.find?_some hz'
                  simp only [finish, hzts] at h
                  simp only [finish, hwts]
                  split at h
                  · exact ⟨_, rfl⟩
                  · cases h
          · next hz => rw [fallback_orig_none hz]; exact ⟨_, rfl⟩

/-- With `--ignore-sop-class` the two selections coincide. -/
theorem fix_same_when_ignoring {reg : Reg} {f : FileInfo} {pcs : List Pc} {never : Bool} :
    check true reg f pcs true never = check false reg f pcs true never := by
  have hfil : pcs.filter (classOk true f.sop) = pcs := by
    rw [List.filter_eq_self]; intro a _; rfl
  unfold check fallback
  rw [hfil]
  simp

/-! ### the send loop -/

/-- Every store of a run goes out on an accepted context of the file's own SOP class
(unless `--ignore-sop-class`), written in that context's transfer syntax — for any number of
files. -/
theorem session_all_match {reg : Reg} (hreg : reg.Lawful) {pcs : List Pc}
    {ign never failFirst : Bool} (files : List FileInfo) :
    ∀ p ∈ (session true reg pcs ign never failFirst files).1,
      p.file ∈ files ∧ p.pc ∈ pcs ∧ (ign = false → p.pc.asx = p.file.sop) ∧
      p.ts = trimUid p.pc.ts := by
  induction files with
  | nil => intro p hp; simp [session] at hp
  | cons f fs ih =>
    intro p hp
    unfold session at hp
    split at hp
    · next p0 hp0 =>
      simp only [List.mem_cons] at hp
      rcases hp with rfl | hp
      · unfold plan at hp0
        split at hp0
        · next pc ts hc =>
          cases hp0
          refine ⟨by simp, chosen_context_accepted hc, ?_, chosen_ts_is_context_ts hreg hc⟩
          intro hi; subst hi
          exact chosen_context_matches hc
        · cases hp0
      · obtain ⟨a, b⟩ := ih p hp
        exact ⟨by simp [a], b⟩
    · split at hp
      · simp at hp
      · obtain ⟨a, b⟩ := ih p hp
        exact ⟨by simp [a], b⟩

/-- Without `--fail-first`, exactly the files that have a usable context are sent, each once,
in the order given. -/
theorem session_complete {fixed : Bool} {reg : Reg} {pcs : List Pc} {ign never : Bool}
    (files : List FileInfo) :
    (session fixed reg pcs ign never false files).1.map (·.file) =
      files.filter (fun f => (plan fixed reg pcs ign never f).toBool) ∧
    (session fixed reg pcs ign never false files).2 = false := by
  induction files with
  | nil => simp [session]
  | cons f fs ih =>
    unfold session
    split
    · next p hp =>
      have hpf : p.file = f := by
        unfold plan at hp
        split at hp
        · cases hp; rfl
        · cases hp
      simp [hp, Except.toBool, ih.1, ih.2, hpf]
    · next e he =>
      simp [he, Except.toBool, ih.1, ih.2]

/-- With `--fail-first`, the run stops at the first file without a usable context: what was sent
is the longest prefix of sendable files. -/
theorem session_fail_first {fixed : Bool} {reg : Reg} {pcs : List Pc} {ign never : Bool}
    (files : List FileInfo) :
    (session fixed reg pcs ign never true files).1.map (·.file) =
      files.takeWhile (fun f => (plan fixed reg pcs ign never f).toBool) ∧
    ((session fixed reg pcs ign never true files).2 = true ↔
      ∃ f ∈ files, (plan fixed reg pcs ign never f).toBool = false) := by
  induction files with
  | nil => simp [session]
  | cons f fs ih =>
    unfold session
    split
    · next p hp =>
      have hpf : p.file = f := by
        unfold plan at hp
        split at hp
        · cases hp; rfl
        · cases hp
      simp [hp, Except.toBool, ih.1, ih.2, hpf]
    · next e he =>
      simp [he, Except.toBool]

/-! ### what is proposed -/

/-- Every file's own (SOP class, transfer syntax) pair is proposed, and — unless
`--never-transcode` — Explicit and Implicit VR Little Endian for its class. -/
theorem proposals_cover {never : Bool} {files : List FileInfo} {f : FileInfo} (h : f ∈ files) :
    (f.sop, f.ts) ∈ proposals never files ∧
    (never = false → (f.sop, evrle) ∈ proposals never files ∧ (f.sop, ivrle) ∈ proposals never files) := by
  unfold proposals
  refine ⟨List.mem_flatMap.mpr ⟨f, h, by simp⟩, ?_⟩
  intro hn
  subst hn
  exact ⟨List.mem_flatMap.mpr ⟨f, h, by simp⟩, List.mem_flatMap.mpr ⟨f, h, by simp⟩⟩

/-- Nothing is proposed for a SOP class without a file: with an acceptor that only answers what was
proposed, every accepted context belongs to the class of some file of the run. -/
theorem proposals_only_for_files {never : Bool} {files : List FileInfo} {q : Uid × Uid}
    (h : q ∈ proposals never files) : ∃ f ∈ files, q.1 = f.sop := by
  unfold proposals at h
  obtain ⟨f, hf, hq⟩ := List.mem_flatMap.mp h
  refine ⟨f, hf, ?_⟩
  cases never <;> simp at hq <;> rcases hq with rfl | rfl | rfl <;> rfl

/-! ### non-vacuity -/

/-- a CT file in Explicit VR BE, acceptor took (CT, Explicit LE) and (MR, Explicit BE):
sent on the CT context, re-encoded (both syntaxes codec-free) -/
example :
    let tbl : List TsEntry :=
      [⟨ivrle, true, true⟩, ⟨evrle, true, true⟩, ⟨"1.2.840.10008.1.2.2".toList, true, true⟩]
    let f : FileInfo := ⟨"1.2.840.10008.5.1.4.1.1.2".toList, "1.2.840.10008.1.2.2".toList, []⟩
    let pcs : List Pc := [⟨1, "1.2.840.10008.5.1.4.1.1.4".toList, "1.2.840.10008.1.2.2".toList⟩,
                          ⟨3, "1.2.840.10008.5.1.4.1.1.2".toList, evrle⟩]
    f.Canonical ∧
    plan true (Reg.ofTable tbl) pcs false true f = .ok ⟨f, ⟨3, f.sop, evrle⟩, evrle, true⟩ :=
  ⟨rfl, rfl⟩

/-- a padded transfer syntax text in the acceptor's answer is looked up by its trimmed form -/
example :
    check true (Reg.ofTable [⟨ivrle, true, true⟩, ⟨evrle, true, true⟩])
      ⟨['A'], evrle, []⟩ [⟨5, ['A'], ivrle ++ [' ']⟩] false false
      = .ok (⟨5, ['A'], ivrle ++ [' ']⟩, ivrle) := rfl

end Dicom.StoreScu
