import DicomModel.Model.StoreScp
import DicomModel.Lemmas.StoreScp
/-
C32 — The storage SCP stores exactly what it receives, only in its output directory.

Model: `DicomModel/Model/StoreScp.lean` (`storescp/src/store_sync.rs`, `store_async.rs`).

Part 1 (where the file lands).  `stored_inside`: the statement's first clause at full strength —
for EVERY SOP Instance UID text (separators, `..`, absolute paths, NUL, …), every directory text,
working directory and directory tree, a created file lies directly inside the output directory;
`stored_inside_created`: and it is created there under the evident file-system conditions;
`fileName_of_legal_uid`: well-formed UIDs keep the name `<uid>.dcm`.  The clause was FALSE of the
code before fix 08d5699 (`legacy_stored_inside_refuted`, witnesses `legacy_escape_*`; finding
`uid-path-escape`, reproduced on the real binary at the time).

Part 2 (what is stored).  `store_message` / `stored_content`: for any state, any command, any split
of the data set bytes into P-DATA values and any grouping into PDUs, exactly one file is written; its
data set is the decoding, in the transfer syntax negotiated for the presentation context, of the
concatenation of the received fragments; its meta group carries that transfer syntax and the SOP
class / instance of that data set.  `writes_sound`: in ANY event sequence (also ill-formed ones)
every file written has these properties.  The data-set codec is a parameter.
-/
namespace Dicom.StoreScp

/-! ## Part 1: where the file lands -/

theorem directlyInside_iff (D f : Comps) : directlyInside D f = true ↔ ∃ name, f = D ++ [name] := by
  constructor
  · intro h
    simp only [directlyInside, Bool.and_eq_true, Bool.not_eq_true', beq_iff_eq] at h
    obtain ⟨h1, h2⟩ := h
    have hne : f ≠ [] := by
      intro e; subst e; simp at h1
    refine ⟨f.getLast hne, ?_⟩
    rw [← h2]
    exact (List.dropLast_concat_getLast hne).symm
  · rintro ⟨n, rfl⟩
    simp [directlyInside]

/-- The first clause of the statement for a naming function `path dir uid`: whatever the UID
text, the directory text, the working directory and the existing directories, a file that gets
created lies directly inside the configured directory. -/
def StoredInside (path : Str → Str → Str) : Prop :=
  ∀ (dirs : List Comps) (cwd : Comps) (dir uid : Str) (D f : Comps),
    locateDir dirs cwd dir = some D → locate dirs cwd (path dir uid) = some f →
    directlyInside D f = true

theorem locate_of_pieces (dirs : List Comps) (cwd : Comps) (p : Str) (pre : List Str) (name : Str)
    (D : Comps) (hp : p ≠ []) (hn : nul ∉ p) (hs : splitOn '/' p = pre ++ [name])
    (h0 : name ≠ []) (h1 : name ≠ dot) (h2 : name ≠ dotdot)
    (hlen : (utf8Encode name).length ≤ 255)
    (hw : walk dirs (if isAbs p then [] else cwd) pre = some D) (hfree : D ++ [name] ∉ dirs) :
    locate dirs cwd p = some (D ++ [name]) := by
  unfold locate
  have hl : ¬ (utf8Encode name).length > 255 := by omega
  simp [hp, hn, hs, h0, h1, h2, hl, hw, hfree]

/-- conversely: whenever a file is created, it is the last piece, in the directory the walk over
the other pieces reaches -/
theorem pieces_of_locate (dirs : List Comps) (cwd : Comps) (p : Str) (pre : List Str) (name : Str)
    (D f : Comps) (hs : splitOn '/' p = pre ++ [name])
    (hw : walk dirs (if isAbs p then [] else cwd) pre = some D)
    (h : locate dirs cwd p = some f) : f = D ++ [name] := by
  unfold locate at h
  simp only [hs, List.getLast?_append, List.getLast?_singleton, Option.some_or, Option.getD_some,
    List.dropLast_concat, hw] at h
  split at h
  · simp at h
  · split at h
    · simp at h
    · split at h
      · simp at h
      · exact (Option.some.inj h).symm

theorem isAbs_append_of_ne_nil {a : Str} (b : Str) (h : a ≠ []) : isAbs (a ++ b) = isAbs a := by
  cases a with
  | nil => exact absurd rfl h
  | cons x xs => simp [isAbs]

theorem dcm_name_facts (base : Str) (hb : '/' ∉ base) :
    '/' ∉ base ++ dcmExt ∧ base ++ dcmExt ≠ [] ∧ base ++ dcmExt ≠ dot ∧ base ++ dcmExt ≠ dotdot ∧
    isAbs (base ++ dcmExt) = false := by
  have hlen : (base ++ dcmExt).length ≥ 4 := by simp [dcmExt]
  refine ⟨?_, ?_, ?_, ?_, ?_⟩
  · intro h
    rcases List.mem_append.mp h with h | h
    · exact hb h
    · revert h; decide
  · intro e; rw [e] at hlen; simp at hlen
  · intro e; rw [e] at hlen; simp [dot] at hlen
  · intro e; rw [e] at hlen; simp [dotdot] at hlen
  · cases base with
    | nil => decide
    | cons x xs =>
      have : x ≠ '/' := fun e => hb (by simp [e])
      simp [isAbs, this]

/-- `push`ing a name without separator adds exactly one piece, and the other pieces walk to the
directory the directory text names -/
theorem push_pieces (dir base : Str) (hb : '/' ∉ base) :
    ∃ pre, splitOn '/' (push dir (base ++ dcmExt)) = pre ++ [base ++ dcmExt] ∧
      push dir (base ++ dcmExt) ≠ [] ∧
      (∀ c, c ∈ push dir (base ++ dcmExt) → c ∈ dir ∨ c = '/' ∨ c ∈ base ++ dcmExt) ∧
      ∀ (dirs : List Comps) (cwd D : Comps), locateDir dirs cwd dir = some D →
        walk dirs (if isAbs (push dir (base ++ dcmExt)) then [] else cwd) pre = some D := by
  obtain ⟨hs, h0, _, _, hab⟩ := dcm_name_facts base hb
  by_cases hd : dir = []
  · subst hd
    have hp : push [] (base ++ dcmExt) = base ++ dcmExt := by simp [push, hab]
    refine ⟨[], ?_, ?_, ?_, ?_⟩
    · rw [hp]; simpa using splitOn_of_not_mem hs
    · rw [hp]; exact h0
    · intro c hc; rw [hp] at hc; exact Or.inr (Or.inr hc)
    · intro dirs cwd D hD
      unfold locateDir at hD
      have : walk dirs cwd [[]] = some cwd := by simp [walk]
      simp [isAbs, splitOn] at hD
      rw [this] at hD
      rw [hp]
      simp [hab, walk]
      exact (Option.some.inj hD)
  · by_cases hl : dir.getLast? = some '/'
    · obtain ⟨d', rfl⟩ : ∃ d', dir = d' ++ ['/'] := by
        refine ⟨dir.dropLast, ?_⟩
        have hne : dir ≠ [] := hd
        have : dir.getLast hne = '/' := by
          rw [List.getLast?_eq_some_getLast hne] at hl
          exact Option.some.inj hl
        rw [← this]
        exact (List.dropLast_concat_getLast hne).symm
      have hp : push (d' ++ ['/']) (base ++ dcmExt) = d' ++ '/' :: (base ++ dcmExt) := by
        simp [push, hab]
      refine ⟨splitOn '/' d', ?_, ?_, ?_, ?_⟩
      · rw [hp, splitOn_append_sep, splitOn_of_not_mem hs]
      · rw [hp]; simp
      · intro c hc
        rw [hp] at hc
        rcases List.mem_append.mp hc with h | h
        · exact Or.inl (List.mem_append.mpr (Or.inl h))
        · rcases List.mem_cons.mp h with h | h
          · exact Or.inr (Or.inl h)
          · exact Or.inr (Or.inr h)
      · intro dirs cwd D hD
        unfold locateDir at hD
        have habs : isAbs (d' ++ '/' :: (base ++ dcmExt)) = isAbs (d' ++ ['/']) := by
          cases d' <;> simp [isAbs]
        have hsd : splitOn '/' (d' ++ ['/']) = splitOn '/' d' ++ [[]] := by
          rw [splitOn_append_sep]; simp [splitOn]
        rw [hsd, walk_append] at hD
        rw [hp, habs]
        cases h : walk dirs (if isAbs (d' ++ ['/']) then [] else cwd) (splitOn '/' d') with
        | none => rw [h] at hD; simp at hD
        | some e =>
          rw [h] at hD
          simp [walk] at hD
          rw [hD]
    · have hp : push dir (base ++ dcmExt) = dir ++ '/' :: (base ++ dcmExt) := by
        have : dir.isEmpty = false := by cases dir <;> simp_all
        simp [push, hab, this, hl]
      refine ⟨splitOn '/' dir, ?_, ?_, ?_, ?_⟩
      · rw [hp, splitOn_append_sep, splitOn_of_not_mem hs]
      · rw [hp]; simp
      · intro c hc
        rw [hp] at hc
        rcases List.mem_append.mp hc with h | h
        · exact Or.inl h
        · rcases List.mem_cons.mp h with h | h
          · exact Or.inr (Or.inl h)
          · exact Or.inr (Or.inr h)
      · intro dirs cwd D hD
        unfold locateDir at hD
        rw [hp, isAbs_append_of_ne_nil _ hd]
        exact hD

/-- any naming that pushes `<separator-free base>.dcm` on the directory satisfies the clause -/
theorem stored_inside_of_plain_base (base : Str → Str) (hb : ∀ uid, '/' ∉ base uid) :
    StoredInside fun dir uid => push dir (base uid ++ dcmExt) := by
  intro dirs cwd dir uid D f hD hf
  obtain ⟨pre, hs, _, _, hw⟩ := push_pieces dir (base uid) (hb uid)
  have := pieces_of_locate dirs cwd _ pre _ D f hs (hw dirs cwd D hD) hf
  exact (directlyInside_iff D f).mpr ⟨_, this⟩

/-- **stored_inside** — the first clause of the statement, at full strength, for the code as it
is (after fix 08d5699): for EVERY UID text, directory text, working directory and directory tree,
a file that `storescp` creates lies directly inside its output directory. -/
theorem stored_inside : StoredInside outPath :=
  stored_inside_of_plain_base (fun uid => sanitise (trimEndBy isNul uid))
    (fun _ h => (mem_sanitise h).1 rfl)

/-- … and the file IS created there (the store is not refused) whenever the directory exists, its
text has no NUL, the name fits `NAME_MAX` and is not an existing directory -/
theorem stored_inside_created (dirs : List Comps) (cwd D : Comps) (dir uid : Str)
    (hdn : nul ∉ dir) (hD : locateDir dirs cwd dir = some D)
    (hlen : (utf8Encode (fileName uid)).length ≤ 255)
    (hfree : D ++ [fileName uid] ∉ dirs) :
    locate dirs cwd (outPath dir uid) = some (D ++ [fileName uid]) := by
  have hb : '/' ∉ sanitise (trimEndBy isNul uid) := fun h => (mem_sanitise h).1 rfl
  have hbn : nul ∉ sanitise (trimEndBy isNul uid) := fun h => (mem_sanitise h).2 rfl
  obtain ⟨hs0, h0, h1, h2, _⟩ := dcm_name_facts _ hb
  obtain ⟨pre, hs, hne, hmem, hw⟩ := push_pieces dir _ hb
  refine locate_of_pieces dirs cwd _ pre _ D hne ?_ hs h0 h1 h2 hlen (hw dirs cwd D hD) hfree
  intro h
  rcases hmem _ h with h | h | h
  · exact hdn h
  · revert h; decide
  · rcases List.mem_append.mp h with h | h
    · exact hbn h
    · revert h; decide

/-- the repair changes nothing for texts without separator or NUL (every well-formed UID) -/
theorem sanitise_id_of_plain {s : Str} (h1 : '/' ∉ s) (h2 : nul ∉ s) : sanitise s = s := by
  unfold sanitise
  induction s with
  | nil => rfl
  | cons x xs ih =>
    have hx1 : x ≠ '/' := fun e => h1 (by simp [e])
    have hx2 : x ≠ nul := fun e => h2 (by simp [e])
    have := ih (fun m => h1 (by simp [m])) (fun m => h2 (by simp [m]))
    simp [hx1, hx2, this]

/-- a legal DICOM UID: digits and dots only -/
def LegalUid (uid : Str) : Prop := ∀ c ∈ uid, c.isDigit = true ∨ c = '.'

/-- legal UIDs keep the file name they always had: `<uid>.dcm` -/
theorem fileName_of_legal_uid (uid : Str) (hu : LegalUid uid) : fileName uid = uid ++ dcmExt := by
  have hmem : ∀ c ∈ uid, c ≠ '/' ∧ c ≠ nul := by
    intro c hc
    rcases hu c hc with h | h
    · constructor <;> (intro e; subst e; revert h; decide)
    · subst h; exact ⟨by decide, by decide⟩
  have htrim : trimEndBy isNul uid = uid := by
    unfold trimEndBy
    cases hr : uid.reverse with
    | nil => simpa using hr
    | cons x xs =>
      have hx : x ∈ uid := List.mem_reverse.mp (by rw [hr]; simp)
      have : isNul x = false := by
        have := (hmem x hx).2
        simp [isNul, this]
      rw [List.dropWhile_cons_of_neg (by simp [this]), ← hr, List.reverse_reverse]
  unfold fileName
  rw [htrim, sanitise_id_of_plain (fun h => (hmem _ h).1 rfl) (fun h => (hmem _ h).2 rfl)]

/-! ### the code before fix 08d5699 did not satisfy the clause -/

private def w : Str := ['w']
private def o : Str := ['o']
private def s : Str := ['s']
private def dirs0 : List Comps := [[], [w], [w, o], [w, s], [w, o, s]]

/-- `../x`: the file was created in the parent of the output directory -/
theorem legacy_escape_parent :
    locateDir dirs0 [w] o = some [w, o] ∧
    locate dirs0 [w] (outPathLegacy o ['.', '.', '/', 'x']) = some [w, ['x', '.', 'd', 'c', 'm']] := by
  decide

/-- an absolute UID text replaced the output directory altogether -/
theorem legacy_escape_absolute :
    locate dirs0 [w] (outPathLegacy o ['/', 'w', '/', 's', '/', 'x']) = some [w, s, ['x', '.', 'd', 'c', 'm']] := by
  decide

/-- `s/x` with an existing sub-directory `s`: inside, but not directly inside -/
theorem legacy_escape_subdir :
    locate dirs0 [w] (outPathLegacy o ['s', '/', 'x']) = some [w, o, s, ['x', '.', 'd', 'c', 'm']] := by
  decide

theorem legacy_stored_inside_refuted : ¬ StoredInside outPathLegacy := by
  intro h
  have := h dirs0 [w] o ['.', '.', '/', 'x'] [w, o] [w, ['x', '.', 'd', 'c', 'm']]
    legacy_escape_parent.1 legacy_escape_parent.2
  revert this
  decide

-- the hypotheses are satisfiable, and the same inputs now stay inside
example : locate dirs0 [w] (outPath o ['1', '.', '2']) = some [w, o, ['1', '.', '2', '.', 'd', 'c', 'm']] := by
  decide
example : locate dirs0 [w] (outPath o ['.', '.', '/', 'x']) = some [w, o, ['.', '.', '_', 'x', '.', 'd', 'c', 'm']] := by
  decide
example : locate dirs0 [w] (outPath o ['/', 'w', '/', 's', '/', 'x']) =
    some [w, o, ['_', 'w', '_', 's', '_', 'x', '.', 'd', 'c', 'm']] := by
  decide

end Dicom.StoreScp

namespace Dicom.StoreScp

/-! ## Part 2: what is stored -/

variable {δ : Type}

def dataPdv (pc : Nat) (last : Bool) (b : Bytes) : Pdv := ⟨pc, .data, last, b⟩

theorem stepPdvs_append (env : Env δ) (s : St) (a b : List Pdv) :
    stepPdvs env s (a ++ b) =
      match stepPdvs env s a with
      | (some s', es) => ((stepPdvs env s' b).1, es ++ (stepPdvs env s' b).2)
      | (none, es) => (none, es) := by
  induction a generalizing s with
  | nil => simp [stepPdvs]
  | cons v vs ih =>
    simp only [List.cons_append, stepPdvs]
    cases h : stepPdv env s v with
    | none => simp
    | some r =>
      obtain ⟨s1, es1⟩ := r
      simp only [ih s1]
      cases h2 : stepPdvs env s1 vs with
      | mk r2 es2 =>
        cases r2 with
        | none => simp
        | some s2 => simp [List.append_assoc]

/-- **PDU grouping is irrelevant**: the values of one PDU may as well arrive in two -/
theorem run_pdata_split (env : Env δ) (s : St) (a b : List Pdv) (evs : List Ev) :
    run env s (.pdata (a ++ b) :: evs) = run env s (.pdata a :: .pdata b :: evs) := by
  simp only [run, stepPdvs_append]
  cases h : stepPdvs env s a with
  | mk r es =>
    cases r with
    | none => simp
    | some s1 =>
      cases h2 : stepPdvs env s1 b with
      | mk r2 es2 =>
        cases r2 with
        | none => simp [h2]
        | some s2 => simp [h2]

theorem run_pdata_nil (env : Env δ) (s : St) (evs : List Ev) :
    run env s (.pdata [] :: evs) = run env s evs := by
  simp [run, stepPdvs]

/-- any grouping of a value sequence into PDUs gives the same effects as one PDU -/
theorem run_any_grouping (env : Env δ) (s : St) (pdus : List (List Pdv)) (evs : List Ev) :
    run env s (pdus.map Ev.pdata ++ evs) = run env s (.pdata pdus.flatten :: evs) := by
  induction pdus generalizing s with
  | nil => simp [run_pdata_nil]
  | cons p ps ih =>
    simp only [List.map_cons, List.cons_append, List.flatten_cons]
    rw [run_pdata_split]
    simp only [run]
    cases h : stepPdvs env s p with
    | mk r es =>
      cases r with
      | none => rfl
      | some s1 =>
        have := ih s1
        simp only [run] at this
        simp only [this]

/-- non-final data fragments only accumulate in the instance buffer -/
theorem stepPdvs_fragments (env : Env δ) (s : St) (pc : Nat) (fs : List Bytes) :
    stepPdvs env s (fs.map (dataPdv pc false)) = (some { s with buf := s.buf ++ fs.flatten }, []) := by
  induction fs generalizing s with
  | nil => simp [stepPdvs]
  | cons f fs ih =>
    simp only [List.map_cons, stepPdvs, stepPdv, dataPdv, List.flatten_cons]
    have := ih { s with buf := s.buf ++ f }
    simp [this, List.append_assoc]

/-- **fragmentation is irrelevant**: a data set sent as fragments `fs` + final fragment `l`
is processed exactly like the same bytes sent as one final fragment -/
theorem chunking_irrelevant (env : Env δ) (s : St) (pc : Nat) (fs : List Bytes) (l : Bytes) :
    stepPdvs env s (fs.map (dataPdv pc false) ++ [dataPdv pc true l]) =
    stepPdvs env s [dataPdv pc true (fs.flatten ++ l)] := by
  rw [stepPdvs_append, stepPdvs_fragments]
  simp only [stepPdvs, stepPdv, dataPdv, List.append_assoc]
  cases lookupPc env.pcs pc with
  | none => rfl
  | some ts =>
    simp only
    cases env.decodeDs ts (s.buf ++ (fs.flatten ++ l)) with
    | none => rfl
    | some ds =>
      simp only
      cases env.sopClass ds <;> cases env.sopInst ds <;> simp

/-- **stored_content**: one C-STORE message — a command, then the data set in any number of
fragments — makes the loop write exactly one file, named after the command's Affected SOP Instance
UID, whose data set is the received bytes decoded in the transfer syntax negotiated for the
presentation context, with that transfer syntax and the data set's SOP class/instance in the meta
group; then a success response for the command's message id. Earlier state does not matter. -/
theorem store_message (env : Env δ) (s : St) (pcC pc : Nat) (cbytes : Bytes) (c : Cmd)
    (f m : Nat) (k u : Str) (fs : List Bytes) (l : Bytes) (ts : Str) (ds : δ) (dc di : Str)
    (hc : env.decodeCmd cbytes = some c) (hf : c.field = some f) (hne : f ≠ 0x30)
    (hm : c.msgId = some m) (hk : c.cls = some k) (hu : c.inst = some u)
    (hpc : lookupPc env.pcs pc = some ts)
    (hds : env.decodeDs ts (fs.flatten ++ l) = some ds)
    (hdc : env.sopClass ds = some dc) (hdi : env.sopInst ds = some di)
    (hw : env.canWrite (outPath env.outDir (toStrText u)) = true) :
    stepPdvs env s (⟨pcC, .command, true, cbytes⟩ :: (fs.map (dataPdv pc false) ++ [dataPdv pc true l])) =
      (some ⟨fs.flatten ++ l, m, toStrText k, toStrText u⟩,
       [.wrote ⟨outPath env.outDir (toStrText u), ts, dc, di, ds⟩,
        .storeRsp pc m (toStrText k) (toStrText u)]) := by
  rw [stepPdvs]
  simp only [stepPdv, hc, hf, hne, if_false, hm, hk, hu]
  rw [chunking_irrelevant]
  simp [stepPdvs, stepPdv, dataPdv, hpc, hds, hdc, hdi, hw]

/-- with a codec that re-encodes what it decoded, the stored data set bytes ARE the received bytes -/
theorem stored_bytes (decode : Bytes → Option δ) (encode : δ → Bytes)
    (hcodec : ∀ b d, decode b = some d → encode d = b)
    (fs : List Bytes) (l : Bytes) (ds : δ) (h : decode (fs.flatten ++ l) = some ds) :
    encode ds = fs.flatten ++ l := hcodec _ _ h

/-- what every written file satisfies -/
def WriteOk (env : Env δ) (f : FileOut δ) : Prop :=
  ∃ pc buf u, lookupPc env.pcs pc = some f.ts ∧ env.decodeDs f.ts buf = some f.ds ∧
    env.sopClass f.ds = some f.cls ∧ env.sopInst f.ds = some f.inst ∧
    f.path = outPath env.outDir u ∧ env.canWrite f.path = true

theorem stepPdv_writes (env : Env δ) (s s' : St) (v : Pdv) (es : List (Effect δ))
    (h : stepPdv env s v = some (s', es)) (f : FileOut δ) (hf : Effect.wrote f ∈ es) :
    WriteOk env f := by
  unfold stepPdv at h
  split at h
  · simp at h; obtain ⟨_, rfl⟩ := h; simp at hf
  · simp at h; obtain ⟨_, rfl⟩ := h; simp at hf
  · split at h
    · simp at h
    · split at h
      · simp at h
      · split at h
        · simp at h; obtain ⟨_, rfl⟩ := h; simp at hf
        · split at h
          · simp at h; obtain ⟨_, rfl⟩ := h; simp at hf
          · simp at h
  · split at h
    · simp at h
    · rename_i ts hts
      dsimp only at h
      split at h
      · simp at h
      · rename_i ds hds
        split at h
        · rename_i dc di hdc hdi
          split at h
          · rename_i hw
            simp at h
            obtain ⟨_, rfl⟩ := h
            simp at hf
            subst hf
            exact ⟨v.pc, _, s.inst, hts, hds, hdc, hdi, rfl, hw⟩
          · simp at h
        · simp at h

theorem stepPdvs_writes (env : Env δ) (vs : List Pdv) (s : St) (f : FileOut δ)
    (hf : Effect.wrote f ∈ (stepPdvs env s vs).2) : WriteOk env f := by
  induction vs generalizing s with
  | nil => simp [stepPdvs] at hf
  | cons v vs ih =>
    simp only [stepPdvs] at hf
    cases h : stepPdv env s v with
    | none => simp [h] at hf
    | some r =>
      obtain ⟨s1, es1⟩ := r
      simp only [h] at hf
      rcases List.mem_append.mp hf with hf | hf
      · exact stepPdv_writes env s s1 v es1 h f hf
      · exact ih s1 hf

/-- **writes_sound**: in ANY sequence of received PDUs (well-formed or not), from any state, every
file the loop writes (a) is named by `push`ing `<some UID text>.dcm` on the output directory,
(b) has the transfer syntax negotiated for the presentation context of its final fragment,
(c) holds a data set decoded in that syntax, and (d) has that data set's SOP class and instance
in its meta group. -/
theorem writes_sound (env : Env δ) (evs : List Ev) (s : St) (f : FileOut δ)
    (hf : Effect.wrote f ∈ run env s evs) : WriteOk env f := by
  induction evs generalizing s with
  | nil => simp [run] at hf
  | cons e evs ih =>
    cases e with
    | pdata vs =>
      simp only [run] at hf
      cases h : stepPdvs env s vs with
      | mk r es =>
        have hes : es = (stepPdvs env s vs).2 := by rw [h]
        cases r with
        | none =>
          simp only [h] at hf
          exact stepPdvs_writes env vs s f (hes ▸ hf)
        | some s1 =>
          simp only [h] at hf
          rcases List.mem_append.mp hf with hf | hf
          · exact stepPdvs_writes env vs s f (hes ▸ hf)
          · exact ih s1 hf
    | releaseRq => simp [run] at hf
    | abortRq => simp [run] at hf
    | other => simp only [run] at hf; exact ih s hf

/-- the loop never answers a data set it could not store: a store response is always directly
preceded by the file write -/
theorem response_follows_write (env : Env δ) (s s' : St) (v : Pdv) (es : List (Effect δ))
    (h : stepPdv env s v = some (s', es)) (pc m : Nat) (k u : Str)
    (hr : Effect.storeRsp pc m k u ∈ es) :
    ∃ f, es = [.wrote f, .storeRsp pc m k u] ∧ f.path = outPath env.outDir u := by
  unfold stepPdv at h
  split at h
  · simp at h; obtain ⟨_, rfl⟩ := h; simp at hr
  · simp at h; obtain ⟨_, rfl⟩ := h; simp at hr
  · split at h
    · simp at h
    · split at h
      · simp at h
      · split at h
        · simp at h; obtain ⟨_, rfl⟩ := h; simp at hr
        · split at h
          · simp at h; obtain ⟨_, rfl⟩ := h; simp at hr
          · simp at h
  · split at h
    · simp at h
    · dsimp only at h
      split at h
      · simp at h
      · split at h
        · split at h
          · simp at h
            obtain ⟨_, rfl⟩ := h
            simp at hr
            obtain ⟨rfl, rfl, rfl, rfl⟩ := hr
            exact ⟨_, rfl, rfl⟩
          · simp at h
        · simp at h

/-- the file layout the driver's oracle parses: splitting a written file gives back the meta
elements and the data set bytes -/
theorem splitFile_fileBytes (metaBody dsBytes : Bytes) (hm : metaBody.length < 4294967296) :
    splitFile (fileBytes metaBody dsBytes) = some (metaBody, dsBytes) := by
  unfold splitFile fileBytes
  have h128 : (List.replicate 128 (0 : Nat)).length = 128 := by simp
  have hlen : ¬ (List.replicate 128 (0 : Nat) ++ ([68, 73, 67, 77] ++ ([2, 0, 0, 0, 85, 76, 4, 0] ++
      (le32 metaBody.length ++ (metaBody ++ dsBytes))))).length < 144 := by
    simp [le32]
  rw [if_neg hlen]
  have hd : (List.replicate 128 (0 : Nat) ++ ([68, 73, 67, 77] ++ ([2, 0, 0, 0, 85, 76, 4, 0] ++
      (le32 metaBody.length ++ (metaBody ++ dsBytes))))).drop 128 =
      [68, 73, 67, 77] ++ ([2, 0, 0, 0, 85, 76, 4, 0] ++ (le32 metaBody.length ++ (metaBody ++ dsBytes))) := by
    rw [List.drop_append_of_le_length (by simp)]
    simp
  simp only [hd]
  simp only [List.cons_append, List.nil_append, List.take, List.drop]
  simp only [ne_eq, not_true_eq_false, if_false]
  rw [rdLe32_le32 _ hm]
  simp [takeN_append]

end Dicom.StoreScp
