import DicomModel.Model.Transcode
import DicomModel.Lemmas.Encap
/-
C19 — Lossless transcoding preserves pixel data exactly.

Model: `DicomModel/Model/Transcode.lean` (decision table of `transcode_with_options`,
`decode_inline`, `decode_and_encode`, `UncompressedAdapter`, a per-fragment codec as parameter) on
top of `DicomModel/Model/Encap.lean` (default `PixelDataWriter::encode` with NUL padding).

Compression codecs are parameters; the only thing assumed of a lossless codec is
`dec (padEven (enc x)) = some x` for every byte string `x` (decoding what was encoded — including
the pad byte the encoder may have appended — gives the input back): `Adapter.Lossless`.
All statements hold for every image size, every number of frames (odd frame sizes included).
-/
namespace Dicom.Transcode
open Dicom.Encap

/-- what is assumed of an adapter: nothing for the uncompressed one (it is modelled concretely),
decode-after-encode for a codec -/
def Adapter.Lossless : Adapter → Prop
  | .uncompressed => True
  | .perFragment enc dec => ∀ x, dec (padEven (enc x)) = some x

/-- the per-frame transformation of the adapter's writer -/
def Adapter.encOne : Adapter → Bytes → Bytes
  | .uncompressed => id
  | .perFragment enc _ => enc

/-- frame `f` of `data` for frames of `fsz` bytes -/
def slice (data : Bytes) (fsz f : Nat) : Bytes := (data.drop (fsz * f)).take fsz

theorem slice_length {data : Bytes} {fsz f : Nat} (h : fsz * (f + 1) ≤ data.length) :
    (slice data fsz f).length = fsz := by
  have : fsz * (f + 1) = fsz * f + fsz := Nat.mul_succ fsz f
  simp only [slice, List.length_take, List.length_drop]; omega

theorem slices_flatten (data : Bytes) (fsz n : Nat) :
    ((List.range n).map (slice data fsz)).flatten = data.take (fsz * n) := by
  induction n with
  | zero => simp
  | succ n ih =>
    rw [List.range_succ, List.map_append, List.flatten_append, ih]
    simp only [List.map_cons, List.map_nil, List.flatten_cons, List.flatten_nil, List.append_nil, slice]
    rw [Nat.mul_succ, List.take_add]

theorem frame_eq_slice (im : Image) (n f : Nat) (hf : f < n) (hlen : im.frameSize * n ≤ im.data.length) :
    im.frame f = some (slice im.data im.frameSize f) := by
  have h1 : im.frameSize * (f + 1) ≤ im.frameSize * n := Nat.mul_le_mul_left _ hf
  have h2 : im.frameSize * (f + 1) = im.frameSize * f + im.frameSize := Nat.mul_succ _ _
  unfold Image.frame sliceGet
  have : im.frameSize * f ≤ im.frameSize * (f + 1) ∧ im.frameSize * (f + 1) ≤ im.data.length := by
    constructor <;> omega
  rw [if_pos this]
  have : im.frameSize * (f + 1) - im.frameSize * f = im.frameSize := by omega
  rw [this]; rfl

theorem encFrame_eq (a : Adapter) (im : Image) (n f : Nat) (hf : f < n)
    (hlen : im.frameSize * n ≤ im.data.length) :
    a.encFrame im f = some (a.encOne (slice im.data im.frameSize f)) := by
  cases a with
  | uncompressed => simp [Adapter.encFrame, uncompressedFrame, Adapter.encOne, frame_eq_slice im n f hf hlen]
  | perFragment enc dec =>
    simp [Adapter.encFrame, codecFrame, Adapter.encOne, frame_eq_slice im n f hf hlen]

theorem encodeLoop_total (enc : Nat → Option Bytes) (n frame off : Nat)
    (h : ∀ i, i < n → ∃ fd, enc (frame + i) = some fd) :
    ∃ ds ts, encodeLoop enc n frame off = some (ds, ts) := by
  induction n generalizing frame off with
  | zero => exact ⟨[], [], rfl⟩
  | succ n ih =>
    obtain ⟨fd, hfd⟩ := h 0 (by omega)
    simp only [Nat.add_zero] at hfd
    obtain ⟨ds, ts, hrec⟩ := ih (frame + 1) (off + (padEven fd).length + 8) (by
      intro i hi
      have := h (i + 1) (by omega)
      rwa [show frame + (i + 1) = frame + 1 + i by omega] at this)
    exact ⟨padEven fd :: ds, off :: ts, by simp [encodeLoop, hfd, hrec]⟩

/-- the fragments the default encoder makes of a native image: one per frame,
the encoded frame padded to even length -/
theorem encode_fragments (a : Adapter) (im : Image) (n : Nat)
    (hlen : im.frameSize * n ≤ im.data.length) :
    ∃ table, encodeDefault (a.encFrame im) (some n) [] [] =
      some ((List.range n).map (fun f => padEven (a.encOne (slice im.data im.frameSize f))), table)
      ∧ table.length = n := by
  obtain ⟨ds, ts, hl⟩ := encodeLoop_total (a.encFrame im) n 0 0 (by
    intro i hi
    exact ⟨_, by rw [Nat.zero_add]; exact encFrame_eq a im n i hi hlen⟩)
  obtain ⟨h1, h2, h3⟩ := encodeLoop_spec _ _ _ _ _ _ hl
  refine ⟨ts, ?_, by rw [h2, prefixOffsets_length]; simp [h1]⟩
  have hds : ds = (List.range n).map (fun f => padEven (a.encOne (slice im.data im.frameSize f))) := by
    apply List.ext_getElem?
    intro i
    by_cases hi : i < n
    · have := h3 i hi
      rw [Nat.zero_add, encFrame_eq a im n i hi hlen] at this
      simp only [Option.map_some] at this
      rw [← this]
      simp [hi]
    · rw [List.getElem?_eq_none (by omega), List.getElem?_eq_none (by simp; omega)]
  simp [encodeDefault, hl, hds]

theorem mapM'_map (f : Bytes → Option Bytes) (g : Bytes → Bytes) (l : List Bytes)
    (h : ∀ x ∈ l, f (g x) = some x) : mapM' f (l.map g) = some l := by
  induction l with
  | nil => rfl
  | cons x xs ih =>
    have hx := h x (by simp)
    have := ih (fun y hy => h y (by simp [hy]))
    simp [mapM', hx, this]

theorem withoutPadding_padEven (s : Bytes) : withoutPadding (padEven s) (some s.length) = s := by
  unfold withoutPadding padEven
  by_cases h : s.length % 2 = 1
  · simp [h]
  · have h' : s.length % 2 = 0 := by omega
    simp [h']

/-- decoding the fragments made by `encode_fragments` gives the first `n` frames back -/
theorem decode_fragments (a : Adapter) (hl : a.Lossless) (o : Obj) (data : Bytes) (n : Nat) (table : List Nat)
    (hbits : o.bits = 8 ∨ o.bits = 16)
    (hlen : o.frameSize * n ≤ data.length)
    (hpix : o.pixel = .encap table
      ((List.range n).map (fun f => padEven (a.encOne (slice data o.frameSize f))))) :
    a.decode o = some (data.take (o.frameSize * n)) := by
  have hfs : o.frameSizeOf = some o.frameSize := by
    unfold Obj.frameSizeOf
    rcases hbits with h | h <;> simp [h]
  cases a with
  | uncompressed =>
    simp only [Adapter.decode, Obj.rawFragments, hpix, Adapter.encOne, id, hfs, List.map_map]
    congr 1
    rw [← slices_flatten]
    congr 1
    apply List.map_congr_left
    intro f hf
    have hf' : f < n := by simpa using hf
    have hsl := slice_length (data := data) (fsz := o.frameSize) (f := f)
      (Nat.le_trans (Nat.mul_le_mul_left _ hf') hlen)
    simp only [Function.comp]
    have := withoutPadding_padEven (slice data o.frameSize f)
    rw [hsl] at this
    exact this
  | perFragment enc dec =>
    simp only [Adapter.decode, Obj.rawFragments, hpix, Adapter.encOne]
    have := mapM'_map dec (fun s => padEven (enc s)) ((List.range n).map (slice data o.frameSize))
      (fun x _ => hl x)
    rw [List.map_map] at this
    simp only [Function.comp_def] at this
    rw [this, Option.map_some, slices_flatten]

/-- **native_to_native_id** — between transfer syntaxes without pixel data encapsulation nothing
but the transfer syntax changes, forth and back. -/
theorem native_to_native_id (o : Obj) (t ele : Ts)
    (ho : o.ts.isEncap = false) (ht : t.isEncap = false) (he : ele.isEncap = false) :
    ∃ o1, transcode o t ele = some o1 ∧ o1.pixel = o.pixel ∧
    ∃ o2, transcode o1 ele ele = some o2 ∧ o2.pixel = o.pixel ∧ o2.rows = o.rows ∧ o2.cols = o.cols ∧
      o2.spp = o.spp ∧ o2.bits = o.bits ∧ o2.nframes = o.nframes := by
  by_cases h1 : o.ts.uid = t.uid
  · refine ⟨o, by simp [transcode, h1], rfl, ?_⟩
    by_cases h2 : o.ts.uid = ele.uid
    · exact ⟨o, by simp [transcode, h2], rfl, rfl, rfl, rfl, rfl, rfl⟩
    · exact ⟨{ o with ts := ele }, by simp [transcode, h2, ho, he], rfl, rfl, rfl, rfl, rfl, rfl⟩
  · refine ⟨{ o with ts := t }, by simp [transcode, h1, ho, ht], rfl, ?_⟩
    by_cases h2 : t.uid = ele.uid
    · exact ⟨{ o with ts := t }, by simp [transcode, h2], rfl, rfl, rfl, rfl, rfl, rfl⟩
    · exact ⟨{ o with ts := ele }, by simp [transcode, h2, ht, he], rfl, rfl, rfl, rfl, rfl, rfl⟩

/-- **lossless_rt** — a native image (8 or 16 bits allocated, any rows/columns/samples, `n` frames
of any size, odd sizes included) transcoded to an encapsulated transfer syntax whose adapter is
lossless, then back to Explicit VR Little Endian, has the pixel data of its `n` frames
byte for byte, and unchanged image attributes. -/
theorem lossless_rt (o : Obj) (t ele : Ts) (a : Adapter) (data : Bytes) (n : Nat)
    (hnat : o.ts.kind = .native) (hpix : o.pixel = .native data) (hn : o.nframes.getD 1 = n)
    (ht : t.kind = .encapsulated a true true) (hele : ele.kind = .native)
    (hu1 : o.ts.uid ≠ t.uid) (hu2 : t.uid ≠ ele.uid)
    (hbits : o.bits = 8 ∨ o.bits = 16)
    (hlen : o.frameSize * n ≤ data.length) (heven : o.bits = 16 → data.length % 2 = 0)
    (hcodec : a.Lossless) :
    ∃ o1, transcode o t ele = some o1 ∧ o1.ts.uid = t.uid ∧ o1.nframes = some n ∧
      (∃ tb fr, o1.pixel = .encap tb fr ∧ fr.length = n ∧ tb.length = n) ∧
    ∃ o2, transcode o1 ele ele = some o2 ∧ o2.ts.uid = ele.uid ∧
      o2.pixel = .native (data.take (o.frameSize * n)) ∧
      o2.rows = o.rows ∧ o2.cols = o.cols ∧ o2.spp = o.spp ∧ o2.bits = o.bits ∧ o2.nframes = some n := by
  -- first hop: decode_inline of the native object, then encode
  have hdec0 : decodePixelData o = some data := by simp [decodePixelData, hnat, hpix]
  have hinl : decodeInline o ele = some { o with pixel := .native data, ts := ele } := by
    unfold decodeInline
    rw [hdec0]
    rcases hbits with h | h
    · simp [h]
    · simp [h, heven h]
  let im : Image := { rows := o.rows, cols := o.cols, spp := o.spp, bits := o.bits, nframes := o.nframes, data := data }
  have hfsz : im.frameSize = o.frameSize := rfl
  obtain ⟨table, henc, htl⟩ := encode_fragments a im n (by rw [hfsz]; exact hlen)
  have hnf : o.nframes = some n ∨ (o.nframes = none ∧ n = 1) := by
    cases h : o.nframes with
    | none => right; simp [h] at hn; exact ⟨rfl, hn.symm⟩
    | some k => left; simp [h] at hn; rw [hn]
  have henc' : encodeDefault (a.encFrame im) o.nframes [] [] =
      some ((List.range n).map (fun f => padEven (a.encOne (slice data o.frameSize f))), table) := by
    have e : encodeDefault (a.encFrame im) o.nframes [] [] = encodeDefault (a.encFrame im) (some n) [] [] := by
      simp only [encodeDefault, hn, Option.getD_some]
    rw [e]; exact henc
  let frs := (List.range n).map (fun f => padEven (a.encOne (slice data o.frameSize f)))
  let o1 : Obj := { o with pixel := .encap table frs, nframes := some table.length,
                           totalLength := some (frs.map List.length).sum, ts := t }
  have hisenc : t.isEncap = true := by simp [Ts.isEncap, ht]
  have h1 : transcode o t ele = some o1 := by
    unfold transcode
    rw [if_neg hu1]
    have : o.ts.isEncap = false := by simp [Ts.isEncap, hnat]
    simp only [this, hisenc]
    unfold decodeAndEncode
    simp only [ht, Bool.not_true, Bool.false_eq_true, if_false, hinl]
    show (match encodeDefault (a.encFrame im) o.nframes [] [] with
      | none => none
      | some (frags, table) => some _) = some o1
    rw [henc']
  refine ⟨o1, h1, rfl, by simp [o1, htl], ⟨table, frs, rfl, by simp [frs], htl⟩, ?_⟩
  -- second hop: decode_inline of the encapsulated object
  have hdec1 : decodePixelData o1 = some (data.take (o.frameSize * n)) := by
    have : o1.ts.kind = .encapsulated a true true := ht
    simp only [decodePixelData, this, if_true]
    exact decode_fragments a hcodec o1 data n table hbits hlen rfl
  have hmin : (data.take (o.frameSize * n)).length = o.frameSize * n := by
    simp only [List.length_take]; omega
  have hev16 : o.bits = 16 → (data.take (o.frameSize * n)).length % 2 = 0 := by
    intro h16
    rw [hmin]
    unfold Obj.frameSize
    rw [h16]
    have : o.cols * o.rows * o.spp * (16 / 8) = 2 * (o.cols * o.rows * o.spp) := by omega
    rw [this, Nat.mul_assoc]; exact Nat.mul_mod_right 2 _
  have heleenc : ele.isEncap = false := by simp [Ts.isEncap, hele]
  have h2 : transcode o1 ele ele = some { o1 with pixel := .native (data.take (o.frameSize * n)), ts := ele } := by
    unfold transcode
    have hne : ¬ o1.ts.uid = ele.uid := hu2
    rw [if_neg hne]
    have : o1.ts.isEncap = true := hisenc
    simp only [this, heleenc]
    unfold decodeInline
    rw [hdec1]
    have hb1 : o1.bits = o.bits := rfl
    rcases hbits with h | h
    · simp [hb1, h]
    · have h16 := hev16 h
      simp only [List.length_take] at h16
      simp [hb1, h, h16]
  exact ⟨_, h2, rfl, rfl, rfl, rfl, rfl, rfl, by simp [o1, htl]⟩

/-- **encap_uncompressed_rt** — the concrete case: Encapsulated Uncompressed Explicit VR Little
Endian. No assumption at all: for every image whose pixel data has exactly
`rows·cols·spp·bytes·frames` bytes the round trip is the identity on the pixel data. -/
theorem encap_uncompressed_rt (o : Obj) (t ele : Ts) (data : Bytes)
    (hnat : o.ts.kind = .native) (hpix : o.pixel = .native data)
    (ht : t.kind = .encapsulated .uncompressed true true) (hele : ele.kind = .native)
    (hu1 : o.ts.uid ≠ t.uid) (hu2 : t.uid ≠ ele.uid)
    (hbits : o.bits = 8 ∨ o.bits = 16)
    (hlen : data.length = o.frameSize * o.nframes.getD 1) :
    ∃ o1, transcode o t ele = some o1 ∧ ∃ o2, transcode o1 ele ele = some o2 ∧
      o2.pixel = .native data := by
  have heven : o.bits = 16 → data.length % 2 = 0 := by
    intro h16
    rw [hlen]
    unfold Obj.frameSize
    rw [h16]
    have : o.cols * o.rows * o.spp * (16 / 8) = 2 * (o.cols * o.rows * o.spp) := by omega
    rw [this, Nat.mul_assoc]; exact Nat.mul_mod_right 2 _
  obtain ⟨o1, h1, _, _, _, o2, h2, _, hp, _⟩ :=
    lossless_rt o t ele .uncompressed data _ hnat hpix rfl ht hele hu1 hu2 hbits (by omega) heven trivial
  refine ⟨o1, h1, o2, h2, ?_⟩
  rw [hp, ← hlen, List.take_length]

/-- **attrs_consistent** — `rows·cols·spp·bytes·frames = pixel data length` holds after the round
trip whenever it held before (for any lossless adapter). -/
theorem attrs_consistent (o : Obj) (t ele : Ts) (a : Adapter) (data : Bytes)
    (hnat : o.ts.kind = .native) (hpix : o.pixel = .native data)
    (ht : t.kind = .encapsulated a true true) (hele : ele.kind = .native)
    (hu1 : o.ts.uid ≠ t.uid) (hu2 : t.uid ≠ ele.uid)
    (hbits : o.bits = 8 ∨ o.bits = 16)
    (hlen : data.length = o.frameSize * o.nframes.getD 1) (hcodec : a.Lossless) :
    ∃ o1 o2 d2, transcode o t ele = some o1 ∧ transcode o1 ele ele = some o2 ∧
      o2.pixel = .native d2 ∧ d2.length = o2.frameSize * o2.nframes.getD 1 ∧
      -- also in the intermediate object: one fragment per frame
      (∃ tb fr, o1.pixel = .encap tb fr ∧ fr.length = o1.nframes.getD 1 ∧ tb.length = o1.nframes.getD 1) := by
  have heven : o.bits = 16 → data.length % 2 = 0 := by
    intro h16
    rw [hlen]
    unfold Obj.frameSize
    rw [h16]
    have : o.cols * o.rows * o.spp * (16 / 8) = 2 * (o.cols * o.rows * o.spp) := by omega
    rw [this, Nat.mul_assoc]; exact Nat.mul_mod_right 2 _
  obtain ⟨o1, h1, _, hn1, ⟨tb, fr, hpx, hfl, htl⟩, o2, h2, _, hp, hr, hc, hs, hb, hn2⟩ :=
    lossless_rt o t ele a data _ hnat hpix rfl ht hele hu1 hu2 hbits (by omega) heven hcodec
  refine ⟨o1, o2, _, h1, h2, hp, ?_, ⟨tb, fr, hpx, by simp [hn1, hfl], by simp [hn1, htl]⟩⟩
  have : o2.frameSize = o.frameSize := by unfold Obj.frameSize; rw [hr, hc, hs, hb]
  rw [this, hn2, ← hlen, List.take_length]; simp [hlen]

/-! ### what a lossy or broken codec does, for contrast: the hypothesis is used -/

/-- a codec that drops the last byte is not lossless, and the round trip shows it -/
example : ¬ Adapter.Lossless (.perFragment (fun x => x.dropLast) some) := by
  intro h
  have := h [1]
  simp [padEven] at this

/-! ### non-vacuity: a concrete odd-sized two-frame image through the uncompressed syntax -/

def exEle : Ts := ⟨1, .native⟩
def exUnc : Ts := ⟨98, .encapsulated .uncompressed true true⟩
def exObj : Obj := ⟨exEle, 3, 1, 1, 8, some 2, .native [1, 2, 3, 4, 5, 6], none⟩

example : (transcode exObj exUnc exEle).map (·.pixel) =
    some (.encap [0, 12] [[1, 2, 3, 0], [4, 5, 6, 0]]) := by decide
example : ((transcode exObj exUnc exEle).bind fun o1 => transcode o1 exEle exEle).map (·.pixel) =
    some (.native [1, 2, 3, 4, 5, 6]) := by decide

end Dicom.Transcode
