import DicomModel.Lemmas.Partial
/-
C12 — partial dates, times and date-times: text round trip, reported length, range bounds, range text.

Model: `DicomModel/Model/Partial.lean` (constructors, `to_encoded`, the three partial parsers,
`da/tm/dt_byte_len`, `AsRange::earliest/latest`, the three range parsers, chrono's calendar).
Leap seconds (second = 60) are valid values with bounds in chrono's representation (/repo fix 011408a).
"Valid value" = a value the public constructors (and `from_hmsf`, reached through the parser)
accept (`*_valid_iff_constructible`); for a date-time additionally the offset is a DICOM offset
(whole minutes, −12:00 … +14:00: the only ones the DT text format can carry — see
`offset_seconds_not_roundtrip`, `offset_out_of_range_not_roundtrip`).

All theorems are over unbounded `Nat`/`Int` components; nothing is restricted to a sample.
-/
namespace Dicom.Partial
open Dicom.Digits

/-! ## validity is exactly constructibility -/

theorem date_valid_iff_constructible (v : DicomDate) :
    v.Valid ↔ (∃ y, DicomDate.fromY y = some v) ∨ (∃ y m, DicomDate.fromYm y m = some v) ∨
      (∃ y m d, DicomDate.fromYmd y m d = some v) := by
  constructor
  · intro hv
    cases v with
    | year y => exact Or.inl ⟨y, by simp [fromY_eq]; exact hv⟩
    | month y m => exact Or.inr (Or.inl ⟨y, m, by simp [fromYm_eq]; exact hv⟩)
    | day y m d => exact Or.inr (Or.inr ⟨y, m, d, by simp [fromYmd_eq]; exact hv⟩)
  · rintro (⟨y, h⟩ | ⟨y, m, h⟩ | ⟨y, m, d, h⟩)
    · rw [fromY_eq] at h; split at h <;> simp at h; subst h; assumption
    · rw [fromYm_eq] at h; split at h <;> simp at h; subst h; assumption
    · rw [fromYmd_eq] at h; split at h <;> simp at h; subst h; assumption

/-- every time value a constructor returns is valid, and every valid value is returned by one
(`from_hms_milli`/`from_hms_micro` return valid values only, see `fromHmsMilli_valid`) -/
theorem time_valid_iff_constructible (v : DicomTime) :
    v.Valid ↔ (∃ h, DicomTime.fromH h = some v) ∨ (∃ h m, DicomTime.fromHm h m = some v) ∨
      (∃ h m s, DicomTime.fromHms h m s = some v) ∨ (∃ h m s f fp, DicomTime.fromHmsf h m s f fp = some v) := by
  constructor
  · intro hv
    cases v with
    | hour h => exact Or.inl ⟨h, by simp [fromH_eq]; exact hv⟩
    | minute h m => exact Or.inr (Or.inl ⟨h, m, by simp [fromHm_eq]; exact hv⟩)
    | second h m s => exact Or.inr (Or.inr (Or.inl ⟨h, m, s, by simp [fromHms_eq]; exact hv⟩))
    | fraction h m s f fp => exact Or.inr (Or.inr (Or.inr ⟨h, m, s, f, fp, by simp [fromHmsf_eq]; exact hv⟩))
  · rintro (⟨h, e⟩ | ⟨h, m, e⟩ | ⟨h, m, s, e⟩ | ⟨h, m, s, f, fp, e⟩)
    · rw [fromH_eq] at e; split at e <;> simp at e; subst e; assumption
    · rw [fromHm_eq] at e; split at e <;> simp at e; subst e; assumption
    · rw [fromHms_eq] at e; split at e <;> simp at e; subst e; assumption
    · rw [fromHmsf_eq] at e; split at e <;> simp at e; subst e; assumption

theorem fromHmsMilli_eq (h m s ms : Nat) :
    DicomTime.fromHmsMilli h m s ms =
      if ms ≤ 999 ∧ h ≤ 23 ∧ m ≤ 59 ∧ s ≤ 60 then some (.fraction h m s ms 3) else none := by
  simp [DicomTime.fromHmsMilli, checkComponent, and_assoc]

theorem fromHmsMicro_eq (h m s us : Nat) :
    DicomTime.fromHmsMicro h m s us =
      if us ≤ 999999 ∧ h ≤ 23 ∧ m ≤ 59 ∧ s ≤ 60 then some (.fraction h m s us 6) else none := by
  simp [DicomTime.fromHmsMicro, checkComponent, and_assoc]

/-- the millisecond / microsecond constructors return valid values only (/repo fix 8fcd311) -/
theorem fromHmsMilli_valid {h m s ms : Nat} {v : DicomTime} (e : DicomTime.fromHmsMilli h m s ms = some v) :
    v.Valid ∧ v = .fraction h m s ms 3 := by
  rw [fromHmsMilli_eq] at e
  split at e <;> simp at e
  subst e
  simp [DicomTime.Valid]; omega

theorem fromHmsMicro_valid {h m s us : Nat} {v : DicomTime} (e : DicomTime.fromHmsMicro h m s us = some v) :
    v.Valid ∧ v = .fraction h m s us 6 := by
  rw [fromHmsMicro_eq] at e
  split at e <;> simp at e
  subst e
  simp [DicomTime.Valid]; omega

/-! ## text round trip -/

/-- every valid partial date (any precision) parses back from its encoding, nothing left over -/
theorem date_rt (v : DicomDate) (hv : v.Valid) : parseDatePartial v.toEncoded = some (v, []) := by
  simpa using parseDate_ext hv [] (Or.inr noDigitPair_nil)

/-- every valid partial time — any precision, fraction of 1 to 6 digits, second = 60 included —
parses back from its encoding -/
theorem time_rt (v : DicomTime) (hv : v.Valid) : parseTimePartial v.toEncoded = some (v, []) := by
  simpa using parseTime_ext hv [] (timeStop_nil v)

/-- every valid partial date-time (with or without time, with or without offset) parses back -/
theorem datetime_rt (v : DicomDateTime) (hv : v.Valid) : parseDateTimePartial v.toEncoded = some v := by
  obtain ⟨d, t, o⟩ := v
  obtain ⟨hd, ht, ho⟩ := hv
  simp only at hd ht ho
  cases t with
  | none =>
    cases o with
    | none =>
      simp only [DicomDateTime.toEncoded, parseDateTimePartial, date_rt d hd, parseTime_nil, parseTz_nil,
        DicomDateTime.fromDate]
    | some o =>
      have hov := ho o rfl
      have h1 := parseDate_ext hd (offsetEncoded o) (Or.inr (by simpa using noDigitPair_offset hov []))
      have h2 : parseTimePartial (offsetEncoded o) = none := by simpa using parseTime_offset hov []
      have h3 : parseTzSuffix (offsetEncoded o) = some (some o) := by simpa using parseTz_offset hov []
      simp only [DicomDateTime.toEncoded, parseDateTimePartial, h1, h2, h3, DicomDateTime.fromDateWithTimeZone]
  | some t =>
    obtain ⟨htv, hp⟩ := ht t rfl
    cases o with
    | none =>
      have h1 := parseDate_ext hd t.toEncoded (Or.inl hp)
      simp only [DicomDateTime.toEncoded, parseDateTimePartial, h1, time_rt t htv, parseTz_nil,
        DicomDateTime.fromDateAndTime, hp, if_true]
    | some o =>
      have hov := ho o rfl
      have h1 := parseDate_ext hd (t.toEncoded ++ offsetEncoded o) (Or.inl hp)
      have h2 := parseTime_ext htv (offsetEncoded o) (by simpa using timeStop_offset t hov [])
      have h3 : parseTzSuffix (offsetEncoded o) = some (some o) := by simpa using parseTz_offset hov []
      simp only [DicomDateTime.toEncoded, parseDateTimePartial, List.append_assoc, h1, h2, h3,
        DicomDateTime.fromDateAndTimeWithTimeZone, hp, if_true]

/-! ## the encoded text has the length the value reports -/

theorem date_len (v : DicomDate) (hv : v.Valid) : v.toEncoded.length = v.byteLen := by
  rw [date_enc hv]; cases v <;> simp [DicomDate.byteLen]

theorem time_len (v : DicomTime) (hv : v.Valid) : v.toEncoded.length = v.byteLen := by
  rw [time_enc hv]; cases v <;> simp [DicomTime.byteLen] <;> omega

theorem datetime_len (v : DicomDateTime) (hv : v.Valid) : v.toEncoded.length = v.byteLen := by
  obtain ⟨d, t, o⟩ := v
  obtain ⟨hd, ht, ho⟩ := hv
  simp only at hd ht ho
  cases t with
  | none =>
    cases o with
    | none => simp [DicomDateTime.toEncoded, DicomDateTime.byteLen, date_len d hd]
    | some o => simp [DicomDateTime.toEncoded, DicomDateTime.byteLen, date_len d hd, offset_enc_length (ho o rfl)]
  | some t =>
    have htv := (ht t rfl).1
    cases o with
    | none => simp [DicomDateTime.toEncoded, DicomDateTime.byteLen, date_len d hd, time_len t htv]
    | some o =>
      simp [DicomDateTime.toEncoded, DicomDateTime.byteLen, date_len d hd, time_len t htv,
        offset_enc_length (ho o rfl)]
      omega

/-- `calculate_byte_len` of a single item is its text length padded to even; of `k` equal items
the items plus `k-1` separators, padded to even -/
theorem calcByteLen_single (n : Nat) : calcByteLen [n] = n + n % 2 := by
  simp [calcByteLen]; omega
theorem calcByteLen_pair (n : Nat) : calcByteLen [n, n] = 2 * n + 2 := by
  simp [calcByteLen]; omega

/-! ## range bounds: dates -/

/-- a calendar date agrees with every component the partial date knows -/
def DicomDate.Matches (v : DicomDate) (nd : NaiveDate) : Prop :=
  nd.y = v.yr ∧ (∀ m, v.mon = some m → nd.m = m) ∧ (∀ d, v.dy = some d → nd.d = d)

/-- a valid date has bounds exactly when it denotes a day (e.g. 30 February has none) -/
theorem date_bounds_iff_denotes (v : DicomDate) (hv : v.Valid) :
    (v.earliest.isSome ∧ v.latest.isSome) ↔ v.Denotes := by
  constructor
  · intro ⟨h, _⟩
    cases v with
    | day y m d =>
      simp only [DicomDate.earliest, DicomDate.yr, DicomDate.mon, DicomDate.dy, Option.getD_some, fromYmdOpt_eq] at h
      split at h
      · rename_i c; exact c.2.2.2
      · simp at h
    | _ => trivial
  · intro hd
    rw [date_earliest_eq hv hd, date_latest_eq hv hd]; simp

/-- both bounds exist, are real calendar dates, agree with the known components, and are ordered -/
theorem date_bounds (v : DicomDate) (hv : v.Valid) (hd : v.Denotes) :
    ∃ e l, v.earliest = some e ∧ v.latest = some l ∧ e.Valid ∧ l.Valid ∧
      v.Matches e ∧ v.Matches l ∧ e.le l = true := by
  refine ⟨_, _, date_earliest_eq hv hd, date_latest_eq hv hd, ?_⟩
  cases v with
  | year y =>
    simp [NaiveDate.Valid, DicomDate.Matches, DicomDate.yr, DicomDate.mon, DicomDate.dy, daysInMonth, NaiveDate.le_iff]
  | month y m =>
    simp only [DicomDate.Valid] at hv
    have := daysInMonth_pos y m
    simp [NaiveDate.Valid, DicomDate.Matches, DicomDate.yr, DicomDate.mon, DicomDate.dy, NaiveDate.le_iff, hv]
    omega
  | day y m d =>
    simp only [DicomDate.Valid] at hv
    simp only [DicomDate.Denotes] at hd
    simp [NaiveDate.Valid, DicomDate.Matches, DicomDate.yr, DicomDate.mon, DicomDate.dy, NaiveDate.le_iff, hv, hd]

/-- every calendar date consistent with the value lies between its bounds — and only those do -/
theorem date_instant_between (v : DicomDate) (hv : v.Valid) {e l : NaiveDate}
    (he : v.earliest = some e) (hl : v.latest = some l) (nd : NaiveDate) (hnd : nd.Valid) :
    v.Matches nd ↔ (e.le nd = true ∧ nd.le l = true) := by
  have hd : v.Denotes := (date_bounds_iff_denotes v hv).mp ⟨by simp [he], by simp [hl]⟩
  rw [date_earliest_eq hv hd] at he
  rw [date_latest_eq hv hd] at hl
  simp only [Option.some.injEq] at he hl
  subst he hl
  obtain ⟨ny, nm, ndd⟩ := nd
  simp only [NaiveDate.Valid] at hnd
  cases v with
  | year y =>
    simp only [DicomDate.Matches, DicomDate.yr, DicomDate.mon, DicomDate.dy, NaiveDate.le_iff, Option.getD_none]
    have : daysInMonth y 12 = 31 := by simp [daysInMonth]
    have := daysInMonth_pos ny nm
    simp; omega
  | month y m =>
    simp only [DicomDate.Matches, DicomDate.yr, DicomDate.mon, DicomDate.dy, NaiveDate.le_iff, Option.getD_none,
      Option.getD_some]
    simp
    constructor
    · rintro ⟨rfl, rfl⟩; omega
    · intro h; omega
  | day y m d =>
    simp only [DicomDate.Matches, DicomDate.yr, DicomDate.mon, DicomDate.dy, NaiveDate.le_iff, Option.getD_some]
    simp; omega

/-! ## range bounds: times -/

/-- DICOM reading of a chrono time of day: chrono stores the leap second `hh:mm:60.f` as second 59
with `1_000_000 + f` microseconds (the code's own `TryFrom<&NaiveTime>` reads it back like this) -/
def NaiveTime.dicomSec (t : NaiveTime) : Nat := if 1000000 ≤ t.f then 60 else t.s
def NaiveTime.dicomFrac (t : NaiveTime) : Nat := if 1000000 ≤ t.f then t.f - 1000000 else t.f

/-- a time of day agrees with every component the partial time knows; a fraction of `fp` digits
fixes the first `fp` digits of the microseconds -/
def DicomTime.Matches (v : DicomTime) (t : NaiveTime) : Prop :=
  t.h = v.hr ∧ (∀ m, v.min = some m → t.m = m) ∧ (∀ s, v.sec = some s → t.dicomSec = s) ∧
  (∀ f fp, v.fracAndPrecision = some (f, fp) → t.dicomFrac / 10 ^ (6 - fp) = f)

/-- the first instant of the value: missing components are 0; second 60 in chrono's representation -/
def DicomTime.lo : DicomTime → NaiveTime
  | .hour h => ⟨h, 0, 0, 0⟩
  | .minute h m => ⟨h, m, 0, 0⟩
  | .second h m s => if s = 60 then ⟨h, m, 59, 1000000⟩ else ⟨h, m, s, 0⟩
  | .fraction h m s f fp =>
    if s = 60 then ⟨h, m, 59, f * 10 ^ (6 - fp) + 1000000⟩ else ⟨h, m, s, f * 10 ^ (6 - fp)⟩

/-- the last instant of the value: missing components are maximal (minute/second 59, all
remaining fraction digits 9) -/
def DicomTime.hi : DicomTime → NaiveTime
  | .hour h => ⟨h, 59, 59, 999999⟩
  | .minute h m => ⟨h, m, 59, 999999⟩
  | .second h m s => if s = 60 then ⟨h, m, 59, 1999999⟩ else ⟨h, m, s, 999999⟩
  | .fraction h m s f fp =>
    if s = 60 then ⟨h, m, 59, f * 10 ^ (6 - fp) + 10 ^ (6 - fp) - 1 + 1000000⟩
    else ⟨h, m, s, f * 10 ^ (6 - fp) + 10 ^ (6 - fp) - 1⟩

theorem time_earliest_eq {v : DicomTime} (hv : v.Valid) : v.earliest = some v.lo := by
  cases v with
  | hour h =>
    simp only [DicomTime.Valid] at hv
    simp [DicomTime.earliest, DicomTime.lo, DicomTime.hr, DicomTime.min, DicomTime.sec, DicomTime.fracAndPrecision,
      fromHmsMicroOpt_eq]; omega
  | minute h m =>
    simp only [DicomTime.Valid] at hv
    simp [DicomTime.earliest, DicomTime.lo, DicomTime.hr, DicomTime.min, DicomTime.sec, DicomTime.fracAndPrecision,
      fromHmsMicroOpt_eq]; omega
  | second h m s =>
    simp only [DicomTime.Valid] at hv
    by_cases h60 : s = 60
    · subst h60
      simp only [DicomTime.earliest, DicomTime.lo, DicomTime.hr, DicomTime.min, DicomTime.sec,
        DicomTime.fracAndPrecision, Option.getD_some, if_true, fromHmsMicroOpt_eq]
      rw [if_pos]; exact ⟨by omega, by omega, by omega, Or.inr ⟨trivial, by omega⟩⟩
    · simp [DicomTime.earliest, DicomTime.lo, DicomTime.hr, DicomTime.min, DicomTime.sec,
        DicomTime.fracAndPrecision, fromHmsMicroOpt_eq, h60]; omega
  | fraction h m s f fp =>
    simp only [DicomTime.Valid] at hv
    obtain ⟨hh, hm, hs, h1, h6, hf⟩ := hv
    obtain ⟨hu, hlt⟩ := frac_bounds h1 h6 hf
    have k : f * 10 ^ (6 - fp) < 1000000 := by
      generalize 10 ^ (6 - fp) = u at *; generalize f * u = w at *; omega
    by_cases h60 : s = 60
    · subst h60
      simp only [DicomTime.earliest, DicomTime.lo, DicomTime.hr, DicomTime.min, DicomTime.sec,
        DicomTime.fracAndPrecision, Option.getD_some, if_true, fromHmsMicroOpt_eq]
      rw [if_pos]; exact ⟨by omega, by omega, by omega, Or.inr ⟨trivial, by omega⟩⟩
    · simp only [DicomTime.earliest, DicomTime.lo, DicomTime.hr, DicomTime.min, DicomTime.sec,
        DicomTime.fracAndPrecision, Option.getD_some, h60, if_false, fromHmsMicroOpt_eq]
      rw [if_pos]; exact ⟨by omega, by omega, by omega, Or.inl k⟩

theorem time_latest_eq {v : DicomTime} (hv : v.Valid) : v.latest = some v.hi := by
  cases v with
  | hour h =>
    simp only [DicomTime.Valid] at hv
    simp [DicomTime.latest, DicomTime.hi, DicomTime.hr, DicomTime.min, DicomTime.sec, DicomTime.fracAndPrecision,
      fromHmsMicroOpt_eq]; omega
  | minute h m =>
    simp only [DicomTime.Valid] at hv
    simp [DicomTime.latest, DicomTime.hi, DicomTime.hr, DicomTime.min, DicomTime.sec, DicomTime.fracAndPrecision,
      fromHmsMicroOpt_eq]; omega
  | second h m s =>
    simp only [DicomTime.Valid] at hv
    by_cases h60 : s = 60
    · subst h60
      simp only [DicomTime.latest, DicomTime.hi, DicomTime.hr, DicomTime.min, DicomTime.sec,
        DicomTime.fracAndPrecision, Option.getD_some, if_true, fromHmsMicroOpt_eq]
      rw [if_pos]; exact ⟨by omega, by omega, by omega, Or.inr ⟨trivial, by omega⟩⟩
    · simp [DicomTime.latest, DicomTime.hi, DicomTime.hr, DicomTime.min, DicomTime.sec,
        DicomTime.fracAndPrecision, fromHmsMicroOpt_eq, h60]; omega
  | fraction h m s f fp =>
    simp only [DicomTime.Valid] at hv
    obtain ⟨hh, hm, hs, h1, h6, hf⟩ := hv
    obtain ⟨hu, hlt⟩ := frac_bounds h1 h6 hf
    by_cases h60 : s = 60
    · subst h60
      simp only [DicomTime.latest, DicomTime.hi, DicomTime.hr, DicomTime.min, DicomTime.sec,
        DicomTime.fracAndPrecision, Option.getD_some, if_true, fromHmsMicroOpt_eq]
      rw [if_pos]; exact ⟨by omega, by omega, by omega, Or.inr ⟨trivial, by omega⟩⟩
    · simp only [DicomTime.latest, DicomTime.hi, DicomTime.hr, DicomTime.min, DicomTime.sec,
        DicomTime.fracAndPrecision, Option.getD_some, h60, if_false, fromHmsMicroOpt_eq]
      rw [if_pos]; exact ⟨by omega, by omega, by omega, Or.inl hlt⟩

/-- membership of a chrono time of day in the value, spelled out with `lo`/`hi` windows:
the common core of `time_bounds` and `time_instant_between` -/
theorem time_matches_iff (v : DicomTime) (hv : v.Valid) (t : NaiveTime) (ht : t.Valid)
    (hs : t.f < 1000000 ∨ v.sec.isSome = true) :
    v.Matches t ↔ (v.lo.le t = true ∧ t.le v.hi = true) := by
  obtain ⟨th, tm, ts, tf⟩ := t
  simp only [NaiveTime.Valid] at ht
  cases v with
  | hour h =>
    have hs : tf < 1000000 := by simpa [DicomTime.sec] using hs
    have nl : ¬ 1000000 ≤ tf := by omega
    simp [DicomTime.Matches, DicomTime.lo, DicomTime.hi, DicomTime.hr, DicomTime.min, DicomTime.sec,
      DicomTime.fracAndPrecision, NaiveTime.le_iff, NaiveTime.secs]; omega
  | minute h m =>
    have hs : tf < 1000000 := by simpa [DicomTime.sec] using hs
    simp only [DicomTime.Valid] at hv
    simp [DicomTime.Matches, DicomTime.lo, DicomTime.hi, DicomTime.hr, DicomTime.min, DicomTime.sec,
      DicomTime.fracAndPrecision, NaiveTime.le_iff, NaiveTime.secs]; omega
  | second h m s =>
    simp only [DicomTime.Valid] at hv
    by_cases h60 : s = 60
    · subst h60
      by_cases hl : 1000000 ≤ tf <;>
        simp [DicomTime.Matches, DicomTime.lo, DicomTime.hi, DicomTime.hr, DicomTime.min, DicomTime.sec,
          DicomTime.fracAndPrecision, NaiveTime.le_iff, NaiveTime.secs, NaiveTime.dicomSec, hl] <;> omega
    · by_cases hl : 1000000 ≤ tf <;>
        simp [DicomTime.Matches, DicomTime.lo, DicomTime.hi, DicomTime.hr, DicomTime.min, DicomTime.sec,
          DicomTime.fracAndPrecision, NaiveTime.le_iff, NaiveTime.secs, NaiveTime.dicomSec, hl, h60] <;> omega
  | fraction h m s f fp =>
    simp only [DicomTime.Valid] at hv
    obtain ⟨hh, hm, hsv, h1, h6, hf⟩ := hv
    obtain ⟨hu, hlt⟩ := frac_bounds h1 h6 hf
    simp only [DicomTime.Matches, DicomTime.hr, DicomTime.min, DicomTime.sec, DicomTime.fracAndPrecision,
      Option.some.injEq, Prod.mk.injEq, and_imp]
    have key : (∀ f' fp', f = f' → fp = fp' → NaiveTime.dicomFrac ⟨th, tm, ts, tf⟩ / 10 ^ (6 - fp') = f') ↔
        (f * 10 ^ (6 - fp) ≤ NaiveTime.dicomFrac ⟨th, tm, ts, tf⟩ ∧
          NaiveTime.dicomFrac ⟨th, tm, ts, tf⟩ ≤ f * 10 ^ (6 - fp) + 10 ^ (6 - fp) - 1) := by
      rw [← frac_match _ f h1 h6]
      exact ⟨fun a => a f fp rfl rfl, fun a f' fp' e1 e2 => by subst e1 e2; exact a⟩
    have k2 : (∀ s', s = s' → NaiveTime.dicomSec ⟨th, tm, ts, tf⟩ = s') ↔ NaiveTime.dicomSec ⟨th, tm, ts, tf⟩ = s :=
      ⟨fun a => a s rfl, fun a s' e => by subst e; exact a⟩
    have k3 : (∀ m', m = m' → tm = m') ↔ tm = m := ⟨fun a => a m rfl, fun a m' e => by subst e; exact a⟩
    rw [key, k2, k3]
    simp only [NaiveTime.dicomFrac, NaiveTime.dicomSec, DicomTime.lo, DicomTime.hi]
    generalize 10 ^ (6 - fp) = u at *; generalize f * u = w at *
    by_cases h60 : s = 60
    · subst h60
      by_cases hl : 1000000 ≤ tf <;> simp [NaiveTime.le_iff, NaiveTime.secs, hl] <;> omega
    · by_cases hl : 1000000 ≤ tf <;> simp [NaiveTime.le_iff, NaiveTime.secs, hl, h60] <;> omega

theorem lo_hi_valid {v : DicomTime} (hv : v.Valid) : v.lo.Valid ∧ v.hi.Valid ∧ v.lo.le v.hi = true := by
  cases v with
  | hour h => simp only [DicomTime.Valid] at hv; simp [DicomTime.lo, DicomTime.hi, NaiveTime.Valid, NaiveTime.le_iff, NaiveTime.secs]; omega
  | minute h m => simp only [DicomTime.Valid] at hv; simp [DicomTime.lo, DicomTime.hi, NaiveTime.Valid, NaiveTime.le_iff, NaiveTime.secs]; omega
  | second h m s =>
    simp only [DicomTime.Valid] at hv
    by_cases h60 : s = 60 <;>
      simp [DicomTime.lo, DicomTime.hi, NaiveTime.Valid, NaiveTime.le_iff, NaiveTime.secs, h60] <;> omega
  | fraction h m s f fp =>
    simp only [DicomTime.Valid] at hv
    obtain ⟨hh, hm, hsv, h1, h6, hf⟩ := hv
    obtain ⟨hu, hlt⟩ := frac_bounds h1 h6 hf
    simp only [DicomTime.lo, DicomTime.hi]
    generalize 10 ^ (6 - fp) = u at *; generalize f * u = w at *
    by_cases h60 : s = 60 <;>
      simp [NaiveTime.Valid, NaiveTime.le_iff, NaiveTime.secs, h60] <;> omega

/-- every valid time — leap seconds included — has both bounds; they are times chrono can
represent, agree with all known components, and are ordered -/
theorem time_bounds (v : DicomTime) (hv : v.Valid) :
    ∃ e l, v.earliest = some e ∧ v.latest = some l ∧ e.Valid ∧ l.Valid ∧
      v.Matches e ∧ v.Matches l ∧ e.le l = true := by
  obtain ⟨a, b, c⟩ := lo_hi_valid hv
  have hlo : v.lo.f < 1000000 ∨ v.sec.isSome = true := by
    cases v <;> simp [DicomTime.lo, DicomTime.sec]
  have hhi : v.hi.f < 1000000 ∨ v.sec.isSome = true := by
    cases v <;> simp [DicomTime.hi, DicomTime.sec]
  refine ⟨_, _, time_earliest_eq hv, time_latest_eq hv, a, b, ?_, ?_, c⟩
  · rw [time_matches_iff v hv _ a hlo]
    exact ⟨by simp [NaiveTime.le_iff], c⟩
  · rw [time_matches_iff v hv _ b hhi]
    exact ⟨c, by simp [NaiveTime.le_iff]⟩

/-- a time of day chrono can represent is consistent with the value iff it lies between the bounds.
Side condition: the instant is not itself a leap second unless the value knows its second (a value
of hour or minute precision ends at `…:59.999999`, see `minute_precision_ends_before_leap_second`) -/
theorem time_instant_between (v : DicomTime) (hv : v.Valid) {e l : NaiveTime}
    (he : v.earliest = some e) (hl : v.latest = some l) (t : NaiveTime) (ht : t.Valid)
    (hs : t.f < 1000000 ∨ v.sec.isSome = true) :
    v.Matches t ↔ (e.le t = true ∧ t.le l = true) := by
  rw [time_earliest_eq hv] at he
  rw [time_latest_eq hv] at hl
  cases he; cases hl
  exact time_matches_iff v hv t ht hs

/-- the interpretation the code takes: `2359` (minute precision) ends at 23:59:59.999999, the leap
second 23:59:60.5 of that minute (chrono: 23:59:59 + 1 500 000 µs) matches its components but is
after `latest` -/
theorem minute_precision_ends_before_leap_second :
    (DicomTime.minute 23 59).Matches ⟨23, 59, 59, 1500000⟩ ∧
      (DicomTime.minute 23 59).latest = some ⟨23, 59, 59, 999999⟩ ∧
      NaiveTime.le ⟨23, 59, 59, 1500000⟩ ⟨23, 59, 59, 999999⟩ = false := by
  refine ⟨⟨rfl, ?_, ?_, ?_⟩, by decide, by decide⟩
  · intro m e; cases e; rfl
  · intro s e; cases e
  · intro f fp e; cases e

/-! ## range bounds: date-times -/

def Precise.date : Precise → NaiveDate | .naive d _ => d | .aware d _ _ => d
def Precise.time : Precise → NaiveTime | .naive _ t => t | .aware _ t _ => t
def Precise.offset : Precise → Option Int | .naive _ _ => none | .aware _ _ o => some o
/-- a real calendar date with a real (non-leap) time of day -/
def Precise.Valid (p : Precise) : Prop := p.date.Valid ∧ p.time.Valid

/-- a precise instant agrees with every component the partial date-time knows (and has its offset) -/
def DicomDateTime.Matches (v : DicomDateTime) (p : Precise) : Prop :=
  p.offset = v.tz ∧ v.date.Matches p.date ∧ (∀ t, v.time = some t → t.Matches p.time)

theorem mkPrecise_parts (tz : Option Int) (d : NaiveDate) (t : NaiveTime) :
    (DicomDateTime.mkPrecise tz d t).date = d ∧ (DicomDateTime.mkPrecise tz d t).time = t ∧
      (DicomDateTime.mkPrecise tz d t).offset = tz := by
  cases tz <;> simp [DicomDateTime.mkPrecise, Precise.date, Precise.time, Precise.offset]

theorem precise_eq_mk (p : Precise) : p = DicomDateTime.mkPrecise p.offset p.date p.time := by
  cases p <;> rfl

/-- order of two instants built with the same (optional) offset -/
theorem le_mkPrecise (tz : Option Int) {d1 d2 : NaiveDate} {t1 t2 : NaiveTime} (hd1 : d1.Valid) (hd2 : d2.Valid)
    (ht1 : t1.Valid) (ht2 : t2.Valid) :
    (DicomDateTime.mkPrecise tz d1 t1).le? (DicomDateTime.mkPrecise tz d2 t2) = some (naiveLe d1 t1 d2 t2) := by
  cases tz with
  | none => rfl
  | some o => simp [DicomDateTime.mkPrecise, Precise.le?, awareLe_same_offset o hd1 hd2 ht1 ht2]

def midnight : NaiveTime := ⟨0, 0, 0, 0⟩
def lastMicro : NaiveTime := ⟨23, 59, 59, 999999⟩

theorem dt_earliest_eq {v : DicomDateTime} {de : NaiveDate} (hde : v.date.earliest = some de) :
    v.earliest = match v.time with
      | none => some (DicomDateTime.mkPrecise v.tz de midnight)
      | some t => t.earliest.map (DicomDateTime.mkPrecise v.tz de) := by
  simp only [DicomDateTime.earliest, hde]
  cases v.time with
  | none => simp [fromHmsMicroOpt_eq, midnight]
  | some t => cases h : t.earliest <;> simp [h]

theorem dt_latest_eq {v : DicomDateTime} {dl : NaiveDate} (hdl : v.date.latest = some dl) :
    v.latest = match v.time with
      | none => some (DicomDateTime.mkPrecise v.tz dl lastMicro)
      | some t => t.latest.map (DicomDateTime.mkPrecise v.tz dl) := by
  simp only [DicomDateTime.latest, hdl]
  cases v.time with
  | none => simp [fromHmsMicroOpt_eq, lastMicro]
  | some t => cases h : t.latest <;> simp [h]

theorem midnight_le {t : NaiveTime} : midnight.le t = true := by
  simp [NaiveTime.le_iff, midnight, NaiveTime.secs]; omega
theorem le_lastMicro {t : NaiveTime} (ht : t.Valid) (hf : t.f < 1000000) : t.le lastMicro = true := by
  simp only [NaiveTime.Valid] at ht
  simp [NaiveTime.le_iff, lastMicro, NaiveTime.secs]; omega
theorem midnight_valid : midnight.Valid := by simp [midnight, NaiveTime.Valid]
theorem lastMicro_valid : lastMicro.Valid := by simp [lastMicro, NaiveTime.Valid]

theorem mkPrecise_valid (tz : Option Int) {d : NaiveDate} {t : NaiveTime} (hd : d.Valid) (ht : t.Valid) :
    (DicomDateTime.mkPrecise tz d t).Valid := by
  obtain ⟨a, b, _⟩ := mkPrecise_parts tz d t
  simp only [Precise.Valid, a, b]; exact ⟨hd, ht⟩

theorem mkPrecise_matches (v : DicomDateTime) {d : NaiveDate} {t : NaiveTime} (hd : v.date.Matches d)
    (ht : ∀ t', v.time = some t' → t'.Matches t) : v.Matches (DicomDateTime.mkPrecise v.tz d t) := by
  obtain ⟨a, b, c⟩ := mkPrecise_parts v.tz d t
  simp only [DicomDateTime.Matches, a, b, c]; exact ⟨trivial, hd, ht⟩

/-- a precise (day) date has the same earliest and latest day -/
theorem precise_date_bounds {d : DicomDate} (hp : d.isPrecise = true) : d.latest = d.earliest := by
  cases d <;> simp [DicomDate.isPrecise, DicomDate.dy] at hp
  simp [DicomDate.latest, DicomDate.earliest, DicomDate.yr, DicomDate.mon, DicomDate.dy]

/-- bounds of a valid date-time that denotes a day (leap seconds included): both exist, are real
instants carrying the value's offset, agree with all known components, and are ordered -/
theorem datetime_bounds (v : DicomDateTime) (hv : v.Valid) (hd : v.date.Denotes) :
    ∃ e l, v.earliest = some e ∧ v.latest = some l ∧ e.Valid ∧ l.Valid ∧
      v.Matches e ∧ v.Matches l ∧ e.le? l = some true := by
  obtain ⟨de, dl, hde, hdl, vde, vdl, mde, mdl, hdle⟩ := date_bounds v.date hv.1 hd
  rw [dt_earliest_eq hde, dt_latest_eq hdl]
  cases ht : v.time with
  | none =>
    refine ⟨_, _, rfl, rfl, mkPrecise_valid _ vde midnight_valid, mkPrecise_valid _ vdl lastMicro_valid,
      mkPrecise_matches v mde (by simp [ht]), mkPrecise_matches v mdl (by simp [ht]), ?_⟩
    rw [le_mkPrecise v.tz vde vdl midnight_valid lastMicro_valid, naiveLe]
    by_cases e : de = dl
    · subst e; simp [midnight_le]
    · simp [hdle, e]
  | some t =>
    obtain ⟨htv, hp⟩ := hv.2.1 t ht
    obtain ⟨te, tl, hte, htl, vte, vtl, mte, mtl, htle⟩ := time_bounds t htv
    have hsame : dl = de := by
      have := precise_date_bounds hp; rw [hde, hdl] at this; exact Option.some.inj this
    subst hsame
    simp only [hte, htl, Option.map_some]
    refine ⟨_, _, rfl, rfl, mkPrecise_valid _ vde vte, mkPrecise_valid _ vde vtl,
      mkPrecise_matches v mde (fun t' e => by rw [ht] at e; cases e; exact mte),
      mkPrecise_matches v mde (fun t' e => by rw [ht] at e; cases e; exact mtl), ?_⟩
    rw [le_mkPrecise v.tz vde vde vte vtl, naiveLe]; simp [htle]

/-- every real instant with the value's offset that is consistent with the known components lies
between the bounds (`PartialOrd` of `PreciseDateTime`, i.e. UTC order for aware values) — and
only those do -/
theorem datetime_instant_between (v : DicomDateTime) (hv : v.Valid) {e l : Precise}
    (he : v.earliest = some e) (hl : v.latest = some l) (p : Precise) (hp : p.Valid) (ho : p.offset = v.tz)
    (hs : p.time.f < 1000000 ∨ ∃ t, v.time = some t ∧ t.sec.isSome = true) :
    v.Matches p ↔ (e.le? p = some true ∧ p.le? l = some true) := by
  -- the date bounds exist
  have hde : ∃ de, v.date.earliest = some de := by
    cases h : v.date.earliest with
    | none => simp [DicomDateTime.earliest, h] at he
    | some de => exact ⟨de, rfl⟩
  have hdl : ∃ dl, v.date.latest = some dl := by
    cases h : v.date.latest with
    | none => simp [DicomDateTime.latest, h] at hl
    | some dl => exact ⟨dl, rfl⟩
  obtain ⟨de, hde⟩ := hde
  obtain ⟨dl, hdl⟩ := hdl
  have hden : v.date.Denotes := (date_bounds_iff_denotes v.date hv.1).mp ⟨by simp [hde], by simp [hdl]⟩
  obtain ⟨de', dl', hde', hdl', vde, vdl, -, -, hdle⟩ := date_bounds v.date hv.1 hden
  rw [hde] at hde'; rw [hdl] at hdl'; cases hde'; cases hdl'
  have hdm := date_instant_between v.date hv.1 hde hdl p.date hp.1
  rw [dt_earliest_eq hde] at he
  rw [dt_latest_eq hdl] at hl
  rw [precise_eq_mk p, ho]
  obtain ⟨pa, pb, pc⟩ := mkPrecise_parts v.tz p.date p.time
  simp only [DicomDateTime.Matches, pa, pb, pc, true_and]
  cases ht : v.time with
  | none =>
    simp only [ht, Option.some.injEq] at he hl
    subst he hl
    have hnl : p.time.f < 1000000 := by
      rcases hs with hs | ⟨t, e, _⟩
      · exact hs
      · rw [ht] at e; cases e
    rw [le_mkPrecise v.tz vde hp.1 midnight_valid hp.2, le_mkPrecise v.tz hp.1 vdl hp.2 lastMicro_valid]
    simp only [Option.some.injEq, naiveLe_iff, midnight_le, le_lastMicro hp.2 hnl, and_true]
    rw [hdm]
    simp only [reduceCtorEq, false_imp_iff, implies_true, and_true]
    constructor
    · rintro ⟨a, b⟩
      refine ⟨?_, ?_⟩
      · by_cases c : de = p.date
        · exact Or.inr c
        · exact Or.inl ⟨a, c⟩
      · by_cases c : p.date = dl
        · exact Or.inr c
        · exact Or.inl ⟨b, c⟩
    · rintro ⟨a, b⟩
      refine ⟨?_, ?_⟩
      · rcases a with a | a
        · exact a.1
        · subst a; simp [NaiveDate.le_iff]
      · rcases b with b | b
        · exact b.1
        · subst b; simp [NaiveDate.le_iff]
  | some t =>
    obtain ⟨htv, hpr⟩ := hv.2.1 t ht
    have hsame : dl = de := by
      have := precise_date_bounds hpr; rw [hde, hdl] at this; exact Option.some.inj this
    subst hsame
    simp only [ht] at he hl
    cases hte : t.earliest with
    | none => simp [hte] at he
    | some te =>
      cases htl : t.latest with
      | none => simp [htl] at hl
      | some tl =>
        simp only [hte, htl, Option.map_some, Option.some.injEq] at he hl
        subst he hl
        obtain ⟨te', tl', hte', htl', vte, vtl, -, -, -⟩ := time_bounds t htv
        rw [hte] at hte'; rw [htl] at htl'; cases hte'; cases htl'
        have hs' : p.time.f < 1000000 ∨ t.sec.isSome = true := by
          rcases hs with hs | ⟨t', e, h'⟩
          · exact Or.inl hs
          · rw [ht] at e; cases e; exact Or.inr h'
        have htm := time_instant_between t htv hte htl p.time hp.2 hs'
        rw [le_mkPrecise v.tz vde hp.1 vte hp.2, le_mkPrecise v.tz hp.1 vde hp.2 vtl]
        simp only [Option.some.injEq, naiveLe_iff]
        rw [hdm]
        constructor
        · rintro ⟨⟨a, b⟩, c⟩
          have e := NaiveDate.le_antisymm a b
          have := (htm.mp (c t rfl))
          exact ⟨Or.inr ⟨e, this.1⟩, Or.inr ⟨e.symm, this.2⟩⟩
        · rintro ⟨a, b⟩
          have e : dl = p.date := by
            rcases a with a | a
            · rcases b with b | b
              · exact absurd (NaiveDate.le_antisymm a.1 b.1) a.2
              · exact b.1.symm
            · exact a.1
          have a2 : te.le p.time = true := by
            rcases a with a | a
            · exact absurd e a.2
            · exact a.2
          have b2 : p.time.le tl = true := by
            rcases b with b | b
            · exact absurd e.symm b.2
            · exact b.2
          refine ⟨⟨?_, ?_⟩, ?_⟩
          · rw [← e]; simp [NaiveDate.le_iff]
          · rw [← e]; simp [NaiveDate.le_iff]
          · intro t' e'; cases e'; exact htm.mpr ⟨a2, b2⟩

/-! ## range text `A-B` -/

theorem dashPosition_append {a : Bytes} (ha : ∀ b ∈ a, b ≠ 45) (r : Bytes) :
    dashPosition (a ++ 45 :: r) = some a.length := by
  induction a with
  | nil => simp [dashPosition]
  | cons x xs ih =>
    have hx : x ≠ 45 := ha x (by simp)
    have := ih (fun b hb => ha b (by simp [hb]))
    simp [dashPosition, hx, this]

theorem fixed_no_dash (w n : Nat) : ∀ b ∈ fixed w n, b ≠ 45 := by
  intro b hb
  have := fixed_isDigit w n b hb
  simp [isDigit] at this; omega

theorem date_enc_no_dash {v : DicomDate} (hv : v.Valid) : ∀ b ∈ v.toEncoded, b ≠ 45 := by
  rw [date_enc hv]
  cases v <;> simp only [List.mem_append] <;> intro b hb
  · exact fixed_no_dash _ _ b hb
  · rcases hb with hb | hb <;> exact fixed_no_dash _ _ b hb
  · rcases hb with hb | hb | hb <;> exact fixed_no_dash _ _ b hb

theorem time_enc_no_dash {v : DicomTime} (hv : v.Valid) : ∀ b ∈ v.toEncoded, b ≠ 45 := by
  rw [time_enc hv]
  cases v <;> simp only [List.mem_append, List.mem_cons] <;> intro b hb
  · exact fixed_no_dash _ _ b hb
  · rcases hb with hb | hb <;> exact fixed_no_dash _ _ b hb
  · rcases hb with hb | hb | hb <;> exact fixed_no_dash _ _ b hb
  · rcases hb with hb | hb | hb | hb | hb
    · exact fixed_no_dash _ _ b hb
    · exact fixed_no_dash _ _ b hb
    · exact fixed_no_dash _ _ b hb
    · omega
    · exact fixed_no_dash _ _ b hb

theorem date_enc_length_ge {v : DicomDate} (hv : v.Valid) : 4 ≤ v.toEncoded.length := by
  rw [date_len v hv]; cases v <;> simp [DicomDate.byteLen]
theorem time_enc_length_ge {v : DicomTime} (hv : v.Valid) : 2 ≤ v.toEncoded.length := by
  rw [time_len v hv]; cases v <;> simp [DicomTime.byteLen] <;> omega

/-- DA range `A-B`: from the earliest day of `A` to the latest day of `B`
(an error when a bound does not exist or the range is inverted) -/
theorem date_range_text (a b : DicomDate) (ha : a.Valid) (hb : b.Valid) :
    parseDateRange (a.toEncoded ++ 45 :: b.toEncoded) =
      match a.earliest, b.latest with
      | some s, some e => DateRange.fromStartToEnd s e
      | _, _ => none := by
  have la := date_enc_length_ge ha
  have lb := date_enc_length_ge hb
  have hp := dashPosition_append (date_enc_no_dash ha) b.toEncoded
  simp only [parseDateRange, hp, List.length_append, List.length_cons]
  have h1 : ¬ (a.toEncoded.length + (b.toEncoded.length + 1) < 5) := by omega
  have h2 : ¬ (a.toEncoded.length = 0) := by omega
  have h3 : ¬ (a.toEncoded.length = a.toEncoded.length + (b.toEncoded.length + 1) - 1) := by omega
  have t1 : List.take a.toEncoded.length (a.toEncoded ++ 45 :: b.toEncoded) = a.toEncoded := List.take_left' rfl
  have t2 : List.drop (a.toEncoded.length + 1) (a.toEncoded ++ 45 :: b.toEncoded) = b.toEncoded := by
    rw [← List.drop_drop, List.drop_left' rfl]; rfl
  simp only [h1, h2, h3, if_false, t1, t2, date_rt a ha, date_rt b hb]
  cases a.earliest <;> cases b.latest <;> rfl

/-- DA range `-B`: everything up to the latest day of `B` -/
theorem date_range_open_start (b : DicomDate) (hb : b.Valid) :
    parseDateRange (45 :: b.toEncoded) = b.latest.map fun e => ⟨none, some e⟩ := by
  have lb := date_enc_length_ge hb
  have h1 : ¬ (b.toEncoded.length + 1 < 5) := by omega
  simp [parseDateRange, dashPosition, h1, date_rt b hb]

/-- DA range `A-`: everything from the earliest day of `A` -/
theorem date_range_open_end (a : DicomDate) (ha : a.Valid) :
    parseDateRange (a.toEncoded ++ [45]) = a.earliest.map fun s => ⟨some s, none⟩ := by
  have la := date_enc_length_ge ha
  have hp := dashPosition_append (date_enc_no_dash ha) []
  have h1 : ¬ (a.toEncoded.length + 1 < 5) := by omega
  have h2 : ¬ (a.toEncoded.length = 0) := by omega
  have t1 : List.take a.toEncoded.length (a.toEncoded ++ [45]) = a.toEncoded := List.take_left' rfl
  simp only [parseDateRange, hp, List.length_append, List.length_cons, List.length_nil, h1, h2, if_false,
    Nat.add_sub_cancel, if_true, t1, date_rt a ha]

/-- TM range `A-B` -/
theorem time_range_text (a b : DicomTime) (ha : a.Valid) (hb : b.Valid) :
    parseTimeRange (a.toEncoded ++ 45 :: b.toEncoded) =
      match a.earliest, b.latest with
      | some s, some e => TimeRange.fromStartToEnd s e
      | _, _ => none := by
  have la := time_enc_length_ge ha
  have lb := time_enc_length_ge hb
  have hp := dashPosition_append (time_enc_no_dash ha) b.toEncoded
  simp only [parseTimeRange, hp, List.length_append, List.length_cons]
  have h1 : ¬ (a.toEncoded.length + (b.toEncoded.length + 1) < 3) := by omega
  have h2 : ¬ (a.toEncoded.length = 0) := by omega
  have h3 : ¬ (a.toEncoded.length = a.toEncoded.length + (b.toEncoded.length + 1) - 1) := by omega
  have t1 : List.take a.toEncoded.length (a.toEncoded ++ 45 :: b.toEncoded) = a.toEncoded := List.take_left' rfl
  have t2 : List.drop (a.toEncoded.length + 1) (a.toEncoded ++ 45 :: b.toEncoded) = b.toEncoded := by
    rw [← List.drop_drop, List.drop_left' rfl]; rfl
  simp only [h1, h2, h3, if_false, t1, t2, time_rt a ha, time_rt b hb]
  cases a.earliest <;> cases b.latest <;> rfl

theorem time_range_open_start (b : DicomTime) (hb : b.Valid) :
    parseTimeRange (45 :: b.toEncoded) = b.latest.map fun e => ⟨none, some e⟩ := by
  have lb := time_enc_length_ge hb
  have h1 : ¬ (b.toEncoded.length + 1 < 3) := by omega
  simp [parseTimeRange, dashPosition, h1, time_rt b hb]

theorem time_range_open_end (a : DicomTime) (ha : a.Valid) :
    parseTimeRange (a.toEncoded ++ [45]) = a.earliest.map fun s => ⟨some s, none⟩ := by
  have la := time_enc_length_ge ha
  have hp := dashPosition_append (time_enc_no_dash ha) []
  have h1 : ¬ (a.toEncoded.length + 1 < 3) := by omega
  have h2 : ¬ (a.toEncoded.length = 0) := by omega
  have t1 : List.take a.toEncoded.length (a.toEncoded ++ [45]) = a.toEncoded := List.take_left' rfl
  simp only [parseTimeRange, hp, List.length_append, List.length_cons, List.length_nil, h1, h2, if_false,
    Nat.add_sub_cancel, if_true, t1, time_rt a ha]


/-! ## DT range text -/

/-- date and time part of the encoding (no offset) -/
def DicomDateTime.body (v : DicomDateTime) : Bytes :=
  v.date.toEncoded ++ (match v.time with | some t => t.toEncoded | none => [])
def DicomDateTime.tzText (v : DicomDateTime) : Bytes :=
  match v.tz with | some o => offsetEncoded o | none => []
/-- the value carries a west (negative) offset, printed with a `-` -/
def DicomDateTime.West (v : DicomDateTime) : Prop := ∃ o, v.tz = some o ∧ o < 0
instance (v : DicomDateTime) : Decidable v.West := by
  unfold DicomDateTime.West
  cases h : v.tz with
  | none => exact isFalse (by simp)
  | some o => exact decidable_of_iff (o < 0) (by simp)

theorem dt_enc_split (v : DicomDateTime) : v.toEncoded = v.body ++ v.tzText := by
  obtain ⟨d, t, o⟩ := v
  cases t <;> cases o <;> simp [DicomDateTime.toEncoded, DicomDateTime.body, DicomDateTime.tzText]

theorem body_no_dash {v : DicomDateTime} (hv : v.Valid) : ∀ b ∈ v.body, b ≠ 45 := by
  obtain ⟨d, t, o⟩ := v
  obtain ⟨hd, ht, -⟩ := hv
  intro b hb
  simp only [DicomDateTime.body, List.mem_append] at hb
  rcases hb with hb | hb
  · exact date_enc_no_dash hd b hb
  · cases t with
    | none => simp at hb
    | some t => exact time_enc_no_dash (ht t rfl).1 b hb

theorem dashFrom_no_dash {a : Bytes} (ha : ∀ b ∈ a, b ≠ 45) (i : Nat) : dashIndexesFrom i a = [] := by
  induction a generalizing i with
  | nil => rfl
  | cons x xs ih =>
    have hx : x ≠ 45 := ha x (by simp)
    simp [dashIndexesFrom, hx, ih (fun b hb => ha b (by simp [hb]))]

theorem dashFrom_append (a b : Bytes) (i : Nat) :
    dashIndexesFrom i (a ++ b) = dashIndexesFrom i a ++ dashIndexesFrom (i + a.length) b := by
  induction a generalizing i with
  | nil => simp [dashIndexesFrom]
  | cons x xs ih =>
    by_cases hx : x = 45 <;> simp [dashIndexesFrom, hx, ih, Nat.add_assoc, Nat.add_comm 1]

theorem dashFrom_tzText {v : DicomDateTime} (hv : v.Valid) (i : Nat) :
    dashIndexesFrom i v.tzText = if v.West then [i] else [] := by
  obtain ⟨d, t, o⟩ := v
  cases o with
  | none => simp [DicomDateTime.tzText, DicomDateTime.West, dashIndexesFrom]
  | some o =>
    have ho := hv.2.2 o rfl
    simp only [DicomDateTime.tzText, DicomDateTime.West, offset_enc ho]
    have nd : dashIndexesFrom (i + 1) (fixed 2 (o.natAbs / 3600) ++ fixed 2 (o.natAbs / 60 % 60)) = [] :=
      dashFrom_no_dash (by
        intro b hb; simp only [List.mem_append] at hb
        rcases hb with hb | hb <;> exact fixed_no_dash _ _ b hb) _
    by_cases hneg : o < 0 <;> simp [hneg, dashIndexesFrom, nd]

theorem dashFrom_enc {v : DicomDateTime} (hv : v.Valid) (i : Nat) :
    dashIndexesFrom i v.toEncoded = if v.West then [i + v.body.length] else [] := by
  rw [dt_enc_split, dashFrom_append, dashFrom_no_dash (body_no_dash hv), dashFrom_tzText hv]; simp

/-- the dashes of `A-B` -/
theorem dashes_of_range {a b : DicomDateTime} (ha : a.Valid) (hb : b.Valid) :
    dashIndexes (a.toEncoded ++ 45 :: b.toEncoded) =
      (if a.West then [a.body.length] else []) ++ a.toEncoded.length ::
        (if b.West then [a.toEncoded.length + 1 + b.body.length] else []) := by
  simp [dashIndexes, dashFrom_append, dashFrom_enc ha, dashFrom_enc hb, dashIndexesFrom]

theorem dt_enc_length_ge {v : DicomDateTime} (hv : v.Valid) : 4 ≤ v.toEncoded.length := by
  rw [dt_enc_split]; simp only [DicomDateTime.body, List.length_append]
  have := date_enc_length_ge hv.1; omega

theorem fixed_succ_head (w n : Nat) : ∃ x r, fixed (w + 1) n = x :: r ∧ x ≠ 45 := by
  have hl := fixed_length (w + 1) n
  cases h : fixed (w + 1) n with
  | nil => rw [h] at hl; simp at hl
  | cons x r => exact ⟨x, r, rfl, fixed_no_dash (w + 1) n x (by rw [h]; simp)⟩

/-- the encoding starts with the four year digits -/
theorem dt_enc_year {v : DicomDateTime} (hv : v.Valid) : ∃ r, v.toEncoded = fixed 4 v.date.yr ++ r := by
  obtain ⟨d, t, o⟩ := v
  have hd : d.Valid := hv.1
  rw [dt_enc_split]; simp only [DicomDateTime.body]
  cases d with
  | year y => rw [date_enc hd]; simp only [DicomDate.yr, List.append_assoc]; exact ⟨_, rfl⟩
  | month y m => rw [date_enc hd]; simp only [DicomDate.yr, List.append_assoc]; exact ⟨_, rfl⟩
  | day y m dd => rw [date_enc hd]; simp only [DicomDate.yr, List.append_assoc]; exact ⟨_, rfl⟩

theorem dt_enc_head {v : DicomDateTime} (hv : v.Valid) (r : Bytes) : (v.toEncoded ++ r).head? ≠ some 45 := by
  obtain ⟨r', e⟩ := dt_enc_year hv
  obtain ⟨x, t, e2, hx⟩ := fixed_succ_head 3 v.date.yr
  rw [e, e2]; simp [hx]

/-- the encoding ends with a digit -/
theorem dt_enc_last {v : DicomDateTime} (hv : v.Valid) : ∃ p z, v.toEncoded = p ++ [z] ∧ z ≠ 45 := by
  have key : ∀ (pre : Bytes) (w n : Nat), ∃ p z, pre ++ fixed (w + 1) n = p ++ [z] ∧ z ≠ 45 := by
    intro pre w n
    refine ⟨pre ++ fixed w (n / 10), 48 + n % 10, by simp [fixed], by omega⟩
  obtain ⟨d, t, o⟩ := v
  obtain ⟨hd, ht, ho⟩ := hv
  simp only at hd ht ho
  cases o with
  | some o =>
    have e := offset_enc (ho o rfl)
    cases t with
    | none =>
      simp only [DicomDateTime.toEncoded, e]
      have := key (d.toEncoded ++ ((if o < 0 then 45 else 43) :: fixed 2 (o.natAbs / 3600))) 1 (o.natAbs / 60 % 60)
      simpa [List.append_assoc] using this
    | some t =>
      simp only [DicomDateTime.toEncoded, e]
      have := key (d.toEncoded ++ t.toEncoded ++ ((if o < 0 then 45 else 43) :: fixed 2 (o.natAbs / 3600))) 1 (o.natAbs / 60 % 60)
      simpa [List.append_assoc] using this
  | none =>
    cases t with
    | none =>
      simp only [DicomDateTime.toEncoded, date_enc hd]
      cases d with
      | year y => simpa using key [] 3 y
      | month y m => simpa using key (fixed 4 y) 1 m
      | day y m dd => simpa [List.append_assoc] using key (fixed 4 y ++ fixed 2 m) 1 dd
    | some t =>
      have htv := (ht t rfl).1
      simp only [DicomDateTime.toEncoded, time_enc htv]
      cases t with
      | hour h => simpa using key d.toEncoded 1 h
      | minute h m => simpa [List.append_assoc] using key (d.toEncoded ++ fixed 2 h) 1 m
      | second h m s => simpa [List.append_assoc] using key (d.toEncoded ++ fixed 2 h ++ fixed 2 m) 1 s
      | fraction h m s f fp =>
        simp only [DicomTime.Valid] at htv
        obtain ⟨k, hk⟩ : ∃ k, fp = k + 1 := ⟨fp - 1, by omega⟩
        subst hk
        obtain ⟨p, z, e, hz⟩ := key (d.toEncoded ++ (fixed 2 h ++ (fixed 2 m ++ (fixed 2 s ++ [46])))) k f
        exact ⟨p, z, by rw [← e]; simp [List.append_assoc], hz⟩

theorem getLast_range {a b : DicomDateTime} (hb : b.Valid) :
    (a.toEncoded ++ 45 :: b.toEncoded).getLast? ≠ some 45 := by
  obtain ⟨p, z, e, hz⟩ := dt_enc_last hb
  have : a.toEncoded ++ 45 :: (p ++ [z]) = (a.toEncoded ++ 45 :: p) ++ [z] := by simp
  rw [e, this, List.getLast?_concat]
  simp [hz]

/-- the split of `A-B` at the separator, evaluated: earliest of `A`, latest of `B` -/
theorem dtRangeAt_sep (amb : Ambig) {a b : DicomDateTime} (ha : a.Valid) (hb : b.Valid) :
    dtRangeAt amb (a.toEncoded ++ 45 :: b.toEncoded) a.toEncoded.length =
      match a.earliest, b.latest with
      | some s, some e => mkDateTimeRange amb s e
      | _, _ => none := by
  have t1 : List.take a.toEncoded.length (a.toEncoded ++ 45 :: b.toEncoded) = a.toEncoded := List.take_left' rfl
  have t2 : List.drop (a.toEncoded.length + 1) (a.toEncoded ++ 45 :: b.toEncoded) = b.toEncoded := by
    rw [← List.drop_drop, List.drop_left' rfl]; rfl
  simp only [dtRangeAt, t1, t2, datetime_rt a ha, datetime_rt b hb]
  cases a.earliest <;> cases b.latest <;> rfl

theorem range_prelude {a b : DicomDateTime} (ha : a.Valid) (hb : b.Valid) :
    ¬ ((a.toEncoded ++ 45 :: b.toEncoded).length < 5) ∧
    (a.toEncoded ++ 45 :: b.toEncoded).head? ≠ some 45 ∧
    (a.toEncoded ++ 45 :: b.toEncoded).getLast? ≠ some 45 := by
  have la := dt_enc_length_ge ha
  exact ⟨by simp; omega, dt_enc_head ha (45 :: b.toEncoded), getLast_range (a := a) hb⟩

/-- DT range `A-B` where neither value carries a west offset (one dash): from the earliest instant
of `A` to the latest instant of `B`; like variants are checked for inversion, mixed
aware/naive pairs go to the ambiguity handler -/
theorem datetime_range_text (amb : Ambig) (a b : DicomDateTime) (ha : a.Valid) (hb : b.Valid)
    (wa : ¬ a.West) (wb : ¬ b.West) :
    parseDateTimeRange amb (a.toEncoded ++ 45 :: b.toEncoded) =
      match a.earliest, b.latest with
      | some s, some e => mkDateTimeRange amb s e
      | _, _ => none := by
  obtain ⟨h1, h2, h3⟩ := range_prelude ha hb
  simp only [parseDateTimeRange, h1, h2, h3, if_false, dashes_of_range ha hb, wa, wb, List.nil_append]
  exact dtRangeAt_sep amb ha hb

/-- DT range `A-B` where both values carry a west offset (three dashes: the middle one separates) -/
theorem datetime_range_text_both_west (amb : Ambig) (a b : DicomDateTime) (ha : a.Valid) (hb : b.Valid)
    (wa : a.West) (wb : b.West) :
    parseDateTimeRange amb (a.toEncoded ++ 45 :: b.toEncoded) =
      match a.earliest, b.latest with
      | some s, some e => mkDateTimeRange amb s e
      | _, _ => none := by
  obtain ⟨h1, h2, h3⟩ := range_prelude ha hb
  simp only [parseDateTimeRange, h1, h2, h3, if_false, dashes_of_range ha hb, wa, wb, if_true, List.cons_append,
    List.nil_append]
  exact dtRangeAt_sep amb ha hb

/-- DT range `A-B` where only `B` carries a west offset (two dashes, the first separates): whenever
earliest(A) … latest(B) is a valid range, it is the result -/
theorem datetime_range_text_west_end (amb : Ambig) (a b : DicomDateTime) (ha : a.Valid) (hb : b.Valid)
    (wa : ¬ a.West) (wb : b.West) {s e : Precise} {r : DateTimeRange}
    (hs : a.earliest = some s) (he : b.latest = some e) (hr : mkDateTimeRange amb s e = some r) :
    parseDateTimeRange amb (a.toEncoded ++ 45 :: b.toEncoded) = some r := by
  obtain ⟨h1, h2, h3⟩ := range_prelude ha hb
  simp only [parseDateTimeRange, h1, h2, h3, if_false, dashes_of_range ha hb, wa, wb, if_true, List.nil_append]
  have t1 : List.take a.toEncoded.length (a.toEncoded ++ 45 :: b.toEncoded) = a.toEncoded := List.take_left' rfl
  have t2 : List.drop (a.toEncoded.length + 1) (a.toEncoded ++ 45 :: b.toEncoded) = b.toEncoded := by
    rw [← List.drop_drop, List.drop_left' rfl]; rfl
  simp only [t1, t2, datetime_rt a ha, datetime_rt b hb, hs, he, hr]


theorem fixed_2_2 {a b : Nat} (ha : a < 100) (hb : b < 100) : fixed 2 a ++ fixed 2 b = fixed 4 (a * 100 + b) := by
  simp only [fixed, List.nil_append, List.cons_append, List.cons.injEq, and_true]
  refine ⟨?_, ?_, ?_, ?_⟩ <;> omega

theorem fixed_4_split {y : Nat} (hy : y ≤ 9999) : fixed 4 y = fixed 2 (y / 100) ++ fixed 2 (y % 100) := by
  rw [fixed_2_2 (by omega) (by omega)]; congr 1; omega

/-- what stands right of the *first* dash when only `A` has a west offset: `hhmm-B…`.  It reads as
year `hhmm` with offset `-YYYY` taken from `B`'s year, which is out of range when that year
exceeds 1200 — so it is not a date-time, and the parser moves on to the second dash. -/
theorem west_digits_then_range_fail {hh mm : Nat} (h1 : hh < 100) (h2 : mm < 100) {b : DicomDateTime} (hb : b.Valid)
    (hy : 1200 < b.date.yr) :
    parseDateTimePartial (fixed 2 hh ++ (fixed 2 mm ++ 45 :: b.toEncoded)) = none := by
  obtain ⟨r, e⟩ := dt_enc_year hb
  have hyv : b.date.yr ≤ 9999 := by
    have := hb.1; cases h : b.date <;> rw [h] at this <;> simp [DicomDate.Valid] at this <;> simp [DicomDate.yr] <;> omega
  have hY : hh * 100 + mm ≤ 9999 := by omega
  have hv : (DicomDate.year (hh * 100 + mm)).Valid := hY
  have hnd : NoDigitPair (45 :: b.toEncoded) := by
    right; rw [e]
    obtain ⟨x, t, e2, _⟩ := fixed_succ_head 3 b.date.yr
    rw [e2]; simp [readNumber, isDigit]
  have pd := parseDate_ext hv (45 :: b.toEncoded) (Or.inr hnd)
  rw [date_enc hv] at pd
  simp only at pd
  have lb := dt_enc_length_ge hb
  have pt : parseTimePartial (45 :: b.toEncoded) = none := by
    rw [e]
    obtain ⟨x, t, e2, _⟩ := fixed_succ_head 3 b.date.yr
    rw [e2]; simp [parseTimePartial, readNumber, isDigit]
  have ptz : parseTzSuffix (45 :: b.toEncoded) = none := by
    rw [e, fixed_4_split hyv]
    have a1 : b.date.yr / 100 ≤ 99 := by omega
    have a2 : b.date.yr % 100 ≤ 99 := by omega
    have hl : (45 :: (fixed 2 (b.date.yr / 100) ++ fixed 2 (b.date.yr % 100) ++ r)).length > 4 := by simp; omega
    simp only [parseTzSuffix, hl, if_true, List.append_assoc, take_fixed, drop_fixed, rn2 a1, rn2 a2]
    have : ¬ ((b.date.yr / 100 * 60 + b.date.yr % 100) * 60 ≤ 12 * 3600) := by omega
    simp [checkComponent, this]
  rw [← List.append_assoc, fixed_2_2 h1 h2]
  simp only [parseDateTimePartial, pd, pt, ptz]

/-- DT range `A-B` where only `A` carries a west offset (two dashes, the second separates) and the
year of `B` is later than 1200 (the format's own ambiguity, documented at `parse_datetime_range`,
is excluded by that) -/
theorem datetime_range_text_west_start (amb : Ambig) (a b : DicomDateTime) (ha : a.Valid) (hb : b.Valid)
    (wa : a.West) (wb : ¬ b.West) (hy : 1200 < b.date.yr) :
    parseDateTimeRange amb (a.toEncoded ++ 45 :: b.toEncoded) =
      match a.earliest, b.latest with
      | some s, some e => mkDateTimeRange amb s e
      | _, _ => none := by
  obtain ⟨h1, h2, h3⟩ := range_prelude ha hb
  simp only [parseDateTimeRange, h1, h2, h3, if_false, dashes_of_range ha hb, wa, wb, if_true, List.cons_append,
    List.nil_append]
  obtain ⟨o, ho, hneg⟩ := wa
  have hov := ha.2.2 o ho
  have htz : a.tzText = 45 :: (fixed 2 (o.natAbs / 3600) ++ fixed 2 (o.natAbs / 60 % 60)) := by
    simp [DicomDateTime.tzText, ho, offset_enc hov, hneg]
  have hdrop : List.drop (a.body.length + 1) (a.toEncoded ++ 45 :: b.toEncoded) =
      fixed 2 (o.natAbs / 3600) ++ (fixed 2 (o.natAbs / 60 % 60) ++ 45 :: b.toEncoded) := by
    rw [dt_enc_split, htz, List.append_assoc, ← List.drop_drop, List.drop_left' rfl]
    simp [List.append_assoc]
  obtain ⟨_, lo, hi⟩ := hov
  have g := west_digits_then_range_fail (hh := o.natAbs / 3600) (mm := o.natAbs / 60 % 60) (by omega) (by omega) hb hy
  rw [hdrop, g]
  cases parseDateTimePartial (List.take a.body.length (a.toEncoded ++ 45 :: b.toEncoded)) <;>
    exact dtRangeAt_sep amb ha hb


/-- DT range `-B`: everything up to the latest instant of `B` -/
theorem datetime_range_open_start (amb : Ambig) (b : DicomDateTime) (hb : b.Valid) :
    parseDateTimeRange amb (45 :: b.toEncoded) =
      b.latest.map fun e => ⟨(match e with | .aware .. => true | .naive .. => false), none, some e⟩ := by
  have lb := dt_enc_length_ge hb
  have h1 : ¬ ((45 :: b.toEncoded).length < 5) := by simp; omega
  simp only [parseDateTimeRange, h1, if_false, List.head?_cons, if_true, List.drop_succ_cons, List.drop_zero,
    datetime_rt b hb]
  cases b.latest <;> rfl

/-- DT range `A-`: everything from the earliest instant of `A` -/
theorem datetime_range_open_end (amb : Ambig) (a : DicomDateTime) (ha : a.Valid) :
    parseDateTimeRange amb (a.toEncoded ++ [45]) =
      a.earliest.map fun s => ⟨(match s with | .aware .. => true | .naive .. => false), some s, none⟩ := by
  have la := dt_enc_length_ge ha
  have h1 : ¬ ((a.toEncoded ++ [45]).length < 5) := by simp; omega
  have h2 := dt_enc_head ha [45]
  have h3 : (a.toEncoded ++ [45]).getLast? = some 45 := List.getLast?_concat
  have t1 : List.take ((a.toEncoded ++ [45]).length - 1) (a.toEncoded ++ [45]) = a.toEncoded := by
    simp
  simp only [parseDateTimeRange, h1, h2, h3, if_false, if_true, t1, datetime_rt a ha]
  cases a.earliest <;> rfl

/-! ## the hypotheses are needed, and are satisfiable -/

/-- a leap second is a valid value, round-trips (`time_rt`) and has bounds in chrono's leap-second
representation (second 59, 1 000 000 … 1 999 999 µs) -/
theorem leap_second_bounds :
    (DicomTime.second 23 59 60).Valid ∧ DicomTime.fromHms 23 59 60 = some (.second 23 59 60) ∧
      (DicomTime.second 23 59 60).earliest = some ⟨23, 59, 59, 1000000⟩ ∧
      (DicomTime.second 23 59 60).latest = some ⟨23, 59, 59, 1999999⟩ ∧
      (DicomTime.fraction 23 59 60 5 6).exact = some ⟨23, 59, 59, 1000005⟩ := by decide

/-- 30 February is accepted by `from_ymd` (day 1..31) but denotes no day: no bounds -/
theorem feb30_valid_without_bounds :
    (DicomDate.day 2021 2 30).Valid ∧ (DicomDate.day 2021 2 30).earliest = none := by decide

/-- an offset with a seconds part is printed as `+HHMMSS`; the parser reads `+HHMM`: no round trip,
and the text is longer than the reported length -/
theorem offset_seconds_not_roundtrip :
    let v : DicomDateTime := ⟨.year 2000, none, some 3630⟩
    parseDateTimePartial v.toEncoded = some ⟨.year 2000, none, some 3600⟩ ∧ v.toEncoded.length ≠ v.byteLen := by decide

/-- `+15:00` is a `FixedOffset` but not a DICOM offset: the parser rejects the encoded text -/
theorem offset_out_of_range_not_roundtrip :
    parseDateTimePartial (DicomDateTime.toEncoded ⟨.year 2000, none, some 54000⟩) = none := by decide

/-- the documented ambiguity of `parse_datetime_range`: `0050-0100` – `1100+0100` (only the first
value has a west offset, the year of the second is ≤ 1200) is read as `0050` – `0100-1100` -/
theorem dash_caveat_witness :
    let a : DicomDateTime := ⟨.year 50, none, some (-3600)⟩
    let b : DicomDateTime := ⟨.year 1100, none, some 3600⟩
    parseDateTimeRange .toKnown (a.toEncoded ++ 45 :: b.toEncoded) ≠
      (match a.earliest, b.latest with
        | some s, some e => mkDateTimeRange .toKnown s e
        | _, _ => none) := by decide

/-- non-vacuity: a valid date-time with fraction and west offset, with all the properties at once -/
def sampleDT : DicomDateTime := ⟨.day 2024 2 29, some (.fraction 23 59 59 1234 4), some (-34200)⟩

theorem sampleDT_valid : sampleDT.Valid := by
  refine ⟨by decide, ?_, ?_⟩
  · intro t ht; cases ht; decide
  · intro o ho; cases ho; decide

example : sampleDT.Valid ∧ sampleDT.date.Denotes ∧ sampleDT.West ∧
    parseDateTimePartial sampleDT.toEncoded = some sampleDT ∧
    sampleDT.toEncoded.length = sampleDT.byteLen ∧ sampleDT.earliest.isSome ∧ sampleDT.latest.isSome :=
  ⟨sampleDT_valid, by show 29 ≤ daysInMonth 2024 2; decide, ⟨-34200, rfl, by decide⟩, by decide, by decide,
    by decide, by decide⟩


end Dicom.Partial
