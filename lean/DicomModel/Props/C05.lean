import DicomModel.Model.Guard
import DicomModel.Model.Rle
import DicomModel.Model.Bytes
import DicomModel.Model.Pdu
import DicomModel.Lemmas.TagText
import DicomModel.Lemmas.Pdu
import DicomModel.Lemmas.PduNoPanic
import DicomModel.Lemmas.GuardText
import DicomModel.Props.C23
/-
C05 — untrusted input never makes a reader panic, abort or hang.  (partial, see below)

Proof part: no-panic / termination theorems about the executable models of the dicom-rs-OWNED
parsers, where those models carry an explicit `panic` outcome (so a theorem cannot hold because a
definition was totalised).  Collected here:

* text: `Tag::from_str` and `parse_selector` — every Rust string, every dictionary
  (`tag_from_str_no_panic`, `selector_no_panic`, `selector_slices_no_panic`);
* date / time / date-time / range parsers: the models of C12 are total `Option` functions, so their
  Rust panic sites (slices, indexes, `split_at`, `unwrap`) are modelled explicitly in
  `Model/GuardText.lean` and proved unreachable for every byte string (`parse_*_no_panic`), with
  `read_number_no_wrap` for the arithmetic that would wrap in a release build;
* header decoders: only constant ranges of fixed arrays (`header_decoders_slices_in_range`), and
  progress of 8 or 12 bytes per header (`header_decode_progress`, on `Model/Header.lean`);
* value readers of the stateful decoder: `remainder[..n]`, the padding-trim loop
  (`value_reader_slices_no_panic`); their `unreachable!()` in `read_value_cs` rests on
  `read_value_strs` returning `Strs` (a type invariant, not modelled); their allocation is the
  known finding `abort-alloc-dataset-reader`;
* DICOM JSON: the element / data set visitors over any parsed JSON document
  (`json_dataset_no_panic`, `json_element_no_panic`, from `Props/C23`);
* PDU decoding: `read_pdu` and everything under it, for every byte string — no unguarded
  `get_u8/get_u16/get_u32/copy_to_bytes` is reachable (`read_pdu_no_panic`), and the P-DATA value
  loop terminates with fuel = body length (`read_pdvs_no_hang`);
* file meta group: the `while total_bytes_read < group_length` loop ends after at most
  `group_length/8 + 1` rounds whatever the stream contains (`meta_loop_no_hang`);
* RLE Lossless after repair af5f450: `read_rle_header`, `decode_frame` and `decode` never panic
  (`rle_header_no_panic`, `rle_decode_frame_no_panic`, `rle_decode_no_panic`, models in
  `Model/Guard.lean`); what was shipped before is kept as `…_shipped_before_fix` (exact panic set of
  the old header reader);
* recursion depth of `build_object`/`build_sequence` equals the nesting depth of the input, which
  is unbounded: 20 bytes of input per stack level (`nesting_depth_unbounded`) — the stack overflow is
  reproduced by the fuzzing run (known finding). Allocation before reading: `valueAlloc`.

Not proved (fuzzing only, labelled as such in props/C05.json): third-party decoders (jpeg-decoder,
flate2, serde_json's text layer, encoding_rs), the eager/lazy data set reader state machines as a
whole, `dump`, pixel decoders other than RLE.
-/
namespace Dicom.C05

/-! ## text parsers -/

/-- `Tag::from_str` returns for every Rust string (any sequence of Unicode scalar values). -/
theorem tag_from_str_no_panic (cs : List Char) : TagText.parseTag (utf8Encode cs) ≠ .panic :=
  TagText.parseTag_ne_panic (TagText.okAfterAscii_utf8 cs)

open TagText in
theorem okAfterAscii_take : ∀ (s : Bytes) (n : Nat), okAfterAscii s = true → okAfterAscii (s.take n) = true := by
  intro s
  induction s with
  | nil => intro n _; simp [okAfterAscii]
  | cons a r ih =>
    intro n h
    cases n with
    | zero => simp [okAfterAscii]
    | succ m =>
      cases r with
      | nil => simp [okAfterAscii]
      | cons b r' =>
        cases m with
        | zero => simp [okAfterAscii]
        | succ k =>
          have ht := ih (k + 1) (okAfterAscii_tail h)
          simp only [List.take_succ_cons] at ht ⊢
          simp only [okAfterAscii, Bool.and_eq_true] at h ⊢
          exact ⟨h.1, ht⟩

open TagText in
theorem okAfterAscii_splitOn (c : Nat) : ∀ (bs : Bytes), okAfterAscii bs = true →
    (∀ q ∈ splitOn c bs, okAfterAscii q = true) ∧
    (∀ a, okAfterAscii (a :: bs) = true → okAfterAscii (a :: (splitOn c bs).headD []) = true) := by
  intro bs
  induction bs with
  | nil => intro _; simp [splitOn, okAfterAscii]
  | cons b r ih =>
    intro h
    have ihr := ih (okAfterAscii_tail h)
    simp only [splitOn]
    split
    · refine ⟨?_, ?_⟩
      · intro q hq
        rcases List.mem_cons.mp hq with rfl | hq
        · rfl
        · exact ihr.1 q hq
      · intro a _; simp [okAfterAscii]
    · cases hs : splitOn c r with
      | nil => exact absurd hs (splitOn_ne_nil c r)
      | cons p ps =>
        have hbp : okAfterAscii (b :: p) = true := by
          have := ihr.2 b h; rw [hs] at this; simpa using this
        refine ⟨?_, ?_⟩
        · intro q hq
          rcases List.mem_cons.mp hq with rfl | hq
          · exact hbp
          · exact ihr.1 q (by rw [hs]; exact List.mem_cons_of_mem _ hq)
        · intro a ha
          simp only [List.headD_cons]
          simp only [okAfterAscii, Bool.and_eq_true] at ha ⊢
          exact ⟨ha.1, hbp⟩

open TagText in
theorem parsePart_no_panic (byName : Bytes → Option TagText.Tag) (part : Bytes) (h : okAfterAscii part = true) :
    parsePart byName part ≠ .panic := by
  have key : ∀ s, okAfterAscii s = true → dictParseTag byName s ≠ .panic := by
    intro s hs
    unfold dictParseTag
    have := parseTag_ne_panic hs
    split
    · nofun
    · split <;> nofun
    · rename_i heq; exact absurd heq this
  unfold parsePart
  split
  · split
    · nofun
    · rename_i i _
      have hk := key (part.take i) (okAfterAscii_take part i h)
      simp only
      split
      · rename_i heq; exact absurd heq hk
      · nofun
      · split <;> nofun
  · have hk := key part h
    split
    · rename_i heq; exact absurd heq hk
    · nofun
    · nofun

open TagText in
/-- **`DataDictionary::parse_selector` returns for every Rust string**, whatever the dictionary:
the `Tag::from_str` calls inside cannot panic, and (`selector_slices_no_panic`) neither can the two
`str` slices of an intermediate `«key»[«item»]` part. -/
theorem selector_no_panic (byName : Bytes → Option TagText.Tag) (cs : List Char) :
    parseSelector byName (utf8Encode cs) ≠ .panic := by
  have hparts := (okAfterAscii_splitOn 0x2E (utf8Encode cs) (okAfterAscii_utf8 cs)).1
  have hp : ∀ (ps : List Bytes), (∀ q ∈ ps, okAfterAscii q = true) → parseParts byName ps ≠ .panic := by
    intro ps
    induction ps with
    | nil => intro _; nofun
    | cons p ps ih =>
      intro hq
      have h1 := parsePart_no_panic byName p (hq p (by simp))
      have h2 := ih (fun q hm => hq q (by simp [hm]))
      simp only [parseParts]
      split
      · split
        · nofun
        · nofun
        · rename_i heq; exact absurd heq h2
      · nofun
      · rename_i heq; exact absurd heq h1
  have := hp _ hparts
  unfold parseSelector
  split
  · split <;> nofun
  · nofun
  · rename_i heq; exact absurd heq this

open TagText Guard in
theorem selector_slices_no_panic (cs : List Char) :
    ∀ part ∈ splitOn 0x2E (utf8Encode cs), selectorSlicesG part ≠ .panic :=
  fun part hm => selectorSlicesG_np part
    ((okAfterAscii_splitOn 0x2E (utf8Encode cs) (okAfterAscii_utf8 cs)).1 part hm)

/-! ### date, time, date-time and range parsers: every slice, index and unwrap is in range

The functions are `Model/GuardText.lean`: `core/src/value/deserialize.rs` and `range.rs` rewritten with
checked slicing (`&buf[a..b]`, `buf[i]`, `split_at`, `dashes[i]`, `u8::try_from(n).unwrap()`), the
panic-free parts shared with `Model/Partial.lean`. For EVERY byte string: -/

open Guard in
theorem parse_date_no_panic (buf : Bytes) : parseDateG buf ≠ .panic := parseDateG_np buf
open Guard in
theorem parse_date_partial_no_panic (buf : Bytes) : parseDatePartialG buf ≠ .panic := parseDatePartialG_np buf
open Guard in
theorem parse_time_no_panic (buf : Bytes) : parseTimeG buf ≠ .panic := parseTimeG_np buf
open Guard in
theorem parse_time_partial_no_panic (buf : Bytes) : parseTimePartialG buf ≠ .panic := parseTimePartialG_np buf
open Guard in
theorem parse_datetime_partial_no_panic (buf : Bytes) : parseDateTimePartialG buf ≠ .panic :=
  parseDateTimePartialG_np buf
open Guard in
theorem parse_date_range_no_panic (buf : Bytes) : parseDateRangeG buf ≠ .panic := parseDateRangeG_np buf
open Guard in
theorem parse_time_range_no_panic (buf : Bytes) : parseTimeRangeG buf ≠ .panic := parseTimeRangeG_np buf
open Guard in
/-- for every ambiguity handler `mk` (`ToLocalTimeZone`, `ToKnownTimeZone`, `FailOnAmbiguousRange`,
`IgnoreTimeZone`: none of them indexes or slices) -/
theorem parse_datetime_range_no_panic (mk : Partial.Precise → Partial.Precise → Option Partial.DateTimeRange)
    (buf : Bytes) : parseDateTimeRangeG mk buf ≠ .panic := parseDateTimeRangeG_np mk buf

open Guard in
/-- **no wrap-around in `read_number`** (release builds wrap silently): an accepted text of `n ≤ 9`
digits yields a value below `10^n`; the call sites read 2 digits into `u8` (< 256), 4 into `u16`
(< 65536) and at most 9 into `u32`/`i32` (< 2^31). -/
theorem read_number_no_wrap (text : Bytes) (v : Nat) (h : readNumberG text = .ok v) :
    v < 10 ^ text.length ∧ (text.length ≤ 2 → v < 256) ∧ (text.length ≤ 4 → v < 65536) ∧
    v < 2147483648 := by
  have hv := readNumberG_lt text v h
  have h9 : text.length ≤ 9 := by
    unfold readNumberG at h
    split at h
    · cases h
    · rename_i hc; simp at hc; omega
  refine ⟨hv, ?_, ?_, ?_⟩
  · intro hl
    have : 10 ^ text.length ≤ 10 ^ 2 := Nat.pow_le_pow_right (by omega) hl
    omega
  · intro hl
    have : 10 ^ text.length ≤ 10 ^ 4 := Nat.pow_le_pow_right (by omega) hl
    omega
  · have : 10 ^ text.length ≤ 10 ^ 9 := Nat.pow_le_pow_right (by omega) h9
    omega

/-! ## header decoders and value readers -/

open Guard in
/-- the header decoders index only constant ranges of fixed-size arrays, all in range -/
theorem header_decoders_slices_in_range :
    headerSliceSites.all (fun (n, a, b) => decide (a ≤ b ∧ b ≤ n)) = true := headerSliceSites_in_range

/-- every successful element header decode (Implicit VR LE, Explicit VR LE, Explicit VR BE) consumes
8 or 12 bytes of its input, a short input is an error: readers that loop over headers terminate -/
theorem header_decode_progress (ts : Syntax) (dict : Tag → Option VR) (bs : Bytes)
    (h : ElemHeader) (n : Nat) (r : Bytes) (hd : decodeHeader ts dict bs = some (h, n, r)) :
    (n = 8 ∨ n = 12) ∧ r.length + n = bs.length := Guard.decodeHeader_progress ts dict bs h n r hd

open Guard in
/-- value readers of the stateful decoder: `&mut remainder[..n]` of the 8-byte scratch array is in
range for the three ways it is called (`len & 1`, `len & 3`, `len & 7`), and the trailing-padding
loop `x = &x[..x.len() - 1]` never slices an empty text and stops within `len` rounds -/
theorem value_reader_slices_no_panic (len : Nat) (x : Bytes) :
    remainderSlice (len % 2) ≠ .panic ∧ remainderSlice (len % 4) ≠ .panic ∧
    remainderSlice (len % 8) ≠ .panic ∧ trimTrailG x.length x ≠ .panic :=
  ⟨(remainderSlice_np len).1, (remainderSlice_np len).2.1, (remainderSlice_np len).2.2,
   trimTrailG_np x.length x (Nat.le_refl _)⟩

/-! ## DICOM JSON -/

/-- the data set visitor on any JSON value whose strings are valid UTF-8 (all Rust strings are) -/
theorem json_dataset_no_panic (j : Json.J) (h : j.utf8 = true) : Json.dsOfJ j ≠ .panic :=
  Json.dsOfJ_ne_panic j h

theorem json_element_no_panic (tag : Nat) (j : Json.J) (h : j.utf8 = true) :
    Json.elemOfJ tag j ≠ .panic := Json.elemOfJ_ne_panic tag j h

/-! ## PDU decoding -/

open Pdu in
/-- **`read_pdu` never reaches an unguarded buffer access**: for every maximum length, both
strictness modes and every byte string the outcome is a PDU, "incomplete" or an error — never the
panic of `Buf::get_u8 / get_u16 / get_u32 / copy_to_bytes / advance` on a short buffer. -/
theorem read_pdu_no_panic (mx : Nat) (strict : Bool) (bs : Bytes) : NP (readPdu mx strict bs) := by
  unfold readPdu
  split
  · exact NP_err (by decide)
  split
  · exact NP_inc
  · rename_i hl
    rw [takeP_ok (n := 2) (bs := bs) (by omega)]
    simp only [Res.bind_eq, Res.bind_ok]
    split
    · exact NP_inc
    · rename_i hl2
      obtain ⟨len, e1⟩ := u32P_ok (bs := bs.drop 2) (by omega)
      simp only [e1, Res.bind_ok]
      split
      · exact NP_err (by decide)
      · split
        · exact NP_inc
        · rename_i hl3
          rw [takeP_ok (by omega)]
          simp only [Res.bind_ok]
          exact NP_bind (readBody_np _ _) fun p _ => NP_ok _

open Pdu in
/-- the P-DATA value loop of `read_pdu` terminates: with the body length as fuel it never runs dry
(every round consumes at least 6 bytes), and it does not panic -/
theorem read_pdvs_no_hang (body : Bytes) (acc : List Pdv) :
    readPdvs body.length body acc ≠ .err .fuel ∧ readPdvs body.length body acc ≠ .err .panic :=
  ⟨(readPdvs_np _ _ _ (Nat.le_refl _)).2, (readPdvs_np _ _ _ (Nat.le_refl _)).1⟩

/-! ## file meta group loop -/

open Guard in
/-- **No hang in `FileMetaTable::read_from`**: every header is at least 8 bytes, so the saturating
counter reaches any `group_length` (a `u32`) within `group_length/8 + 1` rounds — for every stream
of elements, also an endless one, whatever lengths they declare. -/
theorem meta_loop_no_hang (gl : Nat) (s : Nat → MetaElem) (hgl : gl ≤ u32Max)
    (hh : ∀ i, 8 ≤ (s i).hdr) : (metaLoop gl s (gl / 8 + 2) 0 0).2 ≠ .hang := by
  have key : ∀ (f total i : Nat), gl ≤ total + 8 * f → (metaLoop gl s (f + 1) total i).2 ≠ .hang := by
    intro f
    induction f with
    | zero =>
      intro total i h
      have : gl ≤ total := by omega
      simp [metaLoop, this]
    | succ f ih =>
      intro total i h
      unfold metaLoop
      split
      · simp
      · simp only
        split
        · simp
        · apply ih
          have := hh i
          unfold satAdd u32Max at *
          omega
  apply key
  omega

open Guard in
/-- … and the number of rounds is bounded by the declared group length alone. -/
theorem meta_loop_rounds (gl : Nat) (s : Nat → MetaElem) (hh : ∀ i, 8 ≤ (s i).hdr) :
    ∀ (f total i : Nat), 8 * i ≤ total ∨ u32Max ≤ total →
      (metaLoop gl s f total i).1 ≤ gl / 8 + 1 ∨ u32Max < gl ∨ (metaLoop gl s f total i).1 ≤ i := by
  intro f
  induction f with
  | zero => intro total i _; right; right; simp [metaLoop]
  | succ f ih =>
    intro total i hinv
    unfold metaLoop
    split
    · right; right; simp
    · rename_i hlt
      simp only
      split
      · -- error return in this round: i + 1 rounds, and total < gl
        by_cases hg : u32Max < gl
        · exact .inr (.inl hg)
        · left
          rcases hinv with h | h
          · simp only; omega
          · omega
      · have hnext : 8 * (i + 1) ≤ satAdd (satAdd total (s i).hdr) (s i).len ∨
            u32Max ≤ satAdd (satAdd total (s i).hdr) (s i).len := by
          have := hh i
          unfold satAdd u32Max at *
          omega
        rcases ih _ (i + 1) hnext with h | h | h
        · exact .inl h
        · exact .inr (.inl h)
        · -- the recursive call made no further round: it stopped at i + 1
          by_cases hg : u32Max < gl
          · exact .inr (.inl hg)
          · left
            rcases hinv with h' | h'
            · omega
            · omega

/-! ## recursion depth and allocation: measured quantities, not safe -/

open Guard in
theorem maxDepth_nested (n : Nat) : ∀ cur best, best ≤ cur →
    maxDepth (nestedToks n) cur best = if n = 0 then best else cur + 2 * n := by
  induction n with
  | zero => intro cur best _; simp [nestedToks, maxDepth]
  | succ n ih =>
    intro cur best h
    simp only [nestedToks, maxDepth]
    rw [ih (cur + 1 + 1) _ (by omega)]
    by_cases hn : n = 0
    · subst hn; simp; omega
    · simp [hn]; omega

open Guard in
/-- **The recursion depth of `build_object` ↔ `build_sequence` is chosen by the input**: for every
`n` there is a data set of `20·n` bytes (Explicit VR LE) that drives the recursion `2·n` frames deep.
Nothing bounds it — a thread's stack does (the fuzzing run reproduces the overflow = abort). -/
theorem nesting_depth_unbounded (n : Nat) :
    maxDepth (nestedToks n) 0 0 = 2 * n ∧ nestedBytes n = 20 * n := by
  refine ⟨?_, rfl⟩
  rw [maxDepth_nested n 0 0 (Nat.le_refl _)]
  by_cases hn : n = 0 <;> simp [hn]

open Guard in
/-- the value readers request the declared length before reading a byte: 8 bytes of header can ask
for 4 GiB -/
theorem value_alloc_unbounded : valueAlloc 0xFFFFFFFE = 4294967294 := rfl

/-! ## RLE Lossless (repaired by af5f450): no panic; what was shipped before, as witnesses -/

theorem rdLe32_none_iff (bs : Bytes) : rdLe32 bs = none ↔ bs.length < 4 := by
  match bs with
  | [] => simp [rdLe32]
  | [_] => simp [rdLe32]
  | [_, _] => simp [rdLe32]
  | [_, _, _] => simp [rdLe32]
  | _ :: _ :: _ :: _ :: r => simp [rdLe32]

open Rle in
theorem rdLe32s_some (n : Nat) : ∀ (bs : Bytes), 4 * n ≤ bs.length → ∃ v, rdLe32s n bs = some v := by
  induction n with
  | zero => intro bs _; exact ⟨[], rfl⟩
  | succ n ih =>
    intro bs h
    match bs, h with
    | a :: b :: c :: d :: r, h =>
      have hr : 4 * n ≤ r.length := by simp only [List.length_cons] at h; omega
      obtain ⟨v, hv⟩ := ih r hr
      refine ⟨(a + 256 * b + 65536 * c + 16777216 * d) :: v, ?_⟩
      simp [rdLe32s, rdLe32, hv]
    | [], h => simp at h
    | [_], h => simp at h; omega
    | [_, _], h => simp at h; omega
    | [_, _, _], h => simp at h; omega

theorem rdLe32_val_lt {bs : Bytes} (hb : IsBytes bs) {n : Nat} {r : Bytes}
    (h : rdLe32 bs = some (n, r)) : n < 4294967296 ∧ r = bs.drop 4 ∧ 4 ≤ bs.length := by
  match bs, h with
  | a :: b :: c :: d :: r', h =>
    simp only [rdLe32, Option.some.injEq, Prod.mk.injEq] at h
    have ha := hb a (by simp); have hb' := hb b (by simp)
    have hc := hb c (by simp); have hd := hb d (by simp)
    refine ⟨by omega, by simp [h.2], by simp⟩

open Guard Rle in
/-- **`read_rle_header` (repaired) never panics**: for every fragment — any length, any contents —
the two slices it still takes are inside the fragment, because of the 64-byte and 15-segment tests
in front of them. -/
theorem rle_header_no_panic (frag : Bytes) : readRleHeaderFixed frag ≠ .panic := by
  unfold readRleHeaderFixed
  split
  · intro h; cases h
  · rename_i hlen
    cases hh : rdLe32 frag with
    | none => exact absurd ((rdLe32_none_iff frag).mp hh) (by omega)
    | some p =>
      obtain ⟨n, r⟩ := p
      simp only
      split
      · intro h; cases h
      · rename_i hn
        have h1 : ¬ frag.length < 4 * (n + 1) := by omega
        simp only [h1, if_false]
        obtain ⟨v, hv⟩ := rdLe32s_some n (frag.drop 4) (by simp only [List.length_drop]; omega)
        simp [hv]

open Guard Rle in
theorem scatterFixed_np (step e : Nat) : ∀ (src : Bytes) (pos : Nat) (dst : Bytes),
    e ≤ dst.length → scatterFixed step e pos src dst ≠ .panic ∧
      ∀ d', scatterFixed step e pos src dst = .ok d' → d'.length = dst.length := by
  intro src
  induction src with
  | nil =>
    intro pos dst _
    simp only [scatterFixed]
    split
    · exact ⟨nofun, fun d' h => by cases h; rfl⟩
    · exact ⟨nofun, nofun⟩
  | cons x xs ih =>
    intro pos dst h
    simp only [scatterFixed]
    split
    · exact ⟨nofun, fun d' h => by cases h; rfl⟩
    · split
      · have := ih (pos + step) (dst.set pos x) (by simpa using h)
        exact ⟨this.1, fun d' hd => by rw [this.2 d' hd]; simp⟩
      · omega

open Guard Rle in
theorem placeSegmentFixed_np (P : Params) (frag : Bytes) (offs : List Nat) (base : Nat) (dst : Bytes)
    (sn bo : Nat) (h : base + P.frameSize ≤ dst.length) :
    placeSegmentFixed P frag offs base dst sn bo ≠ .panic ∧
      ∀ d', placeSegmentFixed P frag offs base dst sn bo = .ok d' → d'.length = dst.length := by
  unfold placeSegmentFixed
  simp only
  split
  · split
    · exact ⟨nofun, nofun⟩
    · split
      · exact ⟨nofun, nofun⟩
      · exact scatterFixed_np _ _ _ _ _ h
  · exact ⟨nofun, nofun⟩

open Guard Rle in
theorem placeAllFixed_np (P : Params) (frag : Bytes) (offs : List Nat) (base : Nat) :
    ∀ (order : List (Nat × Nat)) (dst : Bytes), base + P.frameSize ≤ dst.length →
      placeAllFixed P frag offs base order dst ≠ .panic ∧
        ∀ d', placeAllFixed P frag offs base order dst = .ok d' → d'.length = dst.length := by
  intro order
  induction order with
  | nil => intro dst _; exact ⟨nofun, fun d' h => by cases h; rfl⟩
  | cons p rest ih =>
    intro dst h
    obtain ⟨sn, bo⟩ := p
    have hs := placeSegmentFixed_np P frag offs base dst sn bo h
    simp only [placeAllFixed]
    split
    · rename_i d1 heq
      have hl := hs.2 d1 heq
      have := ih d1 (by omega)
      exact ⟨this.1, fun d' hd => by rw [this.2 d' hd, hl]⟩
    · exact ⟨nofun, nofun⟩
    · rename_i heq; exact absurd heq hs.1

open Guard Rle in
theorem decodeFragmentIntoFixed_np (P : Params) (frag : Bytes) (base : Nat) (dst : Bytes)
    (h : base + P.frameSize ≤ dst.length) :
    decodeFragmentIntoFixed P frag base dst ≠ .panic ∧
      ∀ d', decodeFragmentIntoFixed P frag base dst = .ok d' → d'.length = dst.length := by
  unfold decodeFragmentIntoFixed
  have hh := rle_header_no_panic frag
  split
  · exact placeAllFixed_np P frag _ base _ dst h
  · exact ⟨nofun, nofun⟩
  · rename_i heq; exact absurd heq hh

open Guard Rle in
/-- **`RleLosslessAdapter::decode_frame` (repaired) never panics**, for any image parameters, any
list of fragments, any frame number and any prior contents of the output vector. -/
theorem rle_decode_frame_no_panic (P : Params) (frags : List Bytes) (frame : Nat) (dst0 : Bytes) :
    decodeFrameFixed P frags frame dst0 ≠ .panic := by
  unfold decodeFrameFixed
  split
  · nofun
  · split
    · nofun
    · exact (decodeFragmentIntoFixed_np P _ _ _ (by simp)).1

open Guard Rle in
theorem decodeFramesFixed_np (P : Params) (base0 : Nat) : ∀ (frags : List Bytes) (i : Nat) (dst : Bytes),
    base0 + (i + frags.length) * P.frameSize ≤ dst.length →
      decodeFramesFixed P base0 i frags dst ≠ .panic := by
  intro frags
  induction frags with
  | nil => intro i dst _; simp [decodeFramesFixed]
  | cons f rest ih =>
    intro i dst h
    have hb : base0 + i * P.frameSize + P.frameSize ≤ dst.length := by
      simp only [List.length_cons] at h
      have : (i + (rest.length + 1)) * P.frameSize = i * P.frameSize + P.frameSize + rest.length * P.frameSize := by
        rw [Nat.add_mul, Nat.add_mul]; omega
      omega
    have hf := decodeFragmentIntoFixed_np P f (base0 + i * P.frameSize) dst hb
    simp only [decodeFramesFixed]
    split
    · rename_i d1 heq
      apply ih
      rw [hf.2 d1 heq]
      simp only [List.length_cons] at h
      have : (i + 1 + rest.length) = (i + (rest.length + 1)) := by omega
      rw [this]; exact h
    · nofun
    · rename_i heq; exact absurd heq hf.1

open Guard Rle in
/-- **`RleLosslessAdapter::decode` (repaired) never panics** -/
theorem rle_decode_no_panic (P : Params) (frags : List Bytes) (dst0 : Bytes) :
    decodeAllFixed P frags dst0 ≠ .panic := by
  unfold decodeAllFixed
  split
  · nofun
  · apply decodeFramesFixed_np
    simp only [List.length_append, List.length_replicate, Nat.zero_add]
    rw [Nat.mul_comm]; omega

open Guard Rle in
/-- What was shipped before the repair: exactly when the old `read_rle_header` panicked — the
fragment is shorter than its 4-byte segment count, the count is `0xFFFFFFFF` (`4·(n+1)` wraps to 0),
or the fragment is shorter than the `4·(n+1)` bytes the count announces. -/
theorem rle_header_panics_iff_shipped_before_fix (frag : Bytes) (hb : IsBytes frag) :
    readRleHeaderShipped frag = .panic ↔
      frag.length < 4 ∨ ∃ n r, rdLe32 frag = some (n, r) ∧
        (n = 4294967295 ∨ frag.length < 4 * (n + 1)) := by
  unfold readRleHeaderShipped
  cases hh : rdLe32 frag with
  | none => simp [(rdLe32_none_iff frag).mp hh]
  | some p =>
    obtain ⟨n, r⟩ := p
    obtain ⟨hn, hr, hl⟩ := rdLe32_val_lt hb hh
    have hlen : ¬ frag.length < 4 := by omega
    simp only [hlen, false_or]
    by_cases hmax : n = 4294967295
    · subst hmax
      simp
    · have hmod : (n + 1) % 4294967296 = n + 1 := Nat.mod_eq_of_lt (by omega)
      rw [hmod]
      by_cases hshort : frag.length < 4 * (n + 1)
      · have : 4 * (n + 1) < 4 ∨ frag.length < 4 * (n + 1) := .inr hshort
        simp only [this, if_true, true_iff]
        exact ⟨n, r, rfl, .inr hshort⟩
      · have : ¬ (4 * (n + 1) < 4 ∨ frag.length < 4 * (n + 1)) := by omega
        simp only [this, if_false]
        obtain ⟨v, hv⟩ := rdLe32s_some n (frag.drop 4) (by simp only [List.length_drop]; omega)
        simp only [hv]
        constructor
        · intro h; cases h
        · rintro ⟨n', r', h1, h2⟩
          simp only [Option.some.injEq, Prod.mk.injEq] at h1
          obtain ⟨rfl, _⟩ := h1
          rcases h2 with h2 | h2
          · exact absurd h2 hmax
          · exact absurd h2 hshort

open Guard Rle in
/-- witnesses for the shipped code: an empty fragment and one that stops after its segment count
panicked; the repaired reader answers `Err` on both -/
theorem rle_short_fragments_shipped_before_fix :
    readRleHeaderShipped [] = .panic ∧ readRleHeaderShipped [1, 0, 0, 0] = .panic ∧
    readRleHeaderFixed [] = .err ∧ readRleHeaderFixed [1, 0, 0, 0] = .err := by decide

end Dicom.C05
