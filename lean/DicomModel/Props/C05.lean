import DicomModel.Model.Guard
import DicomModel.Model.Rle
import DicomModel.Model.Pdu
import DicomModel.Lemmas.TagText
import DicomModel.Lemmas.Pdu
import DicomModel.Lemmas.PduNoPanic
import DicomModel.Props.C23
/-
C05 — untrusted input never makes a reader panic, abort or hang.  (partial, see below)

Proof part: no-panic / termination theorems about the executable models of the dicom-rs-OWNED
parsers, where those models carry an explicit `panic` outcome (so a theorem cannot hold because a
definition was totalised).  Collected here:

* text: `Tag::from_str` — every Rust string (`tag_from_str_no_panic`, from `Lemmas/TagText`);
* DICOM JSON: the element / data set visitors over any parsed JSON document
  (`json_dataset_no_panic`, `json_element_no_panic`, from `Props/C23`);
* PDU decoding: `read_pdu` and everything under it, for every byte string — no unguarded
  `get_u8/get_u16/get_u32/copy_to_bytes` is reachable (`read_pdu_no_panic`), and the P-DATA value
  loop terminates with fuel = body length (`read_pdvs_no_hang`);
* file meta group: the `while total_bytes_read < group_length` loop ends after at most
  `group_length/8 + 1` rounds whatever the stream contains (`meta_loop_no_hang`);
* RLE Lossless: `read_rle_header` is NOT panic-free: exact characterisation of the fragments on
  which it panics (`rle_header_panics_iff`) and witnesses of the panics in the segment loops
  (`rle_*_panics`) — reproduced on the real decoder by the fuzzing run (known findings);
* recursion depth of `build_object`/`build_sequence` equals the nesting depth of the input, which
  is unbounded: 20 bytes of input per stack level (`nesting_depth_unbounded`) — the stack overflow is
  reproduced by the fuzzing run (known finding). Allocation before reading: `valueAlloc`.

Not proved (fuzzing only, labelled as such in props/C05.json): third-party decoders (jpeg-decoder,
flate2, serde_json's text layer, encoding_rs), the eager/lazy data set reader state machines as a
whole, `dump`, date/time/range parsers (their models are `Option`-valued functions without a panic
outcome: total by construction, nothing to state).
-/
namespace Dicom.C05

/-! ## text parsers -/

/-- `Tag::from_str` returns for every Rust string (any sequence of Unicode scalar values). -/
theorem tag_from_str_no_panic (cs : List Char) : TagText.parseTag (utf8Encode cs) ≠ .panic :=
  TagText.parseTag_ne_panic (TagText.okAfterAscii_utf8 cs)

/-! ## DICOM JSON -/

/-- the data set visitor on any JSON value whose strings are valid UTF-8 (all Rust strings are) -/
theorem json_dataset_no_panic (j : Json.J) (h : j.utf8 = true) : Json.dsOfJ j ≠ .panic :=
  Json.dsOfJ_ne_panic j h

theorem json_element_no_panic (tag : Nat) (j : Json.J) (h : j.utf8 = true) :
    Json.elemOfJ tag j ≠ .panic := Json.elemOfJ_ne_panic tag j h

/-! ## PDU decoding -/

open Pdu in
/-- **`read_pdu` never reaches an unguarded buffer access**: for every maximum length, both
strictness modes and every byte string the outcome is a PDU, "incomplete" or an error — never the
panic of `Buf::get_u8 / get_u16 / get_u32 / copy_to_bytes / advance` on a short buffer. -/
theorem read_pdu_no_panic (mx : Nat) (strict : Bool) (bs : Bytes) : NP (readPdu mx strict bs) := by
  unfold readPdu
  split
  · exact NP_err (by decide)
  split
  · exact NP_inc
  · rename_i hl
    rw [takeP_ok (n := 2) (bs := bs) (by omega)]
    simp only [Res.bind_eq, Res.bind_ok]
    split
    · exact NP_inc
    · rename_i hl2
      obtain ⟨len, e1⟩ := u32P_ok (bs := bs.drop 2) (by omega)
      simp only [e1, Res.bind_ok]
      split
      · exact NP_err (by decide)
      · split
        · exact NP_inc
        · rename_i hl3
          rw [takeP_ok (by omega)]
          simp only [Res.bind_ok]
          exact NP_bind (readBody_np _ _) fun p _ => NP_ok _

open Pdu in
/-- the P-DATA value loop of `read_pdu` terminates: with the body length as fuel it never runs dry
(every round consumes at least 6 bytes), and it does not panic -/
theorem read_pdvs_no_hang (body : Bytes) (acc : List Pdv) :
    readPdvs body.length body acc ≠ .err .fuel ∧ readPdvs body.length body acc ≠ .err .panic :=
  ⟨(readPdvs_np _ _ _ (Nat.le_refl _)).2, (readPdvs_np _ _ _ (Nat.le_refl _)).1⟩

/-! ## file meta group loop -/

open Guard in
/-- **No hang in `FileMetaTable::read_from`**: every header is at least 8 bytes, so the saturating
counter reaches any `group_length` (a `u32`) within `group_length/8 + 1` rounds — for every stream
of elements, also an endless one, whatever lengths they declare. -/
theorem meta_loop_no_hang (gl : Nat) (s : Nat → MetaElem) (hgl : gl ≤ u32Max)
    (hh : ∀ i, 8 ≤ (s i).hdr) : (metaLoop gl s (gl / 8 + 2) 0 0).2 ≠ .hang := by
  have key : ∀ (f total i : Nat), gl ≤ total + 8 * f → (metaLoop gl s (f + 1) total i).2 ≠ .hang := by
    intro f
    induction f with
    | zero =>
      intro total i h
      have : gl ≤ total := by omega
      simp [metaLoop, this]
    | succ f ih =>
      intro total i h
      unfold metaLoop
      split
      · simp
      · simp only
        split
        · simp
        · apply ih
          have := hh i
          unfold satAdd u32Max at *
          omega
  apply key
  omega

open Guard in
/-- … and the number of rounds is bounded by the declared group length alone. -/
theorem meta_loop_rounds (gl : Nat) (s : Nat → MetaElem) (hh : ∀ i, 8 ≤ (s i).hdr) :
    ∀ (f total i : Nat), 8 * i ≤ total ∨ u32Max ≤ total →
      (metaLoop gl s f total i).1 ≤ gl / 8 + 1 ∨ u32Max < gl ∨ (metaLoop gl s f total i).1 ≤ i := by
  intro f
  induction f with
  | zero => intro total i _; right; right; simp [metaLoop]
  | succ f ih =>
    intro total i hinv
    unfold metaLoop
    split
    · right; right; simp
    · rename_i hlt
      simp only
      split
      · -- error return in this round: i + 1 rounds, and total < gl
        by_cases hg : u32Max < gl
        · exact .inr (.inl hg)
        · left
          rcases hinv with h | h
          · simp only; omega
          · omega
      · have hnext : 8 * (i + 1) ≤ satAdd (satAdd total (s i).hdr) (s i).len ∨
            u32Max ≤ satAdd (satAdd total (s i).hdr) (s i).len := by
          have := hh i
          unfold satAdd u32Max at *
          omega
        rcases ih _ (i + 1) hnext with h | h | h
        · exact .inl h
        · exact .inr (.inl h)
        · -- the recursive call made no further round: it stopped at i + 1
          by_cases hg : u32Max < gl
          · exact .inr (.inl hg)
          · left
            rcases hinv with h' | h'
            · omega
            · omega

/-! ## recursion depth and allocation: measured quantities, not safe -/

open Guard in
theorem maxDepth_nested (n : Nat) : ∀ cur best, best ≤ cur →
    maxDepth (nestedToks n) cur best = if n = 0 then best else cur + 2 * n := by
  induction n with
  | zero => intro cur best _; simp [nestedToks, maxDepth]
  | succ n ih =>
    intro cur best h
    simp only [nestedToks, maxDepth]
    rw [ih (cur + 1 + 1) _ (by omega)]
    by_cases hn : n = 0
    · subst hn; simp; omega
    · simp [hn]; omega

open Guard in
/-- **The recursion depth of `build_object` ↔ `build_sequence` is chosen by the input**: for every
`n` there is a data set of `20·n` bytes (Explicit VR LE) that drives the recursion `2·n` frames deep.
Nothing bounds it — a thread's stack does (the fuzzing run reproduces the overflow = abort). -/
theorem nesting_depth_unbounded (n : Nat) :
    maxDepth (nestedToks n) 0 0 = 2 * n ∧ nestedBytes n = 20 * n := by
  refine ⟨?_, rfl⟩
  rw [maxDepth_nested n 0 0 (Nat.le_refl _)]
  by_cases hn : n = 0 <;> simp [hn]

open Guard in
/-- the value readers request the declared length before reading a byte: 8 bytes of header can ask
for 4 GiB -/
theorem value_alloc_unbounded : valueAlloc 0xFFFFFFFE = 4294967294 := rfl

/-! ## RLE Lossless: the real decoder is not panic-free -/

open Rle in
theorem rdLe32_none_iff (bs : Bytes) : rdLe32 bs = none ↔ bs.length < 4 := by
  match bs with
  | [] => simp [rdLe32]
  | [_] => simp [rdLe32]
  | [_, _] => simp [rdLe32]
  | [_, _, _] => simp [rdLe32]
  | _ :: _ :: _ :: _ :: r => simp [rdLe32]

open Rle in
theorem rdLe32s_some (n : Nat) : ∀ (bs : Bytes), 4 * n ≤ bs.length → ∃ v, rdLe32s n bs = some v := by
  induction n with
  | zero => intro bs _; exact ⟨[], rfl⟩
  | succ n ih =>
    intro bs h
    match bs, h with
    | a :: b :: c :: d :: r, h =>
      have hr : 4 * n ≤ r.length := by simp only [List.length_cons] at h; omega
      obtain ⟨v, hv⟩ := ih r hr
      refine ⟨(a + 256 * b + 65536 * c + 16777216 * d) :: v, ?_⟩
      simp [rdLe32s, rdLe32, hv]
    | [], h => simp at h
    | [_], h => simp at h; omega
    | [_, _], h => simp at h; omega
    | [_, _, _], h => simp at h; omega

theorem rdLe32_val_lt {bs : Bytes} (hb : IsBytes bs) {n : Nat} {r : Bytes}
    (h : rdLe32 bs = some (n, r)) : n < 4294967296 ∧ r = bs.drop 4 ∧ 4 ≤ bs.length := by
  match bs, h with
  | a :: b :: c :: d :: r', h =>
    simp only [rdLe32, Option.some.injEq, Prod.mk.injEq] at h
    have ha := hb a (by simp); have hb' := hb b (by simp)
    have hc := hb c (by simp); have hd := hb d (by simp)
    refine ⟨by omega, by simp [h.2], by simp⟩

open Rle in
/-- **Exactly when `read_rle_header` panics** (fragment = any byte string): it is shorter than its
4-byte segment count, or the count is `0xFFFFFFFF` (`4·(n+1)` wraps to 0 and the slice `4..0`
panics), or it is shorter than the `4·(n+1)` bytes the count announces. Every other fragment is read
without panic. (PS3.5 fixes the header at 64 bytes and at most 15 segments; the decoder checks
neither, and with a count of a few hundred million `vec![0; n]` is an allocation of gigabytes.) -/
theorem rle_header_panics_iff (frag : Bytes) (hb : IsBytes frag) :
    readRleHeader frag = .panic ↔
      frag.length < 4 ∨ ∃ n r, rdLe32 frag = some (n, r) ∧
        (n = 4294967295 ∨ frag.length < 4 * (n + 1)) := by
  unfold readRleHeader
  cases hh : rdLe32 frag with
  | none => simp [(rdLe32_none_iff frag).mp hh]
  | some p =>
    obtain ⟨n, r⟩ := p
    obtain ⟨hn, hr, hl⟩ := rdLe32_val_lt hb hh
    have hlen : ¬ frag.length < 4 := by omega
    simp only [hlen, false_or]
    by_cases hmax : n = 4294967295
    · subst hmax
      simp
    · have hmod : (n + 1) % 4294967296 = n + 1 := Nat.mod_eq_of_lt (by omega)
      rw [hmod]
      by_cases hshort : frag.length < 4 * (n + 1)
      · have : 4 * (n + 1) < 4 ∨ frag.length < 4 * (n + 1) := .inr hshort
        simp only [this, if_true, true_iff]
        exact ⟨n, r, rfl, .inr hshort⟩
      · have : ¬ (4 * (n + 1) < 4 ∨ frag.length < 4 * (n + 1)) := by omega
        simp only [this, if_false]
        obtain ⟨v, hv⟩ := rdLe32s_some n (frag.drop 4) (by simp only [List.length_drop]; omega)
        simp only [hv]
        constructor
        · intro h; cases h
        · rintro ⟨n', r', h1, h2⟩
          simp only [Option.some.injEq, Prod.mk.injEq] at h1
          obtain ⟨rfl, _⟩ := h1
          rcases h2 with h2 | h2
          · exact absurd h2 hmax
          · exact absurd h2 hshort

open Rle in
/-- witnesses (each reproduced on the real decoder by the fuzzing run): an empty fragment, … -/
theorem rle_empty_fragment_panics : readRleHeader [] = .panic := by decide

open Rle in
/-- … a fragment that announces one segment and stops: `fragment[4..8]` is out of range -/
theorem rle_truncated_header_panics : readRleHeader [1, 0, 0, 0] = .panic := by decide

open Rle in
/-- … a well-formed header whose segment count is smaller than `samples × bytes per sample`:
`offsets[ii + 1]` is out of bounds (here: 8-bit RGB, one segment) -/
theorem rle_missing_segment_panics :
    decodeFrame ⟨1, 1, 3, 8⟩ [[1, 0, 0, 0, 8, 0, 0, 0, 0, 5]] 0 [] = .panic := by
  simp [decodeFrame, decodeFragmentInto, readRleHeader, rdLe32, rdLe32s, placeAll, segOrder,
    placeSegment, Params.bps, Params.frameSize, Params.step, unpack, scatter, List.range,
    List.range.loop]

open Rle in
/-- … a segment that decodes to fewer bytes than `rows × columns`: `decoded_segment[i]` is out of
bounds (2×1 pixels, the segment holds one literal byte) -/
theorem rle_short_segment_panics :
    decodeFrame ⟨2, 1, 1, 8⟩ [[1, 0, 0, 0, 8, 0, 0, 0, 0, 5]] 0 [] = .panic := by
  simp [decodeFrame, decodeFragmentInto, readRleHeader, rdLe32, rdLe32s, placeAll, segOrder,
    placeSegment, Params.bps, Params.frameSize, Params.step, unpack, scatter, List.range,
    List.range.loop]

end Dicom.C05
