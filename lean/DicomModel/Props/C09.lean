import DicomModel.Model.Meta
import DicomModel.Lemmas.Bytes
import DicomModel.Lemmas.Header
/-
C09 — file meta group integrity and preamble handling.

`Inv t` = the recorded group length is what `calculate_information_group_length` gives.
* `group_length_exact`, `written_self_consistent`: for a table that the writer accepts, the bytes after
  the group length element number exactly `calcLen t`; with `Inv t` that is the recorded value.
* `meta_rt`: reading `DICM ++ written ++ rest` gives back the table with its strings padded, which is
  equal to the original under the table's own (padding-insensitive) equality, and leaves `rest`.
* `ops_preserve`, `history_preserves`: every attribute operation keeps `Inv`; an operation that fails
  leaves the table unchanged.
* `preamble_irrelevant`: with or without the 128-byte preamble, by path or from a byte source, the
  same table and the same data set bytes are obtained.
-/
namespace Dicom.Meta

def Inv (t : Table) : Prop := t.igl = calcLen t
instance (t : Table) : Decidable (Inv t) := by unfold Inv; infer_instance

/-! ### lengths -/

theorem evenLen_small {n : Nat} (h : n + 1 < U32) : evenLen n = (n + 1) / 2 * 2 := by
  simp only [evenLen, U32] at *; omega

theorem padded_length (p : Nat) (s : Bytes) : (padded p s).length = (s.length + 1) / 2 * 2 := by
  unfold padded; split
  · simp; omega
  · omega

theorem padded_even (p : Nat) (s : Bytes) : (padded p s).length % 2 = 0 := by
  rw [padded_length]; omega

theorem padded_of_even (p : Nat) (s : Bytes) (h : s.length % 2 = 0) : padded p s = s := by
  unfold padded; split
  · omega
  · rfl

theorem padded_idem (p q : Nat) (s : Bytes) : padded q (padded p s) = padded p s :=
  padded_of_even _ _ (padded_even p s)

/-- the VRs that occur in the meta group -/
def MetaVR (vr : VR) : Prop := vr = .OB ∨ vr = .UI ∨ vr = .SH ∨ vr = .AE ∨ vr = .UL

def hdrSize (vr : VR) : Nat := if vr = .OB then 12 else 8

theorem dec_enc_short : Gen.decLeShort = Gen.encLeShort := by decide

theorem adj_even (m : Nat) (hm : m % 2 = 0) (hlt : m < U32) :
    (if m % U32 = undefinedLen then m % U32 else evenLen (m % U32)) = m := by
  by_cases hc : m % U32 = undefinedLen
  · rw [if_pos hc]; simp only [undefinedLen, U32] at *; omega
  · rw [if_neg hc]; simp only [evenLen, undefinedLen, U32] at *; omega

theorem adj_raw (n : Nat) (h : n + 1 < U32) :
    (if n % U32 = undefinedLen then n % U32 else evenLen (n % U32)) = (n + 1) / 2 * 2 := by
  by_cases hc : n % U32 = undefinedLen
  · rw [if_pos hc]; simp only [undefinedLen, U32] at *; omega
  · rw [if_neg hc]; simp only [evenLen, undefinedLen, U32] at *; omega

theorem short_contains (vr : VR) (h : vr = .UI ∨ vr = .SH ∨ vr = .AE ∨ vr = .UL) :
    Gen.encLeShort.contains vr = true := by
  rcases h with h | h | h | h <;> subst h <;> decide

theorem short_not_OB : Gen.encLeShort.contains VR.OB = false := by decide

/-- the length field of the header is the length of the padded value -/
theorem hdr_len_fix (x : MElem) (hsz : x.raw.length + 1 < U32) :
    (if x.hdrLen = undefinedLen then x.hdrLen else evenLen x.hdrLen) = x.body.length := by
  have hbl : x.body.length = (x.raw.length + 1) / 2 * 2 := padded_length _ _
  unfold MElem.hdrLen
  split
  · rw [hbl]; exact adj_raw _ hsz
  · apply adj_even
    · exact padded_even _ _
    · rw [hbl]; simp only [U32] at *; omega

/-- shape of one written element: a header of 8 (12 for OB) bytes that decodes to the padded value
length, followed by the padded value -/
theorem encElem_shape (x : MElem) (hv : MetaVR x.vr) (he : x.e < 65536) (hsz : x.raw.length + 1 < U32)
    (bs : Bytes) (h : encElem x = .ok bs) :
    ∃ hd, bs = hd ++ x.body ∧ hd.length = hdrSize x.vr ∧
      (x.vr ≠ .OB → x.body.length < 65536) ∧
      ∀ r, decodeHeader .explicitLE noDict (hd ++ r) = some (⟨⟨2, x.e⟩, x.vr, x.body.length⟩, hdrSize x.vr, r) := by
  unfold encElem header at h
  rw [hdr_len_fix x hsz] at h
  have hbl : x.body.length < 4294967296 := by
    have : x.body.length = (x.raw.length + 1) / 2 * 2 := padded_length _ _
    simp only [U32] at hsz; omega
  split at h
  · rename_i hd hh
    injection h with h
    split at hh
    · rename_i hb n henc
      injection hh with hh
      subst hh
      simp only [encodeHeader] at henc
      have hvalid : (tagOf x.e).Valid := ⟨by simp [tagOf], by simpa [tagOf] using he⟩
      have hg : (tagOf x.e).group ≠ 0xFFFE := by simp [tagOf]
      have hdec := fun r => decodeExplicitWith_encode Gen.encLeShort false
        ⟨tagOf x.e, x.vr, x.body.length⟩ hvalid hg hbl r hb n henc
      have hn : n = hdrSize x.vr ∧ (x.vr ≠ .OB → x.body.length < 65536) := by
        unfold encodeExplicitWith at henc
        rcases hv with hv | hv
        · rw [hv] at henc ⊢
          simp only [short_not_OB] at henc
          injection henc with henc; injection henc with _ hn
          exact ⟨by simp [hdrSize, ← hn], fun h => absurd rfl h⟩
        · have hne : x.vr ≠ .OB := by rcases hv with hv | hv | hv | hv <;> simp [hv]
          simp only [short_contains x.vr hv, if_true] at henc
          split at henc
          · cases henc
          · injection henc with henc; injection henc with _ hn
            exact ⟨by simp [hdrSize, hne, ← hn], fun _ => by omega⟩
      refine ⟨hb, h.symm, ?_, hn.2, ?_⟩
      · rw [← (hdec []).2]; exact hn.1
      · intro r
        simp only [decodeHeader, dec_enc_short]
        rw [(hdec r).1, hn.1]; rfl
    · cases hh
  · cases h

/-! ### the whole group -/

def size (x : MElem) : Nat := hdrSize x.vr + x.body.length
def sz (xs : List MElem) : Nat := (xs.map size).sum

theorem sz_append (a b : List MElem) : sz (a ++ b) = sz a + sz b := by simp [sz]
theorem sz_cons (x : MElem) (xs : List MElem) : sz (x :: xs) = size x + sz xs := by simp [sz]

/-- what the writer may be given: meta VRs, 16-bit element numbers, values below 2 GiB -/
def Ok1 (x : MElem) : Prop := MetaVR x.vr ∧ x.e < 65536 ∧ x.raw.length < 2147483648

theorem encAll_facts (xs : List MElem) (hx : ∀ x ∈ xs, Ok1 x) (bs : Bytes) (h : encAll xs = .ok bs) :
    bs.length = sz xs ∧ ∀ x ∈ xs, x.vr ≠ .OB → x.body.length < 65536 := by
  induction xs generalizing bs with
  | nil => simp [encAll] at h; subst h; simp [sz]
  | cons x xs ih =>
    simp only [encAll] at h
    split at h
    · cases h
    · rename_i b hb
      split at h
      · cases h
      · rename_i bs' hbs
        injection h with h; subst h
        have hx1 := hx x (by simp)
        obtain ⟨hd, h1, h2, h3, _⟩ := encElem_shape x hx1.1 hx1.2.1
          (by have := hx1.2.2; simp only [U32]; omega) b hb
        obtain ⟨i1, i2⟩ := ih (fun y hy => hx y (List.mem_cons_of_mem _ hy)) bs' hbs
        constructor
        · rw [sz_cons, List.length_append, i1, h1, List.length_append, h2]; rfl
        · intro y hy
          rcases List.mem_cons.mp hy with hy | hy
          · rw [hy]; exact h3
          · exact i2 y hy

theorem elems_ok1 (t : Table) (hs : ∀ x ∈ elems t, x.raw.length < 2147483648) :
    ∀ x ∈ elems t, Ok1 x := by
  intro x hx
  refine ⟨?_, ?_, hs x hx⟩
  · simp only [elems, optElem, List.mem_append, List.mem_cons, List.mem_nil_iff, or_false] at hx
    rcases hx with ((((((hx | hx | hx | hx | hx) | hx) | hx) | hx) | hx) | hx) | hx
    all_goals first
      | (subst hx; simp [MetaVR])
      | (split at hx <;> simp at hx; subst hx; simp [MetaVR])
  · simp only [elems, optElem, List.mem_append, List.mem_cons, List.mem_nil_iff, or_false] at hx
    rcases hx with ((((((hx | hx | hx | hx | hx) | hx) | hx) | hx) | hx) | hx) | hx
    all_goals first
      | (subst hx; simp)
      | (split at hx <;> simp at hx; subst hx; simp)

/-- every value of the table is shorter than 2 GiB (the strings of a table the writer accepts are
shorter than 2^16 anyway; this bounds the private information) -/
def Small (t : Table) : Prop := ∀ x ∈ elems t, x.raw.length < 2147483648

theorem size_text (e : Nat) (vr : VR) (s : Bytes) (hvr : vr = .UI ∨ vr = .SH ∨ vr = .AE)
    (h : s.length < 2147483648) : size ⟨e, vr, s⟩ = 8 + dicomLen s := by
  have hne : vr ≠ .OB := by rcases hvr with h | h | h <;> simp [h]
  simp only [size, hdrSize, hne, if_false, MElem.body, padded_length, dicomLen]
  rw [evenLen_small (by simp only [U32]; omega)]

theorem size_ob (e : Nat) (s : Bytes) (h : s.length < 2147483648) :
    size ⟨e, .OB, s⟩ = 12 + evenLen s.length := by
  simp only [size, hdrSize, if_true, MElem.body, padded_length]
  rw [evenLen_small (by simp only [U32]; omega)]

theorem sz_elems (t : Table) (hs : Small t) :
    sz (elems t) = 14 + 8 + dicomLen t.cls + 8 + dicomLen t.inst + 8 + dicomLen t.ts + 8 + dicomLen t.impl
      + optLen t.ivn + optLen t.src + optLen t.snd + optLen t.rcv + optLen t.pic
      + privLen t.priv := by
  have hm : ∀ x, x ∈ elems t → x.raw.length < 2147483648 := hs
  have hopt : ∀ (e : Nat) (vr : VR) (o : Option Bytes), (vr = .UI ∨ vr = .SH ∨ vr = .AE) →
      (∀ x ∈ optElem e vr o, x.raw.length < 2147483648) → sz (optElem e vr o) = optLen o := by
    intro e vr o hvr hb
    cases o with
    | none => simp [optElem, sz, optLen]
    | some s =>
      have := hb ⟨e, vr, s⟩ (by simp [optElem])
      simp only [optElem, sz, List.map_cons, List.map_nil, List.sum_cons, List.sum_nil, optLen,
        size_text e vr s hvr this]; omega
  have hsub : ∀ (l : List MElem), (∀ x ∈ l, x ∈ elems t) → ∀ x ∈ l, x.raw.length < 2147483648 :=
    fun l hl x hx => hm x (hl x hx)
  unfold elems at *
  simp only [sz_append, sz_cons]
  rw [hopt 0x13 .SH t.ivn (by simp) (hsub _ (by intro x hx; simp [hx])),
      hopt 0x16 .AE t.src (by simp) (hsub _ (by intro x hx; simp [hx])),
      hopt 0x17 .AE t.snd (by simp) (hsub _ (by intro x hx; simp [hx])),
      hopt 0x18 .AE t.rcv (by simp) (hsub _ (by intro x hx; simp [hx])),
      hopt 0x100 .UI t.pic (by simp) (hsub _ (by intro x hx; simp [hx]))]
  rw [size_text 2 .UI t.cls (by simp) (hm ⟨2, .UI, t.cls⟩ (by simp)),
      size_text 3 .UI t.inst (by simp) (hm ⟨3, .UI, t.inst⟩ (by simp)),
      size_text 0x10 .UI t.ts (by simp) (hm ⟨0x10, .UI, t.ts⟩ (by simp)),
      size_text 0x12 .UI t.impl (by simp) (hm ⟨0x12, .UI, t.impl⟩ (by simp))]
  have h1 : size ⟨1, .OB, [t.ver.1, t.ver.2]⟩ = 14 := by
    simp [size, hdrSize, MElem.body, padded]
  rw [h1]
  cases hp : t.priv with
  | none => simp [optElem, sz, privLen]; omega
  | some v =>
    have := hm ⟨0x102, .OB, v⟩ (by simp [optElem, hp])
    simp only [optElem, sz, List.map_cons, List.map_nil, List.sum_cons, List.sum_nil, size_ob _ v this, privLen]
    omega

/-- **Group length is exact**: for a table the writer accepts, the elements after the group length
element take exactly `calculate_information_group_length` bytes. -/
theorem body_length_exact (t : Table) (hs : Small t) (bs : Bytes) (h : encodeBody t = .ok bs) :
    bs.length = calcLen t := by
  obtain ⟨h1, h2⟩ := encAll_facts (elems t) (elems_ok1 t hs) bs h
  have hsz := sz_elems t hs
  -- bounds: text values < 2^16 (the writer accepted them), private information < 2^31
  have btext : ∀ (e : Nat) (vr : VR) (s : Bytes), (vr = .UI ∨ vr = .SH ∨ vr = .AE) →
      (⟨e, vr, s⟩ : MElem) ∈ elems t → dicomLen s < 65536 := by
    intro e vr s hvr hmem
    have hne : vr ≠ .OB := by rcases hvr with h | h | h <;> simp [h]
    have hb := h2 ⟨e, vr, s⟩ hmem hne
    have hl := hs ⟨e, vr, s⟩ hmem
    simp only [MElem.body, padded_length] at hb
    simp only [dicomLen]; rw [evenLen_small (by simp only [U32]; omega)]; exact hb
  have bopt : ∀ (e : Nat) (vr : VR) (o : Option Bytes), (vr = .UI ∨ vr = .SH ∨ vr = .AE) →
      (∀ x ∈ optElem e vr o, x ∈ elems t) → optLen o < 8 + 65536 := by
    intro e vr o hvr hsub
    cases o with
    | none => simp [optLen]
    | some s =>
      have := btext e vr s hvr (hsub _ (by simp [optElem]))
      simp only [optLen]; omega
  have c1 := btext 2 .UI t.cls (by simp) (by simp [elems])
  have c2 := btext 3 .UI t.inst (by simp) (by simp [elems])
  have c3 := btext 0x10 .UI t.ts (by simp) (by simp [elems])
  have c4 := btext 0x12 .UI t.impl (by simp) (by simp [elems])
  have o1 := bopt 0x13 .SH t.ivn (by simp) (by intro x hx; simp [elems, hx])
  have o2 := bopt 0x16 .AE t.src (by simp) (by intro x hx; simp [elems, hx])
  have o3 := bopt 0x17 .AE t.snd (by simp) (by intro x hx; simp [elems, hx])
  have o4 := bopt 0x18 .AE t.rcv (by simp) (by intro x hx; simp [elems, hx])
  have o5 := bopt 0x100 .UI t.pic (by simp) (by intro x hx; simp [elems, hx])
  have op : privLen t.priv < 12 + 2147483650 := by
    cases hp : t.priv with
    | none => simp [privLen]
    | some v =>
      have := hs ⟨0x102, .OB, v⟩ (by simp [elems, optElem, hp])
      simp only [privLen] at this ⊢
      rw [evenLen_small (by simp only [U32]; omega)]; omega
  rw [h1, hsz]
  unfold calcLen
  rw [Nat.mod_eq_of_lt]
  simp only [U32]; omega

theorem header_gl : header 0 .UL 4 = .ok [2, 0, 0, 0, 0x55, 0x4C, 4, 0] := by rfl

theorem glElem_bytes (t : Table) :
    encElem (glElem t) = .ok ([2, 0, 0, 0, 0x55, 0x4C, 4, 0] ++ le32 t.igl) := by
  have h1 : (glElem t).hdrLen = 4 := by simp [glElem, MElem.hdrLen, U32]
  have h2 : (glElem t).body = le32 t.igl := by simp [glElem, MElem.body, padded]
  simp only [encElem, h1, h2]
  show (match header 0 .UL 4 with | .ok h => Except.ok (h ++ le32 t.igl) | .error e => .error e) = _
  rw [header_gl]

/-- `(encodeMeta t).length = 12 + calcLen t` -/
theorem group_length_exact (t : Table) (hs : Small t) (bs : Bytes)
    (h : encodeMeta t = .ok bs) :
    ∃ body, bs = [2, 0, 0, 0, 0x55, 0x4C, 4, 0] ++ le32 t.igl ++ body ∧ encodeBody t = .ok body ∧
      body.length = calcLen t ∧ bs.length = 12 + calcLen t := by
  simp only [encodeMeta, encAll, glElem_bytes t] at h
  split at h
  · cases h
  · rename_i body hb
    injection h with h
    have := body_length_exact t hs body hb
    refine ⟨body, h.symm, hb, this, ?_⟩
    rw [← h]; simp [this]; omega

/-- **The written group is self-consistent**: the value recorded in (0002,0000) is the number of
bytes that follow that element, for every table satisfying the invariant. -/
theorem written_self_consistent (t : Table) (hi : Inv t) (hs : Small t) (bs : Bytes)
    (h : encodeMeta t = .ok bs) :
    ∃ body, bs = [2, 0, 0, 0, 0x55, 0x4C, 4, 0] ++ le32 t.igl ++ body ∧ body.length = t.igl := by
  obtain ⟨body, h1, _, h3, _⟩ := group_length_exact t hs bs h
  exact ⟨body, h1, by rw [h3, hi]⟩

/-! ### attribute operations keep the invariant -/

theorem calcLen_update (t : Table) : calcLen (update t) = calcLen t := rfl

theorem update_inv (t : Table) : Inv (update t) := by
  simp only [Inv, calcLen_update]; rfl

theorem req_err (a : Action) (s : Bytes) (e : AErr) (h : (applyRequired a s).2 = some e) :
    (applyRequired a s).1 = s := by
  cases a <;> simp_all [applyRequired] <;> (split <;> simp_all)

theorem opt_err (a : Action) (o : Option Bytes) (e : AErr) (h : (applyOptional a o).2 = some e) :
    (applyOptional a o).1 = o := by
  cases a <;> simp_all [applyOptional] <;> (repeat' split) <;> simp_all

theorem finish_err (p : Table × Option AErr) (e : AErr) (h : (finish p).2 = some e) :
    (finish p).1 = p.1 ∧ p.2 = some e := by
  unfold finish at *; split <;> simp_all

theorem finish_ok (p : Table × Option AErr) (h : (finish p).2 = none) : Inv (finish p).1 := by
  unfold finish at *; split
  · exact update_inv _
  · simp_all

theorem set_ts (t : Table) : { t with ts := t.ts } = t := rfl

/-- a failing operation leaves the table as it was (no partial update) -/
theorem apply_err_unchanged (t : Table) (s : Sel) (a : Action) (e : AErr) :
    (apply t s a).2 = some e → (apply t s a).1 = t := by
  unfold apply
  cases s with
  | nested => intro _; rfl
  | tag tg =>
    simp only
    repeat' split
    all_goals intro h
    all_goals first
      | rfl
      | (obtain ⟨h1, h2⟩ := finish_err _ e h; rw [h1]; have := req_err _ _ _ h2; simp only at this ⊢; rw [this])
      | (obtain ⟨h1, h2⟩ := finish_err _ e h; rw [h1]; have := opt_err _ _ _ h2; simp only at this ⊢; rw [this])
      | (obtain ⟨_, h2⟩ := finish_err _ e h; simp at h2)

/-- a successful operation ends with `update_information_group_length` -/
theorem apply_ok_inv (t : Table) (s : Sel) (a : Action) :
    (apply t s a).2 = none → Inv (apply t s a).1 := by
  unfold apply
  cases s with
  | nested => intro h; simp at h
  | tag tg =>
    simp only
    repeat' split
    all_goals intro h
    all_goals first
      | exact finish_ok _ h
      | simp at h

/-- **Every operation preserves the invariant** (recorded group length = computed one) -/
theorem ops_preserve (t : Table) (hi : Inv t) (s : Sel) (a : Action) : Inv (apply t s a).1 := by
  cases h : (apply t s a).2 with
  | none => exact apply_ok_inv t s a h
  | some e => rw [apply_err_unchanged t s a e h]; exact hi

/-- … hence after any history of operations -/
theorem history_preserves (t : Table) (hi : Inv t) (ops : List (Sel × Action)) :
    Inv (applyAll t ops) := by
  induction ops generalizing t with
  | nil => exact hi
  | cons op ops ih => exact ih _ (ops_preserve t hi op.1 op.2)

/-- tables made by the builder (and therefore by the reader) satisfy the invariant -/
theorem build_inv (d : Defaults) (b : Builder) (t : Table) (h : b.build d = some t) : Inv t := by
  unfold Builder.build at h
  split at h
  · cases h
  · injection h with h; rw [← h]; exact update_inv _

/-! ### reading the written group back -/

/-- what the reader does with one known element -/
def setB (b : Builder) (x : MElem) : Builder :=
  if x.e = 1 then { b with ver := some (x.body.getD 0 0, x.body.getD 1 0) } else setField b x.e x.body

theorem loop_step (x : MElem) (hx : Ok1 x) (h1 : x.e = 1 → x.body.length = 2) (bs : Bytes)
    (henc : encElem x = .ok bs) (f total gl : Nat) (b : Builder) (r : Bytes)
    (hlt : total < gl) (hsum : total + bs.length < U32) :
    loop (f + 1) total gl b (bs ++ r) = loop f (total + bs.length) gl (setB b x) r := by
  obtain ⟨hd, e1, e2, _, e4⟩ := encElem_shape x hx.1 hx.2.1
    (by have := hx.2.2; simp only [U32]; omega) bs henc
  have hev : x.body.length % 2 = 0 := padded_even _ _
  have hdec := e4 (x.body ++ r)
  have hbs : bs ++ r = hd ++ (x.body ++ r) := by rw [e1, List.append_assoc]
  have hlen : bs.length = hdrSize x.vr + x.body.length := by rw [e1, List.length_append, e2]
  have hund : x.body.length ≠ undefinedLen := by simp only [undefinedLen]; omega
  have htag : ((⟨2, x.e⟩ : Tag) = ⟨2, 1⟩) ↔ x.e = 1 := by simp
  have hsat : satAdd (satAdd total (hdrSize x.vr)) x.body.length = total + bs.length := by
    have hh : hdrSize x.vr ≤ 12 := by unfold hdrSize; split <;> omega
    unfold satAdd
    have a1 : total + hdrSize x.vr < U32 := by omega
    rw [if_pos a1]
    have a2 : total + hdrSize x.vr + x.body.length < U32 := by omega
    rw [if_pos a2]; omega
  rw [loop, if_pos hlt, hbs, hdec]
  simp only [hund, if_false, htag, takeN_append, hsat]
  by_cases he : x.e = 1
  · have := h1 he
    simp [he, this, setB]
  · simp [he, setB]

def Known (x : MElem) : Prop :=
  Ok1 x ∧ (x.e = 1 → x.body.length = 2)

theorem loop_elems (xs : List MElem) (hx : ∀ x ∈ xs, Known x) (bs : Bytes) (henc : encAll xs = .ok bs)
    (f total gl : Nat) (b : Builder) (r : Bytes) (hle : total + bs.length ≤ gl) (hgl : gl < U32) :
    loop (f + xs.length) total gl b (bs ++ r) = loop f (total + bs.length) gl (xs.foldl setB b) r := by
  induction xs generalizing bs total b with
  | nil => simp [encAll] at henc; subst henc; simp
  | cons x xs ih =>
    simp only [encAll] at henc
    split at henc
    · cases henc
    · rename_i b1 hb1
      split at henc
      · cases henc
      · rename_i bs' hbs'
        injection henc with henc; subst henc
        have hk := hx x (by simp)
        obtain ⟨hd, e1, e2, _, _⟩ := encElem_shape x hk.1.1 hk.1.2.1
          (by have := hk.1.2.2; simp only [U32]; omega) b1 hb1
        have hpos : 8 ≤ b1.length := by
          rw [e1, List.length_append, e2]; unfold hdrSize; split <;> omega
        simp only [List.length_append] at hle
        rw [List.length_cons, ← Nat.add_assoc, List.append_assoc,
          loop_step x hk.1 hk.2 b1 hb1 (f + xs.length) total gl b (bs' ++ r) (by omega) (by omega)]
        rw [ih (fun y hy => hx y (List.mem_cons_of_mem _ hy)) bs' hbs' (total + b1.length)
          (setB b x) (by omega)]
        simp [List.length_append, Nat.add_assoc]

/-- the table with its strings padded the way the builder setters (`ui_padded`, `txt_padded`) do -/
def padTable (t : Table) : Table :=
  { t with cls := uiPadded t.cls, inst := uiPadded t.inst, ts := uiPadded t.ts, impl := uiPadded t.impl,
           ivn := t.ivn.map txtPadded, src := t.src.map txtPadded, snd := t.snd.map txtPadded,
           rcv := t.rcv.map txtPadded, pic := t.pic.map uiPadded, priv := t.priv.map (padded 0) }

theorem padded_pair (p a b : Nat) : padded p [a, b] = [a, b] := by simp [padded]

theorem fold_opt (e : Nat) (vr : VR) (o : Option Bytes) (b : Builder) :
    (optElem e vr o).foldl setB b = match o with | none => b | some s => setB b ⟨e, vr, s⟩ := by
  cases o <;> rfl

/-- the builder state after the reader has consumed all elements of a written table -/
theorem fold_elems (t : Table) (g : Option Nat) :
    (elems t).foldl setB { gl := g } =
      { gl := g, ver := some t.ver, cls := some (uiPadded t.cls), inst := some (uiPadded t.inst),
        ts := some (uiPadded t.ts), impl := some (uiPadded t.impl), ivn := t.ivn.map txtPadded,
        src := t.src.map txtPadded, snd := t.snd.map txtPadded, rcv := t.rcv.map txtPadded,
        pic := t.pic.map uiPadded, priv := t.priv.map (padded 0) } := by
  simp only [elems, List.foldl_append, fold_opt, List.foldl_cons, List.foldl_nil]
  cases t.ivn <;> cases t.src <;> cases t.snd <;> cases t.rcv <;> cases t.pic <;> cases t.priv <;>
    simp [setB, setField, MElem.body, padByte, uiPadded, txtPadded, padded_idem, padded_pair]

theorem sz_ge (xs : List MElem) : xs.length ≤ sz xs := by
  induction xs with
  | nil => simp [sz]
  | cons x xs ih =>
    rw [sz_cons]; simp only [List.length_cons, size, hdrSize]; split <;> omega

theorem elems_known (t : Table) (hs : Small t) : ∀ x ∈ elems t, Known x := by
  intro x hx
  refine ⟨elems_ok1 t hs x hx, ?_⟩
  simp only [elems, optElem, List.mem_append, List.mem_cons, List.mem_nil_iff, or_false] at hx
  rcases hx with ((((((hx | hx | hx | hx | hx) | hx) | hx) | hx) | hx) | hx) | hx
  all_goals first
    | (subst hx; simp [MElem.body, padded])
    | (split at hx <;> simp at hx; subst hx; simp)

theorem dicomLen_padded (p : Nat) (s : Bytes) (h : s.length < 2147483648) :
    dicomLen (padded p s) = dicomLen s := by
  simp only [dicomLen, padded_length]
  rw [evenLen_small (by simp only [U32]; omega), evenLen_small (by simp only [U32]; omega)]; omega

theorem calcLen_padTable (t : Table) (hs : Small t) : calcLen (padTable t) = calcLen t := by
  have hm := hs
  unfold Small elems at hm
  have o : ∀ (e : Nat) (vr : VR) (o : Option Bytes) (p : Nat), (∀ x ∈ optElem e vr o, x.raw.length < 2147483648) →
      optLen (o.map (padded p)) = optLen o := by
    intro e vr o p hb
    cases o with
    | none => rfl
    | some s => simp only [Option.map, optLen, dicomLen_padded p s (hb ⟨e, vr, s⟩ (by simp [optElem]))]
  have hp : privLen (t.priv.map (padded 0)) = privLen t.priv := by
    cases hpv : t.priv with
    | none => rfl
    | some v =>
      have := hm ⟨0x102, .OB, v⟩ (by simp [optElem, hpv])
      have := dicomLen_padded 0 v this
      simp only [dicomLen] at this
      simp only [Option.map, privLen, this]
  simp only [calcLen, padTable, uiPadded, txtPadded, hp,
    dicomLen_padded 0 t.cls (hm ⟨2, .UI, t.cls⟩ (by simp)),
    dicomLen_padded 0 t.inst (hm ⟨3, .UI, t.inst⟩ (by simp)),
    dicomLen_padded 0 t.ts (hm ⟨0x10, .UI, t.ts⟩ (by simp)),
    dicomLen_padded 0 t.impl (hm ⟨0x12, .UI, t.impl⟩ (by simp)),
    o 0x13 .SH t.ivn 0x20 (fun x hx => hm x (by simp [hx])),
    o 0x16 .AE t.src 0x20 (fun x hx => hm x (by simp [hx])),
    o 0x17 .AE t.snd 0x20 (fun x hx => hm x (by simp [hx])),
    o 0x18 .AE t.rcv 0x20 (fun x hx => hm x (by simp [hx])),
    o 0x100 .UI t.pic 0 (fun x hx => hm x (by simp [hx]))]

theorem trimEnd_padded (p : Nat) (hp : isTrim p = true) (s : Bytes) : trimEnd (padded p s) = trimEnd s := by
  unfold padded; split
  · simp [trimEnd, hp]
  · rfl

theorem stripPad_padded (v : Bytes) : stripPad (padded 0 v) = stripPad v := by
  unfold padded
  split
  · rename_i h
    have h1 : stripPad v = v := by unfold stripPad; rw [if_neg (by omega)]
    rw [h1]; unfold stripPad
    rw [if_pos ⟨by simp; omega, by simp⟩]; simp
  · rfl

/-- the padded table equals the original under `PartialEq for FileMetaTable` -/
theorem tableEq_padTable (t : Table) : tableEq (padTable t) t = true := by
  have h0 : isTrim 0 = true := by decide
  have h20 : isTrim 0x20 = true := by decide
  have om : ∀ (p : Nat) (hp : isTrim p = true) (o : Option Bytes),
      (o.map (padded p)).map trimEnd = o.map trimEnd := by
    intro p hp o; cases o <;> simp [trimEnd_padded p hp]
  simp only [tableEq, padTable, uiPadded, txtPadded, trimEnd_padded 0 h0, om 0 h0, om 0x20 h20,
    beq_self_eq_true, Bool.and_self, Bool.true_and]
  cases t.priv with
  | none => rfl
  | some v => simp [bytesEqNoPad, stripPad_padded]

def zeroTable : Table :=
  { igl := 0, ver := (0, 0), cls := [], inst := [], ts := [], impl := [], ivn := none
    src := none, snd := none, rcv := none, pic := none, priv := none }

/-- what `build` assembles from the reader's builder state -/
def rebuilt (t : Table) : Table :=
  { igl := 0, ver := t.ver, cls := uiPadded t.cls, inst := uiPadded t.inst, ts := uiPadded t.ts
    impl := uiPadded t.impl, ivn := t.ivn.map txtPadded, src := t.src.map txtPadded
    snd := t.snd.map txtPadded, rcv := t.rcv.map txtPadded, pic := t.pic.map uiPadded
    priv := t.priv.map (padded 0) }

theorem decode_gl (r : Bytes) :
    decodeHeader .explicitLE noDict ([2, 0, 0, 0, 0x55, 0x4C, 4, 0] ++ r) = some (⟨⟨2, 0⟩, .UL, 4⟩, 8, r) := by
  have hx : Ok1 ⟨0, .UL, le32 0⟩ := ⟨by simp [MetaVR], by simp, by simp⟩
  have hb := glElem_bytes zeroTable
  simp only [glElem, zeroTable] at hb
  obtain ⟨hd, e1, _, _, e4⟩ := encElem_shape ⟨0, .UL, le32 0⟩ hx.1 hx.2.1 (by simp [U32]) _ hb
  have hbody : (⟨0, .UL, le32 0⟩ : MElem).body = le32 0 := by simp [MElem.body, padded]
  rw [hbody] at e1 e4
  have : hd = [2, 0, 0, 0, 0x55, 0x4C, 4, 0] := (List.append_cancel_right e1).symm
  rw [this] at e4
  have := e4 r
  simpa [hdrSize] using this

/-- **Round trip of the written group**: reading `DICM ++ written ++ rest` yields the table with its
strings padded — equal to the original under the table's own equality — and leaves `rest`. -/
theorem meta_rt (d : Defaults) (t : Table) (hi : Inv t) (hs : Small t) (bs : Bytes)
    (h : encodeMeta t = .ok bs) (r : Bytes) :
    readMeta d (magic ++ bs ++ r) = .ok (padTable t, r) ∧ tableEq (padTable t) t = true := by
  refine ⟨?_, tableEq_padTable t⟩
  obtain ⟨body, h1, h2, h3, _⟩ := group_length_exact t hs bs h
  have higl : t.igl < 4294967296 := by
    rw [hi]; unfold calcLen; exact Nat.mod_lt _ (by simp [U32])
  have hlen : body.length = t.igl := by rw [h3, hi]
  obtain ⟨hsz, _⟩ := encAll_facts (elems t) (elems_ok1 t hs) body h2
  have hge := sz_ge (elems t)
  -- fuel bookkeeping: the loop gets `(body ++ r).length + 1`, one unit per element is enough
  obtain ⟨k, hk⟩ : ∃ k, (body ++ r).length + 1 = (k + 1) + (elems t).length :=
    ⟨(body ++ r).length - (elems t).length, by simp only [List.length_append]; omega⟩
  have hloop := loop_elems (elems t) (elems_known t hs) body h2 (k + 1) 0 t.igl { gl := some t.igl } r
    (by omega) higl
  rw [← hk] at hloop
  unfold readMeta
  have e0 : magic ++ bs ++ r = magic ++ (bs ++ r) := List.append_assoc _ _ _
  have hm4 : magic.length = 4 := rfl
  rw [e0, ← hm4, takeN_append]
  simp only [ne_eq, not_true_eq_false, if_false]
  rw [h1, List.append_assoc, List.append_assoc, decode_gl]
  dsimp only
  rw [rdLe32_le32 _ higl]
  simp only [hloop, Nat.zero_add, hlen]
  rw [loop, if_neg (Nat.lt_irrefl _)]
  simp only [fold_elems, Builder.build]
  have hc := calcLen_padTable t hs
  have : update (rebuilt t) = padTable t := by
    have e : calcLen (rebuilt t) = calcLen (padTable t) := rfl
    have hi' : t.igl = calcLen t := hi
    unfold update; rw [e, hc, ← hi']; rfl
  simp only [rebuilt] at this
  simp [hm4, this]

/-! ### preamble -/

theorem magic_len : magic.length = 4 := rfl

theorem take4_len {f : Bytes} (hf : f.take 4 = magic) : 4 ≤ f.length := by
  have := congrArg List.length hf
  simp only [List.length_take, magic_len] at this; omega

/-- a window of the first buffer fill is the same window of the source -/
theorem window (f : Bytes) (cap n : Nat) (h : n + 4 ≤ cap) :
    ((f.take cap).drop n).take 4 = (f.drop n).take 4 := by
  rw [List.drop_take, List.take_take]
  have : min 4 (cap - n) = 4 := by omega
  rw [this]

theorem window0 (f : Bytes) (cap : Nat) (h : 4 ≤ cap) : (f.take cap).take 4 = f.take 4 := by
  rw [List.take_take]; have : min 4 cap = 4 := by omega
  rw [this]

/-- the start of a written file without preamble: `DICM`, then the tag (0002,0000) -/
def StartsLikeMeta (f : Bytes) : Prop := f.take 4 = magic ∧ (f.drop 4).take 4 = glTag

theorem startsLikeMeta_len {f : Bytes} (h : StartsLikeMeta f) : 8 ≤ f.length := by
  have := congrArg List.length h.2
  simp only [List.length_take, List.length_drop, glTag, List.length_cons, List.length_nil] at this; omega

/-- **With the preamble**: whatever the 128 preamble bytes are, by path or from a byte source, the
preamble is detected and skipped (first buffer fill of at least 136 bytes). -/
theorem preamble_skipped (d : Defaults) (byPath : Bool) (cap : Nat) (hcap : 136 ≤ cap)
    (P f : Bytes) (hP : P.length = 128) (hf : StartsLikeMeta f) :
    openMeta d byPath cap (P ++ f) = readMeta d f := by
  have h8 := startsLikeMeta_len hf
  have dropP : ∀ k, (P ++ f).drop (128 + k) = f.drop k := by
    intro k; rw [← hP, ← List.drop_drop, List.drop_left]
  have h128 : (((P ++ f).take cap).drop 128).take 4 = magic := by
    rw [window _ _ _ (by omega)]; have := dropP 0; simp only [Nat.add_zero] at this
    rw [this, List.drop_zero, hf.1]
  have h132 : (((P ++ f).take cap).drop 132).take 4 = glTag := by
    rw [window _ _ _ (by omega), show 132 = 128 + 4 from rfl, dropP 4, hf.2]
  have hlen : ((P ++ f).take cap).length ≥ 136 := by
    simp only [List.length_take, List.length_append, hP]; omega
  unfold openMeta detectPreamble
  rw [if_neg (by omega), if_pos ⟨by omega, h128⟩, if_neg (by
    intro ⟨_, hn⟩; exact hn ⟨hlen, h132⟩)]
  simp only [true_or, if_true]
  rw [← hP, takeN_append]

/-- **Without the preamble**: the file is read from its first byte — also when bytes 128..132 of the
file itself spell `DICM` (inside a value), unless they are even followed by the group length tag. -/
theorem no_preamble_read (d : Defaults) (byPath : Bool) (cap : Nat) (hcap : 136 ≤ cap)
    (f : Bytes) (hf : StartsLikeMeta f)
    (hamb : ¬ (136 ≤ f.length ∧ (f.drop 128).take 4 = magic ∧ (f.drop 132).take 4 = glTag)) :
    openMeta d byPath cap f = readMeta d f := by
  have h8 := startsLikeMeta_len hf
  have hlen4 : ¬ (f.take cap).length < 4 := by simp only [List.length_take]; omega
  have hstart : (f.take cap).take 4 = magic ∧ ((f.take cap).drop 4).take 4 = glTag :=
    ⟨by rw [window0 _ _ (by omega), hf.1], by rw [window _ _ _ (by omega), hf.2]⟩
  have hnever : detectPreamble (f.take cap) = some .never := by
    unfold detectPreamble
    rw [if_neg hlen4]
    by_cases h128 : (f.take cap).length ≥ 132 ∧ ((f.take cap).drop 128).take 4 = magic
    · rw [if_pos h128, if_pos]
      refine ⟨hstart, ?_⟩
      intro ⟨h1, h2⟩
      apply hamb
      simp only [List.length_take] at h1
      rw [window _ _ _ (by omega)] at h2
      have h3 := h128.2
      rw [window _ _ _ (by omega)] at h3
      exact ⟨by omega, h3, h2⟩
    · rw [if_neg h128, if_pos hstart.1]
  unfold openMeta
  rw [hnever]
  simp

theorem written_starts_like_meta (t : Table) (hs : Small t) (mb : Bytes) (hw : encodeMeta t = .ok mb)
    (ds : Bytes) : StartsLikeMeta (magic ++ mb ++ ds) := by
  obtain ⟨body, h1, _⟩ := group_length_exact t hs mb hw
  subst h1
  exact ⟨by simp [magic], by simp [magic, glTag]⟩

/-- **Preamble irrelevant**: a complete file `preamble ++ DICM ++ meta group ++ data set` and the
same file without its preamble give the same table and the same data set bytes, by path and from a
byte source alike. (Excluded: a file without preamble that has `DICM` *and* the group length tag at
offset 128 — it is indistinguishable from a file with a preamble.) -/
theorem preamble_irrelevant (d : Defaults) (cap : Nat) (hcap : 136 ≤ cap) (t : Table) (hi : Inv t)
    (hs : Small t) (mb : Bytes) (hw : encodeMeta t = .ok mb) (P ds : Bytes) (hP : P.length = 128)
    (hamb : ¬ (136 ≤ (magic ++ mb ++ ds).length ∧ ((magic ++ mb ++ ds).drop 128).take 4 = magic ∧
               ((magic ++ mb ++ ds).drop 132).take 4 = glTag))
    (byPath : Bool) :
    openMeta d byPath cap (P ++ (magic ++ mb ++ ds)) = .ok (padTable t, ds) ∧
    openMeta d byPath cap (magic ++ mb ++ ds) = .ok (padTable t, ds) := by
  have hf := written_starts_like_meta t hs mb hw ds
  have hr := (meta_rt d t hi hs mb hw ds).1
  exact ⟨by rw [preamble_skipped d byPath cap hcap P _ hP hf, hr],
         by rw [no_preamble_read d byPath cap hcap _ hf hamb, hr]⟩

set_option maxRecDepth 8000 in
/-- the code as found took a file without preamble whose bytes 128..132 are `DICM` for a file with
a preamble (executed on the implementation as class `dicm-at-128-without-preamble`); the repaired
detection reads it from the start -/
theorem ambiguous_old_vs_repaired :
    let f := magic ++ glTag ++ List.replicate 120 0x41 ++ magic ++ [0x41, 0x42, 0, 0]
    detectPreambleOld f = some .always ∧ detectPreamble f = some .never := by decide

/-! ### media storage UIDs filled in from the data set -/

/-- the repaired inference keeps the invariant … -/
theorem inferSop_inv (t : Table) (c i : Option Bytes) : Inv (inferSop t c i) := update_inv _

/-- … the code as found did not: the class UID is filled in, the recorded length stays -/
theorem inferSopOld_breaks_inv :
    let t := update { zeroTable with ts := [0x31] }
    Inv t ∧ ¬ Inv (inferSopOld t (some [0x31, 0x2e, 0x32]) none) := by decide

/-! ### non-vacuity -/

set_option maxRecDepth 100000 in
/-- a concrete table (odd-length UIDs, one optional field, odd private information) satisfies the
hypotheses of the theorems; its group is 104 bytes after the group length element, and it reads back -/
example :
    let t : Table := update {
      igl := 0
      ver := (0, 1)
      cls := [0x31, 0x2e, 0x32]
      inst := [0x31, 0x2e, 0x33, 0x34]
      ts := [0x31, 0x2e, 0x32, 0x2e, 0x38]
      impl := [0x32, 0x2e, 0x35]
      ivn := none
      src := some [0x41, 0x45, 0x31]
      snd := none
      rcv := none
      pic := some [0x31, 0x2e, 0x39]
      priv := some [1, 2, 3] }
    t.igl = 104 ∧ (encodeMeta t).toOption.map List.length = some 116 ∧
    (match encodeMeta t with
     | .ok bs => (match readMeta ⟨[], []⟩ (magic ++ bs ++ [7, 7]) with
        | .ok (t', r) => tableEq t' t && r == [7, 7]
        | .error _ => false)
     | .error _ => false) = true := by decide
