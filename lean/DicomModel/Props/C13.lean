import DicomModel.Model.Ops
/-
C13 — attribute operations follow their documented semantics.

`apply` is the code model of `InMemDicomObject::apply` (navigation, creation of sequences and items,
`apply_leaf` with its remove-then-reinsert pattern); `applySpec` the reference semantics written from the
documentation of `AttributeAction` over the map interface `get` / `set` / `erase`.
* map laws of the sorted attribute map (`get_set_same`, `get_set_other`, `set_set`, `set_erase`, …)
* `apply_refines_spec`   — all actions, selectors of any depth: `apply = applySpec` on well-formed objects
* `apply_wf`, `reachable_writable` — well-formedness (ascending tags, sequences under VR SQ, pixel
  sequences under OB, recursively) is invariant under every operation, hence under every history
* `frame`, `frame_items` — attributes (and sibling items) off the selector path are untouched
* `nonconstructive_missing_fails_clean`, `nonconstructive_missing_fails` — a non-constructive action on
  a missing path fails and changes nothing
* `constructive_creates`, `constructive_appends_item`, `constructive_creates_leaf` — constructive
  actions create the missing sequence, the next item, the attribute
* `push_creates_unsuitable_value` (witness: the shipped `Push*` gives a missing attribute a value in
  the kind of the pushed number, which need not suit the VR — known finding), and for the proposed
  repair `push_refines_spec_repaired`, `push_creates_or_fails_clean_repaired`, `push_repaired_on_witness`
That a well-formed object of type-suitable values is written and read back equal in every writable
transfer syntax is C01's theorem; here it is executed on every final object by the correspondence run.
-/
namespace Dicom.Ops
set_option linter.unusedSimpArgs false

/-! ### map laws of the attribute map -/

theorem get_set_same (o : Obj) (k : Nat) (vr : VR) (v : Val) : (o.set k vr v).get k = some (vr, v) := by
  fun_induction Obj.set o k vr v <;> simp_all [Obj.get] <;> omega

theorem get_set_other (o : Obj) (k k' : Nat) (vr : VR) (v : Val) (h : k ≠ k') :
    (o.set k' vr v).get k = o.get k := by
  fun_induction Obj.set o k' vr v <;> simp_all [Obj.get] <;> (repeat' split) <;> first | rfl | omega | simp_all

theorem set_set (o : Obj) (k : Nat) (a c : VR) (b d : Val) : (o.set k a b).set k c d = o.set k c d := by
  fun_induction Obj.set o k a b <;> simp_all [Obj.set] <;> (split <;> first | rfl | omega)

theorem set_get_self (o : Obj) (k : Nat) (vr : VR) (v : Val) (h : o.get k = some (vr, v)) :
    o.set k vr v = o := by
  fun_induction Obj.get o k <;> simp_all [Obj.set]
  all_goals (repeat' split) <;> first | rfl | omega | simp_all

theorem erase_of_get_none (o : Obj) (k : Nat) (h : o.get k = none) : o.erase k = o := by
  fun_induction Obj.get o k <;> simp_all [Obj.erase]

/-! ### well-formedness and the map -/

theorem wfFrom_mono (o : Obj) (lo lo' : Nat) (h : o.wfFrom lo = true) (hl : lo' ≤ lo) : o.wfFrom lo' = true := by
  cases o with
  | nil => simp [Obj.wfFrom]
  | cons t vr v r => simp_all [Obj.wfFrom]; omega

theorem get_none_of_lt (o : Obj) (lo k : Nat) (h : o.wfFrom lo = true) (hk : k < lo) : o.get k = none := by
  cases o with
  | nil => rfl
  | cons t vr v r =>
    simp only [Obj.wfFrom, Bool.and_eq_true, decide_eq_true_eq] at h
    simp only [Obj.get]
    rw [if_neg (by omega), if_pos (by omega)]

theorem wfFrom_set : ∀ (o : Obj) (k : Nat) (vr : VR) (v : Val) (lo : Nat), o.wfFrom lo = true →
    lo ≤ k → (vrOk vr v = true ∧ v.wf = true) → (o.set k vr v).wfFrom lo = true
  | .nil, k, vr, v, lo, _, hk, hv => by simp [Obj.set, Obj.wfFrom, hk, hv]
  | .cons t vr' v' r, k, vr, v, lo, h, hk, hv => by
    simp only [Obj.wfFrom, Bool.and_eq_true, decide_eq_true_eq] at h
    simp only [Obj.set]
    split
    · simp only [Obj.wfFrom, Bool.and_eq_true, decide_eq_true_eq]
      exact ⟨⟨hk, hv⟩, ⟨by omega, h.1.2⟩, h.2⟩
    · split
      · rename_i _ heq; subst heq
        simp only [Obj.wfFrom, Bool.and_eq_true, decide_eq_true_eq]
        exact ⟨⟨hk, hv⟩, h.2⟩
      · simp only [Obj.wfFrom, Bool.and_eq_true, decide_eq_true_eq]
        exact ⟨h.1, wfFrom_set r k vr v (t + 1) h.2 (by omega) hv⟩

theorem wfFrom_erase : ∀ (o : Obj) (k : Nat) (lo : Nat), o.wfFrom lo = true → (o.erase k).wfFrom lo = true
  | .nil, _, _, _ => by simp [Obj.erase, Obj.wfFrom]
  | .cons t vr v r, k, lo, h => by
    simp only [Obj.wfFrom, Bool.and_eq_true, decide_eq_true_eq] at h
    simp only [Obj.erase]
    split
    · exact wfFrom_mono r (t + 1) lo h.2 (by omega)
    · split
      · simp only [Obj.wfFrom, Bool.and_eq_true, decide_eq_true_eq]; exact h
      · simp only [Obj.wfFrom, Bool.and_eq_true, decide_eq_true_eq]
        exact ⟨h.1, wfFrom_erase r k (t + 1) h.2⟩

theorem get_wf : ∀ (o : Obj) (k : Nat) (lo : Nat), o.wfFrom lo = true → ∀ (vr : VR) (v : Val),
    o.get k = some (vr, v) → (vrOk vr v = true ∧ v.wf = true)
  | .nil, _, _, _, _, _, hg => by simp [Obj.get] at hg
  | .cons t vr' v' r, k, lo, h, vr, v, hg => by
    simp only [Obj.wfFrom, Bool.and_eq_true] at h
    simp only [Obj.get] at hg
    split at hg
    · simp at hg; rw [← hg.1, ← hg.2]; exact h.1.2
    · split at hg
      · simp at hg
      · exact get_wf r k (t + 1) h.2 vr v hg

theorem set_erase : ∀ (o : Obj) (k : Nat) (vr : VR) (v : Val) (lo : Nat), o.wfFrom lo = true →
    (o.erase k).set k vr v = o.set k vr v
  | .nil, _, _, _, _, _ => rfl
  | .cons t vr' v' r, k, vr, v, lo, h => by
    simp only [Obj.wfFrom, Bool.and_eq_true, decide_eq_true_eq] at h
    simp only [Obj.erase]
    split
    · rename_i heq; subst heq
      simp only [Obj.set, Nat.lt_irrefl, if_false, if_true]
      -- all tags of `r` are above `k`
      cases r with
      | nil => rfl
      | cons t2 vr2 v2 r2 =>
        simp only [Obj.wfFrom, Bool.and_eq_true, decide_eq_true_eq] at h
        simp only [Obj.set]; rw [if_pos (by omega)]
    · split
      · rfl
      · rename_i hne hlt
        simp only [Obj.set]
        rw [if_neg hlt, if_neg hne, set_erase r k vr v (t + 1) h.2, if_neg hlt, if_neg hne]

theorem get_erase_same : ∀ (o : Obj) (k : Nat) (lo : Nat), o.wfFrom lo = true → (o.erase k).get k = none
  | .nil, _, _, _ => rfl
  | .cons t vr v r, k, lo, h => by
    simp only [Obj.wfFrom, Bool.and_eq_true, decide_eq_true_eq] at h
    simp only [Obj.erase]
    split
    · rename_i heq; subst heq
      exact get_none_of_lt r (k + 1) k h.2 (by omega)
    · split
      · rename_i hne hlt; simp only [Obj.get]; rw [if_neg hne, if_pos hlt]
      · rename_i hne hlt; simp only [Obj.get]; rw [if_neg hne, if_neg hlt]
        exact get_erase_same r k (t + 1) h.2

theorem get_erase_other : ∀ (o : Obj) (k k' : Nat) (lo : Nat), o.wfFrom lo = true → k ≠ k' →
    (o.erase k').get k = o.get k
  | .nil, _, _, _, _, _ => rfl
  | .cons t vr v r, k, k', lo, h, hne => by
    simp only [Obj.wfFrom, Bool.and_eq_true, decide_eq_true_eq] at h
    simp only [Obj.erase]
    split
    · rename_i heq; subst heq
      simp only [Obj.get]; rw [if_neg hne]
      split
      · exact get_none_of_lt r (k' + 1) k h.2 (by omega)
      · rfl
    · split
      · rfl
      · simp only [Obj.get]
        split
        · rfl
        · split
          · rfl
          · exact get_erase_other r k k' (t + 1) h.2 hne

/-! ### the code does what the documentation says -/

theorem leaf_refines (dict : Nat → Option VR) (o : Obj) (hw : o.wf = true) (tag : Nat) (a : Action) :
    applyLeaf dict o tag a =
      (o.put? tag (leafSpec dict tag (o.get tag) a).1, (leafSpec dict tag (o.get tag) a).2) := by
  have hse := fun vr v => set_erase o tag vr v 0 hw
  have push : ∀ (ext : Prim → Option Prim) (fresh : Prim) (fb : VR),
      pushImpl dict o tag ext fresh fb =
        (o.put? tag (pushSpec dict tag (o.get tag) ext fresh fb).1,
         (pushSpec dict tag (o.get tag) ext fresh fb).2) := by
    intro ext fresh fb
    unfold pushImpl pushSpec
    cases hg : o.get tag with
    | none => simp [Obj.put?]
    | some c =>
      obtain ⟨vr, v⟩ := c
      cases v with
      | prim p =>
        cases he : ext p with
        | some p' => simp [Obj.put?, he, hse]
        | none => simp [Obj.put?, he, hse, set_get_self o tag vr _ hg]
      | seq items => simp [Obj.put?, hse, set_get_self o tag vr _ hg]
      | pix b f => simp [Obj.put?, hse, set_get_self o tag vr _ hg]
  cases a with
  | remove => simp [applyLeaf, leafSpec, resetSpec, Obj.put?]
  | empty =>
    cases hg : o.get tag with
    | none => simp [applyLeaf, leafSpec, resetSpec, Obj.put?, hg, erase_of_get_none o tag hg]
    | some c => simp [applyLeaf, leafSpec, resetSpec, Obj.put?, hg]
  | setVr nvr =>
    cases hg : o.get tag with
    | none => simp [applyLeaf, leafSpec, resetSpec, Obj.put?, hg]
    | some c => simp [applyLeaf, leafSpec, resetSpec, Obj.put?, hg, hse]
  | set p =>
    cases hg : o.get tag with
    | none => simp [applyLeaf, leafSpec, resetSpec, Obj.put?, hg, changeValue]
    | some c => simp [applyLeaf, leafSpec, resetSpec, Obj.put?, hg, changeValue]
  | setStr s =>
    cases hg : o.get tag with
    | none => simp [applyLeaf, leafSpec, resetSpec, Obj.put?, hg, changeValue]
    | some c => simp [applyLeaf, leafSpec, resetSpec, Obj.put?, hg, changeValue]
  | setIfMissing p =>
    cases hg : o.get tag with
    | none => simp [applyLeaf, leafSpec, resetSpec, Obj.put?, hg, changeValue]
    | some c =>
      obtain ⟨vr, v⟩ := c
      simp [applyLeaf, leafSpec, resetSpec, Obj.put?, hg, set_get_self o tag vr v hg]
  | setStrIfMissing s =>
    cases hg : o.get tag with
    | none => simp [applyLeaf, leafSpec, resetSpec, Obj.put?, hg, changeValue]
    | some c =>
      obtain ⟨vr, v⟩ := c
      simp [applyLeaf, leafSpec, resetSpec, Obj.put?, hg, set_get_self o tag vr v hg]
  | replace p =>
    cases hg : o.get tag with
    | none => simp [applyLeaf, leafSpec, resetSpec, Obj.put?, hg, erase_of_get_none o tag hg]
    | some c => simp [applyLeaf, leafSpec, resetSpec, Obj.put?, hg, changeValue]
  | replaceStr s =>
    cases hg : o.get tag with
    | none => simp [applyLeaf, leafSpec, resetSpec, Obj.put?, hg, erase_of_get_none o tag hg]
    | some c => simp [applyLeaf, leafSpec, resetSpec, Obj.put?, hg, changeValue]
  | pushStr s =>
    simp only [applyLeaf, leafSpec, push]
  | pushNum n =>
    simp only [applyLeaf, leafSpec, push]
  | truncate n =>
    cases hg : o.get tag with
    | none => simp [applyLeaf, leafSpec, resetSpec, Obj.put?, hg, erase_of_get_none o tag hg]
    | some c => simp [applyLeaf, leafSpec, resetSpec, Obj.put?, hg]

theorem items_get_wf : ∀ (items : Items) (i : Nat) (it : Obj), items.wf = true → items.get? i = some it →
    it.wf = true
  | .nil, _, _, _, h => by simp [Items.get?] at h
  | .cons o r, 0, it, hw, h => by
    simp only [Items.wf, Bool.and_eq_true] at hw
    simp [Items.get?] at h; rw [← h]; exact hw.1
  | .cons o r, i + 1, it, hw, h => by
    simp only [Items.wf, Bool.and_eq_true] at hw
    exact items_get_wf r i it hw.2 (by simpa [Items.get?] using h)

theorem items_setAt_wf : ∀ (items : Items) (i : Nat) (x : Obj), items.wf = true → x.wf = true →
    (items.setAt i x).wf = true
  | .nil, _, _, _, _ => by simp [Items.setAt, Items.wf]
  | .cons o r, 0, x, hw, hx => by
    simp only [Items.wf, Bool.and_eq_true] at hw
    simp only [Items.setAt, Items.wf, Bool.and_eq_true]; exact ⟨hx, hw.2⟩
  | .cons o r, i + 1, x, hw, hx => by
    simp only [Items.wf, Bool.and_eq_true] at hw
    simp only [Items.setAt, Items.wf, Bool.and_eq_true]
    exact ⟨hw.1, items_setAt_wf r i x hw.2 hx⟩

theorem items_push_wf : ∀ (items : Items) (x : Obj), items.wf = true → x.wf = true → (items.push x).wf = true
  | .nil, x, _, hx => by simp only [Items.push, Items.wf, Bool.and_eq_true]; exact ⟨hx, trivial⟩
  | .cons o r, x, hw, hx => by
    simp only [Items.wf, Bool.and_eq_true] at hw
    simp only [Items.push, Items.wf, Bool.and_eq_true]
    exact ⟨hw.1, items_push_wf r x hw.2 hx⟩

theorem items_take_wf : ∀ (items : Items) (n : Nat), items.wf = true → (items.take n).wf = true
  | .nil, _, _ => by simp [Items.take, Items.wf]
  | .cons o r, 0, _ => by simp [Items.take, Items.wf]
  | .cons o r, n + 1, hw => by
    simp only [Items.wf, Bool.and_eq_true] at hw
    simp only [Items.take, Items.wf, Bool.and_eq_true]
    exact ⟨hw.1, items_take_wf r n hw.2⟩

theorem nil_wf : Obj.nil.wf = true := by simp [Obj.wf, Obj.wfFrom]

/-- **Refinement**: on every well-formed object, for every action and every selector (any depth),
the code model computes exactly the documented semantics — same object, same success/failure. -/
theorem apply_refines_spec (dict : Nat → Option VR) : ∀ (steps : List (Nat × Nat)) (o : Obj),
    o.wf = true → ∀ (tag : Nat) (a : Action), apply dict o steps tag a = applySpec dict o steps tag a
  | [], o, hw, tag, a => by
    simp only [apply, applySpec]; exact leaf_refines dict o hw tag a
  | (t, i) :: rest, o, hw, tag, a => by
    have ihn := apply_refines_spec dict rest .nil nil_wf tag a
    simp only [apply, applySpec]
    cases hg : o.get t with
    | none =>
      by_cases hc : a.constructive = true
      · simp only [hc, if_true]
        by_cases hvr : (dict t).getD .UN ≠ .SQ ∧ (dict t).getD .UN ≠ .UN
        · simp [hvr]
        · simp only [hvr, if_false, get_set_same]
          by_cases hi : i = 0
          · subst hi
            simp [Items.length, hc, ihn, set_set, Items.push]
          · have : ¬ (Items.nil.length = i) := by simp [Items.length]; omega
            simp [this, hi, Items.get?]
      · simp [hc]
    | some c =>
      obtain ⟨vr, v⟩ := c
      cases v with
      | prim p => simp [hg]
      | pix b f => simp [hg]
      | seq items =>
        have hiw : items.wf = true := by
          have := (get_wf o t 0 hw vr (.seq items) hg).2
          simpa [Val.wf] using this
        simp only [hg]
        by_cases hc : items.length = i ∧ a.constructive = true
        · simp [hc, ihn]
        · simp only [hc, if_false]
          cases hit : items.get? i with
          | none => simp
          | some it =>
            have := apply_refines_spec dict rest it (items_get_wf items i it hiw hit) tag a
            simp [this]

/-! ### well-formedness is invariant: reachable objects stay well formed -/

/-- a value that may sit under the VR: sequence headers consistent, nested items well formed -/
def Good (vr : VR) (v : Val) : Prop := vrOk vr v = true ∧ v.wf = true

theorem good_prim (vr : VR) (p : Prim) : Good vr (.prim p) := ⟨rfl, rfl⟩

theorem good_truncate (n : Nat) (vr : VR) (v : Val) (h : Good vr v) :
    Good (vrAfterUpdate vr v) (v.truncate n) := by
  cases v with
  | prim p => exact good_prim _ _
  | seq items =>
    refine ⟨by simp [vrAfterUpdate, Val.truncate, vrOk], ?_⟩
    have := h.2; simp only [Val.truncate, Val.wf] at *; exact items_take_wf items n this
  | pix b f => exact ⟨by simp [vrAfterUpdate, Val.truncate, vrOk], by simp [Val.truncate, Val.wf]⟩

theorem good_newValue (vr : VR) (p : Prim) : Good vr (newValue vr p) := by
  unfold newValue; split
  · rename_i h; exact ⟨by simp [vrOk, h.1], by simp [Val.wf, Items.wf]⟩
  · exact good_prim _ _

theorem good_emptyValue (vr : VR) : Good vr (emptyValue vr) := by
  unfold emptyValue; split
  · rename_i h; exact ⟨by simp [vrOk, h], by simp [Val.wf, Items.wf]⟩
  · exact good_prim _ _

theorem good_setVr (nvr vr : VR) (v : Val) (h : Good vr v) : Good (setVrOf nvr vr v) v := by
  cases v with
  | prim p => exact good_prim _ _
  | seq items => exact h
  | pix b f => exact h

theorem leafSpec_good (dict : Nat → Option VR) (tag : Nat) (cur : Option (VR × Val))
    (hc : ∀ vr v, cur = some (vr, v) → Good vr v) (a : Action) :
    ∀ vr v, (leafSpec dict tag cur a).1 = some (vr, v) → Good vr v := by
  have hpush : ∀ ext fresh fb vr v, (pushSpec dict tag cur ext fresh fb).1 = some (vr, v) → Good vr v := by
    intro ext fresh fb vr v h
    unfold pushSpec at h
    cases cur with
    | none => simp at h; rw [← h.2]; exact good_prim _ _
    | some c =>
      obtain ⟨vr0, v0⟩ := c
      cases v0 with
      | prim p =>
        simp only at h
        split at h
        · simp at h; rw [← h.2]; exact good_prim _ _
        · simp at h; rw [← h.2]; exact good_prim _ _
      | seq items => simp at h; exact hc vr _ (by rw [h.1, h.2])
      | pix b f => simp at h; exact hc vr _ (by rw [h.1, h.2])
  have hreset : ∀ p vr v, resetSpec dict tag cur p = some (vr, v) → Good vr v := by
    intro p vr v h
    simp only [resetSpec] at h
    injection h with h; injection h with h1 h2
    rw [← h1, ← h2]; exact good_newValue _ _
  intro vr v h
  cases a with
  | remove => simp [leafSpec] at h
  | empty =>
    cases cur with
    | none => simp [leafSpec] at h
    | some c => simp [leafSpec] at h; rw [← h.1, ← h.2]; exact good_emptyValue _
  | setVr nvr =>
    cases cur with
    | none => simp [leafSpec] at h; rw [← h.1, ← h.2]; exact good_emptyValue _
    | some c => simp [leafSpec] at h; rw [← h.1, ← h.2]; exact good_setVr nvr c.1 c.2 (hc c.1 c.2 rfl)
  | set p => exact hreset p vr v (by simpa [leafSpec] using h)
  | setStr s => exact hreset _ vr v (by simpa [leafSpec] using h)
  | setIfMissing p =>
    simp only [leafSpec] at h
    split at h
    · exact hreset p vr v h
    · exact hc vr v h
  | setStrIfMissing s =>
    simp only [leafSpec] at h
    split at h
    · exact hreset _ vr v h
    · exact hc vr v h
  | replace p =>
    simp only [leafSpec] at h
    split at h
    · exact hreset p vr v h
    · exact hc vr v h
  | replaceStr s =>
    simp only [leafSpec] at h
    split at h
    · exact hreset _ vr v h
    · exact hc vr v h
  | pushStr s => exact hpush _ _ _ vr v (by simpa [leafSpec] using h)
  | pushNum n => exact hpush _ _ _ vr v (by simpa [leafSpec] using h)
  | truncate n =>
    cases cur with
    | none => simp [leafSpec] at h
    | some c =>
      simp [leafSpec] at h; rw [← h.1, ← h.2]
      exact good_truncate n c.1 c.2 (hc c.1 c.2 rfl)

theorem put?_wf (o : Obj) (hw : o.wf = true) (tag : Nat) (x : Option (VR × Val))
    (hx : ∀ vr v, x = some (vr, v) → Good vr v) : (o.put? tag x).wf = true := by
  cases x with
  | none => exact wfFrom_erase o tag 0 hw
  | some c => exact wfFrom_set o tag c.1 c.2 0 hw (Nat.zero_le _) (hx c.1 c.2 rfl)

theorem applySpec_wf (dict : Nat → Option VR) : ∀ (steps : List (Nat × Nat)) (o : Obj), o.wf = true →
    ∀ (tag : Nat) (a : Action), (applySpec dict o steps tag a).1.wf = true
  | [], o, hw, tag, a => by
    simp only [applySpec]
    exact put?_wf o hw tag _ (leafSpec_good dict tag (o.get tag) (fun vr v h => get_wf o tag 0 hw vr v h) a)
  | (t, i) :: rest, o, hw, tag, a => by
    have ihn := applySpec_wf dict rest .nil nil_wf tag a
    have hset : ∀ vr items, vrOk vr (.seq items) = true → Items.wf items = true →
        (o.set t vr (.seq items)).wf = true :=
      fun vr items h1 h => wfFrom_set o t vr _ 0 hw (Nat.zero_le _) ⟨h1, by simpa [Val.wf] using h⟩
    simp only [applySpec]
    cases hg : o.get t with
    | none =>
      simp only
      split
      · split
        · exact hw
        · split
          · exact hset _ _ rfl (by simp only [Items.wf, Bool.and_eq_true]; exact ⟨ihn, trivial⟩)
          · exact hset _ _ rfl (by simp [Items.wf])
      · exact hw
    | some c =>
      obtain ⟨vr, v⟩ := c
      cases v with
      | prim p => exact hw
      | pix b f => exact hw
      | seq items =>
        have hgd := get_wf o t 0 hw vr (.seq items) hg
        have hiw : items.wf = true := by simpa [Val.wf] using hgd.2
        have hvr : ∀ its, vrOk vr (.seq its) = true := fun its => by
          have := hgd.1; simpa [vrOk] using this
        simp only
        split
        · exact hset _ _ (hvr _) (items_push_wf items _ hiw ihn)
        · cases hit : items.get? i with
          | none => exact hw
          | some it =>
            have := applySpec_wf dict rest it (items_get_wf items i it hiw hit) tag a
            exact hset _ _ (hvr _) (items_setAt_wf items i _ hiw this)

/-- **Invariant**: every operation, successful or not, leads from a well-formed object to a
well-formed object … -/
theorem apply_wf (dict : Nat → Option VR) (o : Obj) (hw : o.wf = true) (steps : List (Nat × Nat))
    (tag : Nat) (a : Action) : (apply dict o steps tag a).1.wf = true := by
  rw [apply_refines_spec dict steps o hw]; exact applySpec_wf dict steps o hw tag a

/-- a history of operations -/
def applyAll (dict : Nat → Option VR) (o : Obj) : List (List (Nat × Nat) × Nat × Action) → Obj
  | [] => o
  | (steps, tag, a) :: ops => applyAll dict (apply dict o steps tag a).1 ops

/-- … hence every object reachable by any history (of any length) from a well-formed object is
well formed, and along the whole history the code agrees with the reference semantics. -/
theorem reachable_writable (dict : Nat → Option VR) (o : Obj) (hw : o.wf = true)
    (ops : List (List (Nat × Nat) × Nat × Action)) : (applyAll dict o ops).wf = true := by
  induction ops generalizing o with
  | nil => exact hw
  | cons op ops ih => exact ih _ (apply_wf dict o hw op.1 op.2.1 op.2.2)

/-! ### frame: what is off the selector path is untouched -/

theorem put?_get_other (o : Obj) (hw : o.wf = true) (tag k : Nat) (x : Option (VR × Val)) (h : k ≠ tag) :
    (o.put? tag x).get k = o.get k := by
  cases x with
  | none => exact get_erase_other o k tag 0 hw h
  | some c => exact get_set_other o k tag c.1 c.2 h

/-- the first tag of a selector -/
def headTag (steps : List (Nat × Nat)) (tag : Nat) : Nat :=
  match steps with
  | [] => tag
  | (t, _) :: _ => t

/-- **Frame (attributes)**: every attribute of the object other than the one the selector starts
with is exactly as before — whatever the action, the depth, and whether it succeeds. -/
theorem frame (dict : Nat → Option VR) (o : Obj) (hw : o.wf = true) (steps : List (Nat × Nat))
    (tag : Nat) (a : Action) (k : Nat) (hk : k ≠ headTag steps tag) :
    (apply dict o steps tag a).1.get k = o.get k := by
  rw [apply_refines_spec dict steps o hw]
  cases steps with
  | nil =>
    simp only [applySpec]; exact put?_get_other o hw tag k _ hk
  | cons s rest =>
    obtain ⟨t, i⟩ := s
    simp only [headTag] at hk
    simp only [applySpec]
    cases hg : o.get t with
    | none =>
      simp only
      repeat' split
      all_goals first | rfl | exact get_set_other o k t _ _ hk
    | some c =>
      obtain ⟨vr, v⟩ := c
      cases v with
      | prim p => rfl
      | pix b f => rfl
      | seq items =>
        simp only
        repeat' split
        all_goals first | rfl | exact get_set_other o k t _ _ hk

theorem setAt_get_other : ∀ (items : Items) (i j : Nat) (x : Obj), j ≠ i →
    (items.setAt i x).get? j = items.get? j
  | .nil, _, _, _, _ => rfl
  | .cons o r, 0, 0, _, h => absurd rfl h
  | .cons o r, 0, j + 1, _, _ => rfl
  | .cons o r, i + 1, 0, _, _ => rfl
  | .cons o r, i + 1, j + 1, x, h => by
    simp only [Items.setAt, Items.get?]; exact setAt_get_other r i j x (by omega)

theorem push_get_other : ∀ (items : Items) (j : Nat) (x : Obj), j < items.length →
    (items.push x).get? j = items.get? j
  | .nil, _, _, h => by simp [Items.length] at h
  | .cons o r, 0, _, _ => rfl
  | .cons o r, j + 1, x, h => by
    simp only [Items.push, Items.get?]
    exact push_get_other r j x (by simp [Items.length] at h; omega)

/-- **Frame (items)**: in the sequence the selector goes through, every other item is untouched. -/
theorem frame_items (dict : Nat → Option VR) (o : Obj) (hw : o.wf = true) (t i : Nat)
    (rest : List (Nat × Nat)) (tag : Nat) (a : Action) (vr : VR) (items : Items)
    (hg : o.get t = some (vr, .seq items)) (j : Nat) (hj : j ≠ i) (hlt : j < items.length) :
    ∃ vr' items', (apply dict o ((t, i) :: rest) tag a).1.get t = some (vr', .seq items') ∧
      items'.get? j = items.get? j := by
  rw [apply_refines_spec dict _ o hw]
  simp only [applySpec, hg]
  split
  · exact ⟨vr, _, get_set_same _ _ _ _, push_get_other items j _ hlt⟩
  · cases hit : items.get? i with
    | none => exact ⟨vr, items, hg, rfl⟩
    | some it => exact ⟨vr, _, get_set_same _ _ _ _, setAt_get_other items i j _ hj⟩

/-! ### non-constructive actions on missing paths fail without side effects -/

theorem setAt_get_self : ∀ (items : Items) (i : Nat) (it : Obj), items.get? i = some it →
    items.setAt i it = items
  | .nil, _, _, h => by simp [Items.get?] at h
  | .cons o r, 0, it, h => by simp [Items.get?] at h; simp [Items.setAt, h]
  | .cons o r, i + 1, it, h => by
    simp only [Items.setAt]; rw [setAt_get_self r i it (by simpa [Items.get?] using h)]

/-- a non-constructive action never fails at the leaf -/
theorem leafSpec_nonconstructive_ok (dict : Nat → Option VR) (tag : Nat) (cur : Option (VR × Val))
    (a : Action) (ha : a.constructive = false) : (leafSpec dict tag cur a).2 = none := by
  cases a <;> simp_all [leafSpec, Action.constructive]

/-- **Fail clean**: whenever a non-constructive action reports an error (the only possible ones are
a missing sequence, a missing item, or a non-sequence on the path), the object is unchanged — at
any depth. -/
theorem nonconstructive_missing_fails_clean (dict : Nat → Option VR) (a : Action)
    (ha : a.constructive = false) : ∀ (steps : List (Nat × Nat)) (o : Obj), o.wf = true → ∀ (tag : Nat) (e : Err),
    (apply dict o steps tag a).2 = some e → (apply dict o steps tag a).1 = o
  | [], o, hw, tag, e, h => by
    rw [apply_refines_spec dict [] o hw] at h
    simp [applySpec, leafSpec_nonconstructive_ok dict tag _ a ha] at h
  | (t, i) :: rest, o, hw, tag, e, h => by
    rw [apply_refines_spec dict _ o hw] at h ⊢
    simp only [applySpec, ha] at h ⊢
    cases hg : o.get t with
    | none => simp
    | some c =>
      obtain ⟨vr, v⟩ := c
      cases v with
      | prim p => rfl
      | pix b f => rfl
      | seq items =>
        have hiw : items.wf = true := by
          have := (get_wf o t 0 hw vr (.seq items) hg).2
          simpa [Val.wf] using this
        simp only [hg, Bool.false_eq_true, and_false, if_false] at h ⊢
        cases hit : items.get? i with
        | none => rfl
        | some it =>
          have hitw := items_get_wf items i it hiw hit
          simp only [hit] at h ⊢
          rw [← apply_refines_spec dict rest it hitw] at h ⊢
          rw [nonconstructive_missing_fails_clean dict a ha rest it hitw tag e h,
            setAt_get_self items i it hit, set_get_self o t vr _ hg]

/-- the path of a selector exists in the object -/
def pathOk : Obj → List (Nat × Nat) → Bool
  | _, [] => true
  | o, (t, i) :: rest =>
    match o.get t with
    | some (_, .seq items) =>
      (match items.get? i with
       | some it => pathOk it rest
       | none => false)
    | _ => false

/-- … and a non-constructive action on a missing path does fail. -/
theorem nonconstructive_missing_fails (dict : Nat → Option VR) (a : Action)
    (ha : a.constructive = false) : ∀ (steps : List (Nat × Nat)) (o : Obj), pathOk o steps = false →
    ∀ (tag : Nat), (apply dict o steps tag a).2 ≠ none
  | [], _, h, _ => by simp [pathOk] at h
  | (t, i) :: rest, o, h, tag => by
    simp only [apply, ha]
    simp only [pathOk] at h
    cases hg : o.get t with
    | none => simp
    | some c =>
      obtain ⟨vr, v⟩ := c
      cases v with
      | prim p => simp [hg]
      | pix b f => simp [hg]
      | seq items =>
        simp only [hg] at h ⊢
        simp only [Bool.false_eq_true, and_false, if_false]
        cases hit : items.get? i with
        | none => simp
        | some it =>
          simp only [hit] at h
          exact nonconstructive_missing_fails dict a ha rest it h tag

/-! ### constructive actions create what is missing -/

/-- at the leaf a constructive action creates the attribute and succeeds -/
theorem constructive_creates_leaf (dict : Nat → Option VR) (o : Obj) (tag : Nat) (a : Action)
    (ha : a.constructive = true) (hg : o.get tag = none) :
    (apply dict o [] tag a).2 = none ∧ ((apply dict o [] tag a).1.get tag).isSome = true := by
  cases a <;> simp_all [apply, applyLeaf, Action.constructive, changeValue, pushImpl, get_set_same]

/-- a missing sequence is created (VR from the dictionary, which must allow a sequence) together
with its first item, in which the rest of the operation takes place; it is held under VR SQ -/
theorem constructive_creates (dict : Nat → Option VR) (o : Obj) (t : Nat) (rest : List (Nat × Nat))
    (tag : Nat) (a : Action) (ha : a.constructive = true) (hg : o.get t = none)
    (hvr : dict t = none ∨ dict t = some .SQ) :
    let inner := apply dict .nil rest tag a
    (apply dict o ((t, 0) :: rest) tag a).1.get t = some (.SQ, .seq (.cons inner.1 .nil)) ∧
    (apply dict o ((t, 0) :: rest) tag a).2 = inner.2 := by
  have hv : ¬ ((dict t).getD .UN ≠ .SQ ∧ (dict t).getD .UN ≠ .UN) := by
    rcases hvr with h | h <;> simp [h]
  simp only [apply, hg, ha, hv, if_true, if_false, get_set_same, Items.length, true_and]
  simp [get_set_same, Items.push]

/-- … and the next item of an existing sequence is appended -/
theorem constructive_appends_item (dict : Nat → Option VR) (o : Obj) (t : Nat) (vr : VR) (items : Items)
    (rest : List (Nat × Nat)) (tag : Nat) (a : Action) (ha : a.constructive = true)
    (hg : o.get t = some (vr, .seq items)) :
    let inner := apply dict .nil rest tag a
    (apply dict o ((t, items.length) :: rest) tag a).1.get t = some (vr, .seq (items.push inner.1)) ∧
    (apply dict o ((t, items.length) :: rest) tag a).2 = inner.2 := by
  simp [apply, hg, ha, get_set_same]

/-! ### `Push*` and the kind of the created value: the shipped code and the proposed repair -/

/-- **Witness (shipped code)**: `PushI16(256)` on the missing FD attribute (0018,9182) creates
`I16 [256]` under VR FD — a value whose kind does not suit the VR; written as it is (2 bytes under
FD) it does not read back equal. Executed on the implementation as class
`value-type-incompatible-with-vr`. -/
theorem push_creates_unsuitable_value :
    let dict : Nat → Option VR := fun t => if t = 0x00189182 then some .FD else none
    (match (apply dict .nil [] 0x00189182 (.pushNum (.i16 256))).1.get 0x00189182 with
     | some (.FD, .prim p) => p == .i16 [256]
     | _ => false) = true ∧
    primSuits .FD (.i16 [256]) = false := by decide

/-- `pushImplRepaired` is the map-level `pushSpecRepaired` (same refinement as for the shipped code) -/
theorem push_refines_spec_repaired (dict : Nat → Option VR) (o : Obj) (hw : o.wf = true) (tag : Nat)
    (ext mk : Prim → Option Prim) (fb : VR) :
    pushImplRepaired dict o tag ext mk fb =
      (o.put? tag (pushSpecRepaired dict tag (o.get tag) ext mk fb).1,
       (pushSpecRepaired dict tag (o.get tag) ext mk fb).2) := by
  have hse := fun vr v => set_erase o tag vr v 0 hw
  unfold pushImplRepaired pushSpecRepaired
  cases hg : o.get tag with
  | none =>
    simp only
    split
    · simp [Obj.put?, erase_of_get_none o tag hg]
    · split <;> simp [Obj.put?, erase_of_get_none o tag hg]
  | some c =>
    obtain ⟨vr, v⟩ := c
    cases v with
    | prim p =>
      cases he : ext (normEmpty vr p) with
      | some p' => simp [Obj.put?, he, hse]
      | none => simp [Obj.put?, he, hse, set_get_self o tag vr _ hg]
    | seq items => simp [Obj.put?, hse, set_get_self o tag vr _ hg]
    | pix b f => simp [Obj.put?, hse, set_get_self o tag vr _ hg]

/-- the empty value of a VR's kind suits the VR, and extending a non-empty-kind value by a number
keeps its kind, hence its suitability -/
theorem typedEmpty_suits (vr : VR) (hvr : vr ≠ .DA ∧ vr ≠ .DT ∧ vr ≠ .TM) :
    primSuits vr (typedEmpty vr) = true := by
  cases vr <;> simp_all <;> decide

theorem extendNum_suits (vr : VR) (n : Num) (p p' : Prim) (hp : p ≠ .empty) (hs : primSuits vr p = true)
    (h : p.extendNum n = some p') : primSuits vr p' = true := by
  cases p <;> simp_all [Prim.extendNum, primSuits] <;> (subst h; simp [primSuits, hs])

/-- **Repaired `Push*` of a number on a missing attribute**: with a VR that holds numbers the
created value suits the VR; with any other VR either it suits, or it is the pushed number itself
under a VR without a kind of its own (OB / UN), or nothing is created and the action fails -/
theorem push_creates_or_fails_clean_repaired (dict : Nat → Option VR) (o : Obj) (tag : Nat) (n : Num)
    (hg : o.get tag = none)
    (hvr : (dict tag).getD n.fallbackVr ≠ .DA ∧ (dict tag).getD n.fallbackVr ≠ .DT ∧
           (dict tag).getD n.fallbackVr ≠ .TM) :
    let r := pushImplRepaired dict o tag (Prim.extendNum n) (Prim.extendNum n) n.fallbackVr
    let vr := (dict tag).getD n.fallbackVr
    (r.2 ≠ none ∧ r.1 = o) ∨
    (r.2 = none ∧ ∃ p', r.1.get tag = some (vr, .prim p') ∧
      (typedEmpty vr ≠ .empty → primSuits vr p' = true)) := by
  simp only [pushImplRepaired, hg]
  split
  · exact Or.inl ⟨by simp, rfl⟩
  · cases he : (typedEmpty ((dict tag).getD n.fallbackVr)).extendNum n with
    | none => exact Or.inl ⟨by simp, rfl⟩
    | some p' =>
      refine Or.inr ⟨rfl, p', get_set_same _ _ _ _, fun hne => ?_⟩
      exact extendNum_suits _ n _ p' hne (typedEmpty_suits _ hvr) he

/-- on the witness of the shipped code the repaired push creates `F64 [256]`, which suits FD -/
theorem push_repaired_on_witness :
    let dict : Nat → Option VR := fun t => if t = 0x00189182 then some .FD else none
    (match (pushImplRepaired dict .nil 0x00189182 (Prim.extendNum (.i16 256)) (Prim.extendNum (.i16 256)) .SS).1.get 0x00189182 with
     | some (.FD, .prim p) => p == .f64 [.half 512]
     | _ => false) = true ∧ primSuits .FD (.f64 [.half 512]) = true := by decide

/-! ### non-vacuity and the defect that was repaired -/

/-- a concrete well-formed object and a depth-2 constructive operation on it -/
example :
    let o : Obj := .cons 0x00100010 .PN (.prim (.str [0x41])) (.cons 0x00400275 .SQ (.seq (.cons .nil .nil)) .nil)
    o.wf = true ∧
    (apply (fun _ => none) o [(0x00400275, 1), (0x00400008, 0)] 0x00080100 (.pushStr [0x58])).2 = none ∧
    pathOk o [(0x00400275, 1)] = false := by decide

/-- defect #6 (fixed by 0c32f21): `PushStr` on a sequence element fails *and* leaves it in place -/
example :
    let o : Obj := .cons 0x00400275 .SQ (.seq (.cons .nil .nil)) .nil
    Obj.beq (apply (fun _ => none) o [] 0x00400275 (.pushStr [0x58])).1 o = true ∧
    (apply (fun _ => none) o [] 0x00400275 (.pushStr [0x58])).2 = some .incompatibleTypes := by decide

/-- the code as found created the sequence of an unknown tag under VR UN, and `SetVr` re-labelled
sequences: such objects are outside `wf` — the data set writer panics on them (`unreachable!` in
`DataElementTokens`); executed on the implementation as class `sequence-under-non-sq-vr` -/
example : Obj.wf (.cons 0x55550042 .UN (.seq (.cons .nil .nil)) .nil) = false ∧
    Obj.wf (.cons 0x55550042 .SQ (.seq (.cons .nil .nil)) .nil) = true := by decide
