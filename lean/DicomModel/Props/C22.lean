import DicomModel.Model.Lut
/-
C22 — Modality and VOI LUT outputs match the PS3.3 formulas.

The model (`Model/Lut.lean`) is generic over a record of arithmetic operations. Here it is
instantiated with exact rational arithmetic (`Rat`, core Lean), `exp` being an abstract function;
all theorems below are statements about exact arithmetic. That the `f64` evaluation of the same
expressions agrees with them up to rounding is *tested*, not proved: the correspondence run
evaluates the same generic model with `Float` and compares it bit for bit with the implementation
on every table entry (sigmoid: within 2 ulp), and compares the implementation with the exact value
within an explicit rounding bound.
-/
namespace Dicom.Lut

def ratOps (e : Rat → Rat) : Ops Rat where
  ofInt := fun n => (n : Rat)
  half := 1 / 2
  add := (· + ·)
  sub := (· - ·)
  mul := (· * ·)
  div := (· / ·)
  le := fun a b => decide (a ≤ b)
  lt := fun a b => decide (a < b)
  max := fun a b => if a ≤ b then b else a
  exp := e
  trunc := fun v => if 0 ≤ v then v.floor else -((-v).floor)
  toF32 := id

theorem div_bounds (n D : Rat) (hD : 0 < D) (h1 : -(D / 2) < n) (h2 : n ≤ D / 2) :
    -(1 / 2) < n / D ∧ n / D ≤ 1 / 2 := by
  have hi : 0 < D⁻¹ := Rat.inv_pos.mpr hD
  have e1 : -(D / 2) * D⁻¹ = -(1/2) := by grind
  have e2 : D / 2 * D⁻¹ = 1/2 := by grind
  constructor
  · have h := Rat.mul_lt_mul_of_pos_right h1 hi
    rw [e1] at h; rw [Rat.div_def n D]; exact h
  · have h := Rat.mul_le_mul_of_nonneg_right h2 (Rat.le_of_lt hi)
    rw [e2] at h; rw [Rat.div_def n D]; exact h

theorem inv_anti (a b : Rat) (hb : 0 < b) (hab : b ≤ a) : a⁻¹ ≤ b⁻¹ := by
  have ha : 0 < a := by grind
  have hia : 0 < a⁻¹ := Rat.inv_pos.mpr ha
  have hib : 0 < b⁻¹ := Rat.inv_pos.mpr hb
  have h : b * (a⁻¹ * b⁻¹) ≤ a * (a⁻¹ * b⁻¹) :=
    Rat.mul_le_mul_of_nonneg_right hab (Rat.le_of_lt (Rat.mul_pos hia hib))
  have e1 : b * (a⁻¹ * b⁻¹) = a⁻¹ := by grind
  have e2 : a * (a⁻¹ * b⁻¹) = b⁻¹ := by grind
  rw [e1, e2] at h; exact h


theorem c0 : ((0 : Int) : Rat) = 0 := rfl
theorem c1 : ((1 : Int) : Rat) = 1 := rfl
theorem c2 : ((2 : Int) : Rat) = 2 := rfl
theorem cm4 : ((-4 : Int) : Rat) = -4 := rfl

/-! ### Integer logic: table index ↔ stored value -/

theorem half_pow (bits : Nat) (h : 1 ≤ bits) : 2 ^ bits / 2 = 2 ^ (bits - 1) := by
  obtain ⟨k, rfl⟩ : ∃ k, bits = k + 1 := ⟨bits - 1, by omega⟩
  simp [Nat.pow_succ]

/-- **lut_index_signed**: table index `i` of a signed LUT stands for the two's complement value of
`i` in `bits` bits: indices below `2^(bits-1)` are themselves, the others are `i - 2^bits`; the
value is in `[-2^(bits-1), 2^(bits-1))`. Unsigned: the index itself. -/
theorem lut_index_signed (bits : Nat) (hb : 1 ≤ bits) (i : Nat) (hi : i < 2 ^ bits) :
    lutInput bits false i = i ∧
    lutInput bits true i = (if i < 2 ^ (bits - 1) then (i : Int) else (i : Int) - (2 ^ bits : Nat)) ∧
    -((2 ^ (bits - 1) : Nat) : Int) ≤ lutInput bits true i ∧ lutInput bits true i < ((2 ^ (bits - 1) : Nat) : Int) := by
  have h2 : 2 ^ bits = 2 * 2 ^ (bits - 1) := by
    obtain ⟨k, rfl⟩ : ∃ k, bits = k + 1 := ⟨bits - 1, by omega⟩
    simp [Nat.pow_succ, Nat.mul_comm]
  have hh := half_pow bits hb
  unfold lutInput
  rw [hh]
  generalize 2 ^ (bits - 1) = P at *
  rw [h2] at hi ⊢
  refine ⟨by simp, ?_, ?_, ?_⟩
  · by_cases h : i < P
    · rw [if_pos h, if_neg (by simp; omega)]
    · rw [if_neg h, if_pos ⟨rfl, by omega⟩]
  · by_cases h : i < P
    · rw [if_neg (by simp; omega)]; omega
    · rw [if_pos ⟨rfl, by omega⟩]; omega
  · by_cases h : i < P
    · rw [if_neg (by simp; omega)]; omega
    · rw [if_pos ⟨rfl, by omega⟩]; omega

/-- **mask_ignores_high_bits**: bits of the sample above `bits_stored` do not influence `Lut::get` -/
theorem mask_ignores_high_bits {α : Type} (o : Ops α) (c : Cfg α) (t : OutT) (sample high : Nat) :
    lutGet o c t (sample + high * 2 ^ c.bitsStored) = lutGet o c t sample := by
  simp [lutGet, sampleIndex, Nat.add_mul_mod_self_right]

/-- **sample_value_stored**: the input value of the table entry selected by a sample is the stored
value as the property reads it (low `bits` bits, two's complement when signed) -/
theorem sample_value_stored (bits : Nat) (hb : 1 ≤ bits) (signed : Bool) (sample : Nat) :
    lutInput bits signed (sampleIndex bits sample) = storedValue bits signed sample := by
  simp [lutInput, sampleIndex, storedValue, half_pow bits hb]

/-- for an image with 16 bits allocated the table is built for the image's bits stored; with 8 bits
allocated likewise (bits stored 1..8) -/
theorem lutBitsFor_eq (alloc stored : Nat) (h1 : 1 ≤ stored) (h2 : stored ≤ alloc) (ha : alloc = 8 ∨ alloc = 16) :
    lutBitsFor alloc stored = stored := by
  unfold lutBitsFor
  rcases ha with h | h <;> subst h <;> simp <;> repeat (first | omega | split)

/-! ### Default pipeline: rescale only -/

/-- **default_is_affine**: with the default pipeline (Modality LUT only) the table entry selected
by a sample is `slope * v + intercept`, `v` the stored value -/
theorem default_is_affine (e : Rat → Rat) (c : Cfg Rat) (hk : c.kind = .rescaleOnly) (hb : 1 ≤ c.bitsStored)
    (sample : Nat) :
    lutValue (ratOps e) c (sampleIndex c.bitsStored sample)
      = c.slope * (storedValue c.bitsStored c.signed sample : Int) + c.intercept := by
  simp [lutValue, lutFn, hk, rescale, ratOps, sample_value_stored _ hb]

/-- … and `Lut<f64>::get` returns exactly that value -/
theorem default_get_f64 (e : Rat → Rat) (c : Cfg Rat) (hk : c.kind = .rescaleOnly) (hb : 1 ≤ c.bitsStored)
    (sample : Nat) :
    lutGet (ratOps e) c .f64 sample
      = some (.flt (c.slope * (storedValue c.bitsStored c.signed sample : Int) + c.intercept)) := by
  have h := default_is_affine e c hk hb sample
  simp only [lutGet, lutEntry, convert, OutT.bounds]
  rw [h]; simp

/-! ### PS3.3 C.11.2.1.2.1 / C.11.2.1.3.2, transcribed from the standard -/

def ps33Linear (c w ymin ymax x : Rat) : Rat :=
  if x ≤ c - 1/2 - (w - 1) / 2 then ymin
  else if x > c - 1/2 + (w - 1) / 2 then ymax
  else ((x - (c - 1/2)) / (w - 1) + 1/2) * (ymax - ymin) + ymin

def ps33LinearExact (c w ymin ymax x : Rat) : Rat :=
  if x ≤ c - w / 2 then ymin
  else if x > c + w / 2 then ymax
  else ((x - c) / w + 1/2) * (ymax - ymin) + ymin

/-- effective window width: `WindowLevelTransform::new` clamps it -/
def effWidth (fn : VoiFn) (w : Rat) : Rat :=
  match fn with
  | .linearExact => if w ≤ 0 then 0 else w
  | _ => if w ≤ 1 then 1 else w

theorem clampWidth_eq (e : Rat → Rat) (fn : VoiFn) (w : Rat) : clampWidth (ratOps e) fn w = effWidth fn w := by
  cases fn <;> simp [clampWidth, effWidth, ratOps]

/-- **linear_matches_C11_2_1_2**: the LINEAR window function of the code is the function of
PS3.3 C.11.2.1.2.1 with `ymin = 0` (and the width clamped to at least 1) -/
theorem linear_matches_C11_2_1_2 (e : Rat → Rat) (w c x ymax : Rat) :
    applyWindow (ratOps e) .linear w c x ymax = ps33Linear c (effWidth .linear w) 0 ymax x := by
  simp only [applyWindow, clampWidth_eq, windowLinear, ps33Linear]
  simp only [ratOps, decide_eq_true_eq, c0, c1, c2]
  split
  · rfl
  · split
    · rfl
    · grind

/-- **linear_exact_matches_C11_2_1_3**: likewise LINEAR_EXACT and C.11.2.1.3.2 (width clamped to
at least 0) -/
theorem linear_exact_matches_C11_2_1_3 (e : Rat → Rat) (w c x ymax : Rat) :
    applyWindow (ratOps e) .linearExact w c x ymax = ps33LinearExact c (effWidth .linearExact w) 0 ymax x := by
  simp only [applyWindow, clampWidth_eq, windowLinearExact, ps33LinearExact]
  simp only [ratOps, decide_eq_true_eq, c0, c2]
  split
  · rfl
  · split
    · rfl
    · grind

/-! ### Range and monotonicity of the linear functions (exact arithmetic) -/

theorem effWidth_linear_ge (w : Rat) : 1 ≤ effWidth .linear w := by
  unfold effWidth; split <;> grind

theorem effWidth_exact_ge (w : Rat) : 0 ≤ effWidth .linearExact w := by
  unfold effWidth; split <;> grind

/-- the middle branch of C.11.2.1.2.1 stays within `(0, ymax]` -/
theorem ps33Linear_range (c w ymax x : Rat) (hy : 0 ≤ ymax) :
    0 ≤ ps33Linear c w 0 ymax x ∧ ps33Linear c w 0 ymax x ≤ ymax := by
  unfold ps33Linear
  split
  · exact ⟨Rat.le_refl, hy⟩
  · split
    · exact ⟨hy, Rat.le_refl⟩
    · rename_i h1 h2
      have hD : 0 < w - 1 := by grind
      have hb := div_bounds (x - (c - 1/2)) (w - 1) hD (by grind) (by grind)
      have h0 : 0 ≤ (x - (c - 1/2)) / (w - 1) + 1/2 := by grind
      have h1' : (x - (c - 1/2)) / (w - 1) + 1/2 ≤ 1 := by grind
      have m1 := Rat.mul_le_mul_of_nonneg_right h0 hy
      have m2 := Rat.mul_le_mul_of_nonneg_right h1' hy
      constructor <;> grind

theorem ps33LinearExact_range (c w ymax x : Rat) (hy : 0 ≤ ymax) :
    0 ≤ ps33LinearExact c w 0 ymax x ∧ ps33LinearExact c w 0 ymax x ≤ ymax := by
  unfold ps33LinearExact
  split
  · exact ⟨Rat.le_refl, hy⟩
  · split
    · exact ⟨hy, Rat.le_refl⟩
    · rename_i h1 h2
      have hD : 0 < w := by grind
      have hb := div_bounds (x - c) w hD (by grind) (by grind)
      have h0 : 0 ≤ (x - c) / w + 1/2 := by grind
      have h1' : (x - c) / w + 1/2 ≤ 1 := by grind
      have m1 := Rat.mul_le_mul_of_nonneg_right h0 hy
      have m2 := Rat.mul_le_mul_of_nonneg_right h1' hy
      constructor <;> grind

/-- **in_range**: a windowed value (LINEAR or LINEAR_EXACT, any width — it is clamped — and any
center) lies in `[0, ymax]` -/
theorem in_range (e : Rat → Rat) (fn : VoiFn) (hfn : fn ≠ .sigmoid) (w c x ymax : Rat) (hy : 0 ≤ ymax) :
    0 ≤ applyWindow (ratOps e) fn w c x ymax ∧ applyWindow (ratOps e) fn w c x ymax ≤ ymax := by
  cases fn with
  | linear => rw [linear_matches_C11_2_1_2]; exact ps33Linear_range _ _ _ _ hy
  | linearExact => rw [linear_exact_matches_C11_2_1_3]; exact ps33LinearExact_range _ _ _ _ hy
  | sigmoid => exact absurd rfl hfn

theorem div_mono (a b D : Rat) (hD : 0 < D) (h : a ≤ b) : a / D ≤ b / D := by
  rw [Rat.div_def a D, Rat.div_def b D]
  exact Rat.mul_le_mul_of_nonneg_right h (Rat.le_of_lt (Rat.inv_pos.mpr hD))

theorem ps33Linear_mono (c w ymax x1 x2 : Rat) (hy : 0 ≤ ymax) (hx : x1 ≤ x2) :
    ps33Linear c w 0 ymax x1 ≤ ps33Linear c w 0 ymax x2 := by
  have r1 := ps33Linear_range c w ymax x1 hy
  have r2 := ps33Linear_range c w ymax x2 hy
  by_cases a2 : x2 ≤ c - 1/2 - (w - 1) / 2
  · have a1 : x1 ≤ c - 1/2 - (w - 1) / 2 := by grind
    simp [ps33Linear, a1, a2]
  · by_cases b2 : x2 > c - 1/2 + (w - 1) / 2
    · have : ps33Linear c w 0 ymax x2 = ymax := by simp [ps33Linear, a2, b2]
      rw [this]; exact r1.2
    · by_cases a1 : x1 ≤ c - 1/2 - (w - 1) / 2
      · have : ps33Linear c w 0 ymax x1 = 0 := by simp [ps33Linear, a1]
        rw [this]; exact r2.1
      · have b1 : ¬ x1 > c - 1/2 + (w - 1) / 2 := by grind
        have hD : 0 < w - 1 := by grind
        have hd := div_mono (x1 - (c - 1/2)) (x2 - (c - 1/2)) (w - 1) hD (by grind)
        have hm := Rat.mul_le_mul_of_nonneg_right
          (show (x1 - (c - 1/2)) / (w - 1) + 1/2 ≤ (x2 - (c - 1/2)) / (w - 1) + 1/2 by grind) hy
        simp only [ps33Linear, a1, a2, b1, b2, if_false]
        grind

theorem ps33LinearExact_mono (c w ymax x1 x2 : Rat) (hy : 0 ≤ ymax) (hx : x1 ≤ x2) :
    ps33LinearExact c w 0 ymax x1 ≤ ps33LinearExact c w 0 ymax x2 := by
  have r1 := ps33LinearExact_range c w ymax x1 hy
  have r2 := ps33LinearExact_range c w ymax x2 hy
  by_cases a2 : x2 ≤ c - w / 2
  · have a1 : x1 ≤ c - w / 2 := by grind
    simp [ps33LinearExact, a1, a2]
  · by_cases b2 : x2 > c + w / 2
    · have : ps33LinearExact c w 0 ymax x2 = ymax := by simp [ps33LinearExact, a2, b2]
      rw [this]; exact r1.2
    · by_cases a1 : x1 ≤ c - w / 2
      · have : ps33LinearExact c w 0 ymax x1 = 0 := by simp [ps33LinearExact, a1]
        rw [this]; exact r2.1
      · have b1 : ¬ x1 > c + w / 2 := by grind
        have hD : 0 < w := by grind
        have hd := div_mono (x1 - c) (x2 - c) w hD (by grind)
        have hm := Rat.mul_le_mul_of_nonneg_right
          (show (x1 - c) / w + 1/2 ≤ (x2 - c) / w + 1/2 by grind) hy
        simp only [ps33LinearExact, a1, a2, b1, b2, if_false]
        grind

/-- the window functions LINEAR and LINEAR_EXACT never decrease -/
theorem window_mono (e : Rat → Rat) (fn : VoiFn) (hfn : fn ≠ .sigmoid) (w c ymax x1 x2 : Rat)
    (hy : 0 ≤ ymax) (hx : x1 ≤ x2) :
    applyWindow (ratOps e) fn w c x1 ymax ≤ applyWindow (ratOps e) fn w c x2 ymax := by
  cases fn with
  | linear =>
    rw [linear_matches_C11_2_1_2, linear_matches_C11_2_1_2]
    exact ps33Linear_mono _ _ _ _ _ hy hx
  | linearExact =>
    rw [linear_exact_matches_C11_2_1_3, linear_exact_matches_C11_2_1_3]
    exact ps33LinearExact_mono _ _ _ _ _ hy hx
  | sigmoid => exact absurd rfl hfn

theorem rescale_mono (e : Rat → Rat) (s i x1 x2 : Rat) (hs : 0 ≤ s) (hx : x1 ≤ x2) :
    rescale (ratOps e) s i x1 ≤ rescale (ratOps e) s i x2 := by
  simp only [rescale, ratOps]
  have := Rat.mul_le_mul_of_nonneg_right hx hs
  grind

theorem yMax_nonneg (bits : Nat) : (0 : Rat) ≤ ((yMax bits : Int) : Rat) := by
  have : 0 ≤ yMax bits := by
    unfold yMax nextPow2
    repeat (first | split | decide)
  exact_mod_cast this

/-- **monotone**: for the linear functions (rescale only, LINEAR, LINEAR_EXACT) and a
non-negative slope, the value computed for a stored value never decreases as the stored value
increases — for every `Lut` constructor -/
theorem monotone (e : Rat → Rat) (c : Cfg Rat) (hfn : c.fn ≠ .sigmoid) (hs : 0 ≤ c.slope)
    (x1 x2 : Rat) (hx : x1 ≤ x2) :
    lutFn (ratOps e) c x1 ≤ lutFn (ratOps e) c x2 := by
  have h255 : (0 : Rat) ≤ (ratOps e).ofInt 255 := by simp [ratOps]; decide
  have hym : (0 : Rat) ≤ (ratOps e).ofInt (yMax c.bitsStored) := yMax_nonneg _
  unfold lutFn
  cases c.kind with
  | rescaleOnly => exact rescale_mono e _ _ _ _ hs hx
  | rescaleWindow => exact window_mono e _ hfn _ _ _ _ _ hym (rescale_mono e _ _ _ _ hs hx)
  | windowOnly => exact window_mono e _ hfn _ _ _ _ _ hym hx
  | rescaleWindow8 => exact window_mono e _ hfn _ _ _ _ _ h255 (rescale_mono e _ _ _ _ hs hx)
  | window8 => exact window_mono e _ hfn _ _ _ _ _ h255 hx

/-- … in terms of table entries: a larger stored value never gets a smaller table value -/
theorem monotone_entries (e : Rat → Rat) (c : Cfg Rat) (hfn : c.fn ≠ .sigmoid) (hs : 0 ≤ c.slope)
    (i j : Nat) (h : lutInput c.bitsStored c.signed i ≤ lutInput c.bitsStored c.signed j) :
    lutValue (ratOps e) c i ≤ lutValue (ratOps e) c j := by
  unfold lutValue
  apply monotone e c hfn hs
  simp only [ratOps]
  exact_mod_cast h

/-! ### Sigmoid over an abstract, positive, monotone `exp` -/

theorem sigmoid_core_range (E ymax : Rat) (hE : 0 < E) (hy : 0 ≤ ymax) :
    0 ≤ ymax / (1 + E) ∧ ymax / (1 + E) ≤ ymax := by
  have h1 : (0 : Rat) < 1 + E := by grind
  have hi : 0 < (1 + E)⁻¹ := Rat.inv_pos.mpr h1
  have hle : (1 + E)⁻¹ ≤ (1 : Rat)⁻¹ := inv_anti (1 + E) 1 (by decide) (by grind)
  have hone : (1 : Rat)⁻¹ = 1 := by grind
  rw [hone] at hle
  rw [Rat.div_def]
  constructor
  · exact Rat.mul_nonneg hy (Rat.le_of_lt hi)
  · have := Rat.mul_le_mul_of_nonneg_right hle hy
    grind

/-- **sigmoid_range**: `0 ≤ ymax / (1 + exp(-4 (x - c) / w)) ≤ ymax` whenever `exp` is positive -/
theorem sigmoid_range (e : Rat → Rat) (hpos : ∀ t, 0 < e t) (w c x ymax : Rat) (hy : 0 ≤ ymax) :
    0 ≤ applyWindow (ratOps e) .sigmoid w c x ymax ∧ applyWindow (ratOps e) .sigmoid w c x ymax ≤ ymax := by
  simp only [applyWindow, windowSigmoid, ratOps, c1]
  exact sigmoid_core_range _ _ (hpos _) hy

/-- **sigmoid_monotone**: for a positive, non-decreasing `exp` the SIGMOID function never decreases -/
theorem sigmoid_monotone (e : Rat → Rat) (hpos : ∀ t, 0 < e t) (hmono : ∀ a b, a ≤ b → e a ≤ e b)
    (w c ymax x1 x2 : Rat) (hy : 0 ≤ ymax) (hx : x1 ≤ x2) :
    applyWindow (ratOps e) .sigmoid w c x1 ymax ≤ applyWindow (ratOps e) .sigmoid w c x2 ymax := by
  simp only [applyWindow, windowSigmoid, clampWidth_eq]
  simp only [ratOps, c1, cm4]
  have hw : 0 < effWidth .sigmoid w := by
    have : 1 ≤ effWidth .sigmoid w := by unfold effWidth; split <;> grind
    grind
  have ht : -4 * (x2 - c) / effWidth .sigmoid w ≤ -4 * (x1 - c) / effWidth .sigmoid w :=
    div_mono _ _ _ hw (by grind)
  have he := hmono _ _ ht
  have hp2 : 0 < 1 + e (-4 * (x2 - c) / effWidth .sigmoid w) := by have := hpos (-4 * (x2 - c) / effWidth .sigmoid w); grind
  have hinv := inv_anti (1 + e (-4 * (x1 - c) / effWidth .sigmoid w)) (1 + e (-4 * (x2 - c) / effWidth .sigmoid w)) hp2 (by grind)
  rw [Rat.div_def ymax, Rat.div_def ymax]
  have := Rat.mul_le_mul_of_nonneg_right hinv hy
  grind

/-! ### Non-vacuity: the PS3.3 example (C.11.2.1.2.1: c = 2048, w = 4096, 8-bit output) -/

example : ps33Linear 2048 4096 0 255 0 = 0 ∧ ps33Linear 2048 4096 0 255 4096 = 255 ∧
    ps33Linear 2048 4096 0 255 (4095 / 2) = 255 / 2 := by
  refine ⟨?_, ?_, ?_⟩ <;> (unfold ps33Linear; grind)

example : storedValue 12 true 0xFFF = -1 ∧ storedValue 12 true 0xF800 = -2048 ∧
    storedValue 12 false 0xF800 = 2048 := by decide

end Dicom.Lut
