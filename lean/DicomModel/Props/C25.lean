import DicomModel.Lemmas.Pdu
import DicomModel.Lemmas.PduValid
import DicomModel.Lemmas.PduInc
/-
C25 — PDUs are encoded and decoded losslessly with exact framing.

Model: `DicomModel/Model/Pdu.lean` (`writePdu`, `readPdu`, all PDU and item types).
`WellFormedPdu p` (`wfPdu`) states the value ranges of the Rust field types (`u8`, `u16`, `u32`,
byte vectors) and excludes the values that are not in the image of the reader: an `Unknown` PDU or
user variable carrying a type code that the reader knows, `Reserved(x)` reject reasons outside the
reserved ranges. `normPdu` is the documented normalisation: AE titles cut/padded to 16 bytes and
trimmed, UIDs and names trimmed of white space (`str::trim`).
-/
namespace Dicom.Pdu

abbrev WellFormedPdu (p : Pdu) : Prop := wfPdu p = true

/-- body of every PDU kind reads back as the normal form -/
theorem readBody_write {p : Pdu} {body : Bytes} (hw : writePduBody p = .ok body) (hwf : WellFormedPdu p) :
    readBody (pduType p) body = .ok (normPdu p) := by
  cases p with
  | associationRQ a => exact readBody_rq hw hwf
  | associationAC a => exact readBody_ac hw hwf
  | associationRJ res src =>
    simp only [writePduBody] at hw
    cases hw
    have h := RjSource.ofCodes_codes src hwf
    simp [readBody, pduType, u8P, RjResult.ofCode_code, h, normPdu]
  | pData vs =>
    simp only [writePduBody] at hw
    simp [readBody, pduType, readPdvs_write vs body.length body [] hw (Nat.le_refl _), normPdu]
  | releaseRQ =>
    simp only [writePduBody] at hw
    cases hw
    simp [readBody, pduType, normPdu]
  | releaseRP =>
    simp only [writePduBody] at hw
    cases hw
    simp [readBody, pduType, normPdu]
  | abortRQ src =>
    simp only [writePduBody] at hw
    cases hw
    simp [readBody, pduType, takeP, u8P, AbortSource.ofCodes_codes, normPdu]
  | unknown t d =>
    simp only [writePduBody] at hw
    cases hw
    simp [WellFormedPdu, wfPdu] at hwf
    have h : t ≠ 1 ∧ t ≠ 2 ∧ t ≠ 3 ∧ t ≠ 4 ∧ t ≠ 5 ∧ t ≠ 6 ∧ t ≠ 7 := by
      have := hwf.1.2; omega
    simp [readBody, pduType, h, normPdu]

/-- **Round trip with exact framing.** A well-formed PDU that `write_pdu` accepts reads back as its
normal form, for any bytes `r` following it in the buffer, consuming exactly the bytes written
(`r` is what remains). Hypotheses: `max_pdu_length` in the accepted range; in strict mode the PDU
is not longer than the maximum. -/
theorem pdu_rt {p : Pdu} {bs : Bytes} (hwf : WellFormedPdu p) (hw : writePdu p = .ok bs)
    (mx : Nat) (strict : Bool) (hmx : validMax mx) (hs : strict = true → bs.length - 6 ≤ mx) (r : Bytes) :
    readPdu mx strict (bs ++ r) = .ok (normPdu p, r) := by
  obtain ⟨body, hb, hl, rfl⟩ := pdu32_ok.1 hw
  rw [readPdu_frame mx strict _ body r hmx hl (by simpa using hs), readBody_write hb hwf]
  rfl

/-- Every strict prefix of an encoded PDU reads as incomplete (`Ok(None)`): never an error, never a
(different) PDU. No well-formedness needed: framing alone decides. -/
theorem prefix_incomplete {p : Pdu} {bs : Bytes} (hw : writePdu p = .ok bs)
    (mx : Nat) (strict : Bool) (hmx : validMax mx) (hs : strict = true → bs.length - 6 ≤ mx)
    (n : Nat) (hn : n < bs.length) :
    readPdu mx strict (bs.take n) = .inc := by
  obtain ⟨body, hb, hl, rfl⟩ := pdu32_ok.1 hw
  have h1 : ¬ ¬ (minimumPduSize ≤ mx ∧ mx ≤ maximumPduSize) := fun h => h hmx
  have h3 : ¬ (strict = true ∧ mx < body.length) := by
    rintro ⟨a, b⟩; have := hs a; simp at this; omega
  unfold readPdu
  rw [if_neg h1]
  match n, hn with
  | 0, _ => simp
  | 1, _ => simp
  | 2, _ => simp [takeP]
  | 3, _ => simp [takeP, be32]
  | 4, _ => simp [takeP, be32]
  | 5, _ => simp [takeP, be32]
  | k + 6, hk =>
    have e : List.take (k + 6) (pduType p :: 0 :: (be32 body.length ++ body))
        = pduType p :: 0 :: (be32 body.length ++ body.take k) := by
      simp [be32]
    have hk' : k < body.length := by simp at hk; omega
    rw [e]
    have h2 : ¬ ((pduType p :: 0 :: (be32 body.length ++ body.take k)).length < 2) := by simp
    have h4 : ¬ ((be32 body.length ++ body.take k).length < 4) := by simp
    have e2 : takeP 2 (pduType p :: 0 :: (be32 body.length ++ body.take k))
        = .ok ([pduType p, 0], be32 body.length ++ body.take k) := by simp [takeP]
    have h5 : (body.take k).length < body.length := by simp; omega
    rw [if_neg h2]
    simp only [e2, Res.bind_eq, Res.bind_ok, if_neg h4,
      u32P_be32 _ (show body.length < 4294967296 by omega), if_neg h3, if_pos h5]

/-- In strict mode a PDU whose length field exceeds the maximum is rejected — for *any* buffer
holding at least the 6 header bytes, whatever follows. -/
theorem strict_rejects_long (mx : Nat) (hmx : validMax mx) (t z a b c d : Nat) (rest : Bytes)
    (hlong : mx < 16777216 * a + 65536 * b + 256 * c + d) :
    readPdu mx true (t :: z :: a :: b :: c :: d :: rest) = .err .pduTooLarge := by
  have h1 : ¬ ¬ (minimumPduSize ≤ mx ∧ mx ≤ maximumPduSize) := fun h => h hmx
  unfold readPdu
  rw [if_neg h1]
  have h2 : ¬ (List.length rest + 1 + 1 + 1 + 1 + 1 + 1 < 2) := by omega
  simp [takeP, u32P, hlong, h2]

/-- … and `write_pdu` output longer than the maximum is such a buffer -/
theorem strict_rejects_long_written {p : Pdu} {bs : Bytes} (hw : writePdu p = .ok bs)
    (mx : Nat) (hmx : validMax mx) (hlong : mx < bs.length - 6) (r : Bytes) :
    readPdu mx true (bs ++ r) = .err .pduTooLarge := by
  obtain ⟨body, hb, hl, rfl⟩ := pdu32_ok.1 hw
  have hb' : body.length < 4294967296 := by omega
  have e : be32 body.length = [body.length / 16777216 % 256, body.length / 65536 % 256,
      body.length / 256 % 256, body.length % 256] := rfl
  simp only [List.cons_append, e]
  apply strict_rejects_long mx hmx
  simp at hlong
  omega

/-- an out-of-range `max_pdu_length` is refused whatever the buffer holds -/
theorem invalid_max_rejected (mx : Nat) (strict : Bool) (bs : Bytes) (h : ¬ validMax mx) :
    readPdu mx strict bs = .err .invalidMaxPdu := by
  unfold readPdu
  rw [if_pos (show ¬ (minimumPduSize ≤ mx ∧ mx ≤ maximumPduSize) from h)]

/-- `validPS38` on a framed PDU: the length field is right, the rest depends on the type -/
theorem validPS38_frame (t : Nat) (body : Bytes) (hl : body.length ≤ 4294967295) :
    validPS38 (t :: 0 :: (be32 body.length ++ body)) =
      (if t = 0x01 ∨ t = 0x02 then
        decide (68 ≤ body.length) &&
          (match tile16 body.length (body.drop 68) with
           | some items => items.all (validVarItem (t = 0x01)) &&
               decide ((items.filter (fun s => s.1 = 0x10)).length = 1)
           | none => false)
      else if t = 0x03 ∨ t = 0x05 ∨ t = 0x06 ∨ t = 0x07 then decide (body.length = 4)
      else if t = 0x04 then (tile32 body.length body).isSome
      else true) := by
  have e : 16777216 * (body.length / 16777216 % 256) + 65536 * (body.length / 65536 % 256)
      + 256 * (body.length / 256 % 256) + body.length % 256 = body.length := by omega
  simp only [be32, List.cons_append, List.nil_append, validPS38, e]
  simp
  rfl

/-- **Lengths consistent.** Whatever `write_pdu` emits for a well-formed PDU passes the independent
PS3.8 structure check: the PDU length and every item, sub-item and inner length field equal the
number of bytes of the content they describe, and the items tile their containers exactly. -/
theorem lengths_consistent {p : Pdu} {bs : Bytes} (hwf : WellFormedPdu p) (hw : writePdu p = .ok bs) :
    validPS38 bs = true := by
  obtain ⟨body, hb, hl, rfl⟩ := pdu32_ok.1 hw
  rw [validPS38_frame _ _ hl]
  cases p with
  | associationRQ a =>
    obtain ⟨-, huv⟩ := wfAssoc_parts hwf
    obtain ⟨h68, items, h1, h2, h3⟩ :=
      valid_assocVars true 0x20 (by decide) (tile_pcProposedList a.pcs) hb huv
    simp [pduType, h68, h1, h3]
    simpa using h2
  | associationAC a =>
    obtain ⟨-, huv⟩ := wfAssoc_parts hwf
    obtain ⟨h68, items, h1, h2, h3⟩ :=
      valid_assocVars false 0x21 (by decide) (tile_pcResultList a.pcs) hb huv
    simp [pduType, h68, h1, h3]
    simpa using h2
  | associationRJ res src => simp only [writePduBody] at hb; cases hb; simp [pduType]
  | pData vs =>
    simp only [writePduBody] at hb
    simp [pduType, tile32_pdvList vs body hb]
  | releaseRQ => simp only [writePduBody] at hb; cases hb; simp [pduType]
  | releaseRP => simp only [writePduBody] at hb; cases hb; simp [pduType]
  | abortRQ src => simp only [writePduBody] at hb; cases hb; simp [pduType]
  | unknown t d =>
    simp [WellFormedPdu, wfPdu] at hwf
    have h : t ≠ 1 ∧ t ≠ 2 ∧ t ≠ 3 ∧ t ≠ 4 ∧ t ≠ 5 ∧ t ≠ 6 ∧ t ≠ 7 := by
      have := hwf.1.2; omega
    simp [pduType, h]
/-! ### Sizes: what each 16-bit length field has to express -/

/-- content length of a user-information sub-item, from the field layouts of PS3.7 annex D -/
def uvContentLen : UserVar → Nat
  | .unknown _ d => d.length
  | .maxLength _ => 4
  | .implClassUid s => s.length
  | .implVersionName s => s.length
  | .sopClassExt uid d => 2 + uid.length + d.length
  | .roleSelection uid _ _ => 2 + uid.length + 2
  | .userIdentity u => 2 + (2 + u.primary.length) + (2 + u.secondary.length)

def userInfoLen : List UserVar → Nat
  | [] => 0
  | v :: r => 4 + uvContentLen v + userInfoLen r

def tsListLen : List Str → Nat
  | [] => 0
  | ts :: r => 4 + ts.length + tsListLen r

def pcProposedLen (pc : PcProposed) : Nat := 4 + (4 + pc.abstractSyntax.length) + tsListLen pc.transferSyntaxes
def pcResultLen (pc : PcResult) : Nat := 4 + (4 + pc.transferSyntax.length)

theorem writeUserVar_len {v : UserVar} {b : Bytes} (hw : writeUserVar v = .ok b) :
    b.length = 4 + uvContentLen v ∧ uvContentLen v ≤ 65535 := by
  cases v with
  | maxLength n =>
    simp only [writeUserVar] at hw
    obtain ⟨c, hc, hl, rfl⟩ := item16_ok.1 hw
    cases hc; simp [uvContentLen]
  | implClassUid s =>
    simp only [writeUserVar] at hw
    obtain ⟨c, hc, hl, rfl⟩ := item16_ok.1 hw
    obtain ⟨-, rfl⟩ := encodeText_ok.1 hc
    simp [uvContentLen, hl]; omega
  | implVersionName s =>
    simp only [writeUserVar] at hw
    obtain ⟨c, hc, hl, rfl⟩ := item16_ok.1 hw
    obtain ⟨-, rfl⟩ := encodeText_ok.1 hc
    simp [uvContentLen, hl]; omega
  | unknown t d =>
    simp only [writeUserVar] at hw
    obtain ⟨c, hc, hl, rfl⟩ := item16_ok.1 hw
    cases hc
    simp [uvContentLen, hl]; omega
  | roleSelection uid scu scp =>
    simp only [writeUserVar] at hw
    obtain ⟨c, hc, hl, rfl⟩ := item16_ok.1 hw
    obtain ⟨x, y, hx, hy, rfl⟩ := wcat_ok.1 hc
    cases hy
    obtain ⟨u, hu, hul, rfl⟩ := chunk16_ok.1 hx
    obtain ⟨-, rfl⟩ := encodeText_ok.1 hu
    simp [uvContentLen] at hl ⊢; omega
  | sopClassExt uid d =>
    simp only [writeUserVar] at hw
    obtain ⟨c, hc, hl, rfl⟩ := item16_ok.1 hw
    obtain ⟨x, y, hx, hy, rfl⟩ := wcat_ok.1 hc
    cases hy
    obtain ⟨u, hu, hul, rfl⟩ := chunk16_ok.1 hx
    obtain ⟨-, rfl⟩ := encodeText_ok.1 hu
    simp [uvContentLen] at hl ⊢; omega
  | userIdentity u =>
    simp only [writeUserVar] at hw
    obtain ⟨c, hc, hl, rfl⟩ := item16_ok.1 hw
    obtain ⟨x, y, hx, hy, rfl⟩ := wcat_ok.1 hc
    cases hx
    obtain ⟨p, q, hp, hq, rfl⟩ := wcat_ok.1 hy
    obtain ⟨p', hp', hpl, rfl⟩ := chunk16_ok.1 hp
    obtain ⟨q', hq', hql, rfl⟩ := chunk16_ok.1 hq
    cases hp'; cases hq'
    simp [uvContentLen] at hl ⊢; omega

theorem writeUserVarList_len (vs : List UserVar) : ∀ b, writeUserVarList vs = .ok b →
    b.length = userInfoLen vs ∧ ∀ v ∈ vs, uvContentLen v ≤ 65535 := by
  induction vs with
  | nil => intro b hw; simp [writeUserVarList] at hw; subst hw; simp [userInfoLen]
  | cons v vs ih =>
    intro b hw
    simp only [writeUserVarList] at hw
    obtain ⟨x, y, hx, hy, rfl⟩ := wcat_ok.1 hw
    obtain ⟨h1, h2⟩ := writeUserVar_len hx
    obtain ⟨h3, h4⟩ := ih y hy
    refine ⟨by simp [userInfoLen, h1, h3], ?_⟩
    intro w hw'
    rcases List.mem_cons.1 hw' with h | h
    · subst h; exact h2
    · exact h4 w h

theorem writeUserVars_fits {vs : List UserVar} {b : Bytes} (hw : writeUserVars vs = .ok b) :
    userInfoLen vs ≤ 65535 ∧ ∀ v ∈ vs, uvContentLen v ≤ 65535 := by
  by_cases hne : vs = []
  · subst hne; simp [userInfoLen]
  · have : vs.isEmpty = false := by cases vs <;> simp_all
    simp only [writeUserVars, this] at hw
    obtain ⟨c, hc, hl, rfl⟩ := item16_ok.1 hw
    obtain ⟨h1, h2⟩ := writeUserVarList_len vs c hc
    exact ⟨by omega, h2⟩

theorem writeTsList_len (tss : List Str) : ∀ b, writeTsList tss = .ok b → b.length = tsListLen tss := by
  induction tss with
  | nil => intro b hw; simp [writeTsList] at hw; subst hw; simp [tsListLen]
  | cons ts tss ih =>
    intro b hw
    simp only [writeTsList] at hw
    obtain ⟨x, y, hx, hy, rfl⟩ := wcat_ok.1 hw
    obtain ⟨c, hc, hl, rfl⟩ := item16_ok.1 hx
    obtain ⟨-, rfl⟩ := encodeText_ok.1 hc
    simp [tsListLen, ih y hy]; omega

theorem writePcProposed_fits {pc : PcProposed} {b : Bytes} (hw : writePcProposed pc = .ok b) :
    pcProposedLen pc ≤ 65535 := by
  simp only [writePcProposed] at hw
  obtain ⟨c, hc, hl, rfl⟩ := item16_ok.1 hw
  obtain ⟨x, y, hx, hy, rfl⟩ := wcat_ok.1 hc
  cases hx
  obtain ⟨p, q, hp, hq, rfl⟩ := wcat_ok.1 hy
  obtain ⟨a, ha, hal, rfl⟩ := item16_ok.1 hp
  obtain ⟨-, rfl⟩ := encodeText_ok.1 ha
  have := writeTsList_len _ q hq
  simp [pcProposedLen] at hl ⊢; omega

theorem writePcResult_fits {pc : PcResult} {b : Bytes} (hw : writePcResult pc = .ok b) :
    pcResultLen pc ≤ 65535 := by
  simp only [writePcResult] at hw
  obtain ⟨c, hc, hl, rfl⟩ := item16_ok.1 hw
  obtain ⟨x, y, hx, hy, rfl⟩ := wcat_ok.1 hc
  cases hx
  obtain ⟨a, ha, hal, rfl⟩ := item16_ok.1 hy
  obtain ⟨-, rfl⟩ := encodeText_ok.1 ha
  simp [pcResultLen] at hl ⊢; omega

theorem writePcProposedList_fits (pcs : List PcProposed) : ∀ b, writePcProposedList pcs = .ok b →
    ∀ pc ∈ pcs, pcProposedLen pc ≤ 65535 := by
  induction pcs with
  | nil => intro b _ pc h; simp at h
  | cons pc pcs ih =>
    intro b hw
    simp only [writePcProposedList] at hw
    obtain ⟨x, y, hx, hy, rfl⟩ := wcat_ok.1 hw
    intro w hw'
    rcases List.mem_cons.1 hw' with h | h
    · subst h; exact writePcProposed_fits hx
    · exact ih y hy w h

theorem writePcResultList_fits (pcs : List PcResult) : ∀ b, writePcResultList pcs = .ok b →
    ∀ pc ∈ pcs, pcResultLen pc ≤ 65535 := by
  induction pcs with
  | nil => intro b _ pc h; simp at h
  | cons pc pcs ih =>
    intro b hw
    simp only [writePcResultList] at hw
    obtain ⟨x, y, hx, hy, rfl⟩ := wcat_ok.1 hw
    intro w hw'
    rcases List.mem_cons.1 hw' with h | h
    · subst h; exact writePcResult_fits hx
    · exact ih y hy w h

/-- every 16-bit length field of an association PDU can express its content -/
def FitsAssoc {γ : Type} (pcLen : γ → Nat) (a : Assoc γ) : Prop :=
  a.acn.length ≤ 65535 ∧ (∀ pc ∈ a.pcs, pcLen pc ≤ 65535) ∧
    (∀ v ∈ a.uvs, uvContentLen v ≤ 65535) ∧ userInfoLen a.uvs ≤ 65535

theorem writeAssocBody_fits {γ : Type} {writePcs : List γ → W} {pcLen : γ → Nat} {a : Assoc γ} {body : Bytes}
    (hpcs : ∀ b, writePcs a.pcs = .ok b → ∀ pc ∈ a.pcs, pcLen pc ≤ 65535)
    (hw : writeAssocBody writePcs a = .ok body) : FitsAssoc pcLen a := by
  simp only [writeAssocBody] at hw
  obtain ⟨b0, r0, h0, hr0, rfl⟩ := wcat_ok.1 hw
  obtain ⟨ae1, r1, h1, hr1, rfl⟩ := wcat_ok.1 hr0
  obtain ⟨ae2, r2, h2, hr2, rfl⟩ := wcat_ok.1 hr1
  obtain ⟨z32, r3, h3, hr3, rfl⟩ := wcat_ok.1 hr2
  obtain ⟨x, r4, hx, hr4, rfl⟩ := wcat_ok.1 hr3
  obtain ⟨y, z, hy, hz, rfl⟩ := wcat_ok.1 hr4
  simp only [writeAcn] at hx
  obtain ⟨c, hc, hl, rfl⟩ := item16_ok.1 hx
  obtain ⟨-, rfl⟩ := encodeText_ok.1 hc
  obtain ⟨u1, u2⟩ := writeUserVars_fits hz
  exact ⟨hl, hpcs y hy, u2, u1⟩

/-- the sizes that `write_pdu` must be able to express -/
def FitsPdu : Pdu → Prop
  | .associationRQ a => FitsAssoc pcProposedLen a
  | .associationAC a => FitsAssoc pcResultLen a
  | _ => True

theorem write_ok_fits {p : Pdu} {bs : Bytes} (hw : writePdu p = .ok bs) : FitsPdu p := by
  obtain ⟨body, hb, hl, rfl⟩ := pdu32_ok.1 hw
  cases p with
  | associationRQ a => exact writeAssocBody_fits (writePcProposedList_fits a.pcs) hb
  | associationAC a => exact writeAssocBody_fits (writePcResultList_fits a.pcs) hb
  | _ => trivial

/-- **Oversize fails.** If the content of any item of an association PDU (application context,
a presentation context, a user variable, the user-information item as a whole) exceeds 65 535
bytes — more than its 16-bit length field can express — `write_pdu` returns an error and emits no
PDU. (Model of the repaired `write_chunk_u16`; the unrepaired cast is `chunk16Wrapping`.) -/
theorem oversize_fails {p : Pdu} (h : ¬ FitsPdu p) : ∀ bs, writePdu p ≠ .ok bs :=
  fun _ hw => h (write_ok_fits hw)

theorem oversize_user_variable_fails (a : Assoc PcProposed) (v : UserVar) (hv : v ∈ a.uvs)
    (hbig : 65535 < uvContentLen v) : ∀ bs, writePdu (.associationRQ a) ≠ .ok bs := by
  apply oversize_fails
  intro h
  have := h.2.2.1 v hv
  omega

/-- the mechanism, and what the unrepaired cast did instead: a wrong length in front of the data -/
theorem chunk16_rejects_oversize (b : Bytes) (h : 65535 < b.length) : chunk16 (.ok b) = .error .tooLong := by
  simp [chunk16]; omega

theorem chunk16Wrapping_truncates (b : Bytes) (h : 65535 < b.length) :
    ∃ n, n < 65536 ∧ n ≠ b.length ∧ chunk16Wrapping (.ok b) = .ok (be16 n ++ b) :=
  ⟨b.length % 65536, by omega, by omega, rfl⟩


/-! ### Framing for arbitrary buffers -/

/-- the PDU-length field of a buffer holding at least the 6 header bytes -/
def declaredLen : Bytes → Option Nat
  | _ :: _ :: a :: b :: c :: d :: _ => some (16777216 * a + 65536 * b + 256 * c + d)
  | _ => none

/-- `read_pdu` on a buffer with a complete header: framing decided by the length field alone -/
theorem readPdu_header (mx : Nat) (strict : Bool) (hmx : validMax mx) (t z a b c d : Nat) (body : Bytes) :
    readPdu mx strict (t :: z :: a :: b :: c :: d :: body) =
      (if strict = true ∧ mx < 16777216 * a + 65536 * b + 256 * c + d then .err .pduTooLarge
       else if body.length < 16777216 * a + 65536 * b + 256 * c + d then .inc
       else (readBody t (body.take (16777216 * a + 65536 * b + 256 * c + d))).bind
          (fun p => .ok (p, body.drop (16777216 * a + 65536 * b + 256 * c + d)))) := by
  have h1 : ¬ ¬ (minimumPduSize ≤ mx ∧ mx ≤ maximumPduSize) := fun h => h hmx
  have h2 : ¬ (List.length body + 1 + 1 + 1 + 1 + 1 + 1 < 2) := by omega
  have h3 : ¬ (List.length body + 1 + 1 + 1 + 1 < 4) := by omega
  unfold readPdu
  rw [if_neg h1]
  simp only [List.length_cons, if_neg h2, takeP, List.take_succ_cons, List.take_zero, List.drop_succ_cons,
    List.drop_zero, Res.bind_eq, Res.bind_ok, if_neg h3, u32P, List.headD]
  split
  · rfl
  · split
    · rfl
    · rfl

/-- **Incomplete exactly when bytes are missing.** For *any* buffer: `read_pdu` answers `Ok(None)`
iff the header is not complete, or the header is complete, the length is acceptable and fewer
body bytes than declared are present. A complete PDU — however malformed — is never "incomplete". -/
theorem incomplete_iff (mx : Nat) (strict : Bool) (hmx : validMax mx) (bs : Bytes) :
    readPdu mx strict bs = .inc ↔
      bs.length < 6 ∨ ∃ L, declaredLen bs = some L ∧ ¬ (strict = true ∧ mx < L) ∧ bs.length - 6 < L := by
  have h1 : ¬ ¬ (minimumPduSize ≤ mx ∧ mx ≤ maximumPduSize) := fun h => h hmx
  match bs with
  | [] => simp [readPdu, h1]
  | [_] => simp [readPdu, h1]
  | [_, _] => simp [readPdu, hmx.1, hmx.2, takeP]
  | [_, _, _] => simp [readPdu, hmx.1, hmx.2, takeP]
  | [_, _, _, _] => simp [readPdu, hmx.1, hmx.2, takeP]
  | [_, _, _, _, _] => simp [readPdu, hmx.1, hmx.2, takeP]
  | t :: z :: a :: b :: c :: d :: body =>
    rw [readPdu_header mx strict hmx]
    simp only [declaredLen, List.length_cons, Option.some.injEq, exists_eq_left']
    split
    · rename_i h; simp [h]
    · rename_i h
      split
      · rename_i h'; simp [h]; omega
      · rename_i h'
        have : (readBody t (List.take (16777216 * a + 65536 * b + 256 * c + d) body)).bind
            (fun p => Res.ok (p, List.drop (16777216 * a + 65536 * b + 256 * c + d) body)) ≠ .inc := by
          cases hb : readBody t (List.take (16777216 * a + 65536 * b + 256 * c + d) body) with
          | ok p => simp
          | inc => exact absurd hb (readBody_ne_inc _ _)
          | err e => simp
        simp [this]; omega

/-- **Exact framing for any input.** Whenever `read_pdu` returns a PDU it has consumed the 6 header
bytes and exactly the declared number of body bytes; the rest of the buffer is untouched. -/
theorem read_ok_framing (mx : Nat) (strict : Bool) (hmx : validMax mx) (bs : Bytes) (p : Pdu) (rest : Bytes)
    (h : readPdu mx strict bs = .ok (p, rest)) :
    ∃ L, declaredLen bs = some L ∧ rest = bs.drop (6 + L) ∧ 6 + L ≤ bs.length := by
  have h1 : ¬ ¬ (minimumPduSize ≤ mx ∧ mx ≤ maximumPduSize) := fun h => h hmx
  match bs, h with
  | [], h => simp [readPdu, h1] at h
  | [_], h => simp [readPdu, h1] at h
  | [_, _], h => simp [readPdu, hmx.1, hmx.2, takeP] at h
  | [_, _, _], h => simp [readPdu, hmx.1, hmx.2, takeP] at h
  | [_, _, _, _], h => simp [readPdu, hmx.1, hmx.2, takeP] at h
  | [_, _, _, _, _], h => simp [readPdu, hmx.1, hmx.2, takeP] at h
  | t :: z :: a :: b :: c :: d :: body, h =>
    rw [readPdu_header mx strict hmx] at h
    refine ⟨_, rfl, ?_⟩
    split at h
    · cases h
    · split at h
      · cases h
      · rename_i h'
        cases hb : readBody t (List.take (16777216 * a + 65536 * b + 256 * c + d) body) with
        | ok q =>
          simp [hb] at h
          refine ⟨?_, by simp; omega⟩
          rw [← h.2]
          have : 6 + (16777216 * a + 65536 * b + 256 * c + d) = (16777216 * a + 65536 * b + 256 * c + d) + 6 := by omega
          rw [this]
          rfl
        | inc => simp [hb] at h
        | err e => simp [hb] at h
/-! ### Exact round trip and non-vacuity -/

/-- a PDU already in the reader's normal form (titles ≤ 16 bytes, no surrounding white space) -/
abbrev IsNormal (p : Pdu) : Prop := normPdu p = p

/-- for PDUs in normal form the round trip is the identity -/
theorem pdu_rt_exact {p : Pdu} {bs : Bytes} (hwf : WellFormedPdu p) (hn : IsNormal p) (hw : writePdu p = .ok bs)
    (mx : Nat) (strict : Bool) (hmx : validMax mx) (hs : strict = true → bs.length - 6 ≤ mx) (r : Bytes) :
    readPdu mx strict (bs ++ r) = .ok (p, r) := by
  have := pdu_rt hwf hw mx strict hmx hs r
  rwa [hn] at this

/-- PDUs without text fields are always in normal form -/
theorem isNormal_of_no_text (p : Pdu) (h : (match p with | .associationRQ _ => false | .associationAC _ => false | _ => true) = true) :
    IsNormal p := by
  cases p <;> simp_all [IsNormal, normPdu]

def sampleRq : Pdu := .associationRQ
  { protocolVersion := 1, callingAe := [83, 67, 85], calledAe := [83, 67, 80], acn := [49, 46, 50],
    pcs := [⟨1, [49, 46, 50, 46, 51], [[49, 46, 50], [49, 46, 50, 46, 49]]⟩],
    uvs := [.maxLength 16384, .implClassUid [49, 46, 57], .roleSelection [49, 46, 50] true false,
            .sopClassExt [49, 46, 50] [1, 0], .userIdentity ⟨true, .usernamePassword, [117], [112]⟩,
            .unknown 0x53 [0, 0, 0, 1]] }

/-- the hypotheses of `pdu_rt`, `pdu_rt_exact`, `prefix_incomplete`, `lengths_consistent` are met by a
concrete association request exercising every user-variable kind -/
example : WellFormedPdu sampleRq ∧ IsNormal sampleRq ∧ validMax 16384 ∧
    (match writePdu sampleRq with | .ok bs => decide (bs.length = 175) | .error _ => false) = true :=
  ⟨by decide, by decide, ⟨by decide, by decide⟩, by decide⟩

/-- the well-formedness hypothesis is needed: an `Unknown` user variable carrying a known code
(here 0x51 with 2 bytes of data) is written but does not read back -/
theorem unknown_with_known_code_fails :
    ∃ bs, writePdu (.associationRQ ⟨1, [], [], [49], [], [.unknown 0x51 [0, 0]]⟩) = .ok bs ∧
      readPdu 16384 false bs ≠ .ok (.associationRQ ⟨1, [], [], [49], [], [.unknown 0x51 [0, 0]]⟩, []) := by
  refine ⟨_, rfl, ?_⟩
  decide

end Dicom.Pdu
